import Proofs.DateFormatLemmas
import Proofs.StdNoPanic
/-!
# Times: the calendar, `{{ t }}`, `ParseDate` and the filter `date` (`Liquid/Time.lean`, `Liquid/Filters/Date.lean`)

Property-level statements about the part of the model that describes `time.Time` values (UTC, whole
seconds: the harness realises `GoVal.time u` as `time.Unix(u, 0).UTC()`), `values.ParseDate` on the
all-digit layouts, and `tuesday.Strftime` behind the filter `date`. The no-panic part is also an input
of C01's `run_std_noPanic` (`dateImpls_noPanic` in `Proofs/StdNoPanic.lean`).

* **calendar**: day number ↔ civil date are inverse bijections between all integers and all valid
  proleptic Gregorian dates (`cal_days_civil_days`, `cal_civil_days_civil`), with 1 ≤ month ≤ 12,
  1 ≤ day ≤ length of the month, 0 ≤ second of the day < 86400 (`cal_civil_ranges`, `cal_instant_fields`),
  1 ≤ day of the year ≤ 365 or 366, 1 ≤ ISO week ≤ 53 (`cal_yearday_isoweek_range`);
* **no panic** in `date` on every receiver and argument list, in the printing of a time and in the
  conversions from and to a time; `Strftime` never reports an error;
* **`date` is `Strftime`** of the broken-down UTC time; **without an argument the format is
  `%a, %b %d, %y`**;
* **`%Y-%m-%d`** of a year 0..9999 is `dddd-dd-dd` and those digits are year, month and day: `ParseDate`
  reads it as the midnight of that day; **`%Y-%m-%d %H:%M:%S`** is read back by `ParseDate` as the
  instant itself, and is what `{{ t }}` prints before ` +0000`; conversely a `dddd-dd-dd` string that `ParseDate`
  accepts is printed back unchanged by `%Y-%m-%d` (`parse_then_strftime_ymd`);
* **`%s`** is the unix time (the text `strconv.ParseInt` reads back as it; the plain decimal text
  except for 0..9, which print with a leading zero); **`%%`** prints `%`.
-/

open DateF

/-- the name `date` -/
def dateName : Bytes := [100, 97, 116, 101]

/-! ## The calendar -/

/-- **day number → civil date → day number** is the identity on all integers (days from 1970-01-01,
    negative ones included). -/
theorem cal_days_civil_days (z : Int) :
    Cal.daysOfCivil (Cal.civilOfDays z).1 (Cal.civilOfDays z).2.1 (Cal.civilOfDays z).2.2 = z :=
  Cal.daysOfCivil_civilOfDays z

/-- **civil date → day number → civil date** is the identity on the valid dates of every year
    (proleptic Gregorian: year 0 and negative years included). -/
theorem cal_civil_days_civil (y : Int) (m d : Nat) (hm1 : 1 ≤ m) (hm : m ≤ 12) (hd1 : 1 ≤ d)
    (hd : d ≤ Cal.daysInMonth y m) : Cal.civilOfDays (Cal.daysOfCivil y m d) = (y, m, d) :=
  Cal.civilOfDays_daysOfCivil y m d hm1 hm hd1 hd

/-- **the civil date of every day number is a valid date.** -/
theorem cal_civil_ranges (z : Int) :
    1 ≤ (Cal.civilOfDays z).2.1 ∧ (Cal.civilOfDays z).2.1 ≤ 12 ∧ 1 ≤ (Cal.civilOfDays z).2.2 ∧
    (Cal.civilOfDays z).2.2 ≤ Cal.daysInMonth (Cal.civilOfDays z).1 (Cal.civilOfDays z).2.1 :=
  Cal.civil_ranges z

/-- **the fields of a broken-down instant**: a valid date, a clock time with hour < 24, minute < 60,
    second < 60 (so 0 ≤ second of the day < 86400), a weekday below 7; date and clock determine the instant. -/
theorem cal_instant_fields (u : Int) :
    1 ≤ (Cal.broken u).month ∧ (Cal.broken u).month ≤ 12 ∧ 1 ≤ (Cal.broken u).day ∧
    (Cal.broken u).day ≤ Cal.daysInMonth (Cal.broken u).year (Cal.broken u).month ∧
    (Cal.broken u).hour < 24 ∧ (Cal.broken u).min < 60 ∧ (Cal.broken u).sec < 60 ∧ (Cal.broken u).wday < 7 ∧
    Cal.secOfDay u < 86400 ∧
    u = Cal.daysOfCivil (Cal.broken u).year (Cal.broken u).month (Cal.broken u).day * 86400 +
          ((Cal.broken u).hour * 3600 + (Cal.broken u).min * 60 + (Cal.broken u).sec : Nat) := by
  obtain ⟨a, b, c, d, e⟩ := Cal.broken_date u
  obtain ⟨f, g, h, i, j⟩ := Cal.broken_clock u
  refine ⟨a, b, c, d, f, g, h, i, (Cal.secOfDay_lt u).1, ?_⟩
  rw [e]
  exact j

/-- **the day of the year** (`YearDay`, `%j`) of every instant is between 1 and 365, or 366 in a leap year, and
    **the ISO week number** (`ISOWeek`, `%V`) of every day is between 1 and 53. -/
theorem cal_yearday_isoweek_range (u z : Int) :
    1 ≤ (Cal.broken u).yday ∧ (Cal.broken u).yday ≤ (if Cal.isLeap (Cal.broken u).year then 366 else 365) ∧
    1 ≤ (Cal.isoWeek z).2 ∧ (Cal.isoWeek z).2 ≤ 53 :=
  ⟨(Cal.broken_yday u).1, (Cal.broken_yday u).2, (Cal.isoWeek_range z).1, (Cal.isoWeek_range z).2⟩

/-- **`%j` prints the day of the year** with three digits' zero padding, a number between 1 and 366. -/
theorem strftime_yday (u : Int) :
    strftime (Cal.broken u) fmtYday = .ok (fmtNum .zero 3 (Cal.broken u).yday) ∧
    1 ≤ (Cal.broken u).yday ∧ (Cal.broken u).yday ≤ 366 := by
  refine ⟨?_, (Cal.broken_yday u).1, ?_⟩
  · rw [strftime_eq_render, tokens_yday]
    simp only [render, directive_j, Res.bind, List.append_nil]
  · have := (Cal.broken_yday u).2
    split at this <;> omega

/-! Non-vacuity: 2000-02-29 12:00:00 is the instant 951825600, a Tuesday; the last second of the year −1 -/
example : Cal.broken 951825600 = { unix := 951825600, days := 11016, year := 2000, month := 2, day := 29, hour := 12, min := 0, sec := 0, wday := 2, yday := 60 } := by
  decide +kernel
example : ((Cal.broken (-62167219201)).year, (Cal.broken (-62167219201)).month, (Cal.broken (-62167219201)).day, (Cal.broken (-62167219201)).yday) = (-1, 12, 31, 365) := by
  decide +kernel
example : Cal.civilOfDays (Cal.daysOfCivil 1900 2 28 + 1) = (1900, 3, 1) ∧ Cal.civilOfDays (Cal.daysOfCivil 2000 2 28 + 1) = (2000, 2, 29) := by
  decide +kernel

/-! ## No panic -/

/-- **`x | date: args` never panics**, whatever the receiver and the arguments are (a value that is not
    a time or a date string, too many arguments, a format that does not convert: errors). -/
theorem date_filter_noPanic (recv : GoVal) (args : List GoVal) :
    NoPanicRes (applyFilter (lookupImpl stdFilterImpls) dateName recv args) :=
  applyFilter_noPanic stdFilterImpls_noPanic _ _ _

/-- **printing a time and converting from and to a time never panic**: `{{ t }}`, `fmt.Sprint(t)`,
    `Convert(t, string)`, `Convert(s, time.Time)` (`ParseDate`). -/
theorem time_values_noPanic (u : Int) (s : Bytes) :
    NoPanicRes (writeObject (.time u)) ∧ NoPanicRes (sprint (.time u)) ∧
    NoPanicRes (convert (.time u) .str) ∧ NoPanicRes (convert (.str s) .time) :=
  ⟨writeObject_noPanic _, sprint_noPanic _, convert_noPanic _ _, convert_noPanic _ _⟩

/-- **`Strftime` never panics and never reports an error** (the Go function's error result is always
    nil): the model's result is a text, or the marker of a width above the model's bound. -/
theorem strftime_ok_or_unmodelled (t : Cal.Broken) (f : Bytes) :
    (∃ out, strftime t f = .ok out) ∨ (∃ w, strftime t f = .unmodelled w) :=
  DateF.strftime_total t f

/-! ## `date` is `Strftime`; the default format -/

/-- the body registered under the name `date` in the standard table -/
theorem impl_date : lookupImpl stdFilterImpls dateName = some DateF.date := by with_unfolding_all rfl

/-- **`t | date: f` is `tuesday.Strftime(f, t)`** on the broken-down UTC time, through
    `ApplyFilter` + `values.Call`, for a time binding and a string format. -/
theorem date_filter_eq (u : Int) (f : Bytes) (hu : Cal.timeModelled u = true) :
    applyFilter (lookupImpl stdFilterImpls) dateName (.time u) [.str f] =
      (strftime (Cal.broken u) f).bind fun out => .ok (.str out) := by
  have hs : lookupSig dateName = some ⟨dateName, [.val .time, .fn .str], true⟩ := by decide +kernel
  unfold applyFilter
  simp only [hs, impl_date, List.length_cons, List.length_nil]
  have hc : convertArgs [.val .time, .fn .str] [.time u, .str f] =
      .ok [.val (.time u), .fn (some (.ok (.str f)))] := rfl
  simp only [show ¬ (0 + 1 + 1 > 0 + 1 + 1) by omega, if_false, hc, Res.bind, DateF.date, Arg.call, hu, if_true]
  cases strftime (Cal.broken u) f <;> rfl

/-- **the default format is `%a, %b %d, %y`**: `t | date` is `t | date: "%a, %b %d, %y"`. -/
theorem date_default_format (u : Int) :
    DateF.defaultFormat = [37, 97, 44, 32, 37, 98, 32, 37, 100, 44, 32, 37, 121] ∧
    applyFilter (lookupImpl stdFilterImpls) dateName (.time u) [] =
      applyFilter (lookupImpl stdFilterImpls) dateName (.time u) [.str DateF.defaultFormat] := by
  have hs : lookupSig dateName = some ⟨dateName, [.val .time, .fn .str], true⟩ := by decide +kernel
  refine ⟨rfl, ?_⟩
  unfold applyFilter
  simp only [hs, impl_date, List.length_cons, List.length_nil]
  have hc0 : convertArgs [.val .time, .fn .str] [.time u] = .ok [.val (.time u), .fn none] := rfl
  have hc1 : convertArgs [.val .time, .fn .str] [.time u, .str DateF.defaultFormat] =
      .ok [.val (.time u), .fn (some (.ok (.str DateF.defaultFormat)))] := rfl
  simp only [show ¬ (0 + 1 > 0 + 1 + 1) by omega, show ¬ (0 + 1 + 1 > 0 + 1 + 1) by omega, if_false, hc0, hc1,
    Res.bind, DateF.date, Arg.call]

/-! Non-vacuity: the epoch through the default format is `Thu, Jan 01, 70` -/
example : (match applyFilter (lookupImpl stdFilterImpls) dateName (.time 0) [] with
    | .ok (.str s) => s == [84, 104, 117, 44, 32, 74, 97, 110, 32, 48, 49, 44, 32, 55, 48]
    | _ => false) = true := by decide +kernel


/-! ## `%Y-%m-%d`, `%Y-%m-%d %H:%M:%S`, `{{ t }}` -/

/-- **`%Y-%m-%d` has the shape `dddd-dd-dd` and denotes the civil date.** For an instant in the years
    0..9999 the output is ten bytes: four ASCII digits that spell the year, a hyphen, two digits that spell
    the month, a hyphen, two digits that spell the day (`Cal.num4`/`Cal.num2` read exactly-that-many digits);
    `ParseDate` reads it back as the midnight that begins the day of the instant. -/
theorem strftime_ymd_shape (u : Int) (hy0 : 0 ≤ (Cal.broken u).year) (hy : (Cal.broken u).year ≤ 9999) :
    ∃ y1 y2 y3 y4 m1 m2 d1 d2 : UInt8,
      strftime (Cal.broken u) fmtDate = .ok [y1, y2, y3, y4, 45, m1, m2, 45, d1, d2] ∧
      (Cal.num4 y1 y2 y3 y4).map Int.ofNat = some (Cal.broken u).year ∧
      Cal.num2 m1 m2 = some (Cal.broken u).month ∧ Cal.num2 d1 d2 = some (Cal.broken u).day ∧
      Cal.parseDate [y1, y2, y3, y4, 45, m1, m2, 45, d1, d2] = .time (u / 86400 * 86400) := by
  obtain ⟨hm1, hm12, hd1, hdm, hdays⟩ := Cal.broken_date u
  have hd31 : (Cal.broken u).day ≤ 31 := by
    refine Nat.le_trans hdm ?_
    unfold Cal.daysInMonth; split
    · split <;> decide
    · split <;> decide
  generalize Cal.broken u = t at *
  obtain ⟨y, hyy⟩ : ∃ y : Nat, t.year = (y : Int) := ⟨t.year.toNat, by omega⟩
  have hy' : y < 10000 := by omega
  rw [strftime_eq_render, tokens_date]
  simp only [render, directive_Y, directive_m, directive_d, Res.bind, hyy,
    fmtNum_zero4 y hy', fmtNum_zero2 t.month (by omega), fmtNum_zero2 t.day (by omega)]
  obtain ⟨a, b, c, d, e4, n4⟩ := num4_pad4 y hy'
  obtain ⟨m1, m2, em, nm⟩ := num2_pad2 t.month (by omega)
  obtain ⟨d1, d2, ed, nd⟩ := num2_pad2 t.day (by omega)
  rw [e4, em, ed]
  refine ⟨a, b, c, d, m1, m2, d1, d2, rfl, by rw [n4]; rfl, nm, nd, ?_⟩
  rw [parseDate_date, n4, nm, nd]
  simp only [Cal.ofFields, Cal.instant]
  rw [hyy] at hdm hdays
  have hv : (1 ≤ t.month && t.month ≤ 12 && 1 ≤ t.day && t.day ≤ Cal.daysInMonth (y : Int) t.month && 0 < 24 && 0 < 60 && 0 < 60) = true := by
    simp [hm1, hm12, hd1, hdm]
  rw [if_pos hv, hdays]
  congr 1
  omega

/-- **format, then parse.** For an instant whose year has four digits, `%Y-%m-%d %H:%M:%S` prints 19 bytes
    that `ParseDate` (layout `2006-01-02 15:04:05`) reads back as the same instant. -/
theorem strftime_dateTime_parse (u : Int) (hy0 : 0 ≤ (Cal.broken u).year) (hy : (Cal.broken u).year ≤ 9999) :
    ∃ s, strftime (Cal.broken u) fmtDateTime = .ok s ∧ s.length = 19 ∧ Cal.parseDate s = .time u := by
  obtain ⟨hm1, hm12, hd1, hdm, hdays⟩ := Cal.broken_date u
  obtain ⟨hh, hmi, hs, _, hu⟩ := Cal.broken_clock u
  have hd31 : (Cal.broken u).day ≤ 31 := by
    refine Nat.le_trans hdm ?_
    unfold Cal.daysInMonth; split
    · split <;> decide
    · split <;> decide
  generalize Cal.broken u = t at *
  obtain ⟨y, hyy⟩ : ∃ y : Nat, t.year = (y : Int) := ⟨t.year.toNat, by omega⟩
  have hy' : y < 10000 := by omega
  rw [strftime_eq_render, tokens_dateTime]
  simp only [render, directive_Y, directive_m, directive_d, directive_H, directive_M, directive_S, Res.bind, hyy,
    fmtNum_zero4 y hy', fmtNum_zero2 t.month (by omega), fmtNum_zero2 t.day (by omega), fmtNum_zero2 t.hour (by omega),
    fmtNum_zero2 t.min (by omega), fmtNum_zero2 t.sec (by omega)]
  obtain ⟨a, b, c, d, e4, n4⟩ := num4_pad4 y hy'
  obtain ⟨m1, m2, em, nm⟩ := num2_pad2 t.month (by omega)
  obtain ⟨d1, d2, ed, nd⟩ := num2_pad2 t.day (by omega)
  obtain ⟨h1, h2, eh, nh⟩ := num2_pad2 t.hour (by omega)
  obtain ⟨i1, i2, ei, ni⟩ := num2_pad2 t.min (by omega)
  obtain ⟨s1, s2, es, ns⟩ := num2_pad2 t.sec (by omega)
  rw [e4, em, ed, eh, ei, es]
  refine ⟨_, rfl, rfl, ?_⟩
  show Cal.parseDate [a, b, c, d, 45, m1, m2, 45, d1, d2, 32, h1, h2, 58, i1, i2, 58, s1, s2] = _
  rw [parseDate_dateTime, n4, nm, nd, nh, ni, ns]
  simp only [Cal.ofFields, Cal.instant]
  rw [hyy] at hdm hdays
  have hv : (1 ≤ t.month && t.month ≤ 12 && 1 ≤ t.day && t.day ≤ Cal.daysInMonth (y : Int) t.month && t.hour < 24 && t.min < 60 && t.sec < 60) = true := by
    simp [hm1, hm12, hd1, hdm, hh, hmi, hs]
  rw [if_pos hv, hdays]
  congr 1
  omega


/-- **parse, then format.** A ten-byte string that `ParseDate` accepts (`dddd-dd-dd` with a valid date: layout
    `2006-01-02`) is printed back unchanged by `%Y-%m-%d` of the instant it denotes: on such strings
    `"s" | date: "%Y-%m-%d"` is the identity. -/
theorem parse_then_strftime_ymd (s : Bytes) (u : Int) (hl : s.length = 10) (hp : Cal.parseDate s = .time u) :
    strftime (Cal.broken u) fmtDate = .ok s :=
  parseDate_then_strftime_date s u hl hp

/-! Non-vacuity: `2024-02-29` is accepted and comes back; `2023-02-29` is rejected -/
example : Cal.parseDate [50, 48, 50, 52, 45, 48, 50, 45, 50, 57] = .time 1709164800 ∧
    Cal.parseDate [50, 48, 50, 51, 45, 48, 50, 45, 50, 57] = .reject := by decide +kernel

/-- **`{{ t }}` is `%Y-%m-%d %H:%M:%S` followed by ` +0000`** (years 0..9999; `time.Format` and `fmt`'s `%04d`
    differ on negative years: `-0001` and `-001`). -/
theorem writeObject_time_eq_strftime (u : Int) (hu : Cal.timeModelled u = true)
    (hy0 : 0 ≤ (Cal.broken u).year) (hy : (Cal.broken u).year ≤ 9999) :
    ∃ s, strftime (Cal.broken u) fmtDateTime = .ok s ∧ writeObject (.time u) = .ok (s ++ [32, 43, 48, 48, 48, 48]) := by
  refine ⟨timeDateClock (Cal.broken u), ?_, ?_⟩
  · generalize Cal.broken u = t at *
    obtain ⟨y, hyy⟩ : ∃ y : Nat, t.year = (y : Int) := ⟨t.year.toNat, by omega⟩
    rw [strftime_eq_render, tokens_dateTime]
    have hf4 : ∀ n : Nat, fmtNum .zero 4 (n : Int) = appendInt (n : Int) 4 := by
      intro n
      have : ¬ ((n : Int) < 0) := by omega
      simp [fmtNum, appendInt, this]
    have hf2 : ∀ n : Nat, fmtNum .zero 2 (n : Int) = appendInt (n : Int) 2 := by
      intro n
      have : ¬ ((n : Int) < 0) := by omega
      simp [fmtNum, appendInt, this]
    simp only [render, directive_Y, directive_m, directive_d, directive_H, directive_M, directive_S, Res.bind, hyy,
      hf4, hf2, timeDateClock, List.cons_append, List.append_assoc, List.append_nil]
  · simp only [writeObject, GoVal.toLiquid, writeObjectL, timeObjectText, hu, if_true]

/-! Non-vacuity: 1999-12-31 23:59:59 (a four-digit year) -/
example : (Cal.broken 946684799).year = 1999 := by decide +kernel
example : strftime (Cal.broken 946684799) fmtDateTime =
    .ok [49, 57, 57, 57, 45, 49, 50, 45, 51, 49, 32, 50, 51, 58, 53, 57, 58, 53, 57] := by decide +kernel

/-! ## `%s`, `%%` -/

/-- **`%s` prints the unix time**: the text is `fmt.Sprintf("%02d", t.Unix())` — the decimal digits of the
    instant, a minus sign when negative, and a leading zero for 0..9 — and `strconv.ParseInt` reads it
    back as the instant. -/
theorem strftime_unix (u : Int) :
    strftime (Cal.broken u) fmtUnix = .ok (fmtNum .zero 2 u) ∧
    (u < 0 ∨ 10 ≤ u → fmtNum .zero 2 u = intDec u) ∧
    (inInt64 u = true → parseInt10 (fmtNum .zero 2 u) = some u) := by
  refine ⟨?_, fmtNum_zero2_eq_intDec u, parseInt10_fmtNum_zero 2 u⟩
  rw [strftime_eq_render, tokens_unix]
  simp only [render, directive_s, Res.bind, List.append_nil]
  rfl

/-- **`%%` prints `%`**, for every time. -/
theorem strftime_percent (t : Cal.Broken) : strftime t fmtPercent = .ok [37] := by
  rw [strftime_eq_render, tokens_percent]
  rfl

example : strftime (Cal.broken 5) fmtUnix = .ok [48, 53] ∧ strftime (Cal.broken (-5)) fmtUnix = .ok [45, 53] := by decide +kernel
