import Proofs.ExprLexemes
/-!
# The merge conditions are exact (helper lemmas for `fits_exact`, `Proofs/C08Source.lean`)

`lexStep_lexeme` shows that `fits r l rest` is sufficient for the scanner to cut the lexeme `l` off;
here: it is necessary. When `fits` fails some rule matches more than `l.length` bytes of `l ++ rest`
(a longer number, identifier, keyword, property, operator or selector), so the longest match is longer.
-/

set_option linter.unusedSimpArgs false

/-- the winner is at least as long as every candidate -/
theorem foldl_bestStep_ge (ms : List (Rule × Option Nat)) :
    ∀ (init : Option (Rule × Nat)) (p : Rule × Nat), ms.foldl bestStep init = some p →
      (∀ q, init = some q → q.2 ≤ p.2) ∧ (∀ x ∈ ms, ∀ m, x.2 = some m → m ≤ p.2) := by
  induction ms with
  | nil =>
    intro init p h
    simp only [List.foldl_nil] at h
    exact ⟨(fun q hq => by rw [h] at hq; cases hq; exact Nat.le_refl _), (fun x hx => by cases hx)⟩
  | cons x xs ih =>
    intro init p h
    simp only [List.foldl_cons] at h
    obtain ⟨h1, h2⟩ := ih _ p h
    obtain ⟨r, m⟩ := x
    cases m with
    | none =>
      rw [bestStep_none] at h1
      refine ⟨h1, ?_⟩
      intro y hy k hk
      rcases List.mem_cons.1 hy with rfl | hy
      · cases hk
      · exact h2 y hy k hk
    | some m =>
      cases init with
      | none =>
        rw [bestStep_first] at h1
        refine ⟨(fun q hq => by cases hq), ?_⟩
        intro y hy k hk
        rcases List.mem_cons.1 hy with rfl | hy
        · simp only [Option.some.injEq] at hk; subst hk; exact h1 _ rfl
        · exact h2 y hy k hk
      | some q0 =>
        obtain ⟨r0, b0⟩ := q0
        rw [bestStep_some] at h1
        by_cases hgt : m > b0
        · simp only [hgt, if_true] at h1
          have := h1 _ rfl
          simp only at this
          refine ⟨(fun q hq => by cases hq; simp only; omega), ?_⟩
          intro y hy k hk
          rcases List.mem_cons.1 hy with rfl | hy
          · simp only [Option.some.injEq] at hk; subst hk; exact this
          · exact h2 y hy k hk
        · simp only [hgt, if_false] at h1
          have := h1 _ rfl
          simp only at this
          refine ⟨(fun q hq => by cases hq; exact this), ?_⟩
          intro y hy k hk
          rcases List.mem_cons.1 hy with rfl | hy
          · simp only [Option.some.injEq] at hk; subst hk; omega
          · exact h2 y hy k hk

/-- a candidate of the full rule list bounds the scanner's decision from below -/
theorem lexStep_ge (s : Bytes) (r0 : Rule) (n : Nat) (h : lexStep s = some (r0, n)) :
    ∀ x ∈ ruleMatches s, ∀ m, x.2 = some m → m ≤ n := by
  rw [lexStep_def] at h
  exact (foldl_bestStep_ge _ _ _ h).2

theorem mem_rInt (s : Bytes) : (Rule.rInt, intLen s) ∈ ruleMatches s := by simp [ruleMatches]
theorem mem_rFloat (s : Bytes) : (Rule.rFloat, floatLen s) ∈ ruleMatches s := by simp [ruleMatches]
theorem mem_rIdent (s : Bytes) : (Rule.rIdent, identLen s) ∈ ruleMatches s := by simp [ruleMatches]
theorem mem_rProperty (s : Bytes) : (Rule.rProperty, propertyLen s) ∈ ruleMatches s := by simp [ruleMatches]
theorem mem_rKeyword (s : Bytes) : (Rule.rKeyword, keywordLen s) ∈ ruleMatches s := by
  simp only [ruleMatches, keywordLen, List.mem_cons]
  right; right; right; right; right; right; right; right; right; right; right; right; right; right; right; right; right; right
  left; rfl
theorem mem_rDotdot (s : Bytes) : (Rule.rDotdot, litLen [46, 46] s) ∈ ruleMatches s := by simp [ruleMatches]
theorem mem_rEq (s : Bytes) : (Rule.rEq, litLen [61, 61] s) ∈ ruleMatches s := by simp [ruleMatches]
theorem mem_rNeq (s : Bytes) : (Rule.rNeq, litLen [33, 61] s) ∈ ruleMatches s := by simp [ruleMatches]
theorem mem_rGe (s : Bytes) : (Rule.rGe, litLen [62, 61] s) ∈ ruleMatches s := by simp [ruleMatches]
theorem mem_rLe (s : Bytes) : (Rule.rLe, litLen [60, 61] s) ∈ ruleMatches s := by simp [ruleMatches]
theorem mem_rAssign (s : Bytes) : (Rule.rAssign, litLen kwAssign s) ∈ ruleMatches s := by simp [ruleMatches]
theorem mem_rLoop (s : Bytes) : (Rule.rLoop, litLen kwLoop s) ∈ ruleMatches s := by simp [ruleMatches]
theorem mem_rCycle (s : Bytes) : (Rule.rCycle, litLen kwCycle s) ∈ ruleMatches s := by simp [ruleMatches]
theorem mem_rWhen (s : Bytes) : (Rule.rWhen, litLen kwWhen s) ∈ ruleMatches s := by simp [ruleMatches]

/-! ## A longer candidate whenever `fits` fails -/

theorem headOK_false {p : UInt8 → Bool} {rest : Bytes} (h : headOK p rest = false) :
    ∃ b t, rest = b :: t ∧ p b = false := by
  cases rest with
  | nil => simp [headOK] at h
  | cons b t => exact ⟨b, t, rfl, h⟩

theorem identLen_extend (c : UInt8) (body : Bytes) (b : UInt8) (t : Bytes) (hc : isIdStart c = true)
    (hb : body.all isIdCont = true) (hx : isIdCont b = true ∨ b = 63) :
    ∃ n, identLen (c :: (body ++ b :: t)) = some n ∧ body.length + 2 ≤ n := by
  rcases hx with hx | rfl
  · refine ⟨_, by simp only [identLen, hc, if_true]; rfl, ?_⟩
    rw [spanLen_append _ _ _ hb, spanLen_cons_true _ _ _ hx]
    omega
  · have hspan : spanLen isIdCont (body ++ 63 :: t) = body.length := by
      rw [spanLen_append _ _ _ hb]; simp [spanLen, isIdCont, isAlnum, isAlpha, isDigit]
    have hdrop : List.drop body.length (body ++ 63 :: t) = 63 :: t := List.drop_left' rfl
    refine ⟨_, by simp only [identLen, hc, if_true, hspan, hdrop]; rfl, ?_⟩
    omega

/-- a word that does not end in `?`, as `Lexeme.word` builds it, has no `?` part -/
theorem word_no_q (c : UInt8) (body qm : Bytes) (hqm : qm = [] ∨ qm = [63])
    (h : ((c :: body ++ qm).getLast? == some 63) = false) : qm = [] := by
  rcases hqm with rfl | rfl
  · rfl
  · exfalso
    have : (c :: body ++ [63]).getLast? = some 63 := by
      rw [show c :: body ++ [63] = (c :: body) ++ [63] from rfl, List.getLast?_append]; rfl
    rw [this] at h
    simp at h

theorem fitsWord_false (c : UInt8) (body qm rest : Bytes) (hc : isIdStart c = true) (hb : body.all isIdCont = true)
    (hqm : qm = [] ∨ qm = [63]) (hf : fitsWord (c :: body ++ qm) rest = false) :
    ∃ n, identLen (c :: body ++ qm ++ rest) = some n ∧ (c :: body ++ qm).length < n := by
  simp only [fitsWord, Bool.or_eq_false_iff] at hf
  have hq := word_no_q c body qm hqm hf.1
  subst hq
  obtain ⟨b, t, rfl, hbt⟩ := headOK_false hf.2
  have hx : isIdCont b = true ∨ b = 63 := by
    by_cases h1 : isIdCont b = true
    · exact Or.inl h1
    · right
      simp only [h1, Bool.not_false, Bool.true_and, bne_eq_false_iff_eq] at hbt
      simpa using hbt
  obtain ⟨n, hn, hle⟩ := identLen_extend c body b t hc hb hx
  refine ⟨n, by simpa using hn, ?_⟩
  simp only [List.append_nil, List.length_cons]
  omega

/-- **necessity of the merge conditions** -/
theorem fits_of_lexStep (r : Rule) (l rest : Bytes) (hl : Lexeme r l) (r' : Rule)
    (h : lexStep (l ++ rest) = some (r', l.length)) : fits r l rest = true := by
  have hge := lexStep_ge _ _ _ h
  cases hfit : fits r l rest with
  | true => rfl
  | false =>
    exfalso
    cases hl with
    | int sg ds hs hne hd =>
      simp only [fits, fitsInt, Bool.and_eq_false_iff] at hfit
      rcases hfit with hfit | hfit
      · obtain ⟨b, t, rfl, hbt⟩ := headOK_false hfit
        simp only [Bool.not_eq_false'] at hbt
        have hi := intLen_lexeme sg ds (b :: t) hs hne hd
        rw [spanLen_cons_true _ _ _ hbt] at hi
        have := hge _ (mem_rInt _) _ hi
        omega
      · split at hfit
        · rename_i d t
          simp only [Bool.not_eq_false'] at hfit
          have hi := intLen_lexeme sg ds (46 :: d :: t) hs hne hd
          have h46 : spanLen isDigit (46 :: d :: t) = 0 := by simp [spanLen, isDigit]
          rw [h46, Nat.add_zero] at hi
          have hfl : floatLen (sg ++ ds ++ 46 :: d :: t) = some ((sg ++ ds).length + 1 + (spanLen isDigit t + 1)) := by
            unfold floatLen
            rw [hi]
            have hdrop : List.drop (sg ++ ds).length (sg ++ ds ++ 46 :: d :: t) = 46 :: d :: t := List.drop_left' rfl
            dsimp only
            rw [hdrop]
            simp only [spanLen_cons_true _ _ _ hfit]
            simp
          have := hge _ (mem_rFloat _) _ hfl
          omega
        · cases hfit
    | float sg ds fs hs hne hd hfne hfd =>
      simp only [fits] at hfit
      obtain ⟨b, t, rfl, hbt⟩ := headOK_false hfit
      simp only [Bool.not_eq_false'] at hbt
      have hi := intLen_lexeme sg ds (46 :: fs ++ b :: t) hs hne hd
      have h46 : spanLen isDigit (46 :: fs ++ b :: t) = 0 := by simp [spanLen, isDigit]
      rw [h46, Nat.add_zero] at hi
      have hassoc : sg ++ ds ++ 46 :: fs ++ b :: t = sg ++ ds ++ (46 :: fs ++ b :: t) := by simp
      have hfl : floatLen (sg ++ ds ++ 46 :: fs ++ b :: t) =
          some ((sg ++ ds).length + 1 + (fs.length + (spanLen isDigit t + 1))) := by
        rw [hassoc]
        unfold floatLen
        rw [hi]
        have hdrop : List.drop (sg ++ ds).length (sg ++ ds ++ (46 :: fs ++ b :: t)) = 46 :: fs ++ b :: t :=
          List.drop_left' rfl
        dsimp only
        rw [hdrop]
        simp only [List.cons_append, spanLen_append _ _ _ hfd, spanLen_cons_true _ _ _ hbt]
        have : ¬ (fs.length + (spanLen isDigit t + 1) == 0) = true := by simp
        simp only [this, Bool.false_eq_true, if_false]
      have := hge _ (mem_rFloat _) _ hfl
      simp only [List.length_append, List.length_cons] at this
      omega
    | string q body hq hb => cases hfit
    | word c body qm hc hb hqm =>
      rw [fits_word] at hfit
      simp only [fitsIdent, Bool.and_eq_false_iff] at hfit
      by_cases hw : fitsWord (c :: body ++ qm) rest = true
      · have h58 : headOK (fun b => b != 58) rest = false := by
          rcases hfit with hfit | hfit
          · rw [hw] at hfit; cases hfit
          · exact hfit
        obtain ⟨b, t, rfl, hbt⟩ := headOK_false h58
        have hb58 : b = 58 := by simpa using hbt
        subst hb58
        have hid := identLen_lexeme c body qm (58 :: t) hc hb hqm hw
        have hk : keywordLen (c :: body ++ qm ++ 58 :: t) = some ((c :: body ++ qm).length + 1) := by
          rw [keywordLen_of_ident _ _ hid, List.drop_left' rfl]; rfl
        have := hge _ (mem_rKeyword _) _ hk
        omega
      · have hw' : fitsWord (c :: body ++ qm) rest = false := by simpa using hw
        obtain ⟨n, hn, hlt⟩ := fitsWord_false c body qm rest hc hb hqm hw'
        have := hge _ (mem_rIdent _) _ hn
        omega
    | keyword c body qm hc hb hqm => cases hfit
    | property c body qm hc hb hqm =>
      have hf' : fitsWord (c :: body ++ qm) rest = false := by
        simp only [fits, fitsWord] at hfit ⊢
        rw [List.cons_append, bytes_getLast?_cons_cons] at hfit
        exact hfit
      obtain ⟨n, hn, hlt⟩ := fitsWord_false c body qm rest hc hb hqm hf'
      have hp : propertyLen (46 :: (c :: body ++ qm) ++ rest) = some (n + 1) := by
        rw [List.cons_append, propertyLen_cons, hn]; rfl
      have := hge _ (mem_rProperty _) _ hp
      simp only [List.length_cons] at this hlt
      omega
    | op2 c hc =>
      simp only [isOpStart, Bool.or_eq_true, beq_iff_eq] at hc
      rcases hc with ((rfl | rfl) | rfl) | rfl <;> cases hfit
    | dotdot => cases hfit
    | punct c hc =>
      simp only [fits, fitsPunct] at hfit
      by_cases h1 : (c == 45) = true
      · simp only [h1, if_true] at hfit
        have := beq_iff_eq.1 h1; subst this
        obtain ⟨b, t, rfl, hbt⟩ := headOK_false hfit
        simp only [Bool.not_eq_false'] at hbt
        have hi : intLen ([45] ++ b :: t) = some (1 + (spanLen isDigit t + 1)) := by
          rw [List.singleton_append, intLen_minus, spanLen_cons_true _ _ _ hbt]; simp
        have := hge _ (mem_rInt _) _ hi
        simp only [List.length_singleton] at this
        omega
      simp only [h1, Bool.false_eq_true, if_false] at hfit
      by_cases h2 : (c == 46) = true
      · simp only [h2, if_true] at hfit
        have := beq_iff_eq.1 h2; subst this
        obtain ⟨b, t, rfl, hbt⟩ := headOK_false hfit
        simp only [Bool.and_eq_false_iff, bne_eq_false_iff_eq, Bool.not_eq_false'] at hbt
        rcases hbt with hbt | hbt
        · have hb46 : b = 46 := by simpa using hbt
          subst hb46
          have hd : litLen [46, 46] ([46] ++ 46 :: t) = some 2 := by simp [litLen_cons, litLen_nil]
          have := hge _ (mem_rDotdot _) _ hd
          simp only [List.length_singleton] at this
          omega
        · have hid : ∃ n, identLen (b :: t) = some n ∧ 1 ≤ n := by
            refine ⟨_, by simp only [identLen, hbt, if_true]; rfl, by omega⟩
          obtain ⟨k, hk, hk1⟩ := hid
          have hp : propertyLen ([46] ++ b :: t) = some (k + 1) := by
            rw [List.singleton_append, propertyLen_cons, hk]; rfl
          have := hge _ (mem_rProperty _) _ hp
          simp only [List.length_singleton] at this
          omega
      simp only [h2, Bool.false_eq_true, if_false] at hfit
      by_cases h3 : isOpStart c = true
      · simp only [h3, if_true] at hfit
        obtain ⟨b, t, rfl, hbt⟩ := headOK_false hfit
        have hb61 : b = 61 := by simpa using hbt
        subst hb61
        simp only [isOpStart, Bool.or_eq_true, beq_iff_eq] at h3
        rcases h3 with ((rfl | rfl) | rfl) | rfl
        · have hd : litLen [61, 61] ([61] ++ 61 :: t) = some 2 := by simp [litLen_cons, litLen_nil]
          have := hge _ (mem_rEq _) _ hd
          simp only [List.length_singleton] at this; omega
        · have hd : litLen [33, 61] ([33] ++ 61 :: t) = some 2 := by simp [litLen_cons, litLen_nil]
          have := hge _ (mem_rNeq _) _ hd
          simp only [List.length_singleton] at this; omega
        · have hd : litLen [62, 61] ([62] ++ 61 :: t) = some 2 := by simp [litLen_cons, litLen_nil]
          have := hge _ (mem_rGe _) _ hd
          simp only [List.length_singleton] at this; omega
        · have hd : litLen [60, 61] ([60] ++ 61 :: t) = some 2 := by simp [litLen_cons, litLen_nil]
          have := hge _ (mem_rLe _) _ hd
          simp only [List.length_singleton] at this; omega
      simp only [h3, Bool.false_eq_true, if_false] at hfit
      by_cases h4 : (c == 37) = true
      · simp only [h4, if_true, Bool.and_eq_false_iff] at hfit
        have := beq_iff_eq.1 h4; subst this
        rcases hfit with hfit | hfit
        · cases hm : litLen kwAssign (37 :: rest) with
          | none => rw [hm] at hfit; cases hfit
          | some m =>
            have hlen := (litLen_some _ _ _ hm).1
            have := hge _ (mem_rAssign _) _ (by simpa using hm)
            simp only [List.length_singleton] at this
            have : m = 8 := by rw [hlen]; rfl
            omega
        · cases hm : litLen kwLoop (37 :: rest) with
          | none => rw [hm] at hfit; cases hfit
          | some m =>
            have hlen := (litLen_some _ _ _ hm).1
            have := hge _ (mem_rLoop _) _ (by simpa using hm)
            simp only [List.length_singleton] at this
            have : m = 6 := by rw [hlen]; rfl
            omega
      simp only [h4, Bool.false_eq_true, if_false] at hfit
      by_cases h5 : (c == 123) = true
      · simp only [h5, if_true, Bool.and_eq_false_iff] at hfit
        have := beq_iff_eq.1 h5; subst this
        rcases hfit with hfit | hfit
        · cases hm : litLen kwCycle (123 :: rest) with
          | none => rw [hm] at hfit; cases hfit
          | some m =>
            have hlen := (litLen_some _ _ _ hm).1
            have := hge _ (mem_rCycle _) _ (by simpa using hm)
            simp only [List.length_singleton] at this
            have : m = 8 := by rw [hlen]; rfl
            omega
        · cases hm : litLen kwWhen (123 :: rest) with
          | none => rw [hm] at hfit; cases hfit
          | some m =>
            have hlen := (litLen_some _ _ _ hm).1
            have := hge _ (mem_rWhen _) _ (by simpa using hm)
            simp only [List.length_singleton] at this
            have : m = 7 := by rw [hlen]; rfl
            omega
      simp only [h5, Bool.false_eq_true, if_false] at hfit
      cases hfit
    | selAssign => cases hfit
    | selCycle => cases hfit
    | selLoop => cases hfit
    | selWhen => cases hfit
