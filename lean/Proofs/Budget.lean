import Proofs.ProgLemmas
import Liquid.Std
/-!
# The budgets of the executable model are not part of the semantics (helper lemmas for C11, C15, C12, C01)

Two numbers of the model have no counterpart in the Go code: `Cfg.budget` (the largest `b - a` for which `loopItems`
materialises the items of a loop over `(a..b)`) and the `budget` argument of `convert` (the same for the array
conversion of a range). They only keep the DRIVER from building a huge list. This file proves that they are
parameters of the execution and not of the meaning:

* an answer is `unmodelled` or it is the answer under every larger budget (`RLe`, `PLe`: the order "answers wherever
  the other answers, and the same");
* this holds for `loopItems` and `convert` (`loopItems_le`, `convert_le`), for a filter application
  (`applyFilter_le`), for evaluation (`evaluate_le`), for every node of a template (`renderNode_le`, with the include
  handler), and for a whole render (`run_le`): both budgets at once.
-/

/-! ## Results -/

/-- `r'` answers wherever `r` answers, and the same (`r` is `unmodelled`, or the two are equal) -/
def RLe {ε α : Type} (r r' : Res ε α) : Prop :=
  match r with
  | .unmodelled _ => True
  | _ => r = r'

theorem RLe.refl {ε α : Type} (r : Res ε α) : RLe r r := by cases r <;> simp [RLe]

theorem RLe.unm {ε α : Type} (w : String) (r' : Res ε α) : RLe (.unmodelled w) r' := trivial

theorem RLe.eq {ε α : Type} {r r' : Res ε α} (h : RLe r r') (hn : ∀ w, r ≠ .unmodelled w) : r' = r := by
  cases r with
  | unmodelled w => exact absurd rfl (hn w)
  | ok a => exact h.symm
  | err e => exact h.symm
  | panic w => exact h.symm

theorem RLe.bind {ε α β : Type} {r r' : Res ε α} {f g : α → Res ε β} (h : RLe r r') (hf : ∀ a, RLe (f a) (g a)) :
    RLe (r.bind f) (r'.bind g) := by
  cases r with
  | unmodelled w => exact RLe.unm _ _
  | ok a => have h' : Res.ok a = r' := h; subst h'; exact hf a
  | err e => have h' : Res.err e = r' := h; subst h'; exact RLe.refl _
  | panic w => have h' : Res.panic w = r' := h; subst h'; exact RLe.refl _

/-! ## Programs -/

/-- the same order on interaction trees: `q` does what `p` does, up to the point (if any) where `p` stops with
    `unmodelled` — for every answer of the writer -/
inductive PLe {α : Type} : Prog α → Prog α → Prop where
  | unm (w : String) (q : Prog α) : PLe (.unmodelled w) q
  | ret (a : α) : PLe (.ret a) (.ret a)
  | fail (e : RawErr) : PLe (.fail e) (.fail e)
  | panic (w : String) : PLe (.panic w) (.panic w)
  | call (b : Bytes) (k k' : WriteRes → Prog α) : (∀ r, PLe (k r) (k' r)) → PLe (.call b k) (.call b k')

theorem PLe.refl {α : Type} : ∀ p : Prog α, PLe p p
  | .ret a => .ret a
  | .fail e => .fail e
  | .panic w => .panic w
  | .unmodelled w => .unm w _
  | .call b k => .call b k k (fun r => PLe.refl (k r))

theorem PLe.bind {α β : Type} {p q : Prog α} {f g : α → Prog β} (h : PLe p q) (hf : ∀ a, PLe (f a) (g a)) :
    PLe (p.bind f) (q.bind g) := by
  induction h with
  | unm w q => exact .unm w _
  | ret a => exact hf a
  | fail e => exact .fail e
  | panic w => exact .panic w
  | call b k k' _ ih => exact .call b _ _ ih

theorem PLe.mapFail {α : Type} {p q : Prog α} (g : RawErr → RawErr) (h : PLe p q) : PLe (p.mapFail g) (q.mapFail g) := by
  induction h with
  | unm w q => exact .unm w _
  | ret a => exact .ret a
  | fail e => exact .fail _
  | panic w => exact .panic w
  | call b k k' _ ih => exact .call b _ _ ih

/-- against a writer that never fails: no answer, or the same output and the same outcome -/
theorem PLe.runPure {α : Type} {p q : Prog α} (h : PLe p q) :
    (∃ out w, p.runPure = (out, .unmodelled w)) ∨ q.runPure = p.runPure := by
  induction h with
  | unm w q => exact .inl ⟨[], w, rfl⟩
  | ret a => exact .inr rfl
  | fail e => exact .inr rfl
  | panic w => exact .inr rfl
  | call b k k' _ ih =>
    rcases ih .ok with ⟨out, w, h⟩ | h
    · left; exact ⟨b ++ out, w, by simp only [Prog.runPure, h]⟩
    · right; simp only [Prog.runPure, h]

/-! ## The render monad -/

def MLe {α : Type} (m m' : M α) : Prop := ∀ s, PLe (m s) (m' s)

theorem mle_refl {α : Type} (m : M α) : MLe m m := fun _ => PLe.refl _

theorem mle_bind {α β : Type} {m m' : M α} {f g : α → M β} (h : MLe m m') (hf : ∀ a, MLe (f a) (g a)) :
    MLe (m >>= f) (m' >>= g) := fun s => PLe.bind (h s) (fun ⟨a, s'⟩ => hf a s')

theorem mle_ofRes {α : Type} {r r' : Res Cause α} (h : RLe r r') : MLe (M.ofRes r) (M.ofRes r') := by
  cases r with
  | unmodelled w => intro s; exact .unm _ _
  | ok a => have h' : Res.ok a = r' := h; subst h'; exact mle_refl _
  | err e => have h' : Res.err e = r' := h; subst h'; exact mle_refl _
  | panic w => have h' : Res.panic w = r' := h; subst h'; exact mle_refl _

theorem mle_wrapFailAt {α : Type} (path : Bytes) (loc : Loc) {m m' : M α} (h : MLe m m') :
    MLe (wrapFailAt path loc m) (wrapFailAt path loc m') := fun s => PLe.mapFail _ (h s)

theorem mle_wrapAt (path : Bytes) (loc : Loc) {m m' : M Status} (h : MLe m m') :
    MLe (wrapAt path loc m) (wrapAt path loc m') := fun s => PLe.bind (PLe.mapFail _ (h s)) (fun _ => PLe.refl _)

/-- what `captureM` runs, and what it makes of the result -/
def captureInner {α : Type} (m : M α) (s : RS) : Prog (α × RS) :=
  (m { env := s.env, tw := {} }).bind (fun (a, s1) => (flushM s1).bind (fun (_, s2) => .ret (a, s2)))

def captureFinish {α : Type} (s : RS) : Bytes × Prog.Outcome (α × RS) → Prog ((α × Bytes) × RS)
  | (out, .ok (a, s2)) => .ret ((a, out), { s with env := s2.env })
  | (_, .err e) => .fail e
  | (_, .panic w) => .panic w
  | (_, .unmodelled w) => .unmodelled w

theorem captureM_eq {α : Type} (m : M α) (s : RS) : captureM m s = captureFinish s (captureInner m s).runPure := by
  unfold captureM captureInner
  simp only
  split <;> simp_all [captureFinish]

theorem mle_capture {α : Type} {m m' : M α} (h : MLe m m') : MLe (captureM m) (captureM m') := by
  intro s
  rw [captureM_eq, captureM_eq]
  have hi : PLe (captureInner m s) (captureInner m' s) := PLe.bind (h _) (fun _ => PLe.refl _)
  rcases hi.runPure with ⟨out, w, e⟩ | e
  · rw [e]; exact .unm _ _
  · rw [e]; exact PLe.refl _

/-! ## The two places where a budget is read -/

/-- **the items of a loop**: under a larger budget the same items, wherever the smaller one gave any -/
theorem loopItems_le {n m : Int} (h : n ≤ m) (v : GoVal) : RLe (loopItems n v) (loopItems m v) := by
  cases v <;> try exact RLe.refl _
  next a b =>
    simp only [loopItems]
    by_cases h1 : b - a > n
    · rw [if_pos h1]; exact RLe.unm _ _
    · rw [if_neg h1, if_neg (by omega)]; exact RLe.refl _

/-- a conversion to anything but `[]any` does not read the budget -/
theorem convert_budget_indep (v : GoVal) (t : ParamTy) (ht : t ≠ .anys) (n m : Int) : convert v t n = convert v t m := by
  cases t <;> first | rfl | exact absurd rfl ht

/-- **the array of a range**: under a larger budget the same array (or the same `TypeError` of `maxRangeArrayLen`),
    wherever the smaller one gave an answer -/
theorem convert_le {n m : Int} (h : n ≤ m) (v : GoVal) (t : ParamTy) : RLe (convert v t n) (convert v t m) := by
  by_cases ht : t = .anys
  · subst ht
    unfold convert
    simp only
    cases v.toLiquid <;> try exact RLe.refl _
    next a b =>
      simp only
      by_cases h0 : b - a + 1 > 10000000
      · rw [if_pos h0, if_pos h0]; exact RLe.refl _
      · rw [if_neg h0, if_neg h0]
        by_cases h1 : b - a > n
        · rw [if_pos h1]; exact RLe.unm _ _
        · rw [if_neg h1, if_neg (by omega)]; exact RLe.refl _
  · rw [convert_budget_indep v t ht n m]; exact RLe.refl _

/-! ## A filter application -/

/-- no default-function parameter has the type `[]any` (the lazy conversion of such a parameter is handed to the
    filter body unevaluated, so it must not depend on the budget) -/
def fnParamsOK (ps : List Param) : Bool := ps.all fun p => p != .fn .anys

theorem stdFilters_fnParamsOK : stdFilters.all (fun sg => fnParamsOK sg.params) = true := by decide

theorem lookupSig_fnParamsOK {name : Bytes} {sg : FilterSig} (h : lookupSig name = some sg) : fnParamsOK sg.params = true := by
  have hm : sg ∈ stdFilters := List.mem_of_find?_eq_some h
  exact (List.all_eq_true.mp stdFilters_fnParamsOK) sg hm

theorem convertArgs_le {n m : Int} (h : n ≤ m) : ∀ (ps : List Param) (as : List GoVal), fnParamsOK ps = true →
    RLe (convertArgs ps as n) (convertArgs ps as m)
  | [], _, _ => by rw [convertArgs, convertArgs]; exact RLe.refl _
  | .fn _ :: ps, [], hp => by
    rw [convertArgs, convertArgs]
    have hp' : fnParamsOK ps = true := by simp only [fnParamsOK, List.all_cons, Bool.and_eq_true] at hp ⊢; exact hp.2
    exact RLe.bind (convertArgs_le h ps [] hp') (fun _ => RLe.refl _)
  | .val t :: ps, [], hp => by
    rw [convertArgs, convertArgs]
    have hp' : fnParamsOK ps = true := by simp only [fnParamsOK, List.all_cons, Bool.and_eq_true] at hp ⊢; exact hp.2
    exact RLe.bind (convertArgs_le h ps [] hp') (fun _ => RLe.refl _)
  | .fn t :: ps, a :: as, hp => by
    rw [convertArgs, convertArgs]
    have hp' : fnParamsOK ps = true := by simp only [fnParamsOK, List.all_cons, Bool.and_eq_true] at hp ⊢; exact hp.2
    have ht : t ≠ .anys := by
      intro e; subst e
      simp [fnParamsOK] at hp
    rw [convert_budget_indep a t ht n m]
    exact RLe.bind (convertArgs_le h ps as hp') (fun _ => RLe.refl _)
  | .val t :: ps, a :: as, hp => by
    have hp' : fnParamsOK ps = true := by simp only [fnParamsOK, List.all_cons, Bool.and_eq_true] at hp ⊢; exact hp.2
    by_cases ha : a = .nil
    · subst ha
      rw [convertArgs, convertArgs]
      exact RLe.bind (convertArgs_le h ps as hp') (fun _ => RLe.refl _)
    · have e : ∀ k : Int, convertArgs (.val t :: ps) (a :: as) k =
          (convert a t k).bind fun c => (convertArgs ps as k).bind fun r => .ok (.val c :: r) := by
        intro k
        cases a <;> first | exact absurd rfl ha | rfl
      rw [e n, e m]
      exact RLe.bind (convert_le h a t) (fun _ => RLe.bind (convertArgs_le h ps as hp') (fun _ => RLe.refl _))

/-- **a filter application** (`ApplyFilter`: conversion of receiver and arguments, the call, the result): under a
    larger budget the same result or error, wherever the smaller one gave an answer — for every table of filter bodies -/
theorem applyFilter_le (impls : Bytes → Option FilterImpl) (name : Bytes) (recv : GoVal) (args : List GoVal) {n m : Int}
    (h : n ≤ m) : RLe (applyFilter impls name recv args n) (applyFilter impls name recv args m) := by
  unfold applyFilter
  cases hs : lookupSig name with
  | none => exact RLe.refl _
  | some sg =>
    simp only
    by_cases hl : (recv :: args).length > sg.params.length
    · rw [if_pos hl, if_pos hl]; exact RLe.refl _
    · rw [if_neg hl, if_neg hl]
      exact RLe.bind (convertArgs_le h _ _ (lookupSig_fnParamsOK hs)) (fun _ => RLe.refl _)

theorem evalFilter_le (impls : Bytes → Option FilterImpl) (name : Bytes) (recv : GoVal) (args : List GoVal) {n m : Int}
    (h : n ≤ m) : RLe (evalFilter impls name recv args n) (evalFilter impls name recv args m) := by
  unfold evalFilter
  exact RLe.bind (applyFilter_le impls name _ _ h) (fun _ => RLe.refl _)

/-! ## Evaluation -/

/-- two value layers that differ only in that the second answers more filter applications -/
structure PrimsLe (P P' : Prims) : Prop where
  equal : P'.equal = P.equal
  less : P'.less = P.less
  contains : P'.contains = P.contains
  equalFn : P'.equalFn = P.equalFn
  hasFilter : P'.hasFilter = P.hasFilter
  applyFilter : ∀ n r as, RLe (P.applyFilter n r as) (P'.applyFilter n r as)

theorem PrimsLe.refl (P : Prims) : PrimsLe P P := ⟨rfl, rfl, rfl, rfl, rfl, fun _ _ _ => RLe.refl _⟩

theorem stdPrimsB_le {n m : Int} (h : n ≤ m) : PrimsLe (stdPrimsB n) (stdPrimsB m) :=
  ⟨rfl, rfl, rfl, rfl, rfl, fun name r as => applyFilter_le _ name r as h⟩

mutual
theorem eval_le {P P' : Prims} (h : PrimsLe P P') (env : Env) : ∀ e : Expr, RLe (eval P env e) (eval P' env e)
  | .lit v => by rw [eval, eval]; exact RLe.refl _
  | .var x => by rw [eval, eval]; exact RLe.refl _
  | .prop e name => by
    rw [eval, eval]
    exact RLe.bind (eval_le h env e) (fun _ => RLe.refl _)
  | .index e i => by
    rw [eval, eval]
    exact RLe.bind (eval_le h env e) (fun _ => RLe.bind (eval_le h env i) (fun _ => RLe.refl _))
  | .range a b => by
    rw [eval, eval]
    refine RLe.bind (eval_le h env a) (fun va => ?_)
    cases va.intOf with
    | none => exact RLe.refl _
    | some x => exact RLe.bind (eval_le h env b) (fun vb => RLe.refl _)
  | .rel op a b => by
    rw [eval, eval]
    refine RLe.bind (eval_le h env a) (fun va => RLe.bind (eval_le h env b) (fun vb => ?_))
    rw [h.equal, h.less, h.contains]
    exact RLe.refl _
  | .and_ a b => by
    rw [eval, eval]
    refine RLe.bind (eval_le h env a) (fun va => ?_)
    by_cases ht : va.test = true
    · rw [if_pos ht, if_pos ht]; exact RLe.bind (eval_le h env b) (fun _ => RLe.refl _)
    · rw [if_neg ht, if_neg ht]; exact RLe.refl _
  | .or_ a b => by
    rw [eval, eval]
    refine RLe.bind (eval_le h env a) (fun va => ?_)
    by_cases ht : va.test = true
    · rw [if_pos ht, if_pos ht]; exact RLe.refl _
    · rw [if_neg ht, if_neg ht]; exact RLe.bind (eval_le h env b) (fun _ => RLe.refl _)
  | .filter e name args => by
    rw [eval, eval, h.hasFilter]
    by_cases hf : (!P.hasFilter name) = true
    · rw [if_pos hf, if_pos hf]; exact RLe.refl _
    · rw [if_neg hf, if_neg hf]
      exact RLe.bind (eval_le h env e) (fun _ => RLe.bind (evalList_le h env args) (fun _ => h.applyFilter _ _ _))
theorem evalList_le {P P' : Prims} (h : PrimsLe P P') (env : Env) :
    ∀ es : List Expr, RLe (evalList P env es) (evalList P' env es)
  | [] => by rw [evalList, evalList]; exact RLe.refl _
  | e :: es => by
    rw [evalList, evalList]
    exact RLe.bind (eval_le h env e) (fun _ => RLe.bind (evalList_le h env es) (fun _ => RLe.refl _))
end

theorem evaluate_le {P P' : Prims} (h : PrimsLe P P') (env : Env) (e : Expr) : RLe (evaluate P env e) (evaluate P' env e) := by
  have hl := eval_le h env e
  unfold evaluate
  cases hr : eval P env e with
  | unmodelled w => exact RLe.unm _ _
  | ok v => rw [hr] at hl; have h' : Res.ok v = eval P' env e := hl; rw [← h']; exact RLe.refl _
  | err c => rw [hr] at hl; have h' : Res.err c = eval P' env e := hl; rw [← h']; exact RLe.refl _
  | panic w => rw [hr] at hl; have h' : Res.panic w = eval P' env e := hl; rw [← h']; exact RLe.refl _

/-! ## Rendering -/

theorem mle_evalCond {P P' : Prims} (h : PrimsLe P P') (path : Bytes) (t : CondT) : MLe (evalCond P path t) (evalCond P' path t) := by
  unfold evalCond
  refine mle_bind (mle_refl _) (fun env => ?_)
  cases t with
  | always => exact mle_refl _
  | expr line e => exact mle_wrapFailAt _ _ (mle_bind (mle_ofRes (evaluate_le h env e)) (fun _ => mle_refl _))
  | notExpr line e => exact mle_wrapFailAt _ _ (mle_bind (mle_ofRes (evaluate_le h env e)) (fun _ => mle_refl _))

theorem mle_intModifier {P P' : Prims} (h : PrimsLe P P') (e : Option Expr) (loc : Loc) :
    MLe (intModifier P e loc) (intModifier P' e loc) := by
  unfold intModifier
  cases e with
  | none => exact mle_refl _
  | some ex => exact mle_bind (mle_refl _) (fun env => mle_bind (mle_ofRes (evaluate_le h env ex)) (fun v => mle_refl _))

theorem mle_tablerowCols {P P' : Prims} (h : PrimsLe P P') (tr : Bool) (cols : Option Expr) (loc : Loc) :
    MLe (tablerowCols P tr cols loc) (tablerowCols P' tr cols loc) := by
  unfold tablerowCols
  cases tr with
  | false => exact mle_refl _
  | true => exact mle_bind (mle_intModifier h _ _) (fun cv => mle_refl _)

theorem mle_iterate (var : Bytes) (cols : Option Nat) {body body' : M Status} (hb : MLe body body') (n : Nat) :
    ∀ xs i cyc, MLe (iterateM var cols body n xs i cyc) (iterateM var cols body' n xs i cyc) := by
  intro xs
  induction xs with
  | nil => intro i cyc; exact mle_refl _
  | cons x xs ih =>
    intro i cyc
    unfold iterateM
    refine mle_bind (mle_refl _) (fun _ => mle_bind (mle_refl _) (fun _ => mle_bind (mle_refl _) (fun _ =>
      mle_bind hb (fun st => mle_bind (mle_refl _) (fun _ => mle_bind (mle_refl _) (fun cur => ?_))))))
    cases st with
    | brk e => exact mle_refl _
    | done => exact ih _ _
    | cont e => exact ih _ _

theorem mle_loopIterate {P P' : Prims} (h : PrimsLe P P') (loc : Loc) (tr : Bool) (var : Bytes) (colsE : Option Expr)
    {bodyM bodyM' : M Status} (hb : MLe bodyM bodyM') (items : List GoVal) :
    MLe (loopIterate P loc tr var colsE bodyM items) (loopIterate P' loc tr var colsE bodyM' items) := by
  unfold loopIterate
  exact mle_bind (mle_tablerowCols h _ _ _) (fun cols => mle_bind (mle_refl _) (fun pl => mle_bind (mle_refl _) (fun pv =>
    mle_bind (mle_iterate _ _ hb _ _ _ _) (fun st => mle_refl _))))

/-- the `else` clauses of the two sides: both absent, or both present and related -/
def ElseLe (elseM elseM' : Option (M Status)) : Prop :=
  (elseM = none ∧ elseM' = none) ∨ ∃ a b, elseM = some a ∧ elseM' = some b ∧ MLe a b

theorem mle_loopDispatch {P P' : Prims} (h : PrimsLe P P') (loc : Loc) (tr : Bool) (var : Bytes) (colsE : Option Expr)
    {bodyM bodyM' : M Status} (hb : MLe bodyM bodyM') {elseM elseM' : Option (M Status)} (he : ElseLe elseM elseM')
    (items : List GoVal) :
    MLe (loopDispatch P loc tr var colsE bodyM elseM items) (loopDispatch P' loc tr var colsE bodyM' elseM' items) := by
  rcases he with ⟨rfl, rfl⟩ | ⟨a, b, rfl, rfl, hab⟩
  · cases items <;> exact mle_loopIterate h loc tr var colsE hb _
  · cases items with
    | nil => exact hab
    | cons x xs => exact mle_loopIterate h loc tr var colsE hb _

/-- **a loop node**: a larger budget (and a value layer that answers more) gives the same loop execution, wherever
    the smaller one gave an answer -/
theorem mle_loopRun {n m : Int} (hnm : n ≤ m) {P P' : Prims} (h : PrimsLe P P') (path : Bytes) (loc : Loc) (tr : Bool)
    (var : Bytes) (e : Expr) (mods : LoopMods) {bodyM bodyM' : M Status} (hb : MLe bodyM bodyM') (tooMany : Bool)
    {elseM elseM' : Option (M Status)} (he : ElseLe elseM elseM') :
    MLe (loopRun n P path loc tr var e mods bodyM tooMany elseM) (loopRun m P' path loc tr var e mods bodyM' tooMany elseM') := by
  unfold loopRun
  refine mle_wrapAt _ _ (mle_bind (mle_refl _) (fun env => mle_bind (mle_ofRes (evaluate_le h env e)) (fun v =>
    mle_bind (mle_ofRes (loopItems_le hnm v)) (fun items0 => mle_bind (mle_intModifier h _ _) (fun off =>
    mle_bind (mle_intModifier h _ _) (fun lim => ?_))))))
  cases tooMany with
  | true => exact mle_refl _
  | false => exact mle_loopDispatch h loc tr var _ hb he _

/-- the same context with a larger budget, a value layer that answers more, and an include handler that does -/
abbrev RCtx.raise (c : RCtx) (P' : Prims) (m : Int) (inc' : Nat → Bytes → Env → Prog (Status × Bytes)) : RCtx :=
  { c with P := P', cfg := { c.cfg with budget := m }, inc := inc' }

section
variable (c : RCtx) (P' : Prims) (m : Int) (inc' : Nat → Bytes → Env → Prog (Status × Bytes))
  (hP : PrimsLe c.P P') (hm : c.cfg.budget ≤ m) (hinc : ∀ line f env, PLe (c.inc line f env) (inc' line f env))
include hP hm hinc

mutual
theorem renderNode_le : ∀ nd : Node, MLe (renderNode c nd) (renderNode (c.raise P' m inc') nd)
  | .text line src => by unfold renderNode; exact mle_refl _
  | .obj line e => by
    unfold renderNode
    refine mle_wrapFailAt _ _ (mle_bind (mle_refl _) (fun env => mle_bind (mle_ofRes (evaluate_le hP env e)) (fun v => ?_)))
    exact mle_refl _
  | .raw slices => by unfold renderNode; exact mle_refl _
  | .trim true => by unfold renderNode; exact mle_refl _
  | .trim false => by unfold renderNode; exact mle_refl _
  | .assign line x e => by
    unfold renderNode
    exact mle_wrapFailAt _ _ (mle_bind (mle_refl _) (fun env => mle_bind (mle_ofRes (evaluate_le hP env e)) (fun v => mle_refl _)))
  | .capture line x body => by
    unfold renderNode
    exact mle_wrapAt _ _ (mle_bind (mle_capture (renderList_le body)) (fun r => mle_refl _))
  | .ifB line branches => by
    unfold renderNode
    exact mle_wrapAt _ _ (renderBranches_le branches)
  | .caseB line subject cases => by
    unfold renderNode
    exact mle_wrapAt _ _ (mle_bind (mle_refl _) (fun env => mle_bind (mle_ofRes (evaluate_le hP env subject))
      (fun sel => renderCases_le sel cases)))
  | .loop line tablerow var e mods body clauses => by
    unfold renderNode
    simp only
    match clauses with
    | [] => exact mle_loopRun hm hP _ _ _ _ _ _ (renderBlockBody_le body) _ (.inl ⟨rfl, rfl⟩)
    | [els] => exact mle_loopRun hm hP _ _ _ _ _ _ (renderBlockBody_le body) _ (.inr ⟨_, _, rfl, rfl, renderBlockBody_le els⟩)
    | _ :: _ :: _ => exact mle_loopRun hm hP _ _ _ _ _ _ (renderBlockBody_le body) _ (.inl ⟨rfl, rfl⟩)
  | .cycle line group v0 rest => by unfold renderNode; exact mle_refl _
  | .brk line => by unfold renderNode; exact mle_refl _
  | .cont line => by unfold renderNode; exact mle_refl _
  | .incl line args => by
    unfold renderNode
    refine mle_wrapAt _ _ (mle_bind (mle_refl _) (fun env => mle_bind (mle_refl _) (fun e =>
      mle_bind (mle_ofRes (evaluate_le hP env e)) (fun v => ?_))))
    cases v <;> try exact mle_refl _
    next rel =>
      refine mle_bind ?_ (fun r => mle_refl _)
      intro s
      exact PLe.bind (hinc _ _ _) (fun _ => PLe.refl _)
theorem renderList_le : ∀ ns : List Node, MLe (renderList c ns) (renderList (c.raise P' m inc') ns)
  | [] => by unfold renderList; exact mle_refl _
  | nd :: ns => by
    unfold renderList
    refine mle_bind (renderNode_le nd) (fun st => ?_)
    cases st with
    | done => exact renderList_le ns
    | brk e => exact mle_refl _
    | cont e => exact mle_refl _
theorem renderBlockBody_le (body : List Node) : MLe (renderBlockBody c body) (renderBlockBody (c.raise P' m inc') body) := by
  unfold renderBlockBody
  exact mle_bind (renderList_le body) (fun st => mle_refl _)
theorem renderBranches_le : ∀ bs : List (CondT × List Node), MLe (renderBranches c bs) (renderBranches (c.raise P' m inc') bs)
  | [] => by unfold renderBranches; exact mle_refl _
  | (t, body) :: rest => by
    unfold renderBranches
    refine mle_bind (mle_evalCond hP _ _) (fun b => ?_)
    cases b with
    | true => exact renderBlockBody_le body
    | false => exact renderBranches_le rest
theorem renderCases_le (sel : GoVal) : ∀ cs : List (Option (Nat × List Expr) × List Node),
    MLe (renderCases c sel cs) (renderCases (c.raise P' m inc') sel cs)
  | [] => by unfold renderCases; exact mle_refl _
  | (none, body) :: _ => by unfold renderCases; exact renderBlockBody_le body
  | (some (line, es), body) :: rest => by
    unfold renderCases
    refine mle_bind (mle_wrapFailAt _ _ (whenMatches_le sel es)) (fun hit => ?_)
    cases hit with
    | true => exact renderBlockBody_le body
    | false => exact renderCases_le sel rest
theorem whenMatches_le (sel : GoVal) : ∀ es : List Expr, MLe (whenMatches c sel es) (whenMatches (c.raise P' m inc') sel es)
  | [] => by unfold whenMatches; exact mle_refl _
  | e :: es => by
    unfold whenMatches
    refine mle_bind (mle_refl _) (fun env => mle_bind (mle_ofRes (evaluate_le hP env e)) (fun v => ?_))
    rw [show (c.raise P' m inc').P.equalFn = c.P.equalFn from hP.equalFn]
    refine mle_bind (mle_refl _) (fun eq => ?_)
    cases eq with
    | true => exact mle_refl _
    | false => exact whenMatches_le sel es
end

theorem renderRoot_le (root : List Node) (env : Env) : PLe (renderRoot c root env) (renderRoot (c.raise P' m inc') root env) := by
  unfold renderRoot
  exact PLe.bind (renderList_le c P' m inc' hP hm hinc root _) (fun _ => PLe.refl _)
end

/-! ## Included files, and a whole render -/

/-- the source `RenderFile` reads: the disk first, the cache only when the file does not exist -/
def budgetFileSource (fs : FS) (filename : Bytes) : Except Cause Bytes :=
  match fs.read filename with
  | .content b => .ok b
  | .notExist => (match fs.cache filename with
      | some b => .ok b
      | none => .error (.other "notExist"))
  | .otherError => .error .io

/-- what `RenderFile` makes of the render of the file -/
def budgetFileFinish : Bytes × Prog.Outcome Status → Prog (Status × Bytes)
  | (out, .ok .done) => .ret (.done, out)
  | (_, .ok st) => .ret (st, [])
  | (_, .err e) => .fail e
  | (_, .panic w) => .panic w
  | (_, .unmodelled w) => .unmodelled w

theorem renderFileWith_budget_eq (P : Prims) (O : OutPrims) (cfg : Cfg) (fs : FS) (inner : Nat → Bytes → Env → Prog (Status × Bytes))
    (line : Nat) (filename : Bytes) (env : Env) :
    renderFileWith P O cfg fs inner line filename env =
      match budgetFileSource fs filename with
      | .error c => .fail (.plain c)
      | .ok src =>
        match compileSource cfg.delims src line with
        | .err e => .fail (.located e)
        | .panic w => .panic w
        | .unmodelled w => .unmodelled w
        | .ok root => budgetFileFinish (renderRoot { P := P, O := O, cfg := cfg, inc := inner } root env).runPure := by
  unfold renderFileWith
  simp only
  change (match budgetFileSource fs filename with | .error c => _ | .ok src => _) = _
  cases budgetFileSource fs filename with
  | error c => rfl
  | ok src =>
    simp only
    cases compileSource cfg.delims src line with
    | err e => rfl
    | panic w => rfl
    | unmodelled w => rfl
    | ok root =>
      simp only
      split <;> simp_all [budgetFileFinish]

theorem renderFileWith_le {P P' : Prims} (hP : PrimsLe P P') (O : OutPrims) (cfg : Cfg) {m : Int} (hm : cfg.budget ≤ m) (fs : FS)
    {inner inner' : Nat → Bytes → Env → Prog (Status × Bytes)} (hi : ∀ l f e, PLe (inner l f e) (inner' l f e))
    (line : Nat) (filename : Bytes) (env : Env) :
    PLe (renderFileWith P O cfg fs inner line filename env)
      (renderFileWith P' O { cfg with budget := m } fs inner' line filename env) := by
  rw [renderFileWith_budget_eq, renderFileWith_budget_eq]
  cases budgetFileSource fs filename with
  | error c => exact PLe.refl _
  | ok src =>
    show PLe (match compileSource cfg.delims src line with
        | .err e => .fail (.located e) | .panic w => .panic w | .unmodelled w => .unmodelled w
        | .ok root => budgetFileFinish (renderRoot { P := P, O := O, cfg := cfg, inc := inner } root env).runPure)
      (match compileSource cfg.delims src line with
        | .err e => .fail (.located e) | .panic w => .panic w | .unmodelled w => .unmodelled w
        | .ok root => budgetFileFinish (renderRoot { P := P', O := O, cfg := { cfg with budget := m }, inc := inner' } root env).runPure)
    cases compileSource cfg.delims src line with
    | err e => exact PLe.refl _
    | panic w => exact PLe.refl _
    | unmodelled w => exact PLe.unm _ _
    | ok root =>
      have hr := renderRoot_le { P := P, O := O, cfg := cfg, inc := inner } P' m inner' hP hm hi root env
      rcases hr.runPure with ⟨out, w, e⟩ | e
      · show PLe (budgetFileFinish (renderRoot { P := P, O := O, cfg := cfg, inc := inner } root env).runPure) _
        rw [e]; exact PLe.unm _ _
      · show PLe _ (budgetFileFinish (renderRoot (RCtx.raise { P := P, O := O, cfg := cfg, inc := inner } P' m inner') root env).runPure)
        rw [e]; exact PLe.refl _

theorem incFuel_le {P P' : Prims} (hP : PrimsLe P P') (O : OutPrims) (cfg : Cfg) {m : Int} (hm : cfg.budget ≤ m) (fs : FS) :
    ∀ (fuel line : Nat) (f : Bytes) (env : Env),
      PLe (incFuel P O cfg fs fuel line f env) (incFuel P' O { cfg with budget := m } fs fuel line f env)
  | 0, _, _, _ => PLe.refl _
  | fuel + 1, line, f, env => by
    show PLe (renderFileWith P O cfg fs (incFuel P O cfg fs fuel) line f env)
      (renderFileWith P' O { cfg with budget := m } fs (incFuel P' O { cfg with budget := m } fs fuel) line f env)
    exact renderFileWith_le hP O cfg hm fs (incFuel_le hP O cfg hm fs fuel) line f env

theorem frender_le {P P' : Prims} (hP : PrimsLe P P') (O : OutPrims) (cfg : Cfg) {m : Int} (hm : cfg.budget ≤ m) (fs : FS)
    (fuel : Nat) (root : List Node) (env : Env) :
    PLe (frender P O cfg fs fuel root env) (frender P' O { cfg with budget := m } fs fuel root env) := by
  unfold frender
  exact PLe.bind (renderRoot_le (mkCtx P O cfg fs fuel) P' m (incFuel P' O { cfg with budget := m } fs fuel) hP hm
    (incFuel_le hP O cfg hm fs fuel) root env) (fun _ => PLe.refl _)

/-- **a whole render**: raise the loop budget and let the value layer answer more filter applications — the render
    gives the same output or the same error, unless it gave no answer (`unmodelled`) before -/
theorem run_le {P P' : Prims} (hP : PrimsLe P P') (O : OutPrims) (cfg : Cfg) {m : Int} (hm : cfg.budget ≤ m) (fs : FS)
    (fuel : Nat) (src : Bytes) (line : Nat) (env : Env) :
    (∃ w, run P O cfg fs fuel src line env = .unmodelled w) ∨
      run P' O { cfg with budget := m } fs fuel src line env = run P O cfg fs fuel src line env := by
  unfold run
  show (∃ w, (match compileSource cfg.delims src line with
      | .err e => RunResult.err e | .panic w => .panic w | .unmodelled w => .unmodelled w
      | .ok root => _) = RunResult.unmodelled w) ∨
    (match compileSource cfg.delims src line with
      | .err e => RunResult.err e | .panic w => .panic w | .unmodelled w => .unmodelled w
      | .ok root => _) = _
  cases compileSource cfg.delims src line with
  | err e => exact .inr rfl
  | panic w => exact .inr rfl
  | unmodelled w => exact .inl ⟨w, rfl⟩
  | ok root =>
    simp only
    rcases (frender_le hP O cfg hm fs fuel root env).runPure with ⟨out, w, e⟩ | e
    · left; exact ⟨w, by rw [e]⟩
    · right; rw [e]
