import Proofs.TraceLemmas
import Proofs.RenderStops
import Proofs.RunLemmas
import Proofs.C14
/-!
# Who is named by the error of a render: the trace of a node tree

`traceNode` / `traceList` / … walk the compiled tree in render order with the state, exactly as the renderer
does (the same branch is taken, the same items are visited, a sibling is reached only when the one before it
returned `done`), and record

* `calls`: for every `Write` call the fault-free render makes, the location the error carries when that call
  fails — the node that issued (or flushed) the write, seen through the wrapping of the enclosing blocks;
* `fin`: the location of the error (or of the `break`/`continue`) the fault-free render ends with — the
  innermost construct whose own evaluation failed, seen through the same wrapping.

The decisions (which branch, which items, which state comes next) are read off the fault-free run of the
sub-programs (`Prog.pureRet`); the locations are not: they come from the tree. `sp_renderNode` … prove by
induction over the tree that the renderer's interaction tree obeys the trace (`SpS`).
-/

/-! ## Small facts about programs -/

theorem SpS.failed (e : RawErr) : SpS (.fail e) ⟨[], some e.site⟩ :=
  ⟨⟨.fail e, fun e' he => by simp only [Prog.pureFail, Option.some.injEq] at he; rw [he]⟩,
   fun st s hr _ => by simp [Prog.pureRet] at hr⟩

theorem SpS.panicked (w : String) (t : Option Site) : SpS (.panic w) ⟨[], t⟩ :=
  ⟨⟨.panic w, fun e he => by simp [Prog.pureFail] at he⟩, fun st s hr _ => by simp [Prog.pureRet] at hr⟩

theorem SpS.unmodelledP (w : String) (t : Option Site) : SpS (.unmodelled w) ⟨[], t⟩ :=
  ⟨⟨.unmodelled w, fun e he => by simp [Prog.pureFail] at he⟩, fun st s hr _ => by simp [Prog.pureRet] at hr⟩

/-- a continuation that only hands the status on (and may change the state) leaves the trace as it is -/
theorem SpS.bind_same {p : Prog (Status × RS)} {f : Status × RS → Prog (Status × RS)} {t : Tr}
    (h : SpS p t) (hf : ∀ x, ∃ s', f x = .ret (x.1, s')) : SpS (p.bind f) t := by
  refine ⟨⟨?_, fun e he => ?_⟩, fun st s hr hne => ?_⟩
  · have := IoAt.bind (f := f) (fun _ => []) h.io (fun a _ => by obtain ⟨s', hs⟩ := hf a; rw [hs]; exact .ret _)
    cases hr : p.pureRet <;> rw [hr] at this <;> simpa using this
  · rw [Prog.pureFail_bind] at he
    cases hr : p.pureRet with
    | none => rw [hr] at he; exact h.fin e he
    | some a => rw [hr] at he; obtain ⟨s', hs⟩ := hf a; simp [hs, Prog.pureFail] at he
  · rw [Prog.pureRet_bind] at hr
    cases hp : p.pureRet with
    | none => rw [hp] at hr; simp at hr
    | some a =>
      rw [hp] at hr
      obtain ⟨s', hs⟩ := hf a
      simp only [Option.bind_some, hs, Prog.pureRet, Option.some.injEq, Prod.mk.injEq] at hr
      obtain ⟨a1, a2⟩ := a
      have h1 : a1 = st := hr.1
      subst h1
      exact h.sent a1 a2 hp hne

/-- a piece of work followed by `done` -/
theorem SpS.bind_done {α} {p : Prog α} {f : α → Prog (Status × RS)} {t : Tr}
    (h : Sp p t) (hf : ∀ x, ∃ s', f x = .ret (.done, s')) : SpS (p.bind f) t := by
  refine ⟨⟨?_, fun e he => ?_⟩, fun st s hr hne => ?_⟩
  · have := IoAt.bind (f := f) (fun _ => []) h.io (fun a _ => by obtain ⟨s', hs⟩ := hf a; rw [hs]; exact .ret _)
    cases hr : p.pureRet <;> rw [hr] at this <;> simpa using this
  · rw [Prog.pureFail_bind] at he
    cases hr : p.pureRet with
    | none => rw [hr] at he; exact h.fin e he
    | some a => rw [hr] at he; obtain ⟨s', hs⟩ := hf a; simp [hs, Prog.pureFail] at he
  · rw [Prog.pureRet_bind] at hr
    cases hp : p.pureRet with
    | none => rw [hp] at hr; simp at hr
    | some a =>
      rw [hp] at hr
      obtain ⟨s', hs⟩ := hf a
      simp only [Option.bind_some, hs, Prog.pureRet, Option.some.injEq, Prod.mk.injEq] at hr
      exact absurd hr.1.symm hne

theorem ownTr_mapFail {α} (loc : Loc) (g : RawErr → RawErr) (p : Prog α) : ownTr loc (p.mapFail g) = ownTr loc p := by
  simp only [ownTr, Prog.calls_mapFail, Prog.pureFail_mapFail, Option.map_map]
  rfl

/-- a node's own work, wrapped at the node, and what follows it -/
theorem SpS.bindOwn {loc : Loc} {α} {p : Prog α} {f : α → Prog (Status × RS)} {t2 : α → Tr} (path : Bytes)
    (hp : Own loc p) (hf : ∀ a, p.pureRet = some a → SpS (f a) (t2 a)) :
    SpS ((p.mapFail (fun e => .located (wrapError path e loc))).bind f) ((ownTr loc p).bind p.pureRet t2) := by
  have := SpS.bind (f := f) (t2 := t2) (Own.sp_wrap path hp) (fun a ha => hf a (by rwa [Prog.pureRet_mapFail] at ha))
  rwa [Prog.pureRet_mapFail] at this

/-! ## Loops -/

/-- what one iteration does before the body: bind the variable and `forloop`, open the cell -/
def iterPre (var : Bytes) (cols : Option Nat) (n : Nat) (x : GoVal) (i : Nat) (cyc : List (GoVal × GoVal)) : M Unit := do
  M.setVar var x
  M.setVar nmForloop (forloopRec i n cyc)
  (match cols with
   | some c => tablerowBefore c i
   | none => pure ())

/-- …and after it: close the cell, read `forloop` back -/
def iterPost (cols : Option Nat) (n i : Nat) : M GoVal := do
  (match cols with
   | some c => tablerowAfter c i n
   | none => pure ())
  M.getVar nmForloop

theorem M.bind_assoc {α β γ} (m : M α) (f : α → M β) (g : β → M γ) :
    (m >>= f) >>= g = m >>= fun a => f a >>= g := by
  funext s
  simp only [M.bind_apply, Prog.bind_assoc]

theorem iterateM_cons_pre (var : Bytes) (cols : Option Nat) (body : M Status) (n : Nat) (x : GoVal) (xs : List GoVal)
    (i : Nat) (cyc : List (GoVal × GoVal)) :
    iterateM var cols body n (x :: xs) i cyc =
      (iterPre var cols n x i cyc >>= fun _ => body >>= fun st => iterPost cols n i >>= fun cur =>
        match st with
        | .brk _ => pure .done
        | _ => iterateM var cols body n xs (i + 1) (match cyclesOf cur with | some (c, _) => c | none => cyc)) := by
  conv => lhs; unfold iterateM
  simp only [iterPre, iterPost, M.bind_assoc]
  rfl

/-- the iterations of one loop execution: the cells of a tablerow are written by the loop itself (not yet
    located: `pieceTr`), the body says where its own writes and failures are; a `break` ends the loop, a
    `continue` and a normal end go on with the next item -/
def iterTrace (var : Bytes) (cols : Option Nat) (bodyM : M Status) (bodyT : RS → Tr) (n : Nat) :
    List GoVal → Nat → List (GoVal × GoVal) → RS → Tr
  | [], _, _, _ => {}
  | x :: xs, i, cyc, s =>
    (pieceTr (iterPre var cols n x i cyc s)).bind (iterPre var cols n x i cyc s).pureRet fun a =>
    (bodyT a.2).bind (bodyM a.2).pureRet fun b =>
    (pieceTr (iterPost cols n i b.2)).bind (iterPost cols n i b.2).pureRet fun d =>
      match b.1 with
      | .brk _ => {}
      | _ => iterTrace var cols bodyM bodyT n xs (i + 1) (match cyclesOf d.1 with | some (c, _) => c | none => cyc) d.2

theorem ownM_iterPre (var : Bytes) (cols : Option Nat) (n : Nat) (x : GoVal) (i : Nat) (cyc : List (GoVal × GoVal)) :
    OwnM invalidLoc (iterPre var cols n x i cyc) := by
  unfold iterPre
  refine ownM_bind (ownM_setVar _ _) (fun _ => ownM_bind (ownM_setVar _ _) (fun _ => ?_))
  cases cols with
  | none => exact ownM_pure _
  | some c => exact ownM_tablerowBefore c i

theorem ownM_iterPost (cols : Option Nat) (n i : Nat) : OwnM invalidLoc (iterPost cols n i) := by
  unfold iterPost
  refine ownM_bind ?_ (fun _ => ownM_getVar _)
  cases cols with
  | none => exact ownM_pure _
  | some c => exact ownM_tablerowAfter c i n

theorem sp_iterate (var : Bytes) (cols : Option Nat) (bodyM : M Status) (bodyT : RS → Tr)
    (hb : ∀ s, SpS (bodyM s) (bodyT s)) (n : Nat) :
    ∀ xs i cyc s, SpS (iterateM var cols bodyM n xs i cyc s) (iterTrace var cols bodyM bodyT n xs i cyc s) := by
  intro xs
  induction xs with
  | nil =>
    intro i cyc s
    unfold iterateM iterTrace
    exact SpS.retDone s none
  | cons x xs ih =>
    intro i cyc s
    rw [iterateM_cons_pre]
    unfold iterTrace
    simp only [M.bind_apply]
    refine SpS.bind (Own.sp_piece (ownM_iterPre var cols n x i cyc s)) (fun a _ => ?_)
    refine SpS.bind (hb a.2).toSp (fun b _ => ?_)
    refine SpS.bind (Own.sp_piece (ownM_iterPost cols n i b.2)) (fun d _ => ?_)
    obtain ⟨st, s2⟩ := b
    cases st with
    | brk e => exact SpS.retDone _ none
    | done => exact ih _ _ _
    | cont e => exact ih _ _ _

/-- the head of a loop: collection, iterator, `offset`, `limit`, the clause-count check; the items selected -/
def loopHeader (budget : Int) (P : Prims) (loc : Loc) (e : Expr) (mods : LoopMods) (tooMany : Bool) : M (List GoVal) := do
  let env ← M.getEnv
  let v ← M.ofRes (evaluate P env e)
  let items0 ← M.ofRes (loopItems budget v)
  let off ← intModifier P mods.offset loc
  let lim ← intModifier P mods.limit loc
  if tooMany then M.fail (.plain (.other "forElse")) else pure (selectItems mods.reversed off lim items0)

theorem loopRun_header {budget : Int} (P : Prims) (path : Bytes) (loc : Loc) (tablerow : Bool) (var : Bytes) (e : Expr) (mods : LoopMods)
    (bodyM : M Status) (tooMany : Bool) (elseM : Option (M Status)) :
    loopRun budget P path loc tablerow var e mods bodyM tooMany elseM =
      wrapAt path loc (loopHeader budget P loc e mods tooMany >>= fun items =>
        loopDispatch P loc tablerow var mods.cols bodyM elseM items) := by
  unfold loopRun loopHeader
  congr 1
  simp only [M.bind_assoc]
  cases tooMany
  · rfl
  · rfl

theorem ownM_loopHeader {budget : Int} (P : Prims) (loc : Loc) (e : Expr) (mods : LoopMods) (tooMany : Bool) :
    OwnM loc (loopHeader budget P loc e mods tooMany) := by
  unfold loopHeader
  refine ownM_bind ownM_getEnv (fun env => ownM_bind (ownM_ofRes _) (fun v => ownM_bind (ownM_ofRes _) (fun items0 =>
    ownM_bind (ownM_intModifier _ _) (fun off => ownM_bind (ownM_intModifier _ _) (fun lim => ?_)))))
  split
  · exact ownM_failPlain _
  · exact ownM_pure _

/-- one execution of a `for`/`tablerow` block. A failure of the head is located at the loop tag; with nothing
    selected the `else` clause runs; otherwise the columns are read (a failure there: at the tag) and the items
    are visited. Everything below is seen through the wrapping of the loop tag. -/
def loopTrace (budget : Int) (P : Prims) (path : Bytes) (loc : Loc) (tablerow : Bool) (var : Bytes) (e : Expr) (mods : LoopMods)
    (bodyM : M Status) (bodyT : RS → Tr) (tooMany : Bool) (elseT : Option (RS → Tr)) (s : RS) : Tr :=
  (ownTr loc (loopHeader budget P loc e mods tooMany s)).bind (loopHeader budget P loc e mods tooMany s).pureRet fun a =>
    match a.1, elseT with
    | [], some t => (t a.2).wrap path loc
    | items, _ =>
      (ownTr loc (tablerowCols P tablerow mods.cols loc a.2)).bind (tablerowCols P tablerow mods.cols loc a.2).pureRet fun b =>
        (iterTrace var b.1 bodyM bodyT items.length items 0 [] b.2).wrap path loc

theorem iterate_done (var : Bytes) (cols : Option Nat) (body : M Status) (n : Nat) :
    ∀ xs i cyc s st s', (iterateM var cols body n xs i cyc s).pureRet = some (st, s') → st = .done := by
  intro xs
  induction xs with
  | nil =>
    intro i cyc s st s' h
    unfold iterateM at h
    simp only [pure, M.pure, Prog.pureRet, Option.some.injEq, Prod.mk.injEq] at h
    exact h.1.symm
  | cons x xs ih =>
    intro i cyc s st s' h
    rw [iterateM_cons_pre] at h
    simp only [M.bind_apply, Prog.pureRet_bind] at h
    cases h1 : (iterPre var cols n x i cyc s).pureRet with
    | none => rw [h1] at h; simp at h
    | some a =>
      rw [h1] at h
      simp only [Option.bind_some] at h
      cases h2 : (body a.2).pureRet with
      | none => rw [h2] at h; simp at h
      | some b =>
        rw [h2] at h
        simp only [Option.bind_some] at h
        cases h3 : (iterPost cols n i b.2).pureRet with
        | none => rw [h3] at h; simp at h
        | some d =>
          rw [h3] at h
          simp only [Option.bind_some] at h
          obtain ⟨bst, bs⟩ := b
          cases bst with
          | brk e =>
            simp only [pure, M.pure, Prog.pureRet, Option.some.injEq, Prod.mk.injEq] at h
            exact h.1.symm
          | done => exact ih _ _ _ _ _ h
          | cont e => exact ih _ _ _ _ _ h

theorem sp_loopRun {budget : Int} (P : Prims) (path : Bytes) (loc : Loc) (tablerow : Bool) (var : Bytes) (e : Expr) (mods : LoopMods)
    (bodyM : M Status) (bodyT : RS → Tr) (hb : ∀ s, SpS (bodyM s) (bodyT s)) (tooMany : Bool)
    (elseM : Option (M Status)) (elseT : Option (RS → Tr))
    (he : match elseM, elseT with
      | some m, some t => ∀ s, SpS (m s) (t s)
      | none, none => True
      | _, _ => False) (s : RS) :
    SpS (loopRun budget P path loc tablerow var e mods bodyM tooMany elseM s)
      (loopTrace budget P path loc tablerow var e mods bodyM bodyT tooMany elseT s) := by
  rw [loopRun_header, wrapAt_bind]
  unfold loopTrace
  rw [wrapFailAt_apply]
  refine SpS.bindOwn path (ownM_loopHeader P loc e mods tooMany s) (fun a _ => ?_)
  obtain ⟨items, s1⟩ := a
  have hiter : SpS (wrapAt path loc (loopIterate P loc tablerow var mods.cols bodyM items) s1)
      ((ownTr loc (tablerowCols P tablerow mods.cols loc s1)).bind (tablerowCols P tablerow mods.cols loc s1).pureRet fun b =>
        (iterTrace var b.1 bodyM bodyT items.length items 0 [] b.2).wrap path loc) := by
    unfold loopIterate
    rw [wrapAt_bind, wrapFailAt_apply]
    refine SpS.bindOwn path (ownM_tablerowCols P tablerow mods.cols s1) (fun b _ => ?_)
    obtain ⟨cols, s2⟩ := b
    refine SpS.wrapped path loc ?_
    simp only [M.bind_apply, M.getVar, Prog.bind]
    exact SpS.bind_same (sp_iterate var cols bodyM bodyT hb items.length items 0 [] s2)
      (fun x => ⟨{ env := (x.2.env.set nmForloop (s2.env.get nmForloop)).set var (s2.env.get var), tw := x.2.tw }, by
        simp only [restoreLoopVars, M.bind_apply, M.setVar, Prog.bind, pure, M.pure]⟩)
  cases elseM with
  | none =>
    cases elseT with
    | some t => exact he.elim
    | none =>
      have hd : loopDispatch P loc tablerow var mods.cols bodyM none items =
          loopIterate P loc tablerow var mods.cols bodyM items := by
        unfold loopDispatch; cases items <;> rfl
      simp only [hd]
      cases items <;> exact hiter
  | some m =>
    cases elseT with
    | none => exact he.elim
    | some t =>
      cases items with
      | nil =>
        have hd : loopDispatch P loc tablerow var mods.cols bodyM (some m) [] = m := by unfold loopDispatch; rfl
        simp only [hd]
        exact SpS.wrapped path loc (he s1)
      | cons x xs =>
        have hd : loopDispatch P loc tablerow var mods.cols bodyM (some m) (x :: xs) =
            loopIterate P loc tablerow var mods.cols bodyM (x :: xs) := by unfold loopDispatch; rfl
        simp only [hd]
        exact hiter

/-! ## The tree -/

def CondT.tagLine : CondT → Nat
  | .expr line _ => line
  | .notExpr line _ => line
  | .always => 0

/-- `{% include %}` below its own wrapping: a failure of the argument is not located (the tag will locate
    it); an argument that is no string is an error made at the tag; the handler's error keeps the location it
    says (a file that cannot be read: none; an error inside the file: the place in that file), a
    `break`/`continue` that comes out of the file likewise; the insertion is a write of the tag's own -/
def inclInner (c : RCtx) (line : Nat) (args : Bytes) (s : RS) : Tr :=
  match parseExprSource args with
  | .ok e =>
    (match evaluate c.P s.env e with
     | .ok (.str rel) =>
       let h := c.inc line (joinPath (dirPath c.cfg.path) rel) s.env
       (Tr.bind ⟨[], h.pureFail.map RawErr.site⟩ h.pureRet fun r =>
         match r.1 with
         | .done => pieceTr (writeVerbatimM r.2 s)
         | st => ⟨[], some st.site⟩)
     | .ok _ => ⟨[], some (some ⟨line, true⟩)⟩
     | .err _ => ⟨[], some none⟩
     | _ => {})
  | .err _ => ⟨[], some none⟩
  | _ => {}

mutual
def traceNode (c : RCtx) : Node → RS → Tr
  | .text line src, s => ownTr ⟨line, true⟩ (renderNode c (.text line src) s)
  | .obj line e, s => ownTr ⟨line, true⟩ (renderNode c (.obj line e) s)
  | .raw slices, s => ownTr invalidLoc (renderNode c (.raw slices) s)
  | .trim l, s => ownTr invalidLoc (renderNode c (.trim l) s)
  | .assign line x e, s => ownTr ⟨line, true⟩ (renderNode c (.assign line x e) s)
  | .cycle line g v0 rest, s => ownTr ⟨line, true⟩ (renderNode c (.cycle line g v0 rest) s)
  | .brk line, _ => ⟨[], some (some ⟨line, true⟩)⟩
  | .cont line, _ => ⟨[], some (some ⟨line, true⟩)⟩
  | .capture line _ body, s =>
    -- the body is rendered into a buffer of its own: no write reaches the caller's writer from inside
    Tr.wrap c.cfg.path ⟨line, true⟩
      ((⟨[], (traceList c body { env := s.env, tw := {} }).fin⟩ : Tr).bind (captureM (renderList c body) s).pureRet fun a =>
        match a.1.1 with
        | .done => {}
        | _ => ⟨[], (traceList c body { env := s.env, tw := {} }).fin⟩)
  | .ifB line bs, s => (traceBranches c bs s).wrap c.cfg.path ⟨line, true⟩
  | .caseB line subject cases, s =>
    Tr.wrap c.cfg.path ⟨line, true⟩
      (match evaluate c.P s.env subject with
       | .ok sel => traceCases c sel cases s
       | .err _ => ⟨[], some none⟩
       | _ => {})
  | .loop line tablerow var e mods body clauses, s =>
    match clauses with
    | [] => loopTrace c.cfg.budget c.P c.cfg.path ⟨line, true⟩ tablerow var e mods (renderBlockBody c body) (traceBlockBody c body) false none s
    | [els] => loopTrace c.cfg.budget c.P c.cfg.path ⟨line, true⟩ tablerow var e mods (renderBlockBody c body) (traceBlockBody c body) false
        (some (traceBlockBody c els)) s
    | _ :: _ :: _ => loopTrace c.cfg.budget c.P c.cfg.path ⟨line, true⟩ tablerow var e mods (renderBlockBody c body) (traceBlockBody c body) true none s
  | .incl line args, s => (inclInner c line args s).wrap c.cfg.path ⟨line, true⟩
def traceList (c : RCtx) : List Node → RS → Tr
  | [], _ => {}
  | n :: ns, s =>
    (traceNode c n s).bind (renderNode c n s).pureRet fun a =>
      match a.1 with
      | .done => traceList c ns a.2
      | _ => ⟨[], (traceNode c n s).fin⟩
/-- a block body (and the root): the sequence, then the flush — a write without a location of its own -/
def traceBlockBody (c : RCtx) (body : List Node) (s : RS) : Tr :=
  (traceList c body s).bind (renderList c body s).pureRet fun a =>
    match a.1 with
    | .done => ownTr invalidLoc (flushM a.2)
    | _ => ⟨[], (traceList c body s).fin⟩
def traceBranches (c : RCtx) : List (CondT × List Node) → RS → Tr
  | [], _ => {}
  | (t, body) :: rest, s =>
    (ownTr ⟨t.tagLine, true⟩ (evalCond c.P c.cfg.path t s)).bind (evalCond c.P c.cfg.path t s).pureRet fun a =>
      if a.1 then traceBlockBody c body a.2 else traceBranches c rest a.2
def traceCases (c : RCtx) (sel : GoVal) : List (Option (Nat × List Expr) × List Node) → RS → Tr
  | [], _ => {}
  | (none, body) :: _, s => traceBlockBody c body s
  | (some (line, es), body) :: rest, s =>
    (ownTr ⟨line, true⟩ (whenMatches c sel es s)).bind (whenMatches c sel es s).pureRet fun a =>
      if a.1 then traceBlockBody c body a.2 else traceCases c sel rest a.2
end

/-! ## The renderer obeys the trace -/

def RetDoneM (m : M Status) : Prop := ∀ s st s', (m s).pureRet = some (st, s') → st = .done

theorem retDoneM_bind {α} {m : M α} {f : α → M Status} (hf : ∀ a, RetDoneM (f a)) : RetDoneM (m >>= f) := by
  intro s st s' h
  rw [M.bind_apply, Prog.pureRet_bind] at h
  cases hm : (m s).pureRet with
  | none => rw [hm] at h; simp at h
  | some a => rw [hm] at h; exact hf a.1 a.2 st s' h

theorem retDoneM_pure : RetDoneM (pure Status.done) := by
  intro s st s' h
  simp only [pure, M.pure, Prog.pureRet, Option.some.injEq, Prod.mk.injEq] at h
  exact h.1.symm

theorem retDoneM_fail (e : RawErr) : RetDoneM (M.fail e) := by
  intro s st s' h
  simp [M.fail, Prog.pureRet] at h

/-- a leaf node: its own work, wrapped at its location, ending `done` -/
theorem SpS.leaf {loc : Loc} {m : M Status} (path : Bytes) (s : RS) (hm : OwnM loc m) (hd : RetDoneM m) :
    SpS (wrapFailAt path loc m s) (ownTr loc (wrapFailAt path loc m s)) := by
  rw [wrapFailAt_apply, ownTr_mapFail]
  refine ⟨Own.sp_wrap path (hm s), fun st s' hr hne => ?_⟩
  rw [Prog.pureRet_mapFail] at hr
  exact absurd (hd s st s' hr) hne

theorem Sp.ownWrapped {loc : Loc} {α} {m : M α} (path : Bytes) (s : RS) (hm : OwnM loc m) :
    Sp (wrapFailAt path loc m s) (ownTr loc (wrapFailAt path loc m s)) := by
  rw [wrapFailAt_apply, ownTr_mapFail]
  exact Own.sp_wrap path (hm s)

theorem sp_evalCond (P : Prims) (path : Bytes) (t : CondT) (s : RS) :
    Sp (evalCond P path t s) (ownTr ⟨t.tagLine, true⟩ (evalCond P path t s)) := by
  cases t with
  | always =>
    have : evalCond P path .always s = .ret (true, s) := rfl
    rw [this]
    exact Sp.ret _ _
  | expr line e =>
    have : evalCond P path (.expr line e) s =
        wrapFailAt path ⟨line, true⟩ (do let v ← M.ofRes (evaluate P s.env e); pure v.test) s := rfl
    rw [this]
    exact Sp.ownWrapped path s (ownM_bind (ownM_ofRes _) (fun _ => ownM_pure _))
  | notExpr line e =>
    have : evalCond P path (.notExpr line e) s =
        wrapFailAt path ⟨line, true⟩ (do let v ← M.ofRes (evaluate P s.env e); pure !v.test) s := rfl
    rw [this]
    exact Sp.ownWrapped path s (ownM_bind (ownM_ofRes _) (fun _ => ownM_pure _))

theorem ownM_whenMatches {loc : Loc} (c : RCtx) (sel : GoVal) : ∀ es : List Expr, OwnM loc (whenMatches c sel es)
  | [] => by unfold whenMatches; exact ownM_pure _
  | e :: es => by
    unfold whenMatches
    refine ownM_bind ownM_getEnv (fun env => ownM_bind (ownM_ofRes _) (fun v => ownM_bind (ownM_ofRes _) (fun eq => ?_)))
    split
    · exact ownM_pure _
    · exact ownM_whenMatches c sel es

theorem pureFail_flush (s : RS) : (flushM s).pureFail = none := by
  unfold flushM
  split <;> rfl

/-- what a capture hands on of its body: the body's failure, or the body's status -/
theorem captureM_pure (m : M Status) (s : RS) :
    (∀ e, (captureM m s).pureFail = some e → (m { env := s.env, tw := {} }).pureFail = some e) ∧
    (∀ st out s', (captureM m s).pureRet = some ((st, out), s') →
      ∃ s1, (m { env := s.env, tw := {} }).pureRet = some (st, s1)) := by
  unfold captureM
  simp only
  split
  · next out a s2 heq =>
    refine ⟨fun e he => by simp [Prog.pureFail] at he, fun st out' s' hr => ?_⟩
    simp only [Prog.pureRet, Option.some.injEq, Prod.mk.injEq] at hr
    have h1 := Prog.pureRet_of_runPure _ _ _ heq
    rw [Prog.pureRet_bind] at h1
    cases hm : (m { env := s.env, tw := {} }).pureRet with
    | none => rw [hm] at h1; simp at h1
    | some x =>
      rw [hm] at h1
      simp only [Option.bind_some, Prog.pureRet_bind] at h1
      cases hf : (flushM x.2).pureRet with
      | none => rw [hf] at h1; simp at h1
      | some y =>
        rw [hf] at h1
        simp only [Option.bind_some, Prog.pureRet, Option.some.injEq, Prod.mk.injEq] at h1
        exact ⟨x.2, by rw [← hr.1.1, ← h1.1]⟩
  · next e heq =>
    refine ⟨fun e' he => ?_, fun st out' s' hr => by simp [Prog.pureRet] at hr⟩
    simp only [Prog.pureFail, Option.some.injEq] at he
    subst he
    have h1 := Prog.pureFail_of_runPure _ _ _ heq
    rw [Prog.pureFail_bind] at h1
    cases hm : (m { env := s.env, tw := {} }).pureRet with
    | none => rw [hm] at h1; exact h1
    | some x =>
      rw [hm] at h1
      simp only [Prog.pureFail_bind] at h1
      cases hf : (flushM x.2).pureRet with
      | none => rw [hf] at h1; simp only [pureFail_flush] at h1; cases h1
      | some y => rw [hf] at h1; simp [Prog.pureFail] at h1
  · exact ⟨fun e he => by simp [Prog.pureFail] at he, fun st out' s' hr => by simp [Prog.pureRet] at hr⟩
  · exact ⟨fun e he => by simp [Prog.pureFail] at he, fun st out' s' hr => by simp [Prog.pureRet] at hr⟩

theorem sentinel_site (path : Bytes) (loc : Loc) (c : Cause) :
    (RawErr.located (wrapError path (.located (wrapError path (.plain c) loc)) loc)).site = some loc := by
  rw [wrapError_site, wrapError_site]
  exact congrArg some (relocate_self path loc)

mutual
theorem sp_renderNode (c : RCtx) (hc : IncQuiet c) : ∀ (n : Node) (s : RS), SpS (renderNode c n s) (traceNode c n s)
  | .text line src, s => by
    unfold traceNode renderNode
    exact SpS.leaf _ s (ownM_bind (ownM_write src) (fun _ => ownM_pure _)) (retDoneM_bind (fun _ => retDoneM_pure))
  | .obj line e, s => by
    unfold traceNode renderNode
    refine SpS.leaf _ s ?_ ?_
    · refine ownM_bind ownM_getEnv (fun env => ownM_bind (ownM_ofRes _) (fun v => ?_))
      split
      · exact ownM_failPlain _
      · exact ownM_bind (ownM_ofRes _) (fun _ => ownM_bind (ownM_writeAll _) (fun _ => ownM_pure _))
    · refine retDoneM_bind (fun env => retDoneM_bind (fun v => ?_))
      split
      · exact retDoneM_fail _
      · exact retDoneM_bind (fun _ => retDoneM_bind (fun _ => retDoneM_pure))
  | .raw slices, s => by
    unfold traceNode renderNode
    exact SpS.leaf _ s (ownM_bind (ownM_writeAll _) (fun _ => ownM_pure _)) (retDoneM_bind (fun _ => retDoneM_pure))
  | .trim true, s => by
    unfold traceNode renderNode
    exact SpS.leaf _ s (ownM_bind ownM_trimLeft (fun _ => ownM_pure _)) (retDoneM_bind (fun _ => retDoneM_pure))
  | .trim false, s => by
    unfold traceNode renderNode
    exact SpS.retDone _ none
  | .assign line x e, s => by
    unfold traceNode renderNode
    exact SpS.leaf _ s
      (ownM_bind ownM_getEnv (fun env => ownM_bind (ownM_ofRes _) (fun v => ownM_bind (ownM_setVar _ _) (fun _ => ownM_pure _))))
      (retDoneM_bind (fun env => retDoneM_bind (fun v => retDoneM_bind (fun _ => retDoneM_pure))))
  | .cycle line group v0 rest, s => by
    unfold traceNode renderNode
    refine SpS.leaf _ s ?_ ?_
    · refine ownM_bind (ownM_getVar _) (fun lv => ?_)
      split
      · exact ownM_failAt _
      · exact ownM_bind (ownM_setVar _ _) (fun _ => ownM_bind (ownM_writeVerbatim _) (fun _ => ownM_pure _))
    · refine retDoneM_bind (fun lv => ?_)
      split
      · exact retDoneM_fail _
      · exact retDoneM_bind (fun _ => retDoneM_bind (fun _ => retDoneM_pure))
  | .brk line, s => by
    unfold traceNode renderNode
    rw [← sentinel_site c.cfg.path ⟨line, true⟩ .brk]
    exact SpS.retStatus _ _
  | .cont line, s => by
    unfold traceNode renderNode
    rw [← sentinel_site c.cfg.path ⟨line, true⟩ .cont]
    exact SpS.retStatus _ _
  | .capture line x body, s => by
    unfold traceNode renderNode
    refine SpS.wrapped _ _ ?_
    simp only [M.bind_apply]
    have ih := sp_renderList c hc body { env := s.env, tw := {} }
    obtain ⟨hcf, hcr⟩ := captureM_pure (renderList c body) s
    have hcap : Sp (captureM (renderList c body) s) ⟨[], (traceList c body { env := s.env, tw := {} }).fin⟩ :=
      ⟨IoAt.ofNoCalls (captureM_noCalls _ s), fun e he => ih.fin e (hcf e he)⟩
    refine SpS.bind hcap (fun a ha => ?_)
    obtain ⟨⟨st, out⟩, s'⟩ := a
    obtain ⟨s1, h1⟩ := hcr st out s' ha
    cases st with
    | done => exact SpS.retDone _ none
    | brk e => rw [ih.sent _ _ h1 (by simp)]; exact SpS.retStatus _ _
    | cont e => rw [ih.sent _ _ h1 (by simp)]; exact SpS.retStatus _ _
  | .ifB line branches, s => by
    unfold traceNode renderNode
    exact SpS.wrapped _ _ (sp_renderBranches c hc branches s)
  | .caseB line subject cases, s => by
    unfold traceNode renderNode
    refine SpS.wrapped _ _ ?_
    simp only [M.bind_apply, M.getEnv, Prog.bind]
    cases hv : evaluate c.P s.env subject with
    | ok sel =>
      simp only [M.ofRes, M.pure, Prog.bind]
      exact sp_renderCases c hc sel cases s
    | err cause =>
      simp only [M.ofRes, M.fail, Prog.bind]
      exact SpS.failed _
    | panic w =>
      simp only [M.ofRes, Prog.bind]
      exact SpS.panicked _ _
    | unmodelled w =>
      simp only [M.ofRes, Prog.bind]
      exact SpS.unmodelledP _ _
  | .loop line tablerow var e mods body [], s => by
    unfold traceNode renderNode
    exact sp_loopRun c.P c.cfg.path ⟨line, true⟩ tablerow var e mods _ _ (fun s => sp_renderBlockBody c hc body s)
      false none none trivial s
  | .loop line tablerow var e mods body [els], s => by
    unfold traceNode renderNode
    exact sp_loopRun c.P c.cfg.path ⟨line, true⟩ tablerow var e mods _ _ (fun s => sp_renderBlockBody c hc body s)
      false (some _) (some _) (fun s => sp_renderBlockBody c hc els s) s
  | .loop line tablerow var e mods body (_ :: _ :: _), s => by
    unfold traceNode renderNode
    exact sp_loopRun c.P c.cfg.path ⟨line, true⟩ tablerow var e mods _ _ (fun s => sp_renderBlockBody c hc body s)
      true none none trivial s
  | .incl line args, s => by
    unfold traceNode inclInner
    cases hp : parseExprSource args with
    | ok e =>
      dsimp only
      cases hv : evaluate c.P s.env e with
      | ok v =>
        cases v with
        | str rel =>
          rw [include_resolves c line args s e rel hp hv]
          refine SpS.wrapped _ _ ?_
          simp only
          have hh : Sp (c.inc line (joinPath (dirPath c.cfg.path) rel) s.env)
              ⟨[], (c.inc line (joinPath (dirPath c.cfg.path) rel) s.env).pureFail.map RawErr.site⟩ :=
            ⟨IoAt.ofNoCalls (hc _ _ _), fun e he => by simp [he]⟩
          refine SpS.bind hh (fun r _ => ?_)
          obtain ⟨st, out⟩ := r
          cases st with
          | done => exact SpS.bind_done (Own.sp_piece (ownM_writeVerbatim (loc := invalidLoc) out s)) (fun x => ⟨x.2, rfl⟩)
          | brk e => exact SpS.retStatus _ _
          | cont e => exact SpS.retStatus _ _
        | _ =>
          rw [include_nonstring_err c line args s e _ hp hv (by intro r h; cases h)]
          simp only [Tr.wrap, List.map_nil, Option.map_some, relocate_self]
          exact SpS.failed _
      | err cause =>
        unfold renderNode
        simp only [wrapAt, M.bind_apply, M.getEnv, Prog.bind, hp, hv, Res.mapErr, M.ofRes, M.fail, pure, M.pure, Prog.mapFail]
        exact SpS.failed _
      | panic w =>
        unfold renderNode
        simp only [wrapAt, M.bind_apply, M.getEnv, Prog.bind, hp, hv, Res.mapErr, M.ofRes, pure, M.pure, Prog.mapFail]
        exact SpS.panicked _ _
      | unmodelled w =>
        unfold renderNode
        simp only [wrapAt, M.bind_apply, M.getEnv, Prog.bind, hp, hv, Res.mapErr, M.ofRes, pure, M.pure, Prog.mapFail]
        exact SpS.unmodelledP _ _
    | err pe =>
      unfold renderNode
      simp only [wrapAt, M.bind_apply, M.getEnv, Prog.bind, hp, Res.mapErr, M.ofRes, M.fail, pure, Prog.mapFail]
      exact SpS.failed _
    | panic w =>
      unfold renderNode
      simp only [wrapAt, M.bind_apply, M.getEnv, Prog.bind, hp, Res.mapErr, M.ofRes, pure, Prog.mapFail]
      exact SpS.panicked _ _
    | unmodelled w =>
      unfold renderNode
      simp only [wrapAt, M.bind_apply, M.getEnv, Prog.bind, hp, Res.mapErr, M.ofRes, pure, Prog.mapFail]
      exact SpS.unmodelledP _ _
theorem sp_renderList (c : RCtx) (hc : IncQuiet c) : ∀ (ns : List Node) (s : RS), SpS (renderList c ns s) (traceList c ns s)
  | [], s => by
    unfold renderList traceList
    exact SpS.retDone _ none
  | n :: ns, s => by
    unfold renderList traceList
    simp only [M.bind_apply]
    have hn := sp_renderNode c hc n s
    refine SpS.bind hn.toSp (fun a ha => ?_)
    obtain ⟨st, s'⟩ := a
    cases st with
    | done => exact sp_renderList c hc ns s'
    | brk e => rw [hn.sent _ _ ha (by simp)]; exact SpS.retStatus _ _
    | cont e => rw [hn.sent _ _ ha (by simp)]; exact SpS.retStatus _ _
theorem sp_renderBlockBody (c : RCtx) (hc : IncQuiet c) (body : List Node) (s : RS) :
    SpS (renderBlockBody c body s) (traceBlockBody c body s) := by
  unfold renderBlockBody traceBlockBody
  simp only [M.bind_apply]
  have hl := sp_renderList c hc body s
  refine SpS.bind hl.toSp (fun a ha => ?_)
  obtain ⟨st, s'⟩ := a
  cases st with
  | done => exact SpS.bind_done (Own.sp_wrap c.cfg.path (ownM_flush (loc := invalidLoc) s')) (fun x => ⟨x.2, rfl⟩)
  | brk e => rw [hl.sent _ _ ha (by simp)]; exact SpS.retStatus _ _
  | cont e => rw [hl.sent _ _ ha (by simp)]; exact SpS.retStatus _ _
theorem sp_renderBranches (c : RCtx) (hc : IncQuiet c) :
    ∀ (bs : List (CondT × List Node)) (s : RS), SpS (renderBranches c bs s) (traceBranches c bs s)
  | [], s => by
    unfold renderBranches traceBranches
    exact SpS.retDone _ none
  | (t, body) :: rest, s => by
    unfold renderBranches traceBranches
    simp only [M.bind_apply]
    refine SpS.bind (sp_evalCond c.P c.cfg.path t s) (fun a _ => ?_)
    obtain ⟨b, s'⟩ := a
    cases b with
    | true => exact sp_renderBlockBody c hc body s'
    | false => exact sp_renderBranches c hc rest s'
theorem sp_renderCases (c : RCtx) (hc : IncQuiet c) (sel : GoVal) :
    ∀ (cs : List (Option (Nat × List Expr) × List Node)) (s : RS), SpS (renderCases c sel cs s) (traceCases c sel cs s)
  | [], s => by
    unfold renderCases traceCases
    exact SpS.retDone _ none
  | (none, body) :: _, s => by
    unfold renderCases traceCases
    exact sp_renderBlockBody c hc body s
  | (some (line, es), body) :: rest, s => by
    unfold renderCases traceCases
    simp only [M.bind_apply, wrapFailAt_apply]
    refine SpS.bindOwn c.cfg.path (ownM_whenMatches c sel es s) (fun a _ => ?_)
    obtain ⟨b, s'⟩ := a
    cases b with
    | true => exact sp_renderBlockBody c hc body s'
    | false => exact sp_renderCases c hc sel rest s'
end

/-! ## The whole render -/

/-- the trace of a whole render (`render.Render`): the root sequence, then the final flush — a write that
    has no location and no enclosing node -/
def traceRoot (c : RCtx) (root : List Node) (env : Env) : Tr := traceBlockBody c root { env := env, tw := {} }

theorem renderRoot_eq (c : RCtx) (root : List Node) (env : Env) :
    renderRoot c root env = (renderBlockBody c root { env := env, tw := {} }).bind (fun x => .ret x.1) := by
  unfold renderRoot renderBlockBody
  simp only [M.bind_apply, Prog.bind_assoc]
  congr 1
  funext x
  obtain ⟨st, s⟩ := x
  cases st with
  | done =>
    simp only [M.bind_apply, Prog.bind_assoc]
    rfl
  | brk e => rfl
  | cont e => rfl

/-- `renderRoot` obeys the trace of the root: writer failures, its own failure, the sentinel it returns -/
theorem sp_renderRoot (c : RCtx) (hc : IncQuiet c) (root : List Node) (env : Env) :
    IoAt (renderRoot c root env) (traceRoot c root env).calls ∧
    (∀ e, (renderRoot c root env).pureFail = some e → (traceRoot c root env).fin = some e.site) ∧
    (∀ st, (renderRoot c root env).pureRet = some st → st ≠ .done → (traceRoot c root env).fin = some st.site) := by
  have h := sp_renderBlockBody c hc root { env := env, tw := {} }
  rw [renderRoot_eq]
  refine ⟨?_, fun e he => ?_, fun st hr hne => ?_⟩
  · have := IoAt.bind (f := fun (x : Status × RS) => (Prog.ret x.1 : Prog Status)) (fun _ => []) h.io (fun a _ => .ret _)
    unfold traceRoot
    cases hr : (renderBlockBody c root { env := env, tw := {} }).pureRet <;> rw [hr] at this <;> simpa using this
  · rw [Prog.pureFail_bind] at he
    cases hr : (renderBlockBody c root { env := env, tw := {} }).pureRet with
    | none => rw [hr] at he; exact h.fin e he
    | some a => rw [hr] at he; simp [Prog.pureFail] at he
  · rw [Prog.pureRet_bind] at hr
    cases hp : (renderBlockBody c root { env := env, tw := {} }).pureRet with
    | none => rw [hp] at hr; simp at hr
    | some a =>
      rw [hp] at hr
      simp only [Option.bind_some, Prog.pureRet, Option.some.injEq] at hr
      obtain ⟨a1, a2⟩ := a
      have h1 : a1 = st := hr
      subst h1
      exact h.sent a1 a2 hp hne

/-- `FRender` obeys the trace of the root; a `break`/`continue` that reaches the top is its error -/
theorem sp_frenderOf (c : RCtx) (hc : IncQuiet c) (root : List Node) (env : Env) :
    Sp ((renderRoot c root env).bind statusToProg) (traceRoot c root env) := by
  obtain ⟨h1, h2, h3⟩ := sp_renderRoot c hc root env
  refine ⟨?_, fun e he => ?_⟩
  · have := IoAt.bind (f := statusToProg) (fun _ => []) h1 (fun a _ => by cases a <;> first | exact .ret _ | exact .fail _)
    cases hr : (renderRoot c root env).pureRet <;> rw [hr] at this <;> simpa using this
  · rw [Prog.pureFail_bind] at he
    cases hr : (renderRoot c root env).pureRet with
    | none => rw [hr] at he; exact h2 e he
    | some st =>
      rw [hr] at he
      cases st with
      | done => simp [statusToProg, Prog.pureFail] at he
      | brk e0 =>
        simp only [statusToProg, Prog.pureFail, Option.some.injEq] at he
        subst he
        exact h3 _ hr (by simp)
      | cont e0 =>
        simp only [statusToProg, Prog.pureFail, Option.some.injEq] at he
        subst he
        exact h3 _ hr (by simp)

theorem sp_frender (P : Prims) (O : OutPrims) (cfg : Cfg) (fs : FS) (fuel : Nat) (root : List Node) (env : Env) :
    Sp (frender P O cfg fs fuel root env) (traceRoot (mkCtx P O cfg fs fuel) root env) :=
  sp_frenderOf _ (incQuiet_mkCtx P O cfg fs fuel) root env

/-! ## Every site of a node is a location: each node wraps what it runs -/

def Tr.Located (t : Tr) : Prop := (∀ l ∈ t.calls, l ≠ none) ∧ t.fin ≠ some none

theorem located_ownTr {α} (loc : Loc) (p : Prog α) : (ownTr loc p).Located := by
  refine ⟨fun l hl => ?_, ?_⟩
  · simp only [ownTr, List.mem_replicate] at hl
    rw [hl.2]; simp
  · simp only [ownTr]
    cases p.pureFail <;> simp

theorem located_wrap (path : Bytes) (loc : Loc) (t : Tr) : (t.wrap path loc).Located := by
  refine ⟨fun l hl => ?_, ?_⟩
  · simp only [Tr.wrap, List.mem_map] at hl
    obtain ⟨a, _, ha⟩ := hl
    rw [← ha]; simp
  · simp only [Tr.wrap]
    cases t.fin <;> simp

theorem located_bind {α} {t1 : Tr} (r : Option α) {t2 : α → Tr} (h1 : t1.Located) (h2 : ∀ a, (t2 a).Located) :
    (t1.bind r t2).Located := by
  cases r with
  | none => exact h1
  | some a =>
    refine ⟨fun l hl => ?_, (h2 a).2⟩
    simp only [Tr.bind, List.mem_append] at hl
    rcases hl with hl | hl
    · exact h1.1 l hl
    · exact (h2 a).1 l hl

theorem located_nil (l : Loc) : (⟨[], some (some l)⟩ : Tr).Located := ⟨fun _ h => by simp at h, by simp⟩
theorem located_empty : ({} : Tr).Located := ⟨fun _ h => by simp at h, by simp⟩

theorem located_traceNode (c : RCtx) : ∀ (n : Node) (s : RS), (traceNode c n s).Located
  | .text _ _, s => by unfold traceNode; exact located_ownTr _ _
  | .obj _ _, s => by unfold traceNode; exact located_ownTr _ _
  | .raw _, s => by unfold traceNode; exact located_ownTr _ _
  | .trim _, s => by unfold traceNode; exact located_ownTr _ _
  | .assign _ _ _, s => by unfold traceNode; exact located_ownTr _ _
  | .cycle _ _ _ _, s => by unfold traceNode; exact located_ownTr _ _
  | .brk _, s => by unfold traceNode; exact located_nil _
  | .cont _, s => by unfold traceNode; exact located_nil _
  | .capture _ _ _, s => by unfold traceNode; exact located_wrap _ _ _
  | .ifB _ _, s => by unfold traceNode; exact located_wrap _ _ _
  | .caseB _ _ _, s => by unfold traceNode; exact located_wrap _ _ _
  | .incl _ _, s => by unfold traceNode; exact located_wrap _ _ _
  | .loop line tablerow var e mods body clauses, s => by
    have hl : ∀ tooMany elseT, (loopTrace c.cfg.budget c.P c.cfg.path ⟨line, true⟩ tablerow var e mods (renderBlockBody c body)
        (traceBlockBody c body) tooMany elseT s).Located := by
      intro tooMany elseT
      unfold loopTrace
      refine located_bind _ (located_ownTr _ _) (fun a => ?_)
      split
      · exact located_wrap _ _ _
      · exact located_bind _ (located_ownTr _ _) (fun b => located_wrap _ _ _)
    unfold traceNode
    split <;> exact hl _ _

theorem located_traceList (c : RCtx) : ∀ (ns : List Node) (s : RS), (traceList c ns s).Located
  | [], s => by unfold traceList; exact located_empty
  | n :: ns, s => by
    unfold traceList
    refine located_bind _ (located_traceNode c n s) (fun a => ?_)
    split
    · exact located_traceList c ns a.2
    · exact ⟨fun _ h => by simp at h, (located_traceNode c n s).2⟩

theorem located_traceRoot (c : RCtx) (root : List Node) (env : Env) : (traceRoot c root env).Located := by
  unfold traceRoot traceBlockBody
  refine located_bind _ (located_traceList c root _) (fun a => ?_)
  split
  · exact located_ownTr _ _
  · exact ⟨fun _ h => by simp at h, (located_traceList c root _).2⟩
