import Proofs.SrcBlocks
import Proofs.C12
/-!
# Source-level helpers: the compiled nodes of `capture`, `assign`, `include`, `for`; roots that end normally
-/

def nmEndcapture : Bytes := endPrefix ++ nmCapture
def nmEndfor : Bytes := endPrefix ++ nmFor

/-- `{% capture v %} F {% endcapture %}` -/
theorem compile_capture (d : Delims) (v : Bytes) (w1 w2 : Ws) (TF : List Token) (line l2 : Nat) (nF : List Node)
    (hF : compileTokens TF = .ok nF) :
    compileTokens (tgTok d nmCapture v w1 line :: (TF ++ [tgTok d nmEndcapture [] w2 l2])) = .ok [.capture line v nF] := by
  obtain ⟨ast, h1, h3⟩ := compileTokens_block0 (tgTok d nmCapture v w1 line) (tgTok d nmEndcapture [] w2 l2) TF nF
    (isOpen_tgTok _ _ _ _ _ (by decide) (by decide) (by decide)) (isEndOf_of_name rfl rfl) rfl rfl hF
  rw [h3]
  have hn : (tgTok d nmCapture v w1 line).name = nmCapture := rfl
  simp only [compileNode, h1, compileClauses, bind, Res.bind, hn]
  rfl

/-- a plain tag standing alone -/
theorem compileTokens_tg (d : Delims) (name args : Bytes) (w : Ws) (line : Nat) (hk : stdGrammar.known name = false) :
    compileTokens [tgTok d name args w line] = compileNode (.tag (tgTok d name args w line)) :=
  compileTokens_plain _ rfl hk

/-- `{% assign … %}` -/
theorem compile_assign (d : Delims) (args : Bytes) (w : Ws) (line : Nat) (x : Bytes) (ex : Expr)
    (hp : parseStatement kwAssign args = .ok (.assign x ex)) :
    compileTokens [tgTok d nmAssign args w line] = .ok [.assign line x ex] := by
  rw [compileTokens_tg d nmAssign args w line (by decide)]
  have hn : (tgTok d nmAssign args w line).name = nmAssign := rfl
  have ha : (tgTok d nmAssign args w line).args = args := rfl
  simp only [compileNode, hn, ha, beq_self_eq_true, if_true, hp, liftParse, bind, Res.bind]
  rfl

/-- `{% include … %}` -/
theorem compile_include (d : Delims) (args : Bytes) (w : Ws) (line : Nat) :
    compileTokens [tgTok d nmInclude args w line] = .ok [.incl line args] := by
  rw [compileTokens_tg d nmInclude args w line (by decide)]
  have hn : (tgTok d nmInclude args w line).name = nmInclude := rfl
  simp only [compileNode, hn]
  rfl

/-- `{{ args }}` -/
theorem compile_ob (d : Delims) (args : Bytes) (w : Ws) (line : Nat) (e : Expr) (he : parseExprSource args = .ok e) :
    compileTokens [obTok d args w line] = .ok [.obj line e] :=
  compiles_obj (obTok d args w line) e rfl he

/-- `{% for … %} F {% endfor %}` -/
theorem compile_for (d : Delims) (args : Bytes) (w1 w2 : Ws) (TF : List Token) (line l2 : Nat) (nF : List Node)
    (x : Bytes) (ex : Expr) (m : LoopMods)
    (hp : parseStatement kwLoop args = .ok (.loop x ex m)) (hF : compileTokens TF = .ok nF) :
    compileTokens (tgTok d nmFor args w1 line :: (TF ++ [tgTok d nmEndfor [] w2 l2])) = .ok [.loop line false x ex m nF []] := by
  obtain ⟨ast, h1, h3⟩ := compileTokens_block0 (tgTok d nmFor args w1 line) (tgTok d nmEndfor [] w2 l2) TF nF
    (isOpen_tgTok _ _ _ _ _ (by decide) (by decide) (by decide)) (isEndOf_of_name rfl rfl) rfl rfl hF
  rw [h3]
  have hn : (tgTok d nmFor args w1 line).name = nmFor := rfl
  have ha : (tgTok d nmFor args w1 line).args = args := rfl
  simp only [compileNode, h1, compileClauses, bind, Res.bind, hn, ha, hp, liftParse]
  rfl

/-! ## Roots -/

/-- `run`/`runRoot` return output exactly when the root sequence and the final flush end normally -/
theorem runRoot_ok_iff (P : Prims) (O : OutPrims) (cfg : Cfg) (fs : FS) (fuel : Nat) (root : List Node) (env : Env) (out : Bytes) :
    runRoot P O cfg fs fuel root env = .ok out ↔
      (renderRoot (mkCtx P O cfg fs fuel) root env).runPure = (out, .ok .done) := by
  unfold runRoot frender
  rw [Prog.runPure_bind]
  rcases (renderRoot (mkCtx P O cfg fs fuel) root env).runPure with ⟨o, r⟩
  cases r with
  | ok st => cases st <;> simp [statusToProg, Prog.runPure]
  | err e => cases e <;> simp
  | panic w => simp
  | unmodelled w => simp

/-- an assignment at the head of a root: the rest runs with the variable bound -/
theorem runRoot_assign (P : Prims) (O : OutPrims) (cfg : Cfg) (fs : FS) (fuel : Nat) (line : Nat) (x : Bytes) (ex : Expr)
    (rest : List Node) (env : Env) (v : GoVal) (hv : evaluate P env ex = .ok v) :
    runRoot P O cfg fs fuel (.assign line x ex :: rest) env = runRoot P O cfg fs fuel rest (env.set x v) := by
  unfold runRoot frender renderRoot
  rw [assign_seq (mkCtx P O cfg fs fuel) line x ex rest ⟨env, {}⟩ v hv]

theorem runRoot_assign_err (P : Prims) (O : OutPrims) (cfg : Cfg) (fs : FS) (fuel : Nat) (line : Nat) (x : Bytes) (ex : Expr)
    (rest : List Node) (env : Env) (c : Cause) (hv : evaluate P env ex = .err c) :
    runRoot P O cfg fs fuel (.assign line x ex :: rest) env = .err ⟨line, true, c, .byCause⟩ := by
  unfold runRoot frender renderRoot
  rw [assign_err (mkCtx P O cfg fs fuel) line x ex rest ⟨env, {}⟩ c hv]
  rfl
