import Liquid.ExprShow
/-!
# The parser on the canonical tokens of a tree (helper lemmas for `Proofs/ExprRoundTrip.lean`)

`parseCond_toks`: on `e.toks 0` followed by a token that cannot continue a condition, the recursive-descent
parser returns `e`, for every fuel from `e.cneed + 2` on, and `e.cneed ≤ 8 * (e.toks 0).length`
(`cneed_le`), so the fuel `parseTokensE` gives itself is enough (`parseTokensE_toks`).

The parser is iterative where the grammar is left recursive (`parsePostfix`, `parseFilters`, `parseCondTail`
carry the tree built so far), so the induction proves "continuing" statements: parsing `e.toks ++ r` from the
start equals continuing the loop on `r` with `e` as the tree built so far (`SE`, `SRF`, `SC`).
-/

/-! ## What may follow -/

def noDD : List ETok → Bool
  | .dotdot :: _ => false
  | _ => true

/-- the next token does not continue an `expr`: not `.name`, not `[` -/
def stopE : List ETok → Bool
  | .property _ :: _ => false
  | .ch b :: _ => b != 91
  | _ => true

/-- … nor a parameter list: not `,` -/
def stopA : List ETok → Bool
  | .property _ :: _ => false
  | .ch b :: _ => b != 91 && b != 44
  | _ => true

/-- … nor a `rel`: not `|`, not a comparison operator -/
def stopR : List ETok → Bool
  | [] => true
  | t :: _ => (match t with
      | .property _ => false
      | .ch b => b != 91 && b != 44 && b != 124
      | _ => true) && (relOpOf t).isNone

/-- … nor a `cond`: not `and`, not `or` -/
def stopC : List ETok → Bool
  | .and_ :: _ => false
  | .or_ :: _ => false
  | r => stopR r

theorem stopA_stopE {r : List ETok} (h : stopA r = true) : stopE r = true := by
  unfold stopA at h; unfold stopE
  split at h <;> simp_all
theorem stopR_stopA {r : List ETok} (h : stopR r = true) : stopA r = true := by
  unfold stopR at h; unfold stopA
  split at h
  · simp
  · rename_i t r'
    cases t <;> simp_all
theorem stopR_stopE {r : List ETok} (h : stopR r = true) : stopE r = true := stopA_stopE (stopR_stopA h)
theorem stopC_stopR {r : List ETok} (h : stopC r = true) : stopR r = true := by
  unfold stopC at h
  split at h <;> simp_all

/-! ## One step of each parser function -/

theorem parseExpr_of_primary {f : Nat} {t r : List ETok} {e : Expr} (h : parsePrimary f t = some (e, r)) :
    parseExpr (f+1) t = parsePostfix f e r := by
  rw [parseExpr, h]
theorem parsePrimary_lit (f : Nat) (v : GoVal) (r : List ETok) : parsePrimary (f+1) (.lit v :: r) = some (.lit v, r) := by
  rw [parsePrimary]
theorem parsePrimary_ident (f : Nat) (x : Bytes) (r : List ETok) : parsePrimary (f+1) (.ident x :: r) = some (.var x, r) := by
  rw [parsePrimary]
theorem parsePrimary_range {f : Nat} {r r1 r2 : List ETok} {a b : Expr} (h1 : parseExpr f r = some (a, .dotdot :: r1))
    (h2 : parseExpr f r1 = some (b, .ch 41 :: r2)) : parsePrimary (f+1) (.ch 40 :: r) = some (.range a b, r2) := by
  rw [parsePrimary, h1]; simp only [h2]
theorem parsePrimary_paren {f : Nat} {r r1 r2 : List ETok} {a c : Expr} (h1 : parseExpr f r = some (a, r1))
    (hd : noDD r1 = true) (h2 : parseCondFrom f a r1 = some (c, .ch 41 :: r2)) :
    parsePrimary (f+1) (.ch 40 :: r) = some (c, r2) := by
  rw [parsePrimary, h1]
  split
  · rename_i heq; cases heq; simp [noDD] at hd
  · rename_i heq; cases heq; simp only [h2]
  · rename_i heq; cases heq
theorem parsePostfix_prop (f : Nat) (e : Expr) (p : Bytes) (r : List ETok) :
    parsePostfix (f+1) e (.property p :: r) = parsePostfix f (.prop e p) r := by
  rw [parsePostfix]
theorem parsePostfix_idx {f : Nat} {e i : Expr} {r r1 : List ETok} (h : parseExpr f r = some (i, .ch 93 :: r1)) :
    parsePostfix (f+1) e (.ch 91 :: r) = parsePostfix f (.index e i) r1 := by
  rw [parsePostfix, h]; rfl
theorem parsePostfix_stop (f : Nat) (e : Expr) (r : List ETok) (h : stopE r = true) : parsePostfix (f+1) e r = some (e, r) := by
  rw [parsePostfix] <;> (intros; subst_vars; simp [stopE] at h)

theorem parseFilters_ident (f : Nat) (e : Expr) (n : Bytes) (r : List ETok) :
    parseFilters (f+1) e (.ch 124 :: .ident n :: r) = parseFilters f (.filter e n []) r := by
  rw [parseFilters]
theorem parseFilters_kw {f : Nat} {e : Expr} {n : Bytes} {r r1 : List ETok} {args : List Expr}
    (h : parseParams f r = some (args, r1)) :
    parseFilters (f+1) e (.ch 124 :: .keyword n :: r) = parseFilters f (.filter e n args) r1 := by
  rw [parseFilters, h]
/-- not `|` -/
def noBar : List ETok → Bool
  | .ch b :: _ => b != 124
  | _ => true
theorem parseFilters_stop (f : Nat) (e : Expr) (r : List ETok) (h : noBar r = true) : parseFilters (f+1) e r = some (e, r) := by
  rw [parseFilters] <;> (intros; subst_vars; simp [noBar] at h)
theorem stopR_noBar {r : List ETok} (h : stopR r = true) : noBar r = true := by
  unfold stopR at h; unfold noBar
  split at h
  · rfl
  · rename_i t r'
    cases t <;> simp_all
def noComma : List ETok → Bool
  | .ch b :: _ => b != 44
  | _ => true
theorem stopA_noComma {r : List ETok} (h : stopA r = true) : noComma r = true := by
  unfold stopA at h; unfold noComma
  split at h <;> simp_all
theorem parseParams_last {f : Nat} {t r : List ETok} {a : Expr} (h : parseExpr f t = some (a, r)) (hc : noComma r = true) :
    parseParams (f+1) t = some ([a], r) := by
  rw [parseParams, h]
  split
  · rename_i heq; cases heq; simp [noComma] at hc
  · rename_i heq; cases heq; rfl
  · rename_i heq; cases heq
theorem parseParams_more {f : Nat} {t r r1 : List ETok} {a : Expr} {as : List Expr}
    (h : parseExpr f t = some (a, .ch 44 :: r)) (h2 : parseParams f r = some (as, r1)) :
    parseParams (f+1) t = some (a :: as, r1) := by
  rw [parseParams, h]; simp only [h2]

theorem parseRelFrom_op {f : Nat} {a b : Expr} {t : ETok} {op : RelOp} {r r1 : List ETok} (ho : relOpOf t = some op)
    (h : parseExpr f r = some (b, r1)) : parseRelFrom (f+1) a (t :: r) = some (.rel op a b, r1) := by
  rw [parseRelFrom]; simp only [ho, h]
theorem parseRelFrom_filt {f : Nat} {a : Expr} {t : ETok} {r : List ETok} (ho : relOpOf t = none) :
    parseRelFrom (f+1) a (t :: r) = parseFilters f a (t :: r) := by
  rw [parseRelFrom]; simp only [ho]
theorem parseRelFrom_nil (f : Nat) (a : Expr) : parseRelFrom (f+1) a [] = some (a, []) := by
  rw [parseRelFrom]
theorem parseCondFrom_of {f : Nat} {a c : Expr} {t r : List ETok} (h : parseRelFrom f a t = some (c, r)) :
    parseCondFrom (f+1) a t = parseCondTail f c r := by
  rw [parseCondFrom, h]
theorem parseCondTail_and {f : Nat} {c d : Expr} {r r1 : List ETok} (h : parseRel f r = some (d, r1)) :
    parseCondTail (f+1) c (.and_ :: r) = parseCondTail f (.and_ c d) r1 := by
  rw [parseCondTail, h]
theorem parseCondTail_or {f : Nat} {c d : Expr} {r r1 : List ETok} (h : parseRel f r = some (d, r1)) :
    parseCondTail (f+1) c (.or_ :: r) = parseCondTail f (.or_ c d) r1 := by
  rw [parseCondTail, h]
theorem parseCondTail_stop (f : Nat) (c : Expr) (r : List ETok) (h : stopC r = true) : parseCondTail (f+1) c r = some (c, r) := by
  rw [parseCondTail] <;> (intros; subst_vars; simp [stopC] at h)

/-- `parseExpr` with fuel `F`, then `parseRelFrom` with fuel `G` -/
def relOf (F G : Nat) (t : List ETok) : PR Expr :=
  match parseExpr F t with
  | some (a, r) => parseRelFrom G a r
  | none => none
/-- `parseExpr` with fuel `F`, then `parseCondFrom` with fuel `G` -/
def condOf (F G : Nat) (t : List ETok) : PR Expr :=
  match parseExpr F t with
  | some (a, r) => parseCondFrom G a r
  | none => none

theorem parseRel_eq (f : Nat) (t : List ETok) : parseRel (f+1) t = relOf f f t := by
  rw [parseRel]; unfold relOf
  cases parseExpr f t with
  | none => rfl
  | some p => cases p; rfl
theorem parseCond_eq (f : Nat) (t : List ETok) : parseCond f t = condOf f f t := rfl
theorem condOf_of_relOf {F g : Nat} {t r : List ETok} {e : Expr} (h : relOf F g t = some (e, r)) :
    condOf F (g+1) t = parseCondTail g e r := by
  unfold relOf at h; unfold condOf
  split at h
  · rename_i a r1 heq
    exact parseCondFrom_of h
  · cases h

/-! ## Fuel -/

/-- the tree is written without parentheses at level `lvl` -/
def openAt : Expr → Nat → Bool
  | .rel .., lvl => lvl ≤ 1
  | .and_ .., lvl => lvl == 0
  | .or_ .., lvl => lvl == 0
  | .filter .., lvl => lvl ≤ 2
  | _, _ => true

mutual
/-- fuel for `parseExpr` on `e.toks 3` -/
def Expr.need : Expr → Nat
  | .lit _ => 1
  | .var _ => 1
  | .prop e _ => e.need + 1
  | .index e i => e.need + i.need + 2
  | .range a b => a.need + b.need + 4
  | .rel _ a b => a.need + b.need + 7
  | .and_ a b => a.cneed + (if openAt b 1 then b.cneed else b.need) + 7
  | .or_ a b => a.cneed + (if openAt b 1 then b.cneed else b.need) + 7
  | .filter e _ args => (if openAt e 2 then e.cneed else e.need) + Expr.needArgs args + 7
/-- fuel for the level at which `e` is written without parentheses -/
def Expr.cneed : Expr → Nat
  | .lit _ => 3
  | .var _ => 3
  | .prop e _ => e.need + 3
  | .index e i => e.need + i.need + 4
  | .range a b => a.need + b.need + 6
  | .rel _ a b => a.need + b.need + 4
  | .and_ a b => a.cneed + (if openAt b 1 then b.cneed else b.need) + 4
  | .or_ a b => a.cneed + (if openAt b 1 then b.cneed else b.need) + 4
  | .filter e _ args => (if openAt e 2 then e.cneed else e.need) + Expr.needArgs args + 4
def Expr.needArgs : List Expr → Nat
  | [] => 0
  | a :: as => a.need + Expr.needArgs as + 2
end

def cost (e : Expr) (lvl : Nat) : Nat := if openAt e lvl then e.cneed else e.need

def Expr.isFilter : Expr → Bool
  | .filter .. => true
  | _ => false

/-- a tree that is one `expr` of the grammar without parentheses -/
def Expr.isELevel : Expr → Bool
  | .lit _ | .var _ | .prop .. | .index .. | .range .. => true
  | _ => false

def SE (e : Expr) : Prop :=
  ∀ F r, e.need + 1 ≤ F → ∃ f', F ≤ f' + e.need ∧ parseExpr F (e.toks 3 ++ r) = parsePostfix f' e r
def SH (e : Expr) (lvl : Nat) : Prop :=
  ∀ F r, cost e lvl + 1 ≤ F → stopE r = true → noDD r = true →
    ∃ a r1, parseExpr F (e.toks lvl ++ r) = some (a, r1) ∧ noDD r1 = true
def SRF (e : Expr) : Prop :=
  ∀ F G r, stopA r = true → e.cneed + 1 ≤ F → e.cneed + 1 ≤ G →
    ∃ g', G ≤ g' + e.cneed ∧ relOf F G (e.toks 2 ++ r) = parseFilters g' e r
def SRl (e : Expr) : Prop :=
  ∀ F G r, stopR r = true → cost e 1 + 1 ≤ F → cost e 1 + 1 ≤ G → relOf F G (e.toks 1 ++ r) = some (e, r)
def SC (e : Expr) : Prop :=
  ∀ F G r, stopR r = true → e.cneed + 2 ≤ F → e.cneed + 2 ≤ G →
    ∃ g', G ≤ g' + e.cneed ∧ condOf F G (e.toks 0 ++ r) = parseCondTail g' e r
def SA (as : List Expr) : Prop :=
  ∀ F r, stopA r = true → as ≠ [] → Expr.needArgs as + 1 ≤ F →
    parseParams F ((Expr.argsToks as).drop 1 ++ r) = some (as, r)

structure Compl (e : Expr) : Prop where
  E : SE e
  H : ∀ lvl, SH e lvl
  RF : e.isFilter = true → SRF e
  R : SRl e
  C : SC e

theorem Expr.cneed_pos (e : Expr) : 1 ≤ e.cneed := by
  cases e <;> rw [Expr.cneed] <;> omega
theorem Expr.need_pos (e : Expr) : 1 ≤ e.need := by
  cases e <;> rw [Expr.need] <;> omega

/-- the final form of `SE`: followed by a token that does not continue it, `e.toks 3` parses to `e` -/
theorem SE.final {e : Expr} (h : SE e) {F : Nat} {r : List ETok} (hF : e.need + 1 ≤ F) (hs : stopE r = true) :
    parseExpr F (e.toks 3 ++ r) = some (e, r) := by
  obtain ⟨f', hf, heq⟩ := h F r hF
  obtain ⟨f'', rfl⟩ : ∃ k, f' = k + 1 := ⟨f' - 1, by omega⟩
  rw [heq, parsePostfix_stop _ _ _ hs]

/-! ### generic steps -/

/-- `rel` from `expr`, for a tree written at level 1 as at level 3 -/
theorem SRl_of_SE {e : Expr} (hE : SE e) (ht : e.toks 1 = e.toks 3) (hc : e.need ≤ cost e 1) : SRl e := by
  intro F G r hs hF hG
  have := e.need_pos
  unfold relOf
  rw [ht, hE.final (by omega) (stopR_stopE hs)]
  obtain ⟨g, rfl⟩ : ∃ k, G = k + 1 := ⟨G - 1, by omega⟩
  cases r with
  | nil => exact parseRelFrom_nil g e
  | cons t r' =>
    have ho : relOpOf t = none := by
      simp only [stopR, Bool.and_eq_true, Option.isNone_iff_eq_none] at hs; exact hs.2
    obtain ⟨g', rfl⟩ : ∃ k, g = k + 1 := ⟨g - 1, by omega⟩
    show parseRelFrom (g' + 1 + 1) e (t :: r') = _
    rw [parseRelFrom_filt ho, parseFilters_stop _ _ _ (stopR_noBar hs)]

/-- `cond` from `rel`, for a tree that is not an `and`/`or` -/
theorem SC_of_SRl {e : Expr} (hR : SRl e) (ht : e.toks 0 = e.toks 1) (hc : cost e 1 = e.cneed) : SC e := by
  intro F G r hs hF hG
  obtain ⟨g, rfl⟩ : ∃ k, G = k + 1 := ⟨G - 1, by omega⟩
  have := e.cneed_pos
  refine ⟨g, by omega, ?_⟩
  rw [ht]
  exact condOf_of_relOf (hR F g r hs (by omega) (by omega))

/-- the head of a tree written as at level 3 -/
theorem SH_of_SE {e : Expr} (hE : SE e) (lvl : Nat) (ht : e.toks lvl = e.toks 3) (hc : e.need ≤ cost e lvl) : SH e lvl := by
  intro F r hF hs hd
  exact ⟨e, r, by rw [ht]; exact hE.final (by omega) hs, hd⟩

/-- `( cond )` -/
theorem SE_of_SC {e : Expr} (hH : SH e 0) (hC : SC e) (ht : e.toks 3 = .ch 40 :: (e.toks 0 ++ [.ch 41]))
    (hn : e.need = e.cneed + 3) (ho : cost e 0 = e.cneed) : SE e := by
  intro F r hF
  obtain ⟨f, rfl⟩ : ∃ k, F = k + 1 := ⟨F - 1, by omega⟩
  obtain ⟨g, rfl⟩ : ∃ k, f = k + 1 := ⟨f - 1, by omega⟩
  refine ⟨g + 1, by omega, ?_⟩
  have hsr : stopR (.ch 41 :: r) = true := by simp [stopR, relOpOf]
  obtain ⟨a, r1, h1, hd1⟩ := hH g (.ch 41 :: r) (by omega) (by simp [stopE]) (by simp [noDD])
  obtain ⟨g', hg', h2⟩ := hC g g (.ch 41 :: r) hsr (by omega) (by omega)
  obtain ⟨g'', rfl⟩ : ∃ k, g' = k + 1 := ⟨g' - 1, by omega⟩
  rw [parseCondTail_stop _ _ _ (by simp [stopC, stopR, relOpOf])] at h2
  unfold condOf at h2
  rw [h1] at h2
  have : e.toks 3 ++ r = .ch 40 :: (e.toks 0 ++ .ch 41 :: r) := by rw [ht]; simp
  rw [this]
  exact parseExpr_of_primary (parsePrimary_paren h1 hd1 h2)

/-! ### the shape of the token list -/

theorem toks_rel (op : RelOp) (a b : Expr) (lvl : Nat) :
    (Expr.rel op a b).toks lvl = parenIf (decide (1 < lvl)) (a.toks 3 ++ relOpTok op :: b.toks 3) := by rw [Expr.toks]
theorem toks_and (a b : Expr) (lvl : Nat) :
    (Expr.and_ a b).toks lvl = parenIf (decide (0 < lvl)) (a.toks 0 ++ .and_ :: b.toks 1) := by rw [Expr.toks]
theorem toks_or (a b : Expr) (lvl : Nat) :
    (Expr.or_ a b).toks lvl = parenIf (decide (0 < lvl)) (a.toks 0 ++ .or_ :: b.toks 1) := by rw [Expr.toks]
theorem toks_filter (e : Expr) (n : Bytes) (args : List Expr) (lvl : Nat) :
    (Expr.filter e n args).toks lvl = parenIf (decide (2 < lvl))
      (e.toks 2 ++ .ch 124 :: (if args.isEmpty then [.ident n] else .keyword n :: (Expr.argsToks args).drop 1)) := by
  rw [Expr.toks]

theorem toks_of_ELevel {e : Expr} (h : e.isELevel = true) (lvl : Nat) : e.toks lvl = e.toks 3 := by
  cases e <;> simp [Expr.isELevel] at h <;> rw [Expr.toks, Expr.toks]

theorem toks_closed {e : Expr} {lvl : Nat} (h : openAt e lvl = false) : e.toks lvl = e.toks 3 := by
  cases e with
  | rel op a b => simp [openAt] at h; rw [toks_rel, toks_rel]; simp [h]
  | and_ a b =>
    simp [openAt] at h; rw [toks_and, toks_and]
    have : 0 < lvl := by omega
    simp [this]
  | or_ a b =>
    simp [openAt] at h; rw [toks_or, toks_or]
    have : 0 < lvl := by omega
    simp [this]
  | filter e n args => simp [openAt] at h; rw [toks_filter, toks_filter]; simp [h]
  | _ => simp [openAt] at h

theorem cost_of_ELevel {e : Expr} (h : e.isELevel = true) (lvl : Nat) : cost e lvl = e.cneed := by
  cases e <;> simp [Expr.isELevel] at h <;> simp [cost, openAt]

theorem relOpOf_relOpTok (op : RelOp) : relOpOf (relOpTok op) = some op := by cases op <;> rfl
theorem stopE_relOpTok (op : RelOp) (r : List ETok) : stopE (relOpTok op :: r) = true := by cases op <;> rfl
theorem noDD_relOpTok (op : RelOp) (r : List ETok) : noDD (relOpTok op :: r) = true := by cases op <;> rfl

/-- an `expr` of the grammar: everything follows from `SE` -/
theorem Compl.ofE {e : Expr} (hl : e.isELevel = true) (hE : SE e) (hc : e.cneed = e.need + 2) : Compl e := by
  have hR : SRl e := SRl_of_SE hE (toks_of_ELevel hl 1) (by rw [cost_of_ELevel hl]; omega)
  refine ⟨hE, fun lvl => SH_of_SE hE lvl (toks_of_ELevel hl lvl) (by rw [cost_of_ELevel hl]; omega), ?_, hR,
    SC_of_SRl hR (by rw [toks_of_ELevel hl 0, toks_of_ELevel hl 1]) (cost_of_ELevel hl 1)⟩
  intro hf; cases e <;> simp [Expr.isELevel] at hl <;> simp [Expr.isFilter] at hf

/-! ### the cases -/

theorem SE_lit (v : GoVal) : SE (.lit v) := by
  intro F r hF
  rw [Expr.need] at hF
  obtain ⟨g, rfl⟩ : ∃ k, F = k + 1 + 1 := ⟨F - 2, by omega⟩
  refine ⟨g + 1, by rw [Expr.need]; omega, ?_⟩
  rw [Expr.toks]
  exact parseExpr_of_primary (parsePrimary_lit g v r)

theorem SE_var (x : Bytes) : SE (.var x) := by
  intro F r hF
  rw [Expr.need] at hF
  obtain ⟨g, rfl⟩ : ∃ k, F = k + 1 + 1 := ⟨F - 2, by omega⟩
  refine ⟨g + 1, by rw [Expr.need]; omega, ?_⟩
  rw [Expr.toks]
  exact parseExpr_of_primary (parsePrimary_ident g x r)

theorem SE_prop {e : Expr} (n : Bytes) (ih : SE e) : SE (.prop e n) := by
  intro F r hF
  rw [Expr.need] at hF
  obtain ⟨f1, hf1, h1⟩ := ih F (.property n :: r) (by omega)
  obtain ⟨f2, rfl⟩ : ∃ k, f1 = k + 1 := ⟨f1 - 1, by omega⟩
  refine ⟨f2, by rw [Expr.need]; omega, ?_⟩
  rw [Expr.toks, List.append_assoc]
  rw [List.singleton_append, h1, parsePostfix_prop]

theorem SE_index {e i : Expr} (ihe : SE e) (ihi : SE i) : SE (.index e i) := by
  intro F r hF
  rw [Expr.need] at hF
  obtain ⟨f1, hf1, h1⟩ := ihe F (.ch 91 :: (i.toks 3 ++ .ch 93 :: r)) (by omega)
  obtain ⟨f2, rfl⟩ : ∃ k, f1 = k + 1 := ⟨f1 - 1, by omega⟩
  refine ⟨f2, by rw [Expr.need]; omega, ?_⟩
  have hi := ihi.final (F := f2) (r := .ch 93 :: r) (by omega) (by rfl)
  have : (Expr.index e i).toks 3 ++ r = e.toks 3 ++ .ch 91 :: (i.toks 3 ++ .ch 93 :: r) := by
    rw [Expr.toks]; simp
  rw [this, h1, parsePostfix_idx hi]

theorem SE_range {a b : Expr} (iha : SE a) (ihb : SE b) : SE (.range a b) := by
  intro F r hF
  rw [Expr.need] at hF
  obtain ⟨g, rfl⟩ : ∃ k, F = k + 1 + 1 := ⟨F - 2, by omega⟩
  refine ⟨g + 1, by rw [Expr.need]; omega, ?_⟩
  have ha := iha.final (F := g) (r := .dotdot :: (b.toks 3 ++ .ch 41 :: r)) (by omega) (by rfl)
  have hb := ihb.final (F := g) (r := .ch 41 :: r) (by omega) (by rfl)
  have : (Expr.range a b).toks 3 ++ r = .ch 40 :: (a.toks 3 ++ .dotdot :: (b.toks 3 ++ .ch 41 :: r)) := by
    rw [Expr.toks]; simp
  rw [this]
  exact parseExpr_of_primary (parsePrimary_range ha hb)

theorem Compl.rel (op : RelOp) {a b : Expr} (iha : SE a) (ihb : SE b) : Compl (.rel op a b) := by
  have hcn : (Expr.rel op a b).cneed = a.need + b.need + 4 := by rw [Expr.cneed]
  have hn : (Expr.rel op a b).need = a.need + b.need + 7 := by rw [Expr.need]
  have ht1 : (Expr.rel op a b).toks 1 = a.toks 3 ++ relOpTok op :: b.toks 3 := by rw [toks_rel]; rfl
  have ht0 : (Expr.rel op a b).toks 0 = a.toks 3 ++ relOpTok op :: b.toks 3 := by rw [toks_rel]; rfl
  have ht3 : (Expr.rel op a b).toks 3 = .ch 40 :: ((Expr.rel op a b).toks 0 ++ [.ch 41]) := by rw [toks_rel, ht0]; rfl
  have hc1 : cost (Expr.rel op a b) 1 = (Expr.rel op a b).cneed := by simp [cost, openAt]
  have hc0 : cost (Expr.rel op a b) 0 = (Expr.rel op a b).cneed := by simp [cost, openAt]
  have hR : SRl (.rel op a b) := by
    intro F G r hs hF hG
    rw [hc1, hcn] at hF hG
    obtain ⟨g, rfl⟩ : ∃ k, G = k + 1 := ⟨G - 1, by omega⟩
    unfold relOf
    rw [ht1, List.append_assoc, List.cons_append, iha.final (by omega) (stopE_relOpTok op _)]
    exact parseRelFrom_op (relOpOf_relOpTok op) (ihb.final (by omega) (stopR_stopE hs))
  have hC : SC (.rel op a b) := SC_of_SRl hR (by rw [ht0, ht1]) hc1
  have hH : ∀ lvl, openAt (.rel op a b) lvl = true → SH (.rel op a b) lvl := by
    intro lvl ho F r hF hs hd
    have hl : (Expr.rel op a b).toks lvl = a.toks 3 ++ relOpTok op :: b.toks 3 := by
      simp [openAt] at ho
      rw [toks_rel]
      have : ¬ (1 < lvl) := by omega
      simp [this, parenIf]
    simp only [cost, ho, if_true] at hF
    rw [hcn] at hF
    refine ⟨a, relOpTok op :: (b.toks 3 ++ r), ?_, noDD_relOpTok op _⟩
    rw [hl, List.append_assoc, List.cons_append]
    exact iha.final (by omega) (stopE_relOpTok op _)
  have hE : SE (.rel op a b) := SE_of_SC (hH 0 rfl) hC ht3 (by rw [hn, hcn]) hc0
  refine ⟨hE, ?_, fun hf => by simp [Expr.isFilter] at hf, hR, hC⟩
  intro lvl
  cases ho : openAt (.rel op a b) lvl with
  | true => exact hH lvl ho
  | false => exact SH_of_SE hE lvl (toks_closed ho) (by simp [cost, ho])

/-- `and` / `or` share one proof: `tk` is the operator token, `mk` the constructor -/
theorem Compl.bool (tk : ETok) (mk : Expr → Expr → Expr) {a b : Expr} (ca : Compl a) (cb : Compl b)
    (hcn : (mk a b).cneed = a.cneed + cost b 1 + 4) (hn : (mk a b).need = a.cneed + cost b 1 + 7)
    (ht : ∀ lvl, (mk a b).toks lvl = parenIf (decide (0 < lvl)) (a.toks 0 ++ tk :: b.toks 1))
    (hop : ∀ lvl, openAt (mk a b) lvl = (lvl == 0)) (hnf : (mk a b).isFilter = false)
    (hse : ∀ r, stopE (tk :: r) = true) (hdd : ∀ r, noDD (tk :: r) = true) (hsr : ∀ r, stopR (tk :: r) = true)
    (hstep : ∀ f c d r r1, parseRel f r = some (d, r1) → parseCondTail (f+1) c (tk :: r) = parseCondTail f (mk c d) r1) :
    Compl (mk a b) := by
  have ht0 : (mk a b).toks 0 = a.toks 0 ++ tk :: b.toks 1 := by rw [ht]; rfl
  have ht3 : (mk a b).toks 3 = .ch 40 :: ((mk a b).toks 0 ++ [.ch 41]) := by rw [ht, ht0]; rfl
  have hc0 : cost (mk a b) 0 = (mk a b).cneed := by simp [cost, hop]
  have hcl : ∀ lvl, 0 < lvl → openAt (mk a b) lvl = false := by
    intro lvl h; rw [hop]; simp; omega
  have hca0 : cost a 0 = a.cneed := by
    cases a <;> simp [cost, openAt]
  have hC : SC (mk a b) := by
    intro F G r hs hF hG
    rw [hcn] at hF hG
    obtain ⟨g1, hg1, h1⟩ := ca.C F G (tk :: (b.toks 1 ++ r)) (hsr _) (by omega) (by omega)
    obtain ⟨g3, rfl⟩ : ∃ k, g1 = k + 1 + 1 := ⟨g1 - 2, by omega⟩
    refine ⟨g3 + 1, by rw [hcn]; omega, ?_⟩
    have hb : parseRel (g3 + 1) (b.toks 1 ++ r) = some (b, r) := by
      rw [parseRel_eq]; exact cb.R g3 g3 r hs (by omega) (by omega)
    rw [ht0, List.append_assoc, List.cons_append, h1]
    exact hstep _ _ _ _ _ hb
  have hH0 : SH (mk a b) 0 := by
    intro F r hF hs hd
    rw [hc0, hcn] at hF
    rw [ht0, List.append_assoc, List.cons_append]
    exact ca.H 0 F _ (by rw [hca0]; omega) (hse _) (hdd _)
  have hE : SE (mk a b) := SE_of_SC hH0 hC ht3 (by rw [hn, hcn]) hc0
  have hc1 : cost (mk a b) 1 = (mk a b).need := by simp [cost, hcl 1 (by omega)]
  refine ⟨hE, ?_, (fun hf => by rw [hnf] at hf; cases hf),
    SRl_of_SE hE (toks_closed (hcl 1 (by omega))) (by rw [hc1]; omega), hC⟩
  intro lvl
  cases lvl with
  | zero => exact hH0
  | succ k => exact SH_of_SE hE _ (toks_closed (hcl _ (by omega))) (by simp [cost, hcl (k+1) (by omega)])

theorem toks_nonFilter {e : Expr} (h : e.isFilter = false) : e.toks 2 = e.toks 3 := by
  cases ho : openAt e 2 with
  | false => exact toks_closed ho
  | true =>
    cases e with
    | filter => simp [Expr.isFilter] at h
    | rel => simp [openAt] at ho
    | and_ => simp [openAt] at ho
    | or_ => simp [openAt] at ho
    | _ => exact toks_of_ELevel rfl 2

theorem need_le_cost {e : Expr} (hf : e.isFilter = false) : e.need ≤ cost e 2 := by
  cases e with
  | filter => simp [Expr.isFilter] at hf
  | rel => simp [cost, openAt]
  | and_ => simp [cost, openAt]
  | or_ => simp [cost, openAt]
  | _ => simp only [cost, openAt, if_true]; rw [Expr.need, Expr.cneed]; omega

theorem Compl.filter {e1 : Expr} (n : Bytes) (args : List Expr) (c1 : Compl e1) (ha : SA args) :
    Compl (.filter e1 n args) := by
  have hcn : (Expr.filter e1 n args).cneed = cost e1 2 + Expr.needArgs args + 4 := by rw [Expr.cneed]; rfl
  have hn : (Expr.filter e1 n args).need = cost e1 2 + Expr.needArgs args + 7 := by rw [Expr.need]; rfl
  have hbody : ∀ lvl, lvl ≤ 2 → (Expr.filter e1 n args).toks lvl =
      e1.toks 2 ++ .ch 124 :: (if args.isEmpty then [.ident n] else .keyword n :: (Expr.argsToks args).drop 1) := by
    intro lvl h
    rw [toks_filter]
    have : ¬ (2 < lvl) := by omega
    simp [this, parenIf]
  have ht3 : (Expr.filter e1 n args).toks 3 = .ch 40 :: ((Expr.filter e1 n args).toks 0 ++ [.ch 41]) := by
    rw [toks_filter, hbody 0 (by omega)]; rfl
  have hco : ∀ lvl, lvl ≤ 2 → cost (Expr.filter e1 n args) lvl = (Expr.filter e1 n args).cneed := by
    intro lvl h; simp [cost, openAt, h]
  have hRF : SRF (.filter e1 n args) := by
    intro F G r hs hF hG
    rw [hcn] at hF hG
    have hc1 := e1.need_pos
    -- the receiver, up to the `|`
    have step1 : ∀ R, stopA (.ch 124 :: R) = true →
        ∃ g1, G ≤ g1 + cost e1 2 ∧ relOf F G (e1.toks 2 ++ .ch 124 :: R) = parseFilters g1 e1 (.ch 124 :: R) := by
      intro R hsR
      cases hf : e1.isFilter with
      | true =>
        have hc : cost e1 2 = e1.cneed := by
          cases e1 <;> simp [Expr.isFilter] at hf; simp [cost, openAt]
        rw [hc] at hF hG ⊢
        exact c1.RF hf F G _ hsR (by omega) (by omega)
      | false =>
        have hle := need_le_cost hf
        obtain ⟨g, rfl⟩ : ∃ k, G = k + 1 := ⟨G - 1, by omega⟩
        refine ⟨g, by omega, ?_⟩
        unfold relOf
        rw [toks_nonFilter hf, c1.E.final (by omega) (by rfl)]
        exact parseRelFrom_filt (by rfl)
    rw [hbody 2 (by omega), List.append_assoc, List.cons_append]
    cases args with
    | nil =>
      obtain ⟨g1, hg1, h1⟩ := step1 (.ident n :: r) (by rfl)
      obtain ⟨g2, rfl⟩ : ∃ k, g1 = k + 1 := ⟨g1 - 1, by omega⟩
      refine ⟨g2, by rw [hcn]; omega, ?_⟩
      simp only [List.isEmpty_nil, if_true, List.cons_append, List.nil_append]
      rw [h1, parseFilters_ident]
    | cons a as =>
      obtain ⟨g1, hg1, h1⟩ := step1 (.keyword n :: ((Expr.argsToks (a :: as)).drop 1 ++ r)) (by rfl)
      obtain ⟨g2, rfl⟩ : ∃ k, g1 = k + 1 := ⟨g1 - 1, by omega⟩
      refine ⟨g2, by rw [hcn]; omega, ?_⟩
      have hp := ha g2 r hs (by simp) (by omega)
      simp only [List.isEmpty_cons, Bool.false_eq_true, if_false, List.cons_append]
      rw [h1, parseFilters_kw hp]
  have hR : SRl (.filter e1 n args) := by
    intro F G r hs hF hG
    rw [hco 1 (by omega)] at hF hG
    obtain ⟨g', hg', h⟩ := hRF F G r (stopR_stopA hs) hF hG
    obtain ⟨g'', rfl⟩ : ∃ k, g' = k + 1 := ⟨g' - 1, by omega⟩
    rw [hbody 1 (by omega), ← hbody 2 (by omega), h, parseFilters_stop _ _ _ (stopR_noBar hs)]
  have hC : SC (.filter e1 n args) := SC_of_SRl hR (by rw [hbody 0 (by omega), hbody 1 (by omega)]) (hco 1 (by omega))
  have hH : ∀ lvl, lvl ≤ 2 → SH (.filter e1 n args) lvl := by
    intro lvl hl F r hF hs hd
    rw [hco lvl hl, hcn] at hF
    rw [hbody lvl hl, List.append_assoc, List.cons_append]
    exact c1.H 2 F _ (by omega) (by rfl) (by rfl)
  have hE : SE (.filter e1 n args) := SE_of_SC (hH 0 (by omega)) hC ht3 (by rw [hn, hcn]) (hco 0 (by omega))
  refine ⟨hE, ?_, fun _ => hRF, hR, hC⟩
  intro lvl
  by_cases hl : lvl ≤ 2
  · exact hH lvl hl
  · have ho : openAt (.filter e1 n args) lvl = false := by simp [openAt]; omega
    exact SH_of_SE hE lvl (toks_closed ho) (by simp [cost, ho])

theorem SA_cons {a : Expr} {as : List Expr} (ha : SE a) (ih : SA as) : SA (a :: as) := by
  intro F r hs _ hF
  rw [Expr.needArgs] at hF
  obtain ⟨f, rfl⟩ : ∃ k, F = k + 1 := ⟨F - 1, by omega⟩
  cases as with
  | nil =>
    have : (Expr.argsToks [a]).drop 1 ++ r = a.toks 3 ++ r := by
      rw [Expr.argsToks, Expr.argsToks]; simp
    rw [this]
    exact parseParams_last (ha.final (by omega) (stopA_stopE hs)) (stopA_noComma hs)
  | cons b bs =>
    have : (Expr.argsToks (a :: b :: bs)).drop 1 ++ r = a.toks 3 ++ .ch 44 :: ((Expr.argsToks (b :: bs)).drop 1 ++ r) := by
      rw [Expr.argsToks, Expr.argsToks]; simp
    rw [this]
    exact parseParams_more (ha.final (by omega) (by rfl)) (ih f r hs (by simp) (by omega))

mutual
/-- **the parser is complete on canonical token lists**, at every level of the grammar -/
theorem compl : (e : Expr) → Compl e
  | .lit v => Compl.ofE rfl (SE_lit v) (by rw [Expr.cneed, Expr.need])
  | .var x => Compl.ofE rfl (SE_var x) (by rw [Expr.cneed, Expr.need])
  | .prop e n => Compl.ofE rfl (SE_prop n (compl e).E) (by rw [Expr.cneed, Expr.need])
  | .index e i => Compl.ofE rfl (SE_index (compl e).E (compl i).E) (by rw [Expr.cneed, Expr.need])
  | .range a b => Compl.ofE rfl (SE_range (compl a).E (compl b).E) (by rw [Expr.cneed, Expr.need])
  | .rel op a b => Compl.rel op (compl a).E (compl b).E
  | .and_ a b => Compl.bool .and_ .and_ (compl a) (compl b) (by rw [Expr.cneed]; rfl) (by rw [Expr.need]; rfl)
      (fun lvl => toks_and a b lvl) (fun _ => rfl) rfl (fun _ => rfl) (fun _ => rfl) (fun _ => rfl)
      (fun _ _ _ _ _ h => parseCondTail_and h)
  | .or_ a b => Compl.bool .or_ .or_ (compl a) (compl b) (by rw [Expr.cneed]; rfl) (by rw [Expr.need]; rfl)
      (fun lvl => toks_or a b lvl) (fun _ => rfl) rfl (fun _ => rfl) (fun _ => rfl) (fun _ => rfl)
      (fun _ _ _ _ _ h => parseCondTail_or h)
  | .filter e n args => Compl.filter n args (compl e) (complArgs args)
theorem complArgs : (as : List Expr) → SA as
  | [] => fun _ _ _ h => absurd rfl h
  | a :: as => SA_cons (compl a).E (complArgs as)
end

/-! ## The fuel of `parseTokensE` is enough -/

theorem parenIf_length (c : Bool) (ts : List ETok) : ts.length ≤ (parenIf c ts).length := by
  unfold parenIf; split <;> simp <;> omega

structure Bound (e : Expr) : Prop where
  n : e.need ≤ 8 * (e.toks 3).length
  c : ∀ lvl, e.cneed ≤ 8 * (e.toks lvl).length

theorem Bound.cost {e : Expr} (h : Bound e) (lvl : Nat) : cost e lvl ≤ 8 * (e.toks lvl).length := by
  unfold _root_.cost
  cases ho : openAt e lvl with
  | true => simpa using h.c lvl
  | false => simp only [Bool.false_eq_true, if_false]; rw [toks_closed ho]; exact h.n

theorem Bound.ofE {e : Expr} (hl : e.isELevel = true) (hn : e.need + 2 ≤ 8 * (e.toks 3).length) (hc : e.cneed = e.need + 2) :
    Bound e := ⟨by omega, fun lvl => by rw [toks_of_ELevel hl lvl]; omega⟩

mutual
theorem bound : (e : Expr) → Bound e
  | .lit v => Bound.ofE rfl (by rw [Expr.need, Expr.toks]; simp) (by rw [Expr.cneed, Expr.need])
  | .var x => Bound.ofE rfl (by rw [Expr.need, Expr.toks]; simp) (by rw [Expr.cneed, Expr.need])
  | .prop e n => Bound.ofE rfl (by have := (bound e).n; rw [Expr.need, Expr.toks]; simp; omega) (by rw [Expr.cneed, Expr.need])
  | .index e i => Bound.ofE rfl (by have := (bound e).n; have := (bound i).n; rw [Expr.need, Expr.toks]; simp; omega)
      (by rw [Expr.cneed, Expr.need])
  | .range a b => Bound.ofE rfl (by have := (bound a).n; have := (bound b).n; rw [Expr.need, Expr.toks]; simp; omega)
      (by rw [Expr.cneed, Expr.need])
  | .rel op a b => by
    have ha := (bound a).n; have hb := (bound b).n
    refine ⟨?_, fun lvl => ?_⟩
    · rw [Expr.need, toks_rel]; simp [parenIf]; omega
    · have := parenIf_length (decide (1 < lvl)) (a.toks 3 ++ relOpTok op :: b.toks 3)
      rw [Expr.cneed, toks_rel]; simp at this; omega
  | .and_ a b => by
    have ha := (bound a).c 0; have hb := (bound b).cost 1
    unfold cost at hb
    refine ⟨?_, fun lvl => ?_⟩
    · rw [Expr.need, toks_and]; simp [parenIf]; omega
    · have := parenIf_length (decide (0 < lvl)) (a.toks 0 ++ .and_ :: b.toks 1)
      rw [Expr.cneed, toks_and]; simp at this; omega
  | .or_ a b => by
    have ha := (bound a).c 0; have hb := (bound b).cost 1
    unfold cost at hb
    refine ⟨?_, fun lvl => ?_⟩
    · rw [Expr.need, toks_or]; simp [parenIf]; omega
    · have := parenIf_length (decide (0 < lvl)) (a.toks 0 ++ .or_ :: b.toks 1)
      rw [Expr.cneed, toks_or]; simp at this; omega
  | .filter e n args => by
    have he := (bound e).cost 2; have ha := boundArgs args
    unfold cost at he
    obtain ⟨X, hX⟩ : ∃ X, X = ETok.ch 124 :: (if args.isEmpty then [ETok.ident n] else .keyword n :: (Expr.argsToks args).drop 1) :=
      ⟨_, rfl⟩
    have hL : Expr.needArgs args + 4 ≤ 8 * X.length := by
      rw [hX]
      cases args with
      | nil => simp [Expr.needArgs]
      | cons x xs => rw [Expr.argsToks] at ha ⊢; simp at ha ⊢; omega
    refine ⟨?_, fun lvl => ?_⟩
    · rw [Expr.need, toks_filter, ← hX]; simp [parenIf]; omega
    · have := parenIf_length (decide (2 < lvl)) (e.toks 2 ++ X)
      rw [Expr.cneed, toks_filter, ← hX]; simp only [List.length_append] at this; omega
theorem boundArgs : (as : List Expr) → Expr.needArgs as ≤ 8 * (Expr.argsToks as).length
  | [] => by simp [Expr.needArgs]
  | a :: as => by
    have := (bound a).n; have := boundArgs as
    rw [Expr.needArgs, Expr.argsToks]; simp; omega
end

/-- the first token of an expression is a literal, an identifier or `(` -/
def startsExpr : List ETok → Bool
  | .lit _ :: _ => true
  | .ident _ :: _ => true
  | .ch b :: _ => b == 40
  | _ => false

theorem startsExpr_append {ts : List ETok} (h : startsExpr ts = true) (r : List ETok) : startsExpr (ts ++ r) = true := by
  cases ts with
  | nil => simp [startsExpr] at h
  | cons t ts => cases t <;> simp_all [startsExpr]

theorem startsExpr_parenIf (c : Bool) {ts : List ETok} (h : startsExpr ts = true) : startsExpr (parenIf c ts) = true := by
  unfold parenIf; split
  · rfl
  · exact h

theorem startsExpr_toks : (e : Expr) → (lvl : Nat) → startsExpr (e.toks lvl) = true
  | .lit v, _ => by rw [Expr.toks]; rfl
  | .var x, _ => by rw [Expr.toks]; rfl
  | .prop e n, _ => by rw [Expr.toks]; exact startsExpr_append (startsExpr_toks e 3) _
  | .index e i, _ => by rw [Expr.toks]; exact startsExpr_append (startsExpr_toks e 3) _
  | .range a b, _ => by rw [Expr.toks]; rfl
  | .rel op a b, lvl => by rw [toks_rel]; exact startsExpr_parenIf _ (startsExpr_append (startsExpr_toks a 3) _)
  | .and_ a b, lvl => by rw [toks_and]; exact startsExpr_parenIf _ (startsExpr_append (startsExpr_toks a 0) _)
  | .or_ a b, lvl => by rw [toks_or]; exact startsExpr_parenIf _ (startsExpr_append (startsExpr_toks a 0) _)
  | .filter e n args, lvl => by rw [toks_filter]; exact startsExpr_parenIf _ (startsExpr_append (startsExpr_toks e 2) _)

/-- **the parser on the canonical tokens of `e`**, with any fuel from `e.cneed + 2` on -/
theorem parseCond_toks (e : Expr) (F : Nat) (r : List ETok) (hF : e.cneed + 2 ≤ F) (hs : stopC r = true) :
    parseCond F (e.toks 0 ++ r) = some (e, r) := by
  obtain ⟨g', hg', h⟩ := (compl e).C F F r (stopC_stopR hs) hF hF
  obtain ⟨g'', rfl⟩ : ∃ k, g' = k + 1 := ⟨g' - 1, by omega⟩
  rw [parseCond_eq, h, parseCondTail_stop _ _ _ hs]

/-- … with the fuel `parseTokensE` computes from the number of tokens -/
theorem parseTokensE_toks (e : Expr) : parseTokensE (e.toks 0 ++ [.ch 59]) = some (.expr e) := by
  have hb := (bound e).c 0
  have hp := parseCond_toks e (8 * (e.toks 0 ++ [ETok.ch 59]).length + 16) [.ch 59] (by simp; omega) (by rfl)
  have hst := startsExpr_append (startsExpr_toks e 0) [.ch 59]
  unfold parseTokensE
  split
  all_goals first
    | (rename_i heq; rw [heq] at hst; simp [startsExpr] at hst; done)
    | skip
  rename_i heq
  simp only [hp, endOk, if_true]
