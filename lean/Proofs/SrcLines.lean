import Proofs.C07Lines
/-!
# Render errors against a writer that does not fail: located at a tag or object of the tree

`Proofs/C07Lines.lean` follows every behaviour of the writer, so an error may also be a write failure
reported by a text, a raw block or a trim marker (line of a text, or 0). `Render` into a buffer
(`run`) never sees a write failure; this file repeats the analysis along the success path of the
writer (`PostOk`) and obtains the sharper statement: every error carries the line of a node that is NOT
a text, raw block or trim marker — of a tag or an object — and the template's path.
-/

/-- a post-condition along the path on which every write succeeds -/
inductive PostOk {α : Type} (Q : RawErr → Prop) (R : α → Prop) : Prog α → Prop where
  | ret (a) : R a → PostOk Q R (.ret a)
  | fail (e) : Q e → PostOk Q R (.fail e)
  | panic (w) : PostOk Q R (.panic w)
  | unmodelled (w) : PostOk Q R (.unmodelled w)
  | call (b k) : PostOk Q R (k .ok) → PostOk Q R (.call b k)

theorem PostOk.bind {α β} {Q : RawErr → Prop} {R : α → Prop} {R' : β → Prop} {p : Prog α} {f : α → Prog β}
    (hp : PostOk Q R p) (hf : ∀ a, R a → PostOk Q R' (f a)) : PostOk Q R' (p.bind f) := by
  induction hp with
  | ret a ha => exact hf a ha
  | fail e he => exact .fail e he
  | panic w => exact .panic w
  | unmodelled w => exact .unmodelled w
  | call b k _ ih => exact .call _ _ ih

theorem PostOk.mapFail {α} {Q Q' : RawErr → Prop} {R : α → Prop} {p : Prog α} (g : RawErr → RawErr)
    (hp : PostOk Q R p) (h : ∀ e, Q e → Q' (g e)) : PostOk Q' R (p.mapFail g) := by
  induction hp with
  | ret a ha => exact .ret a ha
  | fail e he => exact .fail _ (h e he)
  | panic w => exact .panic w
  | unmodelled w => exact .unmodelled w
  | call b k _ ih => exact .call _ _ ih

theorem PostOk.mono {α} {Q Q' : RawErr → Prop} {R R' : α → Prop} {p : Prog α}
    (hp : PostOk Q R p) (hq : ∀ e, Q e → Q' e) (hr : ∀ a, R a → R' a) : PostOk Q' R' p := by
  induction hp with
  | ret a ha => exact .ret a (hr a ha)
  | fail e he => exact .fail _ (hq e he)
  | panic w => exact .panic w
  | unmodelled w => exact .unmodelled w
  | call b k _ ih => exact .call _ _ ih

theorem PostOk.runPure {α} {Q : RawErr → Prop} {R : α → Prop} {p : Prog α} (hp : PostOk Q R p) :
    (∀ out e, p.runPure = (out, .err e) → Q e) ∧ (∀ out a, p.runPure = (out, .ok a) → R a) := by
  induction hp with
  | ret a ha =>
    refine ⟨fun out e h => ?_, fun out a' h => ?_⟩
    · simp [Prog.runPure] at h
    · simp only [Prog.runPure, Prod.mk.injEq, Prog.Outcome.ok.injEq] at h; exact h.2 ▸ ha
  | fail e he =>
    refine ⟨fun out e' h => ?_, fun out a h => ?_⟩
    · simp only [Prog.runPure, Prod.mk.injEq, Prog.Outcome.err.injEq] at h; exact h.2 ▸ he
    · simp [Prog.runPure] at h
  | panic w => exact ⟨fun out e h => by simp [Prog.runPure] at h, fun out a h => by simp [Prog.runPure] at h⟩
  | unmodelled w => exact ⟨fun out e h => by simp [Prog.runPure] at h, fun out a h => by simp [Prog.runPure] at h⟩
  | call b k _ ih =>
    obtain ⟨ih1, ih2⟩ := ih
    refine ⟨fun out e h => ?_, fun out a h => ?_⟩
    · simp only [Prog.runPure] at h
      cases hk : (k .ok).runPure with
      | mk o1 o2 => rw [hk] at h; simp only [Prod.mk.injEq] at h; exact ih1 o1 e (by rw [hk, h.2])
    · simp only [Prog.runPure] at h
      cases hk : (k .ok).runPure with
      | mk o1 o2 => rw [hk] at h; simp only [Prod.mk.injEq] at h; exact ih2 o1 a (by rw [hk, h.2])

/-! ## The predicates -/

/-- located at one of the lines `L`, with the template's path -/
def ELoc (L : List Nat) (e : SErr) : Prop := e.line ∈ L ∧ e.pathSet = true

def EInner (L : List Nat) : RawErr → Prop
  | .plain _ => True
  | .located e => ELoc L e

def EOuter (L : List Nat) : RawErr → Prop
  | .plain _ => False
  | .located e => ELoc L e

def EStatus (L : List Nat) : Status → Prop
  | .done => True
  | .brk e => ELoc L e
  | .cont e => ELoc L e

/-- never fails -/
def NF : RawErr → Prop := fun _ => False

theorem EOuter.inner {L : List Nat} : ∀ e, EOuter L e → EInner L e
  | .plain _, h => h.elim
  | .located _, h => h

theorem wrapError_eloc (path : Bytes) (L : List Nat) (line : Nat) (hl : line ∈ L) :
    ∀ e, EInner L e → ELoc L (wrapError path e ⟨line, true⟩)
  | .plain c, _ => ⟨hl, rfl⟩
  | .located e, h => by
    simp only [wrapError]
    split
    · exact h
    · exact ⟨hl, rfl⟩

/-! ## The render monad -/

def PostMOk {α} (Q : RawErr → Prop) (R : α → Prop) (m : M α) : Prop := ∀ s, PostOk Q (fun r => R r.1) (m s)

theorem okM_pure {α} {Q : RawErr → Prop} {R : α → Prop} (a : α) (h : R a) : PostMOk Q R (pure a : M α) :=
  fun _ => .ret _ h

theorem okM_bind {α β} {Q : RawErr → Prop} {R : α → Prop} {R' : β → Prop} {m : M α} {f : α → M β}
    (hm : PostMOk Q R m) (hf : ∀ a, R a → PostMOk Q R' (f a)) : PostMOk Q R' (m >>= f) := by
  intro s
  exact PostOk.bind (hm s) (fun ⟨a, s'⟩ ha => hf a ha s')

theorem okM_mono {α} {Q Q' : RawErr → Prop} {R R' : α → Prop} {m : M α} (hm : PostMOk Q R m)
    (hq : ∀ e, Q e → Q' e) (hr : ∀ a, R a → R' a) : PostMOk Q' R' m :=
  fun s => PostOk.mono (hm s) hq (fun a h => hr _ h)

/-- what never fails satisfies every failure condition -/
theorem okM_nf {α} {Q : RawErr → Prop} {R : α → Prop} {m : M α} (hm : PostMOk NF R m) : PostMOk Q R m :=
  okM_mono hm (fun _ h => h.elim) (fun _ h => h)

theorem okM_fail {α} {Q : RawErr → Prop} {R : α → Prop} (e : RawErr) (h : Q e) : PostMOk Q R (M.fail e : M α) :=
  fun _ => .fail _ h
theorem okM_getEnv {Q : RawErr → Prop} : PostMOk Q (fun _ => True) M.getEnv := fun _ => .ret _ True.intro
theorem okM_setVar {Q : RawErr → Prop} (x : Bytes) (v : GoVal) : PostMOk Q (fun _ => True) (M.setVar x v) :=
  fun _ => .ret _ True.intro
theorem okM_getVar {Q : RawErr → Prop} (x : Bytes) : PostMOk Q (fun _ => True) (M.getVar x) := fun _ => .ret _ True.intro

theorem okM_ofRes {α} (L : List Nat) (r : Res Cause α) : PostMOk (EInner L) (fun _ => True) (M.ofRes r) := by
  intro s
  cases r with
  | ok a => exact .ret _ True.intro
  | err c => exact .fail _ True.intro
  | panic w => exact .panic _
  | unmodelled w => exact .unmodelled _

theorem okM_wrapFailAt {α} (path : Bytes) (L : List Nat) (line : Nat) (hl : line ∈ L)
    {R : α → Prop} {m : M α} (hm : PostMOk (EInner L) R m) : PostMOk (EOuter L) R (wrapFailAt path ⟨line, true⟩ m) := by
  intro s
  exact PostOk.mapFail _ (hm s) (fun e he => wrapError_eloc path L line hl e he)

/-- wrapping what never fails, at any location -/
theorem okM_wrapFailAt_nf {α} (path : Bytes) (loc : Loc) {Q : RawErr → Prop} {R : α → Prop} {m : M α} (hm : PostMOk NF R m) :
    PostMOk Q R (wrapFailAt path loc m) := by
  intro s
  exact PostOk.mapFail _ (hm s) (fun e he => he.elim)

theorem okM_wrapAt (path : Bytes) (L : List Nat) (line : Nat) (hl : line ∈ L)
    {m : M Status} (hm : PostMOk (EInner L) (EStatus L) m) : PostMOk (EOuter L) (EStatus L) (wrapAt path ⟨line, true⟩ m) := by
  intro s
  unfold wrapAt
  refine PostOk.bind (PostOk.mapFail _ (hm s) (fun e he => wrapError_eloc path L line hl e he)) (fun ⟨st, s'⟩ hst => .ret _ ?_)
  cases st with
  | done => exact True.intro
  | brk e => exact wrapError_eloc path L line hl (.located e) hst
  | cont e => exact wrapError_eloc path L line hl (.located e) hst

theorem okM_flush : PostMOk NF (fun _ => True) flushM := by
  intro s
  unfold flushM
  split
  · exact .ret _ True.intro
  · exact .call _ _ (.ret _ True.intro)

theorem okM_write (b : Bytes) : PostMOk NF (fun _ => True) (writeM b) := by
  intro s
  unfold writeM
  simp only
  split
  · exact .ret _ True.intro
  · exact .call _ _ (.ret _ True.intro)

theorem okM_trimLeft : PostMOk NF (fun _ => True) trimLeftM := by
  intro s
  exact .call _ _ (.ret _ True.intro)

theorem okM_trimRight {Q : RawErr → Prop} : PostMOk Q (fun _ => True) trimRightM := fun _ => .ret _ True.intro

theorem okM_writeVerbatim (b : Bytes) : PostMOk NF (fun _ => True) (writeVerbatimM b) := by
  unfold writeVerbatimM
  exact okM_bind (okM_write []) (fun _ _ => okM_bind (okM_write b) (fun _ _ => okM_flush))

theorem okM_writeAll : ∀ cs, PostMOk NF (fun _ => True) (writeAllM cs)
  | [] => okM_pure () True.intro
  | c :: cs => by
    unfold writeAllM
    exact okM_bind (okM_writeVerbatim c) (fun _ _ => okM_writeAll cs)

theorem okM_capture {α} (L : List Nat) {R : α → Prop} {m : M α} (hm : PostMOk (EInner L) R m) :
    PostMOk (EInner L) (fun r => R r.1) (captureM m) := by
  intro s
  unfold captureM
  simp only
  have hp : PostOk (EInner L) (fun r => R r.1)
      ((m { env := s.env, tw := {} }).bind (fun (a, s1) => (flushM s1).bind (fun (_, s2) => Prog.ret (a, s2)))) :=
    PostOk.bind (hm _) (fun ⟨_, s1⟩ ha => PostOk.bind (okM_nf okM_flush s1) (fun ⟨_, s2⟩ _ => .ret _ ha))
  obtain ⟨h1, h2⟩ := hp.runPure
  split
  · next out a s2 heq => exact .ret _ (h2 _ _ heq)
  · next e heq => exact .fail _ (h1 _ _ heq)
  · exact .panic _
  · exact .unmodelled _

theorem okM_tablerowBefore (cols i : Nat) : PostMOk NF (fun _ => True) (tablerowBefore cols i) := by
  unfold tablerowBefore
  simp only [bind_pure_comp]
  split
  · exact okM_bind (okM_write _) (fun _ _ => okM_write _)
  · exact okM_bind (R := fun _ => True) (okM_pure _ True.intro) (fun _ _ => okM_write _)

theorem okM_tablerowAfter (cols i l : Nat) : PostMOk NF (fun _ => True) (tablerowAfter cols i l) := by
  unfold tablerowAfter
  refine okM_bind (okM_write _) (fun _ _ => ?_)
  split
  · exact okM_write _
  · exact okM_pure _ True.intro

theorem okM_evalCond (P : Prims) (path : Bytes) (L : List Nat) (t : CondT) (ht : ∀ x, x ∈ t.lines → x ∈ L) :
    PostMOk (EOuter L) (fun _ => True) (evalCond P path t) := by
  unfold evalCond
  refine okM_bind okM_getEnv (fun env _ => ?_)
  cases t with
  | always => exact okM_pure _ True.intro
  | expr line e =>
    exact okM_wrapFailAt path L line (ht _ (by simp [CondT.lines]))
      (okM_bind (okM_ofRes L _) (fun _ _ => okM_pure _ True.intro))
  | notExpr line e =>
    exact okM_wrapFailAt path L line (ht _ (by simp [CondT.lines]))
      (okM_bind (okM_ofRes L _) (fun _ _ => okM_pure _ True.intro))

theorem okM_intModifier (P : Prims) (L : List Nat) (e : Option Expr) (line : Nat) (hl : line ∈ L) :
    PostMOk (EInner L) (fun _ => True) (intModifier P e ⟨line, true⟩) := by
  unfold intModifier
  cases e with
  | none => exact okM_pure _ True.intro
  | some ex =>
    refine okM_bind okM_getEnv (fun env _ => okM_bind (okM_ofRes L _) (fun v _ => ?_))
    split
    · exact okM_pure _ True.intro
    · exact okM_fail _ ⟨hl, rfl⟩

theorem okM_restore {Q : RawErr → Prop} (var : Bytes) (a b : GoVal) : PostMOk Q (fun _ => True) (restoreLoopVars var a b) := by
  unfold restoreLoopVars
  exact okM_bind (okM_setVar _ _) (fun _ _ => okM_setVar _ _)

theorem okM_iterate (L : List Nat) (var : Bytes) (cols : Option Nat) (body : M Status)
    (hb : PostMOk (EInner L) (EStatus L) body) (n : Nat) :
    ∀ xs i cyc, PostMOk (EInner L) (EStatus L) (iterateM var cols body n xs i cyc) := by
  intro xs
  induction xs with
  | nil => intro i cyc; exact okM_pure _ True.intro
  | cons x xs ih =>
    intro i cyc
    unfold iterateM
    refine okM_bind (okM_setVar _ _) (fun _ _ => okM_bind (okM_setVar _ _) (fun _ _ => ?_))
    refine okM_bind (R := fun _ => True) ?_ (fun _ _ => okM_bind hb (fun st _ =>
      okM_bind (R := fun _ => True) ?_ (fun _ _ => okM_bind (okM_getVar _) (fun cur _ => ?_))))
    · cases cols with
      | none => exact okM_pure _ True.intro
      | some c => exact okM_nf (okM_tablerowBefore c i)
    · cases cols with
      | none => exact okM_pure _ True.intro
      | some c => exact okM_nf (okM_tablerowAfter c i n)
    · cases st with
      | brk e => exact okM_pure _ True.intro
      | done => exact ih _ _
      | cont e => exact ih _ _

theorem okM_tablerowCols (P : Prims) (L : List Nat) (tr : Bool) (cols : Option Expr) (line : Nat) (hl : line ∈ L) :
    PostMOk (EInner L) (fun _ => True) (tablerowCols P tr cols ⟨line, true⟩) := by
  unfold tablerowCols
  split
  · refine okM_bind (okM_intModifier P L _ line hl) (fun cv _ => ?_)
    cases cv <;> exact okM_pure _ True.intro
  · exact okM_pure _ True.intro

theorem okM_loopRun {budget : Int} (P : Prims) (path : Bytes) (L : List Nat) (line : Nat) (hl : line ∈ L)
    (tr : Bool) (var : Bytes) (e : Expr) (mods : LoopMods)
    {bodyM : M Status} (hb : PostMOk (EInner L) (EStatus L) bodyM) (tooMany : Bool) (elseM : Option (M Status))
    (he : ∀ m, elseM = some m → PostMOk (EInner L) (EStatus L) m) :
    PostMOk (EOuter L) (EStatus L) (loopRun budget P path ⟨line, true⟩ tr var e mods bodyM tooMany elseM) := by
  unfold loopRun
  refine okM_wrapAt path L line hl (okM_bind okM_getEnv (fun env _ => okM_bind (okM_ofRes L _) (fun v _ =>
    okM_bind (okM_ofRes L _) (fun items0 _ => okM_bind (okM_intModifier P L _ line hl) (fun off _ =>
    okM_bind (okM_intModifier P L _ line hl) (fun lim _ => ?_))))))
  split
  · exact okM_fail _ True.intro
  · unfold loopDispatch
    split
    · next els => exact he _ rfl
    · unfold loopIterate
      exact okM_bind (okM_tablerowCols P L _ _ line hl) (fun cols _ => okM_bind (okM_getVar _) (fun pl _ =>
        okM_bind (okM_getVar _) (fun pv _ => okM_bind (okM_iterate L _ _ _ hb _ _ _ _) (fun st hst =>
        okM_bind (okM_restore _ _ _) (fun _ _ => okM_pure _ hst)))))

/-! ## The lines of the nodes that can fail: everything but texts, raw blocks and trim markers -/

mutual
def Node.elines : Node → List Nat
  | .text _ _ => []
  | .obj line _ => [line]
  | .raw _ => []
  | .trim _ => []
  | .assign line _ _ => [line]
  | .capture line _ body => line :: elinesList body
  | .ifB line bs => line :: elinesBranches bs
  | .caseB line _ cs => line :: elinesCases cs
  | .loop line _ _ _ _ body clauses => line :: (elinesList body ++ elinesClauses clauses)
  | .cycle line _ _ _ => [line]
  | .brk line => [line]
  | .cont line => [line]
  | .incl line _ => [line]
def elinesList : List Node → List Nat
  | [] => []
  | n :: ns => n.elines ++ elinesList ns
def elinesBranches : List (CondT × List Node) → List Nat
  | [] => []
  | (t, body) :: rest => t.lines ++ elinesList body ++ elinesBranches rest
def elinesCases : List (Option (Nat × List Expr) × List Node) → List Nat
  | [] => []
  | (none, body) :: rest => elinesList body ++ elinesCases rest
  | (some (line, _), body) :: rest => line :: (elinesList body ++ elinesCases rest)
def elinesClauses : List (List Node) → List Nat
  | [] => []
  | c :: cs => elinesList c ++ elinesClauses cs
end

mutual
theorem elines_renderNode (c : RCtx) (L : List Nat) :
    ∀ n : Node, n.noIncl = true → (∀ x, x ∈ n.elines → x ∈ L) → PostMOk (EOuter L) (EStatus L) (renderNode c n)
  | .text line src, _, _ => by
    unfold renderNode
    exact okM_wrapFailAt_nf _ _ (okM_bind (okM_write _) (fun _ _ => okM_pure _ True.intro))
  | .obj line e, _, hL => by
    unfold renderNode
    refine okM_wrapFailAt _ L line (hL _ (by simp [Node.elines]))
      (okM_bind okM_getEnv (fun env _ => okM_bind (okM_ofRes L _) (fun v _ => ?_)))
    split
    · exact okM_fail _ True.intro
    · exact okM_bind (okM_ofRes L _) (fun _ _ => okM_bind (okM_nf (okM_writeAll _)) (fun _ _ => okM_pure _ True.intro))
  | .raw slices, _, _ => by
    unfold renderNode
    exact okM_wrapFailAt_nf _ _ (okM_bind (okM_writeAll _) (fun _ _ => okM_pure _ True.intro))
  | .trim true, _, _ => by
    unfold renderNode
    exact okM_wrapFailAt_nf _ _ (okM_bind okM_trimLeft (fun _ _ => okM_pure _ True.intro))
  | .trim false, _, _ => by
    unfold renderNode
    exact okM_bind okM_trimRight (fun _ _ => okM_pure _ True.intro)
  | .assign line x e, _, hL => by
    unfold renderNode
    exact okM_wrapFailAt _ L line (hL _ (by simp [Node.elines]))
      (okM_bind okM_getEnv (fun env _ => okM_bind (okM_ofRes L _)
        (fun v _ => okM_bind (okM_setVar _ _) (fun _ _ => okM_pure _ True.intro))))
  | .capture line x body, hn, hL => by
    unfold renderNode
    have hb := elines_renderList c L body (by simpa [Node.noIncl] using hn)
      (fun y hy => hL y (by simp [Node.elines, hy]))
    refine okM_wrapAt _ L line (hL _ (by simp [Node.elines]))
      (okM_bind (okM_capture L (okM_mono hb EOuter.inner (fun _ h => h))) (fun r hr => ?_))
    obtain ⟨st, out⟩ := r
    cases st with
    | done => exact okM_bind (okM_setVar _ _) (fun _ _ => okM_pure _ True.intro)
    | brk e => exact okM_pure _ hr
    | cont e => exact okM_pure _ hr
  | .ifB line branches, hn, hL => by
    unfold renderNode
    exact okM_wrapAt _ L line (hL _ (by simp [Node.elines]))
      (okM_mono (elines_renderBranches c L branches (by simpa [Node.noIncl] using hn)
        (fun y hy => hL y (by simp [Node.elines, hy]))) EOuter.inner (fun _ h => h))
  | .caseB line subject cases, hn, hL => by
    unfold renderNode
    exact okM_wrapAt _ L line (hL _ (by simp [Node.elines]))
      (okM_bind okM_getEnv (fun env _ => okM_bind (okM_ofRes L _)
        (fun sel _ => okM_mono (elines_renderCases c L sel cases (by simpa [Node.noIncl] using hn)
          (fun y hy => hL y (by simp [Node.elines, hy]))) EOuter.inner (fun _ h => h))))
  | .loop line tablerow var e mods body clauses, hn, hL => by
    unfold renderNode
    simp only
    have hn' : noInclList body = true ∧ noInclClauses clauses = true := by simpa [Node.noIncl] using hn
    have hline : line ∈ L := hL _ (by simp [Node.elines])
    have hbody := okM_mono (elines_renderBlockBody c L body hn'.1
      (fun y hy => hL y (by simp [Node.elines, hy]))) EOuter.inner (fun _ h => h)
    split
    · exact okM_loopRun _ _ L line hline _ _ _ _ hbody _ none (fun _ h => by cases h)
    · next els =>
      have hne : noInclList els = true := by
        have := hn'.2; simp only [noInclClauses, Bool.and_eq_true] at this; exact this.1
      refine okM_loopRun _ _ L line hline _ _ _ _ hbody _ (some _) (fun m h => ?_)
      cases h
      exact okM_mono (elines_renderBlockBody c L els hne
        (fun y hy => hL y (by simp [Node.elines, elinesClauses, hy]))) EOuter.inner (fun _ h => h)
    · exact okM_loopRun _ _ L line hline _ _ _ _ hbody _ none (fun _ h => by cases h)
  | .cycle line group v0 rest, _, hL => by
    unfold renderNode
    have hline : line ∈ L := hL _ (by simp [Node.elines])
    refine okM_wrapFailAt _ L line hline (okM_bind (okM_getVar _) (fun lv _ => ?_))
    split
    · exact okM_fail _ ⟨hline, rfl⟩
    · exact okM_bind (okM_setVar _ _) (fun _ _ => okM_bind (okM_nf (okM_writeVerbatim _)) (fun _ _ => okM_pure _ True.intro))
  | .brk line, _, hL => by
    unfold renderNode
    have hline : line ∈ L := hL _ (by simp [Node.elines])
    exact okM_pure _ (wrapError_eloc _ L line hline (.located _) (wrapError_eloc _ L line hline (.plain _) True.intro))
  | .cont line, _, hL => by
    unfold renderNode
    have hline : line ∈ L := hL _ (by simp [Node.elines])
    exact okM_pure _ (wrapError_eloc _ L line hline (.located _) (wrapError_eloc _ L line hline (.plain _) True.intro))
  | .incl line args, hn, _ => by simp [Node.noIncl] at hn
theorem elines_renderList (c : RCtx) (L : List Nat) :
    ∀ ns : List Node, noInclList ns = true → (∀ x, x ∈ elinesList ns → x ∈ L) → PostMOk (EOuter L) (EStatus L) (renderList c ns)
  | [], _, _ => by unfold renderList; exact okM_pure _ True.intro
  | n :: ns, hn, hL => by
    unfold renderList
    have hn' : n.noIncl = true ∧ noInclList ns = true := by simpa [noInclList] using hn
    refine okM_bind (elines_renderNode c L n hn'.1 (fun y hy => hL y (by simp [elinesList, hy]))) (fun st hst => ?_)
    cases st with
    | done => exact elines_renderList c L ns hn'.2 (fun y hy => hL y (by simp [elinesList, hy]))
    | brk e => exact okM_pure _ hst
    | cont e => exact okM_pure _ hst
theorem elines_renderBlockBody (c : RCtx) (L : List Nat) (body : List Node) (hn : noInclList body = true)
    (hL : ∀ x, x ∈ elinesList body → x ∈ L) : PostMOk (EOuter L) (EStatus L) (renderBlockBody c body) := by
  unfold renderBlockBody
  refine okM_bind (elines_renderList c L body hn hL) (fun st hst => ?_)
  cases st with
  | done => exact okM_bind (okM_wrapFailAt_nf _ _ okM_flush) (fun _ _ => okM_pure _ True.intro)
  | brk e => exact okM_pure _ hst
  | cont e => exact okM_pure _ hst
theorem elines_renderBranches (c : RCtx) (L : List Nat) :
    ∀ bs : List (CondT × List Node), noInclBranches bs = true → (∀ x, x ∈ elinesBranches bs → x ∈ L) →
      PostMOk (EOuter L) (EStatus L) (renderBranches c bs)
  | [], _, _ => by unfold renderBranches; exact okM_pure _ True.intro
  | (t, body) :: rest, hn, hL => by
    unfold renderBranches
    have hn' : noInclList body = true ∧ noInclBranches rest = true := by simpa [noInclBranches] using hn
    have hc := okM_evalCond c.P c.cfg.path L t (fun y hy => hL y (by simp [elinesBranches, hy]))
    refine okM_bind hc (fun b _ => ?_)
    split
    · exact elines_renderBlockBody c L body hn'.1 (fun y hy => hL y (by simp [elinesBranches, hy]))
    · exact elines_renderBranches c L rest hn'.2 (fun y hy => hL y (by simp [elinesBranches, hy]))
theorem elines_renderCases (c : RCtx) (L : List Nat) (sel : GoVal) :
    ∀ cs : List (Option (Nat × List Expr) × List Node), noInclCases cs = true → (∀ x, x ∈ elinesCases cs → x ∈ L) →
      PostMOk (EOuter L) (EStatus L) (renderCases c sel cs)
  | [], _, _ => by unfold renderCases; exact okM_pure _ True.intro
  | (none, body) :: rest, hn, hL => by
    unfold renderCases
    have hn' : noInclList body = true ∧ noInclCases rest = true := by simpa [noInclCases] using hn
    exact elines_renderBlockBody c L body hn'.1 (fun y hy => hL y (by simp [elinesCases, hy]))
  | (some (line, es), body) :: rest, hn, hL => by
    unfold renderCases
    have hn' : noInclList body = true ∧ noInclCases rest = true := by simpa [noInclCases] using hn
    refine okM_bind (okM_wrapFailAt _ L line (hL _ (by simp [elinesCases]))
      (elines_whenMatches c L sel es)) (fun hit _ => ?_)
    split
    · exact elines_renderBlockBody c L body hn'.1 (fun y hy => hL y (by simp [elinesCases, hy]))
    · exact elines_renderCases c L sel rest hn'.2 (fun y hy => hL y (by simp [elinesCases, hy]))
theorem elines_whenMatches (c : RCtx) (L : List Nat) (sel : GoVal) :
    ∀ es : List Expr, PostMOk (EInner L) (fun _ => True) (whenMatches c sel es)
  | [] => by unfold whenMatches; exact okM_pure _ True.intro
  | e :: es => by
    unfold whenMatches
    refine okM_bind okM_getEnv (fun env _ => okM_bind (okM_ofRes L _) (fun v _ =>
      okM_bind (okM_ofRes L _) (fun eq _ => ?_)))
    split
    · exact okM_pure _ True.intro
    · exact elines_whenMatches c L sel es
end

/-- **every error of a render into a buffer locates a tag or object of the tree, with the template's path** -/
theorem render_error_eline (c : RCtx) (root : List Node) (h : noInclList root = true) (env : Env) :
    PostOk (EOuter (elinesList root)) (EStatus (elinesList root)) (renderRoot c root env) := by
  unfold renderRoot
  refine PostOk.bind (elines_renderList c _ root h (fun _ hx => hx) _) (fun ⟨st, s⟩ hst => ?_)
  cases st with
  | done => exact PostOk.bind (okM_wrapFailAt_nf c.cfg.path invalidLoc okM_flush s) (fun _ _ => .ret _ True.intro)
  | brk e => exact .ret _ hst
  | cont e => exact .ret _ hst

/-- the same on `frender` run against a writer that does not fail -/
theorem frender_error_eline (P : Prims) (O : OutPrims) (cfg : Cfg) (fs : FS) (fuel : Nat) (root : List Node)
    (h : noInclList root = true) (env : Env) (out : Bytes) (e : RawErr)
    (hr : (frender P O cfg fs fuel root env).runPure = (out, .err e)) :
    ∃ se, e = .located se ∧ se.line ∈ elinesList root ∧ se.pathSet = true := by
  have hp : PostOk (EOuter (elinesList root)) (fun _ => True) (frender P O cfg fs fuel root env) := by
    unfold frender
    refine PostOk.bind (render_error_eline (mkCtx P O cfg fs fuel) root h env) (fun st hst => ?_)
    cases st with
    | done => exact .ret _ True.intro
    | brk e => exact .fail _ hst
    | cont e => exact .fail _ hst
  have := hp.runPure.1 out e hr
  cases e with
  | plain c => exact this.elim
  | located se => exact ⟨se, rfl, this.1, this.2⟩
