import Proofs.RepEqStd
/-!
# The standard comparisons respect representation equivalence (helper lemmas for C18; every `d`:
drops nested in containers included, since `values.Equal` resolves a drop at every depth)
-/

open GoVal

open Cmp

variable {d : Bool}

/-! ## `equalBody` looks at a sequence / map operand only through its kind and its loops -/

theorem Cmp.equalBody_seq_congr {a a' : GoVal} {xs xs' : List GoVal} (ha : seqElems? a = some xs) (ha' : seqElems? a' = some xs')
    (z : GoVal) {f f' : SeqView → R Bool} (hf : ∀ sv, f sv = f' sv) (g g' : Ty → List (GoVal × GoVal) → R Bool) :
    equalBody a z f g = equalBody a' z f' g' := by
  have hff : f = f' := funext hf
  subst hff
  cases a <;> simp [seqElems?] at ha <;> cases a' <;> simp [seqElems?] at ha' <;>
    cases z <;> simp [equalBody, GoVal.isNil, joinKind, rkind, RKind.isInt, RKind.isFloat, safeEqual, structTag, comparableV]

theorem Cmp.equalBody_map_congr (kt vt vt' : Ty) (kvs kvs' : List (GoVal × GoVal))
    (z : GoVal) (f f' : SeqView → R Bool) {g g' : Ty → List (GoVal × GoVal) → R Bool} (hg : ∀ k e, g k e = g' k e) :
    equalBody (.map kt vt kvs) z f g = equalBody (.map kt vt' kvs') z f' g' := by
  have hgg : g = g' := funext fun k => funext fun e => hg k e
  subst hgg
  cases z <;> simp [equalBody, GoVal.isNil, joinKind, rkind, RKind.isInt, RKind.isFloat, safeEqual, structTag, comparableV]

theorem Cmp.prepList_length (xs : List GoVal) : (prepList xs).length = xs.length := by
  induction xs with
  | nil => rfl
  | cons x xs ih => simp [prepList, ih]

theorem Cmp.prepKVs_length (kvs : List (GoVal × GoVal)) : (prepKVs kvs).length = kvs.length := by
  induction kvs with
  | nil => rfl
  | cons kv kvs ih => obtain ⟨k, v⟩ := kv; simp [prepKVs, ih]

theorem Cmp.normList_len (d : Bool) (xs : List GoVal) : (normList d xs).length = xs.length := by
  simp [normList_eq_map]

theorem Cmp.normKVs_len (d : Bool) (kvs : List (GoVal × GoVal)) : (normKVs d kvs).length = kvs.length := by
  simp [normKVs_eq_map]

/-! ## `values.Equal`: the first operand may be normalised -/

mutual
/-- `fl = true` is `values.Equal` itself (it resolves a drop first); the body after `ToLiquid` (`fl = false`) is only
    entered with a first operand that is no drop -/
theorem Cmp.equalAux_pn_left : ∀ (a : GoVal) (fl : Bool) (y : GoVal), (fl = true ∨ noDrop a = true) →
    equalAux fl (prep (a.norm d)) y = equalAux fl (prep a) y
  | .drop v, fl, y, h => by
    rcases h with rfl | h
    · rw [norm]
      split
      · rfl
      · simp only [prep, equalAux]
        exact equalAux_pn_left v true y (.inl rfl)
    · simp [noDrop] at h
  | .slice t xs, fl, y, _ => by
    simp only [norm, prep, equalAux]
    refine equalBody_seq_congr rfl rfl _ (fun sv => ?_) _ _
    cases sv with
    | vals ys => simp only [seqVals, prepList_length, normList_len, equalList_pn_left xs ys]
    | items kvs => simp only [seqVals, prepList_length, normList_len]
  | .array t xs, fl, y, _ => by
    simp only [norm, prep, equalAux]
    refine equalBody_seq_congr rfl rfl _ (fun sv => ?_) _ _
    cases sv with
    | vals ys => simp only [seqVals, prepList_length, normList_len, equalList_pn_left xs ys]
    | items kvs => simp only [seqVals, prepList_length, normList_len]
  | .map kt vt kvs, fl, y, _ => by
    cases hr : isRec (.map kt vt kvs) with
    | true => rw [norm_of_isRec hr]
    | false =>
      rw [norm_map_nonrec hr]
      simp only [prep, equalAux]
      refine equalBody_map_congr _ _ _ _ _ _ _ _ (fun k e => ?_)
      simp only [mapEntries, prepKVs_length, normKVs_len, mapAll_pn_left kvs e]
  | .nil, _, _, _ | .bool _, _, _, _ | .int _ _, _, _, _ | .flt _ _, _, _, _ | .str _, _, _, _ | .bytes _, _, _, _
  | .mapSlice _, _, _, _ | .keyedMap _, _, _, _ | .range _ _, _, _, _ | .ptr _, _, _, _ | .nilPtr, _, _, _
  | .struct _, _, _, _ | .time _, _, _, _ => by simp [norm]
theorem Cmp.equalList_pn_left : ∀ (xs ys : List GoVal),
    equalList (prepList (normList d xs)) ys = equalList (prepList xs) ys
  | [], _ => rfl
  | x :: xs, [] => by simp [normList, prepList, equalList]
  | x :: xs, y :: ys => by
    simp only [normList, prepList, equalList, equalAux_pn_left x true y (.inl rfl), equalList_pn_left xs ys]
theorem Cmp.mapAll_pn_left : ∀ (kvs bs : List (GoVal × GoVal)),
    mapAll (prepKVs (normKVs d kvs)) bs = mapAll (prepKVs kvs) bs
  | [], _ => rfl
  | (k, v) :: r, bs => by
    simp only [normKVs, prepKVs, mapAll, fun y => equalAux_pn_left v true y (.inl rfl), mapAll_pn_left r bs]
end

/-! ## `values.Equal`: the second operand may be normalised -/

/-- `equalBody` looks at a normalised second operand through the same kind, the normalised
    elements and the normalised entries (`ToLiquid` of the second operand follows a chain of drops, so a drop
    that `norm true` resolved is resolved on the other side too) -/
theorem Cmp.equalBody_toLiq_right (x : GoVal) (sK : SeqView → R Bool) (mK : Ty → List (GoVal × GoVal) → R Bool)
    (hs : ∀ ys, sK (.vals (prepList (normList d ys))) = sK (.vals (prepList ys)))
    (hm : ∀ kt kvs, mK kt (prepKVs (normKVs d kvs)) = mK kt (prepKVs kvs)) : ∀ b : GoVal,
    equalBody x (toLiq (prep (b.norm d))) sK mK = equalBody x (toLiq (prep b)) sK mK
  | .drop w => by
    rw [norm]
    split
    · rfl
    · simp only [prep, toLiq]
      exact equalBody_toLiq_right x sK mK hs hm w
  | .slice t ys => by
    simp only [norm, prep, toLiq]
    cases x <;> simp [equalBody, GoVal.isNil, joinKind, rkind, RKind.isInt, RKind.isFloat, safeEqual, structTag,
      comparableV, seqView, hs, Res.bind]
  | .array t ys => by
    simp only [norm, prep, toLiq]
    cases x <;> simp [equalBody, GoVal.isNil, joinKind, rkind, RKind.isInt, RKind.isFloat, safeEqual, structTag,
      comparableV, seqView, hs, Res.bind]
  | .map kt vt kvs => by
    cases hr : isRec (.map kt vt kvs) with
    | true => rw [norm_of_isRec hr]
    | false =>
      rw [norm_map_nonrec hr]
      simp only [prep, toLiq]
      cases x <;> simp [equalBody, GoVal.isNil, joinKind, rkind, RKind.isInt, RKind.isFloat, safeEqual, structTag,
        comparableV, mapView, hm, Res.bind]
  | .nil | .bool _ | .int _ _ | .flt _ _ | .str _ | .bytes _
  | .mapSlice _ | .keyedMap _ | .range _ _ | .ptr _ | .nilPtr
  | .struct _ | .time _ => by simp [norm]

theorem Cmp.lookupKey_pn (kk : Key) : ∀ bs : List (GoVal × GoVal),
    (lookupKey kk (prepKVs (normKVs d bs)) = none ∧ lookupKey kk (prepKVs bs) = none) ∨
    ∃ v, lookupKey kk (prepKVs (normKVs d bs)) = some (prep (v.norm d)) ∧ lookupKey kk (prepKVs bs) = some (prep v)
  | [] => .inl ⟨rfl, rfl⟩
  | (k, v) :: r => by
    simp only [normKVs, prepKVs, lookupKey]
    split
    · exact .inr ⟨v, rfl, rfl⟩
    · exact lookupKey_pn kk r

mutual
theorem Cmp.equalAux_pn_right : ∀ (x : GoVal) (fl : Bool) (b : GoVal),
    equalAux fl x (prep (b.norm d)) = equalAux fl x (prep b)
  | .drop v, true, b => by simp only [equalAux]; exact equalAux_pn_right v true b
  | .drop v, false, b => by
    simp only [equalAux]
    exact equalBody_toLiq_right _ _ _ (fun _ => rfl) (fun _ _ => rfl) b
  | .ptr v, fl, b => by
    cases fl with
    | false => simp only [equalAux]; exact equalBody_toLiq_right _ _ _ (fun _ => rfl) (fun _ _ => rfl) b
    | true =>
      cases v with
      | drop w => simp only [equalAux]; exact equalAux_pn_right w true b
      | _ => simp only [equalAux]; exact equalBody_toLiq_right _ _ _ (fun _ => rfl) (fun _ _ => rfl) b
  | .slice t xs, fl, b => by
    simp only [equalAux]
    refine equalBody_toLiq_right _ _ _ (fun ys => ?_) (fun _ _ => rfl) b
    simp only [seqVals, prepList_length, normList_len, equalList_pn_right xs ys]
  | .array t xs, fl, b => by
    simp only [equalAux]
    refine equalBody_toLiq_right _ _ _ (fun ys => ?_) (fun _ _ => rfl) b
    simp only [seqVals, prepList_length, normList_len, equalList_pn_right xs ys]
  | .mapSlice kvs, fl, b => by
    simp only [equalAux]
    refine equalBody_toLiq_right _ _ _ (fun ys => ?_) (fun _ _ => rfl) b
    simp only [seqItems, prepList_length, normList_len]
  | .map kt vt kvs, fl, b => by
    simp only [equalAux]
    refine equalBody_toLiq_right _ _ _ (fun _ => rfl) (fun kt' bs => ?_) b
    simp only [mapEntries, prepKVs_length, normKVs_len, mapAll_pn_right kvs bs]
  | .bytes s, fl, b => by simp only [equalAux]; exact equalBody_toLiq_right _ _ _ (fun _ => rfl) (fun _ _ => rfl) b
  | .keyedMap fs, fl, b => by simp only [equalAux]; exact equalBody_toLiq_right _ _ _ (fun _ => rfl) (fun _ _ => rfl) b
  | .nil, fl, b => by simp only [equalAux]; exact equalBody_toLiq_right _ _ _ (fun _ => rfl) (fun _ _ => rfl) b
  | .bool _, fl, b => by simp only [equalAux]; exact equalBody_toLiq_right _ _ _ (fun _ => rfl) (fun _ _ => rfl) b
  | .int _ _, fl, b => by simp only [equalAux]; exact equalBody_toLiq_right _ _ _ (fun _ => rfl) (fun _ _ => rfl) b
  | .flt _ _, fl, b => by simp only [equalAux]; exact equalBody_toLiq_right _ _ _ (fun _ => rfl) (fun _ _ => rfl) b
  | .str _, fl, b => by simp only [equalAux]; exact equalBody_toLiq_right _ _ _ (fun _ => rfl) (fun _ _ => rfl) b
  | .range _ _, fl, b => by simp only [equalAux]; exact equalBody_toLiq_right _ _ _ (fun _ => rfl) (fun _ _ => rfl) b
  | .nilPtr, fl, b => by simp only [equalAux]; exact equalBody_toLiq_right _ _ _ (fun _ => rfl) (fun _ _ => rfl) b
  | .struct _, fl, b => by simp only [equalAux]; exact equalBody_toLiq_right _ _ _ (fun _ => rfl) (fun _ _ => rfl) b
  | .time _, fl, b => by simp only [equalAux]; exact equalBody_toLiq_right _ _ _ (fun _ => rfl) (fun _ _ => rfl) b
theorem Cmp.equalList_pn_right : ∀ (xs ys : List GoVal),
    equalList xs (prepList (normList d ys)) = equalList xs (prepList ys)
  | [], _ => by simp [equalList]
  | x :: xs, [] => rfl
  | x :: xs, y :: ys => by
    simp only [normList, prepList, equalList, equalAux_pn_right x true y, equalList_pn_right xs ys]
theorem Cmp.mapAll_pn_right : ∀ (as bs : List (GoVal × GoVal)),
    mapAll as (prepKVs (normKVs d bs)) = mapAll as (prepKVs bs)
  | [], _ => by simp [mapAll]
  | (k, v) :: r, bs => by
    simp only [mapAll, mapIndex]
    cases toKey k with
    | none => rfl
    | some kk =>
      simp only [bind, Res.bind]
      rcases lookupKey_pn kk bs with ⟨h1, h2⟩ | ⟨w, h1, h2⟩
      · rw [h1, h2]
      · rw [h1, h2]
        simp only [equalAux_pn_right v true w, mapAll_pn_right r bs]
end

/-! ## What an operator sees of an operand: `strip = unwrap`, and `prep` commutes with it -/


theorem Cmp.iface0_resolveVal (v : GoVal) : iface0 (resolveVal v) = v.unwrap := by
  induction v using GoVal.unwrap.induct with
  | case1 v ih => simpa [resolveVal, unwrap] using ih
  | case2 => simp [resolveVal, valueOf, iface0, unwrap]
  | case3 v ih => simpa [resolveVal, unwrap] using ih
  | case4 => simp [resolveVal, isStructKind, iface0, unwrap]
  | case5 => simp [resolveVal, isStructKind, iface0, unwrap]
  | case6 => simp [resolveVal, isStructKind, iface0, unwrap]
  | case7 v h1 h2 h3 h4 ih =>
    cases v with
    | drop w => exact absurd rfl (h1 w)
    | struct fs => exact absurd rfl (h2 fs)
    | range a b => exact absurd rfl (h3 a b)
    | time u => exact absurd rfl (h4 u)
    | _ => simpa [resolveVal, isStructKind, unwrap] using ih
  | case8 v h1 h2 _ _ _ _ h7 =>
    cases v with
    | drop w => exact absurd rfl (h1 w)
    | nilPtr => exact absurd rfl h2
    | ptr w => exact absurd rfl (h7 w)
    | _ => simp [resolveVal, valueOf, iface0, unwrap]

theorem Cmp.strip_eq_unwrap (v : GoVal) : strip v = v.unwrap := by
  rw [strip_eq, iface0_resolveVal, toLiq_eq_toLiquid, unwrap_toLiquid]

theorem Cmp.unwrap_prep (v : GoVal) : (prep v).unwrap = prep v.unwrap := by
  induction v using GoVal.unwrap.induct with
  | case1 v ih => simpa [prep, unwrap] using ih
  | case2 => simp [prep, unwrap]
  | case3 v ih => simpa [prep, unwrap] using ih
  | case4 => simp [prep, unwrap]
  | case5 => simp [prep, unwrap]
  | case6 => simp [prep, unwrap]
  | case7 v h1 h2 h3 h4 ih =>
    cases v with
    | drop w => exact absurd rfl (h1 w)
    | struct fs => exact absurd rfl (h2 fs)
    | range a b => exact absurd rfl (h3 a b)
    | time u => exact absurd rfl (h4 u)
    | _ => simp [prep, unwrap] at ih ⊢ <;> exact ih
  | case8 v h1 h2 _ _ _ _ h7 =>
    cases v with
    | drop w => exact absurd rfl (h1 w)
    | nilPtr => exact absurd rfl h2
    | ptr w => exact absurd rfl (h7 w)
    | _ => simp [prep, unwrap]

theorem Cmp.strip_prep (v : GoVal) : strip (prep v) = prep v.unwrap := by
  rw [strip_eq_unwrap, unwrap_prep]

/-- `values.Equal` on prepared operands depends on their normal forms only -/
theorem Cmp.equal_prep_norm (a b : GoVal) :
    equal (prep (a.norm d)) (prep (b.norm d)) = equal (prep a) (prep b) := by
  unfold equal
  rw [equalAux_pn_left _ _ _ (.inl rfl), equalAux_pn_right]

theorem Cmp.equal_prep_repEq {a a' b b' : GoVal} (ha : RepEq d a a') (hb : RepEq d b b') :
    equal (prep a) (prep b) = equal (prep a') (prep b') := by
  rw [← equal_prep_norm (d := d) a b, ← equal_prep_norm (d := d) a' b', ha, hb]

/-- the `==` operator -/
theorem Cmp.opEq_prep (a b : GoVal) : opEq (prep a) (prep b) = equalAux false (prep a.unwrap) (prep b.unwrap) := by
  rw [opEq_eq, equalAux_false, ← strip_prep, ← strip_prep, toLiq_strip]

theorem Cmp.opEq_prep_vrel {a a' b b' : GoVal} (ha : VRel d a a') (hb : VRel d b b') :
    opEq (prep a) (prep b) = opEq (prep a') (prep b') := by
  have na : noDrop a.unwrap = true := unwrap_noDrop a
  have na' : noDrop a'.unwrap = true := unwrap_noDrop a'
  rw [opEq_prep, opEq_prep, ← equalAux_pn_left (d := d) _ _ _ (.inr na), ← equalAux_pn_right (d := d), ha, hb,
    equalAux_pn_left _ _ _ (.inr na'), equalAux_pn_right]

/-! ## `values.Less` only orders scalars -/

theorem Cmp.lessTL_pn_left (u v : GoVal) (hu : noDrop u = true) : lessTL (prep (u.norm d)) v = lessTL (prep u) v := by
  cases u with
  | drop w => simp [noDrop] at hu
  | slice t xs =>
    simp only [norm, prep]
    cases v <;> simp [lessTL, GoVal.isNil, joinKind, rkind, RKind.isInt, RKind.isFloat]
  | array t xs =>
    simp only [norm, prep]
    cases v <;> simp [lessTL, GoVal.isNil, joinKind, rkind, RKind.isInt, RKind.isFloat]
  | map kt vt kvs =>
    cases hr : isRec (.map kt vt kvs) with
    | true => rw [norm_of_isRec hr]
    | false =>
      rw [norm_map_nonrec hr]
      simp only [prep]
      cases v <;> simp [lessTL, GoVal.isNil, joinKind, rkind, RKind.isInt, RKind.isFloat]
  | _ => simp [norm]

theorem Cmp.lessTL_pn_right (u v : GoVal) (hv : noDrop v = true) : lessTL u (prep (v.norm d)) = lessTL u (prep v) := by
  cases v with
  | drop w => simp [noDrop] at hv
  | slice t xs =>
    simp only [norm, prep]
    cases u <;> simp [lessTL, GoVal.isNil, joinKind, rkind, RKind.isInt, RKind.isFloat]
  | array t xs =>
    simp only [norm, prep]
    cases u <;> simp [lessTL, GoVal.isNil, joinKind, rkind, RKind.isInt, RKind.isFloat]
  | map kt vt kvs =>
    cases hr : isRec (.map kt vt kvs) with
    | true => rw [norm_of_isRec hr]
    | false =>
      rw [norm_map_nonrec hr]
      simp only [prep]
      cases u <;> simp [lessTL, GoVal.isNil, joinKind, rkind, RKind.isInt, RKind.isFloat]
  | _ => simp [norm]

theorem Cmp.opLt_prep (a b : GoVal) : opLt (prep a) (prep b) = lessTL (prep a.unwrap) (prep b.unwrap) := by
  rw [opLt_eq, strip_prep, strip_prep]

theorem Cmp.opLt_prep_vrel {a a' b b' : GoVal} (ha : VRel d a a') (hb : VRel d b b') :
    opLt (prep a) (prep b) = opLt (prep a') (prep b') := by
  rw [opLt_prep, opLt_prep, ← lessTL_pn_left (d := d) _ _ (unwrap_noDrop a), ← lessTL_pn_right (d := d) _ _ (unwrap_noDrop b),
    ha, hb, lessTL_pn_left _ _ (unwrap_noDrop a'), lessTL_pn_right _ _ (unwrap_noDrop b')]

/-! ## `contains` -/

theorem Cmp.containsList_pn_left (e : GoVal) : ∀ xs : List GoVal,
    containsList (prepList (normList d xs)) e = containsList (prepList xs) e
  | [] => rfl
  | x :: xs => by
    simp only [normList, prepList, containsList, equal, equalAux_pn_left x true e (.inl rfl), containsList_pn_left e xs]

theorem Cmp.containsList_pn_right (e : GoVal) : ∀ xs : List GoVal,
    containsList xs (prep (e.norm d)) = containsList xs (prep e)
  | [] => rfl
  | x :: xs => by
    simp only [containsList, equal, equalAux_pn_right x true e, containsList_pn_right e xs]

theorem Cmp.lookupKey_pn_isSome (kk : Key) (bs : List (GoVal × GoVal)) :
    (lookupKey kk (prepKVs (normKVs d bs))).isSome = (lookupKey kk (prepKVs bs)).isSome := by
  rcases lookupKey_pn kk bs with ⟨h1, h2⟩ | ⟨w, h1, h2⟩ <;> rw [h1, h2] <;> rfl

theorem Cmp.mapFind_pn_isSome (k : GoVal) : ∀ bs : List (GoVal × GoVal),
    (mapFind (prepKVs (normKVs d bs)) k).isSome = (mapFind (prepKVs bs) k).isSome
  | [] => rfl
  | (k0, v) :: r => by
    have ih := Cmp.mapFind_pn_isSome k r
    unfold mapFind at ih ⊢
    simp only [normKVs, prepKVs, List.find?_cons]
    cases ifaceEq (prep k0) k == some true with
    | true => rfl
    | false => exact ih

/-- a slice, array or map needle converts to no key of any type -/
theorem Cmp.convertKey_container {e : GoVal} (h : rigidHead e = false) (hd : noDrop e = true) (kt : Ty) :
    convertKey kt e = some none := by
  cases e <;> simp [rigidHead, noDrop] at h hd <;> cases kt <;> simp [convertKey]

/-- the haystack may be normalised -/
theorem Cmp.containsW_pn_left (u e : GoVal) (hu : noDrop u = true) :
    containsW (wrapOf (prep (u.norm d))) e = containsW (wrapOf (prep u)) e := by
  cases u with
  | drop w => simp [noDrop] at hu
  | slice t xs =>
    simp only [norm, prep, wrapOf, valueOf, containsW, seqView, bind, Res.bind, containsList_pn_left e xs]
  | array t xs =>
    simp only [norm, prep, wrapOf, valueOf, containsW, seqView, bind, Res.bind, containsList_pn_left e xs]
  | map kt vt kvs =>
    cases hr : isRec (.map kt vt kvs) with
    | true => rw [norm_of_isRec hr]
    | false =>
      rw [norm_map_nonrec hr]
      simp only [prep, wrapOf, valueOf, containsW, mapView, bind, Res.bind]
      split
      · rfl
      · split
        · rfl
        · rfl
        · simp only [mapFind_pn_isSome]
  | _ => simp [norm]

theorem Cmp.safeEqual_slice (t : Ty) (ys : List GoVal) (k : GoVal) : safeEqual (.slice t ys) k = .ok false := by
  cases k <;> simp [safeEqual, GoVal.isNil, rkind, structTag, comparableV, bind, Res.bind]

theorem Cmp.safeEqual_map (kt vt : Ty) (kvs : List (GoVal × GoVal)) (k : GoVal) : safeEqual (.map kt vt kvs) k = .ok false := by
  cases k <;> simp [safeEqual, GoVal.isNil, rkind, structTag, comparableV, bind, Res.bind]

theorem Cmp.safeEqual_array (t : Ty) (ys : List GoVal) (k : GoVal) :
    safeEqual (.array t ys) k = .ok false ∨ ∃ m, safeEqual (.array t ys) k = .unmodelled m := by
  cases k <;> simp [safeEqual, GoVal.isNil, rkind, structTag, comparableV, bind, Res.bind]

theorem Cmp.mapSliceContains_false {e : GoVal} (h : ∀ k, safeEqual e k = .ok false) :
    ∀ kvs : List (GoVal × GoVal), mapSliceContains kvs e = .ok false
  | [] => rfl
  | (k, v) :: r => by simp [mapSliceContains, h k, bind, Res.bind, mapSliceContains_false h r]

theorem Cmp.mapSliceContains_array (t : Ty) (ys : List GoVal) :
    ∀ kvs : List (GoVal × GoVal), mapSliceContains kvs (.array t ys) = .ok false ∨
      ∃ m, mapSliceContains kvs (.array t ys) = .unmodelled m
  | [] => .inl rfl
  | (k, v) :: r => by
    simp only [mapSliceContains, bind, Res.bind]
    rcases safeEqual_array t ys k with h | ⟨m, h⟩
    · rw [h]; simpa using mapSliceContains_array t ys r
    · rw [h]; exact .inr ⟨m, rfl⟩

/-- the needle may be normalised, unless the model makes no claim (a fixed-array needle against
    a fixed-array key of an ordered map: `comparableV`) -/
theorem Cmp.containsW_pn_right (w : Wrapper) (e : GoVal) (he : noDrop e = true) :
    containsW w (prep e) = containsW w (prep (e.norm d)) ∨ ∃ m, containsW w (prep e) = .unmodelled m := by
  cases e with
  | drop v => simp [noDrop] at he
  | slice t ys =>
    simp only [norm, prep]
    cases w with
    | array v => left; simp only [containsW]; have := containsList_pn_right (d := d) (.slice t ys); simp only [norm, prep] at this; simp only [this]
    | mapSlice kvs => left; simp only [containsW, mapSliceContains_false (safeEqual_slice _ _)]
    | string v => cases v <;> simp [containsW, sprintNeedle]
    | map v => left; simp only [containsW, GoVal.isNil, Cmp.convertKey_container (e := GoVal.slice _ _) rfl rfl]
    | _ => simp [containsW, GoVal.isNil]
  | array t ys =>
    simp only [norm, prep]
    cases w with
    | array v => left; simp only [containsW]; have := containsList_pn_right (d := d) (.array t ys); simp only [norm, prep] at this; simp only [this]
    | mapSlice kvs =>
      simp only [containsW, mapSliceContains_false (safeEqual_slice _ _)]
      rcases mapSliceContains_array t (prepList ys) kvs with h | ⟨m, h⟩
      · exact .inl h
      · exact .inr ⟨m, h⟩
    | string v => cases v <;> simp [containsW, sprintNeedle]
    | map v => left; simp only [containsW, GoVal.isNil, Cmp.convertKey_container (e := GoVal.slice _ _) rfl rfl, Cmp.convertKey_container (e := GoVal.array _ _) rfl rfl]
    | _ => simp [containsW, GoVal.isNil]
  | map kt vt kvs =>
    cases hr : isRec (.map kt vt kvs) with
    | true => rw [norm_of_isRec hr]; exact .inl rfl
    | false =>
      rw [norm_map_nonrec hr]
      simp only [prep]
      cases w with
      | array v => left; simp only [containsW]; have := containsList_pn_right (d := d) (.map kt vt kvs); rw [norm_map_nonrec hr] at this; simp only [prep] at this; simp only [this]
      | mapSlice kvs' => left; simp only [containsW, mapSliceContains_false (safeEqual_map _ _ _)]
      | string v => cases v <;> simp [containsW, sprintNeedle]
      | map v => left; simp only [containsW, GoVal.isNil, Cmp.convertKey_container (e := GoVal.map _ _ _) rfl rfl]
      | _ => simp [containsW, GoVal.isNil]
  | _ => simp [norm]

theorem Cmp.opContains_prep (a b : GoVal) :
    opContains (prep a) (prep b) = containsW (wrapOf (prep a.unwrap)) (prep b.unwrap) := by
  rw [opContains_eq, strip_prep, strip_prep]

theorem Cmp.opContains_prep_vrel {a a' b b' : GoVal} (ha : VRel d a a') (hb : VRel d b b') :
    RRel true Eq (opContains (prep a) (prep b)) (opContains (prep a') (prep b')) := by
  rw [opContains_prep, opContains_prep]
  have hx : containsW (wrapOf (prep (a.unwrap.norm d))) (prep (b.unwrap.norm d)) =
      containsW (wrapOf (prep (a'.unwrap.norm d))) (prep (b'.unwrap.norm d)) := by rw [ha, hb]
  rw [containsW_pn_left _ _ (unwrap_noDrop a), containsW_pn_left _ _ (unwrap_noDrop a')] at hx
  rcases containsW_pn_right (d := d) (wrapOf (prep a.unwrap)) b.unwrap (unwrap_noDrop b) with h1 | ⟨m, h1⟩
  · rcases containsW_pn_right (d := d) (wrapOf (prep a'.unwrap)) b'.unwrap (unwrap_noDrop b') with h2 | ⟨m, h2⟩
    · rw [h1, h2, hx]; exact RRel.of_eq (fun _ => rfl) rfl
    · rw [h2]; exact RRel.unmR rfl _ _
  · rw [h1]; exact RRel.unmL rfl _ _

