import Proofs.RenderTrace
import Proofs.TraceSites
import Proofs.C20
import Liquid.Driver
/-!
# C20, the error VALUE — a render that stops at a failed write returns a located error that names the
node which issued the write

`frender_faulty` (Proofs/C20.lean) says the render ends with an error whose cause is the writer's failure.
Here the whole error is determined: it is `⟨l.line, l.pathSet, .io, .byCause⟩` — a `parser.Error` with the
writer's error as `Cause()` and `Error()` text, located at `l` — where `l` is the `k`-th entry of
`faultSites`, a list computed from the compiled tree by walking it in render order (`traceRoot`,
Proofs/RenderTrace.lean):

* a write issued while a text, object, `cycle` or `include` node runs (the trim writer hands the PREVIOUS
  pending text to the caller's writer when the next text arrives, so the bytes of call `k` are usually those of
  an earlier node) is located at that node: `⟨line, true⟩`;
* the cell tags of a `tablerow` are written by the loop tag: `⟨line of the tablerow, true⟩`;
* a raw block, a left trim marker and the flush at the end of a block body or of the whole render have no
  location of their own (`invalidLoc = ⟨0, false⟩`); every enclosing block re-locates such an error at its own
  tag (`relocate`), so below a block the error names the innermost enclosing block tag, and at top level it
  stays line 0 without a path;
* `relocate` is `parser.WrapError` on locations: on line 0 of a template parsed WITHOUT a path a located error
  carries no information either and is re-located by the enclosing block in the same way.

The `faults` stream compares exactly this value (line, path or none) with the real `FRender` for every call
index of every case (result field `flocs`, driver function `Prog.faultErrs`).
-/

/-- for every `Write` call of the fault-free render, in order: where the error is located when that call fails -/
def faultSites (c : RCtx) (root : List Node) (env : Env) : List Loc := (traceRoot c root env).calls.filterMap id

theorem traceRoot_calls (c : RCtx) (root : List Node) (env : Env) :
    (traceRoot c root env).calls = (faultSites c root env).map some := by
  have h := (located_traceRoot c root env).1
  unfold faultSites
  generalize (traceRoot c root env).calls = ls at h
  induction ls with
  | nil => rfl
  | cons l ls ih =>
    cases l with
    | none => exact absurd rfl (h none (by simp))
    | some x =>
      simp only [List.filterMap_cons, id, List.map_cons]
      rw [← ih (fun l hl => h l (by simp [hl]))]

/-- one site per call of the fault-free render -/
theorem faultSites_length (P : Prims) (O : OutPrims) (cfg : Cfg) (fs : FS) (fuel : Nat) (root : List Node) (env : Env) :
    (faultSites (mkCtx P O cfg fs fuel) root env).length = (frender P O cfg fs fuel root env).calls.length := by
  have := (sp_frender P O cfg fs fuel root env).io.length
  rw [traceRoot_calls, List.length_map] at this
  exact this

/-- **C20 (the error is a located SourceError naming the node that issued the write).** For every compiled
    template, environment, configuration, file system and include depth, every write index `k` below the number
    of writes of the fault-free render and every number `acc` of bytes the failing call accepts: `FRender` on the
    writer that fails at call `k` returns the error with cause = the writer's error, message = the cause's text,
    located at `faultSites[k]` — line and path of the node that issued that write, seen through `WrapError` of
    the enclosing blocks (see the head of this file). -/
theorem frender_faulty_located (P : Prims) (O : OutPrims) (cfg : Cfg) (fs : FS) (fuel : Nat) (root : List Node) (env : Env)
    (k acc : Nat) (hk : k < (frender P O cfg fs fuel root env).calls.length) :
    ∃ l : Loc, (faultSites (mkCtx P O cfg fs fuel) root env)[k]? = some l ∧
      (runFaulty (frender P O cfg fs fuel root env) (some k) acc).1 = .err (.located ⟨l.line, l.pathSet, .io, .byCause⟩) := by
  have hlen := faultSites_length P O cfg fs fuel root env
  have hk' : k < (faultSites (mkCtx P O cfg fs fuel) root env).length := by rw [hlen]; exact hk
  refine ⟨(faultSites (mkCtx P O cfg fs fuel) root env)[k], List.getElem?_eq_getElem hk', ?_⟩
  have hio := (sp_frender P O cfg fs fuel root env).io
  rw [traceRoot_calls] at hio
  exact hio.faulty k acc (some (faultSites (mkCtx P O cfg fs fuel) root env)[k]) (by simp [hk'])

/-- the `flocs` field of the `faults` stream prints this list: the driver's `Prog.faultErrs` of the model's
    `FRender` is, call by call, the writer's error located at `faultSites` -/
theorem faultErrs_are_faultSites (P : Prims) (O : OutPrims) (cfg : Cfg) (fs : FS) (fuel : Nat) (root : List Node) (env : Env) :
    (frender P O cfg fs fuel root env).faultErrs =
      (faultSites (mkCtx P O cfg fs fuel) root env).map (fun l => some (.located ⟨l.line, l.pathSet, .io, .byCause⟩)) := by
  have hio := (sp_frender P O cfg fs fuel root env).io
  rw [traceRoot_calls] at hio
  generalize frender P O cfg fs fuel root env = p at hio
  generalize faultSites (mkCtx P O cfg fs fuel) root env = ls at hio
  induction ls generalizing p with
  | nil =>
    cases hio <;> rfl
  | cons l ls ih =>
    cases hio with
    | call b k _ _ hk hrest =>
      simp only [Prog.faultErrs, hk 0, List.map_cons]
      exact congrArg _ (ih _ hrest)

/-! ### What the sites are, node by node (each by unfolding `traceNode`) -/

/-- every write issued while a text node runs is located at the text -/
theorem faultSite_text (c : RCtx) (line : Nat) (src : Bytes) (s : RS) :
    (traceNode c (.text line src) s).calls = List.replicate (renderNode c (.text line src) s).calls.length (some ⟨line, true⟩) := by
  unfold traceNode; rfl

/-- …while an object runs: at the object — every call it issues through `WriteVerbatim`: the flush of the text
    that was pending before the value (issued by the empty `Write` that drops a pending right trim) and the flush of
    each chunk of the value -/
theorem faultSite_obj (c : RCtx) (line : Nat) (e : Expr) (s : RS) :
    (traceNode c (.obj line e) s).calls = List.replicate (renderNode c (.obj line e) s).calls.length (some ⟨line, true⟩) := by
  unfold traceNode; rfl

/-- a raw block has no location of its own: every call it issues through `WriteVerbatim` (the flush of the text
    pending before the body, then one flush per non-empty slice) carries the invalid location -/
theorem faultSite_raw (c : RCtx) (slices : List Bytes) (s : RS) :
    (traceNode c (.raw slices) s).calls = List.replicate (renderNode c (.raw slices) s).calls.length (some invalidLoc) := by
  unfold traceNode; rfl

/-- nor has a trim marker -/
theorem faultSite_trim (c : RCtx) (l : Bool) (s : RS) :
    (traceNode c (.trim l) s).calls = List.replicate (renderNode c (.trim l) s).calls.length (some invalidLoc) := by
  unfold traceNode; rfl

/-- below an `if`/`unless` block every site is seen through the block tag's `WrapError` -/
theorem faultSite_if (c : RCtx) (line : Nat) (bs : List (CondT × List Node)) (s : RS) :
    (traceNode c (.ifB line bs) s).calls =
      (traceBranches c bs s).calls.map (fun l => some (relocate c.cfg.path l ⟨line, true⟩)) := by
  unfold traceNode; rfl

/-- a site without any information (a raw block, a trim marker, a flush; or line 0 of a template without a
    path) takes the location of the enclosing block tag, when that has a line or a path -/
theorem relocate_invalid (path : Bytes) (line : Nat) (h : line ≠ 0 ∨ path ≠ []) :
    relocate path (some invalidLoc) ⟨line, true⟩ = ⟨line, true⟩ := by
  simp only [relocate, invalidLoc, Loc.isZero]
  rcases h with h | h
  · simp [h]
  · have : path.isEmpty = false := by cases path <;> simp_all
    simp [this]

/-- a site that has a line, or a path, is kept by every enclosing block -/
theorem relocate_located (path : Bytes) (l outer : Loc) (h : l.line ≠ 0 ∨ (l.pathSet = true ∧ path ≠ [])) :
    relocate path (some l) outer = l := relocate_keeps path l outer h

/-! ### Line 0: only a write that no located node and no block encloses -/

/-- **C20 (every site is a location of the tree, or the invalid location).** In a template that has a path, or
    none of whose nodes stands at line 0: the error of every single-fault run is located at `⟨x, true⟩` for the
    line `x` of a node of the tree (it names the template's path), or it is the invalid location — line 0, no
    path. -/
theorem fault_site_in_tree (P : Prims) (O : OutPrims) (cfg : Cfg) (fs : FS) (fuel : Nat) (root : List Node) (env : Env)
    (hpos : cfg.path ≠ [] ∨ ∀ x ∈ linesList root, x ≠ 0) :
    ∀ l ∈ faultSites (mkCtx P O cfg fs fuel) root env, l = invalidLoc ∨ (l.pathSet = true ∧ l.line ∈ linesList root) := by
  intro l hl
  have h := sites_traceBlockBody (mkCtx P O cfg fs fuel) (linesList root) hpos root { env := env, tw := {} } (fun _ hx => hx)
  have hm : some l ∈ (traceRoot (mkCtx P O cfg fs fuel) root env).calls := by
    rw [traceRoot_calls]; exact List.mem_map.mpr ⟨l, hl, rfl⟩
  rcases h (some l) hm with h | h | ⟨x, hx, h⟩
  · cases h
  · exact Or.inl (Option.some.inj h)
  · have := Option.some.inj h
    subst this
    exact Or.inr ⟨rfl, hx⟩

/-- **C20 (a node that has a location never yields the invalid location).** Every write issued below a text,
    object, tag or block — however deep — is located at a line of that node (with the template's path). So the
    error of a single-fault run has the invalid location (line 0, no path) only when the failing write was issued
    by a raw block or a left trim marker AT TOP LEVEL, or by the final flush (`fault_sites_of_sequence`,
    `fault_sites_of_root`: the sites of the render are those of its top-level nodes, in order, then the final
    flush). -/
theorem located_node_fault_sites (c : RCtx) (n : Node) (s : RS) (hn : n.hasLoc = true)
    (hpos : c.cfg.path ≠ [] ∨ ∀ x ∈ n.lines, x ≠ 0) :
    ∀ l ∈ (traceNode c n s).calls, ∃ x ∈ n.lines, l = some ⟨x, true⟩ :=
  (sites_traceNode c n.lines hpos n s (fun _ hx => hx)).2 hn

/-- the sites of a sequence: those of its first node, then — when that node returned `done` — of the rest -/
theorem fault_sites_of_sequence (c : RCtx) (n : Node) (ns : List Node) (s : RS) :
    (traceList c (n :: ns) s).calls = (traceNode c n s).calls ++
      (match (renderNode c n s).pureRet with
       | some (.done, s') => (traceList c ns s').calls
       | _ => []) := by
  conv => lhs; unfold traceList
  cases h : (renderNode c n s).pureRet with
  | none => simp [Tr.bind]
  | some a =>
    obtain ⟨st, s'⟩ := a
    cases st <;> simp [Tr.bind]

/-- the sites of the whole render: those of the root sequence, then the final flush at the invalid location -/
theorem fault_sites_of_root (c : RCtx) (root : List Node) (env : Env) :
    (traceRoot c root env).calls = (traceList c root { env := env, tw := {} }).calls ++
      (match (renderList c root { env := env, tw := {} }).pureRet with
       | some (.done, s') => List.replicate (flushM s').calls.length (some invalidLoc)
       | _ => []) := by
  unfold traceRoot traceBlockBody
  cases h : (renderList c root { env := env, tw := {} }).pureRet with
  | none => simp [Tr.bind]
  | some a =>
    obtain ⟨st, s'⟩ := a
    cases st <;> simp [Tr.bind, ownTr]

/-! ### A concrete instance

`a{% if … %}⏎b{% raw %}x{% endraw %}{% endif %}⏎c` compiled with the `if` at line 3, the text inside it at line 4:
the fault-free render makes four calls — `a` (flushed when the text `b` is written), `b` (flushed by the raw block
before it writes: the empty `Write` of `WriteVerbatim`), `x` (flushed by the raw block itself, at once), `c` (the
final flush; the flush at the end of the block body finds nothing pending). A failure of the first is reported at
the text (line 4), of the second and third at the `if` tag (line 3: the raw block has no location), of the last at
line 0 without a path (the final flush, top level). -/
def c20ExRoot : List Node := [.text 1 [97], .ifB 3 [(.always, [.text 4 [98], .raw [[120]]])], .text 5 [99]]
def c20ExFs : FS := ⟨fun _ => .notExist, fun _ => none⟩

theorem c20Ex_calls : (frender trivPrims trivOut {} c20ExFs 1 c20ExRoot []).calls = [[97], [98], [120], [99]] := by
  simp [c20ExRoot, frender, renderRoot, renderList, renderNode, renderBranches, renderBlockBody, evalCond, wrapAt, wrapFailAt,
    M.mapFail, M.bind, M.pure, M.getEnv, writeM, writeAllM, writeVerbatimM, flushM, Prog.bind, Prog.mapFail, Prog.calls, statusToProg, bind, pure,
    mkCtx, Status.wrap]

theorem c20Ex_sites : (frender trivPrims trivOut {} c20ExFs 1 c20ExRoot []).faultErrs =
    [some (.located ⟨4, true, .io, .byCause⟩), some (.located ⟨3, true, .io, .byCause⟩),
     some (.located ⟨3, true, .io, .byCause⟩), some (.located ⟨0, false, .io, .byCause⟩)] := by
  simp [c20ExRoot, frender, renderRoot, renderList, renderNode, renderBranches, renderBlockBody, evalCond, wrapAt, wrapFailAt,
    M.mapFail, M.bind, M.pure, M.getEnv, writeM, writeAllM, writeVerbatimM, flushM, Prog.bind, Prog.mapFail, Prog.faultErrs, statusToProg, bind, pure,
    mkCtx, Status.wrap, wrapError, invalidLoc, Loc.isZero]

/-- the theorem on this instance: the hypothesis holds for `k = 0, 1, 2, 3`, and the sites are those above -/
example : faultSites (mkCtx trivPrims trivOut {} c20ExFs 1) c20ExRoot [] = [⟨4, true⟩, ⟨3, true⟩, ⟨3, true⟩, ⟨0, false⟩] := by
  have h := faultErrs_are_faultSites trivPrims trivOut {} c20ExFs 1 c20ExRoot []
  rw [c20Ex_sites] at h
  have hinj : ∀ a b : Loc, (some (RawErr.located ⟨a.line, a.pathSet, .io, .byCause⟩) : Option RawErr) =
      some (RawErr.located ⟨b.line, b.pathSet, .io, .byCause⟩) → a = b := by
    intro a b hab
    simp only [Option.some.injEq, RawErr.located.injEq, SErr.mk.injEq, and_true] at hab
    cases a; cases b; simp_all
  exact (List.map_inj_right hinj).mp (h.symm.trans rfl)

example : ∃ l : Loc, (faultSites (mkCtx trivPrims trivOut {} c20ExFs 1) c20ExRoot [])[2]? = some l ∧
    (runFaulty (frender trivPrims trivOut {} c20ExFs 1 c20ExRoot []) (some 2) 0).1 = .err (.located ⟨l.line, l.pathSet, .io, .byCause⟩) :=
  frender_faulty_located trivPrims trivOut {} c20ExFs 1 c20ExRoot [] 2 0 (by rw [c20Ex_calls]; decide)

/-- `fault_site_in_tree` on this instance: no node at line 0 -/
example : ∀ l ∈ faultSites (mkCtx trivPrims trivOut {} c20ExFs 1) c20ExRoot [],
    l = invalidLoc ∨ (l.pathSet = true ∧ l.line ∈ linesList c20ExRoot) :=
  fault_site_in_tree trivPrims trivOut {} c20ExFs 1 c20ExRoot [] (Or.inr (by decide))

/-- `located_node_fault_sites` on the `if` block of this instance: every write below it is located at line 3 or 4 -/
example (c : RCtx) (s : RS) : ∀ l ∈ (traceNode c (.ifB 3 [(.always, [.text 4 [98], .raw [[120]]])]) s).calls,
    ∃ x ∈ (Node.ifB 3 [(.always, [.text 4 [98], .raw [[120]]])]).lines, l = some ⟨x, true⟩ :=
  located_node_fault_sites c _ s rfl (Or.inr (by decide))
