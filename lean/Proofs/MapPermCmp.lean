import Proofs.MapPermStd
import Proofs.RepEqCmp
/-!
# The standard comparisons and the order of map entries (helper lemmas for C02)

`<` (and `>`, `<=`, `>=` through it) only orders scalars: on two related operands it gives the same
answer (`opLt_prep_mp`, exact).
-/

open GoVal MapOrder Cmp

/-! ## The driver's rewriting of operands (`prep`) keeps values related -/

theorem prepKVs_eq_map (kvs : List (GoVal × GoVal)) : prepKVs kvs = kvs.map fun kv => (prep kv.1, prep kv.2) := by
  induction kvs with
  | nil => rfl
  | cons kv r ih => obtain ⟨k, v⟩ := kv; simp [prepKVs, ih]

theorem prep_goodKey {k : GoVal} (h : GoodKey k) : prep k = k := by
  cases k <;> simp [GoodKey, goodKey] at h <;> rfl

theorem isPrivMap_prep (v : GoVal) : isPrivMap (prep v) = isPrivMap v := by
  cases v with
  | map kt vt kvs => cases vt <;> simp [prep, isPrivMap]
  | _ => simp [prep, isPrivMap]

theorem prepKVs_keys_good {kvs : List (GoVal × GoVal)} (hk : ∀ kv ∈ kvs, GoodKey kv.1) :
    (prepKVs kvs).map (·.1) = kvs.map (·.1) := by
  rw [prepKVs_eq_map, List.map_map]
  apply List.map_congr_left
  intro kv hkv
  exact prep_goodKey (hk kv hkv)

theorem noPriv_prepKVs {kvs : List (GoVal × GoVal)} (hn : NoPriv kvs) : NoPriv (prepKVs kvs) := by
  intro kv hkv
  rw [prepKVs_eq_map] at hkv
  obtain ⟨kv', hkv', rfl⟩ := List.mem_map.mp hkv
  simp only [isPrivMap_prep]
  exact hn kv' hkv'

theorem noPriv_prepFields : ∀ {fs : List (Bytes × GoVal)}, NoPrivF fs → NoPriv (prepFields fs)
  | [], _ => by intro kv h; cases h
  | (k, v) :: r, hn => by
    intro kv hkv
    simp only [prepFields, List.mem_cons] at hkv
    rcases hkv with rfl | hkv
    · simp only [isPrivMap_prep]; exact hn (k, v) List.mem_cons_self
    · exact noPriv_prepFields (fun f hf => hn f (List.mem_cons_of_mem _ hf)) kv hkv

mutual
theorem prep_mp : ∀ {a b : GoVal}, MP a b → MP (prep a) (prep b)
  | _, _, .refl v => .refl _
  | _, _, .slice t hl => by simp only [prep]; exact .slice t (prepList_mp hl)
  | _, _, .array t hl => by simp only [prep]; exact .array t (prepList_mp hl)
  | _, _, @MP.map kt vt kvs mid kvs' hv hk hn hm hp ht => by
    simp only [prep]
    refine MP.map kt vt hv ?_ (noPriv_prepKVs hn) (prepKVs_mpv hm) ?_ ?_
    · exact keysOK_of_keys_eq (prepKVs_keys_good hk.1).symm hk
    · rw [prepKVs_eq_map, prepKVs_eq_map]; exact hp.map _
    · intro kv hkv
      rw [prepKVs_eq_map] at hkv
      obtain ⟨kv', hkv', rfl⟩ := List.mem_map.mp hkv
      simp only [prep_goodKey (hk.1 kv' hkv')]
      exact ht kv' hkv'
  | _, _, .mapVals kt vt hv hn hm => by
    simp only [prep]
    exact .mapVals kt vt hv (noPriv_prepKVs hn) (prepKVs_mpv hm)
  | _, _, .mapSlice hm => by simp only [prep]; exact .mapSlice (prepKVs_mpv hm)
  | _, _, .keyedMap hn hf => by
    simp only [prep]
    exact .mapVals _ _ (by simp) (noPriv_prepFields hn) (prepFields_mpf hf)
  | _, _, .struct hf => by simp only [prep]; exact .struct hf
  | _, _, .ptr h => by simp only [prep]; exact .ptr (prep_mp h)
  | _, _, .drop h => by simp only [prep]; exact .drop (prep_mp h)
theorem prepList_mp : ∀ {xs ys : List GoVal}, MPL xs ys → MPL (prepList xs) (prepList ys)
  | _, _, .nil => .nil
  | _, _, .cons hx h => by simp only [prepList]; exact .cons (prep_mp hx) (prepList_mp h)
theorem prepKVs_mpv : ∀ {kvs kvs' : List (GoVal × GoVal)}, MPV kvs kvs' → MPV (prepKVs kvs) (prepKVs kvs')
  | _, _, .nil => .nil
  | _, _, .cons k hv h => by simp only [prepKVs]; exact .cons (prep k) (prep_mp hv) (prepKVs_mpv h)
theorem prepFields_mpf : ∀ {fs fs' : List (Bytes × GoVal)}, MPF fs fs' → MPV (prepFields fs) (prepFields fs')
  | _, _, .nil => .nil
  | _, _, .cons k hv h => by simp only [prepFields]; exact .cons (.str k) (prep_mp hv) (prepFields_mpf h)
end

/-! ## `values.Less` only orders scalars -/

theorem rkind_mp {a b : GoVal} (h : MP a b) : rkind a = rkind b := by
  cases h <;> rfl

theorem lessTL_containerM_left {u : GoVal} (h : rigidM u = false) (v : GoVal) : lessTL u v = .ok false := by
  cases u <;> simp [rigidM] at h <;> cases v <;> simp [lessTL, GoVal.isNil, joinKind, rkind, RKind.isInt, RKind.isFloat]

theorem lessTL_containerM_right (u : GoVal) {v : GoVal} (h : rigidM v = false) : lessTL u v = .ok false := by
  cases v <;> simp [rigidM] at h <;> cases u <;> simp [lessTL, GoVal.isNil, joinKind, rkind, RKind.isInt, RKind.isFloat]

theorem lessTL_mp {u u' v v' : GoVal} (hu : MP u u') (hv : MP v v') : lessTL u v = lessTL u' v' := by
  rcases hu.cases_rigid with rfl | ⟨h1, h2⟩
  · rcases hv.cases_rigid with rfl | ⟨h3, h4⟩
    · rfl
    · rw [lessTL_containerM_right _ h3, lessTL_containerM_right _ h4]
  · rw [lessTL_containerM_left h1, lessTL_containerM_left h2]

/-- `a < b` on related operands (`stdPrims.less`) -/
theorem opLt_prep_mp {a a' b b' : GoVal} (ha : MP a a') (hb : MP b b') :
    opLt (prep a) (prep b) = opLt (prep a') (prep b') := by
  rw [opLt_prep, opLt_prep]
  exact lessTL_mp (prep_mp ha.unwrap) (prep_mp hb.unwrap)
