import Liquid.ExprParse
/-!
# The expression lexer, one step at a time (helper lemmas for `Proofs/C08Source.lean`)

* `lexRun s` — `lexAux` with exactly the fuel `lex` gives it; `lexAux_fuel`/`lexAux_acc` show the fuel
  and the accumulator are irrelevant, `lexRun_append` is the unfolding equation
  `lexRun (l ++ rest) = consTok (mkTok r l) (lexRun rest)` whenever the scanner's longest match at
  `l ++ rest` is rule `r` with exactly the bytes `l`.
* `lexStep s = bestRule (ruleMatches s)` and its dispatch on the first byte (`lexStep_num`, `lexStep_word`, …):
  only a handful of the 23 rules can match at a given first byte.
-/

set_option linter.unusedSimpArgs false

/-! ## Quantifying over a byte by evaluation -/

theorem UInt8.forall_iff_nat (p : UInt8 → Prop) : (∀ c, p c) ↔ ∀ n, n < 256 → p (UInt8.ofNat n) := by
  constructor
  · intro h n _; exact h _
  · intro h c
    have := h c.toNat (UInt8.toNat_lt c)
    simpa using this

instance UInt8.decForall (p : UInt8 → Prop) [DecidablePred p] : Decidable (∀ c, p c) :=
  decidable_of_iff _ (UInt8.forall_iff_nat p).symm

/-! ## `lexAux`: fuel and accumulator -/

/-- what one token contributes to the result of `lexAux` -/
def consTok (t : Res LexErr (Option ETok)) (rest : List ETok × Option (Res LexErr Unit)) :
    List ETok × Option (Res LexErr Unit) :=
  match t with
  | .ok (some t) => (t :: rest.1, rest.2)
  | .ok none => rest
  | .err e => ([], some (.err e))
  | .panic w => ([], some (.panic w))
  | .unmodelled w => ([], some (.unmodelled w))

/-- the scanner's decision at the head of `s`: the winning rule and the length of its match -/
def lexStep (s : Bytes) : Option (Rule × Nat) := bestRule (ruleMatches s)

theorem lexAux_acc : ∀ (n : Nat) (s : Bytes) (acc : List ETok),
    lexAux n s acc = (acc.reverse ++ (lexAux n s []).1, (lexAux n s []).2) := by
  intro n
  induction n with
  | zero => intro s acc; simp [lexAux]
  | succ n ih =>
    intro s acc
    cases s with
    | nil => simp [lexAux]
    | cons c t =>
      simp only [lexAux]
      cases bestRule (ruleMatches (c :: t)) with
      | none => simp
      | some p =>
        obtain ⟨r, len⟩ := p
        simp only
        cases mkTok r (List.take (max len 1) (c :: t)) with
        | ok o =>
          cases o with
          | none => exact ih _ _
          | some tk =>
            simp only
            rw [ih _ (tk :: acc), ih _ [tk]]
            simp
        | err e => simp
        | panic w => simp
        | unmodelled w => simp

theorem lexAux_fuel : ∀ (n m : Nat) (s : Bytes) (acc : List ETok), s.length ≤ n → s.length ≤ m →
    lexAux n s acc = lexAux m s acc := by
  intro n
  induction n with
  | zero =>
    intro m s acc hn _
    have : s = [] := List.eq_nil_of_length_eq_zero (by omega)
    subst this
    cases m <;> simp [lexAux]
  | succ n ih =>
    intro m s acc hn hm
    cases s with
    | nil => cases m <;> simp [lexAux]
    | cons c t =>
      cases m with
      | zero => simp at hm
      | succ m =>
        simp only [lexAux]
        cases bestRule (ruleMatches (c :: t)) with
        | none => rfl
        | some p =>
          obtain ⟨r, len⟩ := p
          have hd : (List.drop (max len 1) (c :: t)).length ≤ t.length := by
            simp only [List.length_drop, List.length_cons]; omega
          simp only [List.length_cons] at hn hm
          simp only
          cases mkTok r (List.take (max len 1) (c :: t)) with
          | ok o =>
            cases o with
            | none => exact ih m _ _ (by omega) (by omega)
            | some tk => exact ih m _ _ (by omega) (by omega)
          | err e => rfl
          | panic w => rfl
          | unmodelled w => rfl

/-- `lexAux` with the fuel `lex` gives it -/
def lexRun (s : Bytes) : List ETok × Option (Res LexErr Unit) := lexAux s.length s []

theorem lex_eq_lexRun (src : Bytes) : lex src = lexRun (src ++ [59]) := rfl

theorem lexRun_nil : lexRun [] = ([], none) := rfl

/-- **unfolding equation**: when the longest match at `l ++ rest` is rule `r` on exactly `l` -/
theorem lexRun_append (l rest : Bytes) (r : Rule) (hl : l ≠ [])
    (h : lexStep (l ++ rest) = some (r, l.length)) :
    lexRun (l ++ rest) = consTok (mkTok r l) (lexRun rest) := by
  cases l with
  | nil => exact absurd rfl hl
  | cons c t =>
    unfold lexStep at h
    have hmax : max (t.length + 1) 1 = t.length + 1 := by omega
    unfold lexRun
    simp only [List.cons_append, List.length_cons] at h
    simp only [List.cons_append, List.length_cons, lexAux, h, hmax]
    have htake : List.take (t.length + 1) (c :: (t ++ rest)) = c :: t := by
      simp
    have hdrop : List.drop (t.length + 1) (c :: (t ++ rest)) = rest := by simp
    rw [htake, hdrop]
    have hf : ∀ acc, lexAux (t ++ rest).length rest acc = lexAux rest.length rest acc :=
      fun acc => lexAux_fuel _ _ _ _ (by simp) (Nat.le_refl _)
    cases mkTok r (c :: t) with
    | ok o =>
      cases o with
      | none => simp only [consTok]; exact hf _
      | some tk =>
        simp only [consTok]
        rw [hf, lexAux_acc]
        simp
    | err e => simp [consTok]
    | panic w => simp [consTok]
    | unmodelled w => simp [consTok]

/-! ## `bestRule` on short candidate lists -/

theorem bestRule_cons_none (r : Rule) (ms : List (Rule × Option Nat)) :
    bestRule ((r, none) :: ms) = bestRule ms := by
  simp [bestRule]

/-- entries without a match do not take part -/
theorem bestRule_filter (ms : List (Rule × Option Nat)) :
    bestRule ms = bestRule (ms.filter (fun x => x.2.isSome)) := by
  unfold bestRule
  generalize (none : Option (Rule × Nat)) = init
  induction ms generalizing init with
  | nil => rfl
  | cons x xs ih =>
    obtain ⟨r, m⟩ := x
    cases m with
    | none => simp only [List.foldl_cons, List.filter, Option.isSome]; exact ih _
    | some n => simp only [List.foldl_cons, List.filter, Option.isSome]; exact ih _

/-! ## Dispatch on the first byte -/

/-- the foldl step of `bestRule` -/
def bestStep (best : Option (Rule × Nat)) (x : Rule × Option Nat) : Option (Rule × Nat) :=
  match x.2, best with
  | some n, none => some (x.1, n)
  | some n, some (_, bn) => if n > bn then some (x.1, n) else best
  | none, _ => best

theorem bestRule_eq_foldl (ms : List (Rule × Option Nat)) : bestRule ms = ms.foldl bestStep none := by
  unfold bestRule
  congr 1

@[simp] theorem bestStep_none (best : Option (Rule × Nat)) (r : Rule) : bestStep best (r, none) = best := by
  unfold bestStep; simp

theorem bestStep_first (r : Rule) (n : Nat) : bestStep none (r, some n) = some (r, n) := rfl

theorem bestStep_some (r r' : Rule) (n bn : Nat) :
    bestStep (some (r', bn)) (r, some n) = if n > bn then some (r, n) else some (r', bn) := rfl

theorem litLen_cons (w0 : UInt8) (w : Bytes) (c : UInt8) (t : Bytes) :
    litLen (w0 :: w) (c :: t) = if w0 == c then (litLen w t).map (· + 1) else none := by
  unfold litLen
  simp only [isPrefixOfB, List.length_cons]
  by_cases h1 : (w0 == c) = true <;> by_cases h2 : isPrefixOfB w t = true <;> simp [h1, h2]

theorem litLen_nil (t : Bytes) : litLen [] t = some 0 := by simp [litLen, isPrefixOfB]

theorem litLen_nil_right (w0 : UInt8) (w : Bytes) : litLen (w0 :: w) [] = none := by simp [litLen, isPrefixOfB]

theorem stringLen_cons_other (c : UInt8) (t : Bytes) (h : (c == 34 || c == 39) = false) : stringLen (c :: t) = none := by
  simp [stringLen, h]

theorem identLen_cons_other (c : UInt8) (t : Bytes) (h : isIdStart c = false) : identLen (c :: t) = none := by
  simp [identLen, h]

theorem propertyLen_cons_other (c : UInt8) (t : Bytes) (h : (46 == c) = false) : propertyLen (c :: t) = none := by
  have : c ≠ 46 := by intro hc; subst hc; simp at h
  unfold propertyLen
  split
  · rename_i heq; cases heq; exact absurd rfl this
  · rfl

theorem spanLen_cons_false (p : UInt8 → Bool) (c : UInt8) (t : Bytes) (h : p c = false) : spanLen p (c :: t) = 0 := by
  simp [spanLen, h]

theorem spanLen_cons_true (p : UInt8 → Bool) (c : UInt8) (t : Bytes) (h : p c = true) :
    spanLen p (c :: t) = spanLen p t + 1 := by
  simp [spanLen, h]

/-- the rule list after unfolding the literal keywords -/
theorem lexStep_def (s : Bytes) : lexStep s = (ruleMatches s).foldl bestStep none := bestRule_eq_foldl _

/-- numbers: a digit or `-` -/
theorem head_num : ∀ c : UInt8, (isDigit c = true ∨ c = 45) →
    (37 == c) = false ∧ (123 == c) = false ∧ (116 == c) = false ∧ (102 == c) = false ∧ (110 == c) = false ∧
    (61 == c) = false ∧ (33 == c) = false ∧ (62 == c) = false ∧ (60 == c) = false ∧ (97 == c) = false ∧
    (111 == c) = false ∧ (99 == c) = false ∧ (105 == c) = false ∧ (46 == c) = false ∧ isIdStart c = false ∧
    (c == 34 || c == 39) = false ∧ isLexSpace c = false := by decide +kernel

theorem lexStep_num (c : UInt8) (t : Bytes) (h : isDigit c = true ∨ c = 45) :
    lexStep (c :: t) = ([(.rInt, intLen (c :: t)), (.rFloat, floatLen (c :: t)), (.rAny, some 1)] :
      List (Rule × Option Nat)).foldl bestStep none := by
  obtain ⟨h1, h2, h3, h4, h5, h6, h7, h8, h9, h10, h11, h12, h13, h14, h15, h16, h17⟩ := head_num c h
  simp only [lexStep_def, ruleMatches, kwAssign, kwCycle, kwLoop, kwWhen, kwTrue, kwFalse, kwNil, kwAnd, kwOr,
    kwContains, kwIn, litLen_cons, h1, h2, h3, h4, h5, h6, h7, h8, h9, h10, h11, h12, h13, h14,
    stringLen_cons_other c t h16, identLen_cons_other c t h15, propertyLen_cons_other c t h14,
    spanLen_cons_false _ c t h17, List.foldl_cons, List.foldl_nil, bestStep_none, Bool.false_eq_true, if_false,
    BEq.rfl, if_true]

theorem intLen_cons_other (c : UInt8) (t : Bytes) (hd : isDigit c = false) (hm : (45 == c) = false) :
    intLen (c :: t) = none := by
  have : c ≠ 45 := by intro hc; subst hc; simp at hm
  unfold intLen
  split
  · rename_i heq
    split at heq
    · rename_i h2; cases h2; exact absurd rfl this
    · cases heq; simp [spanLen, hd]

theorem floatLen_cons_other (c : UInt8) (t : Bytes) (hd : isDigit c = false) (hm : (45 == c) = false) :
    floatLen (c :: t) = none := by
  simp [floatLen, intLen_cons_other c t hd hm]

/-- string literals: a quote -/
theorem head_quote : ∀ c : UInt8, (c == 34 || c == 39) = true →
    (37 == c) = false ∧ (123 == c) = false ∧ (116 == c) = false ∧ (102 == c) = false ∧ (110 == c) = false ∧
    (61 == c) = false ∧ (33 == c) = false ∧ (62 == c) = false ∧ (60 == c) = false ∧ (97 == c) = false ∧
    (111 == c) = false ∧ (99 == c) = false ∧ (105 == c) = false ∧ (46 == c) = false ∧ isIdStart c = false ∧
    isDigit c = false ∧ (45 == c) = false ∧ isLexSpace c = false := by decide +kernel

theorem lexStep_quote (c : UInt8) (t : Bytes) (h : (c == 34 || c == 39) = true) :
    lexStep (c :: t) = ([(.rString, stringLen (c :: t)), (.rAny, some 1)] : List (Rule × Option Nat)).foldl bestStep none := by
  obtain ⟨h1, h2, h3, h4, h5, h6, h7, h8, h9, h10, h11, h12, h13, h14, h15, h16, h17, h18⟩ := head_quote c h
  simp only [lexStep_def, ruleMatches, kwAssign, kwCycle, kwLoop, kwWhen, kwTrue, kwFalse, kwNil, kwAnd, kwOr,
    kwContains, kwIn, litLen_cons, h1, h2, h3, h4, h5, h6, h7, h8, h9, h10, h11, h12, h13, h14,
    intLen_cons_other c t h16 h17, floatLen_cons_other c t h16 h17, identLen_cons_other c t h15,
    propertyLen_cons_other c t h14,
    spanLen_cons_false _ c t h18, List.foldl_cons, List.foldl_nil, bestStep_none, Bool.false_eq_true, if_false,
    BEq.rfl, if_true]

/-- words: a letter or `_` -/
theorem head_word : ∀ c : UInt8, isIdStart c = true →
    (37 == c) = false ∧ (123 == c) = false ∧
    (61 == c) = false ∧ (33 == c) = false ∧ (62 == c) = false ∧ (60 == c) = false ∧ (46 == c) = false ∧
    (c == 34 || c == 39) = false ∧ isDigit c = false ∧ (45 == c) = false ∧ isLexSpace c = false := by decide +kernel

/-- `identifier ':'` -/
def keywordLen (s : Bytes) : Option Nat :=
  match identLen s with
  | some n => (match s.drop n with | 58 :: _ => some (n + 1) | _ => none)
  | none => none

theorem keywordLen_of_ident (s : Bytes) (n : Nat) (h : identLen s = some n) :
    keywordLen s = (match s.drop n with | 58 :: _ => some (n + 1) | _ => none) := by
  simp only [keywordLen, h]

/-- the candidates at a letter or `_` -/
def wordCands (s : Bytes) : List (Rule × Option Nat) :=
  [ (.rBool, match litLen kwTrue s with | some n => some n | none => litLen kwFalse s),
    (.rNil, litLen kwNil s), (.rAnd, litLen kwAnd s), (.rOr, litLen kwOr s), (.rContains, litLen kwContains s),
    (.rIn, litLen kwIn s),
    (.rKeyword, keywordLen s),
    (.rIdent, identLen s), (.rAny, some 1) ]

theorem lexStep_word (c : UInt8) (t : Bytes) (h : isIdStart c = true) :
    lexStep (c :: t) = (wordCands (c :: t)).foldl bestStep none := by
  obtain ⟨h1, h2, h6, h7, h8, h9, h14, h15, h16, h17, h18⟩ := head_word c h
  simp only [lexStep_def, ruleMatches, wordCands, kwAssign, kwCycle, kwLoop, kwWhen, litLen_cons, h1, h2, h6, h7, h8, h9, h14,
    intLen_cons_other c t h16 h17, floatLen_cons_other c t h16 h17, stringLen_cons_other c t h15,
    propertyLen_cons_other c t h14,
    spanLen_cons_false _ c t h18, List.foldl_cons, List.foldl_nil, bestStep_none, Bool.false_eq_true, if_false,
    BEq.rfl, if_true]
  rfl

theorem lexStep_dot (t : Bytes) :
    lexStep (46 :: t) = ([(.rDotdot, litLen [46, 46] (46 :: t)), (.rProperty, propertyLen (46 :: t)), (.rAny, some 1)] :
      List (Rule × Option Nat)).foldl bestStep none := by
  have h16 : isDigit 46 = false := by decide
  have h17 : ((45 : UInt8) == 46) = false := by decide
  have h15 : isIdStart 46 = false := by decide
  have h18 : isLexSpace 46 = false := by decide
  have hq : ((46 : UInt8) == 34 || (46 : UInt8) == 39) = false := by decide
  simp only [lexStep_def, ruleMatches, kwAssign, kwCycle, kwLoop, kwWhen, kwTrue, kwFalse, kwNil, kwAnd, kwOr,
    kwContains, kwIn, litLen_cons _ _ 46,
    intLen_cons_other 46 t h16 h17, floatLen_cons_other 46 t h16 h17, stringLen_cons_other 46 t hq,
    identLen_cons_other 46 t h15,
    spanLen_cons_false _ 46 t h18, List.foldl_cons, List.foldl_nil, bestStep_none, Bool.false_eq_true, if_false,
    BEq.rfl, if_true, show ((37 : UInt8) == 46) = false by decide, show ((123 : UInt8) == 46) = false by decide,
    show ((116 : UInt8) == 46) = false by decide, show ((102 : UInt8) == 46) = false by decide,
    show ((110 : UInt8) == 46) = false by decide, show ((61 : UInt8) == 46) = false by decide,
    show ((33 : UInt8) == 46) = false by decide, show ((62 : UInt8) == 46) = false by decide,
    show ((60 : UInt8) == 46) = false by decide, show ((97 : UInt8) == 46) = false by decide,
    show ((111 : UInt8) == 46) = false by decide, show ((99 : UInt8) == 46) = false by decide,
    show ((105 : UInt8) == 46) = false by decide]

/-- the first byte of `==`, `!=`, `>=`, `<=` -/
def isOpStart (c : UInt8) : Bool := c == 61 || c == 33 || c == 62 || c == 60

theorem head_op : ∀ c : UInt8, isOpStart c = true →
    (37 == c) = false ∧ (123 == c) = false ∧ (116 == c) = false ∧ (102 == c) = false ∧ (110 == c) = false ∧
    (97 == c) = false ∧
    (111 == c) = false ∧ (99 == c) = false ∧ (105 == c) = false ∧ (46 == c) = false ∧ isIdStart c = false ∧
    (c == 34 || c == 39) = false ∧ isDigit c = false ∧ (45 == c) = false ∧ isLexSpace c = false := by decide +kernel

theorem lexStep_op (c : UInt8) (t : Bytes) (h : isOpStart c = true) :
    lexStep (c :: t) = ([(.rEq, litLen [61, 61] (c :: t)), (.rNeq, litLen [33, 61] (c :: t)), (.rGe, litLen [62, 61] (c :: t)),
      (.rLe, litLen [60, 61] (c :: t)), (.rAny, some 1)] : List (Rule × Option Nat)).foldl bestStep none := by
  obtain ⟨h1, h2, h3, h4, h5, h10, h11, h12, h13, h14, h15, hq, h16, h17, h18⟩ := head_op c h
  simp only [lexStep_def, ruleMatches, kwAssign, kwCycle, kwLoop, kwWhen, kwTrue, kwFalse, kwNil, kwAnd, kwOr,
    kwContains, kwIn, litLen_cons 37, litLen_cons 123, litLen_cons 116, litLen_cons 102, litLen_cons 110, litLen_cons 97,
    litLen_cons 111, litLen_cons 99, litLen_cons 105, litLen_cons 46,
    h1, h2, h3, h4, h5, h10, h11, h12, h13, h14,
    intLen_cons_other c t h16 h17, floatLen_cons_other c t h16 h17, stringLen_cons_other c t hq,
    identLen_cons_other c t h15, propertyLen_cons_other c t h14,
    spanLen_cons_false _ c t h18, List.foldl_cons, List.foldl_nil, bestStep_none, Bool.false_eq_true, if_false,
    BEq.rfl, if_true]

theorem head_space : ∀ c : UInt8, isLexSpace c = true →
    (37 == c) = false ∧ (123 == c) = false ∧ (116 == c) = false ∧ (102 == c) = false ∧ (110 == c) = false ∧
    (61 == c) = false ∧ (33 == c) = false ∧ (62 == c) = false ∧ (60 == c) = false ∧ (97 == c) = false ∧
    (111 == c) = false ∧ (99 == c) = false ∧ (105 == c) = false ∧ (46 == c) = false ∧ isIdStart c = false ∧
    (c == 34 || c == 39) = false ∧ isDigit c = false ∧ (45 == c) = false := by decide +kernel

theorem lexStep_space (c : UInt8) (t : Bytes) (h : isLexSpace c = true) :
    lexStep (c :: t) = some (.rSpace, spanLen isLexSpace t + 1) := by
  obtain ⟨h1, h2, h3, h4, h5, h6, h7, h8, h9, h10, h11, h12, h13, h14, h15, hq, h16, h17⟩ := head_space c h
  have hgt : ¬ (1 > spanLen isLexSpace t + 1) := by omega
  simp only [lexStep_def, ruleMatches, kwAssign, kwCycle, kwLoop, kwWhen, kwTrue, kwFalse, kwNil, kwAnd, kwOr,
    kwContains, kwIn, litLen_cons, h1, h2, h3, h4, h5, h6, h7, h8, h9, h10, h11, h12, h13, h14,
    intLen_cons_other c t h16 h17, floatLen_cons_other c t h16 h17, stringLen_cons_other c t hq,
    identLen_cons_other c t h15, propertyLen_cons_other c t h14,
    spanLen_cons_true _ c t h, List.foldl_cons, List.foldl_nil, bestStep_none, Bool.false_eq_true, if_false,
    BEq.rfl, if_true, Nat.add_eq_zero_iff, Nat.succ_ne_zero, and_false, beq_iff_eq, bestStep_first, bestStep_some, hgt]

/-- a byte that starts no multi-byte rule -/
def isPlain (c : UInt8) : Bool :=
  !(isDigit c || c == 45 || c == 34 || c == 39 || isIdStart c || c == 46 || isOpStart c || isLexSpace c || c == 37 || c == 123)

theorem head_plain : ∀ c : UInt8, isPlain c = true →
    (37 == c) = false ∧ (123 == c) = false ∧ (116 == c) = false ∧ (102 == c) = false ∧ (110 == c) = false ∧
    (61 == c) = false ∧ (33 == c) = false ∧ (62 == c) = false ∧ (60 == c) = false ∧ (97 == c) = false ∧
    (111 == c) = false ∧ (99 == c) = false ∧ (105 == c) = false ∧ (46 == c) = false ∧ isIdStart c = false ∧
    (c == 34 || c == 39) = false ∧ isDigit c = false ∧ (45 == c) = false ∧ isLexSpace c = false := by decide +kernel

theorem lexStep_plain (c : UInt8) (t : Bytes) (h : isPlain c = true) : lexStep (c :: t) = some (.rAny, 1) := by
  obtain ⟨h1, h2, h3, h4, h5, h6, h7, h8, h9, h10, h11, h12, h13, h14, h15, hq, h16, h17, h18⟩ := head_plain c h
  simp only [lexStep_def, ruleMatches, kwAssign, kwCycle, kwLoop, kwWhen, kwTrue, kwFalse, kwNil, kwAnd, kwOr,
    kwContains, kwIn, litLen_cons, h1, h2, h3, h4, h5, h6, h7, h8, h9, h10, h11, h12, h13, h14,
    intLen_cons_other c t h16 h17, floatLen_cons_other c t h16 h17, stringLen_cons_other c t hq,
    identLen_cons_other c t h15, propertyLen_cons_other c t h14,
    spanLen_cons_false _ c t h18, List.foldl_cons, List.foldl_nil, bestStep_none, Bool.false_eq_true, if_false,
    BEq.rfl, if_true, bestStep_first]

/-- `%`: the selectors `%assign ` and `%loop ` -/
theorem lexStep_percent (t : Bytes) :
    lexStep (37 :: t) = ([(.rAssign, litLen kwAssign (37 :: t)), (.rLoop, litLen kwLoop (37 :: t)), (.rAny, some 1)] :
      List (Rule × Option Nat)).foldl bestStep none := by
  have h16 : isDigit 37 = false := by decide
  have h17 : ((45 : UInt8) == 37) = false := by decide
  have h15 : isIdStart 37 = false := by decide
  have h18 : isLexSpace 37 = false := by decide
  have h14 : ((46 : UInt8) == 37) = false := by decide
  have hq : ((37 : UInt8) == 34 || (37 : UInt8) == 39) = false := by decide
  simp only [lexStep_def, ruleMatches, kwCycle, kwWhen, kwTrue, kwFalse, kwNil, kwAnd, kwOr,
    kwContains, kwIn, litLen_cons _ _ 37,
    intLen_cons_other 37 t h16 h17, floatLen_cons_other 37 t h16 h17, stringLen_cons_other 37 t hq,
    identLen_cons_other 37 t h15, propertyLen_cons_other 37 t h14,
    spanLen_cons_false _ 37 t h18, List.foldl_cons, List.foldl_nil, bestStep_none, Bool.false_eq_true, if_false,
    BEq.rfl, if_true, show ((123 : UInt8) == 37) = false by decide,
    show ((116 : UInt8) == 37) = false by decide, show ((102 : UInt8) == 37) = false by decide,
    show ((110 : UInt8) == 37) = false by decide, show ((61 : UInt8) == 37) = false by decide,
    show ((33 : UInt8) == 37) = false by decide, show ((62 : UInt8) == 37) = false by decide,
    show ((60 : UInt8) == 37) = false by decide, show ((97 : UInt8) == 37) = false by decide,
    show ((111 : UInt8) == 37) = false by decide, show ((99 : UInt8) == 37) = false by decide,
    show ((105 : UInt8) == 37) = false by decide, show ((46 : UInt8) == 37) = false by decide]

/-- `{`: the selectors `{%cycle ` and `{%when ` -/
theorem lexStep_brace (t : Bytes) :
    lexStep (123 :: t) = ([(.rCycle, litLen kwCycle (123 :: t)), (.rWhen, litLen kwWhen (123 :: t)), (.rAny, some 1)] :
      List (Rule × Option Nat)).foldl bestStep none := by
  have h16 : isDigit 123 = false := by decide
  have h17 : ((45 : UInt8) == 123) = false := by decide
  have h15 : isIdStart 123 = false := by decide
  have h18 : isLexSpace 123 = false := by decide
  have h14 : ((46 : UInt8) == 123) = false := by decide
  have hq : ((123 : UInt8) == 34 || (123 : UInt8) == 39) = false := by decide
  simp only [lexStep_def, ruleMatches, kwAssign, kwLoop, kwTrue, kwFalse, kwNil, kwAnd, kwOr,
    kwContains, kwIn, litLen_cons _ _ 123,
    intLen_cons_other 123 t h16 h17, floatLen_cons_other 123 t h16 h17, stringLen_cons_other 123 t hq,
    identLen_cons_other 123 t h15, propertyLen_cons_other 123 t h14,
    spanLen_cons_false _ 123 t h18, List.foldl_cons, List.foldl_nil, bestStep_none, Bool.false_eq_true, if_false,
    BEq.rfl, if_true, show ((37 : UInt8) == 123) = false by decide,
    show ((116 : UInt8) == 123) = false by decide, show ((102 : UInt8) == 123) = false by decide,
    show ((110 : UInt8) == 123) = false by decide, show ((61 : UInt8) == 123) = false by decide,
    show ((33 : UInt8) == 123) = false by decide, show ((62 : UInt8) == 123) = false by decide,
    show ((60 : UInt8) == 123) = false by decide, show ((97 : UInt8) == 123) = false by decide,
    show ((111 : UInt8) == 123) = false by decide, show ((99 : UInt8) == 123) = false by decide,
    show ((105 : UInt8) == 123) = false by decide, show ((46 : UInt8) == 123) = false by decide]
