import Proofs.ExprShowLex
import Proofs.ExprFitsExact
import Proofs.ShowFloatLemmas
/-!
# The tokens the scanner produces (helper lemmas for `Proofs/C08.lean`)

`lex_scanOK`: every token the scanner returns is well formed (`scanOK`): an identifier / keyword / property token
carries the text of an identifier, an identifier token is not one of the reserved words, an integer literal is
within int64, a string literal does not contain its own quote. That the value of a float literal token is printable
(`ETok.ok`: the exact decimal expansion reads back to the same float) is the separate statement `floatOK`, proved
for every token of the scanner at the end of this file (`lex_floatOK`, from `Proofs/ShowFloatLemmas.lean`).
-/

set_option linter.unusedSimpArgs false

/-- what the scanner guarantees about a token; nothing about the value of a float literal -/
def scanOK : ETok → Bool
  | .lit (.flt .f64 _) => true
  | .lit v => (ETok.lit v).ok
  | .ident x => (ETok.ident x).ok
  | .keyword x => (ETok.keyword x).ok
  | .property x => (ETok.property x).ok
  | _ => true

/-- the value of a float literal token has a spelling that reads back -/
def floatOK : ETok → Bool
  | .lit (.flt .f64 q) => (ETok.lit (.flt .f64 q)).ok
  | _ => true

/-! ## the winner is one of the candidates -/

theorem foldl_bestStep_mem (ms : List (Rule × Option Nat)) :
    ∀ (init : Option (Rule × Nat)) (p : Rule × Nat), ms.foldl bestStep init = some p →
      init = some p ∨ (p.1, some p.2) ∈ ms := by
  induction ms with
  | nil => intro init p h; exact Or.inl h
  | cons x xs ih =>
    intro init p h
    simp only [List.foldl_cons] at h
    rcases ih _ p h with h1 | h1
    · obtain ⟨r, m⟩ := x
      cases m with
      | none => rw [bestStep_none] at h1; exact Or.inl h1
      | some m =>
        cases init with
        | none =>
          rw [bestStep_first] at h1
          cases h1
          exact Or.inr (List.mem_cons_self ..)
        | some q0 =>
          obtain ⟨r0, b0⟩ := q0
          rw [bestStep_some] at h1
          split at h1
          · cases h1; exact Or.inr (List.mem_cons_self ..)
          · exact Or.inl h1
    · exact Or.inr (List.mem_cons_of_mem _ h1)

theorem lexStep_mem (s : Bytes) (r : Rule) (n : Nat) (h : lexStep s = some (r, n)) : (r, some n) ∈ ruleMatches s := by
  rw [lexStep_def] at h
  rcases foldl_bestStep_mem _ _ _ h with h1 | h1
  · cases h1
  · exact h1

theorem lexStep_pos (s : Bytes) (hs : s ≠ []) (r : Rule) (n : Nat) (h : lexStep s = some (r, n)) : 1 ≤ n := by
  have hge := lexStep_ge s r n h
  cases s with
  | nil => exact absurd rfl hs
  | cons c t => exact hge (.rAny, some 1) (by simp [ruleMatches]) 1 rfl

/-! ## words -/

theorem spanLen_take_all (p : UInt8 → Bool) (s : Bytes) : (s.take (spanLen p s)).all p = true := by
  induction s with
  | nil => rfl
  | cons b t ih =>
    simp only [spanLen]
    split
    · rename_i hb; simp [List.take_succ_cons, hb, ih]
    · rfl

theorem isIdentBytes_word (c : UInt8) (body qm : Bytes) (hc : isIdStart c = true) (hb : body.all isIdCont = true)
    (hqm : qm = [] ∨ qm = [63]) : isIdentBytes (c :: body ++ qm) = true := by
  rcases hqm with rfl | rfl
  · have hlast : (body.getLast? == some 63) = false := by
      cases hl : body.getLast? with
      | none => rfl
      | some x =>
        have hx : x ∈ body := List.mem_of_getLast? hl
        have := idCont_ne_q x (List.all_eq_true.1 hb x hx)
        simp only [beq_eq_false_iff_ne, ne_eq] at this
        simp [this]
    simp [isIdentBytes, hc, hlast, hb]
  · have hlast : (body ++ [63]).getLast? = some 63 := by simp
    simp [isIdentBytes, hc, hlast, hb]

/-- a match of the `identifier` rule is a word -/
theorem identLen_word (s : Bytes) (n : Nat) (h : identLen s = some n) :
    ∃ c body qm rest, s = c :: body ++ qm ++ rest ∧ n = (c :: body ++ qm).length ∧ isIdStart c = true ∧
      body.all isIdCont = true ∧ (qm = [] ∨ qm = [63]) := by
  cases s with
  | nil => simp [identLen] at h
  | cons c bs =>
    by_cases hc : isIdStart c = true
    · simp only [identLen, hc, if_true, Option.some.injEq] at h
      have hk := spanLen_le isIdCont bs
      have hsplit : bs.take (spanLen isIdCont bs) ++ bs.drop (spanLen isIdCont bs) = bs := List.take_append_drop _ _
      have hlen : (bs.take (spanLen isIdCont bs)).length = spanLen isIdCont bs := by
        rw [List.length_take]; omega
      have hall := spanLen_take_all isIdCont bs
      generalize bs.take (spanLen isIdCont bs) = body at hsplit hlen hall
      generalize hd : bs.drop (spanLen isIdCont bs) = rest' at hsplit h
      split at h
      · rename_i r
        refine ⟨c, body, [63], r, by simp [← hsplit], ?_, hc, hall, Or.inr rfl⟩
        simp only [List.length_cons, List.length_append, List.length_nil]
        omega
      · refine ⟨c, body, [], rest', by simp [← hsplit], ?_, hc, hall, Or.inl rfl⟩
        simp only [List.length_cons, List.length_append, List.length_nil]
        omega
    · simp [identLen, hc] at h

theorem wordRule_ident_only (l : Bytes) (h : wordRule l = .rIdent) : reservedWords.contains l = false := by
  simp only [reservedWords, List.contains_eq_mem, List.mem_cons, List.mem_nil_iff, or_false, decide_eq_false_iff_not]
  intro hm
  rcases hm with rfl | rfl | rfl | rfl | rfl | rfl | rfl <;> exact absurd h (by decide)

/-! ## membership in the rule list -/

theorem of_mem_rIdent (s : Bytes) (n : Nat) (h : (Rule.rIdent, some n) ∈ ruleMatches s) : identLen s = some n := by
  simp only [ruleMatches, List.mem_cons, Prod.mk.injEq, List.mem_nil_iff, or_false, reduceCtorEq, false_and, false_or,
    true_and] at h
  exact h.symm

theorem of_mem_rKeyword (s : Bytes) (n : Nat) (h : (Rule.rKeyword, some n) ∈ ruleMatches s) : keywordLen s = some n := by
  simp only [ruleMatches, List.mem_cons, Prod.mk.injEq, List.mem_nil_iff, or_false, reduceCtorEq, false_and, false_or,
    true_and] at h
  exact h.symm

theorem of_mem_rProperty (s : Bytes) (n : Nat) (h : (Rule.rProperty, some n) ∈ ruleMatches s) : propertyLen s = some n := by
  simp only [ruleMatches, List.mem_cons, Prod.mk.injEq, List.mem_nil_iff, or_false, reduceCtorEq, false_and, false_or,
    true_and] at h
  exact h.symm

theorem of_mem_rString (s : Bytes) (n : Nat) (h : (Rule.rString, some n) ∈ ruleMatches s) : stringLen s = some n := by
  simp only [ruleMatches, List.mem_cons, Prod.mk.injEq, List.mem_nil_iff, or_false, reduceCtorEq, false_and, false_or,
    true_and] at h
  exact h.symm

/-! ## one token -/

theorem intLitValue_inRange (tok : Bytes) (v : Int) (h : intLitValue tok = some v) : IntKind.i64.inRange v = true := by
  simp only [intLitValue] at h
  split at h <;> simp only [if_true, Bool.false_eq_true, if_false] at h <;> split at h <;>
    first | (cases h; assumption) | cases h

theorem string_body_ok (q : UInt8) (b : Bytes) (hq : (q == 34 || q == 39) = true) (hb : b.all (fun x => x != q) = true) :
    (!(b.contains 34 && b.contains 39)) = true := by
  have hnq : b.contains q = false := by
    cases hc : b.contains q with
    | false => rfl
    | true =>
      simp only [List.contains_eq_mem, decide_eq_true_eq] at hc
      have := List.all_eq_true.1 hb q hc
      simp at this
  simp only [Bool.or_eq_true, beq_iff_eq] at hq
  simp only [List.contains_eq_mem, decide_eq_false_iff_not] at hnq
  rcases hq with rfl | rfl <;> simp [hnq]

/-- a match of the string rule: the token text is `q body x` with no `q` in `body` (and `x = q`) -/
theorem stringLen_body (s : Bytes) (n : Nat) (h : stringLen s = some n) :
    ∃ q body, (q == 34 || q == 39) = true ∧ body.all (fun x => x != q) = true ∧
      ((s.take n).drop 1).take ((s.take n).length - 2) = body := by
  cases s with
  | nil => simp [stringLen] at h
  | cons q r =>
    by_cases hq : (q == 34 || q == 39) = true
    · simp only [stringLen, hq, if_true] at h
      have hk := spanLen_le (fun b => b != q) r
      have hsplit : r.take (spanLen (fun b => b != q) r) ++ r.drop (spanLen (fun b => b != q) r) = r :=
        List.take_append_drop _ _
      have hlen : (r.take (spanLen (fun b => b != q) r)).length = spanLen (fun b => b != q) r := by
        rw [List.length_take]; omega
      have hall := spanLen_take_all (fun b => b != q) r
      generalize r.take (spanLen (fun b => b != q) r) = body at hsplit hlen hall
      generalize r.drop (spanLen (fun b => b != q) r) = rest' at hsplit h
      cases rest' with
      | nil => simp at h
      | cons x rest =>
        simp only [Option.some.injEq] at h
        refine ⟨q, body, hq, hall, ?_⟩
        subst hsplit
        have h1 : (q :: (body ++ x :: rest)).take n = q :: (body ++ [x]) := by
          have : q :: (body ++ x :: rest) = (q :: (body ++ [x])) ++ rest := by simp
          rw [this]; exact List.take_left' (by simp; omega)
        rw [h1]
        simp only [List.drop_succ_cons, List.drop_zero, List.length_cons, List.length_append, List.length_nil]
        have : body.length + (0 + 1) + 1 - 2 = body.length := by omega
        rw [this, List.take_left' rfl]
    · simp [stringLen, hq] at h

/-- **what the scanner guarantees about the token it makes** at the head of `s` -/
theorem mkTok_scanOK (s : Bytes) (hs : s ≠ []) (r : Rule) (n : Nat) (h : lexStep s = some (r, n)) (t : ETok)
    (hm : mkTok r (s.take (max n 1)) = .ok (some t)) : scanOK t = true := by
  have hpos := lexStep_pos s hs r n h
  have hmax : max n 1 = n := by omega
  rw [hmax] at hm
  have hmem := lexStep_mem s r n h
  cases r with
  | rAssign => cases hm; rfl
  | rCycle => cases hm; rfl
  | rLoop => cases hm; rfl
  | rWhen => cases hm; rfl
  | rInt =>
    simp only [mkTok] at hm
    split at hm
    · rename_i v hv
      cases hm
      exact intLitValue_inRange _ _ hv
    · cases hm
  | rFloat =>
    simp only [mkTok] at hm
    split at hm
    · cases hm; rfl
    · cases hm
    · cases hm
  | rString =>
    obtain ⟨q, body, hq, hb, hbody⟩ := stringLen_body s n (of_mem_rString s n hmem)
    simp only [mkTok, hbody] at hm
    cases hm
    exact string_body_ok q body hq hb
  | rBool => cases hm; rfl
  | rNil => cases hm; rfl
  | rEq => cases hm; rfl
  | rNeq => cases hm; rfl
  | rGe => cases hm; rfl
  | rLe => cases hm; rfl
  | rAnd => cases hm; rfl
  | rOr => cases hm; rfl
  | rContains => cases hm; rfl
  | rIn => cases hm; rfl
  | rDotdot => cases hm; rfl
  | rKeyword =>
    have hk := of_mem_rKeyword s n hmem
    unfold keywordLen at hk
    split at hk
    · rename_i m hid
      obtain ⟨c, body, qm, rest, rfl, rfl, hc, hb, hqm⟩ := identLen_word s m hid
      rw [List.drop_left' rfl] at hk
      split at hk
      · rename_i rest'
        simp only [Option.some.injEq] at hk
        subst hk
        have h1 : (c :: body ++ qm ++ 58 :: rest').take ((c :: body ++ qm).length + 1) = (c :: body ++ qm) ++ [58] := by
          have : c :: body ++ qm ++ 58 :: rest' = ((c :: body ++ qm) ++ [58]) ++ rest' := by simp
          rw [this]; exact List.take_left' (by simp only [List.length_cons, List.length_append, List.length_nil])
        rw [h1] at hm
        simp only [mkTok] at hm
        have h2 : ((c :: body ++ qm) ++ [58]).length - 1 = (c :: body ++ qm).length := by
          simp only [List.length_cons, List.length_append, List.length_nil]; omega
        rw [h2, List.take_left' rfl] at hm
        cases hm
        exact isIdentBytes_word c body qm hc hb hqm
      · cases hk
    · cases hk
  | rIdent =>
    have hid := of_mem_rIdent s n hmem
    obtain ⟨c, body, qm, rest, rfl, rfl, hc, hb, hqm⟩ := identLen_word s n hid
    rw [List.take_left' rfl] at hm
    cases hm
    have hl := Lexeme.word c body qm hc hb hqm
    have hf := fits_of_lexStep _ _ rest hl _ h
    have h2 := lexStep_lexeme _ _ rest hl hf
    rw [h] at h2
    simp only [Option.some.injEq, Prod.mk.injEq, and_true] at h2
    simp only [scanOK, ETok.ok, isIdentBytes_word c body qm hc hb hqm, wordRule_ident_only _ h2.symm, Bool.not_false,
      Bool.and_self]
  | rProperty =>
    have hp := of_mem_rProperty s n hmem
    cases s with
    | nil => exact absurd rfl hs
    | cons d r =>
      by_cases hd : d = 46
      · subst hd
        rw [propertyLen_cons] at hp
        cases hid : identLen r with
        | none => rw [hid] at hp; cases hp
        | some m =>
          rw [hid] at hp
          simp only [Option.map_some, Option.some.injEq] at hp
          subst hp
          obtain ⟨c, body, qm, rest, rfl, rfl, hc, hb, hqm⟩ := identLen_word r m hid
          have h1 : (46 :: (c :: body ++ qm ++ rest)).take ((c :: body ++ qm).length + 1) = 46 :: (c :: body ++ qm) := by
            rw [List.take_succ_cons, List.take_left' rfl]
          rw [h1] at hm
          cases hm
          exact isIdentBytes_word c body qm hc hb hqm
      · have : propertyLen (d :: r) = none := by
          unfold propertyLen
          split
          · rename_i heq; cases heq; exact absurd rfl hd
          · rfl
        rw [this] at hp; cases hp
  | rSpace => cases hm
  | rAny =>
    simp only [mkTok] at hm
    split at hm
    · cases hm; rfl
    · cases hm

/-! ## all tokens -/

theorem lexAux_scanOK : ∀ (n : Nat) (s : Bytes) (acc : List ETok), acc.all scanOK = true →
    (lexAux n s acc).1.all scanOK = true := by
  intro n
  induction n with
  | zero => intro s acc h; simpa [lexAux] using h
  | succ n ih =>
    intro s acc hacc
    cases s with
    | nil => simpa [lexAux] using hacc
    | cons c t =>
      simp only [lexAux]
      cases hb : bestRule (ruleMatches (c :: t)) with
      | none => simpa using hacc
      | some p =>
        obtain ⟨r, len⟩ := p
        simp only
        cases hm : mkTok r (List.take (max len 1) (c :: t)) with
        | ok o =>
          cases o with
          | none => exact ih _ _ hacc
          | some tk =>
            simp only
            apply ih
            have := mkTok_scanOK (c :: t) (by simp) r len hb tk hm
            simp [List.all_cons, this, hacc]
        | err e => simpa using hacc
        | panic w => simpa using hacc
        | unmodelled w => simpa using hacc

/-- **every token the scanner returns is well formed** -/
theorem lex_scanOK (src : Bytes) : (lex src).1.all scanOK = true := by
  unfold lex
  exact lexAux_scanOK _ _ [] rfl

/-! ## float literal tokens

The value of a float literal token is `±r` for a value `r` of `roundF64`'s image (`floatLitValue_image`,
`Proofs/ShowFloatLemmas.lean`): a dyadic rational that rounds to itself, whose exact decimal expansion
(`showFloat`) the scanner reads back to the same value. So `floatOK` holds for every token of the scanner. -/

/-- the value of a float literal is printable -/
theorem floatLit_ok (tok : Bytes) (q : Rat) (h : floatLitValue tok = some (some q)) :
    (ETok.lit (.flt .f64 q)).ok = true := by
  simp only [ETok.ok, floatLitValue_showFloat_of_lit tok q h, beq_self_eq_true]

theorem mkTok_floatOK (r : Rule) (tok : Bytes) (t : ETok) (hm : mkTok r tok = .ok (some t)) : floatOK t = true := by
  cases r with
  | rInt =>
    simp only [mkTok] at hm
    split at hm
    · cases hm; rfl
    · cases hm
  | rFloat =>
    simp only [mkTok] at hm
    split at hm
    · rename_i q hq
      cases hm
      exact floatLit_ok tok q hq
    · cases hm
    · cases hm
  | rAny =>
    simp only [mkTok] at hm
    split at hm
    · cases hm; rfl
    · cases hm
  | rSpace => cases hm
  | _ => cases hm; rfl

theorem lexAux_floatOK : ∀ (n : Nat) (s : Bytes) (acc : List ETok), acc.all floatOK = true →
    (lexAux n s acc).1.all floatOK = true := by
  intro n
  induction n with
  | zero => intro s acc h; simpa [lexAux] using h
  | succ n ih =>
    intro s acc hacc
    cases s with
    | nil => simpa [lexAux] using hacc
    | cons c t =>
      simp only [lexAux]
      cases hb : bestRule (ruleMatches (c :: t)) with
      | none => simpa using hacc
      | some p =>
        obtain ⟨r, len⟩ := p
        simp only
        cases hm : mkTok r (List.take (max len 1) (c :: t)) with
        | ok o =>
          cases o with
          | none => exact ih _ _ hacc
          | some tk =>
            simp only
            apply ih
            have := mkTok_floatOK r _ tk hm
            simp [List.all_cons, this, hacc]
        | err e => simpa using hacc
        | panic w => simpa using hacc
        | unmodelled w => simpa using hacc

/-- **every float literal token the scanner returns has a printable value** -/
theorem lex_floatOK (src : Bytes) : (lex src).1.all floatOK = true := by
  unfold lex
  exact lexAux_floatOK _ _ [] rfl
