import Liquid.TrimGeneric
/-!
# Lemmas about the generic trim-writer machine (`Liquid/TrimGeneric.lean`)
-/

namespace Gen

variable {α : Type} (sp : α → Bool)

/-! ## `WsDeletion` -/

theorem WsDeletion.refl : ∀ a : List α, WsDeletion sp a a
  | [] => .nil
  | c :: a => .keep c (WsDeletion.refl a)

theorem WsDeletion.trans {a b c : List α} (h1 : WsDeletion sp a b) (h2 : WsDeletion sp b c) :
    WsDeletion sp a c := by
  induction h1 generalizing c with
  | nil => exact h2
  | keep x _ ih =>
    cases h2 with
    | keep _ h => exact .keep x (ih h)
    | drop _ hx h => exact .drop x hx (ih h)
  | drop x hx _ ih => exact .drop x hx (ih h2)

theorem WsDeletion.append {a b c d : List α} (h1 : WsDeletion sp a b) (h2 : WsDeletion sp c d) :
    WsDeletion sp (a ++ c) (b ++ d) := by
  induction h1 with
  | nil => exact h2
  | keep x _ ih => exact .keep x ih
  | drop x hx _ ih => exact .drop x hx ih

theorem WsDeletion.stripWS_eq {a b : List α} (h : WsDeletion sp a b) : stripWS sp a = stripWS sp b := by
  induction h with
  | nil => rfl
  | keep x _ ih => simp only [stripWS, List.filter_cons] at *; rw [ih]
  | drop x hx _ ih => simp only [stripWS, List.filter_cons, hx] at *; simpa using ih

theorem WsDeletion.sublist {a b : List α} (h : WsDeletion sp a b) : b.Sublist a := by
  induction h with
  | nil => exact .slnil
  | keep x _ ih => exact .cons_cons x ih
  | drop x _ _ ih => exact .cons x ih

theorem WsDeletion.length_le {a b : List α} (h : WsDeletion sp a b) : b.length ≤ a.length :=
  (h.sublist sp).length_le

theorem wsDeletion_dropWhile (b : List α) : WsDeletion sp b (b.dropWhile sp) := by
  induction b with
  | nil => exact .nil
  | cons x xs ih =>
    cases hx : sp x
    · rw [List.dropWhile_cons_of_neg (by simp [hx])]; exact WsDeletion.refl sp _
    · rw [List.dropWhile_cons_of_pos hx]; exact .drop x hx ih

theorem wsDeletion_lstrip (b : List α) : WsDeletion sp b (lstrip sp b) := wsDeletion_dropWhile sp b

theorem WsDeletion.reverse {a b : List α} (h : WsDeletion sp a b) : WsDeletion sp a.reverse b.reverse := by
  induction h with
  | nil => exact .nil
  | keep x _ ih =>
    rw [List.reverse_cons, List.reverse_cons]
    exact ih.append sp (WsDeletion.refl sp [x])
  | drop x hx _ ih =>
    rw [List.reverse_cons]
    have : WsDeletion sp [x] [] := .drop x hx .nil
    simpa using ih.append sp this

theorem wsDeletion_rstrip (b : List α) : WsDeletion sp b (rstrip sp b) := by
  have := (wsDeletion_dropWhile sp b.reverse).reverse sp
  simpa [rstrip] using this

/-! ## `lstrip`, `rstrip`, `stripWS`, `hasInk` -/

theorem stripWS_append (a b : List α) : stripWS sp (a ++ b) = stripWS sp a ++ stripWS sp b := by
  simp [stripWS]

theorem stripWS_lstrip (b : List α) : stripWS sp (lstrip sp b) = stripWS sp b :=
  ((wsDeletion_lstrip sp b).stripWS_eq sp).symm

theorem stripWS_rstrip (b : List α) : stripWS sp (rstrip sp b) = stripWS sp b :=
  ((wsDeletion_rstrip sp b).stripWS_eq sp).symm

theorem dropWhile_append_of_stable (x y : List α) (h : y.dropWhile sp = y ∨ (x.any fun c => !sp c) = true) :
    (x ++ y).dropWhile sp = x.dropWhile sp ++ y := by
  induction x with
  | nil =>
    rcases h with h | h
    · simpa using h
    · simp at h
  | cons a x ih =>
    cases ha : sp a
    · simp [ha]
    · simp only [List.cons_append, List.dropWhile_cons, ha, if_true]
      apply ih
      rcases h with h | h
      · exact .inl h
      · right; simpa [ha] using h

/-- the right trim does not reach into `c` when `c` ends with ink (or is empty) or `b` has ink -/
theorem rstrip_append (c b : List α) (h : rstrip sp c = c ∨ hasInk sp b = true) :
    rstrip sp (c ++ b) = c ++ rstrip sp b := by
  unfold rstrip
  rw [List.reverse_append, dropWhile_append_of_stable, List.reverse_append, List.reverse_reverse]
  rcases h with h | h
  · left
    have := congrArg List.reverse h
    simpa [rstrip] using this
  · right; simpa [hasInk] using h

theorem rstrip_idem (b : List α) : rstrip sp (rstrip sp b) = rstrip sp b := by
  unfold rstrip
  rw [List.reverse_reverse]
  congr 1
  generalize b.reverse = l
  induction l with
  | nil => rfl
  | cons x xs ih =>
    cases hx : sp x
    · simp [hx]
    · simpa [List.dropWhile_cons, hx] using ih

theorem lstrip_idem (b : List α) : lstrip sp (lstrip sp b) = lstrip sp b := by
  unfold lstrip
  induction b with
  | nil => rfl
  | cons x xs ih =>
    cases hx : sp x
    · simp [hx]
    · simpa [List.dropWhile_cons, hx] using ih

theorem rstrip_nil : rstrip sp ([] : List α) = [] := rfl
theorem lstrip_nil : lstrip sp ([] : List α) = [] := rfl

theorem hasInk_append (a b : List α) : hasInk sp (a ++ b) = (hasInk sp a || hasInk sp b) := by
  simp [hasInk]

theorem hasInk_eq_false_iff (b : List α) : hasInk sp b = false ↔ ∀ c ∈ b, sp c = true := by
  simp [hasInk]

theorem hasInk_lstrip (b : List α) : hasInk sp (lstrip sp b) = hasInk sp b := by
  unfold lstrip
  induction b with
  | nil => rfl
  | cons x xs ih =>
    cases hx : sp x
    · simp [hx]
    · simpa [List.dropWhile_cons, hx, hasInk] using ih

theorem hasInk_reverse (b : List α) : hasInk sp b.reverse = hasInk sp b := by
  simp [hasInk]

theorem hasInk_rstrip (b : List α) : hasInk sp (rstrip sp b) = hasInk sp b := by
  unfold rstrip
  rw [hasInk_reverse]
  have := hasInk_lstrip sp b.reverse
  rw [hasInk_reverse] at this
  exact this

theorem lstrip_of_no_ink (b : List α) (h : hasInk sp b = false) : lstrip sp b = [] := by
  rw [hasInk_eq_false_iff] at h
  unfold lstrip
  induction b with
  | nil => rfl
  | cons x xs ih =>
    rw [List.dropWhile_cons_of_pos (h x (by simp))]
    exact ih fun c hc => h c (by simp [hc])

theorem rstrip_of_no_ink (b : List α) (h : hasInk sp b = false) : rstrip sp b = [] := by
  unfold rstrip
  have := lstrip_of_no_ink sp b.reverse (by rw [hasInk_reverse]; exact h)
  unfold lstrip at this
  rw [this]; rfl

/-- a stripped text with ink starts with ink -/
theorem lstrip_head_ink (b : List α) (h : hasInk sp b = true) :
    ∃ x t, lstrip sp b = x :: t ∧ sp x = false := by
  unfold lstrip
  induction b with
  | nil => simp [hasInk] at h
  | cons x xs ih =>
    cases hx : sp x
    · exact ⟨x, xs, by simp [hx], hx⟩
    · rw [List.dropWhile_cons_of_pos hx]
      apply ih
      simpa [hasInk, hx] using h

/-- the two trims commute -/
theorem lstrip_rstrip_comm (b : List α) : lstrip sp (rstrip sp b) = rstrip sp (lstrip sp b) := by
  cases h : hasInk sp b
  · rw [rstrip_of_no_ink sp b h, lstrip_of_no_ink sp b h]; rfl
  · -- b = ws ++ (x :: t) with x ink: rstrip only touches x :: t
    unfold lstrip
    induction b with
    | nil => rfl
    | cons x xs ih =>
      cases hx : sp x
      · rw [List.dropWhile_cons_of_neg (by simp [hx])]
        have e : rstrip sp (x :: xs) = [x] ++ rstrip sp xs := by
          have := rstrip_append sp [x] xs (.inl (by simp [rstrip, hx]))
          simpa using this
        rw [e]
        simp [hx]
      · rw [List.dropWhile_cons_of_pos hx]
        have hxs : hasInk sp xs = true := by simpa [hasInk, hx] using h
        rw [← ih hxs]
        have e : rstrip sp (x :: xs) = [x] ++ rstrip sp xs := by
          have := rstrip_append sp [x] xs (.inr hxs)
          simpa using this
        rw [e]
        simp [hx]

/-- a text that ends with ink is not touched by the right trim -/
theorem rstrip_stable_append_rstrip (c b : List α) (hb : hasInk sp b = true) :
    rstrip sp (c ++ rstrip sp b) = c ++ rstrip sp b := by
  rw [rstrip_append sp c _ (.inr (by rw [hasInk_rstrip]; exact hb)), rstrip_idem]

/-! ## running the machine -/

theorem run_append (t : GTW α) (xs ys : List (GOp α)) :
    GTW.run sp t (xs ++ ys) =
      ((GTW.run sp (GTW.run sp t xs).1 ys).1, (GTW.run sp t xs).2 ++ (GTW.run sp (GTW.run sp t xs).1 ys).2) := by
  induction xs generalizing t with
  | nil => simp [GTW.run]
  | cons op xs ih =>
    simp only [List.cons_append, GTW.run]
    rw [ih]
    simp [List.append_assoc]

theorem outFrom_nil (t : GTW α) : GTW.outFrom sp t [] = t.buf := by
  cases t with | mk buf trim =>
  cases buf <;> simp [GTW.outFrom, GTW.run, GTW.step]

theorem outFrom_cons (t : GTW α) (op : GOp α) (ops : List (GOp α)) :
    GTW.outFrom sp t (op :: ops) = (t.step sp op).2.flatten ++ GTW.outFrom sp (t.step sp op).1 ops := by
  simp [GTW.outFrom, GTW.run]

theorem outFrom_append (t : GTW α) (xs ys : List (GOp α)) :
    GTW.outFrom sp t (xs ++ ys) = (GTW.run sp t xs).2.flatten ++ GTW.outFrom sp (GTW.run sp t xs).1 ys := by
  simp only [GTW.outFrom, List.append_assoc]
  rw [run_append]
  simp

/-- flushing writes the buffer (an empty buffer issues no call, which is the same bytes) -/
theorem flatten_flushCalls (b : List α) : (if b.isEmpty then [] else [b] : List (List α)).flatten = b := by
  cases b <;> simp

/-- `Write` flushes the previous buffer and buffers the (possibly left-stripped) new text -/
theorem outFrom_write (t : GTW α) (b : List α) (ops : List (GOp α)) :
    GTW.outFrom sp t (.write b :: ops) =
      t.buf ++ GTW.outFrom sp { buf := if t.trim then lstrip sp b else b, trim := false } ops := by
  rw [outFrom_cons]
  simp only [GTW.step, flatten_flushCalls]

theorem outFrom_trimLeft (t : GTW α) (ops : List (GOp α)) :
    GTW.outFrom sp t (.trimLeft :: ops) = rstrip sp t.buf ++ GTW.outFrom sp { t with buf := [] } ops := by
  rw [outFrom_cons]; simp [GTW.step]

theorem outFrom_trimRight (t : GTW α) (ops : List (GOp α)) :
    GTW.outFrom sp t (.trimRight :: ops) = GTW.outFrom sp { t with trim := true } ops := by
  rw [outFrom_cons]; simp [GTW.step]

theorem outFrom_flush (t : GTW α) (ops : List (GOp α)) :
    GTW.outFrom sp t (.flush :: ops) = t.buf ++ GTW.outFrom sp { t with buf := [] } ops := by
  rw [outFrom_cons]; simp [GTW.step]
  split <;> simp_all

/-- **commit lemma**: a part `c` of the buffer that no later `TrimLeft` can reach (because `c` ends
    with ink, or because ink follows it in the buffer) may as well have been written already -/
theorem outFrom_commit (ops : List (GOp α)) : ∀ (c b : List α) (f : Bool),
    (rstrip sp c = c ∨ hasInk sp b = true) →
    GTW.outFrom sp { buf := c ++ b, trim := f } ops = c ++ GTW.outFrom sp { buf := b, trim := f } ops := by
  induction ops with
  | nil => intro c b f _; simp [outFrom_nil]
  | cons op ops ih =>
    intro c b f h
    cases op with
    | write u =>
      rw [outFrom_write, outFrom_write]
      simp only [List.append_assoc]
    | trimLeft =>
      rw [outFrom_trimLeft, outFrom_trimLeft]
      simp only
      rw [rstrip_append sp c b h, List.append_assoc]
    | trimRight =>
      rw [outFrom_trimRight, outFrom_trimRight]
      exact ih c b true h
    | flush =>
      rw [outFrom_flush, outFrom_flush]
      simp

/-! ## the erasure law -/

theorem writes_append (xs ys : List (GOp α)) : writes (xs ++ ys) = writes xs ++ writes ys := by
  induction xs with
  | nil => rfl
  | cons op xs ih => cases op <;> simp [writes, ih]

theorem writes_eraseTrims (ops : List (GOp α)) : writes (eraseTrims ops) = writes ops := by
  induction ops with
  | nil => rfl
  | cons op ops ih => cases op <;> simp_all [writes, eraseTrims]

/-- without trim operations, and with the flag clear, the machine is a plain buffered writer -/
theorem outFrom_eraseTrims (ops : List (GOp α)) : ∀ (buf : List α),
    GTW.outFrom sp { buf := buf, trim := false } (eraseTrims ops) = buf ++ writes ops := by
  induction ops with
  | nil => intro buf; simp [eraseTrims, outFrom_nil, writes]
  | cons op ops ih =>
    intro buf
    cases op with
    | write u =>
      have : eraseTrims (.write u :: ops) = .write u :: eraseTrims ops := by simp [eraseTrims]
      rw [this, outFrom_write]
      simp only [Bool.false_eq_true, if_false]
      rw [ih]; simp [writes]
    | trimLeft =>
      have : eraseTrims (.trimLeft :: ops) = eraseTrims ops := by simp [eraseTrims]
      rw [this, ih]; simp [writes]
    | trimRight =>
      have : eraseTrims (.trimRight :: ops) = eraseTrims ops := by simp [eraseTrims]
      rw [this, ih]; simp [writes]
    | flush =>
      have : eraseTrims (.flush :: ops) = .flush :: eraseTrims ops := by simp [eraseTrims]
      rw [this, outFrom_flush]
      simp only
      rw [ih]; simp [writes]

/-- the simulation invariant: whatever is buffered is a whitespace-deletion of `pre`; then the
    whole output is a whitespace-deletion of `pre ++ writes ops` -/
theorem outFrom_wsDeletion (ops : List (GOp α)) : ∀ (t : GTW α) (pre : List α),
    WsDeletion sp pre t.buf → WsDeletion sp (pre ++ writes ops) (GTW.outFrom sp t ops) := by
  induction ops with
  | nil => intro t pre h; simpa [outFrom_nil, writes] using h
  | cons op ops ih =>
    intro t pre h
    cases op with
    | write u =>
      rw [outFrom_write]
      simp only [writes]
      refine h.append sp (ih _ u ?_)
      cases t.trim
      · exact WsDeletion.refl sp u
      · exact wsDeletion_lstrip sp u
    | trimLeft =>
      rw [outFrom_trimLeft]
      simp only [writes]
      have := ih { t with buf := [] } [] .nil
      exact (h.trans sp (wsDeletion_rstrip sp t.buf)).append sp this
    | trimRight =>
      rw [outFrom_trimRight]
      exact ih { t with trim := true } pre h
    | flush =>
      rw [outFrom_flush]
      simp only [writes]
      have := ih { t with buf := [] } [] .nil
      exact h.append sp this

/-- the output is a whitespace-deletion of the concatenated writes -/
theorem out_wsDeletion (ops : List (GOp α)) : WsDeletion sp (writes ops) (out sp ops) := by
  have := outFrom_wsDeletion sp ops {} [] .nil
  simpa [out] using this

/-- without trim operations the output is the concatenation of the writes -/
theorem out_eraseTrims (ops : List (GOp α)) : out sp (eraseTrims ops) = writes ops := by
  have := outFrom_eraseTrims sp ops []
  simpa [out] using this

theorem out_append (xs ys : List (GOp α)) :
    out sp (xs ++ ys) = (GTW.run sp {} xs).2.flatten ++ GTW.outFrom sp (GTW.run sp {} xs).1 ys :=
  outFrom_append sp {} xs ys

/-! ## a trim operation next to a write (per state) -/

/-- a `TrimLeft` directly after a write acts as the write of the right-stripped text — in EVERY
    state, for EVERY text (the previous buffer was flushed by the write, so the `TrimLeft` sees
    this text only) -/
theorem outFrom_write_trimLeft (t : GTW α) (u : List α) (post : List (GOp α)) :
    GTW.outFrom sp t (.write u :: .trimLeft :: post) = GTW.outFrom sp t (.write (rstrip sp u) :: post) := by
  rw [outFrom_write, outFrom_write, outFrom_trimLeft]
  congr 1
  have key : ∀ v : List α, rstrip sp v ++ GTW.outFrom sp { buf := [], trim := false } post =
      GTW.outFrom sp { buf := rstrip sp v, trim := false } post := by
    intro v
    have := outFrom_commit sp post (rstrip sp v) [] false (.inl (rstrip_idem sp v))
    rw [List.append_nil] at this
    exact this.symm
  cases t.trim
  · exact key u
  · simp only [if_true]
    rw [lstrip_rstrip_comm]
    exact key (lstrip sp u)

/-- a `TrimRight` directly before a write acts as the write of the left-stripped text — in EVERY
    state, for EVERY text (a write always consumes the flag) -/
theorem outFrom_trimRight_write (t : GTW α) (u : List α) (post : List (GOp α)) :
    GTW.outFrom sp t (.trimRight :: .write u :: post) = GTW.outFrom sp t (.write (lstrip sp u) :: post) := by
  rw [outFrom_trimRight, outFrom_write, outFrom_write]
  cases t.trim <;> simp [lstrip_idem]

/-- a write is a barrier: what was buffered before it is output as it is, whatever follows -/
theorem outFrom_write_barrier (t : GTW α) (u : List α) (rest : List (GOp α)) :
    GTW.outFrom sp t (.write u :: rest) =
      t.buf ++ GTW.outFrom sp { buf := [], trim := t.trim } (.write u :: rest) := by
  rw [outFrom_write, outFrom_write]; rfl

/-- so is a `TrimRight` followed by a write -/
theorem outFrom_trimRight_write_barrier (t : GTW α) (u : List α) (rest : List (GOp α)) :
    GTW.outFrom sp t (.trimRight :: .write u :: rest) =
      t.buf ++ GTW.outFrom sp { buf := [], trim := t.trim } (.trimRight :: .write u :: rest) := by
  rw [outFrom_trimRight, outFrom_trimRight, outFrom_write, outFrom_write]; rfl

/-- an empty write flushes and clears the flag -/
theorem outFrom_write_nil (t : GTW α) (post : List (GOp α)) :
    GTW.outFrom sp t (.write [] :: post) = t.buf ++ GTW.outFrom sp { buf := [], trim := false } post := by
  rw [outFrom_write]; cases t.trim <;> rfl

/-- with no flag pending an empty write is a `Flush` -/
theorem outFrom_write_nil_noflag (t : GTW α) (post : List (GOp α)) (hf : t.trim = false) :
    GTW.outFrom sp t (.write [] :: post) = GTW.outFrom sp t (.flush :: post) := by
  rw [outFrom_write_nil, outFrom_flush]
  cases t with | mk buf trim =>
  simp only at hf
  subst hf
  rfl

theorem outFrom_trimRight_empty_write (t : GTW α) (post : List (GOp α)) (hf : t.trim = false) :
    GTW.outFrom sp t (.trimRight :: .write [] :: post) = GTW.outFrom sp t (.flush :: post) := by
  rw [outFrom_trimRight_write, lstrip_nil, outFrom_write_nil_noflag sp t post hf]

theorem outFrom_trimRight_trimLeft (t : GTW α) (post : List (GOp α)) :
    GTW.outFrom sp t (.trimRight :: .trimLeft :: post) = GTW.outFrom sp t (.trimLeft :: .trimRight :: post) := by
  rw [outFrom_trimRight, outFrom_trimLeft, outFrom_trimLeft, outFrom_trimRight]

theorem outFrom_trimRight_flush (t : GTW α) (post : List (GOp α)) :
    GTW.outFrom sp t (.trimRight :: .flush :: post) = GTW.outFrom sp t (.flush :: .trimRight :: post) := by
  rw [outFrom_trimRight, outFrom_flush, outFrom_flush, outFrom_trimRight]

/-! ## a write commits everything before it (from the initial state) -/

/-- the state after a write: the buffer holds this write only, the flag is clear -/
theorem run_snoc_write (t : GTW α) (pre : List (GOp α)) (b : List α) :
    (GTW.run sp t (pre ++ [.write b])).1 =
      { buf := if (GTW.run sp t pre).1.trim then lstrip sp b else b, trim := false } := by
  rw [run_append]; rfl

theorem out_snoc_write (pre : List (GOp α)) (a : List α) :
    out sp (pre ++ [.write a]) =
      (GTW.run sp {} pre).2.flatten ++ ((GTW.run sp {} pre).1.buf ++
        if (GTW.run sp {} pre).1.trim then lstrip sp a else a) := by
  rw [out_append, outFrom_write, outFrom_nil]

/-- the output splits at two consecutive writes: the first part is the complete output of the
    list that ends with the first write, the second part does not depend on it -/
theorem out_split_write_write (pre rest : List (GOp α)) (a b : List α) :
    out sp (pre ++ .write a :: .write b :: rest) = out sp (pre ++ [.write a]) ++ out sp (.write b :: rest) := by
  rw [out_snoc_write, out_append, outFrom_write, outFrom_write]
  simp only [out, outFrom_write, if_false, Bool.false_eq_true, List.nil_append, List.append_assoc]

theorem out_split_write_trimRight_write (pre rest : List (GOp α)) (a b : List α) :
    out sp (pre ++ .write a :: .trimRight :: .write b :: rest) =
      out sp (pre ++ [.write a]) ++ out sp (.trimRight :: .write b :: rest) := by
  rw [out_snoc_write, out_append, outFrom_write, outFrom_trimRight, outFrom_write]
  simp only [out, outFrom_write, outFrom_trimRight, if_true, List.nil_append, List.append_assoc]

theorem out_write_trimLeft (b : List α) (post : List (GOp α)) :
    out sp (.write b :: .trimLeft :: post) = rstrip sp b ++ out sp post := by
  simp only [out, outFrom_write, outFrom_trimLeft, if_false, Bool.false_eq_true, List.nil_append]

theorem out_trimRight_write_trimLeft (b : List α) (post : List (GOp α)) :
    out sp (.trimRight :: .write b :: .trimLeft :: post) = rstrip sp (lstrip sp b) ++ out sp post := by
  simp only [out, outFrom_write, outFrom_trimRight, outFrom_trimLeft, if_true, List.nil_append]

end Gen
