import Proofs.SrcWrites
import Proofs.C08Source
/-!
# C14, from source bytes — `{% include "name" %}` inserts exactly what the named file renders

Lifts `include_denotation` (`Proofs/C14.lean`) to `run` on source text. The file is looked up at
`dir(path)/name` (`fileSource`: on disk, or in the cache when no such file exists), compiled at the include
tag's line and rendered with the includer's variables; the include depth is counted by the fuel.
-/

/-- `{% include "name" %}` (`q` is the quote byte, `"` or `'`) -/
def includeItem (q : UInt8) (name : Bytes) (w : Ws) : Item := tg nmInclude (q :: name ++ [q]) w

/-- **C14 (an include renders what its file renders), from source bytes.** The one-tag source
    `{% include "name" %}` — a string literal in either quote, any white space, any good delimiters — on a file
    system where `dir(path)/name` holds the source `body`, and `body` run as a template of its own (same
    engine, the includer's variables `env`, start line = the line of the include tag, fuel one less) renders
    normally to `out`: the whole pipeline returns exactly `out`. -/
theorem include_source (P : Prims) (O : OutPrims) (cfg : Cfg) (fs : FS) (fuel : Nat) (line : Nat) (env : Env)
    (q : UInt8) (name : Bytes) (w : Ws) (hq : q = 34 ∨ q = 39) (hn : q ∉ name)
    (hg : GoodDelims (Delims.ofList cfg.delims)) (hc : Clean (Delims.ofList cfg.delims) [includeItem q name w])
    (body out : Bytes)
    (hfile : fileSource fs (joinPath (dirPath cfg.path) name) = some body)
    (hbody : run P O cfg fs fuel body line env = .ok out) :
    run P O cfg fs (fuel + 1) (spell (Delims.ofList cfg.delims) [includeItem q name w]) line env = .ok out := by
  unfold includeItem at hc ⊢
  rw [run_spell P O cfg fs (fuel + 1) _ line env hg hc, tokensOf_tg, tokensOf_nil, compile_include]
  have := runRoot_writes P O cfg fs (fuel + 1) env [(.incl line (q :: name ++ [q]), out)] (by
    intro p hp
    simp only [List.mem_singleton] at hp
    subst hp
    exact writesAt_include P O cfg fs fuel line _ name env body out (string_literal_denotes q name hq hn) hfile hbody)
  show runRoot P O cfg fs (fuel + 1) [.incl line (q :: name ++ [q])] env = .ok out
  simpa using this

/-- **C14 (the output is inserted in place), from source bytes.** `T1{% include "name" %}T2` with texts `T1`, `T2`
    around the tag renders to `T1`, then the output of the file, then `T2`. The file is compiled at the line
    of the include tag: the start line plus the newlines of `T1`. -/
theorem include_between_texts_source (P : Prims) (O : OutPrims) (cfg : Cfg) (fs : FS) (fuel : Nat) (line : Nat) (env : Env)
    (q : UInt8) (name : Bytes) (w : Ws) (T1 T2 : Bytes) (hq : q = 34 ∨ q = 39) (hn : q ∉ name)
    (hg : GoodDelims (Delims.ofList cfg.delims))
    (hc : Clean (Delims.ofList cfg.delims) [.text T1, includeItem q name w, .text T2])
    (body out : Bytes)
    (hfile : fileSource fs (joinPath (dirPath cfg.path) name) = some body)
    (hbody : run P O cfg fs fuel body (line + countNL T1) env = .ok out) :
    run P O cfg fs (fuel + 1) (spell (Delims.ofList cfg.delims) [.text T1, includeItem q name w, .text T2]) line env =
      .ok (T1 ++ (out ++ T2)) := by
  unfold includeItem at hc ⊢
  rw [run_spell P O cfg fs (fuel + 1) _ line env hg hc]
  have htoks : ∀ l3, compileTokens ([{ ty := .text, line := line, source := T1 }] ++
      ([tgTok (Delims.ofList cfg.delims) nmInclude (q :: name ++ [q]) w (line + countNL T1)] ++
        [{ ty := .text, line := l3, source := T2 }])) =
      .ok ([.text line T1] ++ ([.incl (line + countNL T1) (q :: name ++ [q])] ++ [.text l3 T2])) := fun l3 =>
    compiles_append (compiles_text _ rfl) (compiles_append (compile_include _ _ _ _) (compiles_text _ rfl))
  obtain ⟨l3, e⟩ : ∃ l3, tokensOf (Delims.ofList cfg.delims) [.text T1, tg nmInclude (q :: name ++ [q]) w, .text T2] line =
      [{ ty := .text, line := line, source := T1 }] ++
      ([tgTok (Delims.ofList cfg.delims) nmInclude (q :: name ++ [q]) w (line + countNL T1)] ++
        [{ ty := .text, line := l3, source := T2 }]) := ⟨_, by rw [tokensOf, tokensOf_tg]; rfl⟩
  rw [e, htoks]
  show runRoot P O cfg fs (fuel + 1) [.text line T1, .incl (line + countNL T1) (q :: name ++ [q]), .text l3 T2] env = _
  have := runRoot_writes P O cfg fs (fuel + 1) env
    [(.text line T1, T1), (.incl (line + countNL T1) (q :: name ++ [q]), out), (.text l3 T2, T2)] (by
    intro p hp
    simp only [List.mem_cons, List.mem_nil_iff, or_false] at hp
    rcases hp with rfl | rfl | rfl
    · exact writesAt_text _ _ _ _
    · exact writesAt_include P O cfg fs fuel _ _ name env body out (string_literal_denotes q name hq hn) hfile hbody
    · exact writesAt_text _ _ _ _)
  simpa using this

/-! ## Non-vacuity, on concrete bytes -/

/-- the file `f` holds `hi {{ x }}`; the includer's `x` is visible in it -/
def c14Fs : FS := ⟨fun p => if p = [102] then .content [104, 105, 32, 123, 123, 32, 120, 32, 125, 125] else .notExist, fun _ => none⟩

example : spell Delims.default [includeItem 34 [102] Ws.std] =
    [123, 37, 32, 105, 110, 99, 108, 117, 100, 101, 32, 34, 102, 34, 32, 37, 125] := by decide

/-- `{% include "f" %}` renders whatever `hi {{ x }}` renders with the same variables, in every value layer -/
example (P : Prims) (O : OutPrims) (env : Env) (out : Bytes)
    (h : run P O {} c14Fs 0 [104, 105, 32, 123, 123, 32, 120, 32, 125, 125] 1 env = .ok out) :
    run P O {} c14Fs 1 [123, 37, 32, 105, 110, 99, 108, 117, 100, 101, 32, 34, 102, 34, 32, 37, 125] 1 env = .ok out :=
  include_source P O {} c14Fs 0 1 env 34 [102] Ws.std (.inl rfl) (by decide) (by decide) (by decide)
    [104, 105, 32, 123, 123, 32, 120, 32, 125, 125] out rfl h

/-- `a⏎{% include 'f' %}b`: the file is compiled at line 2 -/
example (P : Prims) (O : OutPrims) (env : Env) (out : Bytes)
    (h : run P O {} c14Fs 0 [104, 105, 32, 123, 123, 32, 120, 32, 125, 125] 2 env = .ok out) :
    run P O {} c14Fs 1 (spell Delims.default [.text [97, 10], includeItem 39 [102] Ws.std, .text [98]]) 1 env =
      .ok ([97, 10] ++ (out ++ [98])) :=
  include_between_texts_source P O {} c14Fs 0 1 env 39 [102] Ws.std [97, 10] [98] (.inr rfl) (by decide) (by decide) (by decide)
    [104, 105, 32, 123, 123, 32, 120, 32, 125, 125] out rfl h
