import Liquid.Std
import Proofs.C09
import Proofs.RepEqRender
import Proofs.RepEqFilters
import Proofs.RepEqSort
/-!
# C18 — output depends on a binding's Liquid value, not on its Go representation

Two layers.

* Per-operation statements (first part of the file): each operation of the value layer gives the
  same result on a value and on its re-representation (drop wrapping, pointer, typed vs generic
  container, fixed array vs slice, `[]byte` vs string, numeric width).
* The whole-template congruence (second part): `run_rep_independent` — rendering *any* template
  against environments whose bindings are representation-equivalent (`ERel`, built on the normal
  form `GoVal.norm` of `Proofs/RepEq.lean`) gives the same result, for every comparison, filter
  and output layer that respects the equivalence (`PrimsRespect`, `OutRespect`). The restrictions
  of the equivalence that the model (hence the real code) forces are recorded as `example`s.
-/

open GoVal

/-! ## Drops -/

/-- a drop is what it yields, for every lookup, truth test and integer use -/
theorem drop_unwrap (v : GoVal) : (GoVal.drop v).unwrap = v.unwrap := by simp [unwrap]
theorem drop_propertyValue (v : GoVal) (k : Bytes) : propertyValue (.drop v) k = propertyValue v k := by
  simp [propertyValue, unwrap]
theorem drop_indexValue (v i : GoVal) : indexValue (.drop v) i = indexValue v i := by simp [indexValue, unwrap]
theorem drop_as_index (v i : GoVal) : indexValue v (.drop i) = indexValue v i := by simp [indexValue, unwrap]
theorem drop_test (v : GoVal) : (GoVal.drop v).test = v.test := by simp [test, unwrap]
theorem drop_intOf (v : GoVal) : (GoVal.drop v).intOf = v.intOf := by simp [intOf, unwrap]

/-- a variable bound to a drop evaluates to the drop's value (a drop that yields a drop is resolved in turn:
    `values.ToLiquid` after `fixes/nested-drops-resolved`) -/
theorem eval_var_drop (P : Prims) (env : Env) (x : Bytes) (v : GoVal) (h : env.get x = .drop v) :
    eval P env (.var x) = .ok v.toLiquid := by
  rw [eval]; simp [h]

/-- printing a drop prints its value, whatever that value is (a drop of a drop included) -/
theorem drop_prints_as_value (v : GoVal) : stdChunks (.drop v) = writeChunksL v := by
  rw [stdChunks_eq_writeChunksL, writeChunksL_drop]

/-- a loop over a drop visits the items of its value: the collection expression is evaluated
    through `Interface()`, which resolves drops -/
theorem evaluate_resolves_drop (P : Prims) (env : Env) (e : Expr) (v : GoVal) (h : eval P env e = .ok (.drop v)) :
    evaluate P env e = .ok v.unwrap := by
  simp [evaluate, h, unwrap]

/-- a drop element inside an array prints as its value -/
theorem drop_element_prints (t : Ty) (v : GoVal) (xs : List GoVal) :
    writeChunksL (.slice t (.drop v :: xs)) = (writeChunksL v).bind fun a => (writeChunksList xs).bind fun b => .ok (a ++ b) := by
  simp [writeChunksL, writeChunksList]

/-! ## Pointers -/

/-- a pointer reached by variable or property lookup behaves as what it points to -/
theorem ptr_unwrap_int (k : IntKind) (n : Int) : (GoVal.ptr (.int k n)).unwrap = .int k n := by simp [unwrap]
theorem ptr_unwrap_str (s : Bytes) : (GoVal.ptr (.str s)).unwrap = .str s := by simp [unwrap]
theorem ptr_unwrap_slice (t : Ty) (xs : List GoVal) : (GoVal.ptr (.slice t xs)).unwrap = .slice t xs := by simp [unwrap]
theorem ptr_unwrap_map (k v : Ty) (kvs) : (GoVal.ptr (.map k v kvs)).unwrap = .map k v kvs := by simp [unwrap]
theorem nilptr_unwrap : GoVal.nilPtr.unwrap = .nil := by simp [unwrap]
theorem ptr_propertyValue_slice (t : Ty) (xs : List GoVal) (k : Bytes) :
    propertyValue (.ptr (.slice t xs)) k = propertyValue (.slice t xs) k := by simp [propertyValue, unwrap]
theorem ptr_indexValue_map (kt vt : Ty) (kvs) (i : GoVal) :
    indexValue (.ptr (.map kt vt kvs)) i = indexValue (.map kt vt kvs) i := by simp [indexValue, unwrap]

/-! ## Typed vs generic containers, fixed arrays vs slices -/

/-- lookups never look at the element type of a slice, nor at array-vs-slice -/
theorem typed_slice_index (t : Ty) (xs : List GoVal) (i : GoVal) :
    indexValue (.slice t xs) i = indexValue (.slice .any xs) i := by simp [indexValue, unwrap]
theorem array_index (t : Ty) (xs : List GoVal) (i : GoVal) :
    indexValue (.array t xs) i = indexValue (.slice .any xs) i := by simp [indexValue, unwrap]
theorem typed_slice_prop (t : Ty) (xs : List GoVal) (k : Bytes) :
    propertyValue (.slice t xs) k = propertyValue (.slice .any xs) k := by simp [propertyValue, unwrap]
theorem array_prop (t : Ty) (xs : List GoVal) (k : Bytes) :
    propertyValue (.array t xs) k = propertyValue (.slice .any xs) k := by simp [propertyValue, unwrap]
theorem typed_slice_loop (budget : Int) (t : Ty) (xs : List GoVal) : loopItems budget (.slice t xs) = loopItems budget (.slice .any xs) := rfl
theorem array_loop (budget : Int) (t : Ty) (xs : List GoVal) : loopItems budget (.array t xs) = loopItems budget (.slice .any xs) := rfl
theorem typed_slice_prints (t : Ty) (xs : List GoVal) : writeChunksL (.slice t xs) = writeChunksL (.slice .any xs) := by
  simp [writeChunksL]
theorem array_prints (t : Ty) (xs : List GoVal) : writeChunksL (.array t xs) = writeChunksL (.slice .any xs) := by
  simp [writeChunksL]

/-- a string-keyed typed map is looked up like a generic one -/
theorem typed_map_prop (vt : Ty) (kvs) (k : Bytes) :
    propertyValue (.map .str vt kvs) k = propertyValue (.map .str .any kvs) k := by simp [propertyValue, unwrap]
theorem typed_map_index (vt : Ty) (kvs) (i : GoVal) :
    indexValue (.map .str vt kvs) i = indexValue (.map .str .any kvs) i := by simp [indexValue, unwrap]
theorem typed_map_loop (budget : Int) (vt : Ty) (kvs) : loopItems budget (.map .str vt kvs) = loopItems budget (.map .str .any kvs) := rfl

/-! ## Ordered YAML maps: lookup and size as a map -/

/-- `ms["k"]` and `ms.k` find the entry with that key, as a map lookup does -/
theorem mapslice_lookup_found (k : Bytes) (v : GoVal) (rest : List (GoVal × GoVal)) :
    indexValue (.mapSlice ((.str k, v) :: rest)) (.str k) = .val v := by
  simp [indexValue, unwrap, mapSliceFind, ifaceEq]

theorem mapslice_lookup_skip (k k' : Bytes) (v : GoVal) (rest : List (GoVal × GoVal)) (h : k' ≠ k) :
    indexValue (.mapSlice ((.str k', v) :: rest)) (.str k) = indexValue (.mapSlice rest) (.str k) := by
  have : (k == k') = false := by simp [Ne.symm h]
  simp [indexValue, unwrap, mapSliceFind, ifaceEq, this]

theorem mapslice_size (kvs : List (GoVal × GoVal)) (h : mapSliceFind kvs (.str sizeKey) = .val .nil) :
    propertyValue (.mapSlice kvs) sizeKey = .val (.int .int kvs.length) := by
  simp [propertyValue, unwrap, h]

/-! ## `[]byte` prints as the string -/

theorem bytes_print (s : Bytes) : stdChunks (.bytes s) = stdChunks (.str s) := by
  simp [stdChunks, GoVal.toLiquid, writeChunksL, writeObjectL, sprint, Res.bind]

/-! ## Numeric width -/

/-- integers of every width print by numeric value -/
theorem int_width_prints (k k' : IntKind) (n : Int) : sprint (.int k n) = sprint (.int k' n) := by
  simp [sprint]

/-- integers of every width compare by numeric value (C09 `equal_num`, `less_num`) and are truthy alike -/
theorem int_width_truthy (k : IntKind) (n : Int) : (GoVal.int k n).test = true := by simp [test, unwrap]

/-! Non-vacuity -/
example : (GoVal.drop (.drop (.ptr (.str [97])))).unwrap = .str [97] := by simp [unwrap]


/-! # The whole-template congruence

`RepEq d a b` (`Proofs/RepEq.lean`): `a` and `b` have the same normal form — typed slices and
fixed arrays are generic slices, typed maps are generic maps with the same key type (at every
depth), and with `d = true` a drop inside a container is the value it yields.
`VRel d a b := RepEq d a.unwrap b.unwrap`: values at the top of an expression are compared through
`ValueOf(·).Interface()` (drops of every depth resolved, pointers followed, a nil pointer is nil).
`ERel d a b`: bindings; `VRel`, and the renderer's own `forloop` record is related to itself only.
-/

/-- **C18, whole template, parametric in the value layer.** For every comparison/filter layer `P`
and output layer `O` that respect representation equivalence (`PrimsRespect`, `OutRespect`: related
operands compare alike, related filter inputs give related results, related values print alike),
every configuration, file system, include depth, template source and start line: rendering
against two environments whose bindings are pointwise representation-equivalent gives the same
result — the same output bytes or the same error. Proved by the mutual induction over the compiled
tree (`rel_renderNode`, `Proofs/RepEqRender.lean`) on the two runs in lock step: the same write
calls, related variable maps (assign, capture, loop variables, `forloop`, cycle counters), the same
include results. -/
theorem run_rep_independent (d : Bool) (P : Prims) (O : OutPrims) (hP : PrimsRespect false d P) (hO : OutRespect false d O)
    (cfg : Cfg) (fs : FS) (fuel : Nat) (src : Bytes) (line : Nat) (env env' : Env)
    (he : ∀ x, ERel d (env.get x) (env'.get x)) :
    run P O cfg fs fuel src line env = run P O cfg fs fuel src line env' :=
  (run_rel P O cfg fs fuel hP hO src line he).eq

/-- The same up to the boundary of the model: the layers need to respect the equivalence only up
to `unmodelled` results, and the two results agree (`RunAgree true`: equal, or one of them is
`unmodelled`). This is the form the standard configuration satisfies. -/
theorem run_rep_independent_upto_unmodelled (d : Bool) (P : Prims) (O : OutPrims) (hP : PrimsRespect true d P)
    (hO : OutRespect true d O) (cfg : Cfg) (fs : FS) (fuel : Nat) (src : Bytes) (line : Nat) (env env' : Env)
    (he : ∀ x, ERel d (env.get x) (env'.get x)) :
    RunAgree true (run P O cfg fs fuel src line env) (run P O cfg fs fuel src line env') :=
  run_rel P O cfg fs fuel hP hO src line he

/-- representation-equivalent values are related bindings -/
theorem binding_related_of_repEq {d : Bool} {a b : GoVal} (h : RepEq d a b) : ERel d a b := h.erel

/-- a binding may in addition be a pointer to a related value (not to a struct) or a drop of any depth -/
theorem binding_related_of_unwrap {d : Bool} {a b : GoVal} (h : RepEq d a.unwrap b.unwrap)
    (ha : isRec a = false) (hb : isRec b = false) : ERel d a b :=
  ⟨h, fun hr => by rcases hr with hr | hr <;> simp_all⟩

/-- a nil pointer binding is a nil binding -/
theorem binding_nilPtr_nil (d : Bool) : ERel d .nilPtr .nil :=
  binding_related_of_unwrap (by simp [unwrap, RepEq.refl]) (by simp [isRec, cyclesOf]) (by simp [isRec, cyclesOf])

/-! Non-vacuity: concrete related bindings, and layers that satisfy the hypotheses. -/

/-- a drop of a typed slice holding a drop ~ the generic slice of the values -/
example : RepEq true (.drop (.slice (.int .int) [.int .int 1, .drop (.int .int 2)])) (.slice .any [.int .int 1, .int .int 2]) := by
  simp [RepEq, norm, normList, dropRigid, isRec, cyclesOf]

/-- a typed map of typed arrays ~ the generic map whose value is a drop of a generic slice -/
example : RepEq true (.map .str (.slice .str) [(.str [97], .array .str [.str [98]])])
    (.map .str .any [(.str [97], .drop (.slice .any [.str [98]]))]) := by
  simp [RepEq, norm, normList, normKVs, dropRigid, isRec, cyclesOf]

/-- a binding that is a pointer to a drop of a typed slice ~ the generic slice (also with `d = false`) -/
example : ERel false (.ptr (.drop (.slice (.int .int) [.int .int 1]))) (.slice .any [.int .int 1]) :=
  binding_related_of_unwrap (by simp [RepEq, unwrap, norm, normList]) (by simp [isRec, cyclesOf]) (by simp [isRec, cyclesOf])

/-- layers that satisfy the hypotheses: comparison by a constant, the identity filter, no output -/
example : PrimsRespect false true
    { equal := fun _ _ => .ok true, less := fun _ _ => .ok false, contains := fun _ _ => .ok false,
      equalFn := fun _ _ => .ok true, applyFilter := fun _ r _ => .ok r, hasFilter := fun _ => true } :=
  { equal := fun _ _ _ _ _ _ => rfl, less := fun _ _ _ _ _ _ => rfl, contains := fun _ _ _ _ _ _ => rfl,
    equalFn := fun _ _ _ _ _ _ => rfl, applyFilter := fun _ _ _ _ _ hr _ => hr.2.2.vrel }

example : OutRespect false true { chunks := fun _ => .ok [] } := { chunks := fun _ _ _ => rfl }

/-- the hypothesis on the environments, on an environment binding `x` to a drop of a typed slice
    and one binding it to the generic slice -/
example : ∀ y, ERel true (Env.get [([120], .drop (.slice (.int .int) [.int .int 1]))] y)
    (Env.get [([120], .slice .any [.int .int 1])] y) := by
  intro y
  by_cases h : y = [120]
  · subst h
    exact binding_related_of_repEq (by simp [Env.get, RepEq, norm, normList, dropRigid, isRec, cyclesOf])
  · have : ([120] == y) = false := by simp [Ne.symm h]
    simp [Env.get, List.find?, this, ERel.refl]

/-! ## Restrictions of the equivalence forced by the model (each with its counterexample) -/

/-- *Integer width is not forgotten*: as an index only a Go `int` (or a float) selects an element
(`arrayValue.IndexValue` switches on `int`, `float32`, `float64`); the same for the bounds of a
range and for `limit`/`offset`/`cols` (`Value.Int()`). Template `{{ a[i] }}` with
`a = []any{"x"}`, `i = int64(0)` prints nothing, with `i = int(0)` it prints `x`. -/
example : indexValue (.slice .any [.str [120]]) (.int .i64 0) = .val .nil ∧
    indexValue (.slice .any [.str [120]]) (.int .int 0) = .val (.str [120]) := by
  constructor <;> simp [indexValue, unwrap, indexValue.indexList]

example : intOf (.int .i64 3) = none ∧ intOf (.int .int 3) = some 3 := by
  constructor <;> simp [intOf, unwrap]

/-- *The renderer's `forloop` record is rigid*: the `cycle` tag recognises the record by the Go
type of its counter map (`cycleCounters`, unexported: no binding can have it), so a drop around
such a record is not the record. (A model-only restriction: not realisable from Go.) -/
example : (cyclesOf (.drop (forloopRec 0 1 []))).isSome = false ∧ (cyclesOf (forloopRec 0 1 [])).isSome = true := by
  constructor <;> simp [cyclesOf, forloopRec, dotCycles]

/-- *Pointers are followed at the top only*: a pointer nested in a container is not its pointee
(`{{ m }}` prints an address, `m.a` follows it), so `norm` keeps pointers and only `unwrap`
(bindings, results of expressions) resolves them. -/
example : sprint (.ptr (.int .int 1)) = .unmodelled "fmt: a pointer prints as an address" ∧
    sprint (.int .int 1) = .ok [49] := by
  constructor
  · simp [sprint]
  · rfl


/-! # The standard configuration

With `d = false` the equivalence relates typed slices, fixed arrays and typed maps with the
generic containers of the same contents at every depth, and — through `unwrap` — a binding that is
a drop (of any depth) or a pointer (not to a struct) with the value it stands for. For this
relation the standard output layer (`stdOut_respects`), the standard comparisons
(`opEq_prep_vrel`, `opLt_prep_vrel`, `opContains_prep_vrel`, `equal_prep_repEq`) and every standard
filter except those that observe the Go representation (`reprFilters`: the value/debugging
filters `json`, `inspect`, `type`; `uniq` was one of them until `fixes/nested-drops-resolved`: `uniq_respects`)
respect it (`filterRespects_std`: exactly, all but `sort`,
`sort_natural` and `reprFilters`; `filterRespects_std_upto`: up to `unmodelled`, all but `reprFilters`). Drops *inside*
containers (`d = true`) are covered as well — the output layer, the comparisons and every filter but `sort_natural`
(not done) and `reprFilters`: the last part of this file, `run_std_rep_independent_nested_drops`. -/

/-- **C18 for the standard configuration** (partial). `allowed` says which filters are registered
on the engine (`stdPrimsOnly allowed`; with `fun _ => true` it is `stdPrims`). Rendering any
template against environments whose bindings are representation-equivalent (`ERel false`) gives
results that agree (`RunAgree true`: the same output or the same error, or one of the two runs is
outside the model).

Full statement wanted: the same for `stdPrims`, with equal results, for `ERel true`. What is missing,
and why (each with an evaluated counterexample below):
* `hrepr` — `json`, `inspect` and `type` must not be registered: they do *not* respect the
  equivalence (`type` prints the Go type; `json`/`inspect` marshal the Go value: a `[]uint8` is
  base64 text, a `map[any]any` is rejected); `uniq` may be registered since `fixes/nested-drops-resolved`
  (it compared elements by Go interface equality, which saw the element type of a nested slice);
* "agree" instead of "equal": a fixed-array needle against an ordered map with a fixed-array key is
  `unmodelled` (`comparableV`) while the generic slice gives `false`; `sort`/`sort_natural` answer
  `unmodelled` for more than 12 elements with ties that differ in their encoding (up to 12 elements —
  Go's insertion sort, modelled exactly — they respect the equivalence exactly:
  `sortWith_rel_short`, `sortNaturalWith_rel_short`);
* `d = false`: for `ERel true` (drops nested in containers) see `run_std_rep_independent_nested_drops` at the end of
  this file: the same statement, without `sort_natural` in addition (its congruence is proved for `d = false` only). -/
theorem run_std_rep_independent_partial (allowed : Bytes → Bool) (hrepr : ∀ n ∈ reprFilters, allowed n = false)
    (cfg : Cfg) (fs : FS) (fuel : Nat) (src : Bytes) (line : Nat) (env env' : Env)
    (he : ∀ x, ERel false (env.get x) (env'.get x)) :
    RunAgree true (run (stdPrimsOnly allowed) stdOut cfg fs fuel src line env)
      (run (stdPrimsOnly allowed) stdOut cfg fs fuel src line env') := by
  refine run_rel _ _ cfg fs fuel (stdPrimsOnly_respects allowed ?_) (stdOut_respects true false) src line he
  intro n _ ha
  refine filterRespects_std_upto n (fun hn => ?_)
  rw [hrepr n hn] at ha
  cases ha

/-- **C18 for the standard engine without `json`, `inspect`, `type`** (the filters that observe
the Go representation; `uniq` is on the engine since `fixes/nested-drops-resolved`): no hypothesis left. Every template, every file system and include depth:
environments that differ in typed vs generic slices, fixed arrays vs slices, typed vs generic maps
(at any depth), and in drops and pointers around a binding, render to agreeing results. -/
theorem run_std_rep_independent_without_repr_filters (cfg : Cfg) (fs : FS) (fuel : Nat) (src : Bytes) (line : Nat) (env env' : Env)
    (he : ∀ x, ERel false (env.get x) (env'.get x)) :
    RunAgree true (run (stdPrimsOnly withoutRepr) stdOut cfg fs fuel src line env)
      (run (stdPrimsOnly withoutRepr) stdOut cfg fs fuel src line env') :=
  run_std_rep_independent_partial withoutRepr (fun n hn => by simp [withoutRepr, hn]) cfg fs fuel src line env env' he

/-- `uniq` is covered by the theorem: it respects the equivalence (it is not a `reprFilter` any more) -/
example : FilterRespects true false (ArrF.bn "uniq") := filterRespects_std_upto _ (by decide +kernel)
example : withoutRepr (ArrF.bn "uniq") = true := by decide +kernel

/-- the output layer respects the equivalence exactly (no `unmodelled` escape) -/
example (v v' : GoVal) (h : URel false v v') : stdOut.chunks v = stdOut.chunks v' :=
  ((stdOut_respects false false).chunks v v' h).eq

/-- the hypotheses on the environments are satisfiable: `x` bound to a drop of a pointer to a typed
    slice of fixed arrays, against the generic slice of generic slices -/
example : ∀ y, ERel false
    (Env.get [([120], .drop (.ptr (.slice (.arr (.int .int)) [.array (.int .int) [.int .int 1]])))] y)
    (Env.get [([120], .slice .any [.slice .any [.int .int 1]])] y) := by
  intro y
  by_cases h : y = [120]
  · subst h
    exact binding_related_of_unwrap (by simp [Env.get, RepEq, unwrap, norm, normList])
      (by simp [Env.get, isRec, cyclesOf]) (by simp [Env.get, isRec, cyclesOf])
  · have : ([120] == y) = false := by simp [Ne.symm h]
    simp [Env.get, List.find?, this, ERel.refl]

/-- a filter with scalar parameters (`append`: `string, string`) respects the equivalence
    whatever its body -/
example : FilterRespects false false (ArrF.bn "append") :=
  filterRespects_of_scalar false false _ (fun sg h => by
    have : lookupSig (ArrF.bn "append") = some ⟨ArrF.bn "append", [.val .str, .val .str], false⟩ := by decide +kernel
    rw [this] at h; cases h; rfl)

/-! ## What the standard configuration forces (counterexamples; each is a place where the real
code distinguishes representations that C18 declares equivalent — each was also run on the real
engine of /repo with the template and the two bindings named in its comment, with the two
different results stated) -/

/-- *`type` prints the Go type.* Template `{{ a | type }}` with `a = []int{1}` prints `[]int`, with
`a = []any{1}` it prints `[]interface {}` — the purpose of the filter. -/
example : (match stdPrims.applyFilter (JsonF.bn "type") (.slice (.int .int) [.int .int 1]) [],
                 stdPrims.applyFilter (JsonF.bn "type") (.slice .any [.int .int 1]) [] with
    | .ok (.str a), .ok (.str b) => a == JsonF.bn "[]int" && b == JsonF.bn "[]interface {}"
    | _, _ => false) = true := by
  decide +kernel

/-- *`json` (and `inspect`) marshal the Go value.* Template `{{ a | json }}` with `a = []uint8{1}`
(a `[]byte`) prints `"AQ=="`, with `a = []any{uint8(1)}` it prints `[1]`; with `m = map[any]any{"a": 1}`
it prints nothing (`json.Marshal` rejects the map type), with `m = map[string]any{"a": 1}` it prints `{"a":1}`. -/
example : (match stdPrims.applyFilter (JsonF.bn "json") (.slice (.int .u8) [.int .u8 1]) [],
                 stdPrims.applyFilter (JsonF.bn "json") (.slice .any [.int .u8 1]) [],
                 stdPrims.applyFilter (JsonF.bn "json") (.map .any .any [(.str [97], .int .int 1)]) [],
                 stdPrims.applyFilter (JsonF.bn "json") (.map .str .any [(.str [97], .int .int 1)]) [] with
    | .ok (.str a), .ok (.str b), .ok (.str c), .ok (.str d) =>
      a == [34, 65, 81, 61, 61, 34] && b == [91, 49, 93] && c == [] && d == [123, 34, 97, 34, 58, 49, 125]
    | _, _, _, _ => false) = true := by
  decide +kernel

/-- *A fixed array is comparable in Go, a slice is not.* `m contains x` for an ordered map `m` with
the key `[1]int{1}`: with `x = [1]int{1}` the model makes no claim (`==` on arrays: `unmodelled`; in
Go the comparison succeeds), with `x = []int{1}` it is false. Hence "agree" (`RunAgree true`). -/
example : stdPrims.contains (.mapSlice [(.array (.int .int) [.int .int 1], .nil)]) (.array (.int .int) [.int .int 1])
      = .unmodelled "comparability of an array value" ∧
    stdPrims.contains (.mapSlice [(.array (.int .int) [.int .int 1], .nil)]) (.slice (.int .int) [.int .int 1]) = .ok false := by
  decide +kernel

/-! ## Drops nested in containers (`d = true`): the standard OUTPUT layer respects them

Since `fixes/nested-drops-resolved` the printing side of the whole-template theorem holds for the relation WITH
drops nested in containers: `stdOut_respects t true` (`Proofs/RepEqStd.lean`; `writeChunksL_norm`, `sprintR_norm`
for every `d`). The comparison/filter layer with `d = true` follows at the end of this file
(`stdPrims_respect_nested_drops`, `run_std_rep_independent_nested_drops`). -/

/-- **C18 with nested drops, standard printing.** For every comparison/filter layer that respects the
equivalence with drops nested in containers, the STANDARD output layer (`writeObject`: arrays element by element,
maps and structs through `fmt.Sprint(values.ResolveDrops(·))`) and every template: two environments whose bindings
differ in typed vs generic containers and in drops at ANY depth of arrays and maps render to the same result. -/
theorem run_stdOut_rep_independent_nested_drops (P : Prims) (hP : PrimsRespect false true P)
    (cfg : Cfg) (fs : FS) (fuel : Nat) (src : Bytes) (line : Nat) (env env' : Env)
    (he : ∀ x, ERel true (env.get x) (env'.get x)) :
    run P stdOut cfg fs fuel src line env = run P stdOut cfg fs fuel src line env' :=
  run_rep_independent true P stdOut hP (stdOut_respects false true) cfg fs fuel src line env env' he

/-- the standard output layer writes a value with drops nested at every depth (in an array in a map in an array,
    a drop of a drop) exactly as its generic twin -/
example : stdOut.chunks (.slice (.map .str .any) [.map .str .any [(.str [97], .drop (.slice (.int .int) [.drop (.drop (.int .int 1))]))]])
    = stdOut.chunks (.slice .any [.map .str .any [(.str [97], .slice .any [.int .int 1])]]) :=
  ((stdOut_respects false true).chunks _ _ ⟨by simp [Unw, unwrap], by simp [Unw, unwrap],
    by simp [RepEq, norm, normList, normKVs, dropRigid, isRec, cyclesOf]⟩).eq

/-! ## The four deviations repaired by `fixes/nested-drops-resolved` (DESIGN 7.1b)

Each was a proved counterexample here (the two renders differ); each is now the opposite statement, evaluated on
the same template and the same two bindings. -/

/-- *`uniq` no longer sees the element type of nested slices.* Template `{{ a | uniq | size }}` with
`a = []any{[]int{1}, []any{1}}` gives 1, as with `a = []any{[]any{1}, []any{1}}` (it gave 2): `eqItems` compares
arrays by what they hold. -/
theorem uniq_typed_nested_slice_repaired :
    lenOfRes (stdPrims.applyFilter (ArrF.bn "uniq") (.slice .any [.slice (.int .int) [.int .int 1], .slice .any [.int .int 1]]) []) = 1 ∧
    lenOfRes (stdPrims.applyFilter (ArrF.bn "uniq") (.slice .any [.slice .any [.int .int 1], .slice .any [.int .int 1]]) []) = 1 := by
  decide +kernel

/-- *A drop inside a map that is printed whole is its value.* Template `{{ m }}` with
`m = map[string]any{"a": Drop{1}}` prints `map[a:1]`, as with `m = map[string]any{"a": 1}` (it printed
`map[a:{1}]`): `writeObject` prints `fmt.Sprint(values.ResolveDrops(m))`. -/
theorem drop_in_printed_map_repaired :
    stdChunks (.map .str .any [(.str [97], .drop (.int .int 1))]) = .ok [[109, 97, 112, 91, 97, 58, 49, 93]] ∧
    stdChunks (.map .str .any [(.str [97], .int .int 1)]) = .ok [[109, 97, 112, 91, 97, 58, 49, 93]] := by
  decide +kernel

/-- *A string filter applied to an array sees the values of the drops in it.* Template `{{ a | append: "" }}`
with `a = []any{Drop{1}}` gives `[1]`, as with `a = []any{1}` (it gave `[{1}]`): `Convert(·, string)` is
`fmt.Sprint(values.ResolveDrops(a))`. -/
theorem drop_in_array_to_string_repaired :
    strOfRes (stdPrims.applyFilter (ArrF.bn "append") (.slice .any [.drop (.int .int 1)]) [.str []]) = [91, 49, 93] ∧
    strOfRes (stdPrims.applyFilter (ArrF.bn "append") (.slice .any [.int .int 1]) [.str []]) = [91, 49, 93] := by
  decide +kernel

/-- *A drop that yields a drop, inside an array, is its final value for `values.Equal`.* Template
`{% case a %}{% when b %}eq{% endcase %}` with `a = []any{DropOf(DropOf(1))}`, `b = []any{1}` prints `eq`, as with
`a = []any{1}` (it did not): `ToLiquid` follows the chain of drops. -/
theorem drop_of_drop_in_array_equal_repaired :
    stdPrims.equalFn (.slice .any [.drop (.drop (.int .int 1))]) (.slice .any [.int .int 1]) = .ok true ∧
    stdPrims.equalFn (.slice .any [.int .int 1]) (.slice .any [.int .int 1]) = .ok true := by
  decide +kernel

/-- deeper: a drop of a drop of a drop in a map in an array in a map prints as the value it finally yields,
    under `{{ m }}` and under `{{ m | append: "" }}` -/
example :
    stdChunks (.map .str .any [(.str [97], .slice .any [.map .str .any [(.str [98], .drop (.drop (.drop (.int .int 1))))]])])
      = .ok [[109, 97, 112, 91, 97, 58, 91, 109, 97, 112, 91, 98, 58, 49, 93, 93, 93]] ∧
    stdChunks (.map .str .any [(.str [97], .slice .any [.map .str .any [(.str [98], .int .int 1)]])])
      = .ok [[109, 97, 112, 91, 97, 58, 91, 109, 97, 112, 91, 98, 58, 49, 93, 93, 93]] ∧
    strOfRes (stdPrims.applyFilter (ArrF.bn "append") (.map .str .any [(.str [97], .slice .any [.drop (.map .str .any [(.str [98], .drop (.int .int 1))])])]) [.str []])
      = [109, 97, 112, 91, 97, 58, 91, 109, 97, 112, 91, 98, 58, 49, 93, 93, 93] := by
  decide +kernel


/-! ## Drops nested in containers (`d = true`): the standard comparison and filter layer

Operation by operation (each decided on the model and on the real engine of /repo with a drop inside an array or a
map against the value it yields):

* `==`, `!=`, `<`, `>`, `<=`, `>=`, `contains`, `case`/`when`: respect nested drops — `values.Equal` applies `ToLiquid`
  (which follows a chain of drops) to both operands at every depth (`Cmp.equalAux_pn_left/right`, `Cmp.opEq_prep_vrel`,
  `Cmp.equal_prep_repEq`), `Less` orders scalars only (`Cmp.opLt_prep_vrel`), an array `contains` by `Equal`, a map
  by its keys (`Cmp.opContains_prep_vrel`; a string haystack with a container needle is outside the model on both sides);
* `and`/`or`/truth tests, `a[i]`, `a.first`/`last`/`size`, `m.k`, `m[k]`, the items of a loop over an array or a map,
  ranges and loop modifiers: respect them — the result of a lookup may BE a drop, and the next use resolves it
  (`test_rel`, `indexValue_rel`, `propertyValue_rel`, `loopItems_unw_rel`, `intOf_rel`: all for every `d`);
* the filters `first`, `last`, `reverse`, `compact`, `concat`, `uniq`, `join`, `map`, `size`, `default`, `divided_by`
  and every filter with scalar parameters only (the string, number and date filters: `Convert` to string prints
  `fmt.Sprint(values.ResolveDrops(·))`): respect them (`filterRespects_std t true`). `Convert` to `[]any` passes every
  element through `ToLiquid` (`convElems_noDrops`), so a drop that yields nil IS nil for `compact` and `join`;
* `sort` and `sort: key` respect them since `fixes/sort-key-drops` (`ArrF.sort_respects d`, up to the `unmodelled` tie
  order beyond 12 elements): `Less` compares through `ToLiquid`; `sortableByProperty.Less` now passes the entry
  `m[key]` through `ToLiquid` BEFORE its nil test, and the name of the key is `fmt.Sprint(values.ResolveDrops(key))`.
  Before that repair `sort: key` did NOT (a drop that yields nil was not sorted first; a key that is an array holding a
  drop printed the drop's Go struct) and `sort_natural: key` did not either (the same name); the three former
  counterexamples are theorems of the opposite statement below;
* `sort_natural` and `sort_natural: key` respect them (`ArrF.sortNatural_respects_gen d`, up to the `unmodelled` tie order
  beyond 12 elements): `sortNaturalFilter` looks at its elements as they are (`v == nil`, `reflect.ValueOf(m)`), and the
  elements of its `[]any` parameter went through `ToLiquid` in `Convert` (an element that is a drop of a string, a drop of
  a drop, a drop that yields nil IS that value there: `ArrF.NLD` carries "no element is a drop" through the insertion
  sort and the decoration); the sort text is `fmt.Sprint(values.ResolveDrops(v))` (`ArrF.natKey_repEq_noDrop`), with a
  key it is the entry `m[key]` passed through `ToLiquid` before the string test (`ArrF.natKeyBy_repEq_noDrop`), and the
  name of the key is `fmt.Sprint(values.ResolveDrops(key))`. Run on the real engine of /repo (1b08585) with elements
  that are drops of strings, drops of drops, drops that yield nil, maps whose entry under the key is a drop / a drop of a
  drop / `Drop(nil)`, mixed with plain strings and nil, 3 to 20 elements: every render equals the render of the generic
  twin (rows `sort-natural-*` of `repsNestedDropFamily`, harness/stream_reps.go);
* `json`, `inspect`, `type` print the Go representation by design: they are the only filters left out (`nestedDropsOpen`,
  the same list as `reprFilters` of the `d = false` theorem `run_std_rep_independent_without_repr_filters`). -/

/-- *The standard comparison and filter layer respects drops nested in containers*, on an engine without
`json`, `inspect`, `type` (`nestedDropsOpen` = `reprFilters`; `sort_natural` is on it): related operands (`VRel true`: the same Liquid value, any Go
representation, drops at any depth) compare alike under `==`, `<`, `contains` and `case`/`when`, and related filter
inputs give related results — up to `unmodelled` results (`t = true`). -/
theorem stdPrims_respect_nested_drops (allowed : Bytes → Bool) (hopen : ∀ n ∈ nestedDropsOpen, allowed n = false) :
    PrimsRespect true true (stdPrimsOnly allowed) :=
  stdPrimsOnly_respects allowed (fun n _ ha => filterRespects_std_nested n (fun hn => by
    rw [hopen n hn] at ha; cases ha))

/-- every standard filter except `sort`, `sort_natural`, `json`, `inspect`, `type` respects nested drops exactly
    (no `unmodelled` escape), whatever name is asked for -/
theorem std_filter_respects_nested_drops (name : Bytes) (h : name ∉ openFilters) : FilterRespects false true name :=
  filterRespects_std false true name h

/-- **C18 for the standard configuration with drops nested in containers** (partial: `allowed` must exclude
`nestedDropsOpen` = `json`, `inspect`, `type`). Full statement wanted: the same for `stdPrims` (every filter registered).
What is missing, and why — the same and only exclusion as in the theorem without nested drops
(`run_std_rep_independent_without_repr_filters`):
* `json`, `inspect`, `type` observe the Go representation (counterexamples above; `{{ m | json }}` with
  `m = {"a": Drop(1)}` is `{"a":{}}`). -/
theorem run_std_rep_independent_nested_drops_partial (allowed : Bytes → Bool) (hopen : ∀ n ∈ nestedDropsOpen, allowed n = false)
    (cfg : Cfg) (fs : FS) (fuel : Nat) (src : Bytes) (line : Nat) (env env' : Env)
    (he : ∀ x, ERel true (env.get x) (env'.get x)) :
    RunAgree true (run (stdPrimsOnly allowed) stdOut cfg fs fuel src line env)
      (run (stdPrimsOnly allowed) stdOut cfg fs fuel src line env') :=
  run_rel _ _ cfg fs fuel (stdPrims_respect_nested_drops allowed hopen) (stdOut_respects true true) src line he

/-- **C18 with nested drops, for the standard engine without `json`, `inspect`, `type`**
(`withoutNestedOpen`, the engine of `run_std_rep_independent_without_repr_filters`: `withoutNestedOpen_eq_withoutRepr`;
`sort`, `sort_natural` and every other standard filter are on it): no hypothesis left. Every template, every configuration, file system and include depth: two
environments whose bindings have the same Liquid values in any Go representation — typed or generic slices and maps,
fixed arrays, drops (and drops that yield drops) at ANY depth of arrays and maps, drops and pointers around a binding
— render to agreeing results (`RunAgree true`: the same output or the same error, or one of the two runs is outside
the model). -/
theorem run_std_rep_independent_nested_drops (cfg : Cfg) (fs : FS) (fuel : Nat) (src : Bytes) (line : Nat) (env env' : Env)
    (he : ∀ x, ERel true (env.get x) (env'.get x)) :
    RunAgree true (run (stdPrimsOnly withoutNestedOpen) stdOut cfg fs fuel src line env)
      (run (stdPrimsOnly withoutNestedOpen) stdOut cfg fs fuel src line env') :=
  run_std_rep_independent_nested_drops_partial withoutNestedOpen (fun n hn => by simp [withoutNestedOpen, hn]) cfg fs fuel src line env env' he

/-- the same with the hypothesis spelled on values: bindings related by `VRel true`, none of them the renderer's own
    `forloop` record (which no caller can build) -/
theorem run_std_rep_independent_nested_drops_vrel (cfg : Cfg) (fs : FS) (fuel : Nat) (src : Bytes) (line : Nat) (env env' : Env)
    (he : ∀ x, VRel true (env.get x) (env'.get x)) (hr : ∀ x, isRec (env.get x) = false) (hr' : ∀ x, isRec (env'.get x) = false) :
    RunAgree true (run (stdPrimsOnly withoutNestedOpen) stdOut cfg fs fuel src line env)
      (run (stdPrimsOnly withoutNestedOpen) stdOut cfg fs fuel src line env') :=
  run_std_rep_independent_nested_drops cfg fs fuel src line env env'
    (fun x => binding_related_of_unwrap (he x) (hr x) (hr' x))

/-- **The same on the engine of `run_std_rep_independent_without_repr_filters`, spelled with its name** (`withoutRepr`: the
standard engine without `json`, `inspect`, `type`): what that theorem says for typed against generic containers and
wrappers around a binding (`ERel false`) holds as well for drops at ANY depth of arrays and maps (`ERel true`) — with
`sort`, `sort_natural` and every other standard filter registered. -/
theorem run_std_rep_independent_nested_drops_without_repr_filters (cfg : Cfg) (fs : FS) (fuel : Nat) (src : Bytes) (line : Nat)
    (env env' : Env) (he : ∀ x, ERel true (env.get x) (env'.get x)) :
    RunAgree true (run (stdPrimsOnly withoutRepr) stdOut cfg fs fuel src line env)
      (run (stdPrimsOnly withoutRepr) stdOut cfg fs fuel src line env') :=
  withoutNestedOpen_eq_withoutRepr ▸ run_std_rep_independent_nested_drops cfg fs fuel src line env env' he

/-- `sort_natural` respects drops nested in containers, as a statement about the filter alone (every name spelling,
    without key, with a string key, with any key argument): related receivers and arguments (`VRel true`) give related
    results, up to the `unmodelled` tie order beyond 12 elements -/
theorem sort_natural_respects_nested_drops : FilterRespects true true (ArrF.bn "sort_natural") :=
  filterRespects_std_nested _ (by decide +kernel)

/-- `sort`, `sort_natural`, `uniq`, `compact`, `join`, `map`, `first` are on that engine; `json`, `inspect`, `type` are not -/
example : withoutNestedOpen (ArrF.bn "sort") = true ∧ withoutNestedOpen (ArrF.bn "uniq") = true ∧
    withoutNestedOpen (ArrF.bn "compact") = true ∧ withoutNestedOpen (ArrF.bn "join") = true ∧
    withoutNestedOpen (ArrF.bn "map") = true ∧ withoutNestedOpen (ArrF.bn "first") = true ∧
    withoutNestedOpen (ArrF.bn "sort_natural") = true ∧ withoutNestedOpen (JsonF.bn "json") = false ∧
    withoutNestedOpen (JsonF.bn "inspect") = false ∧ withoutNestedOpen (JsonF.bn "type") = false := by
  decide +kernel

/-- a concrete instance: `m` is a map holding a typed array that holds a drop of a drop — against the generic map of
    the generic array of the value —, template `{{ m.a | join }}{% if m.a contains 1 %}y{% endif %}` -/
example (cfg : Cfg) (fs : FS) (fuel : Nat) :
    RunAgree true
      (run (stdPrimsOnly withoutNestedOpen) stdOut cfg fs fuel
        [123, 123, 32, 109, 46, 97, 32, 124, 32, 106, 111, 105, 110, 32, 125, 125, 123, 37, 32, 105, 102, 32, 109, 46, 97, 32, 99, 111, 110, 116, 97, 105, 110, 115, 32, 49, 32, 37, 125, 121, 123, 37, 32, 101, 110, 100, 105, 102, 32, 37, 125] 1
        [([109], .map .str (.slice .any) [(.str [97], .array .any [.drop (.drop (.int .int 1)), .int .i8 2])])])
      (run (stdPrimsOnly withoutNestedOpen) stdOut cfg fs fuel
        [123, 123, 32, 109, 46, 97, 32, 124, 32, 106, 111, 105, 110, 32, 125, 125, 123, 37, 32, 105, 102, 32, 109, 46, 97, 32, 99, 111, 110, 116, 97, 105, 110, 115, 32, 49, 32, 37, 125, 121, 123, 37, 32, 101, 110, 100, 105, 102, 32, 37, 125] 1
        [([109], .map .str .any [(.str [97], .slice .any [.int .int 1, .int .i8 2])])]) := by
  refine run_std_rep_independent_nested_drops cfg fs fuel _ 1 _ _ (fun y => ?_)
  by_cases h : y = [109]
  · subst h
    exact binding_related_of_repEq (by simp [Env.get, RepEq, norm, normList, normKVs, dropRigid, isRec, cyclesOf])
  · have : ([109] == y) = false := by simp [Ne.symm h]
    simp [Env.get, List.find?, this, ERel.refl]

/-- the comparison layer on values with nested drops: `==` through a drop of a drop in an array in a map, `contains`
    with an array needle that holds a drop, `compact` of an array holding a drop that yields nil -/
example :
    stdPrims.equal (.map .str .any [(.str [97], .slice .any [.drop (.drop (.int .int 1))])])
        (.map .str .any [(.str [97], .slice (.int .int) [.int .int 1])]) = .ok true ∧
    stdPrims.contains (.slice .any [.slice .any [.int .int 1]]) (.slice .any [.drop (.int .int 1)]) = .ok true ∧
    lenOfRes (stdPrims.applyFilter (ArrF.bn "compact") (.slice .any [.int .int 1, .drop .nil, .int .int 2]) []) = 2 := by
  decide +kernel

/-! ### `sort: key` and `sort_natural: key`: the two deviations repaired by `fixes/sort-key-drops` (DESIGN 7.1c)

Each was an evaluated counterexample here (the two renders differ, confirmed on the real engine of e3953ba); each is
now the opposite statement, evaluated on the same template and the same two bindings. -/

/-- *`sort` by a key: an entry that is a drop yielding nil is nil.* Template `{{ a | sort: "k" | map: "n" | join }}` with
`a = [{"k": 1, "n": "x"}, {"k": Drop(nil), "n": "y"}]` renders `y x` (nil first), as with `{"k": nil, "n": "y"}` (it
rendered `x y`): `sortableByProperty.Less` passes the entry through `ToLiquid` before the nil test. -/
theorem sort_key_drop_nil_repaired :
    strOfRes ((stdPrims.applyFilter (ArrF.bn "sort") (.slice .any [
        .map .str .any [(.str [107], .int .int 1), (.str [110], .str [120])],
        .map .str .any [(.str [107], .drop .nil), (.str [110], .str [121])]]) [.str [107]]).bind fun s =>
      (stdPrims.applyFilter (ArrF.bn "map") s [.str [110]]).bind fun m => stdPrims.applyFilter (ArrF.bn "join") m [])
      = [121, 32, 120] ∧
    strOfRes ((stdPrims.applyFilter (ArrF.bn "sort") (.slice .any [
        .map .str .any [(.str [107], .int .int 1), (.str [110], .str [120])],
        .map .str .any [(.str [107], .nil), (.str [110], .str [121])]]) [.str [107]]).bind fun s =>
      (stdPrims.applyFilter (ArrF.bn "map") s [.str [110]]).bind fun m => stdPrims.applyFilter (ArrF.bn "join") m [])
      = [121, 32, 120] := by
  decide +kernel

/-- *`sort` names its key by `fmt.Sprint(values.ResolveDrops(key))`.* Template `{{ a | sort: k | map: "n" | join }}` with
`a = [{"[1]": 2, "n": "x"}, {"[1]": 1, "n": "y"}]`: with `k = [Drop(1)]` it renders `y x`, as with `k = [1]` (it rendered
`x y`: the key was named `[{1}]`). -/
theorem sort_key_name_drops_repaired :
    strOfRes ((stdPrims.applyFilter (ArrF.bn "sort") (.slice .any [
        .map .str .any [(.str [91, 49, 93], .int .int 2), (.str [110], .str [120])],
        .map .str .any [(.str [91, 49, 93], .int .int 1), (.str [110], .str [121])]]) [.slice .any [.drop (.int .int 1)]]).bind fun s =>
      (stdPrims.applyFilter (ArrF.bn "map") s [.str [110]]).bind fun m => stdPrims.applyFilter (ArrF.bn "join") m [])
      = [121, 32, 120] ∧
    strOfRes ((stdPrims.applyFilter (ArrF.bn "sort") (.slice .any [
        .map .str .any [(.str [91, 49, 93], .int .int 2), (.str [110], .str [120])],
        .map .str .any [(.str [91, 49, 93], .int .int 1), (.str [110], .str [121])]]) [.slice .any [.int .int 1]]).bind fun s =>
      (stdPrims.applyFilter (ArrF.bn "map") s [.str [110]]).bind fun m => stdPrims.applyFilter (ArrF.bn "join") m [])
      = [121, 32, 120] := by
  decide +kernel

/-- *`sort_natural` likewise.* Template `{{ a | sort_natural: k | map: "n" | join }}` with
`a = [{"[1]": "b", "n": "x"}, {"[1]": "a", "n": "y"}]`: with `k = [Drop(1)]` it renders `y x`, as with `k = [1]` (it rendered `x y`). -/
theorem sort_natural_key_name_drops_repaired :
    strOfRes ((stdPrims.applyFilter (ArrF.bn "sort_natural") (.slice .any [
        .map .str .any [(.str [91, 49, 93], .str [98]), (.str [110], .str [120])],
        .map .str .any [(.str [91, 49, 93], .str [97]), (.str [110], .str [121])]]) [.slice .any [.drop (.int .int 1)]]).bind fun s =>
      (stdPrims.applyFilter (ArrF.bn "map") s [.str [110]]).bind fun m => stdPrims.applyFilter (ArrF.bn "join") m [])
      = [121, 32, 120] ∧
    strOfRes ((stdPrims.applyFilter (ArrF.bn "sort_natural") (.slice .any [
        .map .str .any [(.str [91, 49, 93], .str [98]), (.str [110], .str [120])],
        .map .str .any [(.str [91, 49, 93], .str [97]), (.str [110], .str [121])]]) [.slice .any [.int .int 1]]).bind fun s =>
      (stdPrims.applyFilter (ArrF.bn "map") s [.str [110]]).bind fun m => stdPrims.applyFilter (ArrF.bn "join") m [])
      = [121, 32, 120] := by
  decide +kernel

/-! ### `sort_natural` on values with nested drops (`ArrF.sortNatural_respects_gen`)

The general statement is `sort_natural_respects_nested_drops` / `run_std_rep_independent_nested_drops`; the two
statements below are evaluated instances, on the templates and bindings that were also run on the real engine of /repo
(1b08585; rows `sort-natural-elements-drops` and `sort-natural-key-entries-drops` of `repsNestedDropFamily`), which
renders what the model computes with both bindings. -/

/-- *`sort_natural` sees the values of the drops among its elements.* Template `{{ a | sort_natural | join: "," }}` with
`a = [Drop("b"), "C", Drop(Drop("a")), nil, Drop(nil), "B"]` renders `a,b,B,C` (the two nils first; `join` skips them),
as with `a = ["b", "C", "a", nil, nil, "B"]`: `Convert` to `[]any` passes every element through `ToLiquid`. -/
theorem sort_natural_elements_drops_evaluated :
    strOfRes ((stdPrims.applyFilter (ArrF.bn "sort_natural")
        (.slice .any [.drop (.str [98]), .str [67], .drop (.drop (.str [97])), .nil, .drop .nil, .str [66]]) []).bind fun s =>
      stdPrims.applyFilter (ArrF.bn "join") s [.str [44]]) = [97, 44, 98, 44, 66, 44, 67] ∧
    strOfRes ((stdPrims.applyFilter (ArrF.bn "sort_natural")
        (.slice .any [.str [98], .str [67], .str [97], .nil, .nil, .str [66]]) []).bind fun s =>
      stdPrims.applyFilter (ArrF.bn "join") s [.str [44]]) = [97, 44, 98, 44, 66, 44, 67] := by
  decide +kernel

/-- *`sort_natural: key` sees the values of the drops under the key.* Template `{{ a | sort_natural: k | map: "n" | join }}`
with `k = Drop("k")` and `a = [{"k": Drop("b"), "n": "1"}, {"k": Drop(nil), "n": "2"}, Drop({"k": Drop(Drop("A")), "n": "3"}),
{"n": "4"}, {"k": "C", "n": "5"}]` renders `2 4 3 1 5` (no string under the key: first, in their order; then `A`, `b`,
`C`), as with `k = "k"` and the drops replaced by what they yield. -/
theorem sort_natural_key_entries_drops_evaluated :
    strOfRes ((stdPrims.applyFilter (ArrF.bn "sort_natural") (.slice .any [
        .map .str .any [(.str [107], .drop (.str [98])), (.str [110], .str [49])],
        .map .str .any [(.str [107], .drop .nil), (.str [110], .str [50])],
        .drop (.map .str .any [(.str [107], .drop (.drop (.str [65]))), (.str [110], .str [51])]),
        .map .str .any [(.str [110], .str [52])],
        .map .str .any [(.str [107], .str [67]), (.str [110], .str [53])]]) [.drop (.str [107])]).bind fun s =>
      (stdPrims.applyFilter (ArrF.bn "map") s [.str [110]]).bind fun m => stdPrims.applyFilter (ArrF.bn "join") m [])
      = [50, 32, 52, 32, 51, 32, 49, 32, 53] ∧
    strOfRes ((stdPrims.applyFilter (ArrF.bn "sort_natural") (.slice .any [
        .map .str .any [(.str [107], .str [98]), (.str [110], .str [49])],
        .map .str .any [(.str [107], .nil), (.str [110], .str [50])],
        .map .str .any [(.str [107], .str [65]), (.str [110], .str [51])],
        .map .str .any [(.str [110], .str [52])],
        .map .str .any [(.str [107], .str [67]), (.str [110], .str [53])]]) [.str [107]]).bind fun s =>
      (stdPrims.applyFilter (ArrF.bn "map") s [.str [110]]).bind fun m => stdPrims.applyFilter (ArrF.bn "join") m [])
      = [50, 32, 52, 32, 51, 32, 49, 32, 53] := by
  decide +kernel

/-- the whole-template theorem on a template with `sort_natural`: `{{ a | sort_natural | join }}` with `a` an array of a
    drop of a string, a plain string, a drop of a drop and a drop that yields nil, against the generic array of the values -/
example (cfg : Cfg) (fs : FS) (fuel : Nat) :
    RunAgree true
      (run (stdPrimsOnly withoutNestedOpen) stdOut cfg fs fuel
        [123, 123, 32, 97, 32, 124, 32, 115, 111, 114, 116, 95, 110, 97, 116, 117, 114, 97, 108, 32, 124, 32, 106, 111, 105, 110, 32, 125, 125] 1
        [([97], .slice .any [.drop (.str [98]), .str [67], .drop (.drop (.str [97])), .drop .nil])])
      (run (stdPrimsOnly withoutNestedOpen) stdOut cfg fs fuel
        [123, 123, 32, 97, 32, 124, 32, 115, 111, 114, 116, 95, 110, 97, 116, 117, 114, 97, 108, 32, 124, 32, 106, 111, 105, 110, 32, 125, 125] 1
        [([97], .slice .any [.str [98], .str [67], .str [97], .nil])]) := by
  refine run_std_rep_independent_nested_drops cfg fs fuel _ 1 _ _ (fun y => ?_)
  by_cases h : y = [97]
  · subst h
    exact binding_related_of_repEq (by simp [Env.get, RepEq, norm, normList, dropRigid, isRec, cyclesOf])
  · have : ([97] == y) = false := by simp [Ne.symm h]
    simp [Env.get, List.find?, this, ERel.refl]
