import Liquid.Std
import Proofs.C09
/-!
# C18 — output depends on a binding's Liquid value, not on its Go representation

Per-operation statements: each operation of the value layer gives the same result on a value and
on its re-representation (drop wrapping, pointer, typed vs generic container, fixed array vs
slice, `[]byte` vs string, numeric width). The whole-template statement ("rendering any template
against environments that differ only in these choices gives identical results") is what the
`reps` correspondence stream checks; it is not proved here (`_partial` in that sense).
-/

open GoVal

/-! ## Drops -/

/-- a drop is what it yields, for every lookup, truth test and integer use -/
theorem drop_unwrap (v : GoVal) : (GoVal.drop v).unwrap = v.unwrap := by simp [unwrap]
theorem drop_propertyValue (v : GoVal) (k : Bytes) : propertyValue (.drop v) k = propertyValue v k := by
  simp [propertyValue, unwrap]
theorem drop_indexValue (v i : GoVal) : indexValue (.drop v) i = indexValue v i := by simp [indexValue, unwrap]
theorem drop_as_index (v i : GoVal) : indexValue v (.drop i) = indexValue v i := by simp [indexValue, unwrap]
theorem drop_test (v : GoVal) : (GoVal.drop v).test = v.test := by simp [test, unwrap]
theorem drop_intOf (v : GoVal) : (GoVal.drop v).intOf = v.intOf := by simp [intOf, unwrap]

/-- a variable bound to a drop evaluates to the drop's value -/
theorem eval_var_drop (P : Prims) (env : Env) (x : Bytes) (v : GoVal) (h : env.get x = .drop v) :
    eval P env (.var x) = .ok v := by
  rw [eval]; simp [h, GoVal.toLiquid]

/-- printing a drop prints its value (for a value that is not itself a drop or a pointer to one) -/
theorem drop_prints_as_value (v : GoVal) : stdChunks (.drop v) = writeChunksL v := by
  simp [stdChunks, GoVal.toLiquid]

/-- a loop over a drop visits the items of its value: the collection expression is evaluated
    through `Interface()`, which resolves drops -/
theorem evaluate_resolves_drop (P : Prims) (env : Env) (e : Expr) (v : GoVal) (h : eval P env e = .ok (.drop v)) :
    evaluate P env e = .ok v.unwrap := by
  simp [evaluate, h, unwrap]

/-- a drop element inside an array prints as its value -/
theorem drop_element_prints (t : Ty) (v : GoVal) (xs : List GoVal) :
    writeChunksL (.slice t (.drop v :: xs)) = (writeChunksL v).bind fun a => (writeChunksList xs).bind fun b => .ok (a ++ b) := by
  simp [writeChunksL, writeChunksList]

/-! ## Pointers -/

/-- a pointer reached by variable or property lookup behaves as what it points to -/
theorem ptr_unwrap_int (k : IntKind) (n : Int) : (GoVal.ptr (.int k n)).unwrap = .int k n := by simp [unwrap]
theorem ptr_unwrap_str (s : Bytes) : (GoVal.ptr (.str s)).unwrap = .str s := by simp [unwrap]
theorem ptr_unwrap_slice (t : Ty) (xs : List GoVal) : (GoVal.ptr (.slice t xs)).unwrap = .slice t xs := by simp [unwrap]
theorem ptr_unwrap_map (k v : Ty) (kvs) : (GoVal.ptr (.map k v kvs)).unwrap = .map k v kvs := by simp [unwrap]
theorem nilptr_unwrap : GoVal.nilPtr.unwrap = .nil := by simp [unwrap]
theorem ptr_propertyValue_slice (t : Ty) (xs : List GoVal) (k : Bytes) :
    propertyValue (.ptr (.slice t xs)) k = propertyValue (.slice t xs) k := by simp [propertyValue, unwrap]
theorem ptr_indexValue_map (kt vt : Ty) (kvs) (i : GoVal) :
    indexValue (.ptr (.map kt vt kvs)) i = indexValue (.map kt vt kvs) i := by simp [indexValue, unwrap]

/-! ## Typed vs generic containers, fixed arrays vs slices -/

/-- lookups never look at the element type of a slice, nor at array-vs-slice -/
theorem typed_slice_index (t : Ty) (xs : List GoVal) (i : GoVal) :
    indexValue (.slice t xs) i = indexValue (.slice .any xs) i := by simp [indexValue, unwrap]
theorem array_index (t : Ty) (xs : List GoVal) (i : GoVal) :
    indexValue (.array t xs) i = indexValue (.slice .any xs) i := by simp [indexValue, unwrap]
theorem typed_slice_prop (t : Ty) (xs : List GoVal) (k : Bytes) :
    propertyValue (.slice t xs) k = propertyValue (.slice .any xs) k := by simp [propertyValue, unwrap]
theorem array_prop (t : Ty) (xs : List GoVal) (k : Bytes) :
    propertyValue (.array t xs) k = propertyValue (.slice .any xs) k := by simp [propertyValue, unwrap]
theorem typed_slice_loop (t : Ty) (xs : List GoVal) : loopItems (.slice t xs) = loopItems (.slice .any xs) := rfl
theorem array_loop (t : Ty) (xs : List GoVal) : loopItems (.array t xs) = loopItems (.slice .any xs) := rfl
theorem typed_slice_prints (t : Ty) (xs : List GoVal) : writeChunksL (.slice t xs) = writeChunksL (.slice .any xs) := by
  simp [writeChunksL]
theorem array_prints (t : Ty) (xs : List GoVal) : writeChunksL (.array t xs) = writeChunksL (.slice .any xs) := by
  simp [writeChunksL]

/-- a string-keyed typed map is looked up like a generic one -/
theorem typed_map_prop (vt : Ty) (kvs) (k : Bytes) :
    propertyValue (.map .str vt kvs) k = propertyValue (.map .str .any kvs) k := by simp [propertyValue, unwrap]
theorem typed_map_index (vt : Ty) (kvs) (i : GoVal) :
    indexValue (.map .str vt kvs) i = indexValue (.map .str .any kvs) i := by simp [indexValue, unwrap]
theorem typed_map_loop (vt : Ty) (kvs) : loopItems (.map .str vt kvs) = loopItems (.map .str .any kvs) := rfl

/-! ## Ordered YAML maps: lookup and size as a map -/

/-- `ms["k"]` and `ms.k` find the entry with that key, as a map lookup does -/
theorem mapslice_lookup_found (k : Bytes) (v : GoVal) (rest : List (GoVal × GoVal)) :
    indexValue (.mapSlice ((.str k, v) :: rest)) (.str k) = .val v := by
  simp [indexValue, unwrap, mapSliceFind, ifaceEq]

theorem mapslice_lookup_skip (k k' : Bytes) (v : GoVal) (rest : List (GoVal × GoVal)) (h : k' ≠ k) :
    indexValue (.mapSlice ((.str k', v) :: rest)) (.str k) = indexValue (.mapSlice rest) (.str k) := by
  have : (k == k') = false := by simp [Ne.symm h]
  simp [indexValue, unwrap, mapSliceFind, ifaceEq, this]

theorem mapslice_size (kvs : List (GoVal × GoVal)) (h : mapSliceFind kvs (.str sizeKey) = .val .nil) :
    propertyValue (.mapSlice kvs) sizeKey = .val (.int .int kvs.length) := by
  simp [propertyValue, unwrap, h]

/-! ## `[]byte` prints as the string -/

theorem bytes_print (s : Bytes) : stdChunks (.bytes s) = stdChunks (.str s) := by
  simp [stdChunks, GoVal.toLiquid, writeChunksL, writeObjectL, sprint, Res.bind]

/-! ## Numeric width -/

/-- integers of every width print by numeric value -/
theorem int_width_prints (k k' : IntKind) (n : Int) : sprint (.int k n) = sprint (.int k' n) := by
  simp [sprint]

/-- integers of every width compare by numeric value (C09 `equal_num`, `less_num`) and are truthy alike -/
theorem int_width_truthy (k : IntKind) (n : Int) : (GoVal.int k n).test = true := by simp [test, unwrap]

/-! Non-vacuity -/
example : (GoVal.drop (.drop (.ptr (.str [97])))).unwrap = .str [97] := by simp [unwrap]
