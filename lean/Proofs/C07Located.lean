import Proofs.C07LocatedLemmas
/-!
# C07, from source bytes, for templates WITH include tags — the error is located at a token of the template or of an included file

`run_error_at_tag_or_object` (Proofs/C07Source.lean) is about sources without an `include` tag. Here every source:
an error of `run` is located at a tag or object token of the source itself — successful includes elsewhere in the
template do not shift lines —, or it is the error of an included file, and that is the error of `run` on the
file's source, parsed at the line of a tag token of the including source (`ctx.RenderFile` compiles the file with the
include tag's `SourceLoc`), with one include level less: the same theorem applies to it again.
-/

/-- **C07 (the error is located at a token of the template, or it is the error of an included file), from source
    bytes.** For every source — `include` tags allowed —, delimiter set, value layer, file system, include depth,
    start line and environment: whenever `run` returns an error `e`, compile-time or render-time, it names the
    configured path (`e.pathSet = true`) and there is a token `t` of the source that is a TAG or an OBJECT,
    `t.line = line + countNL (srcs pre)` (the start line plus the newlines of the source before `t`; the token
    sources partition the source), such that
    * `e.line = t.line`: the failing construct is `t`, in the template itself; or
    * the failing construct is inside a file included at `t`: there are a file name `f` whose source `src'` the file
      system holds (on disk, else in the cache), an environment `env'` and an error `e'` with the line and path flag
      of `e` such that `run`, with one include level less, on `src'` parsed at start line `t.line` with `env'` returns
      `e'`. (So the line is counted inside the file from the include tag's line: apply this theorem, or
      `run_error_at_tag_or_object` when the file has no include tag — `run_error_located_depth1_partial` —, to that run.)
    Not proved here: that `t` is a tag NAMED `include` in the second case (it is the token at whose line the include
    node of the compiled tree stands), and that `f` is the evaluated argument joined to the template's directory
    (`include_resolves`, Proofs/C14.lean). -/
theorem run_error_located_at_token (P : Prims) (O : OutPrims) (cfg : Cfg) (fs : FS) (fuel : Nat) (src : Bytes) (line : Nat)
    (env : Env) (e : SErr) (h : run P O cfg fs fuel src line env = .err e) :
    e.pathSet = true ∧
    ∃ pre t rest, scan cfg.delims src line = pre ++ t :: rest ∧ (t.ty = .tag ∨ t.ty = .obj) ∧
      t.line = line + countNL (srcs pre) ∧ src = srcs pre ++ (t.source ++ srcs rest) ∧
      (e.line = t.line ∨
       ∃ n f src' env' e', fuel = n + 1 ∧ fileSource fs f = some src' ∧
         run P O cfg fs n src' t.line env' = .err e' ∧ e.line = e'.line ∧ e.pathSet = e'.pathSet) := by
  have here : ∀ x, TagObjLine (scan cfg.delims src line) x → e.line = x →
      ∃ pre t rest, scan cfg.delims src line = pre ++ t :: rest ∧ (t.ty = .tag ∨ t.ty = .obj) ∧
        t.line = line + countNL (srcs pre) ∧ src = srcs pre ++ (t.source ++ srcs rest) ∧
        (e.line = t.line ∨
         ∃ n f src' env' e', fuel = n + 1 ∧ fileSource fs f = some src' ∧
           run P O cfg fs n src' t.line env' = .err e' ∧ e.line = e'.line ∧ e.pathSet = e'.pathSet) := by
    intro x hx hl
    obtain ⟨pre, t, rest, h1, h2, h3, h4, h5⟩ := tagObjLine_split cfg.delims src line x hx
    exact ⟨pre, t, rest, h1, h2, h4, h5, Or.inl (by rw [hl, h3])⟩
  have hrun := h
  unfold run at h
  cases hc : compileSource cfg.delims src line with
  | err e0 =>
    rw [hc] at h
    cases h
    obtain ⟨h1, h2⟩ := compileSource_err_line cfg.delims src line e hc
    exact ⟨h2, here _ h1 rfl⟩
  | panic w => rw [hc] at h; cases h
  | unmodelled w => rw [hc] at h; cases h
  | ok root =>
    rw [hc] at h
    simp only at h
    have hlines := compileSource_elines cfg.delims src line root hc
    have main : ∀ out e0, (frender P O cfg fs fuel root env).runPure = (out, .err e0) → e0 = .located e →
        e.pathSet = true ∧
        ∃ pre t rest, scan cfg.delims src line = pre ++ t :: rest ∧ (t.ty = .tag ∨ t.ty = .obj) ∧
          t.line = line + countNL (srcs pre) ∧ src = srcs pre ++ (t.source ++ srcs rest) ∧
          (e.line = t.line ∨
           ∃ n f src' env' e', fuel = n + 1 ∧ fileSource fs f = some src' ∧
             run P O cfg fs n src' t.line env' = .err e' ∧ e.line = e'.line ∧ e.pathSet = e'.pathSet) := by
      intro out e0 hr he0
      obtain ⟨se, hse, hok⟩ := render_error_eline_or_handler (mkCtx P O cfg fs fuel) (incQuiet_mkCtx P O cfg fs fuel) root env out e0 hr
      rw [he0] at hse
      cases hse
      rcases hok with ⟨h1, h2⟩ | ⟨line', hl', f, env', hh⟩
      · exact ⟨h2, here _ (hlines _ h1) rfl⟩
      · obtain ⟨n, src', e', hn, hfs, hrun', hloc⟩ := handlerEnds_incFuel P O cfg fs fuel line' f env' _ hh
        simp only [Loc.mk.injEq] at hloc
        obtain ⟨pre, t, rest, g1, g2, g3, g4, g5⟩ := tagObjLine_split cfg.delims src line line' (hlines _ hl')
        refine ⟨run_error_pathSet P O cfg fs fuel src line env e hrun, pre, t, rest, g1, g2, g4, g5, Or.inr ⟨n, f, src', env', e', hn, hfs, by rw [g3]; exact hrun', hloc.1, hloc.2⟩⟩
    split at h
    · cases h
    · next out e1 hr => cases h; exact main out _ hr rfl
    · next out c hr =>
      obtain ⟨se, hse, _⟩ := render_error_eline_or_handler (mkCtx P O cfg fs fuel) (incQuiet_mkCtx P O cfg fs fuel) root env out _ hr
      cases hse
    · cases h
    · cases h
