import Proofs.C07LocatedLemmas
/-!
# C07, from source bytes, for templates WITH include tags — the error is located at a token of the template or of an included file

`run_error_at_tag_or_object` (Proofs/C07Source.lean) is about sources without an `include` tag. Here every source:
an error of `run` is located at a tag or object token of the source itself — successful includes elsewhere in the
template do not shift lines —, or it is the error of an included file, and that is the error of `run` on the
file's source, parsed at the line of a tag token of the including source (`ctx.RenderFile` compiles the file with the
include tag's `SourceLoc`), with one include level less: the same theorem applies to it again.
-/

/-- **C07 (the error is located at a token of the template, or it is the error of an included file), from source
    bytes.** For every source — `include` tags allowed —, delimiter set, value layer, file system, include depth,
    start line and environment: whenever `run` returns an error `e`, compile-time or render-time, it names the
    configured path (`e.pathSet = true`) and there is a token `t` of the source that is a TAG or an OBJECT,
    `t.line = line + countNL (srcs pre)` (the start line plus the newlines of the source before `t`; the token
    sources partition the source), such that
    * `e.line = t.line`: the failing construct is `t`, in the template itself; or
    * the failing construct is inside the file included by `t`: `t` is a tag NAMED `include`, its argument text parses
      to an expression `ex` that evaluates — with the variables `env'` the render has at the tag — to a string `rel`,
      the file system holds (on disk, else in the cache) a source `src'` for `dir(path)/rel`, and `run`, with one
      include level less, on `src'` parsed at start line `t.line` with `env'` returns an error `e'` that has the line
      and the path flag of `e`. (So the line is counted inside the file from the include tag's line: apply this
      theorem again, or `run_error_at_tag_or_object` when the file has no include tag — `run_error_located_in_file_token`.)
    `e` and `e'` are related by line and path flag only (they are the same error whenever `e'` has a line or a path:
    `include_located_err_passes`, Proofs/C14.lean). -/
theorem run_error_located_at_token (P : Prims) (O : OutPrims) (cfg : Cfg) (fs : FS) (fuel : Nat) (src : Bytes) (line : Nat)
    (env : Env) (e : SErr) (h : run P O cfg fs fuel src line env = .err e) :
    e.pathSet = true ∧
    ∃ pre t rest, scan cfg.delims src line = pre ++ t :: rest ∧ (t.ty = .tag ∨ t.ty = .obj) ∧
      t.line = line + countNL (srcs pre) ∧ src = srcs pre ++ (t.source ++ srcs rest) ∧
      (e.line = t.line ∨
       ∃ n ex rel src' env' e', t.ty = .tag ∧ t.name = nmInclude ∧ parseExprSource t.args = .ok ex ∧
         evaluate P env' ex = .ok (.str rel) ∧ fuel = n + 1 ∧ fileSource fs (joinPath (dirPath cfg.path) rel) = some src' ∧
         run P O cfg fs n src' t.line env' = .err e' ∧ e.line = e'.line ∧ e.pathSet = e'.pathSet) := by
  refine ⟨run_error_pathSet P O cfg fs fuel src line env e h, ?_⟩
  have here : ∀ x, TagObjLine (scan cfg.delims src line) x → e.line = x →
      ∃ pre t rest, scan cfg.delims src line = pre ++ t :: rest ∧ (t.ty = .tag ∨ t.ty = .obj) ∧
        t.line = line + countNL (srcs pre) ∧ src = srcs pre ++ (t.source ++ srcs rest) ∧
        (e.line = t.line ∨
         ∃ n ex rel src' env' e', t.ty = .tag ∧ t.name = nmInclude ∧ parseExprSource t.args = .ok ex ∧
           evaluate P env' ex = .ok (.str rel) ∧ fuel = n + 1 ∧ fileSource fs (joinPath (dirPath cfg.path) rel) = some src' ∧
           run P O cfg fs n src' t.line env' = .err e' ∧ e.line = e'.line ∧ e.pathSet = e'.pathSet) := by
    intro x hx hl
    obtain ⟨pre, t, rest, h1, h2, h3, h4, h5⟩ := tagObjLine_split cfg.delims src line x hx
    exact ⟨pre, t, rest, h1, h2, h4, h5, Or.inl (by rw [hl, h3])⟩
  unfold run at h
  cases hc : compileSource cfg.delims src line with
  | err e0 =>
    rw [hc] at h
    cases h
    exact here _ (compileSource_err_line cfg.delims src line e hc).1 rfl
  | panic w => rw [hc] at h; cases h
  | unmodelled w => rw [hc] at h; cases h
  | ok root =>
    rw [hc] at h
    simp only at h
    have hlines := compileSource_elines cfg.delims src line root hc
    have hilines := compileSource_ilines cfg.delims src line root hc
    split at h
    · cases h
    · next out e1 hr =>
      cases h
      obtain ⟨se, hse, hok⟩ := render_error_eline_or_handler (mkCtx P O cfg fs fuel) (incQuiet_mkCtx P O cfg fs fuel) root env out _ hr
      cases hse
      rcases hok with ⟨h1, _⟩ | ⟨la, hla, s', ex, rel, hpe, hev, hh⟩
      · exact here _ (hlines _ h1) rfl
      · obtain ⟨n, src', e', hn, hfs, hrun', hloc⟩ :=
          handlerEnds_incFuel P O cfg fs fuel la.1 (joinPath (dirPath cfg.path) rel) s'.env _ hh
        simp only [Loc.mk.injEq] at hloc
        obtain ⟨pre, t, rest, g1, g2, g3, g4, g5, g6, g7⟩ := incTokLine_split cfg.delims src line la (hilines _ hla)
        refine ⟨pre, t, rest, g1, Or.inl g2, g6, g7, Or.inr ⟨n, ex, rel, src', s'.env, e', g2, g3, by rw [g5]; exact hpe, hev, hn, hfs,
          by rw [g4]; exact hrun', hloc.1, hloc.2⟩⟩
    · next out c hr =>
      obtain ⟨se, hse, _⟩ := render_error_eline_or_handler (mkCtx P O cfg fs fuel) (incQuiet_mkCtx P O cfg fs fuel) root env out _ hr
      cases hse
    · cases h
    · cases h

/-- **C07 (the chain of files), from source bytes, every nesting depth.** Whenever `run` returns an error `e`, its line
    is reached along a chain of included files (`ErrAt`, Proofs/C07LocatedLemmas.lean): it is the line of a tag or
    object token of the source — start line plus the newlines before the token —, or the source has a tag token `t`
    named `include` and the file system a file `dir(path)/rel` such that the same holds of the file's source parsed at
    start line `t.line`, and so on, through as many files as the failing construct is nested in (at most the include
    depth). -/
theorem run_error_chain (P : Prims) (O : OutPrims) (cfg : Cfg) (fs : FS) (fuel : Nat) :
    ∀ (src : Bytes) (line : Nat) (env : Env) (e : SErr), run P O cfg fs fuel src line env = .err e → ErrAt cfg fs src line e.line := by
  induction fuel with
  | zero =>
    intro src line env e h
    obtain ⟨_, pre, t, rest, h1, h2, h3, h4, h5⟩ := run_error_located_at_token P O cfg fs 0 src line env e h
    rcases h5 with h5 | ⟨n, _, _, _, _, _, _, _, _, _, hn, _⟩
    · rw [h5]; exact ErrAt.here src line pre t rest h1 h2 h3 h4
    · cases hn
  | succ m ih =>
    intro src line env e h
    obtain ⟨_, pre, t, rest, h1, h2, h3, h4, h5⟩ := run_error_located_at_token P O cfg fs (m + 1) src line env e h
    rcases h5 with h5 | ⟨n, ex, rel, src', env', e', hty, hnm, _, _, hn, hfs, hrun', hl, _⟩
    · rw [h5]; exact ErrAt.here src line pre t rest h1 h2 h3 h4
    · have hnm' : n = m := by omega
      subst hnm'
      rw [hl]
      exact ErrAt.inFile src line pre t rest rel src' _ h1 hty hnm h3 h4 hfs (ih src' t.line env' e' hrun')

/-- **C07 (no line 0), from source bytes, include tags allowed.** For every source and every start line: the line
    of an error of `run` is at least the start line — so it is not 0 when the template was parsed with a start line
    of at least 1, also when the failing construct is inside an included file, at any depth
    (`run_error_line_ge_start` is the same for sources without an include tag). -/
theorem run_error_line_ge_start_incl (P : Prims) (O : OutPrims) (cfg : Cfg) (fs : FS) (fuel : Nat) (src : Bytes) (line : Nat)
    (env : Env) (e : SErr) (h : run P O cfg fs fuel src line env = .err e) : line ≤ e.line :=
  (run_error_chain P O cfg fs fuel src line env e h).ge

/-- **C07 (the token inside the included file), one level.** On a file system none of whose files contains an
    `include` tag (a decidable condition on the file's tokens, independent of the start line: `noIncludeTag_any_line`;
    includes are nested at most one deep): whenever `run` returns an error `e` there is a tag or object token `t` of
    the source, `t.line = line + countNL (srcs pre)`, such that `e.line = t.line`, or `t` is a tag named `include`
    and there are a file `dir(path)/rel` with source `src'` and a tag or object token `t'` of `src'` scanned from
    start line `t.line` such that `e.line = t.line + countNL (srcs pre')`: the include tag's line plus the newlines
    of the FILE before the failing token (the token sources partition the file). -/
theorem run_error_located_in_file_token (P : Prims) (O : OutPrims) (cfg : Cfg) (fs : FS) (fuel : Nat) (src : Bytes) (line : Nat)
    (env : Env) (e : SErr)
    (hfiles : ∀ f src', fileSource fs f = some src' → NoIncludeTag (scan cfg.delims src' 0))
    (h : run P O cfg fs fuel src line env = .err e) :
    e.pathSet = true ∧
    ∃ pre t rest, scan cfg.delims src line = pre ++ t :: rest ∧ (t.ty = .tag ∨ t.ty = .obj) ∧
      t.line = line + countNL (srcs pre) ∧ src = srcs pre ++ (t.source ++ srcs rest) ∧
      (e.line = t.line ∨
       ∃ rel src' pre' t' rest', t.ty = .tag ∧ t.name = nmInclude ∧ fileSource fs (joinPath (dirPath cfg.path) rel) = some src' ∧
         scan cfg.delims src' t.line = pre' ++ t' :: rest' ∧
         (t'.ty = .tag ∨ t'.ty = .obj) ∧ e.line = t.line + countNL (srcs pre') ∧
         src' = srcs pre' ++ (t'.source ++ srcs rest')) := by
  obtain ⟨hp, pre, t, rest, h1, h2, h3, h4, h5⟩ := run_error_located_at_token P O cfg fs fuel src line env e h
  refine ⟨hp, pre, t, rest, h1, h2, h3, h4, ?_⟩
  rcases h5 with h5 | ⟨n, ex, rel, src', env', e', hty, hnm, _, _, _, hfs, hrun', hl, _⟩
  · exact Or.inl h5
  · obtain ⟨pre', t', rest', g1, g2, g3, g4, g5, _⟩ :=
      run_error_at_tag_or_object P O cfg fs n src' t.line env' e' (noIncludeTag_any_line cfg.delims src' (hfiles _ src' hfs) t.line) hrun'
    exact Or.inr ⟨rel, src', pre', t', rest', hty, hnm, hfs, g1, g2, by rw [hl, g3, g4], g5⟩

/-! ## Concrete instances

(1) `a⏎{% include "f" %}⏎{{ y }}` with strict variables, `y` unbound, the file `f` = `A⏎B⏎`: the include succeeds and
inserts two lines; the object fails at line 3 = start line 1 + the two newlines of the SOURCE before it — the lines of
the included text do not count. (2) `include_error_line` (Proofs/C07Source.lean): `{% include "f" %}` with `f` =
`⏎⏎{{ y }}`: the error has line 3 = the tag's line 1 + the two newlines of the FILE before the object. -/
def c07IncOkFs : FS := ⟨fun p => if p = [102] then .content [65, 10, 66, 10] else .notExist, fun _ => none⟩

def c07IncOkSrc : Bytes := [97, 10, 123, 37, 32, 105, 110, 99, 108, 117, 100, 101, 32, 34, 102, 34, 32, 37, 125, 10, 123, 123, 32, 121, 32, 125, 125]

theorem c07IncOk_compiles : compileSource [] c07IncOkSrc 1 =
    .ok [.text 1 [97, 10], .incl 2 [34, 102, 34], .text 2 [10], .obj 3 (.var [121])] := by rfl

theorem c07IncOk_inner : compileSource [] [65, 10, 66, 10] 2 = .ok [.text 2 [65, 10, 66, 10]] := by rfl

theorem c07IncOk_run (P : Prims) (O : OutPrims) :
    run P O strictCfg c07IncOkFs 1 c07IncOkSrc 1 [] = .err ⟨3, true, .other "undefinedVariable", .byCause⟩ := by
  unfold run
  rw [show strictCfg.delims = [] from rfl, c07IncOk_compiles]
  have hp : parseExprSource [34, 102, 34] = .ok (.lit (.str [102])) := rfl
  have hj : joinPath (dirPath []) [102] = [102] := by decide
  simp [frender, renderRoot, renderList, renderNode, wrapAt, wrapFailAt, M.mapFail, M.bind, M.pure, M.getEnv, M.ofRes, M.fail,
    Prog.bind, Prog.mapFail, Prog.runPure, bind, pure, mkCtx, evaluate, eval, GoVal.unwrap, hp, Res.mapErr, incFuel, renderFileWith,
    c07IncOkFs, hj, strictCfg, c07IncOk_inner, writeM, writeVerbatimM, flushM, Env.get, GoVal.isNil, GoVal.toLiquid, wrapError, Status.wrap]

/-- (1) the error is at a token of the source: the theorem's witness has `t.line = 1 + countNL (srcs pre)` -/
example (P : Prims) (O : OutPrims) :
    true = true ∧
    ∃ pre t rest, scan strictCfg.delims c07IncOkSrc 1 = pre ++ t :: rest ∧ (t.ty = .tag ∨ t.ty = .obj) ∧
      t.line = 1 + countNL (srcs pre) ∧ c07IncOkSrc = srcs pre ++ (t.source ++ srcs rest) ∧
      ((3 : Nat) = t.line ∨
       ∃ n ex rel src' env' e', t.ty = .tag ∧ t.name = nmInclude ∧ parseExprSource t.args = .ok ex ∧
         evaluate P env' ex = .ok (.str rel) ∧ 1 = n + 1 ∧ fileSource c07IncOkFs (joinPath (dirPath strictCfg.path) rel) = some src' ∧
         run P O strictCfg c07IncOkFs n src' t.line env' = .err e' ∧ (3 : Nat) = e'.line ∧ true = e'.pathSet) :=
  run_error_located_at_token P O strictCfg c07IncOkFs 1 c07IncOkSrc 1 [] _ (c07IncOk_run P O)

/-- (1) every file of `c07IncOkFs` is include-free: the one-level form applies -/
example (P : Prims) (O : OutPrims) :
    true = true ∧
    ∃ pre t rest, scan strictCfg.delims c07IncOkSrc 1 = pre ++ t :: rest ∧ (t.ty = .tag ∨ t.ty = .obj) ∧
      t.line = 1 + countNL (srcs pre) ∧ c07IncOkSrc = srcs pre ++ (t.source ++ srcs rest) ∧
      ((3 : Nat) = t.line ∨
       ∃ rel src' pre' t' rest', t.ty = .tag ∧ t.name = nmInclude ∧ fileSource c07IncOkFs (joinPath (dirPath strictCfg.path) rel) = some src' ∧
         scan strictCfg.delims src' t.line = pre' ++ t' :: rest' ∧
         (t'.ty = .tag ∨ t'.ty = .obj) ∧ (3 : Nat) = t.line + countNL (srcs pre') ∧
         src' = srcs pre' ++ (t'.source ++ srcs rest')) :=
  run_error_located_in_file_token P O strictCfg c07IncOkFs 1 c07IncOkSrc 1 [] _
    (by
      intro f src' hf
      have : src' = [65, 10, 66, 10] := by
        unfold fileSource c07IncOkFs at hf
        simp only at hf
        split at hf
        · next h => split at h <;> simp_all
        · next h => split at h <;> simp_all
        · cases hf
      subst this
      decide)
    (c07IncOk_run P O)

/-- (2) the failing construct is in the included file: `run_error_chain` and the lower bound on `include_error_line` -/
example (P : Prims) (O : OutPrims) : ErrAt strictCfg c07IncFs (spell Delims.default [tg nmInclude [34, 102, 34]]) 1 3 :=
  run_error_chain P O strictCfg c07IncFs 1 _ 1 [] _ (include_error_line P O).1

example (P : Prims) (O : OutPrims) : 1 ≤ (3 : Nat) :=
  run_error_line_ge_start_incl P O strictCfg c07IncFs 1 _ 1 [] ⟨3, true, .other "undefinedVariable", .byCause⟩ (include_error_line P O).1

/-- (2) on `include_error_line` the theorem's second alternative holds: no token of the source stands at line 3, so the
    error is that of `run` (no include level left below) on the source of the file named by the include tag -/
example (P : Prims) (O : OutPrims) :
    ∃ t rel src' env' e', t ∈ scan strictCfg.delims (spell Delims.default [tg nmInclude [34, 102, 34]]) 1 ∧ t.name = nmInclude ∧
      fileSource c07IncFs (joinPath (dirPath strictCfg.path) rel) = some src' ∧
      run P O strictCfg c07IncFs 0 src' t.line env' = .err e' ∧ e'.line = 3 := by
  obtain ⟨_, pre, t, rest, h1, _, _, _, h5⟩ :=
    run_error_located_at_token P O strictCfg c07IncFs 1 _ 1 [] _ (include_error_line P O).1
  have hm : t ∈ scan strictCfg.delims (spell Delims.default [tg nmInclude [34, 102, 34]]) 1 := by rw [h1]; simp
  rcases h5 with h5 | ⟨n, ex, rel, src', env', e', _, hnm, _, _, hn, hfs, hrun, hl, _⟩
  · exact absurd h5.symm ((include_error_line P O).2 t hm)
  · have : n = 0 := by omega
    subst this
    exact ⟨t, rel, src', env', e', hm, hnm, hfs, hrun, hl.symm⟩
