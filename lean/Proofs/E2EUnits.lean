import Proofs.E2ERegex
import Proofs.TokenReLemmas
/-!
# The exclusion loop `(?:[^t0]|t0[^t1]|…)+?` of the tag pattern

Its alternatives are mutually exclusive: at a given input at most one of them matches, and it
consumes a *unit* — the longest common prefix with the closing delimiter (shorter than the
delimiter) followed by one deviating byte. The lazy loop therefore walks through the arguments unit
by unit and tries the closing part after each.
-/

theorem alts_none {R} (mf : Nat) (s : Bytes) (p : Nat) (c : Caps) (k : K R) :
    ∀ (rs : List Re), rs ≠ [] → (∀ a ∈ rs, a.m mf s p c k = none) → (Re.alts rs).m mf s p c k = none
  | [], h, _ => absurd rfl h
  | [a], _, h => h a (List.mem_singleton.mpr rfl)
  | a :: b :: bs, _, h => by
    have e : Re.alts (a :: b :: bs) = .alt a (Re.alts (b :: bs)) := rfl
    rw [e, alt_m, h a (List.mem_cons_self ..)]
    exact alts_none mf s p c k (b :: bs) (by simp) (fun x hx => h x (List.mem_cons_of_mem _ hx))

theorem alts_first {R} (mf : Nat) (s : Bytes) (p : Nat) (c : Caps) (k : K R) (r : R) :
    ∀ (rs : List Re) (i : Nat) (hi : i < rs.length), (∀ j (hj : j < i), (rs[j]'(Nat.lt_trans hj hi)).m mf s p c k = none) →
      (rs[i]'hi).m mf s p c k = some r → (Re.alts rs).m mf s p c k = some r
  | [], i, hi, _, _ => by simp at hi
  | [a], i, hi, _, h => by
    have : i = 0 := by simpa using hi
    subst this
    exact h
  | a :: b :: bs, 0, _, _, h => by
    have e : Re.alts (a :: b :: bs) = .alt a (Re.alts (b :: bs)) := rfl
    rw [e, alt_m]
    simp only [List.getElem_cons_zero] at h
    rw [h]
  | a :: b :: bs, i + 1, hi, hnone, h => by
    have e : Re.alts (a :: b :: bs) = .alt a (Re.alts (b :: bs)) := rfl
    rw [e, alt_m]
    have h0 := hnone 0 (Nat.succ_pos i)
    simp only [List.getElem_cons_zero] at h0
    rw [h0]
    exact alts_first mf s p c k r (b :: bs) i (by simpa using hi)
      (fun j hj => by have := hnone (j + 1) (Nat.succ_lt_succ hj); simpa using this)
      (by simpa using h)

/-! ## One alternative -/

theorem take_getD_append (tr rest : Bytes) (i m : Nat) (hi : i < m) (hm : m ≤ tr.length) :
    (tr.take m ++ rest)[i]? = some (tr.getD i 0) := by
  have h1 : i < (tr.take m).length := by rw [List.length_take]; omega
  rw [List.getElem?_append_left h1, List.getElem?_take_of_lt hi]
  have h2 : i < tr.length := by omega
  simp [List.getD, List.getElem?_eq_getElem h2]

theorem take_append_cons_at (tr : Bytes) (z : UInt8) (rest : Bytes) (i : Nat) (hi : i ≤ tr.length) :
    (tr.take i ++ z :: rest)[i]? = some z := by
  have h1 : (tr.take i).length = i := by rw [List.length_take]; omega
  rw [List.getElem?_append_right (by omega), h1]
  simp

theorem exclAlt_hit {R} (mf : Nat) (tr : Bytes) (m : Nat) (y : UInt8) (s' : Bytes) (p : Nat) (c : Caps) (k : K R)
    (hm : m < tr.length) (hy : y ≠ tr.getD m 0) :
    (exclAlt tr m).m mf (tr.take m ++ y :: s') p c k = k s' (p + m + 1) c := by
  have hl : (tr.take m).length = m := by rw [List.length_take]; omega
  rw [exclAlt, seq_m, lit_m_ok, chr_m_cons, hl]
  have : Pred.test (.ne (tr.getD m 0)) y = true := by simp only [Pred.test, bne_iff_ne, ne_eq]; exact hy
  rw [if_pos this]

theorem exclAlt_sound {R} (mf : Nat) (tr : Bytes) (i : Nat) (s : Bytes) (p : Nat) (c : Caps) (k : K R) (r : R)
    (h : (exclAlt tr i).m mf s p c k = some r) :
    ∃ z s', s = tr.take i ++ z :: s' ∧ z ≠ tr.getD i 0 := by
  rw [exclAlt, seq_m] at h
  obtain ⟨t, ht, hk⟩ := lit_m mf _ s p c _ r h
  cases t with
  | nil => rw [chr_m_nil] at hk; cases hk
  | cons z s' =>
    rw [chr_m_cons] at hk
    split at hk
    · next hz => exact ⟨z, s', ht, by simpa [Pred.test] using hz⟩
    · cases hk

/-- the alternatives are mutually exclusive -/
theorem unit_unique (tr : Bytes) (m i : Nat) (y z : UInt8) (s1 s2 : Bytes) (hm : m < tr.length) (hi : i < tr.length)
    (hy : y ≠ tr.getD m 0) (hz : z ≠ tr.getD i 0) (h : tr.take m ++ y :: s1 = tr.take i ++ z :: s2) : i = m := by
  rcases Nat.lt_trichotomy i m with hlt | heq | hgt
  · exfalso
    have h1 := take_getD_append tr (y :: s1) i m hlt (Nat.le_of_lt hm)
    have h2 := take_append_cons_at tr z s2 i (Nat.le_of_lt hi)
    rw [h, h2] at h1
    exact hz (Option.some.inj h1)
  · exact heq
  · exfalso
    have h1 := take_getD_append tr (z :: s2) m i hgt (Nat.le_of_lt hi)
    have h2 := take_append_cons_at tr y s1 m (Nat.le_of_lt hm)
    rw [← h, h2] at h1
    exact hy (Option.some.inj h1)

/-! ## The alternation -/

def unitsRe (tr : Bytes) : Re := Re.alts (exclAlts tr)

theorem units_m_hit {R} (mf : Nat) (tr : Bytes) (m : Nat) (y : UInt8) (s' : Bytes) (p : Nat) (c : Caps) (k : K R) (r : R)
    (hm : m < tr.length) (hy : y ≠ tr.getD m 0) (hk : k s' (p + m + 1) c = some r) :
    (unitsRe tr).m mf (tr.take m ++ y :: s') p c k = some r := by
  rw [unitsRe, exclAlts_eq]
  refine alts_first mf _ p c k r _ m (by simpa using hm) ?_ ?_
  · intro j hj
    simp only [List.getElem_map, List.getElem_range]
    cases hr : (exclAlt tr j).m mf (tr.take m ++ y :: s') p c k with
    | none => rfl
    | some r' =>
      obtain ⟨z, s2, h1, h2⟩ := exclAlt_sound mf tr j _ p c k r' hr
      have := unit_unique tr m j y z s' s2 hm (by omega) hy h2 h1
      omega
  · simp only [List.getElem_map, List.getElem_range]
    rw [exclAlt_hit mf tr m y s' p c k hm hy]
    exact hk

/-- where the closing delimiter stands, no unit starts -/
theorem units_m_prefix_none {R} (mf : Nat) (tr t : Bytes) (p : Nat) (c : Caps) (k : K R) (htr : tr ≠ []) :
    (unitsRe tr).m mf (tr ++ t) p c k = none := by
  rw [unitsRe, exclAlts_eq]
  refine alts_none mf _ p c k _ ?_ ?_
  · cases tr with
    | nil => exact absurd rfl htr
    | cons x xs => simp [List.range_succ]
  · intro a ha
    obtain ⟨i, hi, rfl⟩ := List.mem_map.mp ha
    have hi' : i < tr.length := List.mem_range.mp hi
    cases hr : (exclAlt tr i).m mf (tr ++ t) p c k with
    | none => rfl
    | some r' =>
      exfalso
      obtain ⟨z, s2, h1, h2⟩ := exclAlt_sound mf tr i _ p c k r' hr
      have e1 : (tr ++ t)[i]? = some (tr.getD i 0) := by
        rw [List.getElem?_append_left hi']
        simp [List.getD, List.getElem?_eq_getElem hi']
      rw [h1, take_append_cons_at tr z s2 i (Nat.le_of_lt hi')] at e1
      exact h2 (Option.some.inj e1)

/-! ## Units inside the arguments -/

theorem prefix_trichotomy : ∀ (a tr : Bytes),
    a <+: tr ∨ tr <+: a ∨ ∃ m y a', m < tr.length ∧ a = tr.take m ++ y :: a' ∧ y ≠ tr.getD m 0
  | [], tr => .inl (List.nil_prefix)
  | x :: a, [] => .inr (.inl List.nil_prefix)
  | x :: a, z :: tr => by
    by_cases hxz : x = z
    · subst hxz
      rcases prefix_trichotomy a tr with h | h | ⟨m, y, a', hm, ha, hy⟩
      · exact .inl ((List.cons_prefix_cons).mpr ⟨rfl, h⟩)
      · exact .inr (.inl ((List.cons_prefix_cons).mpr ⟨rfl, h⟩))
      · exact .inr (.inr ⟨m + 1, y, a', by simpa using hm, by rw [ha]; simp, by simpa using hy⟩)
    · exact .inr (.inr ⟨0, x, a, by simp, by simp, by simpa using hxz⟩)

/-- the first unit of non-empty arguments lies inside them -/
theorem unit_exists (tr a tail : Bytes) (ha : a ≠ []) (h1 : ¬ tr <+: a ++ tail)
    (h2 : ∀ q, q ≠ [] → q <:+ a → ¬ q <+: tr) :
    ∃ m y a', m < tr.length ∧ a = tr.take m ++ y :: a' ∧ y ≠ tr.getD m 0 := by
  rcases prefix_trichotomy a tr with h | h | h
  · exact absurd h (h2 a ha (List.suffix_refl a))
  · exact absurd (h.trans (List.prefix_append a tail)) h1
  · exact h

theorem lazyUnits {R} (mf : Nat) (tr tail : Bytes) (c : Caps) (k : K R) (r : R) :
    ∀ (n : Nat) (a : Bytes) (p : Nat), a.length ≤ n →
      (∀ i, i < a.length → ¬ tr <+: (a ++ tail).drop i) →
      (∀ q, q ≠ [] → q <:+ a → ¬ q <+: tr) →
      (∀ i, i < a.length → k ((a ++ tail).drop i) (p + i) c = none) →
      k tail (p + a.length) c = some r →
      starLoop (fun s p c k => (unitsRe tr).m mf s p c k) false n (a ++ tail) p c k = some r := by
  intro n
  induction n with
  | zero =>
    intro a p hn _ _ _ hk
    have : a = [] := List.eq_nil_of_length_eq_zero (Nat.le_zero.mp hn)
    subst this
    rw [starLoop_zero]; simpa using hk
  | succ n ih =>
    intro a p hn h1 h2 h3 hk
    cases a with
    | nil => rw [starLoop_succ_false]; simp only [List.nil_append, List.length_nil, Nat.add_zero] at hk ⊢; rw [hk]
    | cons x a1 =>
      have h0 := h3 0 (by simp)
      simp only [List.drop_zero, Nat.add_zero] at h0
      rw [starLoop_succ_false, h0]
      obtain ⟨m, y, a', hm, ha, hy⟩ := unit_exists tr (x :: a1) tail (by simp) (by simpa using h1 0 (by simp)) h2
      have hlen : (x :: a1).length = m + 1 + a'.length := by
        rw [ha, List.length_append, List.length_take, List.length_cons]; omega
      have hsplit : x :: a1 ++ tail = tr.take m ++ y :: (a' ++ tail) := by rw [ha]; simp
      have hdrop : ∀ i, (a' ++ tail).drop i = (x :: a1 ++ tail).drop (m + 1 + i) := by
        intro i
        have e : tr.take m ++ y :: (a' ++ tail) = (tr.take m ++ [y]) ++ (a' ++ tail) := by simp
        have hl : (tr.take m ++ [y]).length = m + 1 := by rw [List.length_append, List.length_take]; simp; omega
        rw [hsplit, e, ← List.drop_drop, List.drop_left' hl]
      show (unitsRe tr).m mf (x :: a1 ++ tail) p c _ = some r
      rw [hsplit]
      refine units_m_hit mf tr m y _ p c _ r hm hy ?_
      rw [if_pos (by omega)]
      refine ih a' (p + m + 1) (by omega) ?_ ?_ ?_ ?_
      · intro i hi; rw [hdrop]; exact h1 _ (by omega)
      · intro q hq hs
        refine h2 q hq (hs.trans ?_)
        rw [ha]
        exact ⟨tr.take m ++ [y], by simp⟩
      · intro i hi
        have := h3 (m + 1 + i) (by omega)
        rw [hdrop]
        simpa [Nat.add_assoc] using this
      · rw [hlen] at hk
        simpa [Nat.add_assoc] using hk

/-- `((?:EXCL)+?)` as a group on non-empty arguments `a`: takes exactly `a` when `a` neither contains
    the start of an occurrence of the closing delimiter nor ends in a non-empty prefix of it, the
    continuation fails inside `a` and succeeds after it -/
theorem plusLazy_units_group {R} (mf gi : Nat) (tr a tail : Bytes) (p : Nat) (c : Caps) (k : K R) (r : R)
    (ha : a ≠ []) (hf : a.length ≤ mf)
    (h1 : ∀ i, i < a.length → ¬ tr <+: (a ++ tail).drop i)
    (h2 : ∀ q, q ≠ [] → q <:+ a → ¬ q <+: tr)
    (h3 : ∀ i, i < a.length → ∀ c', k ((a ++ tail).drop i) (p + i) c' = none)
    (hk : k tail (p + a.length) (⟨gi, p, p + a.length⟩ :: c) = some r) :
    (Re.group gi (Re.plusLazy (unitsRe tr))).m mf (a ++ tail) p c k = some r := by
  rw [group_m, Re.plusLazy, seq_m]
  obtain ⟨m, y, a', hm, hae, hy⟩ := unit_exists tr a tail ha (by simpa using h1 0 (List.length_pos_iff.mpr ha)) h2
  have hlen : a.length = m + 1 + a'.length := by
    rw [hae, List.length_append, List.length_take, List.length_cons]; omega
  have hsplit : a ++ tail = tr.take m ++ y :: (a' ++ tail) := by rw [hae]; simp
  have hdrop : ∀ i, (a' ++ tail).drop i = (a ++ tail).drop (m + 1 + i) := by
    intro i
    have e : tr.take m ++ y :: (a' ++ tail) = (tr.take m ++ [y]) ++ (a' ++ tail) := by simp
    have hl : (tr.take m ++ [y]).length = m + 1 := by rw [List.length_append, List.length_take]; simp; omega
    rw [hsplit, e, ← List.drop_drop, List.drop_left' hl]
  rw [hsplit]
  refine units_m_hit mf tr m y _ p c _ r hm hy ?_
  rw [star_m]
  refine lazyUnits mf tr tail c _ r mf a' (p + m + 1) (by omega) ?_ ?_ ?_ ?_
  · intro i hi; rw [hdrop]; exact h1 _ (by omega)
  · intro q hq hs
    refine h2 q hq (hs.trans ?_)
    rw [hae]
    exact ⟨tr.take m ++ [y], by simp⟩
  · intro i hi
    have := h3 (m + 1 + i) (by omega) (⟨gi, p, p + m + 1 + i⟩ :: c)
    rw [hdrop]
    simpa [Nat.add_assoc] using this
  · rw [hlen] at hk
    simpa [Nat.add_assoc] using hk
