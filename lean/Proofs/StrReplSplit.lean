import Liquid.Filters.Str
import Proofs.Utf8Lemmas
/-!
# `strings.Index` / `strings.Replace` / `strings.Split` / `strings.Join` models: specification lemmas
-/

namespace SRS

theorem indexOf_spec (pat : Bytes) : ∀ (s : Bytes) (i : Nat), StrF.indexOf pat s = some i →
    i ≤ s.length ∧ pat <+: s.drop i ∧ ∀ j, j < i → ¬ pat <+: s.drop j
  | [], i, h => by
    simp only [StrF.indexOf] at h
    split at h
    · cases h
      rename_i hp
      simp_all
    · cases h
  | b :: rest, i, h => by
    simp only [StrF.indexOf] at h
    split at h
    · rename_i hp
      cases h
      exact ⟨Nat.zero_le _, (isPrefixOfB_iff _ _).1 hp, fun j hj => absurd hj (Nat.not_lt_zero _)⟩
    · rename_i hp
      cases hi : StrF.indexOf pat rest with
      | none => simp [hi] at h
      | some k =>
        simp [hi] at h
        subst h
        obtain ⟨h1, h2, h3⟩ := indexOf_spec pat rest k hi
        refine ⟨by simp; omega, by simpa using h2, ?_⟩
        intro j hj
        cases j with
        | zero => simpa [isPrefixOfB_iff] using hp
        | succ j => simpa using h3 j (by omega)

theorem indexOf_none_spec (pat : Bytes) : ∀ (s : Bytes), StrF.indexOf pat s = none →
    ∀ j, j ≤ s.length → ¬ pat <+: s.drop j
  | [], h, j, hj => by
    simp only [StrF.indexOf] at h
    split at h
    · cases h
    · rename_i hp
      simp at hj
      subst hj
      simpa using hp
  | b :: rest, h, j, hj => by
    simp only [StrF.indexOf] at h
    split at h
    · cases h
    · rename_i hp
      have hr : StrF.indexOf pat rest = none := by simpa using h
      cases j with
      | zero => simpa [isPrefixOfB_iff] using hp
      | succ j =>
        simpa using indexOf_none_spec pat rest hr j (by simpa using hj)

end SRS

/-! ## A. `indexOf` -/

theorem indexOf_some (pat s : Bytes) (i : Nat) (h : StrF.indexOf pat s = some i) :
    i + pat.length ≤ s.length ∧ s = s.take i ++ pat ++ s.drop (i + pat.length) ∧
      ∀ j, j < i → ¬ pat <+: s.drop j := by
  obtain ⟨h1, ⟨t, ht⟩, h3⟩ := SRS.indexOf_spec pat s i h
  have hlen : (s.drop i).length = pat.length + t.length := by rw [← ht]; simp
  have hd : s.drop (i + pat.length) = t := by
    rw [← List.drop_drop, ← ht]; simp
  refine ⟨by simp at hlen; omega, ?_, h3⟩
  rw [hd, List.append_assoc, ht, List.take_append_drop]

theorem indexOf_none (pat s : Bytes) (h : StrF.indexOf pat s = none) :
    ∀ j, j ≤ s.length → ¬ pat <+: s.drop j :=
  SRS.indexOf_none_spec pat s h

theorem indexOf_append_disjoint (p sep rest : Bytes) (hsep : sep ≠ []) (hd : ∀ b ∈ p, b ∉ sep) :
    StrF.indexOf sep (p ++ sep ++ rest) = some p.length := by
  induction p with
  | nil =>
    cases sep with
    | nil => exact absurd rfl hsep
    | cons c cs =>
      have : isPrefixOfB (c :: cs) (c :: (cs ++ rest)) = true :=
        (isPrefixOfB_iff _ _).2 ⟨rest, by simp⟩
      simp [StrF.indexOf, this]
  | cons a p ih =>
    cases sep with
    | nil => exact absurd rfl hsep
    | cons c cs =>
      have hac : ¬ c = a := by
        intro hca
        exact hd a (by simp) (by simp [hca])
      have ih' := ih (fun b hb => hd b (List.mem_cons_of_mem _ hb))
      have hpf : isPrefixOfB (c :: cs) (a :: (p ++ c :: cs ++ rest)) = false := by
        simp [isPrefixOfB, hac]
      simp only [List.cons_append] at ih' ⊢
      rw [StrF.indexOf, hpf, ih']
      simp

theorem indexOf_disjoint_none (p sep : Bytes) (hsep : sep ≠ []) (hd : ∀ b ∈ p, b ∉ sep) :
    StrF.indexOf sep p = none := by
  induction p with
  | nil =>
    cases sep with
    | nil => exact absurd rfl hsep
    | cons c cs => simp [StrF.indexOf]
  | cons a p ih =>
    cases sep with
    | nil => exact absurd rfl hsep
    | cons c cs =>
      have hac : ¬ c = a := by
        intro hca
        exact hd a (by simp) (by simp [hca])
      have ih' := ih (fun b hb => hd b (List.mem_cons_of_mem _ hb))
      have hpf : isPrefixOfB (c :: cs) (a :: p) = false := by
        simp [isPrefixOfB, hac]
      rw [StrF.indexOf, hpf, ih']
      simp

/-! ## B. `replace` / `remove` -/

namespace SRS

theorem indexOf_nil_pat (s : Bytes) : StrF.indexOf [] s = some 0 := by
  cases s <;> simp [StrF.indexOf, isPrefixOfB]

theorem indexOf_nil_str (pat : Bytes) (h : pat ≠ []) : StrF.indexOf pat [] = none := by
  cases pat with
  | nil => exact absurd rfl h
  | cons c cs => simp [StrF.indexOf]

theorem isEmpty_false {pat : Bytes} (h : pat ≠ []) : pat.isEmpty = false := by
  cases pat with
  | nil => exact absurd rfl h
  | cons c cs => rfl

theorem replaceNE_fuel (old new : Bytes) (hold : old ≠ []) : ∀ (n m : Nat) (s : Bytes),
    s.length ≤ n → s.length ≤ m → StrF.replaceNE old new n s = StrF.replaceNE old new m s := by
  have hpos : 0 < old.length := List.length_pos_iff.2 hold
  have hnil : ∀ k, StrF.replaceNE old new k [] = [] := by
    intro k
    cases k with
    | zero => rfl
    | succ k => simp [StrF.replaceNE, indexOf_nil_str old hold]
  intro n
  induction n with
  | zero =>
    intro m s hn hm
    have : s = [] := List.eq_nil_of_length_eq_zero (by omega)
    subst this
    rw [hnil, hnil]
  | succ n ih =>
    intro m s hn hm
    cases m with
    | zero =>
      have : s = [] := List.eq_nil_of_length_eq_zero (by omega)
      subst this
      rw [hnil, hnil]
    | succ m =>
      simp only [StrF.replaceNE]
      cases hi : StrF.indexOf old s with
      | none => rfl
      | some i =>
        simp only
        rw [ih m (s.drop (i + old.length)) (by simp; omega) (by simp; omega)]

theorem replaceNE_length_le (old : Bytes) : ∀ (n : Nat) (s : Bytes),
    (StrF.replaceNE old [] n s).length ≤ s.length := by
  intro n
  induction n with
  | zero => intro s; simp [StrF.replaceNE]
  | succ n ih =>
    intro s
    simp only [StrF.replaceNE]
    cases hi : StrF.indexOf old s with
    | none => simp
    | some i =>
      have := ih (s.drop (i + old.length))
      simp at this ⊢
      omega

end SRS

theorem replace_self_lemma (s p : Bytes) : StrF.replace s p p = s := by
  simp [StrF.replace]

theorem replaceFirst_self (s p : Bytes) : StrF.replaceFirst s p p = s := by
  simp [StrF.replaceFirst]

theorem remove_eq_replace (s p : Bytes) : StrF.remove s p = StrF.replace s p [] := rfl

theorem remove_length_le (s p : Bytes) : (StrF.remove s p).length ≤ s.length := by
  unfold StrF.remove StrF.replace
  by_cases hp : p = []
  · simp [hp]
  · rw [if_neg hp, SRS.isEmpty_false hp]
    simpa using SRS.replaceNE_length_le p s.length s

theorem removeFirst_length_le (s p : Bytes) : (StrF.removeFirst s p).length ≤ s.length := by
  unfold StrF.removeFirst StrF.replaceFirst
  by_cases hp : p = []
  · simp [hp]
  · rw [if_neg hp]
    cases hi : StrF.indexOf p s with
    | none => simp
    | some i => simp; omega

theorem replace_absent (s old new : Bytes) (h : StrF.indexOf old s = none) :
    StrF.replace s old new = s := by
  have hold : old ≠ [] := by
    intro h0
    subst h0
    rw [SRS.indexOf_nil_pat] at h
    cases h
  unfold StrF.replace
  by_cases hon : old = new
  · simp [hon]
  · rw [if_neg hon, SRS.isEmpty_false hold]
    cases hl : s.length with
    | zero => simp [StrF.replaceNE]
    | succ n => simp [StrF.replaceNE, h]

theorem replace_step (a rest old new : Bytes) (hold : old ≠ []) (hne : old ≠ new)
    (hfirst : StrF.indexOf old (a ++ old ++ rest) = some a.length) :
    StrF.replace (a ++ old ++ rest) old new = a ++ new ++ StrF.replace rest old new := by
  have hpos : 0 < old.length := List.length_pos_iff.2 hold
  unfold StrF.replace
  rw [if_neg hne, if_neg hne, SRS.isEmpty_false hold]
  simp only [Bool.false_eq_true, if_false]
  have hl : (a ++ old ++ rest).length = (a.length + old.length + rest.length - 1) + 1 := by
    simp; omega
  rw [hl, StrF.replaceNE, hfirst]
  simp only
  have h1 : (a ++ old ++ rest).take a.length = a := by
    rw [List.append_assoc, List.take_left]
  have h2 : (a ++ old ++ rest).drop (a.length + old.length) = rest := by
    have : a.length + old.length = (a ++ old).length := by simp
    rw [this, List.drop_left]
  rw [h1, h2]
  congr 1
  exact SRS.replaceNE_fuel old new hold _ _ rest (by omega) (Nat.le_refl _)

theorem replaceFirst_step (a rest old new : Bytes) (hne : old ≠ new)
    (hfirst : StrF.indexOf old (a ++ old ++ rest) = some a.length) :
    StrF.replaceFirst (a ++ old ++ rest) old new = a ++ new ++ rest := by
  unfold StrF.replaceFirst
  rw [if_neg hne, hfirst]
  simp only
  have h1 : (a ++ old ++ rest).take a.length = a := by
    rw [List.append_assoc, List.take_left]
  have h2 : (a ++ old ++ rest).drop (a.length + old.length) = rest := by
    have : a.length + old.length = (a ++ old).length := by simp
    rw [this, List.drop_left]
  rw [h1, h2]

theorem replace_empty_old (s new : Bytes) (hne : new ≠ []) :
    StrF.replace s [] new = StrF.insertAround new s := by
  unfold StrF.replace
  rw [if_neg (fun h => hne h.symm)]
  rfl

/-! ## C. `split` / `join` -/

namespace SRS

theorem join_cons_of_ne_nil (sep p : Bytes) (l : List Bytes) (hl : l ≠ []) :
    StrF.join sep (p :: l) = p ++ sep ++ StrF.join sep l := by
  cases l with
  | nil => exact absurd rfl hl
  | cons q l => rfl

theorem join_nil_sep : ∀ (ps : List Bytes), StrF.join [] ps = ps.flatten
  | [] => rfl
  | [p] => by simp [StrF.join]
  | p :: q :: ps => by
    rw [StrF.join, join_nil_sep (q :: ps)]
    simp

theorem splitNE_ne_nil (sep : Bytes) (n : Nat) (s : Bytes) : StrF.splitNE sep n s ≠ [] := by
  cases n with
  | zero => simp [StrF.splitNE]
  | succ n =>
    simp only [StrF.splitNE]
    cases StrF.indexOf sep s <;> simp

theorem dropTrailingEmpty_eq (ps : List Bytes) (h : ps.getLast? ≠ some []) :
    StrF.dropTrailingEmpty ps = ps := by
  unfold StrF.dropTrailingEmpty
  rw [← List.head?_reverse] at h
  cases hr : ps.reverse with
  | nil => simp [List.reverse_eq_nil_iff.1 hr]
  | cons x xs =>
    rw [hr] at h
    have hx : x ≠ [] := by simpa using h
    rw [List.dropWhile_cons, isEmpty_false hx]
    simp only [Bool.false_eq_true, if_false]
    rw [← hr, List.reverse_reverse]

theorem dropTrailingEmpty_getLast (ps : List Bytes) :
    (StrF.dropTrailingEmpty ps).getLast? ≠ some [] := by
  unfold StrF.dropTrailingEmpty
  rw [List.getLast?_reverse]
  intro h
  have := List.head?_dropWhile_not (fun b : Bytes => b.isEmpty) ps.reverse
  rw [h] at this
  simp at this

theorem getLast?_ne_of_all_ne (ps : List Bytes) (h : ∀ p ∈ ps, p ≠ []) :
    ps.getLast? ≠ some [] := by
  intro hl
  exact h [] (List.mem_of_getLast? hl) rfl

end SRS

theorem splitNE_join (sep : Bytes) (ps : List Bytes) (hsep : sep ≠ [])
    (hps : ∀ p ∈ ps, ∀ b ∈ p, b ∉ sep) (hne : ps ≠ []) (n : Nat)
    (hn : (StrF.join sep ps).length ≤ n) : StrF.splitNE sep n (StrF.join sep ps) = ps := by
  have hpos : 0 < sep.length := List.length_pos_iff.2 hsep
  induction ps generalizing n with
  | nil => exact absurd rfl hne
  | cons p l ih =>
    cases l with
    | nil =>
      have hnone := indexOf_disjoint_none p sep hsep (hps p (by simp))
      cases n with
      | zero => simp [StrF.join, StrF.splitNE]
      | succ n => simp [StrF.join, StrF.splitNE, hnone]
    | cons q l =>
      rw [StrF.join] at hn ⊢
      have hidx := indexOf_append_disjoint p sep (StrF.join sep (q :: l)) hsep (hps p (by simp))
      cases n with
      | zero => simp only [List.length_append] at hn; omega
      | succ n =>
        rw [StrF.splitNE, hidx]
        simp only
        have h1 : (p ++ sep ++ StrF.join sep (q :: l)).take p.length = p := by
          rw [List.append_assoc, List.take_left]
        have h2 : (p ++ sep ++ StrF.join sep (q :: l)).drop (p.length + sep.length)
            = StrF.join sep (q :: l) := by
          have : p.length + sep.length = (p ++ sep).length := by simp
          rw [this, List.drop_left]
        rw [h1, h2, ih (fun r hr => hps r (List.mem_cons_of_mem _ hr)) (by simp) n
          (by simp only [List.length_append] at hn; omega)]

theorem split_join_lemma (sep : Bytes) (ps : List Bytes) (hsep : sep ≠ []) (hsp : sep ≠ [32])
    (hps : ∀ p ∈ ps, p ≠ [] ∧ ∀ b ∈ p, b ∉ sep) (hne : ps ≠ []) :
    StrF.split (StrF.join sep ps) sep = ps := by
  unfold StrF.split StrF.splitRaw
  rw [if_neg hsp, SRS.isEmpty_false hsep]
  simp only [Bool.false_eq_true, if_false]
  rw [splitNE_join sep ps hsep (fun p hp => (hps p hp).2) hne _ (Nat.le_refl _)]
  exact SRS.dropTrailingEmpty_eq ps (SRS.getLast?_ne_of_all_ne ps (fun p hp => (hps p hp).1))

namespace SRS

theorem splitWSGo_nospace (p : Bytes) (hp : ∀ b ∈ p, StrF.isAsciiSpace b = false) :
    ∀ (cur rest : Bytes),
      StrF.splitWSGo false cur (p ++ rest) = StrF.splitWSGo false (p.reverse ++ cur) rest := by
  induction p with
  | nil => intro cur rest; rfl
  | cons b p ih =>
    intro cur rest
    have hb : StrF.isAsciiSpace b = false := hp b (by simp)
    rw [List.cons_append, StrF.splitWSGo, hb]
    simp only [Bool.false_eq_true, if_false]
    rw [ih (fun c hc => hp c (List.mem_cons_of_mem _ hc))]
    simp

theorem splitWSGo_true_cons (b : UInt8) (t : Bytes) (hb : StrF.isAsciiSpace b = false) :
    StrF.splitWSGo true [] (b :: t) = StrF.splitWSGo false [] (b :: t) := by
  rw [StrF.splitWSGo, StrF.splitWSGo, hb]
  simp

theorem join_head (sep q : Bytes) (l : List Bytes) : ∃ X, StrF.join sep (q :: l) = q ++ X := by
  cases l with
  | nil => exact ⟨[], by simp [StrF.join]⟩
  | cons r l => exact ⟨sep ++ StrF.join sep (r :: l), by simp [StrF.join]⟩

theorem splitWS_join : ∀ (ps : List Bytes), ps ≠ [] →
    (∀ p ∈ ps, p ≠ [] ∧ ∀ b ∈ p, StrF.isAsciiSpace b = false) →
    StrF.splitWSGo false [] (StrF.join [32] ps) = ps := by
  intro ps
  induction ps with
  | nil => intro h; exact absurd rfl h
  | cons p l ih =>
    intro _ hps
    have hp := (hps p (by simp)).2
    cases l with
    | nil =>
      have h := splitWSGo_nospace p hp [] []
      simp only [List.append_nil] at h
      rw [StrF.join, h, StrF.splitWSGo, List.reverse_reverse]
    | cons q l =>
      have hq := hps q (by simp)
      obtain ⟨X, hX⟩ := join_head [32] q l
      have ih' := ih (by simp) (fun r hr => hps r (List.mem_cons_of_mem _ hr))
      rw [StrF.join, List.append_assoc, splitWSGo_nospace p hp]
      simp only [List.append_nil, List.singleton_append]
      rw [StrF.splitWSGo]
      have h32 : StrF.isAsciiSpace 32 = true := by decide
      rw [h32]
      simp only [if_true, Bool.false_eq_true, if_false, List.reverse_reverse]
      congr 1
      cases hqc : q with
      | nil => exact absurd hqc hq.1
      | cons b t =>
        have hb : StrF.isAsciiSpace b = false := hq.2 b (by simp [hqc])
        rw [hqc] at hX ih'
        rw [hX] at ih' ⊢
        rw [List.cons_append] at ih' ⊢
        rw [splitWSGo_true_cons b _ hb, ih']

theorem runeChunksAux_spec : ∀ (n : Nat) (s : Bytes), s.length ≤ n →
    (StrF.runeChunksAux n s).flatten = s ∧ ∀ p ∈ StrF.runeChunksAux n s, p ≠ [] := by
  intro n
  induction n with
  | zero =>
    intro s hs
    have : s = [] := List.eq_nil_of_length_eq_zero (by omega)
    subst this
    simp [StrF.runeChunksAux]
  | succ n ih =>
    intro s hs
    cases s with
    | nil => simp [StrF.runeChunksAux]
    | cons b rest =>
      simp only [StrF.runeChunksAux]
      have hw : 1 ≤ max (decodeRune (b :: rest)).2 1 := Nat.le_max_right _ _
      obtain ⟨h1, h2⟩ := ih ((b :: rest).drop (max (decodeRune (b :: rest)).2 1))
        (by simp only [List.length_drop, List.length_cons] at hs ⊢; omega)
      refine ⟨?_, ?_⟩
      · rw [List.flatten_cons, h1, List.take_append_drop]
      · intro p hp
        rcases List.mem_cons.1 hp with hp | hp
        · subst hp
          intro h0
          have := congrArg List.length h0
          simp only [List.length_take, List.length_cons, List.length_nil] at this
          omega
        · exact h2 p hp

theorem splitNE_last_empty (sep : Bytes) : ∀ (n : Nat) (s : Bytes),
    (StrF.splitNE sep n s).getLast? = some [] → s = [] ∨ sep <:+ s := by
  intro n
  induction n with
  | zero =>
    intro s h
    left
    simpa [StrF.splitNE] using h
  | succ n ih =>
    intro s h
    simp only [StrF.splitNE] at h
    cases hi : StrF.indexOf sep s with
    | none =>
      rw [hi] at h
      left
      simpa using h
    | some i =>
      rw [hi] at h
      simp only at h
      rw [List.getLast?_cons_of_ne_nil (splitNE_ne_nil _ _ _)] at h
      obtain ⟨_, hs, _⟩ := indexOf_some sep s i hi
      right
      rcases ih _ h with h0 | h0
      · rw [h0, List.append_nil] at hs
        exact ⟨s.take i, hs.symm⟩
      · exact List.IsSuffix.trans h0 (List.drop_suffix _ _)

end SRS

theorem split_join_ws (ps : List Bytes)
    (hps : ∀ p ∈ ps, p ≠ [] ∧ ∀ b ∈ p, StrF.isAsciiSpace b = false) (hne : ps ≠ []) :
    StrF.split (StrF.join [32] ps) [32] = ps := by
  unfold StrF.split StrF.splitRaw StrF.splitWS
  rw [if_pos rfl, SRS.splitWS_join ps hne hps]
  exact SRS.dropTrailingEmpty_eq ps (SRS.getLast?_ne_of_all_ne ps (fun p hp => (hps p hp).1))

set_option linter.unusedVariables false in
theorem join_splitNE (sep s : Bytes) (hsep : sep ≠ []) (n : Nat) (hn : s.length ≤ n) :
    StrF.join sep (StrF.splitNE sep n s) = s := by
  clear hn
  induction n generalizing s with
  | zero => simp [StrF.splitNE, StrF.join]
  | succ n ih =>
    simp only [StrF.splitNE]
    cases hi : StrF.indexOf sep s with
    | none => simp [StrF.join]
    | some i =>
      simp only
      rw [SRS.join_cons_of_ne_nil _ _ _ (SRS.splitNE_ne_nil _ _ _), ih]
      exact (indexOf_some sep s i hi).2.1.symm

theorem join_split_lemma (s sep : Bytes) (hsp : sep ≠ [32]) (hend : sep = [] ∨ ¬ sep <:+ s) :
    StrF.join sep (StrF.split s sep) = s := by
  unfold StrF.split StrF.splitRaw
  rw [if_neg hsp]
  by_cases hsep : sep = []
  · subst hsep
    simp only [List.isEmpty_nil, if_true]
    obtain ⟨h1, h2⟩ := SRS.runeChunksAux_spec s.length s (Nat.le_refl _)
    unfold StrF.runeChunks
    rw [SRS.dropTrailingEmpty_eq _ (SRS.getLast?_ne_of_all_ne _ h2), SRS.join_nil_sep, h1]
  · have hns : ¬ sep <:+ s := by
      rcases hend with h | h
      · exact absurd h hsep
      · exact h
    rw [SRS.isEmpty_false hsep]
    simp only [Bool.false_eq_true, if_false]
    by_cases hs : s = []
    · subst hs
      simp [StrF.splitNE, StrF.dropTrailingEmpty, StrF.join]
    · rw [SRS.dropTrailingEmpty_eq]
      · exact join_splitNE sep s hsep _ (Nat.le_refl _)
      · intro h
        rcases SRS.splitNE_last_empty sep _ s h with h0 | h0
        · exact hs h0
        · exact hns h0

theorem split_no_trailing_empty (s sep : Bytes) : (StrF.split s sep).getLast? ≠ some [] :=
  SRS.dropTrailingEmpty_getLast _

/-! ## D. Non-vacuity examples -/

example : StrF.replace [97,98,97,98] [97,98] [99] = [99,99] := by decide
example : StrF.replaceFirst [97,98,97,98] [97,98] [99] = [99,97,98] := by decide
example : StrF.remove [97,98,97,98] [98] = [97,97] := by decide
example : StrF.indexOf [98] [97,98,97,98] = some 1 := by decide
example : StrF.indexOf [99] [97,98,97,98] = none := by decide
example : StrF.split [97,44,98,44,44] [44] = [[97],[98]] := by decide
example : StrF.split [32,97,9,10,98,32] [32] = [[],[97],[98]] := by decide
example : StrF.replace [195,169,98] [] [45] = [45,195,169,45,98,45] := by decide
example : StrF.split [195,169,98] [] = [[195,169],[98]] := by decide
example : StrF.join [44,32] [[97],[],[98]] = [97,44,32,44,32,98] := by decide

/-- the hypotheses of the round-trip theorems are satisfiable -/
example : StrF.split (StrF.join [44] [[97],[98,99]]) [44] = [[97],[98,99]] :=
  split_join_lemma [44] _ (by decide) (by decide) (by decide) (by decide)
example : StrF.split (StrF.join [32] [[97],[98,99]]) [32] = [[97],[98,99]] :=
  split_join_ws _ (by decide) (by decide)
example : StrF.join [44] (StrF.split [97,44,44,98] [44]) = [97,44,44,98] :=
  join_split_lemma _ _ (by decide) (Or.inr (by decide))
example : StrF.replace ([120] ++ [97,98] ++ [97,98,121]) [97,98] [45] = [120] ++ [45] ++ StrF.replace [97,98,121] [97,98] [45] :=
  replace_step _ _ _ _ (by decide) (by decide) (by decide)
