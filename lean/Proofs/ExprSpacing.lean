import Proofs.ExprLexemes
/-!
# Whitespace between lexemes (helper lemmas for `Proofs/C08Source.lean`)

A source text is presented as a list of `Piece`s: a lexeme with the whitespace written in front of it.
`lexRun_pieces`: when every separator is whitespace and every lexeme `fits` what follows it, the scanner
returns exactly the tokens of the lexemes (`lexemeToks`), which do not depend on the separators.
-/

set_option linter.unusedSimpArgs false

/-- all bytes are scanner whitespace (`space+`: space, `\t \n \v \f \r`) -/
def isSpaces (w : Bytes) : Bool := w.all isLexSpace

structure Piece where
  /-- the whitespace written before the lexeme -/
  ws : Bytes
  rule : Rule
  text : Bytes

/-- the source text of a list of pieces -/
def Piece.src : List Piece → Bytes
  | [] => []
  | p :: ps => p.ws ++ p.text ++ Piece.src ps

/-- what the scanner returns for a sequence of lexemes: their tokens up to the first literal out of range -/
def lexemeToks : List (Rule × Bytes) → List ETok × Option (Res LexErr Unit)
  | [] => ([], none)
  | x :: xs => consTok (mkTok x.1 x.2) (lexemeToks xs)

def Piece.lexeme (p : Piece) : Rule × Bytes := (p.rule, p.text)

/-- separators are whitespace, lexemes are lexemes, and each lexeme `fits` the text that follows it -/
def WellSpaced : List Piece → Prop
  | [] => True
  | p :: ps => isSpaces p.ws = true ∧ Lexeme p.rule p.text ∧ fits p.rule p.text (Piece.src ps) = true ∧ WellSpaced ps

theorem punct_not_space : ∀ c : UInt8, isPunct c = true → isLexSpace c = false := by decide +kernel
theorem digit_not_space : ∀ c : UInt8, isDigit c = true → isLexSpace c = false := by decide +kernel
theorem idStart_not_space : ∀ c : UInt8, isIdStart c = true → isLexSpace c = false := by decide +kernel
theorem quote_not_space : ∀ c : UInt8, (c == 34 || c == 39) = true → isLexSpace c = false := by decide +kernel
theorem opStart_not_space : ∀ c : UInt8, isOpStart c = true → isLexSpace c = false := by decide +kernel

/-- a lexeme never starts with whitespace -/
theorem Lexeme.head_not_space {r : Rule} {l : Bytes} (h : Lexeme r l) (rest : Bytes) :
    headOK (fun b => !isLexSpace b) (l ++ rest) = true := by
  cases h with
  | int sg ds hs hne hd =>
    cases ds with
    | nil => exact absurd rfl hne
    | cons d t =>
      simp only [List.all_cons, Bool.and_eq_true] at hd
      rcases hs with rfl | rfl
      · simp [headOK, digit_not_space d hd.1]
      · simp [headOK, isLexSpace]
  | float sg ds fs hs hne hd _ _ =>
    cases ds with
    | nil => exact absurd rfl hne
    | cons d t =>
      simp only [List.all_cons, Bool.and_eq_true] at hd
      rcases hs with rfl | rfl
      · simp [headOK, digit_not_space d hd.1]
      · simp [headOK, isLexSpace]
  | string q body hq _ => simp [headOK, quote_not_space q hq]
  | word c body qm hc _ _ => simp [headOK, idStart_not_space c hc]
  | keyword c body qm hc _ _ => simp [headOK, idStart_not_space c hc]
  | property => simp [headOK, isLexSpace]
  | op2 c hc => simp [headOK, opStart_not_space c hc]
  | dotdot => simp [headOK, isLexSpace]
  | punct c hc => simp [headOK, punct_not_space c hc]
  | selAssign => simp [headOK, kwAssign, isLexSpace]
  | selCycle => simp [headOK, kwCycle, isLexSpace]
  | selLoop => simp [headOK, kwLoop, isLexSpace]
  | selWhen => simp [headOK, kwWhen, isLexSpace]

/-- a run of whitespace before a non-whitespace byte (or the end) is skipped -/
theorem lexRun_spaces (w rest : Bytes) (hw : isSpaces w = true) (hr : headOK (fun b => !isLexSpace b) rest = true) :
    lexRun (w ++ rest) = lexRun rest := by
  cases w with
  | nil => rfl
  | cons c t =>
    simp only [isSpaces, List.all_cons, Bool.and_eq_true] at hw
    have hstep : lexStep ((c :: t) ++ rest) = some (.rSpace, (c :: t).length) := by
      rw [List.cons_append, lexStep_space c _ hw.1, spanLen_append _ _ _ hw.2, spanLen_headOK _ _ hr]
      simp
    rw [lexRun_append (c :: t) rest .rSpace (by simp) hstep]
    rfl

theorem src_append (ps qs : List Piece) : Piece.src (ps ++ qs) = Piece.src ps ++ Piece.src qs := by
  induction ps with
  | nil => rfl
  | cons p ps ih => simp [Piece.src, ih]

/-- **the scanner on well-spaced pieces** returns the tokens of the lexemes, whatever the separators are -/
theorem lexRun_pieces (ps : List Piece) (h : WellSpaced ps) :
    lexRun (Piece.src ps) = lexemeToks (ps.map Piece.lexeme) := by
  induction ps with
  | nil => rfl
  | cons p ps ih =>
    obtain ⟨hw, hl, hf, hrest⟩ := h
    simp only [Piece.src, List.map_cons, lexemeToks, Piece.lexeme, List.append_assoc]
    rw [lexRun_spaces _ _ hw (hl.head_not_space _),
      lexRun_append p.text _ p.rule hl.ne_nil (lexStep_lexeme _ _ _ hl hf), ih hrest]

/-! ## From tokens to the parse -/

/-- `parseSource` after the scanner -/
def parseOfLex (x : List ETok × Option (Res LexErr Unit)) : Res ParseErr Stmt :=
  match x with
  | (_, some (.err _)) => .err .syntax
  | (_, some (.panic w)) => .panic w
  | (_, some (.unmodelled w)) => .unmodelled w
  | (_, some (.ok _)) => .err .syntax
  | (toks, none) =>
    match parseTokensE toks with
    | some s => .ok s
    | none => .err .syntax

theorem parseSource_eq (src : Bytes) : parseSource src = parseOfLex (lexRun (src ++ [59])) := by
  unfold parseSource parseOfLex
  rw [lex_eq_lexRun]
  rfl

/-- the closing `;` that `parse` appends, as a piece after the trailing whitespace `w` -/
def semiPiece (w : Bytes) : Piece := ⟨w, .rAny, [59]⟩

theorem lexeme_semi : Lexeme .rAny [59] := Lexeme.punct 59 (by decide)

theorem parseSource_pieces (ps : List Piece) (w : Bytes) (h : WellSpaced (ps ++ [semiPiece w])) :
    parseSource (Piece.src ps ++ w) = parseOfLex (lexemeToks (ps.map Piece.lexeme ++ [(.rAny, [59])])) := by
  rw [parseSource_eq]
  have : Piece.src ps ++ w ++ [59] = Piece.src (ps ++ [semiPiece w]) := by
    rw [src_append]; simp [Piece.src, semiPiece]
  rw [this, lexRun_pieces _ h]
  simp [Piece.lexeme, semiPiece]

/-! ## Layouts: the same lexemes with different separators -/

/-- the lexemes `ls` with the separators `f i, f (i+1), …` written in front of them -/
def layoutFrom (f : Nat → Bytes) : Nat → List (Rule × Bytes) → List Piece
  | _, [] => []
  | i, x :: xs => ⟨f i, x.1, x.2⟩ :: layoutFrom f (i + 1) xs

theorem layoutFrom_lexemes (f : Nat → Bytes) (i : Nat) (ls : List (Rule × Bytes)) :
    (layoutFrom f i ls).map Piece.lexeme = ls := by
  induction ls generalizing i with
  | nil => rfl
  | cons x xs ih => simp [layoutFrom, Piece.lexeme, ih]

/-- the text either is empty or starts with a break byte -/
def startsWithBreak (s : Bytes) : Bool := headOK isBreak s

theorem fits_startsWithBreak (r : Rule) (l s : Bytes) (hl : Lexeme r l) (hs : startsWithBreak s = true) :
    fits r l s = true := by
  cases s with
  | nil => exact fits_nil r l hl
  | cons b t => exact fits_break r l b t hl hs

theorem startsWithBreak_spaces (w rest : Bytes) (hw : isSpaces w = true) (hne : w ≠ []) : startsWithBreak (w ++ rest) = true := by
  cases w with
  | nil => exact absurd rfl hne
  | cons c t =>
    simp only [isSpaces, List.all_cons, Bool.and_eq_true] at hw
    exact space_isBreak c hw.1

/-- lexemes separated by non-empty whitespace are well spaced, in front of any well-spaced tail that
    starts with a break byte -/
theorem wellSpaced_layout (f : Nat → Bytes) (ls : List (Rule × Bytes)) (tail : List Piece)
    (hl : ∀ x ∈ ls, Lexeme x.1 x.2) (hsp : ∀ i, isSpaces (f i) = true)
    (ht : WellSpaced tail) (htb : startsWithBreak (Piece.src tail) = true) :
    ∀ i, (∀ j, i < j → f j ≠ []) → WellSpaced (layoutFrom f i ls ++ tail) := by
  induction ls with
  | nil => intro i _; exact ht
  | cons x xs ih =>
    intro i hne
    have hx := hl x (List.mem_cons_self ..)
    refine ⟨hsp i, hx, ?_, ih (fun y hy => hl y (List.mem_cons_of_mem _ hy)) (i + 1) (fun j hj => hne j (by omega))⟩
    apply fits_startsWithBreak _ _ _ hx
    cases xs with
    | nil => exact htb
    | cons y ys =>
      show startsWithBreak (f (i + 1) ++ y.2 ++ Piece.src (layoutFrom f (i + 1 + 1) ys ++ tail)) = true
      rw [List.append_assoc]
      exact startsWithBreak_spaces _ _ (hsp _) (hne _ (by omega))

/-- the lexemes `ls` written with the separator `f i` in front of the `i`-th one -/
def spacedText (f : Nat → Bytes) (ls : List (Rule × Bytes)) : Bytes := Piece.src (layoutFrom f 0 ls)

/-- a family of separators: whitespace only, non-empty between two lexemes (the first may be empty) -/
def Separators (f : Nat → Bytes) : Prop := (∀ i, isSpaces (f i) = true) ∧ ∀ i, 0 < i → f i ≠ []

theorem wellSpaced_spacedText (f : Nat → Bytes) (ls : List (Rule × Bytes)) (w : Bytes)
    (hl : ∀ x ∈ ls, Lexeme x.1 x.2) (hf : Separators f) (hw : isSpaces w = true) :
    WellSpaced (layoutFrom f 0 ls ++ [semiPiece w]) := by
  refine wellSpaced_layout f ls [semiPiece w] hl hf.1 ⟨hw, lexeme_semi, rfl, trivial⟩ ?_ 0 hf.2
  cases w with
  | nil => rfl
  | cons c t =>
    simp only [isSpaces, List.all_cons, Bool.and_eq_true] at hw
    exact space_isBreak c hw.1

/-! ## Concrete lexemes and layouts used by the examples of `Proofs/C08Source.lean` -/

theorem lxX : Lexeme .rIdent [120] := Lexeme.word 120 [] [] (by decide) (by decide) (Or.inl rfl)
theorem lxG : Lexeme .rIdent [103] := Lexeme.word 103 [] [] (by decide) (by decide) (Or.inl rfl)
theorem lxBar : Lexeme .rAny [124] := Lexeme.punct 124 (by decide)
theorem lxComma : Lexeme .rAny [44] := Lexeme.punct 44 (by decide)
theorem lxF : Lexeme .rKeyword [102, 58] := Lexeme.keyword 102 [] [] (by decide) (by decide) (Or.inl rfl)
theorem lx1 : Lexeme .rInt [49] := Lexeme.int [] [49] (Or.inl rfl) (by decide) (by decide)
theorem lx2 : Lexeme .rInt [50] := Lexeme.int [] [50] (Or.inl rfl) (by decide) (by decide)

/-- the lexemes of `x | f: 1, 2 | g` -/
def exLexemes : List (Rule × Bytes) :=
  [(.rIdent, [120]), (.rAny, [124]), (.rKeyword, [102, 58]), (.rInt, [49]), (.rAny, [44]), (.rInt, [50]),
   (.rAny, [124]), (.rIdent, [103])]

theorem exLexemes_ok : ∀ x ∈ exLexemes, Lexeme x.1 x.2 := by
  intro x hx
  simp only [exLexemes, List.mem_cons, List.mem_nil_iff, or_false] at hx
  rcases hx with rfl | rfl | rfl | rfl | rfl | rfl | rfl | rfl
  · exact lxX
  · exact lxBar
  · exact lxF
  · exact lx1
  · exact lxComma
  · exact lx2
  · exact lxBar
  · exact lxG

theorem exSepF : Separators (fun i => if i = 0 then [] else [32]) :=
  ⟨fun i => by dsimp only; split <;> rfl, fun i hi => by simp [Nat.ne_of_gt hi]⟩

theorem exSepG : Separators (fun i => [[9], [10], [13, 10], [32, 32], [32], [32], [11], [12]].getD i [32]) :=
  ⟨fun i => by rcases i with _|_|_|_|_|_|_|_|i <;> rfl, fun i _ => by rcases i with _|_|_|_|_|_|_|_|i <;> simp⟩

/-- lexemes may touch where they `fit`: `x|f:1,2|g` is well spaced without any whitespace … -/
def exTight : List Piece :=
  [⟨[], .rIdent, [120]⟩, ⟨[], .rAny, [124]⟩, ⟨[], .rKeyword, [102, 58]⟩, ⟨[], .rInt, [49]⟩, ⟨[], .rAny, [44]⟩,
   ⟨[], .rInt, [50]⟩, ⟨[], .rAny, [124]⟩, ⟨[], .rIdent, [103]⟩]

theorem exTight_ok : WellSpaced (exTight ++ [semiPiece []]) :=
  ⟨rfl, lxX, rfl, rfl, lxBar, rfl, rfl, lxF, rfl, rfl, lx1, rfl, rfl, lxComma, rfl, rfl, lx2, rfl, rfl, lxBar, rfl,
   rfl, lxG, rfl, rfl, lexeme_semi, rfl, trivial⟩


theorem exSepH : Separators (fun i => [[], [10], [13, 10], [32, 32], [32], [9], [11], [12]].getD i [32]) :=
  ⟨fun i => by rcases i with _|_|_|_|_|_|_|_|i <;> rfl,
   fun i hi => by rcases i with _|_|_|_|_|_|_|_|i <;> simp at hi ⊢⟩
