import Proofs.C13
import Proofs.HyphenLemmas2
/-!
# C13 at template level — hyphens of a rendered template

`Proofs/C13.lean` proves the laws of whitespace control for OPERATION LISTS of the trim writer.
This file lifts them to rendered templates (`Liquid/Render.lean`). A hyphen of the source is a
`.trim` node of the compiled tree (`Node.trim true` for `{{-`/`{%-`, `Node.trim false` for
`-}}`/`-%}`); `stripTrims` removes every such node at every depth (block bodies, branches, case
clauses, loop bodies and else-clauses; an included file is a separate source and keeps its
hyphens). All statements are about every context `c` (any primitives, any output layer) whose
include handler renders into a buffer of its own (`IncQuiet`; the engine's does: `incQuiet_mkCtx`),
every tree and every variable map.

* `hyphen_ops`: the render of `nodes` performs on its trim writer the operation list of the render
  of `stripTrims nodes` with `TrimLeft`/`TrimRight` operations inserted, and ends the same way.
* `hyphen_ops_root`: the same for `Render` as a whole (output and underlying calls): the output of
  the template is `runOps ops`, that of the hyphen-free template `runOps (eraseTrims ops)` — the two
  sides of the Part A / Part B theorems of `Proofs/C13.lean`.
* `hyphen_erasure`, `hyphen_same_outcome`: the last sentence of the property for templates.
* `hyphen_free_identity`: a template without hyphens loses nothing.
* the side condition `capTrimFree` (no hyphen inside a `capture` body) and why it is needed:
  `hyphen_in_capture_changes_control_flow`.

Helper lemmas: `Proofs/HyphenTrace.lean`, `Proofs/HyphenLemmas.lean`, `Proofs/HyphenLemmas2.lean`.
-/

open Gen

/-! ## (1) the operations of a template with hyphens -/

/-- **hyphen_ops.** For a tree with no hyphen inside a `capture` body: from every variable map
    there are an operation list `ops` and a result `o` (status and variables, or the error) such
    that the render of `nodes` performs exactly `ops` on its trim writer and ends with `o`, and
    the render of the hyphen-free tree performs exactly `eraseTrims ops` — the same writes and
    flushes in the same order, the `TrimLeft`/`TrimRight` operations left out — and ends with the
    same `o`. "Performs exactly" (`TracedAtL`): whatever text is pending in the trim writer and
    whatever its flag, the calls made on the underlying writer and the final trim-writer state
    are those of `TW.run` on the list. -/
theorem hyphen_ops (c : RCtx) (hc : IncQuiet c) (nodes : List Node) (hcap : capTrimFree nodes = true) (env : Env) :
    ∃ ops o, TracedAtL (renderList c nodes) env ops o ∧
      TracedAtL (renderList c (stripTrims nodes)) env (eraseTrims ops) o := by
  obtain ⟨ops, ops', o, h1, h2, r⟩ := strip_list (fun _ => True) c hc (ctxChunks_true c) nodes hcap (fun _ _ => trivial) env
  exact ⟨ops, o, h1, r.1 ▸ h2⟩

/-- `hyphen_ops` with a bound on what is written: when every chunk the context and the tree can
    contribute satisfies `V` (`CtxChunks`: chunks of printed values, text handed back by `include`,
    `tablerow` decoration; `litChunks`: texts, raw slices, `cycle` values), every write of `ops` does. -/
theorem hyphen_ops_chunks (V : Bytes → Prop) (c : RCtx) (hc : IncQuiet c) (hx : CtxChunks V c) (nodes : List Node)
    (hcap : capTrimFree nodes = true) (hlit : ∀ b ∈ litChunks nodes, V b) (env : Env) :
    ∃ ops o, TracedAtL (renderList c nodes) env ops o ∧
      TracedAtL (renderList c (stripTrims nodes)) env (eraseTrims ops) o ∧ ∀ b, WOp.write b ∈ ops → V b := by
  obtain ⟨ops, ops', o, h1, h2, r⟩ := strip_list V c hc hx nodes hcap hlit env
  exact ⟨ops, o, h1, r.1 ▸ h2, r.2⟩

/-- **hyphen_ops for `Render`.** The whole render (`renderRoot`: the root sequence, then the final
    flush) of the template and of its hyphen-free version, on a fault-free writer, as functions of
    one operation list `ops`: output and outcome are `rootResult ops o` and
    `rootResult (eraseTrims ops) o` — after a normal end `(runOps ops, ok)` and
    `(runOps (eraseTrims ops), ok)`, the two sides of `tw_trim_only_ws`, `tw_trim_subseq`,
    `tw_no_trim_identity`, `tw_trimLeft_adjacent_all`, … — and the calls made on the writer are
    `rootCalls ops o` (`writeCalls ops` after a normal end) and `rootCalls (eraseTrims ops) o`. -/
theorem hyphen_ops_root (c : RCtx) (hc : IncQuiet c) (nodes : List Node) (hcap : capTrimFree nodes = true) (env : Env) :
    ∃ ops o,
      (renderRoot c nodes env).runPure = rootResult ops o ∧
      (renderRoot c (stripTrims nodes) env).runPure = rootResult (eraseTrims ops) o ∧
      (renderRoot c nodes env).calls = rootCalls ops o ∧
      (renderRoot c (stripTrims nodes) env).calls = rootCalls (eraseTrims ops) o := by
  obtain ⟨ops, o, h1, h2⟩ := hyphen_ops c hc nodes hcap env
  exact ⟨ops, o, renderRoot_of_traced c nodes env ops o h1.toTracedAt,
    renderRoot_of_traced c _ env _ o h2.toTracedAt, renderRoot_calls_of_traced c nodes env ops o h1,
    renderRoot_calls_of_traced c _ env _ o h2⟩

/-! ## (2) erasure -/

/-- **hyphen_same_outcome.** Hyphens do not change how a render ends: the template and its
    hyphen-free version end normally, with the same stray `break`/`continue`, or with the SAME error
    (or panic), under exactly the same conditions. -/
theorem hyphen_same_outcome (c : RCtx) (hc : IncQuiet c) (nodes : List Node) (hcap : capTrimFree nodes = true) (env : Env) :
    (renderRoot c nodes env).runPure.2 = (renderRoot c (stripTrims nodes) env).runPure.2 := by
  obtain ⟨ops, o, h1, h2, -, -⟩ := hyphen_ops_root c hc nodes hcap env
  rw [h1, h2]
  exact rootResult_snd _ _ o

/-- one render fails iff the other does, with the same error -/
theorem hyphen_fails_iff (c : RCtx) (hc : IncQuiet c) (nodes : List Node) (hcap : capTrimFree nodes = true) (env : Env)
    (e : RawErr) :
    (renderRoot c nodes env).runPure.2 = .err e ↔ (renderRoot c (stripTrims nodes) env).runPure.2 = .err e := by
  rw [hyphen_same_outcome c hc nodes hcap env]

/-- **hyphen_erasure** (the last sentence of C13, for templates). Let no hyphen stand inside a
    `capture` body, let the template and its hyphen-free version both end normally on a fault-free
    writer with outputs `out` and `out0` (by `hyphen_same_outcome` one does iff the other does), and
    let every call the hyphen-free render makes on its writer be valid UTF-8 (these calls are the
    chunks written, one call per non-empty chunk: `hyphen_free_identity`; on invalid UTF-8 the law
    is false already for operation lists: `tw_erasure_fails_on_invalid_utf8`). Then deleting every
    `unicode.IsSpace` rune from `out` and from `out0` gives the same bytes; `out` is obtained from
    `out0` by deleting whitespace runes only; in particular `out` is a subsequence of `out0`; and
    `out` is valid UTF-8. -/
theorem hyphen_erasure (c : RCtx) (hc : IncQuiet c) (nodes : List Node) (hcap : capTrimFree nodes = true) (env : Env)
    (out out0 : Bytes)
    (h : (renderRoot c nodes env).runPure = (out, .ok .done))
    (h0 : (renderRoot c (stripTrims nodes) env).runPure = (out0, .ok .done))
    (hv : ∀ b ∈ (renderRoot c (stripTrims nodes) env).calls, ValidUtf8 b) :
    stripSpaceBytes out = stripSpaceBytes out0 ∧
    WsDeletion isSpaceRune (decodeRunes out0) (decodeRunes out) ∧
    out.Sublist out0 ∧ ValidUtf8 out := by
  obtain ⟨ops, o, h1, h2, -, h4⟩ := hyphen_ops_root c hc nodes hcap env
  rw [h1] at h
  rw [h2] at h0
  obtain ⟨⟨env', rfl⟩, rfl⟩ := rootResult_done _ _ _ h
  obtain ⟨-, rfl⟩ := rootResult_done _ _ _ h0
  have hvo : ValidOps ops := validOps_of_calls ops (by
    intro b hb
    apply hv
    rw [h4]
    exact hb)
  exact ⟨tw_trim_only_ws ops hvo, tw_trim_subseq ops hvo, (tw_trim_valid_sublist ops hvo).2, (tw_trim_valid_sublist ops hvo).1⟩

/-- when the template ends normally so does its hyphen-free version (and conversely) -/
theorem hyphen_ends_normally_iff (c : RCtx) (hc : IncQuiet c) (nodes : List Node) (hcap : capTrimFree nodes = true)
    (env : Env) :
    (∃ out, (renderRoot c nodes env).runPure = (out, .ok .done)) ↔
      (∃ out0, (renderRoot c (stripTrims nodes) env).runPure = (out0, .ok .done)) := by
  have hs := hyphen_same_outcome c hc nodes hcap env
  constructor
  · rintro ⟨out, h⟩
    refine ⟨(renderRoot c (stripTrims nodes) env).runPure.1, ?_⟩
    rw [h] at hs
    exact Prod.ext rfl hs.symm
  · rintro ⟨out0, h⟩
    refine ⟨(renderRoot c nodes env).runPure.1, ?_⟩
    rw [h] at hs
    exact Prod.ext rfl hs

/-! ## (3) a template without hyphens loses nothing -/

/-- **hyphen_free_identity.** A tree without `.trim` nodes performs a list of writes and flushes
    only (`eraseTrims ops = ops`), and when its render ends normally the output is the
    concatenation of the chunks written (`wopWrites ops`) — moreover every non-empty chunk reaches
    the writer as one call, unchanged and in order. Holds for all bytes, valid UTF-8 or not. -/
theorem hyphen_free_identity (c : RCtx) (hc : IncQuiet c) (nodes : List Node) (hnt : hasTrim nodes = false) (env : Env) :
    ∃ ops o, TracedAtL (renderList c nodes) env ops o ∧ eraseTrims ops = ops ∧
      ∀ out, (renderRoot c nodes env).runPure = (out, .ok .done) →
        out = wopWrites ops ∧ (renderRoot c nodes env).calls = (wopChunks ops).filter (fun b => !b.isEmpty) := by
  obtain ⟨ops1, o, -, h2⟩ := hyphen_ops c hc nodes (capTrimFree_of_noTrim nodes hnt) env
  rw [stripTrims_of_noTrim nodes hnt] at h2
  refine ⟨eraseTrims ops1, o, h2, eraseTrims_idem ops1, fun out h => ?_⟩
  have hr := renderRoot_of_traced c nodes env _ o h2.toTracedAt
  have hcalls := renderRoot_calls_of_traced c nodes env _ o h2
  rw [hr] at h
  obtain ⟨⟨env', rfl⟩, rfl⟩ := rootResult_done _ _ _ h
  refine ⟨tw_no_trim_identity _ (eraseTrims_idem ops1), ?_⟩
  rw [hcalls]
  have := calls_of_trimFree (eraseTrims ops1) []
  rw [eraseTrims_idem] at this
  simpa [rootCalls, writeCalls] using this

/-! ## Examples: non-vacuity, and why hyphens inside a capture are excluded -/

/-- a small context: `==` compares strings, strings print as themselves, no filters, no include -/
def hyPrims : Prims :=
  { equal := fun a b => match a, b with
      | .str x, .str y => .ok (x == y)
      | _, _ => .ok false,
    less := fun _ _ => .ok false, contains := fun _ _ => .ok false,
    equalFn := fun _ _ => .ok false, applyFilter := fun _ v _ => .ok v, hasFilter := fun _ => false }
def hyOut : OutPrims := { chunks := fun v => match v with | .str b => .ok [b] | _ => .ok [] }
def hyCtx : RCtx := { P := hyPrims, O := hyOut, cfg := {}, inc := fun _ _ _ => .unmodelled "no include" }

theorem hyCtx_quiet : IncQuiet hyCtx := fun _ _ _ => trivial

set_option linter.unusedSimpArgs false in
/-- evaluate a render of a concrete tree in `hyCtx` -/
local macro "hy_eval" "[" ts:Lean.Parser.Tactic.simpLemma,* "]" : tactic => `(tactic|
  simp [$ts,*, stripTrims, stripNode, stripBranches, stripCases, stripClauses, renderRoot, renderList, renderNode, renderBranches,
    renderBlockBody, evalCond, wrapFailAt, wrapAt, M.mapFail, M.bind, M.pure, writeM, trimLeftM, trimRightM, flushM, captureM,
    Prog.bind, Prog.mapFail, Prog.runPure, Prog.calls, bind, pure, hyCtx, hyPrims, M.setVar, M.getEnv, M.ofRes, evaluate, eval,
    Env.set, Env.get, GoVal.toLiquid, GoVal.unwrap, GoVal.isNil, GoVal.test, hyOut, writeAllM, Status.wrap])

/-- `{% capture x %}␠{{- … }}{% endcapture %}{% if x == " " %}yes{% endif %}` (the object after the
    hyphen prints nothing and is left out) -/
def hyCaptureTpl : List Node :=
  [.capture 1 [120] [.text 1 [32], .trim true],
   .ifB 2 [(.expr 2 (.rel .eq (.var [120]) (.lit (.str [32]))), [.text 2 [121, 101, 115]])]]

/-- **Why `capTrimFree` is needed.** The text a `capture` block renders becomes a VALUE, which the
    template can compare; a hyphen inside the body changes that value, so it can change which
    branch runs — and then far more than whitespace. Here the hyphen-free template captures `"␠"`
    and prints `yes`; with the hyphen the captured text is empty and nothing is printed. Deleting
    whitespace from the two outputs does not make them equal, and the output with the hyphen is
    not obtained from the other one by deleting whitespace only... it is, vacuously, a
    subsequence; the erasure law fails. All calls are valid UTF-8 and both renders end normally. -/
theorem hyphen_in_capture_changes_control_flow :
    capTrimFree hyCaptureTpl = false ∧
    (renderRoot hyCtx hyCaptureTpl []).runPure = ([], .ok .done) ∧
    (renderRoot hyCtx (stripTrims hyCaptureTpl) []).runPure = ([121, 101, 115], .ok .done) ∧
    stripSpaceBytes [] ≠ stripSpaceBytes [121, 101, 115] := by
  have h : trimRightSpace [32] = [] := by decide
  refine ⟨rfl, ?_, ?_, by decide⟩
  · hy_eval [hyCaptureTpl, h]
  · hy_eval [hyCaptureTpl]

/-- `a␠{{- v -}}␠b{% if true %}{%- … %}␠c␠{% endif %}` with a hyphen next to whitespace text on
    every side: `v` is bound to `"x"` -/
def hyDemoTpl : List Node :=
  [.text 1 [97, 32], .trim true, .obj 1 (.var [118]), .trim false, .text 1 [32, 98],
   .ifB 2 [(.always, [.trim true, .text 2 [32, 99, 32]])]]
def hyDemoEnv : Env := [([118], .str [120])]

theorem hyDemo_out : (renderRoot hyCtx hyDemoTpl hyDemoEnv).runPure = ([97, 120, 98, 32, 99, 32], .ok .done) := by
  have h1 : trimRightSpace [97, 32] = [97] := by decide
  have h2 : trimLeftSpace [32, 98] = [98] := by decide
  have h3 : trimRightSpace [98] = [98] := by decide
  hy_eval [hyDemoTpl, hyDemoEnv, h1, h2, h3]

theorem hyDemo_out0 :
    (renderRoot hyCtx (stripTrims hyDemoTpl) hyDemoEnv).runPure = ([97, 32, 120, 32, 98, 32, 99, 32], .ok .done) := by
  hy_eval [hyDemoTpl, hyDemoEnv]

theorem hyDemo_calls :
    (renderRoot hyCtx (stripTrims hyDemoTpl) hyDemoEnv).calls = [[97, 32], [120], [32, 98], [32, 99, 32]] := by
  hy_eval [hyDemoTpl, hyDemoEnv]

/-- Non-vacuity of `hyphen_erasure` (and of `hyphen_ops`, `hyphen_same_outcome`): all hypotheses
    hold for `hyDemoTpl`; the outputs are `axb␠c␠` and `a␠x␠b␠c␠`, both `axbc` without whitespace -/
example : stripSpaceBytes [97, 120, 98, 32, 99, 32] = stripSpaceBytes [97, 32, 120, 32, 98, 32, 99, 32] ∧
    WsDeletion isSpaceRune (decodeRunes [97, 32, 120, 32, 98, 32, 99, 32]) (decodeRunes [97, 120, 98, 32, 99, 32]) ∧
    ([97, 120, 98, 32, 99, 32] : Bytes).Sublist [97, 32, 120, 32, 98, 32, 99, 32] ∧ ValidUtf8 [97, 120, 98, 32, 99, 32] :=
  hyphen_erasure hyCtx hyCtx_quiet hyDemoTpl rfl hyDemoEnv _ _ hyDemo_out hyDemo_out0 (by
    rw [hyDemo_calls]
    intro b hb
    simp only [List.mem_cons, List.not_mem_nil, or_false] at hb
    rcases hb with rfl | rfl | rfl | rfl <;> decide)

example : stripSpaceBytes [97, 120, 98, 32, 99, 32] = [97, 120, 98, 99] := by decide
example : capTrimFree hyDemoTpl = true ∧ hasTrim hyDemoTpl = true := ⟨rfl, rfl⟩

/-- Non-vacuity of `hyphen_free_identity`: a tree without hyphens, whitespace kept as written -/
example : hasTrim (stripTrims hyDemoTpl) = false ∧
    (renderRoot hyCtx (stripTrims hyDemoTpl) hyDemoEnv).runPure = ([97, 32] ++ [120] ++ [32, 98] ++ [32, 99, 32], .ok .done) :=
  ⟨rfl, hyDemo_out0⟩
