import Proofs.C13
import Proofs.HyphenLemmas2
import Proofs.HyphenFace
/-!
# C13 at template level — hyphens of a rendered template

`Proofs/C13.lean` proves the laws of whitespace control for OPERATION LISTS of the trim writer.
This file lifts them to rendered templates (`Liquid/Render.lean`). A hyphen of the source is a
`.trim` node of the compiled tree (`Node.trim true` for `{{-`/`{%-`, `Node.trim false` for
`-}}`/`-%}`); `stripTrims` removes every such node at every depth (block bodies, branches, case
clauses, loop bodies and else-clauses; an included file is a separate source and keeps its
hyphens). All statements are about every context `c` (any primitives, any output layer) whose
include handler renders into a buffer of its own (`IncQuiet`; the engine's does: `incQuiet_mkCtx`),
every tree and every variable map.

* `hyphen_ops`: the render of `nodes` performs on its trim writer the operation list of the render
  of `stripTrims nodes` with `TrimLeft`/`TrimRight` operations inserted, and ends the same way.
* `hyphen_ops_root`: the same for `Render` as a whole (output and underlying calls): the output of
  the template is `runOps ops`, that of the hyphen-free template `runOps (eraseTrims ops)` — the two
  sides of the Part A / Part B theorems of `Proofs/C13.lean`.
* `hyphen_erasure`, `hyphen_same_outcome`: the last sentence of the property for templates.
* `hyphen_free_identity`: a template without hyphens loses nothing.
* the side condition `capTrimFree` (no hyphen inside a `capture` body) and why it is needed:
  `hyphen_in_capture_changes_control_flow`.
* `hyphen_faces_text_right`, `hyphen_faces_text_left(_block)`, `hyphen_faces_text`: a hyphen that
  faces a literal text at the same level acts as the deletion of that text's adjacent whitespace,
  at every position and depth; what happens where a hyphen does NOT face text (block ends, loop
  iterations, tags that write nothing): `hyphen_*` examples at the end.

Helper lemmas: `Proofs/HyphenTrace.lean`, `Proofs/HyphenLemmas.lean`, `Proofs/HyphenLemmas2.lean`,
`Proofs/HyphenFace.lean`.
-/

open Gen

/-! ## (1) the operations of a template with hyphens -/

/-- **hyphen_ops.** For a tree with no hyphen inside a `capture` body: from every variable map
    there are an operation list `ops` and a result `o` (status and variables, or the error) such
    that the render of `nodes` performs exactly `ops` on its trim writer and ends with `o`, and
    the render of the hyphen-free tree performs exactly `eraseTrims ops` — the same writes and
    flushes in the same order, the `TrimLeft`/`TrimRight` operations left out — and ends with the
    same `o`. "Performs exactly" (`TracedAtL`): whatever text is pending in the trim writer and
    whatever its flag, the calls made on the underlying writer and the final trim-writer state
    are those of `TW.run` on the list. -/
theorem hyphen_ops (c : RCtx) (hc : IncQuiet c) (nodes : List Node) (hcap : capTrimFree nodes = true) (env : Env) :
    ∃ ops o, TracedAtL (renderList c nodes) env ops o ∧
      TracedAtL (renderList c (stripTrims nodes)) env (eraseTrims ops) o := by
  obtain ⟨ops, ops', o, h1, h2, r⟩ := strip_list (fun _ => True) c hc (ctxChunks_true c) nodes hcap (fun _ _ => trivial) env
  exact ⟨ops, o, h1, r.1 ▸ h2⟩

/-- `hyphen_ops` with a bound on what is written: when every chunk the context and the tree can
    contribute satisfies `V` (`CtxChunks`: chunks of printed values, text handed back by `include`,
    `tablerow` decoration; `litChunks`: texts, raw slices, `cycle` values), every write of `ops` does. -/
theorem hyphen_ops_chunks (V : Bytes → Prop) (c : RCtx) (hc : IncQuiet c) (hx : CtxChunks V c) (nodes : List Node)
    (hcap : capTrimFree nodes = true) (hlit : ∀ b ∈ litChunks nodes, V b) (env : Env) :
    ∃ ops o, TracedAtL (renderList c nodes) env ops o ∧
      TracedAtL (renderList c (stripTrims nodes)) env (eraseTrims ops) o ∧ ∀ b, WOp.write b ∈ ops → V b := by
  obtain ⟨ops, ops', o, h1, h2, r⟩ := strip_list V c hc hx nodes hcap hlit env
  exact ⟨ops, o, h1, r.1 ▸ h2, r.2⟩

/-- **hyphen_ops for `Render`.** The whole render (`renderRoot`: the root sequence, then the final
    flush) of the template and of its hyphen-free version, on a fault-free writer, as functions of
    one operation list `ops`: output and outcome are `rootResult ops o` and
    `rootResult (eraseTrims ops) o` — after a normal end `(runOps ops, ok)` and
    `(runOps (eraseTrims ops), ok)`, the two sides of `tw_trim_only_ws`, `tw_trim_subseq`,
    `tw_no_trim_identity`, `tw_trimLeft_adjacent_all`, … — and the calls made on the writer are
    `rootCalls ops o` (`writeCalls ops` after a normal end) and `rootCalls (eraseTrims ops) o`. -/
theorem hyphen_ops_root (c : RCtx) (hc : IncQuiet c) (nodes : List Node) (hcap : capTrimFree nodes = true) (env : Env) :
    ∃ ops o,
      (renderRoot c nodes env).runPure = rootResult ops o ∧
      (renderRoot c (stripTrims nodes) env).runPure = rootResult (eraseTrims ops) o ∧
      (renderRoot c nodes env).calls = rootCalls ops o ∧
      (renderRoot c (stripTrims nodes) env).calls = rootCalls (eraseTrims ops) o := by
  obtain ⟨ops, o, h1, h2⟩ := hyphen_ops c hc nodes hcap env
  exact ⟨ops, o, renderRoot_of_traced c nodes env ops o h1.toTracedAt,
    renderRoot_of_traced c _ env _ o h2.toTracedAt, renderRoot_calls_of_traced c nodes env ops o h1,
    renderRoot_calls_of_traced c _ env _ o h2⟩

/-! ## (2) erasure -/

/-- **hyphen_same_outcome.** Hyphens do not change how a render ends: the template and its
    hyphen-free version end normally, with the same stray `break`/`continue`, or with the SAME error
    (or panic), under exactly the same conditions. -/
theorem hyphen_same_outcome (c : RCtx) (hc : IncQuiet c) (nodes : List Node) (hcap : capTrimFree nodes = true) (env : Env) :
    (renderRoot c nodes env).runPure.2 = (renderRoot c (stripTrims nodes) env).runPure.2 := by
  obtain ⟨ops, o, h1, h2, -, -⟩ := hyphen_ops_root c hc nodes hcap env
  rw [h1, h2]
  exact rootResult_snd _ _ o

/-- one render fails iff the other does, with the same error -/
theorem hyphen_fails_iff (c : RCtx) (hc : IncQuiet c) (nodes : List Node) (hcap : capTrimFree nodes = true) (env : Env)
    (e : RawErr) :
    (renderRoot c nodes env).runPure.2 = .err e ↔ (renderRoot c (stripTrims nodes) env).runPure.2 = .err e := by
  rw [hyphen_same_outcome c hc nodes hcap env]

/-- **hyphen_erasure** (the last sentence of C13, for templates). Let no hyphen stand inside a
    `capture` body, let the template and its hyphen-free version both end normally on a fault-free
    writer with outputs `out` and `out0` (by `hyphen_same_outcome` one does iff the other does), and
    let every call the hyphen-free render makes on its writer be valid UTF-8 (these calls are the
    chunks written, one call per non-empty chunk: `hyphen_free_identity`; on invalid UTF-8 the law
    is false already for operation lists: `tw_erasure_fails_on_invalid_utf8`). Then deleting every
    `unicode.IsSpace` rune from `out` and from `out0` gives the same bytes; `out` is obtained from
    `out0` by deleting whitespace runes only; in particular `out` is a subsequence of `out0`; and
    `out` is valid UTF-8. -/
theorem hyphen_erasure (c : RCtx) (hc : IncQuiet c) (nodes : List Node) (hcap : capTrimFree nodes = true) (env : Env)
    (out out0 : Bytes)
    (h : (renderRoot c nodes env).runPure = (out, .ok .done))
    (h0 : (renderRoot c (stripTrims nodes) env).runPure = (out0, .ok .done))
    (hv : ∀ b ∈ (renderRoot c (stripTrims nodes) env).calls, ValidUtf8 b) :
    stripSpaceBytes out = stripSpaceBytes out0 ∧
    WsDeletion isSpaceRune (decodeRunes out0) (decodeRunes out) ∧
    out.Sublist out0 ∧ ValidUtf8 out := by
  obtain ⟨ops, o, h1, h2, -, h4⟩ := hyphen_ops_root c hc nodes hcap env
  rw [h1] at h
  rw [h2] at h0
  obtain ⟨⟨env', rfl⟩, rfl⟩ := rootResult_done _ _ _ h
  obtain ⟨-, rfl⟩ := rootResult_done _ _ _ h0
  have hvo : ValidOps ops := validOps_of_calls ops (by
    intro b hb
    apply hv
    rw [h4]
    exact hb)
  exact ⟨tw_trim_only_ws ops hvo, tw_trim_subseq ops hvo, (tw_trim_valid_sublist ops hvo).2, (tw_trim_valid_sublist ops hvo).1⟩

/-- when the template ends normally so does its hyphen-free version (and conversely) -/
theorem hyphen_ends_normally_iff (c : RCtx) (hc : IncQuiet c) (nodes : List Node) (hcap : capTrimFree nodes = true)
    (env : Env) :
    (∃ out, (renderRoot c nodes env).runPure = (out, .ok .done)) ↔
      (∃ out0, (renderRoot c (stripTrims nodes) env).runPure = (out0, .ok .done)) := by
  have hs := hyphen_same_outcome c hc nodes hcap env
  constructor
  · rintro ⟨out, h⟩
    refine ⟨(renderRoot c (stripTrims nodes) env).runPure.1, ?_⟩
    rw [h] at hs
    exact Prod.ext rfl hs.symm
  · rintro ⟨out0, h⟩
    refine ⟨(renderRoot c nodes env).runPure.1, ?_⟩
    rw [h] at hs
    exact Prod.ext rfl hs

/-! ## (3) a template without hyphens loses nothing -/

/-- **hyphen_free_identity.** A tree without `.trim` nodes performs a list of writes and flushes
    only (`eraseTrims ops = ops`), and when its render ends normally the output is the
    concatenation of the chunks written (`wopWrites ops`) — moreover every non-empty chunk reaches
    the writer as one call, unchanged and in order. Holds for all bytes, valid UTF-8 or not. -/
theorem hyphen_free_identity (c : RCtx) (hc : IncQuiet c) (nodes : List Node) (hnt : hasTrim nodes = false) (env : Env) :
    ∃ ops o, TracedAtL (renderList c nodes) env ops o ∧ eraseTrims ops = ops ∧
      ∀ out, (renderRoot c nodes env).runPure = (out, .ok .done) →
        out = wopWrites ops ∧ (renderRoot c nodes env).calls = (wopChunks ops).filter (fun b => !b.isEmpty) := by
  obtain ⟨ops1, o, -, h2⟩ := hyphen_ops c hc nodes (capTrimFree_of_noTrim nodes hnt) env
  rw [stripTrims_of_noTrim nodes hnt] at h2
  refine ⟨eraseTrims ops1, o, h2, eraseTrims_idem ops1, fun out h => ?_⟩
  have hr := renderRoot_of_traced c nodes env _ o h2.toTracedAt
  have hcalls := renderRoot_calls_of_traced c nodes env _ o h2
  rw [hr] at h
  obtain ⟨⟨env', rfl⟩, rfl⟩ := rootResult_done _ _ _ h
  refine ⟨tw_no_trim_identity _ (eraseTrims_idem ops1), ?_⟩
  rw [hcalls]
  have := calls_of_trimFree (eraseTrims ops1) []
  rw [eraseTrims_idem] at this
  simpa [rootCalls, writeCalls] using this

/-! ## Examples: non-vacuity, and why hyphens inside a capture are excluded -/

/-- a small context: `==` compares strings, strings print as themselves, no filters, no include -/
def hyPrims : Prims :=
  { equal := fun a b => match a, b with
      | .str x, .str y => .ok (x == y)
      | _, _ => .ok false,
    less := fun _ _ => .ok false, contains := fun _ _ => .ok false,
    equalFn := fun _ _ => .ok false, applyFilter := fun _ v _ => .ok v, hasFilter := fun _ => false }
def hyOut : OutPrims := { chunks := fun v => match v with | .str b => .ok [b] | _ => .ok [] }
def hyCtx : RCtx := { P := hyPrims, O := hyOut, cfg := {}, inc := fun _ _ _ => .unmodelled "no include" }

theorem hyCtx_quiet : IncQuiet hyCtx := fun _ _ _ => trivial

set_option linter.unusedSimpArgs false in
/-- evaluate a render of a concrete tree in `hyCtx` -/
local macro "hy_eval" "[" ts:Lean.Parser.Tactic.simpLemma,* "]" : tactic => `(tactic|
  simp [$ts,*, stripTrims, stripNode, stripBranches, stripCases, stripClauses, renderRoot, renderList, renderNode, renderBranches,
    renderBlockBody, evalCond, wrapFailAt, wrapAt, M.mapFail, M.bind, M.pure, writeM, trimLeftM, trimRightM, flushM, captureM,
    Prog.bind, Prog.mapFail, Prog.runPure, Prog.calls, bind, pure, hyCtx, hyPrims, M.setVar, M.getEnv, M.ofRes, evaluate, eval,
    Env.set, Env.get, GoVal.toLiquid, GoVal.unwrap, GoVal.isNil, GoVal.test, hyOut, writeAllM, writeVerbatimM, Status.wrap])

/-- `{% capture x %}␠{{- … }}{% endcapture %}{% if x == " " %}yes{% endif %}` (the object after the
    hyphen prints nothing and is left out) -/
def hyCaptureTpl : List Node :=
  [.capture 1 [120] [.text 1 [32], .trim true],
   .ifB 2 [(.expr 2 (.rel .eq (.var [120]) (.lit (.str [32]))), [.text 2 [121, 101, 115]])]]

/-- **Why `capTrimFree` is needed.** The text a `capture` block renders becomes a VALUE, which the
    template can compare; a hyphen inside the body changes that value, so it can change which
    branch runs — and then far more than whitespace. Here the hyphen-free template captures `"␠"`
    and prints `yes`; with the hyphen the captured text is empty and nothing is printed: the two
    outputs differ by more than whitespace, the erasure law fails. (All calls are valid UTF-8 and
    both renders end normally; the only hypothesis of `hyphen_erasure` that fails is `capTrimFree`.) -/
theorem hyphen_in_capture_changes_control_flow :
    capTrimFree hyCaptureTpl = false ∧
    (renderRoot hyCtx hyCaptureTpl []).runPure = ([], .ok .done) ∧
    (renderRoot hyCtx (stripTrims hyCaptureTpl) []).runPure = ([121, 101, 115], .ok .done) ∧
    stripSpaceBytes [] ≠ stripSpaceBytes [121, 101, 115] := by
  have h : trimRightSpace [32] = [] := by decide
  refine ⟨rfl, ?_, ?_, by decide⟩
  · hy_eval [hyCaptureTpl, h]
  · hy_eval [hyCaptureTpl]

/-- `a␠{{- v -}}␠b{% if true %}{%- … %}␠c␠{% endif %}` with a hyphen next to whitespace text on
    every side: `v` is bound to `"x"` -/
def hyDemoTpl : List Node :=
  [.text 1 [97, 32], .trim true, .obj 1 (.var [118]), .trim false, .text 1 [32, 98],
   .ifB 2 [(.always, [.trim true, .text 2 [32, 99, 32]])]]
def hyDemoEnv : Env := [([118], .str [120])]

theorem hyDemo_out : (renderRoot hyCtx hyDemoTpl hyDemoEnv).runPure = ([97, 120, 98, 32, 99, 32], .ok .done) := by
  have h1 : trimRightSpace [97, 32] = [97] := by decide
  have h2 : trimLeftSpace [32, 98] = [98] := by decide
  have h3 : trimRightSpace [98] = [98] := by decide
  hy_eval [hyDemoTpl, hyDemoEnv, h1, h2, h3]

theorem hyDemo_out0 :
    (renderRoot hyCtx (stripTrims hyDemoTpl) hyDemoEnv).runPure = ([97, 32, 120, 32, 98, 32, 99, 32], .ok .done) := by
  hy_eval [hyDemoTpl, hyDemoEnv]

theorem hyDemo_calls :
    (renderRoot hyCtx (stripTrims hyDemoTpl) hyDemoEnv).calls = [[97, 32], [120], [32, 98], [32, 99, 32]] := by
  hy_eval [hyDemoTpl, hyDemoEnv]

/-- Non-vacuity of `hyphen_erasure` (and of `hyphen_ops`, `hyphen_same_outcome`): all hypotheses
    hold for `hyDemoTpl`; the outputs are `axb␠c␠` and `a␠x␠b␠c␠`, both `axbc` without whitespace -/
example : stripSpaceBytes [97, 120, 98, 32, 99, 32] = stripSpaceBytes [97, 32, 120, 32, 98, 32, 99, 32] ∧
    WsDeletion isSpaceRune (decodeRunes [97, 32, 120, 32, 98, 32, 99, 32]) (decodeRunes [97, 120, 98, 32, 99, 32]) ∧
    ([97, 120, 98, 32, 99, 32] : Bytes).Sublist [97, 32, 120, 32, 98, 32, 99, 32] ∧ ValidUtf8 [97, 120, 98, 32, 99, 32] :=
  hyphen_erasure hyCtx hyCtx_quiet hyDemoTpl rfl hyDemoEnv _ _ hyDemo_out hyDemo_out0 (by
    rw [hyDemo_calls]
    intro b hb
    simp only [List.mem_cons, List.not_mem_nil, or_false] at hb
    rcases hb with rfl | rfl | rfl | rfl <;> decide)

example : stripSpaceBytes [97, 120, 98, 32, 99, 32] = [97, 120, 98, 99] := by decide

/-- Non-vacuity of `hyphen_ops` / `hyphen_ops_root`: the hypotheses hold for `hyDemoTpl` (which has a
    hyphen next to whitespace text on every side, one of them inside a block) -/
example : ∃ ops o, TracedAtL (renderList hyCtx hyDemoTpl) hyDemoEnv ops o ∧
    TracedAtL (renderList hyCtx (stripTrims hyDemoTpl)) hyDemoEnv (eraseTrims ops) o :=
  hyphen_ops hyCtx hyCtx_quiet hyDemoTpl rfl hyDemoEnv

/-- Non-vacuity of `hyphen_same_outcome` / `hyphen_fails_iff` on a FAILING render:
    `a␠{{- … }}{% cycle "b" %}` outside a loop fails at the cycle tag, and so does its hyphen-free
    version, with the same error -/
example :
    (renderRoot hyCtx [.text 1 [97, 32], .trim true, .cycle 2 [] [98] []] []).runPure.2 =
      .err (.located ⟨2, true, .none, .cycleOutside⟩) ∧
    (renderRoot hyCtx (stripTrims [.text 1 [97, 32], .trim true, .cycle 2 [] [98] []]) []).runPure.2 =
      .err (.located ⟨2, true, .none, .cycleOutside⟩) := by
  have h : (renderRoot hyCtx [.text 1 [97, 32], .trim true, .cycle 2 [] [98] []] []).runPure.2 =
      .err (.located ⟨2, true, .none, .cycleOutside⟩) := by
    have h0 : trimRightSpace [97, 32] = [97] := by decide
    hy_eval [h0, M.getVar, M.fail, cyclesOf, errorfAt, wrapError]
  exact ⟨h, (hyphen_fails_iff hyCtx hyCtx_quiet _ rfl [] _).1 h⟩
example : capTrimFree hyDemoTpl = true ∧ hasTrim hyDemoTpl = true := ⟨rfl, rfl⟩

/-- Non-vacuity of `hyphen_free_identity`: a tree without hyphens, whitespace kept as written -/
example : hasTrim (stripTrims hyDemoTpl) = false ∧
    (renderRoot hyCtx (stripTrims hyDemoTpl) hyDemoEnv).runPure = ([97, 32] ++ [120] ++ [32, 98] ++ [32, 99, 32], .ok .done) :=
  ⟨rfl, hyDemo_out0⟩

/-! ## (4) a hyphen that faces literal text -/

/-- **hyphen_faces_text_right.** `-}}`/`-%}` directly followed, at the same level, by a literal
    text: the render IS the render of the sequence with the hyphen dropped and the text
    left-stripped (`bytes.TrimLeftFunc(text, unicode.IsSpace)`) — the same interaction tree, hence
    the same calls, output, errors and behaviour on a failing writer. No side condition: every
    context, every text (blank, empty, invalid UTF-8), every position (`pre`, `post` arbitrary: the
    sequence may be a root, a block body, a branch, a loop body, a capture body), every state. -/
theorem hyphen_faces_text_right (c : RCtx) (pre post : List Node) (l : Nat) (u : Bytes) :
    renderList c (pre ++ .trim false :: .text l u :: post) = renderList c (pre ++ .text l (trimLeftSpace u) :: post) :=
  renderList_append_congr c pre (renderList_trimRight_text c l u post)

/-- the same for all such hyphens of a tree at once, at every depth (`faceR`) -/
theorem hyphen_faces_text_right_everywhere (c : RCtx) (nodes : List Node) :
    renderList c (faceR nodes) = renderList c nodes ∧ ∀ env, renderRoot c (faceR nodes) env = renderRoot c nodes env :=
  ⟨(render_faceR c nodes).1, fun env => renderRoot_congr c (render_faceR c nodes).1 env⟩

/-- **hyphen_faces_text_left, in a block body.** A literal text directly followed, at the same
    level, by `{{-`/`{%-`, in a block body (or root sequence) `pre ++ text :: hyphen :: post`: from
    ANY state (whatever is pending in the trim writer, flag set or not), if the body ends normally,
    the body with the hyphen dropped and the text right-stripped
    (`bytes.TrimRightFunc(text, unicode.IsSpace)`) ends normally too, has written the same bytes and
    leaves the same state. Side condition `TrimComm u`: stripping `u` on the two sides commutes —
    true of valid UTF-8 (`trimComm_of_valid`), decidable, and needed only because a pending `-}}`
    strips the text on the left first.

    Not claimed when the body does not end normally (error, `break`, `continue`): with the hyphen
    the stripped text has been written, without it it is still pending (same bytes in the end when
    the render goes on: `hyphen_faces_text_left`; a different partial output when the render fails:
    `hyphen_left_partial_output_differs`). -/
theorem hyphen_faces_text_left_block (c : RCtx) (hc : IncQuiet c) (pre post : List Node) (l : Nat) (u : Bytes)
    (hu : TrimComm u) (s s' : RS) (out : Bytes)
    (h : (renderBlockBody c (pre ++ .text l u :: .trim true :: post) s).runPure = (out, .ok (.done, s'))) :
    (renderBlockBody c (pre ++ .text l (trimRightSpace u) :: post) s).runPure = (out, .ok (.done, s')) :=
  faceRel_block c (gpair_list_append_left faceRel_ok (fun op => faceRel_refl [op]) c hc pre
    (gpair_face_fuse c l u hu (refl_list faceRel_ok (fun op => faceRel_refl [op]) c hc post))) s s' out h

/-- **hyphen_faces_text_left, whole template, every depth.** `faceL` right-strips every text that is
    directly followed at its level by `{{-`/`{%-` and drops that hyphen, at every depth (capture
    bodies included: the captured text is the same). The two templates end the same way (normally,
    or with the same error), and after a normal end with the same output. -/
theorem hyphen_faces_text_left (c : RCtx) (hc : IncQuiet c) (nodes : List Node)
    (hcomm : ∀ u ∈ litChunks nodes, TrimComm u) (env : Env) :
    (renderRoot c nodes env).runPure.2 = (renderRoot c (faceL nodes) env).runPure.2 ∧
    ∀ out, (renderRoot c nodes env).runPure = (out, .ok .done) → (renderRoot c (faceL nodes) env).runPure = (out, .ok .done) :=
  faceRel_root c (face_list c hc nodes hcomm).1 env

/-- **hyphen_faces_text.** `faceText` applies both rules at every depth. When every hyphen of the
    template faces a literal text, `faceText nodes` is hyphen-free (`hasTrim (faceText nodes) =
    false`, decidable): it is the template with the hyphens dropped and the adjacent whitespace of
    the adjacent texts deleted, which loses nothing (`hyphen_free_identity`) — and it renders the
    same output. In general the hyphens that do not face text remain in `faceText nodes`. -/
theorem hyphen_faces_text (c : RCtx) (hc : IncQuiet c) (nodes : List Node)
    (hcomm : ∀ u ∈ litChunks nodes, TrimComm u) (env : Env) :
    (renderRoot c nodes env).runPure.2 = (renderRoot c (faceText nodes) env).runPure.2 ∧
    ∀ out, (renderRoot c nodes env).runPure = (out, .ok .done) →
      (renderRoot c (faceText nodes) env).runPure = (out, .ok .done) := by
  unfold faceText
  rw [(hyphen_faces_text_right_everywhere c (faceL nodes)).2 env]
  exact hyphen_faces_text_left c hc nodes hcomm env

/-- literal text that is valid UTF-8 satisfies the side condition -/
theorem trimComm_of_valid_lits (nodes : List Node) (h : ∀ u ∈ litChunks nodes, ValidUtf8 u) :
    ∀ u ∈ litChunks nodes, TrimComm u := fun u hu => trimComm_of_valid u (h u hu)

/-! ### Examples for (4) -/

set_option linter.unusedSimpArgs false in
/-- evaluate a render with loops and cycles in `hyCtx` -/
local macro "hy_eval_loop" "[" ts:Lean.Parser.Tactic.simpLemma,* "]" : tactic => `(tactic|
  simp [$ts,*, renderRoot, renderList, renderNode, renderBranches,
    renderBlockBody, evalCond, wrapFailAt, wrapAt, M.mapFail, M.bind, M.pure, M.fail, writeM, trimLeftM, trimRightM, flushM, captureM,
    Prog.bind, Prog.mapFail, Prog.runPure, Prog.calls, bind, pure, hyCtx, hyPrims, M.setVar, M.getEnv, M.getVar, M.ofRes, evaluate,
    eval, Env.set, Env.get, GoVal.toLiquid, GoVal.unwrap, GoVal.isNil, GoVal.test, hyOut, writeAllM, writeVerbatimM, Status.wrap,
    loopRun, loopDispatch, loopIterate, iterateM, tablerowCols, intModifier, loopItems, selectItems, restoreLoopVars, cyclesOf,
    forloopRec])

/-- `a␠{{- v -}}␠b␠{%- if true -%}␠c␠{% endif %}`: every hyphen faces a literal text -/
def hyFaceTpl : List Node :=
  [.text 1 [97, 32], .trim true, .obj 1 (.var [118]), .trim false, .text 1 [32, 98, 32], .trim true,
   .ifB 2 [(.always, [.trim false, .text 2 [32, 99, 32]])]]

/-- what `faceText` makes of it: `a{{ v }}b{% if true %}c␠{% endif %}` -/
theorem hyFace_faceText :
    faceText hyFaceTpl = [.text 1 [97], .obj 1 (.var [118]), .text 1 [98], .ifB 2 [(.always, [.text 2 [99, 32]])]] := by
  have h1 : trimRightSpace [97, 32] = [97] := by decide
  have h3 : trimRightSpace [32, 98, 32] = [32, 98] := by decide
  have h4 : trimLeftSpace [32, 98] = [98] := by decide
  have h5 : trimLeftSpace [32, 99, 32] = [99, 32] := by decide
  simp [faceText, hyFaceTpl, faceL, faceLNode, faceLBranches, faceR, faceRNode, faceRBranches, h1, h3, h4, h5]

theorem hyFace_out : (renderRoot hyCtx hyFaceTpl hyDemoEnv).runPure = ([97, 120, 98, 99, 32], .ok .done) := by
  have h1 : trimRightSpace [97, 32] = [97] := by decide
  have h2 : trimLeftSpace [32, 98, 32] = [98, 32] := by decide
  have h3 : trimRightSpace [98, 32] = [98] := by decide
  have h5 : trimLeftSpace [32, 99, 32] = [99, 32] := by decide
  have h6 : trimRightSpace [120] = [120] := by decide
  hy_eval [hyFaceTpl, hyDemoEnv, h1, h2, h3, h5, h6]

/-- Non-vacuity of `hyphen_faces_text` (and of the left and right rules it is made of): every hyphen
    of `hyFaceTpl` faces text, the hyphen-free `faceText hyFaceTpl` renders the same `axbc␠` -/
example : hasTrim (faceText hyFaceTpl) = false ∧
    (renderRoot hyCtx (faceText hyFaceTpl) hyDemoEnv).runPure = ([97, 120, 98, 99, 32], .ok .done) :=
  ⟨by rw [hyFace_faceText]; rfl,
   (hyphen_faces_text hyCtx hyCtx_quiet hyFaceTpl (fun u hu => by
      simp only [hyFaceTpl, litChunks, litNode, litBranches, List.append_nil, List.nil_append, List.cons_append,
        List.mem_cons, List.not_mem_nil, or_false] at hu
      rcases hu with rfl | rfl | rfl <;> decide) hyDemoEnv).2 _ hyFace_out⟩

/-- Non-vacuity of `hyphen_faces_text_right`: `x -}}␠b` inside a sequence, state arbitrary -/
example (s : RS) :
    renderList hyCtx ([.obj 1 (.var [118])] ++ .trim false :: .text 1 [32, 98] :: [.text 1 [99]]) s =
      renderList hyCtx ([.obj 1 (.var [118])] ++ .text 1 (trimLeftSpace [32, 98]) :: [.text 1 [99]]) s := by
  rw [hyphen_faces_text_right]

/-- Non-vacuity of `hyphen_faces_text_left_block`: body `a␠{{- v }}` from a state with pending text
    `x␠` and the flag set: `x␠` and `a` are written, `x` (the value of `v`) is pending -/
example :
    (renderBlockBody hyCtx ([] ++ .text 1 [32, 97, 32] :: .trim true :: [.obj 1 (.var [118])])
      ⟨hyDemoEnv, { buf := [120, 32], trim := true }⟩).runPure =
      ([120, 32, 97, 120], .ok (.done, ⟨hyDemoEnv, { buf := [], trim := false }⟩)) ∧
    TrimComm [32, 97, 32] ∧
    (renderBlockBody hyCtx ([] ++ .text 1 (trimRightSpace [32, 97, 32]) :: [.obj 1 (.var [118])])
      ⟨hyDemoEnv, { buf := [120, 32], trim := true }⟩).runPure =
      ([120, 32, 97, 120], .ok (.done, ⟨hyDemoEnv, { buf := [], trim := false }⟩)) := by
  have h1 : trimLeftSpace [32, 97, 32] = [97, 32] := by decide
  have h2 : trimRightSpace [97, 32] = [97] := by decide
  have h : (renderBlockBody hyCtx ([] ++ .text 1 [32, 97, 32] :: .trim true :: [.obj 1 (.var [118])])
      ⟨hyDemoEnv, { buf := [120, 32], trim := true }⟩).runPure =
      ([120, 32, 97, 120], .ok (.done, ⟨hyDemoEnv, { buf := [], trim := false }⟩)) := by
    hy_eval [hyDemoEnv, h1, h2]
  exact ⟨h, by decide, hyphen_faces_text_left_block hyCtx hyCtx_quiet [] _ 1 _ (by decide) _ _ _ h⟩

/-! ### Where a hyphen does NOT face text: what the trim writer does there

These are facts about the model (which the `hyphens` stream compares with the real engine on
every run), recorded because they delimit the rules above. A `{{-` reaches only the text that is
still pending: the last write, provided no flush came after it; the flush at the end of a block
body or of a loop iteration puts the text out of reach. A `-}}` stays armed until the next write:
across tags that write nothing, across block ends and from one loop iteration to the next. -/

/-- `{% if true %}a␠{% endif %}{{- … }}b`: the hyphen faces the `endif` tag; the text `a␠` was
    flushed when its block ended and is NOT stripped -/
theorem hyphen_left_after_block_end :
    (renderRoot hyCtx [.ifB 1 [(.always, [.text 1 [97, 32]])], .trim true, .text 2 [98]] []).runPure =
      ([97, 32, 98], .ok .done) := by
  have h0 : trimRightSpace [] = [] := by decide
  hy_eval [h0]

/-- `a␠{% if true %}{{- … }}b{% endif %}`: the hyphen faces the `if` tag, but the text before the
    block is still pending when the block starts and IS stripped -/
theorem hyphen_left_reaches_before_block :
    (renderRoot hyCtx [.text 1 [97, 32], .ifB 1 [(.always, [.trim true, .text 2 [98]])]] []).runPure =
      ([97, 98], .ok .done) := by
  have h0 : trimRightSpace [97, 32] = [97] := by decide
  hy_eval [h0]

/-- the items of the demo loops: two nils -/
def hyTwo : Expr := .lit (.slice .any [.nil, .nil])

/-- `{% for i in two %}{{- … }}a␠{% endfor %}`: at the start of the second iteration the hyphen does
    not reach the `a␠` of the first one (flushed at the end of the iteration): `a␠a␠` -/
theorem hyphen_left_at_iteration_start :
    (renderRoot hyCtx [.loop 1 false [105] hyTwo {} [.trim true, .text 1 [97, 32]] []] []).runPure =
      ([97, 32, 97, 32], .ok .done) := by
  have h0 : trimRightSpace [] = [] := by decide
  hy_eval_loop [hyTwo, h0]

/-- `{% for i in two %}␠a{{ … -}}{% endfor %}␠b`: the `-}}` at the end of the body faces the
    `endfor` tag; it stays armed, strips the `␠a` of the NEXT iteration and, after the loop, the
    text `␠b`: `␠aab` (the texts it strips are not adjacent to it) -/
theorem hyphen_right_persists_over_iterations :
    (renderRoot hyCtx [.loop 1 false [105] hyTwo {} [.text 1 [32, 97], .trim false] [], .text 2 [32, 98]] []).runPure =
      ([32, 97, 97, 98], .ok .done) := by
  have h1 : trimLeftSpace [32, 97] = [97] := by decide
  have h2 : trimLeftSpace [32, 98] = [98] := by decide
  hy_eval_loop [hyTwo, h1, h2]

/-- `{{ … -}}{% assign x = 1 %}␠b`: a tag that writes nothing does not use the flag up; the text
    after it is stripped although the hyphen faces the tag -/
theorem hyphen_right_persists_over_silent_tag :
    (renderRoot hyCtx [.text 1 [97], .trim false, .assign 1 [120] (.lit (.int .int 1)), .text 1 [32, 98]] []).runPure =
      ([97, 98], .ok .done) := by
  have h2 : trimLeftSpace [32, 98] = [98] := by decide
  hy_eval [h2]

/-- **Why the left rule asks for a normal end.** `a␠{{- … }}{% cycle "b" %}` outside a loop fails
    at the cycle tag. With the hyphen `a` has been written before the failure; in the template
    with the text stripped and the hyphen dropped, `a` is still pending and is lost. Same error,
    different partial output. -/
theorem hyphen_left_partial_output_differs :
    (renderRoot hyCtx [.text 1 [97, 32], .trim true, .cycle 2 [] [98] []] []).runPure.1 = [97] ∧
    (renderRoot hyCtx [.text 1 (trimRightSpace [97, 32]), .cycle 2 [] [98] []] []).runPure.1 = [] ∧
    (renderRoot hyCtx [.text 1 [97, 32], .trim true, .cycle 2 [] [98] []] []).runPure.2 =
      (renderRoot hyCtx [.text 1 (trimRightSpace [97, 32]), .cycle 2 [] [98] []] []).runPure.2 := by
  have h0 : trimRightSpace [97, 32] = [97] := by decide
  refine ⟨?_, ?_, ?_⟩ <;> hy_eval_loop [h0]

/-! ## The engine's own context -/

/-- `hyphen_erasure` and `hyphen_same_outcome` for the engine's context (`mkCtx`: any primitives and
    output layer, any configuration, file system and include fuel): `IncQuiet` is discharged -/
theorem hyphen_erasure_engine (P : Prims) (O : OutPrims) (cfg : Cfg) (fs : FS) (fuel : Nat) (nodes : List Node)
    (hcap : capTrimFree nodes = true) (env : Env) (out out0 : Bytes)
    (h : (renderRoot (mkCtx P O cfg fs fuel) nodes env).runPure = (out, .ok .done))
    (h0 : (renderRoot (mkCtx P O cfg fs fuel) (stripTrims nodes) env).runPure = (out0, .ok .done))
    (hv : ∀ b ∈ (renderRoot (mkCtx P O cfg fs fuel) (stripTrims nodes) env).calls, ValidUtf8 b) :
    stripSpaceBytes out = stripSpaceBytes out0 ∧
    WsDeletion isSpaceRune (decodeRunes out0) (decodeRunes out) ∧
    out.Sublist out0 ∧ ValidUtf8 out :=
  hyphen_erasure _ (incQuiet_mkCtx P O cfg fs fuel) nodes hcap env out out0 h h0 hv

theorem hyphen_same_outcome_engine (P : Prims) (O : OutPrims) (cfg : Cfg) (fs : FS) (fuel : Nat) (nodes : List Node)
    (hcap : capTrimFree nodes = true) (env : Env) :
    (renderRoot (mkCtx P O cfg fs fuel) nodes env).runPure.2 =
      (renderRoot (mkCtx P O cfg fs fuel) (stripTrims nodes) env).runPure.2 :=
  hyphen_same_outcome _ (incQuiet_mkCtx P O cfg fs fuel) nodes hcap env
