import Proofs.RepEq
import Proofs.MapOrderLemmas
/-!
# The value operations of the evaluator respect representation equivalence (helper lemmas for C18)
-/

open GoVal

variable {d : Bool}

/-- values at the top of an expression are compared through `ValueOf(·).Interface()` -/
def VRel (d : Bool) (a b : GoVal) : Prop := RepEq d a.unwrap b.unwrap

/-- bindings: related as values; the renderer's `forloop` record is only related to itself -/
def ERel (d : Bool) (a b : GoVal) : Prop := VRel d a b ∧ (isRec a = true ∨ isRec b = true → a = b)

theorem VRel.refl (a : GoVal) : VRel d a a := RepEq.refl _
theorem VRel.symm {a b : GoVal} (h : VRel d a b) : VRel d b a := RepEq.symm h
theorem VRel.trans {a b c : GoVal} (h : VRel d a b) (h' : VRel d b c) : VRel d a c := RepEq.trans h h'
theorem RepEq.vrel {a b : GoVal} (h : RepEq d a b) : VRel d a b := h.unwrap
theorem RepEq.erel {a b : GoVal} (h : RepEq d a b) : ERel d a b := ⟨h.unwrap, h.rec_eq⟩
theorem ERel.refl (a : GoVal) : ERel d a a := ⟨VRel.refl a, fun _ => rfl⟩

theorem VRel.toLiquid {a b : GoVal} (h : VRel d a b) : VRel d a.toLiquid b.toLiquid := by
  unfold VRel at *
  rwa [unwrap_toLiquid, unwrap_toLiquid]

/-- already unwrapped -/
def Unw (u : GoVal) : Prop := u.unwrap = u

theorem Unw.unwrap (v : GoVal) : Unw v.unwrap := unwrap_idem v
theorem Unw.noDrop {u : GoVal} (h : Unw u) : noDrop u = true := by rw [← h]; exact unwrap_noDrop u

/-- results of lookups -/
def LRel (d : Bool) : LRes → LRes → Prop
  | .val a, .val b => RepEq d a b
  | .unmodelled w, .unmodelled w' => w = w'
  | _, _ => False

theorem LRel.refl (r : LRes) : LRel d r r := by cases r <;> simp [LRel, RepEq.refl]
theorem LRel.of_eq {r r' : LRes} (h : r = r') : LRel d r r' := h ▸ LRel.refl r

/-! ## Lists and entry lists with equal normal forms -/

theorem normList_length {xs xs' : List GoVal} (h : normList d xs = normList d xs') : xs.length = xs'.length := by
  have := congrArg List.length h
  simpa [normList_eq_map] using this

theorem normKVs_length {kvs kvs' : List (GoVal × GoVal)} (h : normKVs d kvs = normKVs d kvs') : kvs.length = kvs'.length := by
  have := congrArg List.length h
  simpa [normKVs_eq_map] using this

theorem norm_nil : GoVal.nil.norm d = .nil := by simp [norm]

theorem normList_getD {xs xs' : List GoVal} (h : normList d xs = normList d xs') (n : Nat) :
    RepEq d (xs.getD n .nil) (xs'.getD n .nil) := by
  unfold RepEq
  have e : ∀ ys : List GoVal, (ys.getD n .nil).norm d = (normList d ys).getD n .nil := by
    intro ys
    simp only [normList_eq_map, List.getD_eq_getElem?_getD, List.getElem?_map]
    cases ys[n]? <;> simp [norm_nil]
  rw [e, e, h]

theorem normList_head {xs xs' : List GoVal} (h : normList d xs = normList d xs') :
    RepEq d (xs.head?.getD .nil) (xs'.head?.getD .nil) := by
  unfold RepEq
  have e : ∀ ys : List GoVal, (ys.head?.getD .nil).norm d = (normList d ys).head?.getD .nil := by
    intro ys; cases ys <;> simp [normList, norm_nil]
  rw [e, e, h]

theorem normList_getLast {xs xs' : List GoVal} (h : normList d xs = normList d xs') :
    RepEq d (xs.getLast?.getD .nil) (xs'.getLast?.getD .nil) := by
  unfold RepEq
  have e : ∀ ys : List GoVal, (ys.getLast?.getD .nil).norm d = (normList d ys).getLast?.getD .nil := by
    intro ys
    simp only [normList_eq_map, List.getLast?_map]
    cases ys.getLast? <;> simp [norm_nil]
  rw [e, e, h]

theorem mapFind_normKVs (kvs : List (GoVal × GoVal)) (k : GoVal) :
    mapFind (normKVs d kvs) k = (mapFind kvs k).map (norm d) := by
  induction kvs with
  | nil => rfl
  | cons kv kvs ih =>
    obtain ⟨k0, v⟩ := kv
    unfold mapFind at ih ⊢
    simp only [normKVs, List.find?_cons]
    cases ifaceEq k0 k == some true with
    | true => rfl
    | false => exact ih

theorem mapFind_rel {kvs kvs' : List (GoVal × GoVal)} (h : normKVs d kvs = normKVs d kvs') (k : GoVal) :
    RepEq d ((mapFind kvs k).getD .nil) ((mapFind kvs' k).getD .nil) ∧ ((mapFind kvs k).isSome = (mapFind kvs' k).isSome) := by
  have e := mapFind_normKVs (d := d) kvs k
  have e' := mapFind_normKVs (d := d) kvs' k
  rw [h] at e
  rw [e'] at e
  unfold RepEq
  cases h1 : mapFind kvs k <;> cases h2 : mapFind kvs' k <;> simp_all [norm_nil]

/-! ## Property lookup -/

theorem propList_rel {xs xs' : List GoVal} (h : normList d xs = normList d xs') (name : Bytes) :
    LRel d (propertyValue.propList name xs) (propertyValue.propList name xs') := by
  unfold propertyValue.propList
  split
  · exact normList_head h
  · split
    · exact normList_getLast h
    · split
      · simp [LRel, normList_length h, RepEq.refl]
      · simp [LRel, RepEq.refl]

theorem propertyValue_unw_rel {u u' : GoVal} (hu : Unw u) (hu' : Unw u') (h : RepEq d u u') (name : Bytes) :
    LRel d (propertyValue u name) (propertyValue u' name) := by
  cases u with
  | drop w => exact absurd hu.noDrop (by simp [noDrop])
  | slice t xs =>
    obtain ⟨xs', hs, hn⟩ := norm_inv_seq (u := .slice t xs) rfl hu'.noDrop h
    cases u' <;> simp [seqElems?] at hs <;> subst hs <;> simpa [propertyValue, unwrap] using propList_rel hn name
  | array t xs =>
    obtain ⟨xs', hs, hn⟩ := norm_inv_seq (u := .array t xs) rfl hu'.noDrop h
    cases u' <;> simp [seqElems?] at hs <;> subst hs <;> simpa [propertyValue, unwrap] using propList_rel hn name
  | map kt vt kvs =>
    rcases norm_inv_map hu'.noDrop h with rfl | ⟨_, vt', kvs', rfl, _, hn⟩
    · exact LRel.refl _
    · simp only [propertyValue, unwrap]
      have hl := normKVs_length hn
      have key : ∀ (f f' : Option GoVal), f.isSome = f'.isSome → RepEq d (f.getD .nil) (f'.getD .nil) →
          LRel d (match f with
                | some v => .val v
                | none => if name == sizeKey then .val (.int .int kvs.length) else .val .nil)
               (match f' with
                | some v => .val v
                | none => if name == sizeKey then .val (.int .int kvs'.length) else .val .nil) := by
        intro f f' h1 h2
        cases f <;> cases f' <;> simp at h1
        · simp only [hl]; exact LRel.refl _
        · simpa [LRel] using h2
      have hf := mapFind_rel hn (.str name)
      cases kt <;> first | exact key _ _ hf.2 hf.1 | exact key none none rfl (RepEq.refl _)
  | _ =>
    have := norm_inv_rigid (by simp [rigidHead]) hu'.noDrop h
    subst this
    exact LRel.refl _

theorem propertyValue_eq_unwrap (v : GoVal) (name : Bytes) : propertyValue v name = propertyValue v.unwrap name := by
  unfold propertyValue
  rw [unwrap_idem]

theorem propertyValue_rel {a b : GoVal} (h : VRel d a b) (name : Bytes) :
    LRel d (propertyValue a name) (propertyValue b name) := by
  rw [propertyValue_eq_unwrap a, propertyValue_eq_unwrap b]
  exact propertyValue_unw_rel (Unw.unwrap a) (Unw.unwrap b) h name

/-! ## Index lookup -/

theorem indexList_rel {xs xs' : List GoVal} (h : normList d xs = normList d xs') (i : GoVal) :
    LRel d (indexValue.indexList xs i) (indexValue.indexList xs' i) := by
  unfold indexValue.indexList
  simp only [normList_length h]
  repeat' split
  all_goals first | exact LRel.refl _ | exact normList_getD h _

theorem indexValue_eq_unwrap (r i : GoVal) : indexValue r i = indexValue r.unwrap i.unwrap := by
  unfold indexValue
  rw [unwrap_idem, unwrap_idem]

/-- related receivers, the same index -/
theorem indexValue_recv_rel {u u' : GoVal} (hu : Unw u) (hu' : Unw u') (h : RepEq d u u') (i : GoVal) :
    LRel d (indexValue u i) (indexValue u' i) := by
  cases u with
  | drop w => exact absurd hu.noDrop (by simp [noDrop])
  | slice t xs =>
    obtain ⟨xs', hs, hn⟩ := norm_inv_seq (u := .slice t xs) rfl hu'.noDrop h
    cases u' <;> simp [seqElems?] at hs <;> subst hs <;> simpa [indexValue, unwrap] using indexList_rel hn _
  | array t xs =>
    obtain ⟨xs', hs, hn⟩ := norm_inv_seq (u := .array t xs) rfl hu'.noDrop h
    cases u' <;> simp [seqElems?] at hs <;> subst hs <;> simpa [indexValue, unwrap] using indexList_rel hn _
  | map kt vt kvs =>
    rcases norm_inv_map hu'.noDrop h with rfl | ⟨_, vt', kvs', rfl, _, hn⟩
    · exact LRel.refl _
    · simp only [indexValue, unwrap]
      split
      · exact LRel.refl _
      · split
        · exact LRel.refl _
        · exact LRel.refl _
        · next k _ => exact (mapFind_rel hn k).1
  | _ =>
    have := norm_inv_rigid (by simp [rigidHead]) hu'.noDrop h
    subst this
    exact LRel.refl _

/-- a slice, array or map used as an index selects nothing, whatever it holds -/
def canonIdx : GoVal := .slice .any []

theorem ifaceEq_nonrigid {i : GoVal} (hi : rigidHead i = false) (hd : noDrop i = true) (k : GoVal) :
    ifaceEq i k ≠ some true := by
  cases i <;> simp [rigidHead, noDrop] at hi hd <;> cases k <;> simp [ifaceEq]

theorem mapSliceFind_nonrigid {i : GoVal} (hi : rigidHead i = false) (hd : noDrop i = true) :
    ∀ kvs : List (GoVal × GoVal), mapSliceFind kvs i = .val .nil
  | [] => rfl
  | (k, v) :: r => by
    have := ifaceEq_nonrigid hi hd k
    unfold mapSliceFind
    split
    · next h => exact absurd h this
    · exact mapSliceFind_nonrigid hi hd r
    · exact mapSliceFind_nonrigid hi hd r

theorem indexValue_nonrigid {u i : GoVal} (_hu : Unw u) (hi : rigidHead i = false) (hd : Unw i) :
    indexValue u i = indexValue u canonIdx := by
  have hnd := hd.noDrop
  unfold indexValue
  rw [hd, show canonIdx.unwrap = canonIdx from rfl]
  have hl : ∀ xs, indexValue.indexList xs i = indexValue.indexList xs canonIdx := by
    intro xs
    cases i <;> simp [rigidHead, noDrop] at hi hnd <;> simp [indexValue.indexList, canonIdx]
  have hk : ∀ kt, convertKey kt i = some none ∧ convertKey kt canonIdx = some none := by
    intro kt
    cases i <;> simp [rigidHead, noDrop] at hi hnd <;> cases kt <;> simp [convertKey, canonIdx]
  have hne : i ≠ .nil := by intro h; subst h; simp [rigidHead] at hi
  split
  · exact hl _
  · exact hl _
  · exact hl _
  · next kt vt kvs _ =>
    have h1 := (hk kt).1
    have h2 := (hk kt).2
    cases i <;> simp [rigidHead, noDrop] at hi hnd <;> simp only [h1, h2] <;> rfl
  · cases i <;> simp [rigidHead, noDrop] at hi hnd <;> simp [canonIdx]
  · rw [mapSliceFind_nonrigid hi hnd, mapSliceFind_nonrigid (i := canonIdx) rfl rfl]
  · cases i <;> simp [rigidHead, noDrop] at hi hnd <;> simp [canonIdx]
  · cases i <;> simp [rigidHead, noDrop] at hi hnd <;> simp [canonIdx]
  · cases i <;> simp [rigidHead, noDrop] at hi hnd <;> simp [methodOnly, canonIdx]
  · cases i <;> simp [rigidHead, noDrop] at hi hnd <;> simp [methodOnly, canonIdx]
  · cases i <;> simp [rigidHead, noDrop] at hi hnd <;> simp [methodOnly, canonIdx]
  · cases i <;> simp [rigidHead, noDrop] at hi hnd <;> simp [methodOnly, canonIdx]
  · rfl

/-- the same receiver, related indices -/
theorem indexValue_idx_eq {u i i' : GoVal} (hu : Unw u) (hi : Unw i) (hi' : Unw i') (h : RepEq d i i') :
    indexValue u i = indexValue u i' := by
  cases hr : rigidHead i with
  | true => rw [norm_inv_rigid hr hi'.noDrop h]
  | false =>
    have hr' : rigidHead i' = false := by
      cases hr' : rigidHead i' with
      | false => rfl
      | true => rw [norm_inv_rigid hr' hi.noDrop h.symm, hr'] at hr; cases hr
    rw [indexValue_nonrigid hu hr hi, indexValue_nonrigid hu hr' hi']

theorem indexValue_rel {r r' i i' : GoVal} (hr : VRel d r r') (hi : VRel d i i') :
    LRel d (indexValue r i) (indexValue r' i') := by
  rw [indexValue_eq_unwrap r i, indexValue_eq_unwrap r' i',
    indexValue_idx_eq (Unw.unwrap r) (Unw.unwrap i) (Unw.unwrap i') hi]
  exact indexValue_recv_rel (Unw.unwrap r) (Unw.unwrap r') hr _

/-! ## Integer use, truth, nil test -/

theorem intOf_rel {a b : GoVal} (h : VRel d a b) : a.intOf = b.intOf := by
  unfold intOf
  have hb := (Unw.unwrap b).noDrop
  have ha := (Unw.unwrap a).noDrop
  cases hr : rigidHead a.unwrap with
  | true => rw [norm_inv_rigid hr hb h]
  | false =>
    have hr' : rigidHead b.unwrap = false := by
      cases hr' : rigidHead b.unwrap with
      | false => rfl
      | true => rw [norm_inv_rigid hr' ha h.symm, hr'] at hr; cases hr
    revert hr hr'
    cases a.unwrap <;> cases b.unwrap <;> simp [rigidHead]

theorem test_rel {a b : GoVal} (h : VRel d a b) : a.test = b.test := by
  unfold test
  have hb := (Unw.unwrap b).noDrop
  have ha := (Unw.unwrap a).noDrop
  cases hr : rigidHead a.unwrap with
  | true => rw [norm_inv_rigid hr hb h]
  | false =>
    have hr' : rigidHead b.unwrap = false := by
      cases hr' : rigidHead b.unwrap with
      | false => rfl
      | true => rw [norm_inv_rigid hr' ha h.symm, hr'] at hr; cases hr
    revert hr hr' ha hb
    cases a.unwrap <;> cases b.unwrap <;> simp [rigidHead, noDrop]

/-- two related unwrapped values are the same rigid value, or both are containers -/
theorem unw_rel_cases {u u' : GoVal} (hu : Unw u) (hu' : Unw u') (h : RepEq d u u') :
    u' = u ∨ (rigidHead u = false ∧ rigidHead u' = false) := by
  cases hr : rigidHead u with
  | true => exact .inl (norm_inv_rigid hr hu'.noDrop h)
  | false =>
    cases hr' : rigidHead u' with
    | false => exact .inr ⟨rfl, rfl⟩
    | true => exact .inl (norm_inv_rigid hr' hu.noDrop h.symm).symm

theorem isNil_rel {u u' : GoVal} (hu : Unw u) (hu' : Unw u') (h : RepEq d u u') : u.isNil = u'.isNil := by
  rcases unw_rel_cases hu hu' h with rfl | ⟨h1, h2⟩
  · rfl
  · cases u <;> cases u' <;> simp_all [rigidHead, isNil]

/-- The order of `SortedMapKeys` looks at the keys only, and `normKVs` keeps them: entry lists with
    the same normal form are sorted alike (or both are outside the model). -/
theorem sortedMapEntries_norm_rel {kvs kvs' : List (GoVal × GoVal)} (hn : normKVs d kvs = normKVs d kvs') :
    (∃ es es', (MapOrder.sortedMapEntries kvs : Res Cause _) = .ok es ∧
        (MapOrder.sortedMapEntries kvs' : Res Cause _) = .ok es' ∧ normKVs d es = normKVs d es') ∨
    (∃ w, (MapOrder.sortedMapEntries kvs : Res Cause _) = .unmodelled w ∧
        (MapOrder.sortedMapEntries kvs' : Res Cause _) = .unmodelled w) := by
  have hk : ∀ kv : GoVal × GoVal, ((fun kv : GoVal × GoVal => (kv.1, norm d kv.2)) kv).1 = kv.1 := fun _ => rfl
  have hs : (MapOrder.sortedMapEntries (normKVs d kvs) : Res Cause _) = MapOrder.sortedMapEntries (normKVs d kvs') := by rw [hn]
  rw [normKVs_eq_map, normKVs_eq_map, MapOrder.sortedMapEntries_map_keep _ hk, MapOrder.sortedMapEntries_map_keep _ hk] at hs
  rcases MapOrder.sortedMapEntries_cases (ε := Cause) kvs with ⟨_, h1⟩ | ⟨_, w, h1⟩ <;>
    rcases MapOrder.sortedMapEntries_cases (ε := Cause) kvs' with ⟨_, h2⟩ | ⟨_, w', h2⟩ <;>
    rw [h1, h2] at hs <;> simp only [Res.bind_ok, Res.bind_unmodelled, Res.ok.injEq] at hs
  · exact .inl ⟨_, _, h1, h2, by rw [normKVs_eq_map, normKVs_eq_map, hs]⟩
  · cases hs
  · cases hs
  · injection hs with hs; subst hs; exact .inr ⟨w, h1, h2⟩

/-! ## Loop items -/

theorem mkPair_norm (k v : GoVal) : (mkPair k v).norm d = .slice .any [k.norm d, v.norm d] := by
  simp [mkPair, norm, normList]

theorem loopItems_unw_rel {budget : Int} {u u' : GoVal} (hu : Unw u) (hu' : Unw u') (h : RepEq d u u') :
    (∃ xs xs', loopItems budget u = .ok xs ∧ loopItems budget u' = .ok xs' ∧ normList d xs = normList d xs') ∨
    (loopItems budget u = loopItems budget u' ∧ ∀ xs, loopItems budget u ≠ .ok xs) := by
  cases u with
  | drop w => exact absurd hu.noDrop (by simp [noDrop])
  | slice t xs =>
    obtain ⟨xs', hs, hn⟩ := norm_inv_seq (u := .slice t xs) rfl hu'.noDrop h
    cases u' <;> simp [seqElems?] at hs <;> subst hs <;> exact .inl ⟨_, _, rfl, rfl, hn⟩
  | array t xs =>
    obtain ⟨xs', hs, hn⟩ := norm_inv_seq (u := .array t xs) rfl hu'.noDrop h
    cases u' <;> simp [seqElems?] at hs <;> subst hs <;> exact .inl ⟨_, _, rfl, rfl, hn⟩
  | map kt vt kvs =>
    rcases norm_inv_map hu'.noDrop h with rfl | ⟨_, vt', kvs', rfl, _, hn⟩
    · cases hl : loopItems budget (.map kt vt kvs) with
      | ok xs => exact .inl ⟨xs, xs, rfl, rfl, rfl⟩
      | _ => exact .inr ⟨rfl, by simp⟩
    · simp only [loopItems]
      rcases sortedMapEntries_norm_rel hn with ⟨es, es', h1, h2, hs⟩ | ⟨w, h1, h2⟩
      · rw [h1, h2]
        refine .inl ⟨_, _, rfl, rfl, ?_⟩
        simp only [normList_eq_map, List.map_map]
        have : ∀ l : List (GoVal × GoVal), List.map (norm d ∘ fun kv => mkPair kv.1 kv.2) l
            = List.map (fun kv => GoVal.slice .any [kv.1.norm d, kv.2]) (normKVs d l) := by
          intro l
          simp only [normKVs_eq_map, List.map_map]
          apply List.map_congr_left
          intro kv _
          simp [mkPair_norm]
        rw [this, this, hs]
      · rw [h1, h2]
        exact .inr ⟨rfl, by simp⟩
  | _ =>
    have := norm_inv_rigid (by simp [rigidHead]) hu'.noDrop h
    subst this
    first
    | exact .inl ⟨_, _, rfl, rfl, rfl⟩
    | (cases hl : loopItems budget _ with
       | ok xs => exact .inl ⟨xs, xs, rfl, rfl, rfl⟩
       | _ => exact .inr ⟨rfl, by simp⟩)

theorem selectItems_rel {xs xs' : List GoVal} (h : normList d xs = normList d xs') (rev : Bool) (off lim : Option Int) :
    normList d (selectItems rev off lim xs) = normList d (selectItems rev off lim xs') := by
  simp only [normList_eq_map] at h ⊢
  have hrev : ∀ {a a' : List GoVal}, List.map (norm d) a = List.map (norm d) a' → List.map (norm d) a.reverse = List.map (norm d) a'.reverse := by
    intro a a' e; rw [List.map_reverse, List.map_reverse, e]
  have hdrop : ∀ {a a' : List GoVal} (n : Nat), List.map (norm d) a = List.map (norm d) a' →
      List.map (norm d) (a.drop n) = List.map (norm d) (a'.drop n) := by
    intro a a' n e; rw [List.map_drop, List.map_drop, e]
  have htake : ∀ {a a' : List GoVal} (n : Nat), List.map (norm d) a = List.map (norm d) a' →
      List.map (norm d) (a.take n) = List.map (norm d) (a'.take n) := by
    intro a a' n e; rw [List.map_take, List.map_take, e]
  unfold selectItems
  cases rev <;> cases off <;> cases lim <;> simp only [Bool.false_eq_true, if_false, if_true] <;>
    repeat' split
  all_goals first
    | exact h
    | exact hrev h
    | exact hdrop _ h
    | exact hdrop _ (hrev h)
    | exact htake _ h
    | exact htake _ (hrev h)
    | exact htake _ (hdrop _ h)
    | exact htake _ (hdrop _ (hrev h))

/-! ## The cycle counters of the `forloop` record -/

theorem cyclesOf_erel {a b : GoVal} (h : ERel d a b) :
    a = b ∨ (cyclesOf a = none ∧ cyclesOf b = none) := by
  cases ha : isRec a with
  | true => exact .inl (h.2 (.inl ha))
  | false =>
    cases hb : isRec b with
    | true => exact .inl (h.2 (.inr hb))
    | false =>
      refine .inr ⟨?_, ?_⟩
      · unfold isRec at ha; cases hc : cyclesOf a <;> simp_all
      · unfold isRec at hb; cases hc : cyclesOf b <;> simp_all
