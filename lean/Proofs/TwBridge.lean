import Liquid.TrimWriter
import Liquid.TrimGeneric
import Proofs.Utf8Lemmas
import Proofs.TwLemmas
/-!
# Bridge between the byte-level trim writer (`TW.step`) and the generic machine (`Gen.GTW.step`)

For writes that are UTF-8 encodings of scalar values, `TW.step` is the image of `Gen.GTW.step`
(alphabet `Rune`, whitespace predicate `isSpaceRune`) under `encodeRunes`.
-/

/-- a Unicode scalar value (what valid UTF-8 encodes) -/
abbrev ValidScalar (r : Rune) : Prop := isScalar r = true

/-! ## `bytes.TrimLeftFunc(·, unicode.IsSpace)` on encoded runes -/

theorem tw_drop_encodeRune_append (r : Rune) (t : Bytes) :
    (encodeRune r ++ t).drop (max (encodeRune r).length 1) = t := by
  have := encodeRune_length_pos r
  rw [Nat.max_eq_left (by omega)]
  simp

theorem trimLeftSpaceAux_encodeRune_append (n : Nat) (r : Rune) (hr : ValidScalar r) (t : Bytes) :
    trimLeftSpaceAux (n + 1) (encodeRune r ++ t) =
      if isSpaceRune r then trimLeftSpaceAux n t else encodeRune r ++ t := by
  have hd := decodeRune_encodeRune_append r hr t
  have hdrop := tw_drop_encodeRune_append r t
  generalize encodeRune r ++ t = s at hd hdrop
  cases s with
  | nil => simp [decodeRune] at hd; have := encodeRune_length_pos r; omega
  | cons b s' =>
    simp only [trimLeftSpaceAux, hd, hdrop]

theorem trimLeftSpaceAux_nil' (n : Nat) : trimLeftSpaceAux n [] = [] := by cases n <;> rfl

theorem encodeRunes_cons' (r : Rune) (rs : List Rune) : encodeRunes (r :: rs) = encodeRune r ++ encodeRunes rs := by
  simp [encodeRunes]

theorem trimLeftSpaceAux_encodeRunes (rs : List Rune) (h : ∀ r ∈ rs, ValidScalar r) :
    ∀ n, (encodeRunes rs).length ≤ n →
      trimLeftSpaceAux n (encodeRunes rs) = encodeRunes (rs.dropWhile isSpaceRune) := by
  induction rs with
  | nil => intro n _; exact trimLeftSpaceAux_nil' n
  | cons r rs ih =>
    intro n hn
    rw [encodeRunes_cons'] at hn ⊢
    have hp := encodeRune_length_pos r
    rw [List.length_append] at hn
    obtain ⟨m, rfl⟩ : ∃ m, n = m + 1 := ⟨n - 1, by omega⟩
    rw [trimLeftSpaceAux_encodeRune_append m r (h r (by simp))]
    cases hs : isSpaceRune r
    · simp [hs]
    · simp only [if_true]
      rw [List.dropWhile_cons_of_pos hs]
      exact ih (fun r' hr' => h r' (by simp [hr'])) m (by omega)

theorem trimLeftSpace_encode (rs : List Rune) (h : ∀ r ∈ rs, ValidScalar r) :
    trimLeftSpace (encodeRunes rs) = encodeRunes (rs.dropWhile isSpaceRune) :=
  trimLeftSpaceAux_encodeRunes rs h _ (Nat.le_refl _)

/-! ## `utf8.DecodeLastRune` and `bytes.TrimRightFunc(·, unicode.IsSpace)` on encoded runes -/

theorem tw_u8_not_lt (b : UInt8) (h : 128 ≤ b.toNat) : ¬ (b < 0x80) := by
  rw [UInt8.lt_iff_toNat_lt]; simp; omega

theorem tw_isCont_of (b : UInt8) (h1 : 128 ≤ b.toNat) (h2 : b.toNat ≤ 191) : isCont b = true := by
  rw [isCont_nat]; simp [h1, h2]

theorem tw_not_isCont_of (b : UInt8) (h : 192 ≤ b.toNat) : isCont b = false := by
  rw [isCont_nat]; simp; omega

/-- the last rune of a string that ends with the encoding of a scalar value is that value -/
theorem decodeLastRuneRev_encodeRune_append (r : Rune) (hr : ValidScalar r) (t : Bytes) :
    decodeLastRuneRev ((encodeRune r).reverse ++ t) = (r, (encodeRune r).length) := by
  have g := good_encodeRune r hr []
  rw [List.append_nil] at g
  generalize hw : (encodeRune r).length = w at g
  generalize hs : encodeRune r = s at g hw
  cases g with
  | one b0 t' h0 =>
    have : t' = [] := List.eq_nil_of_length_eq_zero (by simpa using hw)
    subst this
    have : b0 < 0x80 := by rw [UInt8.lt_iff_toNat_lt]; simpa using h0
    simp [decodeLastRuneRev, this]
  | two b0 b1 t' h0 h0' h1 h1' =>
    have : t' = [] := List.eq_nil_of_length_eq_zero (by simpa using hw)
    subst this
    have g := (Good.two b0 b1 [] h0 h0' h1 h1').decode
    simp only [List.reverse_cons, List.reverse_nil, List.nil_append, List.cons_append, decodeLastRuneRev,
      if_neg (tw_u8_not_lt b1 h1)]
    simp only [List.take_succ_cons, List.drop_succ_cons, List.drop_zero, findRuneStart,
      tw_not_isCont_of b0 (by omega), Bool.not_false, if_true, List.take_zero, List.reverse_cons,
      List.reverse_nil, List.nil_append, List.cons_append, g]
    simp
  | three b0 b1 b2 t' h0 h0' h1 h1' hl hh h2 h2' =>
    have : t' = [] := List.eq_nil_of_length_eq_zero (by simpa using hw)
    subst this
    have g := (Good.three b0 b1 b2 [] h0 h0' h1 h1' hl hh h2 h2').decode
    simp only [List.reverse_cons, List.reverse_nil, List.nil_append, List.cons_append, decodeLastRuneRev,
      if_neg (tw_u8_not_lt b2 h2)]
    simp only [List.take_succ_cons, List.drop_succ_cons, List.drop_zero, findRuneStart,
      tw_isCont_of b1 h1 h1', tw_not_isCont_of b0 (by omega), Bool.not_false, Bool.not_true, if_true,
      Bool.false_eq_true, if_false, List.take_zero, List.reverse_cons,
      List.reverse_nil, List.nil_append, List.cons_append, g]
    simp
  | four b0 b1 b2 b3 t' h0 h0' h1 h1' hl hh h2 h2' h3 h3' =>
    have : t' = [] := List.eq_nil_of_length_eq_zero (by simpa using hw)
    subst this
    have g := (Good.four b0 b1 b2 b3 [] h0 h0' h1 h1' hl hh h2 h2' h3 h3').decode
    simp only [List.reverse_cons, List.reverse_nil, List.nil_append, List.cons_append, decodeLastRuneRev,
      if_neg (tw_u8_not_lt b3 h3)]
    simp only [List.take_succ_cons, List.drop_succ_cons, List.drop_zero, findRuneStart,
      tw_isCont_of b1 h1 h1', tw_isCont_of b2 h2 h2', tw_not_isCont_of b0 (by omega), Bool.not_false,
      Bool.not_true, if_true, Bool.false_eq_true, if_false, List.take_zero, List.reverse_cons,
      List.reverse_nil, List.nil_append, List.cons_append, g]
    simp

/-- the reversed encoding of a reversed rune list: head = last byte of the string -/
def revEnc (rs : List Rune) : Bytes := (encodeRunes rs.reverse).reverse

theorem revEnc_cons (r : Rune) (rs : List Rune) : revEnc (r :: rs) = (encodeRune r).reverse ++ revEnc rs := by
  simp [revEnc, encodeRunes_append]

theorem trimRightSpaceRevAux_nil' (n : Nat) : trimRightSpaceRevAux n [] = [] := by cases n <;> rfl

theorem trimRightSpaceRevAux_encodeRune_append (n : Nat) (r : Rune) (hr : ValidScalar r) (t : Bytes) :
    trimRightSpaceRevAux (n + 1) ((encodeRune r).reverse ++ t) =
      if isSpaceRune r then trimRightSpaceRevAux n t else (encodeRune r).reverse ++ t := by
  have hd := decodeLastRuneRev_encodeRune_append r hr t
  have hdrop : ((encodeRune r).reverse ++ t).drop (max (encodeRune r).length 1) = t := by
    have := encodeRune_length_pos r
    rw [Nat.max_eq_left (by omega)]
    rw [List.drop_append_of_le_length (by simp)]
    simp
  generalize (encodeRune r).reverse ++ t = s at hd hdrop
  cases s with
  | nil => simp [decodeLastRuneRev] at hd; have := encodeRune_length_pos r; omega
  | cons b s' =>
    simp only [trimRightSpaceRevAux, hd, hdrop]

theorem trimRightSpaceRevAux_revEnc (rs : List Rune) (h : ∀ r ∈ rs, ValidScalar r) :
    ∀ n, (revEnc rs).length ≤ n →
      trimRightSpaceRevAux n (revEnc rs) = revEnc (rs.dropWhile isSpaceRune) := by
  induction rs with
  | nil => intro n _; exact trimRightSpaceRevAux_nil' n
  | cons r rs ih =>
    intro n hn
    rw [revEnc_cons] at hn ⊢
    have hp := encodeRune_length_pos r
    rw [List.length_append, List.length_reverse] at hn
    obtain ⟨m, rfl⟩ : ∃ m, n = m + 1 := ⟨n - 1, by omega⟩
    rw [trimRightSpaceRevAux_encodeRune_append m r (h r (by simp))]
    cases hs : isSpaceRune r
    · simp [hs, revEnc_cons]
    · simp only [if_true]
      rw [List.dropWhile_cons_of_pos hs]
      exact ih (fun r' hr' => h r' (by simp [hr'])) m (by omega)

theorem trimRightSpace_encode (rs : List Rune) (h : ∀ r ∈ rs, ValidScalar r) :
    trimRightSpace (encodeRunes rs) = encodeRunes (Gen.rstrip isSpaceRune rs) := by
  have e : (encodeRunes rs).reverse = revEnc rs.reverse := by simp [revEnc]
  unfold trimRightSpace
  rw [e, trimRightSpaceRevAux_revEnc rs.reverse (fun r hr => h r (by simpa using hr)) _ (by rw [← e]; simp)]
  simp [revEnc, Gen.rstrip]

/-! ## the simulation -/

def encOp : Gen.GOp Rune → WOp
  | .write b => .write (encodeRunes b)
  | .trimLeft => .trimLeft
  | .trimRight => .trimRight
  | .flush => .flush

def decOp : WOp → Gen.GOp Rune
  | .write b => .write (decodeRunes b)
  | .trimLeft => .trimLeft
  | .trimRight => .trimRight
  | .flush => .flush

def encTW (t : Gen.GTW Rune) : TW := { buf := encodeRunes t.buf, trim := t.trim }

/-- every write of the (rune-level) operation consists of scalar values -/
def ScalarOp : Gen.GOp Rune → Prop
  | .write b => ∀ r ∈ b, ValidScalar r
  | _ => True

/-- every write of the (byte-level) operation list is valid UTF-8 -/
def ValidOps (ops : List WOp) : Prop := ∀ b, WOp.write b ∈ ops → ValidUtf8 b

theorem encodeRunes_isEmpty (rs : List Rune) : (encodeRunes rs).isEmpty = rs.isEmpty := by
  cases rs with
  | nil => rfl
  | cons r rs =>
    rw [encodeRunes_cons']
    have := encodeRune_ne_nil r
    cases h : encodeRune r with
    | nil => exact absurd h this
    | cons _ _ => rfl

theorem encodeRunes_flatten (l : List (List Rune)) : encodeRunes l.flatten = (l.map encodeRunes).flatten := by
  induction l with
  | nil => rfl
  | cons a l ih => simp [encodeRunes_append, ih]

theorem scalar_dropWhile {rs : List Rune} (h : ∀ r ∈ rs, ValidScalar r) (p : Rune → Bool) :
    ∀ r ∈ rs.dropWhile p, ValidScalar r :=
  fun r hr => h r ((List.dropWhile_sublist p).subset hr)

theorem step_enc (t : Gen.GTW Rune) (ht : ∀ r ∈ t.buf, ValidScalar r) (op : Gen.GOp Rune) (hop : ScalarOp op) :
    TW.step (encTW t) (encOp op) =
        (encTW (t.step isSpaceRune op).1, (t.step isSpaceRune op).2.map encodeRunes) ∧
      ∀ r ∈ (t.step isSpaceRune op).1.buf, ValidScalar r := by
  cases t with | mk buf trim =>
  cases op with
  | write b =>
    cases trim
    · refine ⟨?_, hop⟩
      simp only [TW.step, Gen.GTW.step, encTW, encOp, Bool.false_eq_true, if_false, encodeRunes_isEmpty]
      cases buf <;> rfl
    · refine ⟨?_, scalar_dropWhile hop _⟩
      simp only [TW.step, Gen.GTW.step, encTW, encOp, if_true, encodeRunes_isEmpty]
      rw [trimLeftSpace_encode b hop]
      cases buf <;> rfl
  | trimLeft =>
    refine ⟨?_, by simp [Gen.GTW.step]⟩
    simp only [TW.step, Gen.GTW.step, encTW, encOp, List.map_cons, List.map_nil]
    rw [trimRightSpace_encode buf ht]; rfl
  | trimRight => exact ⟨rfl, ht⟩
  | flush =>
    refine ⟨?_, by simp [Gen.GTW.step]⟩
    simp only [TW.step, Gen.GTW.step, encTW, encOp, encodeRunes_isEmpty]
    cases buf <;> rfl

theorem run_enc (ops : List (Gen.GOp Rune)) : ∀ (t : Gen.GTW Rune), (∀ r ∈ t.buf, ValidScalar r) →
    (∀ op ∈ ops, ScalarOp op) →
    TW.run (encTW t) (ops.map encOp) =
      (encTW (Gen.GTW.run isSpaceRune t ops).1, (Gen.GTW.run isSpaceRune t ops).2.map encodeRunes) := by
  induction ops with
  | nil => intro t _ _; rfl
  | cons op ops ih =>
    intro t ht hops
    obtain ⟨e, ht'⟩ := step_enc t ht op (hops op (by simp))
    simp only [List.map_cons, TW.run, Gen.GTW.run, e]
    rw [ih _ ht' (fun o ho => hops o (by simp [ho]))]
    simp

/-- **the bridge**: on scalar-valued writes the byte machine outputs the encoding of what the
    generic machine (alphabet `Rune`, whitespace = `unicode.IsSpace`) outputs -/
theorem runOps_enc (ops : List (Gen.GOp Rune)) (h : ∀ op ∈ ops, ScalarOp op) :
    runOps (ops.map encOp) = encodeRunes (Gen.out isSpaceRune ops) := by
  have e : ops.map encOp ++ [WOp.flush] = (ops ++ [Gen.GOp.flush]).map encOp := by simp [encOp]
  unfold runOps Gen.out Gen.GTW.outFrom
  simp only [e]
  have := run_enc (ops ++ [.flush]) {} (by simp) (by
    intro op hop
    rcases List.mem_append.1 hop with h' | h'
    · exact h op h'
    · simp at h'; subst h'; trivial)
  have e0 : encTW {} = ({} : TW) := rfl
  rw [e0] at this
  rw [this, encodeRunes_flatten]

/-- the same for the list of underlying write calls -/
theorem writeCalls_enc (ops : List (Gen.GOp Rune)) (h : ∀ op ∈ ops, ScalarOp op) :
    writeCalls (ops.map encOp) = (Gen.GTW.run isSpaceRune {} (ops ++ [.flush])).2.map encodeRunes := by
  have e : ops.map encOp ++ [WOp.flush] = (ops ++ [Gen.GOp.flush]).map encOp := by simp [encOp]
  unfold writeCalls
  rw [e]
  have := run_enc (ops ++ [.flush]) {} (by simp) (by
    intro op hop
    rcases List.mem_append.1 hop with h' | h'
    · exact h op h'
    · simp at h'; subst h'; trivial)
  have e0 : encTW {} = ({} : TW) := rfl
  rw [e0] at this
  rw [this]

theorem eraseTrims_map_encOp (ops : List (Gen.GOp Rune)) :
    eraseTrims (ops.map encOp) = (Gen.eraseTrims ops).map encOp := by
  induction ops with
  | nil => rfl
  | cons op ops ih =>
    cases op <;> simp_all [eraseTrims, Gen.eraseTrims, encOp]

/-- valid byte-level operation lists are images of scalar rune-level ones -/
theorem validOps_decode (ops : List WOp) (h : ValidOps ops) :
    (ops.map decOp).map encOp = ops ∧ ∀ op ∈ ops.map decOp, ScalarOp op := by
  induction ops with
  | nil => exact ⟨rfl, by simp⟩
  | cons op ops ih =>
    obtain ⟨e, hs⟩ := ih (fun b hb => h b (by simp [hb]))
    constructor
    · simp only [List.map_cons, e]
      congr 1
      cases op with
      | write b => simp only [decOp, encOp]; rw [encodeRunes_decodeRunes_of_valid b (h b (by simp))]
      | _ => rfl
    · intro o ho
      simp only [List.map_cons, List.mem_cons] at ho
      rcases ho with rfl | ho
      · cases op with
        | write b => exact decodeRunes_all_scalar b
        | _ => trivial
      · exact hs o ho

/-- the runes of the writes of a scalar operation list are scalar -/
theorem writes_scalar (ops : List (Gen.GOp Rune)) (h : ∀ op ∈ ops, ScalarOp op) :
    ∀ r ∈ Gen.writes ops, ValidScalar r := by
  induction ops with
  | nil => simp [Gen.writes]
  | cons op ops ih =>
    have ih' := ih (fun o ho => h o (by simp [ho]))
    cases op with
    | write b =>
      intro r hr
      simp only [Gen.writes, List.mem_append] at hr
      rcases hr with hr | hr
      · exact h (.write b) (by simp) r hr
      · exact ih' r hr
    | _ => exact ih'

/-! ## byte-level facts that need no validity -/

/-- the concatenation of everything written -/
def wopWrites : List WOp → Bytes
  | [] => []
  | .write b :: ops => b ++ wopWrites ops
  | _ :: ops => wopWrites ops

theorem tw_run_append (t : TW) (xs ys : List WOp) :
    TW.run t (xs ++ ys) =
      ((TW.run (TW.run t xs).1 ys).1, (TW.run t xs).2 ++ (TW.run (TW.run t xs).1 ys).2) := by
  induction xs generalizing t with
  | nil => simp [TW.run]
  | cons op xs ih =>
    simp only [List.cons_append, TW.run]
    rw [ih]
    simp [List.append_assoc]

/-- without trim operations, and with the flag clear, the byte machine is a plain buffered writer
    (for arbitrary bytes, valid UTF-8 or not) -/
theorem tw_run_eraseTrims (ops : List WOp) : ∀ (buf : Bytes),
    (TW.run { buf := buf, trim := false } (eraseTrims ops ++ [.flush])).2.flatten = buf ++ wopWrites ops := by
  induction ops with
  | nil => intro buf; cases buf <;> simp [eraseTrims, TW.run, TW.step, wopWrites]
  | cons op ops ih =>
    intro buf
    cases op with
    | write u =>
      have : eraseTrims (.write u :: ops) = .write u :: eraseTrims ops := by simp [eraseTrims]
      rw [this]
      simp only [List.cons_append, TW.run, TW.step, Bool.false_eq_true, if_false, List.flatten_append, ih,
        wopWrites]
      cases buf <;> simp
    | trimLeft =>
      have : eraseTrims (.trimLeft :: ops) = eraseTrims ops := by simp [eraseTrims]
      rw [this, ih]; rfl
    | trimRight =>
      have : eraseTrims (.trimRight :: ops) = eraseTrims ops := by simp [eraseTrims]
      rw [this, ih]; rfl
    | flush =>
      have : eraseTrims (.flush :: ops) = .flush :: eraseTrims ops := by simp [eraseTrims]
      rw [this]
      simp only [List.cons_append, TW.run, TW.step, List.flatten_append, ih, wopWrites]
      cases buf <;> simp

theorem tw_step_calls_le_one (t : TW) (op : WOp) : (t.step op).2.length ≤ 1 := by
  cases op <;> simp only [TW.step] <;> repeat' split
  all_goals simp

theorem tw_run_calls_le (ops : List WOp) : ∀ t : TW, (TW.run t ops).2.length ≤ ops.length := by
  induction ops with
  | nil => intro t; simp [TW.run]
  | cons op ops ih =>
    intro t
    simp only [TW.run, List.length_append, List.length_cons]
    have := tw_step_calls_le_one t op
    have := ih (t.step op).1
    omega

/-! ## byte-level statements through the bridge -/

/-- delete every `unicode.IsSpace` rune (Go: `strings.Map` with a negative result for spaces;
    an invalid byte decodes to U+FFFD and is written back as `EF BF BD`, as `strings.Map` does) -/
def stripSpaceBytes (s : Bytes) : Bytes :=
  encodeRunes ((decodeRunes s).filter fun r => !isSpaceRune r)

/-- the text has a rune that is not whitespace -/
def hasInkBytes (s : Bytes) : Bool := Gen.hasInk isSpaceRune (decodeRunes s)

theorem out_scalar (ops : List (Gen.GOp Rune)) (h : ∀ op ∈ ops, ScalarOp op) :
    ∀ r ∈ Gen.out isSpaceRune ops, ValidScalar r := fun r hr =>
  writes_scalar ops h r (((Gen.out_wsDeletion isSpaceRune ops).sublist isSpaceRune).subset hr)

theorem scalar_eraseTrims (ops : List (Gen.GOp Rune)) (h : ∀ op ∈ ops, ScalarOp op) :
    ∀ op ∈ Gen.eraseTrims ops, ScalarOp op := fun op hop =>
  h op (List.mem_filter.1 hop).1

theorem validOps_lift (ops : List WOp) (h : ValidOps ops) :
    ∃ g : List (Gen.GOp Rune), g.map encOp = ops ∧ ∀ op ∈ g, ScalarOp op :=
  ⟨ops.map decOp, (validOps_decode ops h).1, (validOps_decode ops h).2⟩

theorem validOps_append {xs ys : List WOp} : ValidOps (xs ++ ys) ↔ ValidOps xs ∧ ValidOps ys := by
  unfold ValidOps
  constructor
  · intro h; exact ⟨fun b hb => h b (by simp [hb]), fun b hb => h b (by simp [hb])⟩
  · intro ⟨h1, h2⟩ b hb
    rcases List.mem_append.1 hb with hb | hb
    · exact h1 b hb
    · exact h2 b hb

theorem validOps_cons_write {u : Bytes} {ys : List WOp} :
    ValidOps (.write u :: ys) ↔ ValidUtf8 u ∧ ValidOps ys := by
  unfold ValidOps
  constructor
  · intro h; exact ⟨h u (by simp), fun b hb => h b (by simp [hb])⟩
  · intro ⟨h1, h2⟩ b hb
    simp only [List.mem_cons, WOp.write.injEq] at hb
    rcases hb with rfl | hb
    · exact h1
    · exact h2 b hb

theorem runOps_valid (ops : List WOp) (h : ValidOps ops) : ValidUtf8 (runOps ops) := by
  obtain ⟨g, rfl, hs⟩ := validOps_lift ops h
  rw [runOps_enc g hs]
  exact ⟨_, out_scalar g hs, rfl⟩

theorem decodeRunes_runOps (g : List (Gen.GOp Rune)) (hs : ∀ op ∈ g, ScalarOp op) :
    decodeRunes (runOps (g.map encOp)) = Gen.out isSpaceRune g := by
  rw [runOps_enc g hs, decode_encode _ (out_scalar g hs)]

/-- the shape every lifted "adjacent" statement has: two operation lists that differ in a middle
    segment, the segments being images of rune-level segments -/
theorem runOps_congr_middle (pre post : List WOp) (hpre : ValidOps pre) (hpost : ValidOps post)
    (m1 m2 : List (Gen.GOp Rune)) (h1 : ∀ op ∈ m1, ScalarOp op) (h2 : ∀ op ∈ m2, ScalarOp op)
    (hgen : ∀ gpre gpost : List (Gen.GOp Rune), gpre.map encOp = pre → (∀ op ∈ gpre, ScalarOp op) →
      Gen.out isSpaceRune (gpre ++ m1 ++ gpost) = Gen.out isSpaceRune (gpre ++ m2 ++ gpost)) :
    runOps (pre ++ m1.map encOp ++ post) = runOps (pre ++ m2.map encOp ++ post) := by
  obtain ⟨gpre, e1, s1⟩ := validOps_lift pre hpre
  obtain ⟨gpost, e2, s2⟩ := validOps_lift post hpost
  have hs : ∀ (m : List (Gen.GOp Rune)), (∀ op ∈ m, ScalarOp op) → ∀ op ∈ gpre ++ m ++ gpost, ScalarOp op := by
    intro m hm op hop
    simp only [List.mem_append] at hop
    rcases hop with (hop | hop) | hop
    · exact s1 op hop
    · exact hm op hop
    · exact s2 op hop
  have e : ∀ m : List (Gen.GOp Rune), pre ++ m.map encOp ++ post = (gpre ++ m ++ gpost).map encOp := by
    intro m; simp [e1, e2]
  rw [e m1, e m2, runOps_enc _ (hs m1 h1), runOps_enc _ (hs m2 h2), hgen gpre gpost e1 s1]

/-- the trim flag after `ops` (from the initial state) -/
def twFlagAfter (ops : List WOp) : Bool := (TW.run {} ops).1.trim

theorem flagAfter_enc (g : List (Gen.GOp Rune)) (hs : ∀ op ∈ g, ScalarOp op) :
    twFlagAfter (g.map encOp) = Gen.flagAfter isSpaceRune g := by
  unfold twFlagAfter
  have := run_enc g {} (by simp) hs
  have e0 : encTW {} = ({} : TW) := rfl
  rw [e0] at this
  rw [this]; rfl

theorem encodeRunes_sublist {a b : List Rune} (h : a.Sublist b) : (encodeRunes a).Sublist (encodeRunes b) := by
  induction h with
  | slnil => exact .slnil
  | cons x _ ih =>
    rw [encodeRunes_cons']
    exact ih.trans (List.sublist_append_right _ _)
  | cons_cons x _ ih =>
    rw [encodeRunes_cons', encodeRunes_cons']
    exact (List.Sublist.refl _).append ih

/-! ## byte-level facts about consecutive writes (no validity needed) -/

theorem tw_flatten_flushCalls (b : Bytes) : (if b.isEmpty then [] else [b] : List Bytes).flatten = b := by
  cases b <;> simp

theorem tw_runOps_append (pre rest : List WOp) :
    runOps (pre ++ rest) =
      (TW.run {} pre).2.flatten ++ (TW.run (TW.run {} pre).1 (rest ++ [.flush])).2.flatten := by
  unfold runOps
  simp only [List.append_assoc]
  rw [tw_run_append]
  simp

theorem tw_run_cons_flatten (t : TW) (op : WOp) (ops : List WOp) :
    (TW.run t (op :: ops)).2.flatten = (t.step op).2.flatten ++ (TW.run (t.step op).1 ops).2.flatten := by
  simp [TW.run]

/-- the bytes of `ops` followed by the final flush, from state `t` -/
def twOutFrom (t : TW) (ops : List WOp) : Bytes := (TW.run t (ops ++ [.flush])).2.flatten

theorem twOutFrom_nil (t : TW) : twOutFrom t [] = t.buf := by
  simp only [twOutFrom, List.nil_append, TW.run, TW.step, List.append_nil, tw_flatten_flushCalls]

theorem twOutFrom_write (t : TW) (b : Bytes) (ops : List WOp) :
    twOutFrom t (.write b :: ops) =
      t.buf ++ twOutFrom { buf := if t.trim then trimLeftSpace b else b, trim := false } ops := by
  simp only [twOutFrom, List.cons_append, tw_run_cons_flatten, TW.step, tw_flatten_flushCalls]

theorem twOutFrom_trimLeft (t : TW) (ops : List WOp) :
    twOutFrom t (.trimLeft :: ops) = trimRightSpace t.buf ++ twOutFrom { t with buf := [] } ops := by
  simp [twOutFrom, tw_run_cons_flatten, TW.step]

theorem twOutFrom_trimRight (t : TW) (ops : List WOp) :
    twOutFrom t (.trimRight :: ops) = twOutFrom { t with trim := true } ops := by
  simp [twOutFrom, tw_run_cons_flatten, TW.step]

theorem twOutFrom_flush (t : TW) (ops : List WOp) :
    twOutFrom t (.flush :: ops) = t.buf ++ twOutFrom { t with buf := [] } ops := by
  simp only [twOutFrom, List.cons_append, tw_run_cons_flatten, TW.step, tw_flatten_flushCalls]

theorem runOps_eq_twOutFrom (ops : List WOp) : runOps ops = twOutFrom {} ops := rfl

theorem runOps_append (pre rest : List WOp) :
    runOps (pre ++ rest) = (TW.run {} pre).2.flatten ++ twOutFrom (TW.run {} pre).1 rest :=
  tw_runOps_append pre rest
