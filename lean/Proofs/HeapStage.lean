import Proofs.HeapFilters
/-!
# One filter application and a pipeline on the slice memory refine their pure counterparts

`bodyP` / `stageP` / `chainP` are `bodyF` / `stageF` / `runChainF` of `Liquid/Heap.lean` with every slice
replaced by the list of its elements (`HVal.abs`): conversion (`convAnysP` = `Convert.convert · .anys`), then the
body of `Filters/Arr.lean`. `bodyF_refines`, `stageF_refines`, `runChainF_refines`: the run on the memory answers
as the pure function does, and its result reads, in the final store, as the pure result.
-/

namespace Heap

open ArrF

/-! ### arguments that are not `[]any` -/

theorem freeze_run {st : Store} {h : HVal} (hw : HVal.wf st h) : run (freeze h) st = .ok ⟨h.abs st, st, []⟩ := by
  cases h with
  | val v => rfl
  | sl t s =>
    simp only [freeze, HVal.abs]
    rw [run_bind, run_elems hw]
    rfl

def optAbs (st : Store) (oh : Option HVal) : Option GoVal := oh.map (·.abs st)

def OptWf (st : Store) : Option HVal → Prop
  | none => True
  | some h => HVal.wf st h

theorem freezeOpt_run {st : Store} {oh : Option HVal} (hw : OptWf st oh) :
    run (freezeOpt oh) st = .ok ⟨optAbs st oh, st, []⟩ := by
  cases oh with
  | none => rfl
  | some h =>
    simp only [freezeOpt]
    rw [run_bind, freeze_run hw]
    rfl

/-- `sep(" ")` on values -/
def sepP : Option GoVal → Res Cause Bytes
  | none => .ok [32]
  | some g => (convert g .str).bind fun
    | .str s => .ok s
    | _ => .panic "filter called with arguments of the wrong type"

def strArgP (og : Option GoVal) : Res Cause Bytes :=
  (convArgVal .str og).bind fun
    | .str s => .ok s
    | _ => .panic "filter called with arguments of the wrong type"

/-- a run that only computes: same answer as the pure computation, same store -/
def Pure {α : Type} (st : Store) (v : α) (st' : Store) (w : α) : Prop := v = w ∧ st' = st

theorem sepOf_refines {st : Store} {oh : Option HVal} (hw : OptWf st oh) :
    Refines (run (sepOf oh) st) (sepP (optAbs st oh)) (Pure st) := by
  cases oh with
  | none => exact Refines.ret ⟨rfl, rfl⟩
  | some h =>
    simp only [sepOf, optAbs, Option.map, sepP]
    refine Refines.bind_ok (freeze_run hw) ?_
    refine Refines.bind (Refines.liftR _ _) ?_
    intro v st1 b ⟨hvb, hst⟩
    subst hvb hst
    cases v <;> first | exact Refines.ret ⟨rfl, rfl⟩ | rfl

theorem strArg_refines {st : Store} {oh : Option HVal} (hw : OptWf st oh) :
    Refines (run (strArg oh) st) (strArgP (optAbs st oh)) (Pure st) := by
  unfold strArg strArgP
  refine Refines.bind_ok (freezeOpt_run hw) ?_
  refine Refines.bind (Refines.liftR _ _) ?_
  intro v st1 b ⟨hvb, hst⟩
  subst hvb hst
  cases v <;> first | exact Refines.ret ⟨rfl, rfl⟩ | rfl

theorem anyArg_refines {st : Store} {oh : Option HVal} (hw : OptWf st oh) :
    Refines (run (anyArg oh) st) (convArgVal .any (optAbs st oh)) (Pure st) := by
  unfold anyArg
  refine Refines.bind_ok (freezeOpt_run hw) ?_
  exact (Refines.liftR _ _)

/-! ### `size`, `default` -/

def sizeP (g : GoVal) : Res Cause GoVal :=
  (convArgVal .any (some g)).bind fun c =>
    match Num.size [.val c] with
    | .ok (.ok r) => .ok r
    | .ok (.error e) => .err (.filterErr (bn "size") e)
    | .err c => .err c
    | .panic w => .panic w
    | .unmodelled w => .unmodelled w

theorem sizeH_refines {st : Store} {recv : HVal} (hw : HVal.wf st recv) :
    Refines (run (sizeH recv) st) (sizeP (recv.abs st)) (Pure st) := by
  cases recv with
  | sl t s =>
    have : sizeP (.slice t (view st s)) = .ok (.int .int (view st s).length) := by
      simp [sizeP, convArgVal, convert, convAny, GoVal.toLiquid, Res.bind, Num.size, ret]
    simp only [HVal.abs, this, sizeH]
    refine Refines.ret ⟨?_, rfl⟩
    rw [view_length_wf hw]
  | val v =>
    simp only [sizeH, sizeP, HVal.abs]
    refine Refines.bind (Refines.liftR _ _) ?_
    intro c st1 b ⟨hcb, hst⟩
    subst hcb hst
    cases Num.size [.val c] with
    | ok e =>
      cases e with
      | ok r => exact Refines.ret ⟨rfl, rfl⟩
      | error e => rfl
    | err c => rfl
    | panic w => rfl
    | unmodelled w => rfl

/-- a parameter of type `any`, on values -/
def convAnyP : Option GoVal → Res Cause GoVal
  | none => .ok .nil
  | some .nil => .ok .nil
  | some v => convAny v

/-- the body of `default` on values (`Num.default`) -/
def defaultV (v d : GoVal) : GoVal :=
  let empty := match v with
    | .nil => true
    | .bool false => true
    | w => Num.isEmpty w.toLiquid
  if empty then d else v

theorem convAnyH_abs {st : Store} (oh : Option HVal) :
    (convAnyH oh).bind (fun h => .ok (h.abs st)) = convAnyP (optAbs st oh) := by
  cases oh with
  | none => rfl
  | some h =>
    cases h with
    | sl t s => simp [convAnyH, optAbs, HVal.abs, convAnyP, convAny, GoVal.toLiquid, Res.bind]
    | val v =>
      have key : ∀ x : Res Cause GoVal, ((x.bind fun w => .ok (HVal.val w)).bind fun h => .ok (h.abs st)) = x := by
        intro x; cases x <;> rfl
      cases v <;> first | rfl | exact key _


theorem convAnyH_wf {st : Store} {oh : Option HVal} {v : HVal} (hw : OptWf st oh) (h : convAnyH oh = .ok v) : HVal.wf st v := by
  cases oh with
  | none => simp only [convAnyH, Res.ok.injEq] at h; subst h; trivial
  | some x =>
    cases x with
    | sl t s => simp only [convAnyH, Res.ok.injEq] at h; subst h; exact hw
    | val g =>
      cases v with
      | val _ => trivial
      | sl t s =>
        exfalso
        cases g <;> simp only [convAnyH] at h <;> first | cases h | (cases hc : convAny _ <;> rw [hc] at h <;> cases h)

theorem convAnyH_refines {st : Store} {oh : Option HVal} (hw : OptWf st oh) :
    Refines (run (liftR (convAnyH oh)) st) (convAnyP (optAbs st oh)) (fun v st' w => v.abs st = w ∧ HVal.wf st v ∧ st' = st) := by
  rw [← convAnyH_abs]
  cases h : convAnyH oh with
  | ok v => exact Refines.ret ⟨rfl, convAnyH_wf hw h, rfl⟩
  | err c => rfl
  | panic w => rfl
  | unmodelled w => rfl

/-- is the receiver of `default` replaced? (on the memory / on values) -/
def emptyH : HVal → Bool
  | .sl _ s => lenS s == 0
  | .val .nil => true
  | .val (.bool false) => true
  | .val w => Num.isEmpty w.toLiquid

def emptyV : GoVal → Bool
  | .nil => true
  | .bool false => true
  | w => Num.isEmpty w.toLiquid

theorem defaultH_eq (v d : HVal) : defaultH v d = if emptyH v then d else v := by
  cases v with
  | sl t s => rfl
  | val g => cases g <;> first | rfl | (rename_i b; cases b <;> rfl)

theorem defaultV_eq (v d : GoVal) : defaultV v d = if emptyV v then d else v := by
  cases v <;> first | rfl | (rename_i b; cases b <;> rfl)

theorem emptyH_abs {st : Store} {v : HVal} (hw : HVal.wf st v) : emptyH v = emptyV (v.abs st) := by
  cases v with
  | sl t s =>
    have hl := view_length_wf (s := s) hw
    show (lenS s == 0) = (view st s).isEmpty
    cases hv : view st s with
    | nil => rw [hv] at hl; simp at hl; simp [← hl]
    | cons x xs => rw [hv] at hl; simp at hl; simp [← hl]
  | val g => cases g <;> first | rfl | (rename_i b; cases b <;> rfl)

theorem defaultH_abs {st : Store} {v d : HVal} (hw : HVal.wf st v) : (defaultH v d).abs st = defaultV (v.abs st) (d.abs st) := by
  rw [defaultH_eq, defaultV_eq, emptyH_abs hw]
  cases emptyV (v.abs st) <;> rfl

theorem defaultH_wf {st : Store} {v d : HVal} (hv : HVal.wf st v) (hd : HVal.wf st d) : HVal.wf st (defaultH v d) := by
  rw [defaultH_eq]
  cases emptyH v
  · exact hv
  · exact hd

/-! ### a filter application -/

def sliceOf (r : Res Cause (List GoVal)) : Res Cause GoVal := r.bind fun ys => .ok (.slice .any ys)

/-- `bodyF` on values: conversion of the arguments left to right, then the body of `Filters/Arr.lean` -/
def bodyP (strict : Bool) : FName → GoVal → List GoVal → Res Cause GoVal
  | .compact, g, _ => (convAnysP g).bind fun xs => sliceOf (.ok (compactF xs))
  | .concat, g, args => (convAnysP g).bind fun xs => (convAnysP (args.headD .nil)).bind fun ys => sliceOf (.ok (concatF xs ys))
  | .join, g, args => (convAnysP g).bind fun xs => (sepP args.head?).bind fun sep => joinF xs sep
  | .map, g, args => (convAnysP g).bind fun xs => (strArgP args.head?).bind fun k => sliceOf (mapF k xs)
  | .reverse, g, _ => (convAnysP g).bind fun xs => sliceOf (.ok (reverseF xs))
  | .sort, g, args => (convAnysP g).bind fun xs => (convArgVal .any args.head?).bind fun key => sliceOf (sortedList strict false xs key)
  | .sortNatural, g, args => (convAnysP g).bind fun xs => (convArgVal .any args.head?).bind fun key => sliceOf (sortedList strict true xs key)
  | .first, g, _ => (convAnysP g).bind fun xs => .ok (firstF xs)
  | .last, g, _ => (convAnysP g).bind fun xs => .ok (lastF xs)
  | .uniq, g, _ => (convAnysP g).bind fun xs => sliceOf (uniqP xs)
  | .size, g, _ => sizeP g
  | .default, g, args => (convAnyP (some g)).bind fun v => (convAnyP args.head?).bind fun d => .ok (defaultV v d)

/-- what a filter application started in `st` leaves: a well-formed value that reads as the pure result,
and every array of `st` as it was -/
def StageResult (st : Store) (v : HVal) (st' : Store) (w : GoVal) : Prop :=
  v.abs st' = w ∧ HVal.wf st' v ∧ (∀ b, b < st.length → st'[b]? = st[b]?) ∧ st.length ≤ st'.length

theorem HVal.kept {st st' : Store} {h : HVal} (hk : ∀ b, b < st.length → st'[b]? = st[b]?) (hw : HVal.wf st h) :
    HVal.wf st' h ∧ h.abs st' = h.abs st := by
  cases h with
  | val v => exact ⟨trivial, rfl⟩
  | sl t s =>
    refine ⟨Slice.wf_kept hk (Slice.below_of_wf hw) hw, ?_⟩
    simp only [HVal.abs]
    rw [Slice.view_kept hk (Slice.below_of_wf hw)]

theorem OptWf.kept {st st' : Store} {oh : Option HVal} (hk : ∀ b, b < st.length → st'[b]? = st[b]?) (hw : OptWf st oh) :
    OptWf st' oh ∧ optAbs st' oh = optAbs st oh := by
  cases oh with
  | none => exact ⟨trivial, rfl⟩
  | some h =>
    obtain ⟨h1, h2⟩ := HVal.kept hk hw
    exact ⟨h1, by simp [optAbs, h2]⟩

theorem head?_wf {st : Store} {args : List HVal} (hw : ∀ h ∈ args, HVal.wf st h) : OptWf st args.head? := by
  cases args with
  | nil => trivial
  | cons a as => exact hw a List.mem_cons_self

theorem head?_abs (st : Store) (args : List HVal) : (args.map (·.abs st)).head? = optAbs st args.head? := by
  cases args <;> rfl

theorem headD_abs (st : Store) (args : List HVal) : (args.map (·.abs st)).headD .nil = (args.headD (.val .nil)).abs st := by
  cases args <;> rfl

theorem headD_wf {st : Store} {args : List HVal} (hw : ∀ h ∈ args, HVal.wf st h) : HVal.wf st (args.headD (.val .nil)) := by
  cases args with
  | nil => trivial
  | cons a as => exact hw a List.mem_cons_self

/-- a body that returns a slice, after the receiver's conversion left `st1` -/
theorem sliceBody_post {st st1 : Store} {p : Prog Slice} {x : Res Cause (List GoVal)}
    (hk : ∀ b, b < st.length → st1[b]? = st[b]?) (hm : st.length ≤ st1.length) (h : Refines (run p st1) x (Result st1)) :
    Refines (run (p.bind fun r => .ret (.sl .any r)) st1) (sliceOf x) (StageResult st) := by
  unfold sliceOf
  refine Refines.bind h ?_
  intro r st2 ys ⟨p1, p2, _, p4, p5⟩
  refine Refines.ret ⟨by simp [HVal.abs, p1], p2, fun b hb => ?_, Nat.le_trans hm p5⟩
  rw [p4 b (Nat.lt_of_lt_of_le hb hm), hk b hb]

theorem bodyF_refines {st : Store} (strict : Bool) (f : FName) {recv : HVal} {args : List HVal}
    (hr : HVal.wf st recv) (ha : ∀ h ∈ args, HVal.wf st h) :
    Refines (run (bodyF strict f recv args) st) (bodyP strict f (recv.abs st) (args.map (·.abs st))) (StageResult st) := by
  have hconv := convertAnys_refines hr
  cases f with
  | compact =>
    simp only [bodyF, bodyP]
    refine Refines.bind hconv ?_
    intro a st1 xs ⟨q1, q2, q3, q4⟩
    subst q1
    exact sliceBody_post q3 q4 (compactH_refines q2)
  | reverse =>
    simp only [bodyF, bodyP]
    refine Refines.bind hconv ?_
    intro a st1 xs ⟨q1, q2, q3, q4⟩
    subst q1
    exact sliceBody_post q3 q4 (reverseH_refines q2)
  | uniq =>
    simp only [bodyF, bodyP]
    refine Refines.bind hconv ?_
    intro a st1 xs ⟨q1, q2, q3, q4⟩
    subst q1
    exact sliceBody_post q3 q4 (uniqH_refines q2)
  | first =>
    simp only [bodyF, bodyP]
    refine Refines.bind hconv ?_
    intro a st1 xs ⟨q1, q2, q3, q4⟩
    subst q1
    refine Refines.bind_ok (firstH_run q2) ?_
    exact Refines.ret ⟨rfl, trivial, q3, q4⟩
  | last =>
    simp only [bodyF, bodyP]
    refine Refines.bind hconv ?_
    intro a st1 xs ⟨q1, q2, q3, q4⟩
    subst q1
    refine Refines.bind_ok (lastH_run q2) ?_
    exact Refines.ret ⟨rfl, trivial, q3, q4⟩
  | concat =>
    simp only [bodyF, bodyP, headD_abs]
    refine Refines.bind hconv ?_
    intro a st1 xs ⟨q1, q2, q3, q4⟩
    subst q1
    obtain ⟨hw1, habs1⟩ := HVal.kept q3 (headD_wf ha)
    rw [← habs1]
    refine Refines.bind (convertAnys_refines hw1) ?_
    intro b st2 ys ⟨r1, r2, r3, r4⟩
    subst r1
    have ha2 : Slice.wf st2 a := Slice.wf_kept r3 (Slice.below_of_wf q2) q2
    have hv2 : view st2 a = view st1 a := Slice.view_kept r3 (Slice.below_of_wf q2)
    rw [← hv2]
    refine sliceBody_post (fun c hc => ?_) (Nat.le_trans q4 r4) (concatH_refines ha2 r2)
    rw [r3 c (Nat.lt_of_lt_of_le hc q4), q3 c hc]
  | join =>
    simp only [bodyF, bodyP, head?_abs]
    refine Refines.bind hconv ?_
    intro a st1 xs ⟨q1, q2, q3, q4⟩
    subst q1
    obtain ⟨hw1, habs1⟩ := OptWf.kept q3 (head?_wf ha)
    rw [← habs1]
    refine Refines.bind (sepOf_refines hw1) ?_
    intro sep st2 sep' ⟨e1, e2⟩
    subst e1 e2
    have hx : joinF (view st2 a) sep = (joinF (view st2 a) sep).bind fun w => .ok w := by
      cases joinF (view st2 a) sep <;> rfl
    rw [hx]
    refine Refines.bind (joinH_refines q2 sep) ?_
    intro v st3 w ⟨p1, p2, p3⟩
    subst p1
    exact Refines.ret ⟨rfl, trivial, fun b hb => by rw [p2 b (Nat.lt_of_lt_of_le hb q4), q3 b hb], Nat.le_trans q4 p3⟩
  | map =>
    simp only [bodyF, bodyP, head?_abs]
    refine Refines.bind hconv ?_
    intro a st1 xs ⟨q1, q2, q3, q4⟩
    subst q1
    obtain ⟨hw1, habs1⟩ := OptWf.kept q3 (head?_wf ha)
    rw [← habs1]
    refine Refines.bind (strArg_refines hw1) ?_
    intro k st2 k' ⟨e1, e2⟩
    subst e1 e2
    exact sliceBody_post q3 q4 (mapH_refines q2 k)
  | sort =>
    simp only [bodyF, bodyP, head?_abs]
    refine Refines.bind hconv ?_
    intro a st1 xs ⟨q1, q2, q3, q4⟩
    subst q1
    obtain ⟨hw1, habs1⟩ := OptWf.kept q3 (head?_wf ha)
    rw [← habs1]
    refine Refines.bind (anyArg_refines hw1) ?_
    intro k st2 k' ⟨e1, e2⟩
    subst e1 e2
    exact sliceBody_post q3 q4 (sortH_refines q2 strict false k)
  | sortNatural =>
    simp only [bodyF, bodyP, head?_abs]
    refine Refines.bind hconv ?_
    intro a st1 xs ⟨q1, q2, q3, q4⟩
    subst q1
    obtain ⟨hw1, habs1⟩ := OptWf.kept q3 (head?_wf ha)
    rw [← habs1]
    refine Refines.bind (anyArg_refines hw1) ?_
    intro k st2 k' ⟨e1, e2⟩
    subst e1 e2
    exact sliceBody_post q3 q4 (sortH_refines q2 strict true k)
  | size =>
    simp only [bodyF, bodyP]
    have hx : sizeP (recv.abs st) = (sizeP (recv.abs st)).bind fun w => .ok w := by
      cases sizeP (recv.abs st) <;> rfl
    rw [hx]
    refine Refines.bind (sizeH_refines hr) ?_
    intro v st1 w ⟨e1, e2⟩
    subst e1 e2
    exact Refines.ret ⟨rfl, trivial, fun _ _ => rfl, Nat.le_refl _⟩
  | default =>
    simp only [bodyF, bodyP, head?_abs]
    refine Refines.bind (convAnyH_refines (oh := some recv) hr) ?_
    intro v st1 w ⟨e1, e2, e3⟩
    subst e1 e3
    refine Refines.bind (convAnyH_refines (head?_wf ha)) ?_
    intro d st2 w' ⟨d1, d2, d3⟩
    subst d1 d3
    exact Refines.ret ⟨defaultH_abs e2, defaultH_wf e2 d2, fun _ _ => rfl, Nat.le_refl _⟩


/-! ### one application `x | f: args`, and a pipeline -/

/-- `stageF` on values -/
def stageP (strict : Bool) (f : FName) (g : GoVal) (args : List GoVal) : Res Cause GoVal :=
  if (g :: args).length > f.arity then .err (.filterErr f.name .parity) else
  (bodyP strict f (viaValue g) (args.map viaValue)).bind fun w => .ok (viaValue (bytesToString w))

/-- `runChainF` on values -/
def chainP (strict : Bool) : GoVal → List (FName × List GoVal) → Res Cause GoVal
  | g, [] => .ok g
  | g, (f, args) :: rest => (stageP strict f g args).bind fun w => chainP strict w rest

theorem via_abs (st : Store) (h : HVal) : h.via.abs st = viaValue (h.abs st) := by
  cases h <;> rfl

theorem via_wf {st : Store} {h : HVal} (hw : HVal.wf st h) : HVal.wf st h.via := by
  cases h with
  | sl t s => exact hw
  | val v => trivial

theorem post_abs (st : Store) (h : HVal) : h.post.abs st = viaValue (bytesToString (h.abs st)) := by
  cases h <;> rfl

theorem post_wf {st : Store} {h : HVal} (hw : HVal.wf st h) : HVal.wf st h.post := by
  cases h with
  | sl t s => exact hw
  | val v => trivial

theorem stageF_refines {st : Store} (strict : Bool) (f : FName) {recv : HVal} {args : List HVal}
    (hr : HVal.wf st recv) (ha : ∀ h ∈ args, HVal.wf st h) :
    Refines (run (stageF strict f recv args) st) (stageP strict f (recv.abs st) (args.map (·.abs st))) (StageResult st) := by
  unfold stageF stageP
  simp only [List.length_cons, List.length_map]
  by_cases hlen : args.length + 1 > f.arity
  · rw [if_pos hlen, if_pos hlen]; rfl
  · rw [if_neg hlen, if_neg hlen]
    have hb := bodyF_refines (st := st) strict f (recv := recv.via) (args := args.map HVal.via) (via_wf hr)
      (by intro h hh; obtain ⟨h0, hm, rfl⟩ := List.mem_map.mp hh; exact via_wf (ha h0 hm))
    have hargs : (args.map HVal.via).map (·.abs st) = (args.map (·.abs st)).map viaValue := by
      simp only [List.map_map]
      apply List.map_congr_left
      intro h _
      exact via_abs st h
    rw [via_abs, hargs] at hb
    refine Refines.bind hb ?_
    intro v st1 w ⟨q1, q2, q3, q4⟩
    subst q1
    exact Refines.ret ⟨post_abs st1 v, post_wf q2, q3, q4⟩

def absChain (st : Store) (chain : List (FName × List HVal)) : List (FName × List GoVal) :=
  chain.map fun p => (p.1, p.2.map (·.abs st))

theorem absChain_kept {st st' : Store} (hk : ∀ b, b < st.length → st'[b]? = st[b]?) :
    ∀ (chain : List (FName × List HVal)), (∀ p ∈ chain, ∀ h ∈ p.2, HVal.wf st h) →
      absChain st' chain = absChain st chain ∧ (∀ p ∈ chain, ∀ h ∈ p.2, HVal.wf st' h)
  | [], _ => ⟨rfl, fun _ hp => by cases hp⟩
  | p :: rest, hw => by
    obtain ⟨ih1, ih2⟩ := absChain_kept hk rest (fun q hq => hw q (List.mem_cons_of_mem _ hq))
    have hp : p.2.map (·.abs st') = p.2.map (·.abs st) := by
      apply List.map_congr_left
      intro h hh
      exact (HVal.kept hk (hw p List.mem_cons_self h hh)).2
    refine ⟨?_, ?_⟩
    · simp only [absChain, List.map_cons] at ih1 ⊢
      rw [hp, ih1]
    · intro q hq h hh
      rcases List.mem_cons.mp hq with rfl | hq'
      · exact (HVal.kept hk (hw q List.mem_cons_self h hh)).1
      · exact ih2 q hq' h hh

theorem runChainF_refines (strict : Bool) : ∀ (chain : List (FName × List HVal)) (st : Store) (v : HVal),
    HVal.wf st v → (∀ p ∈ chain, ∀ h ∈ p.2, HVal.wf st h) →
    Refines (run (runChainF strict v chain) st) (chainP strict (v.abs st) (absChain st chain)) (StageResult st)
  | [], st, v, hv, _ => Refines.ret ⟨rfl, hv, fun _ _ => rfl, Nat.le_refl _⟩
  | (f, args) :: rest, st, v, hv, hw => by
    simp only [runChainF, absChain, List.map_cons, chainP]
    refine Refines.bind (stageF_refines strict f hv (hw (f, args) List.mem_cons_self)) ?_
    intro r st1 w ⟨q1, q2, q3, q4⟩
    subst q1
    obtain ⟨hc1, hc2⟩ := absChain_kept q3 rest (fun q hq => hw q (List.mem_cons_of_mem _ hq))
    have ih := runChainF_refines strict rest st1 r q2 hc2
    rw [hc1] at ih
    refine ih.post ?_
    intro v' st2 w' ⟨p1, p2, p3, p4⟩
    exact ⟨p1, p2, fun b hb => by rw [p3 b (Nat.lt_of_lt_of_le hb q4), q3 b hb], Nat.le_trans q4 p4⟩

/-! ### which results share memory with their input -/

/-- the filters that return an array -/
def FName.returnsArray : FName → Bool
  | .compact | .concat | .map | .reverse | .sort | .sortNatural | .uniq => true
  | _ => false

/-- a value that is the nil slice or a slice in an array at or above `N` -/
def FreshVal (N : Nat) (v : HVal) : Prop := ∃ r, v = .sl .any r ∧ Fresh N r

theorem Above.slResult {N : Nat} {p : Prog Slice} (h : Above N p (Fresh N)) :
    Above N (p.bind fun r => .ret (.sl .any r)) (FreshVal N) :=
  Above.bind h fun r hr => Above.ret ⟨r, rfl, hr⟩

theorem bodyF_fresh (N : Nat) (strict : Bool) (f : FName) (hf : f.returnsArray = true) (recv : HVal) (args : List HVal) :
    Above N (bodyF strict f recv args) (FreshVal N) := by
  cases f <;> first | cases hf | unfold bodyF
  · exact Above.bind (convertAnys_above N recv) fun a _ => (compactH_above N a).slResult
  · exact Above.bind (convertAnys_above N recv) fun a _ => Above.bind (convertAnys_above N _) fun b _ => (concatH_above N a b).slResult
  · exact Above.bind (convertAnys_above N recv) fun a _ => Above.bind (strArg_above N _) fun k _ => (mapH_above N a k).slResult
  · exact Above.bind (convertAnys_above N recv) fun a _ => (reverseH_above N a).slResult
  · exact Above.bind (convertAnys_above N recv) fun a _ => Above.bind (anyArg_above N _) fun key _ => (sortH_above N strict false a key).slResult
  · exact Above.bind (convertAnys_above N recv) fun a _ => Above.bind (anyArg_above N _) fun key _ => (sortH_above N strict true a key).slResult
  · exact Above.bind (convertAnys_above N recv) fun a _ => (uniqH_above N a).slResult

theorem stageF_fresh (N : Nat) (strict : Bool) (f : FName) (hf : f.returnsArray = true) (recv : HVal) (args : List HVal) :
    Above N (stageF strict f recv args) (FreshVal N) := by
  unfold stageF
  split
  · exact Above.halt
  · exact Above.bind (bodyF_fresh N strict f hf _ _) fun r hr => Above.ret (by obtain ⟨s, rfl, hs⟩ := hr; exact ⟨s, rfl, hs⟩)

end Heap
