import Proofs.HyphenSource
/-!
# The compiler on a syntax tree without `.trim` nodes, and the item-level side conditions
(helpers for `Proofs/C13Source.lean`)

* `compileList_stripAsts`: compiling the syntax tree without its `.trim` nodes gives `stripTrims` of the
  compiled tree, or the same error;
* `compileTokens_dropTrims`: hence for token lists;
* `RawPlain`: the item-level condition under which no trim marker is met in raw mode;
* `compileTokens_dropHyphens`: the token lists of an item list and of its hyphen-free version.
-/

theorem resBind_ok_inv {ε α β : Type} {x : Res ε α} {f : α → Res ε β} {b : β} (h : x.bind f = .ok b) :
    ∃ a, x = .ok a ∧ f a = .ok b := by
  cases x with
  | ok a => exact ⟨a, rfl, h⟩
  | err e => cases h
  | panic w => cases h
  | unmodelled w => cases h

theorem Res.mapOk_of_fixed {ε α : Type} (g : α → α) (r : Res ε α) (h : ∀ a, r = .ok a → g a = a) : r.mapOk g = r := by
  cases r with
  | ok a => simp only [Res.mapOk, h a rfl]
  | err e => rfl
  | panic w => rfl
  | unmodelled w => rfl

/-! ## `stripTrims` and concatenation -/

theorem stripTrims_append : ∀ (a b : List Node), stripTrims (a ++ b) = stripTrims a ++ stripTrims b
  | [], _ => by simp [stripTrims]
  | n :: a, b => by
    cases n with
    | trim l => simp only [List.cons_append, stripTrims, stripTrims_append a b]
    | _ => simp [stripTrims, stripTrims_append a b]

/-- the clause list of a block with the trim nodes of the bodies removed -/
def stripCl (cs : List (Token × List Node)) : List (Token × List Node) := cs.map (fun p => (p.1, stripTrims p.2))

theorem res_bind2_mapOk {ε γ β β' δ δ' : Type} (test : Res ε γ) (X : Res ε β) (g : β → β') (G : δ → δ')
    (k : γ → β → δ) (k' : γ → β' → δ') (hk : ∀ c r, k' c (g r) = G (k c r)) :
    test.bind (fun c => (X.mapOk g).bind (fun r => .ok (k' c r))) =
      (test.bind (fun c => X.bind (fun r => .ok (k c r)))).mapOk G := by
  cases test <;> cases X <;> simp [Res.bind, Res.mapOk, hk]

theorem ifTests_strip : ∀ cs, compileIfClauseTests (stripCl cs) = (compileIfClauseTests cs).mapOk stripBranches
  | [] => rfl
  | (t, body) :: cs => by
    rw [show stripCl ((t, body) :: cs) = (t, stripTrims body) :: stripCl cs from rfl, compileIfClauseTests,
      compileIfClauseTests, ifTests_strip cs]
    exact res_bind2_mapOk _ _ _ _ _ _ (fun c r => by simp [stripBranches])

theorem caseClauses_strip : ∀ cs, compileCaseClauses (stripCl cs) = (compileCaseClauses cs).mapOk stripCases
  | [] => rfl
  | (t, body) :: cs => by
    rw [show stripCl ((t, body) :: cs) = (t, stripTrims body) :: stripCl cs from rfl, compileCaseClauses,
      compileCaseClauses, caseClauses_strip cs]
    exact res_bind2_mapOk _ _ _ _ _ _ (fun c r => by simp [stripCases])

theorem stripCl_snd : ∀ (cs : List (Token × List Node)), (stripCl cs).map (·.2) = stripClauses (cs.map (·.2))
  | [] => rfl
  | (t, b) :: cs => by
    have ih := stripCl_snd cs
    simp only [stripCl] at ih
    simp [stripCl, stripClauses, ih]

/-! ## The compiler -/

/-- a tag compiles to a node that holds no body -/
theorem compileNode_tag_flat (t : Token) (ns : List Node) (h : compileNode (.tag t) = .ok ns) : stripTrims ns = ns := by
  apply stripTrims_of_noTrim
  simp only [compileNode, Res.bind_eq] at h
  split at h
  · obtain ⟨st, _, h⟩ := resBind_ok_inv h
    split at h
    · cases h; rfl
    · cases h
  · split at h
    · cases h; rfl
    · split at h
      · cases h; rfl
      · split at h
        · cases h; rfl
        · split at h
          · obtain ⟨st, _, h⟩ := resBind_ok_inv h
            split at h
            · cases h; rfl
            · cases h
          · cases h

mutual
theorem compileNode_strip : ∀ a : AST, a.isTrim = false → compileNode a.strip = (compileNode a).mapOk stripTrims
  | .text t, _ => by simp [AST.strip, compileNode, Res.mapOk, stripTrims, stripNode]
  | .obj t, _ => by
    simp only [AST.strip, compileNode]
    cases parseExprSource t.args <;> simp [Res.mapOk, stripTrims, stripNode]
  | .trim l, h => by cases h
  | .raw sl, _ => by simp [AST.strip, compileNode, Res.mapOk, stripTrims, stripNode]
  | .tag t, _ => by
    rw [AST.strip, Res.mapOk_of_fixed stripTrims _ (compileNode_tag_flat t)]
  | .block t body cls, _ => by
    rw [AST.strip, compileNode, compileNode, compileList_stripAsts body, compileClauses_strip cls]
    cases compileList body with
    | ok b =>
      cases compileClauses cls with
      | ok cs =>
        simp only [Res.mapOk, bind, Res.bind]
        split
        · cases liftParse t.line true (parseExprSource t.args) with
          | ok e =>
            simp only [ifTests_strip]
            cases compileIfClauseTests cs <;> simp [Res.mapOk, pure, stripTrims, stripNode, stripBranches]
          | err e => rfl
          | panic w => rfl
          | unmodelled w => rfl
        · split
          · cases liftParse t.line true (parseExprSource t.args) with
            | ok e =>
              simp only [caseClauses_strip]
              cases compileCaseClauses cs <;> simp [Res.mapOk, pure, stripTrims, stripNode]
            | err e => rfl
            | panic w => rfl
            | unmodelled w => rfl
          · split
            · cases liftParse t.line true (parseStatement kwLoop t.args) with
              | ok st =>
                simp only
                split
                · simp [Res.mapOk, pure, stripTrims, stripNode, stripCl_snd]
                · rfl
              | err e => rfl
              | panic w => rfl
              | unmodelled w => rfl
            · split
              · simp [Res.mapOk, pure, stripTrims, stripNode]
              · rfl
      | err e => rfl
      | panic w => rfl
      | unmodelled w => rfl
    | err e => rfl
    | panic w => rfl
    | unmodelled w => rfl
/-- **compiler.** Compiling a syntax tree without its `.trim` nodes gives the compiled tree without its
    `.trim` nodes (`stripTrims`), or the same error. -/
theorem compileList_stripAsts : ∀ as : List AST, compileList (stripAsts as) = (compileList as).mapOk stripTrims
  | [] => by simp [stripAsts, compileList, Res.mapOk, stripTrims]
  | a :: as => by
    cases ha : a.isTrim with
    | true =>
      cases a with
      | trim l =>
        rw [stripAsts_cons_trim, compileList, compileList_stripAsts as]
        cases compileList as <;> simp [compileNode, bind, Res.bind, Res.mapOk, pure, stripTrims]
      | _ => cases ha
    | false =>
      rw [stripAsts_cons_of_not_trim a as ha, compileList, compileList, compileNode_strip a ha, compileList_stripAsts as]
      cases compileNode a with
      | ok x =>
        cases compileList as with
        | ok y => simp [bind, Res.bind, Res.mapOk, pure, stripTrims_append]
        | err e => rfl
        | panic w => rfl
        | unmodelled w => rfl
      | err e => rfl
      | panic w => rfl
      | unmodelled w => rfl
theorem compileClauses_strip : ∀ cs : List (Token × List AST),
    compileClauses (stripAstClauses cs) = (compileClauses cs).mapOk stripCl
  | [] => rfl
  | (t, body) :: cs => by
    rw [stripAstClauses, compileClauses, compileClauses, compileList_stripAsts body, compileClauses_strip cs]
    cases compileList body with
    | ok b =>
      cases compileClauses cs with
      | ok r => rfl
      | err e => rfl
      | panic w => rfl
      | unmodelled w => rfl
    | err e => rfl
    | panic w => rfl
    | unmodelled w => rfl
end

theorem firstUnmodelledObj_dropTrims : ∀ toks : List Token, firstUnmodelledObj (dropTrimToks toks) = firstUnmodelledObj toks
  | [] => rfl
  | t :: ts => by
    cases htr : t.isTrim with
    | false =>
      have hd : dropTrimToks (t :: ts) = t :: dropTrimToks ts := by simp [dropTrimToks, htr]
      rw [hd]
      simp only [firstUnmodelledObj, firstUnmodelledObj_dropTrims ts]
    | true =>
      have hd : dropTrimToks (t :: ts) = dropTrimToks ts := by simp [dropTrimToks, htr]
      have hne : (t.ty == TokTy.obj) = false := by cases hty : t.ty <;> simp_all [Token.isTrim]
      rw [hd, firstUnmodelledObj_dropTrims ts]
      simp [firstUnmodelledObj, hne]

/-- **token lists.** When no trim marker stands between a `raw` tag and the next `endraw` tag, compiling the
    token list without its trim markers gives `stripTrims` of the compiled tree, or the same error. -/
theorem compileTokens_dropTrims (toks : List Token) (ht : rawTrimFree false toks = true) :
    compileTokens (dropTrimToks toks) = (compileTokens toks).mapOk stripTrims := by
  unfold compileTokens
  rw [firstUnmodelledObj_dropTrims, parseTokens_dropTrims stdGrammar objChk toks ht]
  cases firstUnmodelledObj toks with
  | some w => rfl
  | none =>
    cases parseTokens stdGrammar objChk toks with
    | ok ast => simp only [Res.mapOk, liftPErr, bind, Res.bind, compileList_stripAsts]
    | err e => rfl
    | panic w => rfl
    | unmodelled w => rfl

/-! ## Item lists: the side conditions -/

theorem Item.isTagNamed_dropHy (n : Bytes) (it : Item) : it.dropHy.isTagNamed n = it.isTagNamed n := by
  cases it <;> rfl

/-- deleting hyphens keeps raw blocks closed -/
theorem rawClosed_dropHyphens : ∀ (k : Nat) (items : List Item), items.length ≤ k →
    rawClosed (dropHyphens items) = rawClosed items := by
  intro k
  induction k with
  | zero =>
    intro items hk
    have : items = [] := List.eq_nil_of_length_eq_zero (Nat.le_zero.mp hk)
    subst this; rfl
  | succ k ih =>
    intro items hk
    cases items with
    | nil => rfl
    | cons it r =>
      simp only [List.length_cons] at hk
      rw [dropHyphens_cons]
      unfold rawClosed
      rw [Item.isTagNamed_dropHy]
      cases it.isTagNamed rawName with
      | false => simp only [Bool.false_eq_true, if_false]; exact ih r (by omega)
      | true =>
        simp only [if_true]
        cases r with
        | nil => rfl
        | cons e r' =>
          simp only [List.length_cons] at hk
          rw [dropHyphens_cons]
          simp only [Item.isTagNamed_dropHy]
          cases e.isTagNamed endrawName with
          | true => simp only [if_true]; exact ih r' (by omega)
          | false =>
            simp only [Bool.false_eq_true, if_false]
            cases e with
            | obj args hl hr wl wr => rfl
            | tag name args hl hr wl wm wr => rfl
            | text s =>
              cases r' with
              | nil => rfl
              | cons e' r'' =>
                simp only [List.length_cons] at hk
                rw [dropHyphens_cons]
                show (e'.dropHy.isTagNamed endrawName && rawClosed (dropHyphens r'')) = _
                rw [Item.isTagNamed_dropHy, ih r'' (by omega)]

theorem RawClosed.dropHyphens {items : List Item} (h : RawClosed items) : RawClosed (dropHyphens items) := by
  unfold RawClosed at h ⊢
  rw [rawClosed_dropHyphens items.length items (Nat.le_refl _)]
  exact h

theorem rawSafe_dropTrims : ∀ (b : Bool) (toks : List Token), rawSafe b (dropTrimToks toks) = rawSafe b toks
  | _, [] => rfl
  | b, t :: ts => by
    cases htr : t.isTrim with
    | false =>
      have hd : dropTrimToks (t :: ts) = t :: dropTrimToks ts := by simp [dropTrimToks, htr]
      rw [hd]
      cases b with
      | false => simp only [rawSafe, rawSafe_dropTrims _ ts]
      | true => simp only [rawSafe, rawSafe_dropTrims _ ts]
    | true =>
      have hd : dropTrimToks (t :: ts) = dropTrimToks ts := by simp [dropTrimToks, htr]
      rw [hd, rawSafe_dropTrims b ts]
      have h1 : (t.ty == TokTy.tag) = false := by cases hty : t.ty <;> simp_all [Token.isTrim]
      have h2 : (t.ty == TokTy.obj) = false := by cases hty : t.ty <;> simp_all [Token.isTrim]
      cases b with
      | false => simp [rawSafe, h1]
      | true =>
        have he : isEndRaw t = false := by unfold isEndRaw; simp [h1]
        have h1' : (t.ty != TokTy.tag) = true := by simp [bne, h1]
        have h2' : (t.ty != TokTy.obj) = true := by simp [bne, h2]
        simp [rawSafe, he, h1', h2']

/-- no hyphen on the inner side of a raw block's tags: a tag named `raw` has no right hyphen, a tag named
    `endraw` no left hyphen. (Inside a raw block the parser keeps every token as a slice of the body; a trim
    marker there becomes an EMPTY slice, so `{% raw -%}x{% endraw %}` compiles to `raw ["", "x"]` and
    `{% raw %}x{% endraw %}` to `raw ["x"]`.) -/
def Item.rawPlain : Item → Bool
  | .tag name _ hl hr _ _ _ => (name != rawName || !hr) && (name != endrawName || !hl)
  | _ => true

def RawPlain (items : List Item) : Prop := items.all Item.rawPlain = true

instance (items : List Item) : Decidable (RawPlain items) := by unfold RawPlain; infer_instance

theorem RawPlain.head {it : Item} {r : List Item} (h : RawPlain (it :: r)) : it.rawPlain = true := by
  unfold RawPlain at h; simp only [List.all_cons, Bool.and_eq_true] at h; exact h.1

theorem RawPlain.tail {it : Item} {r : List Item} (h : RawPlain (it :: r)) : RawPlain r := by
  unfold RawPlain at h ⊢; simp only [List.all_cons, Bool.and_eq_true] at h; exact h.2

theorem rawTrimFree_trimL_false (ts : List Token) : rawTrimFree false (({ ty := .trimL } : Token) :: ts) = rawTrimFree false ts := rfl
theorem rawTrimFree_trimR_false (ts : List Token) : rawTrimFree false (({ ty := .trimR } : Token) :: ts) = rawTrimFree false ts := rfl

theorem rawTrimFree_tag_false (t : Token) (ts : List Token) (h : t.ty = .tag) :
    rawTrimFree false (t :: ts) = rawTrimFree (t.name == rawName) ts := by simp [rawTrimFree, h]

theorem rawTrimFree_obj_false (t : Token) (ts : List Token) (h : t.ty = .obj) :
    rawTrimFree false (t :: ts) = rawTrimFree false ts := by
  have : (TokTy.obj == TokTy.tag) = false := rfl
  simp [rawTrimFree, h, this]

/-- an item's tokens outside a raw block -/
theorem rawTrimFree_item_false (d : Delims) (l : Nat) (it : Item) (hp : it.rawPlain = true) (ts : List Token) :
    rawTrimFree false (it.tokens d l ++ ts) = rawTrimFree (it.isTagNamed rawName) ts := by
  cases it with
  | text s => rfl
  | obj args hl hr wl wr =>
    cases hl <;> cases hr <;>
      simp only [Item.tokens, if_true, Bool.false_eq_true, if_false, List.nil_append, List.append_nil, List.cons_append,
        rawTrimFree_trimL_false] <;>
      rw [rawTrimFree_obj_false _ _ rfl] <;> simp only [rawTrimFree_trimR_false, Item.isTagNamed]
  | tag name args hl hr wl wm wr =>
    cases hn : name == rawName with
    | false =>
      cases hl <;> cases hr <;>
        simp only [Item.tokens, if_true, Bool.false_eq_true, if_false, List.nil_append, List.append_nil, List.cons_append,
          rawTrimFree_trimL_false] <;>
        rw [rawTrimFree_tag_false _ _ rfl] <;> simp only [hn, rawTrimFree_trimR_false, Item.isTagNamed]
    | true =>
      have hr0 : hr = false := by
        simp only [Item.rawPlain, Bool.and_eq_true, Bool.or_eq_true] at hp
        rcases hp.1 with h | h
        · simp [bne, hn] at h
        · simpa using h
      subst hr0
      cases hl <;>
        simp only [Item.tokens, if_true, Bool.false_eq_true, if_false, List.nil_append, List.append_nil, List.cons_append,
          rawTrimFree_trimL_false] <;>
        rw [rawTrimFree_tag_false _ _ rfl] <;> simp only [hn, Item.isTagNamed]

theorem rawTrimFree_text_true (d : Delims) (l : Nat) (s : Bytes) (ts : List Token) :
    rawTrimFree true ((Item.text s).tokens d l ++ ts) = rawTrimFree true ts := by
  simp [Item.tokens, rawTrimFree, isEndRaw, Token.isTrim]

theorem rawTrimFree_endraw_true (d : Delims) (l : Nat) (it : Item) (h : it.isTagNamed endrawName = true)
    (hp : it.rawPlain = true) (ts : List Token) :
    rawTrimFree true (it.tokens d l ++ ts) = rawTrimFree false ts := by
  cases it with
  | text s => cases h
  | obj args hl hr wl wr => cases h
  | tag name args hl hr wl wm wr =>
    have hn : name = endrawName := by simpa [Item.isTagNamed] using h
    subst hn
    have hl0 : hl = false := by
      simp only [Item.rawPlain, Bool.and_eq_true, Bool.or_eq_true] at hp
      rcases hp.2 with h | h
      · simp [bne] at h
      · simpa using h
    subst hl0
    cases hr <;>
      simp [Item.tokens, rawTrimFree, isEndRaw] <;> rfl

/-- the tokens of an item list whose raw blocks are closed and plain: no trim marker is met in raw mode -/
theorem tokensOf_rawTrimFree (d : Delims) : ∀ (k : Nat) (items : List Item) (line : Nat), items.length ≤ k →
    RawClosed items → RawPlain items → rawTrimFree false (tokensOf d items line) = true := by
  intro k
  induction k with
  | zero =>
    intro items line hk _ _
    have : items = [] := List.eq_nil_of_length_eq_zero (Nat.le_zero.mp hk)
    subst this; rfl
  | succ k ih =>
    intro items line hk h hp
    cases items with
    | nil => rfl
    | cons it r =>
      unfold RawClosed at h
      simp only [tokensOf, rawTrimFree_item_false d line it hp.head]
      simp only [List.length_cons] at hk
      cases hraw : it.isTagNamed rawName with
      | false =>
        unfold rawClosed at h
        simp only [hraw, Bool.false_eq_true, if_false] at h
        exact ih r _ (by omega) h hp.tail
      | true =>
        unfold rawClosed at h
        simp only [hraw, if_true] at h
        cases r with
        | nil => cases h
        | cons e r' =>
          simp only at h
          simp only [tokensOf]
          cases he : e.isTagNamed endrawName with
          | true =>
            simp only [he, if_true] at h
            rw [rawTrimFree_endraw_true d _ e he hp.tail.head]
            exact ih r' _ (by simp only [List.length_cons] at hk; omega) h hp.tail.tail
          | false =>
            simp only [he, Bool.false_eq_true, if_false] at h
            cases e with
            | obj args hl hr wl wr => cases h
            | tag name args hl hr wl wm wr => cases h
            | text s =>
              cases r' with
              | nil => cases h
              | cons e' r'' =>
                simp only [Bool.and_eq_true] at h
                simp only [tokensOf]
                rw [rawTrimFree_text_true, rawTrimFree_endraw_true d _ e' h.1 hp.tail.tail.head]
                exact ih r'' _ (by simp only [List.length_cons] at hk; omega) h.2 hp.tail.tail.tail

/-- **token lists of a template and of its hyphen-free version.** -/
theorem compileTokens_dropHyphens (d : Delims) (items : List Item) (line : Nat) (hrc : RawClosed items) (hrp : RawPlain items) :
    compileTokens (tokensOf d (dropHyphens items) line) = (compileTokens (tokensOf d items line)).mapOk stripTrims := by
  rw [← compileTokens_dropTrims _ (tokensOf_rawTrimFree d _ items line (Nat.le_refl _) hrc hrp)]
  refine compileTokens_congr _ _ (tokensOf_dropHyphens d items line) ?_ ?_
  · exact tokensOf_rawSafe d _ _ line (Nat.le_refl _) hrc.dropHyphens
  · rw [rawSafe_dropTrims]
    exact tokensOf_rawSafe d _ items line (Nat.le_refl _) hrc
