import Liquid.Render
/-!
# Post-conditions on interaction trees: a property of every result a program can return,
whatever the writer answers (used by C11, C12).
-/

/-- `bytes.TrimLeftFunc` of the empty string (the `Write("")` part of `WriteVerbatim`) -/
@[simp] theorem trimLeftSpace_nil : trimLeftSpace [] = [] := rfl

inductive AllRet {α : Type} (Q : α → Prop) : Prog α → Prop where
  | ret (a) : Q a → AllRet Q (.ret a)
  | fail (e) : AllRet Q (.fail e)
  | panic (w) : AllRet Q (.panic w)
  | unmodelled (w) : AllRet Q (.unmodelled w)
  | call (b k) : (∀ r, AllRet Q (k r)) → AllRet Q (.call b k)

theorem AllRet.bind {α β} {Q : α → Prop} {R : β → Prop} {p : Prog α} {f : α → Prog β}
    (hp : AllRet Q p) (hf : ∀ a, Q a → AllRet R (f a)) : AllRet R (p.bind f) := by
  induction hp with
  | ret a ha => exact hf a ha
  | fail e => exact .fail e
  | panic w => exact .panic w
  | unmodelled w => exact .unmodelled w
  | call b k _ ih => exact .call _ _ (fun r => ih r)

theorem AllRet.mapFail {α} {Q : α → Prop} {p : Prog α} (g : RawErr → RawErr) (hp : AllRet Q p) :
    AllRet Q (p.mapFail g) := by
  induction hp with
  | ret a ha => exact .ret a ha
  | fail e => exact .fail _
  | panic w => exact .panic w
  | unmodelled w => exact .unmodelled w
  | call b k _ ih => exact .call _ _ (fun r => ih r)

theorem AllRet.mono {α} {Q R : α → Prop} {p : Prog α} (hp : AllRet Q p) (h : ∀ a, Q a → R a) : AllRet R p := by
  induction hp with
  | ret a ha => exact .ret a (h a ha)
  | fail e => exact .fail e
  | panic w => exact .panic w
  | unmodelled w => exact .unmodelled w
  | call b k _ ih => exact .call _ _ (fun r => ih r)

theorem AllRet.trivial {α} (p : Prog α) : AllRet (fun _ => True) p := by
  induction p with
  | ret a => exact .ret a True.intro
  | fail e => exact .fail e
  | panic w => exact .panic w
  | unmodelled w => exact .unmodelled w
  | call b k ih => exact .call _ _ ih

/-! ## Variable maps -/

theorem Env.get_set_same (env : Env) (x : Bytes) (v : GoVal) : (env.set x v).get x = v := by
  simp [Env.set, Env.get]

theorem Env.get_set_other (env : Env) (x y : Bytes) (v : GoVal) (h : y ≠ x) : (env.set x v).get y = env.get y := by
  simp only [Env.set, Env.get, List.find?_cons]
  have hxy : ((x == y) = false) := by simp [Ne.symm h]
  simp only [hxy]
  congr 1
  induction env with
  | nil => rfl
  | cons kv env ih =>
    simp only [List.filter_cons]
    by_cases hk : kv.1 = x
    · have h1 : (kv.1 != x) = false := by simp [hk]
      have h2 : (kv.1 == y) = false := by simp [hk, Ne.symm h]
      simp [h1, h2, ih]
    · have h1 : (kv.1 != x) = true := by simp [hk]
      simp only [h1, if_true, List.find?_cons]
      cases kv.1 == y <;> simp [ih]

theorem Prog.bind_assoc {α β γ} (p : Prog α) (f : α → Prog β) (g : β → Prog γ) :
    (p.bind f).bind g = p.bind (fun a => (f a).bind g) := by
  induction p with
  | ret a => rfl
  | fail e => rfl
  | panic w => rfl
  | unmodelled w => rfl
  | call b k ih => simp only [Prog.bind]; congr 1; funext r; exact ih r

/-! ## The writer operations leave the variables alone -/

theorem allRet_write_env (b : Bytes) (s : RS) : AllRet (fun r : Unit × RS => r.2.env = s.env) (writeM b s) := by
  unfold writeM
  simp only
  split
  · exact .ret _ rfl
  · refine .call _ _ (fun r => ?_)
    cases r with
    | ok => exact .ret _ rfl
    | failed n => exact .fail _

theorem allRet_flush_env (s : RS) : AllRet (fun r : Unit × RS => r.2.env = s.env) (flushM s) := by
  unfold flushM
  split
  · exact .ret _ rfl
  · refine .call _ _ (fun r => ?_)
    cases r with
    | ok => exact .ret _ rfl
    | failed n => exact .fail _

theorem allRet_writeVerbatim_env (b : Bytes) (s : RS) :
    AllRet (fun r : Unit × RS => r.2.env = s.env) (writeVerbatimM b s) := by
  unfold writeVerbatimM
  refine AllRet.bind (allRet_write_env [] s) (fun ⟨_, s1⟩ h1 => ?_)
  refine AllRet.bind (allRet_write_env b s1) (fun ⟨_, s2⟩ h2 => ?_)
  have h3 := allRet_flush_env s2
  simp only at h1 h2
  rw [h2, h1] at h3
  exact h3
