import Proofs.StrLemmas
import Proofs.TrimLemmas
/-!
# Valid UTF-8 in ⇒ valid UTF-8 out: the filters that cut at rune boundaries or re-encode runes
-/

theorem allSpace_valid {l : Bytes} (h : AllSpace l) : ValidUtf8 l := by
  rcases h with ⟨rs, _, rfl⟩
  exact validUtf8_encodeRunes rs

theorem trimLeftSpace_valid (s : Bytes) (h : ValidUtf8 s) : ValidUtf8 (trimLeftSpace s) := by
  obtain ⟨l, hl, hs, _⟩ := trimLeftSpace_spec s
  rw [hs] at h
  exact validUtf8_cancel_left l _ (allSpace_valid hl) h

/-- a valid string minus a valid suffix is valid -/
theorem validUtf8_cancel_right (a b : Bytes) (hb : ValidUtf8 b) (h : ValidUtf8 (a ++ b)) : ValidUtf8 a := by
  cases b with
  | nil => simpa using h
  | cons x b' =>
    exact (validUtf8_cut_start a x b' (validUtf8_head_not_cont x b' hb) h).1

theorem trimRightSpace_valid (s : Bytes) (h : ValidUtf8 s) : ValidUtf8 (trimRightSpace s) := by
  obtain ⟨r, hr, hs, _⟩ := trimRightSpace_spec s
  rw [hs] at h
  exact validUtf8_cancel_right _ r (allSpace_valid hr) h

theorem strip_valid (s : Bytes) (h : ValidUtf8 s) : ValidUtf8 (StrF.strip s) :=
  trimRightSpace_valid _ (trimLeftSpace_valid s h)

theorem slice_valid (s : Bytes) (start n : Int) : ValidUtf8 (StrF.slice s start n) := by
  rw [slice_eq]
  split
  · exact validUtf8_nil
  · exact validUtf8_encodeRunes _

theorem truncate_valid (s : Bytes) (n : Int) (el : Bytes) (hs : ValidUtf8 s) (he : ValidUtf8 el) :
    ValidUtf8 (StrF.truncate s n el) := by
  unfold StrF.truncate
  simp only
  split
  · exact hs
  · exact validUtf8_append (validUtf8_encodeRunes _) he

theorem capitalize_valid (s t : Bytes) (hs : ValidUtf8 s) (h : StrF.capitalize s = some t) : ValidUtf8 t := by
  by_cases hne : s = []
  · subst hne; simp [StrF.capitalize] at h; subst h; exact validUtf8_nil
  · obtain ⟨u, _, ht⟩ := capitalize_some hne h
    rw [ht]
    exact validUtf8_append (validUtf8_encodeRune u) (validUtf8_drop_rune s hs)
