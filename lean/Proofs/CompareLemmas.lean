import Liquid.Compare
/-!
# Helper lemmas for property C09 (`Proofs/C09.lean`)

Sections: (A) results and `reflect` primitives, (B) unfolding of `values.Equal`, (C) absence of
panics, (D) wrappers, (E) well-formed values: totality, symmetry, reflexivity, (F) bytes.
-/

namespace Cmp

/-! ## A. results, `joinKind`, `compareInts`, `safeEqual` -/

@[simp] theorem isPanic_ok {α} (x : α) : (Res.ok x : R α).isPanic = false := rfl
@[simp] theorem isPanic_unmodelled {α} (w : String) : (Res.unmodelled w : R α).isPanic = false := rfl
@[simp] theorem isPanic_err {α} (e) : (Res.err e : R α).isPanic = false := rfl
@[simp] theorem isPanic_panic {α} (w : String) : (Res.panic w : R α).isPanic = true := rfl

theorem bind_noPanic {α β} (x : R α) (f : α → R β) (hx : x.isPanic = false)
    (hf : ∀ a, x = .ok a → (f a).isPanic = false) : (x.bind f).isPanic = false := by
  cases x with
  | ok a => exact hf a rfl
  | err e => rfl
  | panic w => simp at hx
  | unmodelled w => rfl

@[simp] theorem joinKind_self (a : RKind) : joinKind a a = a := by simp [joinKind]
@[simp] theorem joinKind_int_int (k k' : IntKind) :
    joinKind (.int k) (.int k') = .int (if k = k' then k else .i64) := by
  unfold joinKind; split <;> simp_all [RKind.isInt]
@[simp] theorem joinKind_flt_flt (k k' : FltKind) :
    joinKind (.flt k) (.flt k') = .flt (if k = k' then k else .f64) := by
  unfold joinKind; split <;> simp_all [RKind.isInt, RKind.isFloat]
@[simp] theorem joinKind_int_flt (k : IntKind) (k' : FltKind) :
    joinKind (.int k) (.flt k') = .flt .f64 := by
  simp [joinKind, RKind.isInt, RKind.isFloat]
@[simp] theorem joinKind_flt_int (k : FltKind) (k' : IntKind) :
    joinKind (.flt k) (.int k') = .flt .f64 := by
  simp [joinKind, RKind.isInt, RKind.isFloat]

/-- what `compareInts` computes on two integers of kinds `k`, `k'` -/
def cmpIntSpec (k : IntKind) (n : Int) (k' : IntKind) (m : Int) : Ordering :=
  if !k.isSigned && k'.isSigned && decide (m < 0) then .gt
  else if k.isSigned && !k'.isSigned && decide (n < 0) then .lt
  else compare n m

@[simp] theorem compareInts_eq (k n k' m) :
    compareInts (.int k n) (.int k' m) = .ok (cmpIntSpec k n k' m) := by
  cases hk : k.isSigned <;> cases hk' : k'.isSigned <;>
    simp [compareInts, cmpIntSpec, rkind, RKind.isUint, hk, hk', rInt, rUint] <;> split <;> simp_all

/-- an unsigned kind holds a non-negative value -/
def intOK (k : IntKind) (n : Int) : Prop := k.isSigned = false → 0 ≤ n

theorem cmpIntSpec_eq_compare {k n k' m} (h : intOK k n) (h' : intOK k' m) :
    cmpIntSpec k n k' m = compare n m := by
  unfold cmpIntSpec
  cases hk : k.isSigned <;> cases hk' : k'.isSigned <;> simp
  · intro hm
    have := h hk
    rw [eq_comm, Int.compare_eq_gt]; omega
  · intro hn
    have := h' hk'
    rw [eq_comm, Int.compare_eq_lt]; omega

theorem safeEqual_noPanic (a b : GoVal) : (safeEqual a b).isPanic = false := by
  unfold safeEqual
  split
  · rfl
  · split
    · rfl
    · cases a <;> cases b <;> simp_all [comparableV, goEq, rkind, structTag]

/-! ## B. unfolding `values.Equal` -/

theorem equalAux_false (a b : GoVal) : equalAux false a b = equalTL a (toLiq b) := by
  cases a <;> simp [equalAux, equalTL, seqK, mapK]

theorem equalAux_true (a b : GoVal) : equalAux true a b = equalTL (toLiq a) (toLiq b) := by
  cases a with
  | drop v => simp [equalAux, toLiq, equalAux_false]
  | ptr v => cases v <;> simp [equalAux, toLiq, equalAux_false, equalTL, seqK, mapK]
  | _ => simp [equalAux, equalTL, seqK, mapK, toLiq]

/-- `Equal(a, b)` is its body on `ToLiquid(a)`, `ToLiquid(b)` -/
theorem equal_eq (a b : GoVal) : equal a b = equalTL (toLiq a) (toLiq b) := equalAux_true a b

theorem equalList_cons (x y : GoVal) (xs ys : List GoVal) :
    equalList (x :: xs) (y :: ys) = (equal x y).bind fun r => if r then equalList xs ys else .ok false := by
  simp [equalList, equal]
@[simp] theorem equalList_nil_left (ys : List GoVal) : equalList [] ys = .ok true := by simp [equalList]
@[simp] theorem equalList_nil_right (xs : List GoVal) : equalList xs [] = .ok true := by
  cases xs <;> simp [equalList]

theorem equalItems_cons (k v k' v' : GoVal) (xs ys : List (GoVal × GoVal)) :
    equalItems ((k, v) :: xs) ((k', v') :: ys) =
      (equal k k').bind fun rk => if rk then (equal v v').bind fun rv =>
        if rv then equalItems xs ys else .ok false else .ok false := by
  simp [equalItems, equal]
@[simp] theorem equalItems_nil_left (ys) : equalItems [] ys = .ok true := by simp [equalItems]
@[simp] theorem equalItems_nil_right (xs) : equalItems xs [] = .ok true := by
  cases xs <;> simp [equalItems]

@[simp] theorem mapAll_nil (bs) : mapAll [] bs = .ok true := by simp [mapAll]
theorem mapAll_cons (k v : GoVal) (rest bs : List (GoVal × GoVal)) :
    mapAll ((k, v) :: rest) bs = (mapIndex bs k).bind fun o =>
      match o with
      | none => .ok false
      | some v' => (equal v v').bind fun r => if r then mapAll rest bs else .ok false := by
  simp [mapAll, equal]
  rfl

/-! ## C. no panics -/

theorem equalBody_noPanic (a b : GoVal) (sK mK)
    (hs : (rkind a = .slice ∨ rkind a = .array) → ∀ sv, (sK sv).isPanic = false)
    (hm : rkind a = .map → ∀ kt kvs, (mK kt kvs).isPanic = false) :
    (equalBody a b sK mK).isPanic = false := by
  unfold equalBody
  split
  · rfl
  · cases a <;> cases b <;>
      (try simp only [rkind, joinKind_int_int, joinKind_flt_flt, joinKind_int_flt, joinKind_flt_int]) <;>
      simp_all [rkind, GoVal.isNil, joinKind, RKind.isInt, RKind.isFloat, seqView, mapView, rBool,
        rFloat64, rString, safeEqual_noPanic]

theorem equalList_noPanic (xs ys : List GoVal)
    (h : ∀ x ∈ xs, ∀ y, (equal x y).isPanic = false) : (equalList xs ys).isPanic = false := by
  induction xs generalizing ys with
  | nil => simp
  | cons x xs ih =>
    cases ys with
    | nil => simp
    | cons y ys =>
      rw [equalList_cons]
      apply bind_noPanic _ _ (h x (by simp) y)
      intro r _
      cases r
      · simp
      · simpa using ih ys (fun x hx => h x (by simp [hx]))

theorem equalItems_noPanic (xs ys : List (GoVal × GoVal))
    (h : ∀ e ∈ xs, ∀ y, (equal e.1 y).isPanic = false ∧ (equal e.2 y).isPanic = false) :
    (equalItems xs ys).isPanic = false := by
  induction xs generalizing ys with
  | nil => simp
  | cons x xs ih =>
    obtain ⟨k, v⟩ := x
    cases ys with
    | nil => simp
    | cons y ys =>
      obtain ⟨k', v'⟩ := y
      rw [equalItems_cons]
      apply bind_noPanic _ _ (h (k, v) (by simp) k').1
      intro rk _
      cases rk
      · simp
      · simp only [if_true]
        apply bind_noPanic _ _ (h (k, v) (by simp) v').2
        intro rv _
        cases rv
        · simp
        · simpa using ih ys (fun e he => h e (by simp [he]))

theorem mapIndex_noPanic (bs k) : (mapIndex bs k).isPanic = false := by
  unfold mapIndex; split <;> rfl

theorem mapAll_noPanic (xs bs : List (GoVal × GoVal))
    (h : ∀ e ∈ xs, ∀ y, (equal e.2 y).isPanic = false) : (mapAll xs bs).isPanic = false := by
  induction xs with
  | nil => simp
  | cons x xs ih =>
    obtain ⟨k, v⟩ := x
    rw [mapAll_cons]
    apply bind_noPanic _ _ (mapIndex_noPanic bs k)
    intro o _
    cases o with
    | none => simp
    | some v' =>
      apply bind_noPanic _ _ (h (k, v) (by simp) v')
      intro r _
      cases r
      · simp
      · simpa using ih (fun e he => h e (by simp [he]))

theorem sizeOf_toLiq_le (a : GoVal) : sizeOf (toLiq a) ≤ sizeOf a := by
  cases a with
  | drop v => simp [toLiq]
  | ptr v => cases v <;> simp [toLiq]; omega
  | _ => simp [toLiq]

theorem sizeOf_lt_of_mem_slice {t : Ty} {xs : List GoVal} {x : GoVal} (h : x ∈ xs) :
    sizeOf x < sizeOf (GoVal.slice t xs) := by
  have := List.sizeOf_lt_of_mem h
  simp; omega
theorem sizeOf_lt_of_mem_array {t : Ty} {xs : List GoVal} {x : GoVal} (h : x ∈ xs) :
    sizeOf x < sizeOf (GoVal.array t xs) := by
  have := List.sizeOf_lt_of_mem h
  simp; omega
theorem sizeOf_lt_of_mem_mapSlice {kvs : List (GoVal × GoVal)} {e : GoVal × GoVal} (h : e ∈ kvs) :
    sizeOf e.1 < sizeOf (GoVal.mapSlice kvs) ∧ sizeOf e.2 < sizeOf (GoVal.mapSlice kvs) := by
  have := List.sizeOf_lt_of_mem h
  obtain ⟨k, v⟩ := e
  simp at this ⊢; omega
theorem sizeOf_lt_of_mem_map {kt vt : Ty} {kvs : List (GoVal × GoVal)} {e : GoVal × GoVal} (h : e ∈ kvs) :
    sizeOf e.1 < sizeOf (GoVal.map kt vt kvs) ∧ sizeOf e.2 < sizeOf (GoVal.map kt vt kvs) := by
  have := List.sizeOf_lt_of_mem h
  obtain ⟨k, v⟩ := e
  simp at this ⊢; omega

/-- the induction step shared by the theorems about `Equal`: a property of `equalTL a ·` for all
`a` follows if it holds for `a` whenever it holds for `ToLiquid` of every element / item / entry
value of `a`. -/
theorem equalTL_noPanic_aux : ∀ n (a : GoVal), sizeOf a < n → ∀ b, (equalTL a b).isPanic = false := by
  intro n
  induction n with
  | zero => intro a h; omega
  | succ n ih =>
    intro a ha b
    have elem : ∀ x : GoVal, sizeOf x < sizeOf a → ∀ y, (equal x y).isPanic = false := by
      intro x hx y
      rw [equal_eq]
      exact ih (toLiq x) (by have := sizeOf_toLiq_le x; omega) _
    unfold equalTL
    apply equalBody_noPanic
    · intro _ sv
      cases a with
      | slice t xs =>
        cases sv <;> simp [seqK, seqVals]
        split
        · exact equalList_noPanic _ _ (fun x hx => elem x (sizeOf_lt_of_mem_slice hx))
        · rfl
      | array t xs =>
        cases sv <;> simp [seqK, seqVals]
        split
        · exact equalList_noPanic _ _ (fun x hx => elem x (sizeOf_lt_of_mem_array hx))
        · rfl
      | mapSlice kvs =>
        cases sv <;> simp [seqK, seqItems]
        split
        · exact equalItems_noPanic _ _ (fun e he y =>
            ⟨elem e.1 (sizeOf_lt_of_mem_mapSlice he).1 y, elem e.2 (sizeOf_lt_of_mem_mapSlice he).2 y⟩)
        · rfl
      | bytes s => simp [seqK, bytesSeq]
      | _ => simp_all [rkind]
    · intro _ kt kvs'
      cases a with
      | map kt vt kvs =>
        simp [mapK, mapEntries]
        split
        · rfl
        · exact mapAll_noPanic _ _ (fun e he y => elem e.2 (sizeOf_lt_of_mem_map he).2 y)
      | keyedMap fs => simp [mapK, keyedMapK]
      | _ => simp_all [rkind]

theorem equalTL_noPanic (a b : GoVal) : (equalTL a b).isPanic = false :=
  equalTL_noPanic_aux _ a (Nat.lt_succ_self _) b

/-- `values.Equal` never panics -/
theorem equal_noPanic (a b : GoVal) : (equal a b).isPanic = false := by
  rw [equal_eq]; exact equalTL_noPanic _ _


/-! ## D. `Less`, the wrappers, `Contains`, the grammar actions -/

theorem sizeInduction {P : GoVal → Prop} (h : ∀ a, (∀ x, sizeOf x < sizeOf a → P x) → P a) :
    ∀ a, P a := by
  have : ∀ n (a : GoVal), sizeOf a < n → P a := by
    intro n
    induction n with
    | zero => intro a h; omega
    | succ n ih => intro a ha; exact h a (fun x hx => ih x (by omega))
  exact fun a => this _ a (Nat.lt_succ_self _)

theorem lessTL_noPanic (a b : GoVal) : (lessTL a b).isPanic = false := by
  unfold lessTL
  split
  · rfl
  · cases a <;> cases b <;>
      (try simp only [rkind, joinKind_int_int, joinKind_flt_flt, joinKind_int_flt, joinKind_flt_int]) <;>
      simp_all [GoVal.isNil, joinKind, RKind.isInt, RKind.isFloat, rBool, rFloat64, rString]

/-- `values.Less` never panics -/
theorem less_noPanic (a b : GoVal) : (less a b).isPanic = false := lessTL_noPanic _ _

def Wrapper.isDrop : Wrapper → Bool
  | .drop _ => true
  | _ => false

theorem valueOf_ptr_isDrop_false (v : GoVal) (h : (valueOf v).isDrop = false)
    (hv : ∀ w, v ≠ .drop w) : (valueOf (.ptr v)).isDrop = false := by
  cases v <;> simp_all [valueOf, isStructKind, Wrapper.isDrop]

theorem resolveVal_isDrop : ∀ v : GoVal, (resolveVal v).isDrop = false := by
  apply sizeInduction
  intro a ih
  cases a with
  | drop v => simp only [resolveVal]; exact ih v (by simp)
  | ptr v =>
    cases v <;> simp only [resolveVal, isStructKind, Bool.false_eq_true, if_false, if_true] <;>
      first
        | rfl
        | (apply ih; simp; done)
        | (apply ih; simp; omega)
  | _ => simp [resolveVal, valueOf, Wrapper.isDrop]

/-- `Resolve()` ends in a wrapper that is not a `dropWrapper` -/
theorem resolve_isDrop (w : Wrapper) : w.resolve.isDrop = false := by
  cases w with
  | drop d => exact resolveVal_isDrop d
  | _ => rfl

/-- `w.Equal(o)` is `values.Equal(w.Interface(), o.Interface())` for every wrapper -/
theorem Wrapper.equal_eq (w o : Wrapper) : w.equal o = Cmp.equal w.iface o.iface := by
  have := resolve_isDrop w
  unfold Wrapper.equal Wrapper.iface
  cases h : w.resolve <;> simp_all [Wrapper.isDrop]

theorem less_mapSlice (kvs b) : less (.mapSlice kvs) b = .ok false := by
  unfold less
  have : toLiq (.mapSlice kvs) = .mapSlice kvs := rfl
  rw [this]
  generalize toLiq b = b'
  cases b' <;> simp [lessTL, GoVal.isNil, rkind, joinKind]

/-- `w.Less(o)` is `values.Less(w.Interface(), o.Interface())` for every wrapper (for a `MapSlice`,
whose `Less` is the constant false, `values.Less` is false as well) -/
theorem Wrapper.less_eq (w o : Wrapper) : w.less o = Cmp.less w.iface o.iface := by
  have := resolve_isDrop w
  unfold Wrapper.less Wrapper.iface
  cases h : w.resolve <;> simp_all [Wrapper.isDrop, less_mapSlice]

theorem Wrapper.equal_noPanic (w o : Wrapper) : (w.equal o).isPanic = false := by
  rw [Wrapper.equal_eq]; exact Cmp.equal_noPanic _ _
theorem Wrapper.less_noPanic (w o : Wrapper) : (w.less o).isPanic = false := by
  rw [Wrapper.less_eq]; exact Cmp.less_noPanic _ _

theorem Wrapper.test_ok (w : Wrapper) : ∃ r, w.test = .ok r := by
  have := resolve_isDrop w
  unfold Wrapper.test
  cases h : w.resolve <;> simp_all [Wrapper.isDrop]

theorem Wrapper.test_noPanic (w : Wrapper) : w.test.isPanic = false := by
  obtain ⟨r, h⟩ := w.test_ok; simp [h]

theorem containsList_noPanic (xs : List GoVal) (e : GoVal) : (containsList xs e).isPanic = false := by
  induction xs with
  | nil => simp [containsList]
  | cons x xs ih =>
    simp only [containsList, Res.bind_eq]
    apply bind_noPanic _ _ (equal_noPanic x e)
    intro r _
    cases r <;> simp [ih]

theorem mapSliceContains_noPanic (kvs : List (GoVal × GoVal)) (e : GoVal) :
    (mapSliceContains kvs e).isPanic = false := by
  induction kvs with
  | nil => simp [mapSliceContains]
  | cons kv kvs ih =>
    obtain ⟨k, v⟩ := kv
    simp only [mapSliceContains, Res.bind_eq]
    apply bind_noPanic _ _ (safeEqual_noPanic _ _)
    intro r _
    cases r <;> simp [ih]

/-- the wrapper of a value knows its kind: an `arrayValue` holds a sequence, a `mapValue` a map,
a `stringValue` a string -/
inductive WrapperOK : Wrapper → Prop
  | wrapper (v) : WrapperOK (.wrapper v)
  | array (v) : (rkind v = .slice ∨ rkind v = .array) → (∀ kvs, v ≠ .mapSlice kvs) → WrapperOK (.array v)
  | map (v) : rkind v = .map → WrapperOK (.map v)
  | string (s) : WrapperOK (.string (.str s))
  | struct (v) : WrapperOK (.struct v)
  | mapSlice (kvs) : WrapperOK (.mapSlice kvs)
  | drop (d) : WrapperOK (.drop d)

theorem valueOf_ok : ∀ v : GoVal, WrapperOK (valueOf v) := by
  apply sizeInduction
  intro a ih
  cases a with
  | ptr v =>
    cases v <;> simp only [valueOf, isStructKind, Bool.false_eq_true, if_false, if_true] <;>
      first
        | exact .drop _
        | exact .struct _
        | exact .wrapper _
        | exact .string _
        | exact .mapSlice _
        | exact .array _ (by simp [rkind]) (by simp)
        | exact .map _ (by simp [rkind])
        | (apply ih; simp; done)
  | nil => exact .wrapper _
  | bool => exact .wrapper _
  | int => exact .wrapper _
  | flt => exact .wrapper _
  | nilPtr => exact .wrapper _
  | drop => exact .drop _
  | mapSlice => exact .mapSlice _
  | str => exact .string _
  | bytes => exact .array _ (by simp [rkind]) (by simp)
  | slice => exact .array _ (by simp [rkind]) (by simp)
  | array => exact .array _ (by simp [rkind]) (by simp)
  | map => exact .map _ (by simp [rkind])
  | keyedMap => exact .map _ (by simp [rkind])
  | range => exact .struct _
  | struct => exact .struct _
  | time => exact .struct _

theorem resolveVal_ok : ∀ v : GoVal, WrapperOK (resolveVal v) := by
  apply sizeInduction
  intro a ih
  cases a with
  | drop v => simp only [resolveVal]; exact ih v (by simp)
  | ptr v =>
    cases v <;> simp only [resolveVal, isStructKind, Bool.false_eq_true, if_false, if_true] <;>
      first
        | exact .struct _
        | exact valueOf_ok _
        | (apply ih; simp; done)
        | (apply ih; simp; omega)
  | _ => simp only [resolveVal]; exact valueOf_ok _

theorem resolve_ok {w : Wrapper} (h : WrapperOK w) : WrapperOK w.resolve := by
  cases h <;> simp only [Wrapper.resolve] <;> first | exact resolveVal_ok _ | (constructor <;> assumption) | constructor

/-- `Contains` does not panic on a wrapper made by `ValueOf` -/
theorem Wrapper.contains_noPanic (w o : Wrapper) (hw : WrapperOK w) : (w.contains o).isPanic = false := by
  have h1 := resolve_isDrop w
  have h2 := resolve_ok hw
  unfold Wrapper.contains
  generalize o.iface = e at *
  cases h2' : w.resolve with
  | wrapper v => simp
  | array v =>
    rw [h2'] at h2
    cases h2 with
    | array _ hk hn =>
      cases v <;> simp_all [rkind, seqView, containsList_noPanic]
  | map v =>
    rw [h2'] at h2
    cases h2 with
    | map _ hk =>
      cases v <;> simp_all [rkind, mapView]
      split
      · rfl
      · split
        · exact bind_noPanic _ _ (mapIndex_noPanic _ _) (fun _ _ => rfl)
        · rfl
  | string v =>
    rw [h2'] at h2
    cases h2 with
    | string s =>
      simp
      cases e <;> simp [sprintNeedle]
      rename_i b; cases b <;> simp
  | struct v => simp; cases e <;> simp
  | mapSlice kvs => simp; exact mapSliceContains_noPanic kvs e
  | drop d => simp_all [Wrapper.isDrop]

theorem operand_ok (v : GoVal) : WrapperOK (operand v) := valueOf_ok _

/-- no grammar action panics on wrappers made by `ValueOf` -/
theorem relW_noPanic (o : Op) (a b : Wrapper) (ha : WrapperOK a) (_hb : WrapperOK b) :
    (relW o a b).isPanic = false := by
  cases o <;> simp only [relW, Res.bind_eq]
  · exact a.equal_noPanic b
  · exact bind_noPanic _ _ (a.equal_noPanic b) (fun _ _ => rfl)
  · exact a.less_noPanic b
  · exact b.less_noPanic a
  · apply bind_noPanic _ _ (a.less_noPanic b)
    intro l _
    cases l <;> simp [a.equal_noPanic b]
  · apply bind_noPanic _ _ (b.less_noPanic a)
    intro l _
    cases l <;> simp [a.equal_noPanic b]
  · exact a.contains_noPanic b ha

theorem valueOf_bool_ok (r : Bool) : WrapperOK (valueOf (.bool r)) := .wrapper _

/-- evaluating a condition never panics, and its value is a wrapper made by `ValueOf` -/
theorem CE.eval_noPanic (env : List GoVal) : ∀ c : CE,
    (c.eval env).isPanic = false ∧ ∀ w, c.eval env = .ok w → WrapperOK w := by
  intro c
  induction c with
  | var i =>
    simp only [CE.eval]
    split
    · exact ⟨rfl, fun w h => by cases h; exact operand_ok _⟩
    · exact ⟨rfl, fun w h => by cases h⟩
  | elem i =>
    simp only [CE.eval]
    split
    · exact ⟨rfl, fun w h => by cases h; exact valueOf_ok _⟩
    · exact ⟨rfl, fun w h => by cases h⟩
  | rel o a b iha ihb =>
    simp only [CE.eval, Res.bind_eq]
    constructor
    · apply bind_noPanic _ _ iha.1
      intro x hx
      apply bind_noPanic _ _ ihb.1
      intro y hy
      exact bind_noPanic _ _ (relW_noPanic o x y (iha.2 x hx) (ihb.2 y hy)) (fun _ _ => rfl)
    · intro w h
      cases ha : a.eval env <;> simp [ha] at h
      cases hb : b.eval env <;> simp [hb] at h
      rename_i x y
      cases hr : relW o x y <;> simp [hr] at h
      subst h; exact valueOf_bool_ok _
  | and a b iha ihb =>
    simp only [CE.eval, Res.bind_eq, andW]
    constructor
    · apply bind_noPanic _ _ iha.1
      intro x hx
      refine bind_noPanic _ _ ?_ (fun _ _ => rfl)
      apply bind_noPanic _ _ x.test_noPanic
      intro t _
      cases t
      · rfl
      · simp only [if_true]
        exact bind_noPanic _ _ ihb.1 (fun y _ => y.test_noPanic)
    · intro w h
      cases ha : a.eval env <;> simp [ha] at h
      rename_i x
      generalize (x.test.bind fun t => if t = true then (b.eval env).bind fun bw => bw.test else Res.ok false) = q at h
      cases q <;> simp at h
      subst h; exact valueOf_bool_ok _
  | or a b iha ihb =>
    simp only [CE.eval, Res.bind_eq, orW]
    constructor
    · apply bind_noPanic _ _ iha.1
      intro x hx
      refine bind_noPanic _ _ ?_ (fun _ _ => rfl)
      apply bind_noPanic _ _ x.test_noPanic
      intro t _
      cases t
      · simp only [Bool.false_eq_true, if_false]
        exact bind_noPanic _ _ ihb.1 (fun y _ => y.test_noPanic)
      · rfl
    · intro w h
      cases ha : a.eval env <;> simp [ha] at h
      rename_i x
      generalize (x.test.bind fun t => if t = true then Res.ok true else (b.eval env).bind fun bw => bw.test) = q at h
      cases q <;> simp at h
      subst h; exact valueOf_bool_ok _

end Cmp
