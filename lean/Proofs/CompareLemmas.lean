import Liquid.Compare
import Proofs.ToLiquidLemmas
/-!
# Helper lemmas for property C09 (`Proofs/C09.lean`)

Sections: (A) results and `reflect` primitives, (B) unfolding of `values.Equal`, (C) absence of
panics, (D) wrappers, (E) well-formed values: totality, symmetry, reflexivity, (F) bytes.
-/

set_option linter.unusedSimpArgs false

namespace Cmp

/-! ## A. results, `joinKind`, `compareInts`, `safeEqual` -/

@[simp] theorem isPanic_ok {α} (x : α) : (Res.ok x : R α).isPanic = false := rfl
@[simp] theorem isPanic_unmodelled {α} (w : String) : (Res.unmodelled w : R α).isPanic = false := rfl
@[simp] theorem isPanic_err {α} (e) : (Res.err e : R α).isPanic = false := rfl
@[simp] theorem isPanic_panic {α} (w : String) : (Res.panic w : R α).isPanic = true := rfl

theorem bind_noPanic {α β} (x : R α) (f : α → R β) (hx : x.isPanic = false)
    (hf : ∀ a, x = .ok a → (f a).isPanic = false) : (x.bind f).isPanic = false := by
  cases x with
  | ok a => exact hf a rfl
  | err e => rfl
  | panic w => simp at hx
  | unmodelled w => rfl

@[simp] theorem joinKind_self (a : RKind) : joinKind a a = a := by simp [joinKind]
@[simp] theorem joinKind_int_int (k k' : IntKind) :
    joinKind (.int k) (.int k') = .int (if k = k' then k else .i64) := by
  unfold joinKind; split <;> simp_all [RKind.isInt]
@[simp] theorem joinKind_flt_flt (k k' : FltKind) :
    joinKind (.flt k) (.flt k') = .flt (if k = k' then k else .f64) := by
  unfold joinKind; split <;> simp_all [RKind.isInt, RKind.isFloat]
@[simp] theorem joinKind_int_flt (k : IntKind) (k' : FltKind) :
    joinKind (.int k) (.flt k') = .flt .f64 := by
  simp [joinKind, RKind.isInt, RKind.isFloat]
@[simp] theorem joinKind_flt_int (k : FltKind) (k' : IntKind) :
    joinKind (.flt k) (.int k') = .flt .f64 := by
  simp [joinKind, RKind.isInt, RKind.isFloat]

/-- what `compareInts` computes on two integers of kinds `k`, `k'` -/
def cmpIntSpec (k : IntKind) (n : Int) (k' : IntKind) (m : Int) : Ordering :=
  if !k.isSigned && k'.isSigned && decide (m < 0) then .gt
  else if k.isSigned && !k'.isSigned && decide (n < 0) then .lt
  else compare n m

@[simp] theorem compareInts_eq (k n k' m) :
    compareInts (.int k n) (.int k' m) = .ok (cmpIntSpec k n k' m) := by
  cases hk : k.isSigned <;> cases hk' : k'.isSigned <;>
    simp [compareInts, cmpIntSpec, rkind, RKind.isUint, hk, hk', rInt, rUint] <;> split <;> simp_all

/-- an unsigned kind holds a non-negative value -/
def intOK (k : IntKind) (n : Int) : Prop := k.isSigned = false → 0 ≤ n

theorem cmpIntSpec_eq_compare {k n k' m} (h : intOK k n) (h' : intOK k' m) :
    cmpIntSpec k n k' m = compare n m := by
  unfold cmpIntSpec
  cases hk : k.isSigned <;> cases hk' : k'.isSigned <;> simp
  · intro hm
    have := h hk
    rw [eq_comm, Int.compare_eq_gt]; omega
  · intro hn
    have := h' hk'
    rw [eq_comm, Int.compare_eq_lt]; omega

theorem safeEqual_noPanic (a b : GoVal) : (safeEqual a b).isPanic = false := by
  unfold safeEqual
  split
  · rfl
  · split
    · rfl
    · cases a <;> cases b <;> simp_all [comparableV, goEq, rkind, structTag]

/-! ## B. unfolding `values.Equal` -/

theorem equalAux_false (a b : GoVal) : equalAux false a b = equalTL a (toLiq b) := by
  cases a <;> simp [equalAux, equalTL, seqK, mapK]

theorem equalAux_true : ∀ a b : GoVal, equalAux true a b = equalTL (toLiq a) (toLiq b)
  | .drop v, b => by rw [equalAux, toLiq]; exact equalAux_true v b
  | .ptr (.drop v), b => by simp only [equalAux, toLiq]; exact equalAux_true v b
  | .ptr .nil, b | .ptr (.bool _), b | .ptr (.int _ _), b | .ptr (.flt _ _), b | .ptr (.str _), b
  | .ptr (.bytes _), b | .ptr (.slice _ _), b | .ptr (.array _ _), b | .ptr (.map _ _ _), b
  | .ptr (.mapSlice _), b | .ptr (.keyedMap _), b | .ptr (.range _ _), b | .ptr (.ptr _), b | .ptr .nilPtr, b
  | .ptr (.struct _), b | .ptr (.time _), b => by simp [equalAux, toLiq, equalTL, seqK, mapK]
  | .nil, b | .bool _, b | .int _ _, b | .flt _ _, b | .str _, b | .bytes _, b | .slice _ _, b
  | .array _ _, b | .map _ _ _, b | .mapSlice _, b | .keyedMap _, b | .range _ _, b | .nilPtr, b
  | .struct _, b | .time _, b => by simp [equalAux, equalTL, seqK, mapK, toLiq]

/-- `Equal(a, b)` is its body on `ToLiquid(a)`, `ToLiquid(b)` -/
theorem equal_eq (a b : GoVal) : equal a b = equalTL (toLiq a) (toLiq b) := equalAux_true a b

theorem equalList_cons (x y : GoVal) (xs ys : List GoVal) :
    equalList (x :: xs) (y :: ys) = (equal x y).bind fun r => if r then equalList xs ys else .ok false := by
  simp [equalList, equal]
@[simp] theorem equalList_nil_left (ys : List GoVal) : equalList [] ys = .ok true := by simp [equalList]
@[simp] theorem equalList_nil_right (xs : List GoVal) : equalList xs [] = .ok true := by
  cases xs <;> simp [equalList]

theorem equalItems_cons (k v k' v' : GoVal) (xs ys : List (GoVal × GoVal)) :
    equalItems ((k, v) :: xs) ((k', v') :: ys) =
      (equal k k').bind fun rk => if rk then (equal v v').bind fun rv =>
        if rv then equalItems xs ys else .ok false else .ok false := by
  simp [equalItems, equal]
@[simp] theorem equalItems_nil_left (ys) : equalItems [] ys = .ok true := by simp [equalItems]
@[simp] theorem equalItems_nil_right (xs) : equalItems xs [] = .ok true := by
  cases xs <;> simp [equalItems]

@[simp] theorem mapAll_nil (bs) : mapAll [] bs = .ok true := by simp [mapAll]
theorem mapAll_cons (k v : GoVal) (rest bs : List (GoVal × GoVal)) :
    mapAll ((k, v) :: rest) bs = (mapIndex bs k).bind fun o =>
      match o with
      | none => .ok false
      | some v' => (equal v v').bind fun r => if r then mapAll rest bs else .ok false := by
  simp [mapAll, equal]
  rfl

/-! ## C. no panics -/

theorem equalBody_noPanic (a b : GoVal) (sK mK)
    (hs : (rkind a = .slice ∨ rkind a = .array) → ∀ sv, (sK sv).isPanic = false)
    (hm : rkind a = .map → ∀ kt kvs, (mK kt kvs).isPanic = false) :
    (equalBody a b sK mK).isPanic = false := by
  unfold equalBody
  split
  · rfl
  · cases a <;> cases b <;>
      (try simp only [rkind, joinKind_int_int, joinKind_flt_flt, joinKind_int_flt, joinKind_flt_int]) <;>
      simp_all [rkind, GoVal.isNil, joinKind, RKind.isInt, RKind.isFloat, seqView, mapView, rBool,
        rFloat64, rString, safeEqual_noPanic]

theorem equalList_noPanic (xs ys : List GoVal)
    (h : ∀ x ∈ xs, ∀ y, (equal x y).isPanic = false) : (equalList xs ys).isPanic = false := by
  induction xs generalizing ys with
  | nil => simp
  | cons x xs ih =>
    cases ys with
    | nil => simp
    | cons y ys =>
      rw [equalList_cons]
      apply bind_noPanic _ _ (h x (by simp) y)
      intro r _
      cases r
      · simp
      · simpa using ih ys (fun x hx => h x (by simp [hx]))

theorem equalItems_noPanic (xs ys : List (GoVal × GoVal))
    (h : ∀ e ∈ xs, ∀ y, (equal e.1 y).isPanic = false ∧ (equal e.2 y).isPanic = false) :
    (equalItems xs ys).isPanic = false := by
  induction xs generalizing ys with
  | nil => simp
  | cons x xs ih =>
    obtain ⟨k, v⟩ := x
    cases ys with
    | nil => simp
    | cons y ys =>
      obtain ⟨k', v'⟩ := y
      rw [equalItems_cons]
      apply bind_noPanic _ _ (h (k, v) (by simp) k').1
      intro rk _
      cases rk
      · simp
      · simp only [if_true]
        apply bind_noPanic _ _ (h (k, v) (by simp) v').2
        intro rv _
        cases rv
        · simp
        · simpa using ih ys (fun e he => h e (by simp [he]))

theorem mapIndex_noPanic (bs k) : (mapIndex bs k).isPanic = false := by
  unfold mapIndex; split <;> rfl

theorem mapAll_noPanic (xs bs : List (GoVal × GoVal))
    (h : ∀ e ∈ xs, ∀ y, (equal e.2 y).isPanic = false) : (mapAll xs bs).isPanic = false := by
  induction xs with
  | nil => simp
  | cons x xs ih =>
    obtain ⟨k, v⟩ := x
    rw [mapAll_cons]
    apply bind_noPanic _ _ (mapIndex_noPanic bs k)
    intro o _
    cases o with
    | none => simp
    | some v' =>
      apply bind_noPanic _ _ (h (k, v) (by simp) v')
      intro r _
      cases r
      · simp
      · simpa using ih (fun e he => h e (by simp [he]))

theorem sizeOf_toLiq_le (a : GoVal) : sizeOf (toLiq a) ≤ sizeOf a := by
  rw [toLiq_eq_toLiquid]; exact sizeOf_toLiquid_le a

theorem sizeOf_lt_of_mem_slice {t : Ty} {xs : List GoVal} {x : GoVal} (h : x ∈ xs) :
    sizeOf x < sizeOf (GoVal.slice t xs) := by
  have := List.sizeOf_lt_of_mem h
  simp; omega
theorem sizeOf_lt_of_mem_array {t : Ty} {xs : List GoVal} {x : GoVal} (h : x ∈ xs) :
    sizeOf x < sizeOf (GoVal.array t xs) := by
  have := List.sizeOf_lt_of_mem h
  simp; omega
theorem sizeOf_lt_of_mem_mapSlice {kvs : List (GoVal × GoVal)} {e : GoVal × GoVal} (h : e ∈ kvs) :
    sizeOf e.1 < sizeOf (GoVal.mapSlice kvs) ∧ sizeOf e.2 < sizeOf (GoVal.mapSlice kvs) := by
  have := List.sizeOf_lt_of_mem h
  obtain ⟨k, v⟩ := e
  simp at this ⊢; omega
theorem sizeOf_lt_of_mem_map {kt vt : Ty} {kvs : List (GoVal × GoVal)} {e : GoVal × GoVal} (h : e ∈ kvs) :
    sizeOf e.1 < sizeOf (GoVal.map kt vt kvs) ∧ sizeOf e.2 < sizeOf (GoVal.map kt vt kvs) := by
  have := List.sizeOf_lt_of_mem h
  obtain ⟨k, v⟩ := e
  simp at this ⊢; omega

/-- the induction step shared by the theorems about `Equal`: a property of `equalTL a ·` for all
`a` follows if it holds for `a` whenever it holds for `ToLiquid` of every element / item / entry
value of `a`. -/
theorem equalTL_noPanic_aux : ∀ n (a : GoVal), sizeOf a < n → ∀ b, (equalTL a b).isPanic = false := by
  intro n
  induction n with
  | zero => intro a h; omega
  | succ n ih =>
    intro a ha b
    have elem : ∀ x : GoVal, sizeOf x < sizeOf a → ∀ y, (equal x y).isPanic = false := by
      intro x hx y
      rw [equal_eq]
      exact ih (toLiq x) (by have := sizeOf_toLiq_le x; omega) _
    unfold equalTL
    apply equalBody_noPanic
    · intro _ sv
      cases a with
      | slice t xs =>
        cases sv <;> simp [seqK, seqVals]
        split
        · exact equalList_noPanic _ _ (fun x hx => elem x (sizeOf_lt_of_mem_slice hx))
        · rfl
      | array t xs =>
        cases sv <;> simp [seqK, seqVals]
        split
        · exact equalList_noPanic _ _ (fun x hx => elem x (sizeOf_lt_of_mem_array hx))
        · rfl
      | mapSlice kvs =>
        cases sv <;> simp [seqK, seqItems]
        split
        · exact equalItems_noPanic _ _ (fun e he y =>
            ⟨elem e.1 (sizeOf_lt_of_mem_mapSlice he).1 y, elem e.2 (sizeOf_lt_of_mem_mapSlice he).2 y⟩)
        · rfl
      | bytes s => simp [seqK, bytesSeq]
      | _ => simp_all [rkind]
    · intro _ kt kvs'
      cases a with
      | map kt vt kvs =>
        simp [mapK, mapEntries]
        split
        · rfl
        · exact mapAll_noPanic _ _ (fun e he y => elem e.2 (sizeOf_lt_of_mem_map he).2 y)
      | keyedMap fs => simp [mapK, keyedMapK]
      | _ => simp_all [rkind]

theorem equalTL_noPanic (a b : GoVal) : (equalTL a b).isPanic = false :=
  equalTL_noPanic_aux _ a (Nat.lt_succ_self _) b

/-- `values.Equal` never panics -/
theorem equal_noPanic (a b : GoVal) : (equal a b).isPanic = false := by
  rw [equal_eq]; exact equalTL_noPanic _ _


/-! ## D. `Less`, the wrappers, `Contains`, the grammar actions -/

theorem sizeInduction {P : GoVal → Prop} (h : ∀ a, (∀ x, sizeOf x < sizeOf a → P x) → P a) :
    ∀ a, P a := by
  have : ∀ n (a : GoVal), sizeOf a < n → P a := by
    intro n
    induction n with
    | zero => intro a h; omega
    | succ n ih => intro a ha; exact h a (fun x hx => ih x (by omega))
  exact fun a => this _ a (Nat.lt_succ_self _)

theorem lessTL_noPanic (a b : GoVal) : (lessTL a b).isPanic = false := by
  unfold lessTL
  split
  · rfl
  · cases a <;> cases b <;>
      (try simp only [rkind, joinKind_int_int, joinKind_flt_flt, joinKind_int_flt, joinKind_flt_int]) <;>
      simp_all [GoVal.isNil, joinKind, RKind.isInt, RKind.isFloat, rBool, rFloat64, rString]

/-- `values.Less` never panics -/
theorem less_noPanic (a b : GoVal) : (less a b).isPanic = false := lessTL_noPanic _ _

def Wrapper.isDrop : Wrapper → Bool
  | .drop _ => true
  | _ => false

theorem valueOf_ptr_isDrop_false (v : GoVal) (h : (valueOf v).isDrop = false)
    (hv : ∀ w, v ≠ .drop w) : (valueOf (.ptr v)).isDrop = false := by
  cases v <;> simp_all [valueOf, isStructKind, Wrapper.isDrop]

theorem resolveVal_isDrop : ∀ v : GoVal, (resolveVal v).isDrop = false := by
  apply sizeInduction
  intro a ih
  cases a with
  | drop v => simp only [resolveVal]; exact ih v (by simp)
  | ptr v =>
    cases v <;> simp only [resolveVal, isStructKind, Bool.false_eq_true, if_false, if_true] <;>
      first
        | rfl
        | (apply ih; simp; done)
        | (apply ih; simp; omega)
  | _ => simp [resolveVal, valueOf, Wrapper.isDrop]

/-- `Resolve()` ends in a wrapper that is not a `dropWrapper` -/
theorem resolve_isDrop (w : Wrapper) : w.resolve.isDrop = false := by
  cases w with
  | drop d => exact resolveVal_isDrop d
  | _ => rfl

/-- `w.Equal(o)` is `values.Equal(w.Interface(), o.Interface())` for every wrapper -/
theorem Wrapper.equal_eq (w o : Wrapper) : w.equal o = Cmp.equal w.iface o.iface := by
  have := resolve_isDrop w
  unfold Wrapper.equal Wrapper.iface
  cases h : w.resolve <;> simp_all [Wrapper.isDrop]

theorem less_mapSlice (kvs b) : less (.mapSlice kvs) b = .ok false := by
  unfold less
  have : toLiq (.mapSlice kvs) = .mapSlice kvs := rfl
  rw [this]
  generalize toLiq b = b'
  cases b' <;> simp [lessTL, GoVal.isNil, rkind, joinKind]

/-- `w.Less(o)` is `values.Less(w.Interface(), o.Interface())` for every wrapper (for a `MapSlice`,
whose `Less` is the constant false, `values.Less` is false as well) -/
theorem Wrapper.less_eq (w o : Wrapper) : w.less o = Cmp.less w.iface o.iface := by
  have := resolve_isDrop w
  unfold Wrapper.less Wrapper.iface
  cases h : w.resolve <;> simp_all [Wrapper.isDrop, less_mapSlice]

theorem Wrapper.equal_noPanic (w o : Wrapper) : (w.equal o).isPanic = false := by
  rw [Wrapper.equal_eq]; exact Cmp.equal_noPanic _ _
theorem Wrapper.less_noPanic (w o : Wrapper) : (w.less o).isPanic = false := by
  rw [Wrapper.less_eq]; exact Cmp.less_noPanic _ _

theorem Wrapper.test_ok (w : Wrapper) : ∃ r, w.test = .ok r := by
  have := resolve_isDrop w
  unfold Wrapper.test
  cases h : w.resolve <;> simp_all [Wrapper.isDrop]

theorem Wrapper.test_noPanic (w : Wrapper) : w.test.isPanic = false := by
  obtain ⟨r, h⟩ := w.test_ok; simp [h]

theorem containsList_noPanic (xs : List GoVal) (e : GoVal) : (containsList xs e).isPanic = false := by
  induction xs with
  | nil => simp [containsList]
  | cons x xs ih =>
    simp only [containsList, Res.bind_eq]
    apply bind_noPanic _ _ (equal_noPanic x e)
    intro r _
    cases r <;> simp [ih]

theorem mapSliceContains_noPanic (kvs : List (GoVal × GoVal)) (e : GoVal) :
    (mapSliceContains kvs e).isPanic = false := by
  induction kvs with
  | nil => simp [mapSliceContains]
  | cons kv kvs ih =>
    obtain ⟨k, v⟩ := kv
    simp only [mapSliceContains, Res.bind_eq]
    apply bind_noPanic _ _ (safeEqual_noPanic _ _)
    intro r _
    cases r <;> simp [ih]

/-- the wrapper of a value knows its kind: an `arrayValue` holds a sequence, a `mapValue` a map,
a `stringValue` a string -/
inductive WrapperOK : Wrapper → Prop
  | wrapper (v) : WrapperOK (.wrapper v)
  | array (v) : (rkind v = .slice ∨ rkind v = .array) → (∀ kvs, v ≠ .mapSlice kvs) → WrapperOK (.array v)
  | map (v) : rkind v = .map → WrapperOK (.map v)
  | string (s) : WrapperOK (.string (.str s))
  | struct (v) : WrapperOK (.struct v)
  | mapSlice (kvs) : WrapperOK (.mapSlice kvs)
  | drop (d) : WrapperOK (.drop d)

theorem valueOf_ok : ∀ v : GoVal, WrapperOK (valueOf v) := by
  apply sizeInduction
  intro a ih
  cases a with
  | ptr v =>
    cases v <;> simp only [valueOf, isStructKind, Bool.false_eq_true, if_false, if_true] <;>
      first
        | exact .drop _
        | exact .struct _
        | exact .wrapper _
        | exact .string _
        | exact .mapSlice _
        | exact .array _ (by simp [rkind]) (by simp)
        | exact .map _ (by simp [rkind])
        | (apply ih; simp; done)
  | nil => exact .wrapper _
  | bool => exact .wrapper _
  | int => exact .wrapper _
  | flt => exact .wrapper _
  | nilPtr => exact .wrapper _
  | drop => exact .drop _
  | mapSlice => exact .mapSlice _
  | str => exact .string _
  | bytes => exact .array _ (by simp [rkind]) (by simp)
  | slice => exact .array _ (by simp [rkind]) (by simp)
  | array => exact .array _ (by simp [rkind]) (by simp)
  | map => exact .map _ (by simp [rkind])
  | keyedMap => exact .map _ (by simp [rkind])
  | range => exact .struct _
  | struct => exact .struct _
  | time => exact .struct _

theorem resolveVal_ok : ∀ v : GoVal, WrapperOK (resolveVal v) := by
  apply sizeInduction
  intro a ih
  cases a with
  | drop v => simp only [resolveVal]; exact ih v (by simp)
  | ptr v =>
    cases v <;> simp only [resolveVal, isStructKind, Bool.false_eq_true, if_false, if_true] <;>
      first
        | exact .struct _
        | exact valueOf_ok _
        | (apply ih; simp; done)
        | (apply ih; simp; omega)
  | _ => simp only [resolveVal]; exact valueOf_ok _

theorem resolve_ok {w : Wrapper} (h : WrapperOK w) : WrapperOK w.resolve := by
  cases h <;> simp only [Wrapper.resolve] <;> first | exact resolveVal_ok _ | (constructor <;> assumption) | constructor

theorem containsW_noPanic (w : Wrapper) (e : GoVal) (hw : WrapperOK w) : (containsW w e).isPanic = false := by
  cases hw with
  | wrapper v => simp [containsW]
  | array v hk hn =>
    cases v <;> simp_all [rkind, containsW, seqView, containsList_noPanic]
  | map v hk =>
    cases v <;> simp_all [rkind, containsW, mapView]
    split
    · rfl
    · split <;> rfl
  | string s =>
    cases e <;> simp [containsW, sprintNeedle]
    rename_i b; cases b <;> simp
  | struct v => cases e <;> simp [containsW]
  | mapSlice kvs => simp [containsW]; exact mapSliceContains_noPanic kvs e
  | drop d => simp [containsW]

/-- `Contains` does not panic on a wrapper made by `ValueOf` -/
theorem Wrapper.contains_noPanic (w o : Wrapper) (hw : WrapperOK w) : (w.contains o).isPanic = false :=
  containsW_noPanic _ _ (resolve_ok hw)

theorem operand_ok (v : GoVal) : WrapperOK (operand v) := valueOf_ok _

/-- no grammar action panics on wrappers made by `ValueOf` -/
theorem relW_noPanic (o : Op) (a b : Wrapper) (ha : WrapperOK a) (_hb : WrapperOK b) :
    (relW o a b).isPanic = false := by
  cases o <;> simp only [relW, Res.bind_eq]
  · exact a.equal_noPanic b
  · exact bind_noPanic _ _ (a.equal_noPanic b) (fun _ _ => rfl)
  · exact a.less_noPanic b
  · exact b.less_noPanic a
  · apply bind_noPanic _ _ (a.less_noPanic b)
    intro l _
    cases l <;> simp [a.equal_noPanic b]
  · apply bind_noPanic _ _ (b.less_noPanic a)
    intro l _
    cases l <;> simp [a.equal_noPanic b]
  · exact a.contains_noPanic b ha

theorem valueOf_bool_ok (r : Bool) : WrapperOK (valueOf (.bool r)) := .wrapper _

/-- evaluating a condition never panics, and its value is a wrapper made by `ValueOf` -/
theorem CE.eval_noPanic (env : List GoVal) : ∀ c : CE,
    (c.eval env).isPanic = false ∧ ∀ w, c.eval env = .ok w → WrapperOK w := by
  intro c
  induction c with
  | var i =>
    simp only [CE.eval]
    split
    · exact ⟨rfl, fun w h => by cases h; exact operand_ok _⟩
    · exact ⟨rfl, fun w h => by cases h⟩
  | elem i =>
    simp only [CE.eval]
    split
    · exact ⟨rfl, fun w h => by cases h; exact valueOf_ok _⟩
    · exact ⟨rfl, fun w h => by cases h⟩
  | rel o a b iha ihb =>
    simp only [CE.eval, Res.bind_eq]
    constructor
    · apply bind_noPanic _ _ iha.1
      intro x hx
      apply bind_noPanic _ _ ihb.1
      intro y hy
      exact bind_noPanic _ _ (relW_noPanic o x y (iha.2 x hx) (ihb.2 y hy)) (fun _ _ => rfl)
    · intro w h
      cases ha : a.eval env <;> simp [ha] at h
      cases hb : b.eval env <;> simp [hb] at h
      rename_i x y
      cases hr : relW o x y <;> simp [hr] at h
      subst h; exact valueOf_bool_ok _
  | and a b iha ihb =>
    simp only [CE.eval, Res.bind_eq, andW]
    constructor
    · apply bind_noPanic _ _ iha.1
      intro x hx
      refine bind_noPanic _ _ ?_ (fun _ _ => rfl)
      apply bind_noPanic _ _ x.test_noPanic
      intro t _
      cases t
      · rfl
      · simp only [if_true]
        exact bind_noPanic _ _ ihb.1 (fun y _ => y.test_noPanic)
    · intro w h
      cases ha : a.eval env <;> simp [ha] at h
      rename_i x
      generalize (x.test.bind fun t => if t = true then (b.eval env).bind fun bw => bw.test else Res.ok false) = q at h
      cases q <;> simp at h
      subst h; exact valueOf_bool_ok _
  | or a b iha ihb =>
    simp only [CE.eval, Res.bind_eq, orW]
    constructor
    · apply bind_noPanic _ _ iha.1
      intro x hx
      refine bind_noPanic _ _ ?_ (fun _ _ => rfl)
      apply bind_noPanic _ _ x.test_noPanic
      intro t _
      cases t
      · simp only [Bool.false_eq_true, if_false]
        exact bind_noPanic _ _ ihb.1 (fun y _ => y.test_noPanic)
      · rfl
    · intro w h
      cases ha : a.eval env <;> simp [ha] at h
      rename_i x
      generalize (x.test.bind fun t => if t = true then Res.ok true else (b.eval env).bind fun bw => bw.test) = q at h
      cases q <;> simp at h
      subst h; exact valueOf_bool_ok _


/-! ## E. well-formed values: `Equal` is total, symmetric and reflexive -/

def isDropV : GoVal → Bool
  | .drop _ => true
  | _ => false

def keyList (kvs : List (GoVal × GoVal)) : List (Option Key) := kvs.map fun e => toKey e.1

/-- the keys of a Go map: hashable scalars (inside the model), pairwise different -/
def keysOK (kvs : List (GoVal × GoVal)) : Bool :=
  (keyList kvs).all Option.isSome && decide (keyList kvs).Nodup

mutual
/-- Well-formed operand of `values.Equal`: inside the model (no `[]byte`/`IterationKeyedMap`, which
the driver rewrites; no pointer below the top level, no harness struct, no drop that yields a
drop), and every map has distinct scalar keys, as every Go map does. -/
def wfE : GoVal → Bool
  | .nil | .bool _ | .int _ _ | .flt _ _ | .str _ | .range _ _ | .time _ | .nilPtr => true
  | .bytes _ | .keyedMap _ | .struct _ | .ptr _ => false
  | .drop v => !isDropV v && wfE v
  | .slice _ xs | .array _ xs => wfList xs
  | .mapSlice kvs => wfItems kvs
  | .map _ _ kvs => keysOK kvs && wfVals kvs
def wfList : List GoVal → Bool
  | [] => true
  | x :: xs => wfE x && wfList xs
def wfItems : List (GoVal × GoVal) → Bool
  | [] => true
  | (k, v) :: r => wfE k && wfE v && wfItems r
def wfVals : List (GoVal × GoVal) → Bool
  | [] => true
  | (_, v) :: r => wfE v && wfVals r
end

theorem wfList_iff (xs : List GoVal) : wfList xs = true ↔ ∀ x ∈ xs, wfE x = true := by
  induction xs with
  | nil => simp [wfList]
  | cons x xs ih => simp [wfList, ih]

theorem wfItems_iff (kvs : List (GoVal × GoVal)) :
    wfItems kvs = true ↔ ∀ e ∈ kvs, wfE e.1 = true ∧ wfE e.2 = true := by
  induction kvs with
  | nil => simp [wfItems]
  | cons e kvs ih => obtain ⟨k, v⟩ := e; simp [wfItems, ih, and_assoc]

theorem wfVals_iff (kvs : List (GoVal × GoVal)) :
    wfVals kvs = true ↔ ∀ e ∈ kvs, wfE e.2 = true := by
  induction kvs with
  | nil => simp [wfVals]
  | cons e kvs ih => obtain ⟨k, v⟩ := e; simp [wfVals, ih]

theorem wfE_toLiq {a : GoVal} (h : wfE a = true) : wfE (toLiq a) = true ∧ isDropV (toLiq a) = false := by
  cases a with
  | drop v => cases v <;> simp_all [wfE, toLiq, isDropV]
  | _ => simp_all [wfE, toLiq, isDropV]

/-! ### computation of `equalTL` on containers -/

@[simp] theorem equalTL_slice_slice (t xs t' ys) : equalTL (.slice t xs) (.slice t' ys) =
    if xs.length != ys.length then .ok false else equalList xs ys := by
  simp [equalTL, equalBody, GoVal.isNil, rkind, seqView, seqK, seqVals]
@[simp] theorem equalTL_slice_array (t xs t' ys) : equalTL (.slice t xs) (.array t' ys) =
    if xs.length != ys.length then .ok false else equalList xs ys := by
  simp [equalTL, equalBody, GoVal.isNil, rkind, joinKind, seqView, seqK, seqVals]
@[simp] theorem equalTL_array_slice (t xs t' ys) : equalTL (.array t xs) (.slice t' ys) =
    if xs.length != ys.length then .ok false else equalList xs ys := by
  simp [equalTL, equalBody, GoVal.isNil, rkind, joinKind, seqView, seqK, seqVals]
@[simp] theorem equalTL_array_array (t xs t' ys) : equalTL (.array t xs) (.array t' ys) =
    if xs.length != ys.length then .ok false else equalList xs ys := by
  simp [equalTL, equalBody, GoVal.isNil, rkind, seqView, seqK, seqVals]
@[simp] theorem equalTL_slice_mapSlice (t xs kvs) : equalTL (.slice t xs) (.mapSlice kvs) =
    .ok (valsVsItems xs.length kvs.length) := by
  simp [equalTL, equalBody, GoVal.isNil, rkind, seqView, seqK, seqVals]
@[simp] theorem equalTL_array_mapSlice (t xs kvs) : equalTL (.array t xs) (.mapSlice kvs) =
    .ok (valsVsItems xs.length kvs.length) := by
  simp [equalTL, equalBody, GoVal.isNil, rkind, joinKind, seqView, seqK, seqVals]
@[simp] theorem equalTL_mapSlice_slice (t xs kvs) : equalTL (.mapSlice kvs) (.slice t xs) =
    .ok (valsVsItems xs.length kvs.length) := by
  simp [equalTL, equalBody, GoVal.isNil, rkind, seqView, seqK, seqItems]
@[simp] theorem equalTL_mapSlice_array (t xs kvs) : equalTL (.mapSlice kvs) (.array t xs) =
    .ok (valsVsItems xs.length kvs.length) := by
  simp [equalTL, equalBody, GoVal.isNil, rkind, joinKind, seqView, seqK, seqItems]
@[simp] theorem equalTL_mapSlice_mapSlice (kvs kvs') : equalTL (.mapSlice kvs) (.mapSlice kvs') =
    if kvs.length != kvs'.length then .ok false else equalItems kvs kvs' := by
  simp [equalTL, equalBody, GoVal.isNil, rkind, seqView, seqK, seqItems]
@[simp] theorem equalTL_map_map (kt vt kvs kt' vt' kvs') :
    equalTL (.map kt vt kvs) (.map kt' vt' kvs') =
    if kt != kt' || kvs.length != kvs'.length then .ok false else mapAll kvs kvs' := by
  simp [equalTL, equalBody, GoVal.isNil, rkind, mapView, mapK, mapEntries]

/-! ### the loops -/

def TotSym (x y : GoVal) : Prop := ∃ r, equal x y = .ok r ∧ equal y x = .ok r

theorem equalList_totSym (xs ys : List GoVal) (h : ∀ x ∈ xs, ∀ y ∈ ys, TotSym x y) :
    ∃ r, equalList xs ys = .ok r ∧ equalList ys xs = .ok r := by
  induction xs generalizing ys with
  | nil => exact ⟨true, by simp⟩
  | cons x xs ih =>
    cases ys with
    | nil => exact ⟨true, by simp⟩
    | cons y ys =>
      obtain ⟨r, h1, h2⟩ := h x (by simp) y (by simp)
      rw [equalList_cons, equalList_cons, h1, h2]
      cases r
      · exact ⟨false, by simp⟩
      · simpa using ih ys (fun x hx y hy => h x (by simp [hx]) y (by simp [hy]))

theorem equalItems_totSym (xs ys : List (GoVal × GoVal))
    (h : ∀ e ∈ xs, ∀ e' ∈ ys, TotSym e.1 e'.1 ∧ TotSym e.2 e'.2) :
    ∃ r, equalItems xs ys = .ok r ∧ equalItems ys xs = .ok r := by
  induction xs generalizing ys with
  | nil => exact ⟨true, by simp⟩
  | cons x xs ih =>
    obtain ⟨k, v⟩ := x
    cases ys with
    | nil => exact ⟨true, by simp⟩
    | cons y ys =>
      obtain ⟨k', v'⟩ := y
      obtain ⟨⟨rk, hk1, hk2⟩, ⟨rv, hv1, hv2⟩⟩ := h (k, v) (by simp) (k', v') (by simp)
      simp only at hk1 hk2 hv1 hv2
      rw [equalItems_cons, equalItems_cons, hk1, hk2]
      cases rk
      · exact ⟨false, by simp⟩
      · simp only [Res.bind_ok, if_true, hv1, hv2]
        cases rv
        · exact ⟨false, by simp⟩
        · simpa using ih ys (fun e he e' he' => h e (by simp [he]) e' (by simp [he']))

/-- `ok true` as a Boolean -/
def isTrue : R Bool → Bool
  | .ok true => true
  | _ => false

/-- every entry of `as` has its key in `bs`, with an `Equal` value -/
def allIn (as bs : List (GoVal × GoVal)) : Bool :=
  as.all fun e => match (toKey e.1).bind (fun k => lookupKey k bs) with
    | some v' => isTrue (equal e.2 v')
    | none => false

theorem lookupKey_some_mem {k : Key} {bs : List (GoVal × GoVal)} {v : GoVal}
    (h : lookupKey k bs = some v) : ∃ e ∈ bs, toKey e.1 = some k ∧ e.2 = v := by
  induction bs with
  | nil => simp [lookupKey] at h
  | cons e bs ih =>
    obtain ⟨k', v'⟩ := e
    simp only [lookupKey] at h
    split at h
    · rename_i hk
      cases h
      exact ⟨(k', v), by simp, hk, rfl⟩
    · obtain ⟨e, he, h1, h2⟩ := ih h
      exact ⟨e, by simp [he], h1, h2⟩

theorem lookupKey_of_mem_nodup {k : Key} {bs : List (GoVal × GoVal)} {e : GoVal × GoVal}
    (hn : (keyList bs).Nodup) (he : e ∈ bs) (hk : toKey e.1 = some k) : lookupKey k bs = some e.2 := by
  induction bs with
  | nil => simp at he
  | cons e' bs ih =>
    obtain ⟨k', v'⟩ := e'
    simp only [keyList, List.map_cons, List.nodup_cons] at hn
    simp only [lookupKey]
    rcases List.mem_cons.1 he with rfl | he'
    · simp [hk]
    · split
      · rename_i hk'
        exfalso
        apply hn.1
        rw [hk', ← hk]
        exact List.mem_map.2 ⟨e, he', rfl⟩
      · exact ih hn.2 he'

theorem lookupKey_isSome_of_mem {k : Key} {bs : List (GoVal × GoVal)}
    (h : some k ∈ keyList bs) : ∃ v, lookupKey k bs = some v := by
  induction bs with
  | nil => simp [keyList] at h
  | cons e bs ih =>
    obtain ⟨k', v'⟩ := e
    simp only [lookupKey]
    split
    · exact ⟨v', rfl⟩
    · rename_i hk
      simp only [keyList, List.map_cons, List.mem_cons] at h
      rcases h with h | h
      · exact absurd h.symm hk
      · exact ih h

/-- pigeonhole: a duplicate-free list included in a list that is not longer contains it -/
theorem subset_of_nodup_of_length_le {α} {l₁ l₂ : List α} (h₁ : l₁.Nodup) (hsub : l₁ ⊆ l₂)
    (hlen : l₂.length ≤ l₁.length) : l₂ ⊆ l₁ := by
  classical
  induction l₁ generalizing l₂ with
  | nil =>
    have : l₂ = [] := List.eq_nil_of_length_eq_zero (by simpa using hlen)
    simp [this]
  | cons a t ih =>
    rw [List.nodup_cons] at h₁
    have ha : a ∈ l₂ := hsub (List.mem_cons_self ..)
    have htsub : t ⊆ l₂.erase a := by
      intro x hx
      have hxa : x ≠ a := fun h => h₁.1 (h ▸ hx)
      exact (List.mem_erase_of_ne hxa).2 (hsub (List.mem_cons_of_mem _ hx))
    have hlen' : (l₂.erase a).length ≤ t.length := by
      rw [List.length_erase]; simp [ha]; simp at hlen; omega
    have := ih h₁.2 htsub hlen'
    intro y hy
    by_cases hya : y = a
    · simp [hya]
    · exact List.mem_cons_of_mem _ (this ((List.mem_erase_of_ne hya).2 hy))

theorem mapAll_eq_allIn (as bs : List (GoVal × GoVal))
    (hk : ∀ e ∈ as, (toKey e.1).isSome = true)
    (ht : ∀ e ∈ as, ∀ e' ∈ bs, ∃ r, equal e.2 e'.2 = .ok r) : mapAll as bs = .ok (allIn as bs) := by
  induction as with
  | nil => simp [allIn]
  | cons e as ih =>
    obtain ⟨k, v⟩ := e
    have hk0 := hk (k, v) (by simp)
    obtain ⟨kk, hkk⟩ := Option.isSome_iff_exists.1 hk0
    simp only at hkk
    have ih' := ih (fun e he => hk e (by simp [he])) (fun e he => ht e (by simp [he]))
    rw [mapAll_cons]
    simp only [mapIndex, hkk, Res.bind_ok, allIn, List.all_cons, Option.bind_some]
    cases hl : lookupKey kk bs with
    | none => simp
    | some v' =>
      obtain ⟨e', he', _, hv'⟩ := lookupKey_some_mem hl
      obtain ⟨r, hr⟩ := ht (k, v) (by simp) e' he'
      simp only [hv'] at hr
      simp only [hr, Res.bind_ok]
      cases r
      · simp [isTrue]
      · simpa [isTrue, allIn] using ih'

theorem allIn_imp (as bs : List (GoVal × GoVal))
    (hka : ∀ e ∈ as, (toKey e.1).isSome = true) (hkb : ∀ e ∈ bs, (toKey e.1).isSome = true)
    (hna : (keyList as).Nodup) (hnb : (keyList bs).Nodup) (hlen : bs.length ≤ as.length)
    (hs : ∀ e ∈ as, ∀ e' ∈ bs, isTrue (equal e.2 e'.2) = true → isTrue (equal e'.2 e.2) = true)
    (h : allIn as bs = true) : allIn bs as = true := by
  -- every key of `as` is a key of `bs`
  have hsub : keyList as ⊆ keyList bs := by
    intro ok hok
    obtain ⟨e, he, rfl⟩ := List.mem_map.1 hok
    have := List.all_eq_true.1 h e he
    obtain ⟨kk, hkk⟩ := Option.isSome_iff_exists.1 (hka e he)
    simp only [hkk, Option.bind_some] at this
    cases hl : lookupKey kk bs with
    | none => simp [hl] at this
    | some v' =>
      obtain ⟨e', he', hk', _⟩ := lookupKey_some_mem hl
      rw [hkk, ← hk']
      exact List.mem_map.2 ⟨e', he', rfl⟩
  have hsup : keyList bs ⊆ keyList as :=
    subset_of_nodup_of_length_le hna hsub (by simpa [keyList] using hlen)
  apply List.all_eq_true.2
  intro e' he'
  obtain ⟨kk, hkk⟩ := Option.isSome_iff_exists.1 (hkb e' he')
  simp only [hkk, Option.bind_some]
  have hmem : some kk ∈ keyList as := hsup (by rw [← hkk]; exact List.mem_map.2 ⟨e', he', rfl⟩)
  obtain ⟨va, hva⟩ := lookupKey_isSome_of_mem hmem
  obtain ⟨e, he, hke, hve⟩ := lookupKey_some_mem hva
  simp only [hva]
  -- the entry `e` of `as` finds `e'` in `bs`
  have h1 := List.all_eq_true.1 h e he
  simp only [hke, Option.bind_some, lookupKey_of_mem_nodup hnb he' hkk] at h1
  rw [← hve]
  exact hs e he e' he' h1

theorem keysOK_iff (kvs : List (GoVal × GoVal)) :
    keysOK kvs = true ↔ (∀ e ∈ kvs, (toKey e.1).isSome = true) ∧ (keyList kvs).Nodup := by
  simp only [keysOK, Bool.and_eq_true, List.all_eq_true, decide_eq_true_eq, keyList, List.mem_map]
  constructor
  · rintro ⟨h1, h2⟩
    exact ⟨fun e he => h1 _ ⟨e, he, rfl⟩, of_decide_eq_true h2⟩
  · rintro ⟨h1, h2⟩
    refine ⟨?_, decide_eq_true h2⟩
    rintro _ ⟨e, he, rfl⟩
    exact h1 e he

theorem mapAll_totSym (as bs : List (GoVal × GoVal)) (hka : keysOK as = true) (hkb : keysOK bs = true)
    (hlen : as.length = bs.length) (h : ∀ e ∈ as, ∀ e' ∈ bs, TotSym e.2 e'.2) :
    ∃ r, mapAll as bs = .ok r ∧ mapAll bs as = .ok r := by
  rw [keysOK_iff] at hka hkb
  have e1 := mapAll_eq_allIn as bs hka.1 (fun e he e' he' => by
    obtain ⟨r, h1, _⟩ := h e he e' he'; exact ⟨r, h1⟩)
  have e2 := mapAll_eq_allIn bs as hkb.1 (fun e' he' e he => by
    obtain ⟨r, _, h2⟩ := h e he e' he'; exact ⟨r, h2⟩)
  refine ⟨allIn as bs, e1, ?_⟩
  rw [e2]
  congr 1
  have f1 : allIn as bs = true → allIn bs as = true :=
    allIn_imp as bs hka.1 hkb.1 hka.2 hkb.2 (by omega) (fun e he e' he' ht => by
      obtain ⟨r, h1, h2⟩ := h e he e' he'
      rw [h1] at ht; rw [h2]; exact ht)
  have f2 : allIn bs as = true → allIn as bs = true :=
    allIn_imp bs as hkb.1 hka.1 hkb.2 hka.2 (by omega) (fun e' he' e he ht => by
      obtain ⟨r, h1, h2⟩ := h e he e' he'
      rw [h2] at ht; rw [h1]; exact ht)
  exact Bool.eq_iff_iff.2 ⟨f2, f1⟩

theorem cmpIntSpec_eq_symm (k n k' m) :
    (cmpIntSpec k n k' m == .eq) = (cmpIntSpec k' m k n == .eq) := by
  have hc : (compare n m == Ordering.eq) = (compare m n == Ordering.eq) := by
    have h1 : ∀ x y : Int, (compare x y == Ordering.eq) = decide (x = y) := by
      intro x y; rw [Bool.eq_iff_iff]; simp [Int.compare_eq_eq]
    rw [h1, h1]; exact decide_eq_decide.2 eq_comm
  unfold cmpIntSpec
  cases k.isSigned <;> cases k'.isSigned <;> simp only [Bool.not_true, Bool.not_false, Bool.true_and, Bool.false_and, Bool.and_true, Bool.and_false, Bool.false_eq_true, if_false, decide_eq_true_eq]
  · exact hc
  · by_cases hm : m < 0 <;> simp [hm, hc]
  · by_cases hn : n < 0 <;> simp [hn, hc]
  · exact hc

theorem beq_and_comm (a a' b b' : Int) : (a == a' && b == b') = (a' == a && b' == b) := by
  rw [BEq.comm (a := a), BEq.comm (a := b)]

/-- totality and symmetry of `Equal` on operands that went through `ToLiquid` -/
theorem equalTL_totSym : ∀ a : GoVal, wfE a = true → isDropV a = false →
    ∀ b, wfE b = true → isDropV b = false → ∃ r, equalTL a b = .ok r ∧ equalTL b a = .ok r := by
  apply sizeInduction
  intro a ih ha hda b hb hdb
  have elem : ∀ x : GoVal, sizeOf x < sizeOf a → wfE x = true → ∀ y, wfE y = true → TotSym x y := by
    intro x hx hwx y hwy
    unfold TotSym
    rw [equal_eq, equal_eq]
    exact ih (toLiq x) (by have := sizeOf_toLiq_le x; omega) (wfE_toLiq hwx).1 (wfE_toLiq hwx).2
      (toLiq y) (wfE_toLiq hwy).1 (wfE_toLiq hwy).2
  have seqs : ∀ xs ys : List GoVal, (∀ x ∈ xs, sizeOf x < sizeOf a) → wfList xs = true → wfList ys = true →
      ∃ r, (if xs.length != ys.length then Res.ok false else equalList xs ys) = Res.ok r ∧
        (if ys.length != xs.length then Res.ok false else equalList ys xs) = (Res.ok r : R Bool) := by
    intro xs ys hsz hx hy
    rw [wfList_iff] at hx hy
    by_cases hl : xs.length = ys.length
    · simpa [hl] using equalList_totSym xs ys (fun x hx' y hy' => elem x (hsz x hx') (hx x hx') y (hy y hy'))
    · have hl' : ¬ ys.length = xs.length := fun h => hl h.symm
      exact ⟨false, by simp [hl], by simp [hl']⟩
  cases a <;> cases b <;>
    (try (first | (simp [wfE] at ha; done) | (simp [wfE] at hb; done) | (simp [isDropV] at hda; done)
                | (simp [isDropV] at hdb; done))) <;>
    (try simp only [equalTL_slice_slice, equalTL_slice_array, equalTL_array_slice, equalTL_array_array,
      equalTL_slice_mapSlice, equalTL_array_mapSlice, equalTL_mapSlice_slice, equalTL_mapSlice_array,
      equalTL_mapSlice_mapSlice, equalTL_map_map])
  case slice.slice t xs t' ys => simp only [wfE] at ha hb; exact seqs xs ys (fun x hx => sizeOf_lt_of_mem_slice hx) ha hb
  case slice.array t xs t' ys => simp only [wfE] at ha hb; exact seqs xs ys (fun x hx => sizeOf_lt_of_mem_slice hx) ha hb
  case array.slice t xs t' ys => simp only [wfE] at ha hb; exact seqs xs ys (fun x hx => sizeOf_lt_of_mem_array hx) ha hb
  case array.array t xs t' ys => simp only [wfE] at ha hb; exact seqs xs ys (fun x hx => sizeOf_lt_of_mem_array hx) ha hb
  case slice.mapSlice => exact ⟨_, rfl, rfl⟩
  case array.mapSlice => exact ⟨_, rfl, rfl⟩
  case mapSlice.slice => exact ⟨_, rfl, rfl⟩
  case mapSlice.array => exact ⟨_, rfl, rfl⟩
  case mapSlice.mapSlice kvs kvs' =>
    simp only [wfE] at ha hb
    rw [wfItems_iff] at ha hb
    by_cases hl : kvs.length = kvs'.length
    · simpa [hl] using equalItems_totSym kvs kvs' (fun e he e' he' =>
        ⟨elem e.1 (sizeOf_lt_of_mem_mapSlice he).1 (ha e he).1 e'.1 (hb e' he').1,
         elem e.2 (sizeOf_lt_of_mem_mapSlice he).2 (ha e he).2 e'.2 (hb e' he').2⟩)
    · have hl' : ¬ kvs'.length = kvs.length := fun h => hl h.symm
      exact ⟨false, by simp [hl], by simp [hl']⟩
  case map.map kt vt kvs kt' vt' kvs' =>
    simp only [wfE, Bool.and_eq_true] at ha hb
    have hva := (wfVals_iff kvs).1 ha.2
    have hvb := (wfVals_iff kvs').1 hb.2
    by_cases hkt : kt = kt'
    · by_cases hl : kvs.length = kvs'.length
      · subst hkt
        simpa [hl] using mapAll_totSym kvs kvs' ha.1 hb.1 hl (fun e he e' he' =>
          elem e.2 (sizeOf_lt_of_mem_map he).2 (hva e he) e'.2 (hvb e' he'))
      · have hl' : ¬ kvs'.length = kvs.length := fun h => hl h.symm
        exact ⟨false, by simp [hl], by simp [hl']⟩
    · have hkt' : ¬ kt' = kt := fun h => hkt h.symm
      exact ⟨false, by simp [hkt], by simp [hkt']⟩
  all_goals
    simp only [equalTL, equalBody, rkind, joinKind_int_int, joinKind_flt_flt, joinKind_int_flt,
      joinKind_flt_int, joinKind_self]
    simp [GoVal.isNil, joinKind, RKind.isInt, RKind.isFloat, rBool, rFloat64,
      rString, safeEqual, structTag, comparableV, goEq, seqView, mapView, seqK, mapK, noSeq, noMap,
      cmpIntSpec_eq_symm, rkind]
    first
      | done
      | exact BEq.comm
      | exact beq_and_comm _ _ _ _

/-- on well-formed operands `Equal` returns a Boolean, the same in both orders -/
theorem equal_totSym {a b : GoVal} (ha : wfE a = true) (hb : wfE b = true) :
    ∃ r, equal a b = .ok r ∧ equal b a = .ok r := by
  rw [equal_eq, equal_eq]
  exact equalTL_totSym _ (wfE_toLiq ha).1 (wfE_toLiq ha).2 _ (wfE_toLiq hb).1 (wfE_toLiq hb).2


/-! ### reflexivity -/

theorem equalList_refl (xs : List GoVal) (h : ∀ x ∈ xs, equal x x = .ok true) :
    equalList xs xs = .ok true := by
  induction xs with
  | nil => simp
  | cons x xs ih =>
    rw [equalList_cons, h x (by simp)]
    simpa using ih (fun x hx => h x (by simp [hx]))

theorem equalItems_refl (xs : List (GoVal × GoVal))
    (h : ∀ e ∈ xs, equal e.1 e.1 = .ok true ∧ equal e.2 e.2 = .ok true) :
    equalItems xs xs = .ok true := by
  induction xs with
  | nil => simp
  | cons x xs ih =>
    obtain ⟨k, v⟩ := x
    have := h (k, v) (by simp)
    rw [equalItems_cons, this.1]
    simp only [Res.bind_ok, if_true, this.2]
    exact ih (fun e he => h e (by simp [he]))

theorem mapAll_true (xs bs : List (GoVal × GoVal))
    (h : ∀ e ∈ xs, ∃ kk, toKey e.1 = some kk ∧ lookupKey kk bs = some e.2 ∧ equal e.2 e.2 = .ok true) :
    mapAll xs bs = .ok true := by
  induction xs with
  | nil => simp
  | cons x xs ih =>
    obtain ⟨k, v⟩ := x
    obtain ⟨kk, h1, h2, h3⟩ := h (k, v) (by simp)
    simp only at h1 h2 h3
    rw [mapAll_cons]
    simp only [mapIndex, h1, Res.bind_ok, h2, h3, if_true]
    exact ih (fun e he => h e (by simp [he]))

theorem mapAll_refl (as : List (GoVal × GoVal)) (hk : keysOK as = true)
    (h : ∀ e ∈ as, equal e.2 e.2 = .ok true) : mapAll as as = .ok true := by
  rw [keysOK_iff] at hk
  apply mapAll_true
  intro e he
  obtain ⟨kk, hkk⟩ := Option.isSome_iff_exists.1 (hk.1 e he)
  exact ⟨kk, hkk, lookupKey_of_mem_nodup hk.2 he hkk, h e he⟩

theorem cmpIntSpec_self (k n) : cmpIntSpec k n k n = .eq := by
  unfold cmpIntSpec
  cases k.isSigned <;> simp [Int.compare_eq_eq]

theorem equalTL_refl : ∀ a : GoVal, wfE a = true → isDropV a = false → equalTL a a = .ok true := by
  apply sizeInduction
  intro a ih ha hda
  have elem : ∀ x : GoVal, sizeOf x < sizeOf a → wfE x = true → equal x x = .ok true := by
    intro x hx hwx
    rw [equal_eq]
    exact ih (toLiq x) (by have := sizeOf_toLiq_le x; omega) (wfE_toLiq hwx).1 (wfE_toLiq hwx).2
  cases a <;>
    (try (first | (simp [wfE] at ha; done) | (simp [isDropV] at hda; done)))
  case slice t xs =>
    simp only [wfE, wfList_iff] at ha
    simpa using equalList_refl xs (fun x hx => elem x (sizeOf_lt_of_mem_slice hx) (ha x hx))
  case array t xs =>
    simp only [wfE, wfList_iff] at ha
    simpa using equalList_refl xs (fun x hx => elem x (sizeOf_lt_of_mem_array hx) (ha x hx))
  case mapSlice kvs =>
    simp only [wfE, wfItems_iff] at ha
    simpa using equalItems_refl kvs (fun e he =>
      ⟨elem e.1 (sizeOf_lt_of_mem_mapSlice he).1 (ha e he).1, elem e.2 (sizeOf_lt_of_mem_mapSlice he).2 (ha e he).2⟩)
  case map kt vt kvs =>
    simp only [wfE, Bool.and_eq_true, wfVals_iff] at ha
    simpa using mapAll_refl kvs ha.1 (fun e he => elem e.2 (sizeOf_lt_of_mem_map he).2 (ha.2 e he))
  all_goals
    simp only [equalTL, equalBody, rkind, joinKind_self]
    simp [GoVal.isNil, rBool, rFloat64, rString, safeEqual, structTag, comparableV, goEq,
      cmpIntSpec_self, rkind]

/-- `Equal(a, a)` is true for a well-formed operand -/
theorem equal_refl_wf {a : GoVal} (ha : wfE a = true) : equal a a = .ok true := by
  rw [equal_eq]
  exact equalTL_refl _ (wfE_toLiq ha).1 (wfE_toLiq ha).2

/-! ## G. what an operator sees of an operand -/

/-- `Interface()` of a wrapper that is not a `dropWrapper` -/
def iface0 : Wrapper → GoVal
  | .wrapper v | .array v | .map v | .string v | .struct v => v
  | .mapSlice kvs => .mapSlice kvs
  | .drop d => d

theorem iface_eq (w : Wrapper) : w.iface = iface0 w.resolve := by
  unfold Wrapper.iface iface0
  cases w.resolve <;> rfl

theorem valueOf_resolve : ∀ x : GoVal, (valueOf x).resolve = resolveVal x := by
  apply sizeInduction
  intro a ih
  cases a with
  | ptr v =>
    cases v <;> simp only [valueOf, resolveVal, isStructKind, Bool.false_eq_true, if_false, if_true, Wrapper.resolve] <;>
      first
        | rfl
        | (apply ih; simp; done)
  | _ => simp [valueOf, resolveVal, Wrapper.resolve]

/-- The value an operator works on when its operand is the variable `a`: `ctx.Get` applies
`ToLiquid`, `ValueOf` dereferences pointers and wraps drops, and the wrapper methods go through
`Resolve()` / `Interface()`. -/
def strip (a : GoVal) : GoVal := (operand a).iface

theorem strip_eq (a : GoVal) : strip a = iface0 (resolveVal (toLiq a)) := by
  unfold strip operand
  rw [iface_eq, valueOf_resolve]

theorem toLiq_iface0_resolveVal : ∀ v : GoVal, toLiq (iface0 (resolveVal v)) = iface0 (resolveVal v) := by
  apply sizeInduction
  intro a ih
  cases a with
  | drop v => simp only [resolveVal]; exact ih v (by simp)
  | ptr v =>
    cases v <;> simp only [resolveVal, isStructKind, Bool.false_eq_true, if_false, if_true] <;>
      first
        | rfl
        | (apply ih; simp; done)
        | (apply ih; simp; omega)
  | _ => simp [resolveVal, valueOf, iface0, toLiq]

/-- an operand has been through `ToLiquid` already -/
theorem toLiq_strip (a : GoVal) : toLiq (strip a) = strip a := by
  rw [strip_eq]; exact toLiq_iface0_resolveVal _

theorem opEq_eq (a b : GoVal) : opEq a b = equalTL (strip a) (strip b) := by
  show (operand a).equal (operand b) = _
  rw [Wrapper.equal_eq, equal_eq]
  show equalTL (toLiq (strip a)) (toLiq (strip b)) = _
  rw [toLiq_strip, toLiq_strip]

theorem opLt_eq (a b : GoVal) : opLt a b = lessTL (strip a) (strip b) := by
  show (operand a).less (operand b) = _
  rw [Wrapper.less_eq]
  show lessTL (toLiq (strip a)) (toLiq (strip b)) = _
  rw [toLiq_strip, toLiq_strip]

/-- the kinds of value the property speaks about -/
inductive Kind where
  | nil | bool | number | string | array | map | other
  deriving DecidableEq, Repr

def kindOf : GoVal → Kind
  | .nil => .nil
  | .bool _ => .bool
  | .int _ _ | .flt _ _ => .number
  | .str _ => .string
  | .slice _ _ | .array _ _ | .bytes _ => .array
  | .map _ _ _ | .keyedMap _ => .map
  | _ => .other

/-- well-formed operand: what the operator sees of it is well-formed (see `wfE`) -/
def WF (a : GoVal) : Prop := wfE (strip a) = true

theorem equalTL_kind {x y : GoVal} (hk : kindOf x ≠ kindOf y) (hx : kindOf x ≠ .other)
    (hy : kindOf y ≠ .other) : equalTL x y = .ok false := by
  cases x <;> cases y <;> simp only [kindOf, ne_eq, not_true_eq_false, reduceCtorEq, not_false_eq_true] at hk hx hy <;>
    simp [equalTL, equalBody, GoVal.isNil, rkind, joinKind, RKind.isInt, RKind.isFloat, safeEqual, structTag]

theorem lessTL_kind {x y : GoVal} (hk : kindOf x ≠ kindOf y) (hx : kindOf x ≠ .other)
    (hy : kindOf y ≠ .other) : lessTL x y = .ok false := by
  cases x <;> cases y <;> simp only [kindOf, ne_eq, not_true_eq_false, reduceCtorEq, not_false_eq_true] at hk hx hy <;>
    simp [lessTL, GoVal.isNil, rkind, joinKind, RKind.isInt, RKind.isFloat]

theorem equalTL_nil_right (x : GoVal) : equalTL x .nil = .ok x.isNil := by
  cases x <;> simp [equalTL, equalBody, GoVal.isNil]
theorem equalTL_nil_left (x : GoVal) : equalTL .nil x = .ok x.isNil := by
  cases x <;> simp [equalTL, equalBody, GoVal.isNil]

theorem lessTL_nil {x y : GoVal} (h : x.isNil = true ∨ y.isNil = true) : lessTL x y = .ok false := by
  unfold lessTL
  rcases h with h | h <;> simp [h]

theorem equalList_true_iff (xs ys : List GoVal) (hl : xs.length = ys.length) :
    equalList xs ys = .ok true ↔
      ∀ i (h : i < xs.length) (h' : i < ys.length), equal xs[i] ys[i] = .ok true := by
  induction xs generalizing ys with
  | nil => simp
  | cons x xs ih =>
    cases ys with
    | nil => simp at hl
    | cons y ys =>
      simp only [List.length_cons, Nat.add_right_cancel_iff] at hl
      rw [equalList_cons]
      constructor
      · intro h i hi hi'
        cases hxy : equal x y with
        | ok r =>
          rw [hxy] at h
          cases r
          · simp at h
          · cases i with
            | zero => simpa using hxy
            | succ i =>
              simp only [Res.bind_ok, if_true] at h
              simpa using (ih ys hl).1 h i (by simpa using hi) (by simpa using hi')
        | err e => simp [hxy] at h
        | panic w => simp [hxy] at h
        | unmodelled w => simp [hxy] at h
      · intro h
        have h0 := h 0 (by simp) (by simp)
        simp only [List.getElem_cons_zero] at h0
        rw [h0]
        simp only [Res.bind_ok, if_true]
        exact (ih ys hl).2 (fun i hi hi' => by
          have := h (i + 1) (by simpa using hi) (by simpa using hi')
          simpa only [List.getElem_cons_succ] using this)

/-- the elements of an array or slice -/
def seqElems : GoVal → Option (List GoVal)
  | .slice _ xs | .array _ xs => some xs
  | _ => none

theorem equalTL_seq {x y : GoVal} {xs ys : List GoVal} (hx : seqElems x = some xs)
    (hy : seqElems y = some ys) :
    equalTL x y = if xs.length != ys.length then .ok false else equalList xs ys := by
  cases x <;> simp [seqElems] at hx <;> cases y <;> simp [seqElems] at hy <;> subst hx <;> subst hy <;> simp

/-! ### numbers -/

def numVal : GoVal → Option Rat
  | .int _ n => some n
  | .flt _ q => some q
  | _ => none

/-- the value of a number after conversion to the join type with `other` (`README`: "integers
and floats are converted to their join type"): integers stay exact among integers, everything
becomes a `float64` when a float is involved -/
def joinVal (x other : GoVal) : Option Rat :=
  match x, other with
  | .int _ n, .int _ _ => some n
  | .int _ n, .flt _ _ => some (f64OfInt n : Int)
  | .flt _ q, .int _ _ => some q
  | .flt _ q, .flt _ _ => some q
  | _, _ => none

def isFltV : GoVal → Bool
  | .flt _ _ => true
  | _ => false

/-- integers hold values of their kind (an unsigned kind no negative value) -/
def numOK (x : GoVal) : Prop :=
  (match x with
   | .int k n => k.isSigned || decide (0 ≤ n)
   | _ => true) = true

/-- an integer compared with a float is within the range `float64` represents exactly -/
def numExact (x other : GoVal) : Prop :=
  (match x with
   | .int _ n => !isFltV other || decide (n.natAbs ≤ 2 ^ 53)
   | _ => true) = true

instance (x : GoVal) : Decidable (numOK x) := by unfold numOK; infer_instance
instance (x y : GoVal) : Decidable (numExact x y) := by unfold numExact; infer_instance

theorem intOK_of_numOK {k n} (h : numOK (.int k n)) : intOK k n := by
  intro hk
  simpa [numOK, hk] using h

theorem f64OfInt_exact {n : Int} (h : n.natAbs ≤ 2 ^ 53) : f64OfInt n = n := by
  unfold f64OfInt roundF64Nat
  simp only [h, if_true]
  split <;> omega

theorem joinVal_exact {x y : GoVal} {q : Rat} (h : numVal x = some q) (hy : (numVal y).isSome = true)
    (he : numExact x y) : joinVal x y = some q := by
  cases x <;> simp [numVal] at h <;> cases y <;> simp [numVal] at hy <;>
    simp_all [joinVal, numExact, f64OfInt_exact, isFltV]

theorem compare_eq_iff_int (n m : Int) : (compare n m == Ordering.eq) = decide ((n : Rat) = (m : Rat)) := by
  rw [Bool.eq_iff_iff]; simp [Int.compare_eq_eq]

theorem compare_lt_iff_int (n m : Int) : (compare n m == Ordering.lt) = decide ((n : Rat) < (m : Rat)) := by
  rw [Bool.eq_iff_iff]; simp [Int.compare_eq_lt, Rat.intCast_lt_intCast]

theorem rat_beq (p q : Rat) : (p == q) = decide (p = q) := by
  rw [Bool.eq_iff_iff]; simp

theorem equalTL_num {x y : GoVal} {p q : Rat} (hx : joinVal x y = some p) (hy : joinVal y x = some q)
    (ox : numOK x) (oy : numOK y) : equalTL x y = .ok (decide (p = q)) := by
  cases x <;> simp [joinVal] at hx <;> cases y <;> simp [joinVal] at hy hx <;> subst hx <;> subst hy <;>
    simp only [equalTL, equalBody, rkind, joinKind_int_int, joinKind_flt_flt, joinKind_int_flt, joinKind_flt_int] <;>
    first
      | simp [GoVal.isNil, rFloat64, cmpIntSpec_eq_compare (intOK_of_numOK ox) (intOK_of_numOK oy), compare_eq_iff_int]
      | simp [GoVal.isNil, rFloat64, rat_beq]

theorem lessTL_num {x y : GoVal} {p q : Rat} (hx : joinVal x y = some p) (hy : joinVal y x = some q)
    (ox : numOK x) (oy : numOK y) : lessTL x y = .ok (decide (p < q)) := by
  cases x <;> simp [joinVal] at hx <;> cases y <;> simp [joinVal] at hy hx <;> subst hx <;> subst hy <;>
    simp only [lessTL, rkind, joinKind_int_int, joinKind_flt_flt, joinKind_int_flt, joinKind_flt_int] <;>
    first
      | simp [GoVal.isNil, rFloat64, cmpIntSpec_eq_compare (intOK_of_numOK ox) (intOK_of_numOK oy), compare_lt_iff_int]
      | simp [GoVal.isNil, rFloat64]

theorem lessTL_str (s t : Bytes) : lessTL (.str s) (.str t) = .ok (decide (s < t)) := by
  simp [lessTL, GoVal.isNil, rkind, rString, bytesLt]

/-! ### contains -/

theorem containsB_iff (s sub : Bytes) : containsB s sub = true ↔ sub <:+: s := by
  induction s with
  | nil =>
    unfold containsB
    simp [isPrefixOfB_iff, List.prefix_nil, List.infix_nil]
  | cons c s ih =>
    unfold containsB
    simp only [Bool.or_eq_true, isPrefixOfB_iff, ih]
    constructor
    · rintro (h | h)
      · exact h.isInfix
      · exact List.infix_cons h
    · intro h
      rcases List.infix_cons_iff.1 h with h | h
      · exact Or.inl h
      · exact Or.inr h

theorem containsList_true_iff (xs : List GoVal) (e : GoVal)
    (h : ∀ x ∈ xs, (equal x e).isOk = true) :
    containsList xs e = .ok true ↔ ∃ x ∈ xs, equal x e = .ok true := by
  induction xs with
  | nil => simp [containsList]
  | cons x xs ih =>
    have hx := h x (by simp)
    simp only [containsList, Res.bind_eq]
    cases hxe : equal x e with
    | ok r =>
      cases r
      · simp only [Res.bind_ok, Bool.false_eq_true, if_false]
        rw [ih (fun y hy => h y (by simp [hy]))]
        simp [hxe]
      · simp [hxe]
    | err _ => simp [hxe, Res.isOk] at hx
    | panic _ => simp [hxe, Res.isOk] at hx
    | unmodelled _ => simp [hxe, Res.isOk] at hx

/-! ## H. which wrapper answers for an operand -/

/-- the wrapper `ValueOf` chooses for a value that is neither a drop nor a pointer to dereference -/
def wrapOf : GoVal → Wrapper
  | .ptr w => .struct (.ptr w)
  | v => valueOf v

/-- what `Interface()` can return: never a drop or a nil pointer, and a pointer only to a struct -/
def stripped : GoVal → Bool
  | .drop _ => false
  | .nilPtr => false
  | .ptr w => isStructKind w && !isDropV w
  | _ => true

theorem resolveVal_wrapOf : ∀ x : GoVal, resolveVal x = wrapOf (iface0 (resolveVal x)) ∧
    stripped (iface0 (resolveVal x)) = true := by
  apply sizeInduction
  intro a ih
  cases a with
  | drop v => simp only [resolveVal]; exact ih v (by simp)
  | ptr v =>
    cases v <;> simp only [resolveVal, isStructKind, Bool.false_eq_true, if_false, if_true] <;>
      first
        | exact ⟨rfl, rfl⟩
        | (apply ih; simp; done)
        | (apply ih; simp; omega)
  | _ => simp [resolveVal, valueOf, iface0, wrapOf, stripped]

/-- the wrapper that answers the methods of operand `a` is determined by what the operator sees -/
theorem operand_resolve (a : GoVal) : (operand a).resolve = wrapOf (strip a) := by
  rw [strip_eq]
  unfold operand
  rw [valueOf_resolve]
  exact (resolveVal_wrapOf _).1

theorem stripped_strip (a : GoVal) : stripped (strip a) = true := by
  rw [strip_eq]; exact (resolveVal_wrapOf _).2

theorem operand_iface (b : GoVal) : (operand b).iface = strip b := rfl

theorem opContains_eq (a b : GoVal) : opContains a b = containsW (wrapOf (strip a)) (strip b) := by
  show (operand a).contains (operand b) = _
  unfold Wrapper.contains
  rw [operand_resolve, operand_iface]

theorem lookupKey_isSome_iff (k : Key) (kvs : List (GoVal × GoVal)) :
    (lookupKey k kvs).isSome = true ↔ some k ∈ keyList kvs := by
  constructor
  · intro h
    obtain ⟨v, hv⟩ := Option.isSome_iff_exists.1 h
    obtain ⟨e, he, hk, _⟩ := lookupKey_some_mem hv
    rw [← hk]; exact List.mem_map.2 ⟨e, he, rfl⟩
  · intro h
    obtain ⟨v, hv⟩ := lookupKey_isSome_of_mem h
    simp [hv]

theorem truthy_eq (a : GoVal) : truthy a =
    .ok (!(strip a).isNil && !isFalseV (strip a)) := by
  show (operand a).test = _
  unfold Wrapper.test
  rw [operand_resolve]
  have h := stripped_strip a
  generalize strip a = x at *
  cases x <;> simp [stripped] at h <;> simp [wrapOf, valueOf, GoVal.isNil, isFalseV]


/-! ## I. decidability, for the concrete examples next to the theorems -/

deriving instance DecidableEq for Res

instance (a : GoVal) : Decidable (WF a) := inferInstanceAs (Decidable (wfE (strip a) = true))

end Cmp
