import Proofs.MapPermUniq
/-!
# `sort`, `sort_natural` and the order of map entries (helper lemmas for C02)

Both filters order whole elements: by `values.Less` (or by an entry of each element, found by key) and
by the printed text. Neither sees the order of map entries (`lessTL_mp`, `mapFind_mp`, `sprint_mp`),
so the two runs of Go's insertion sort make the same comparisons with the same answers and move
related elements alike (`insertionSortM_mp`); beyond 12 elements the merge sort of the model is the
same permutation of both lists (`mergeSort_mp`).
-/

open GoVal MapOrder Cmp ArrF

/-! ## Sorting two related lists with a comparator that does not tell them apart -/

theorem insertRevM_mp {less : GoVal → GoVal → Res Cause Bool}
    (hl : ∀ a a' b b', MP a a' → MP b b' → RRel true Eq (less a b) (less a' b'))
    {x x' : GoVal} (hx : MP x x') :
    ∀ {rev rev' : List GoVal}, MPL rev rev' → RRel true MPL (insertRevM less x rev) (insertRevM less x' rev')
  | _, _, .nil => by simp only [insertRevM]; exact MPL.cons hx .nil
  | _, _, .cons hy h => by
    simp only [insertRevM]
    refine RRel.bind (hl _ _ _ _ hx hy) (fun b b' e => ?_)
    subst e
    cases b with
    | true =>
      simp only [if_true]
      exact RRel.bind (insertRevM_mp hl hx h) (fun r r' hr => MPL.cons hy hr)
    | false => simp only [Bool.false_eq_true, if_false]; exact MPL.cons hx (.cons hy h)

theorem insertionLoopM_mp {less : GoVal → GoVal → Res Cause Bool}
    (hl : ∀ a a' b b', MP a a' → MP b b' → RRel true Eq (less a b) (less a' b')) :
    ∀ {rest rest' : List GoVal}, MPL rest rest' → ∀ {rev rev' : List GoVal}, MPL rev rev' →
      RRel true MPL (insertionLoopM less rev rest) (insertionLoopM less rev' rest')
  | _, _, .nil, _, _, hr => by simp only [insertionLoopM]; exact hr.reverse
  | _, _, .cons hx h, _, _, hr => by
    simp only [insertionLoopM]
    exact RRel.bind (insertRevM_mp hl hx hr) (fun r r' hrr => insertionLoopM_mp hl h hrr)

theorem insertionSortM_mp {less : GoVal → GoVal → Res Cause Bool}
    (hl : ∀ a a' b b', MP a a' → MP b b' → RRel true Eq (less a b) (less a' b'))
    {xs xs' : List GoVal} (h : MPL xs xs') : RRel true MPL (insertionSortM less xs) (insertionSortM less xs') :=
  insertionLoopM_mp hl h .nil

/-- pairs of related values -/
def MPPair (p : GoVal × GoVal) : Prop := MP p.1 p.2

theorem zip_of_mpl : ∀ {xs ys : List GoVal}, MPL xs ys →
    ∃ l : List (GoVal × GoVal), l.map (·.1) = xs ∧ l.map (·.2) = ys ∧ ∀ p ∈ l, MPPair p
  | _, _, .nil => ⟨[], rfl, rfl, fun _ h => by cases h⟩
  | _, _, @MPL.cons x y xs ys hx h => by
    obtain ⟨l, h1, h2, h3⟩ := zip_of_mpl h
    refine ⟨(x, y) :: l, by simp [h1], by simp [h2], ?_⟩
    intro p hp
    rcases List.mem_cons.mp hp with rfl | hp
    · exact hx
    · exact h3 p hp

theorem mpl_of_zip : ∀ (l : List (GoVal × GoVal)), (∀ p ∈ l, MPPair p) → MPL (l.map (·.1)) (l.map (·.2))
  | [], _ => .nil
  | p :: l, h => .cons (h p List.mem_cons_self) (mpl_of_zip l (fun q hq => h q (List.mem_cons_of_mem _ hq)))

/-- a merge sort by an order that does not tell related values apart permutes two related lists alike -/
theorem mergeSort_mp (le : GoVal → GoVal → Bool) (hle : ∀ a a' b b', MP a a' → MP b b' → le a b = le a' b')
    {xs ys : List GoVal} (h : MPL xs ys) : MPL (xs.mergeSort le) (ys.mergeSort le) := by
  obtain ⟨l, h1, h2, h3⟩ := zip_of_mpl h
  let le' : GoVal × GoVal → GoVal × GoVal → Bool := fun p q => le p.1 q.1
  have e1 : (l.mergeSort le').map (·.1) = xs.mergeSort le := by
    rw [List.map_mergeSort (r := le') (s := le) (f := fun p : GoVal × GoVal => p.1) (fun a _ b _ => rfl), h1]
  have e2 : (l.mergeSort le').map (·.2) = ys.mergeSort le := by
    rw [List.map_mergeSort (r := le') (s := le) (f := fun p : GoVal × GoVal => p.2)
      (fun a ha b hb => hle a.1 a.2 b.1 b.2 (h3 a ha) (h3 b hb)), h2]
  rw [← e1, ← e2]
  exact mpl_of_zip _ (fun p hp => h3 p ((List.mergeSort_perm l le').subset hp))

/-! ## `values.Less`, the sort keys -/

theorem less_mp {a a' b b' : GoVal} (ha : MP a a') (hb : MP b b') : Cmp.less a b = Cmp.less a' b' := by
  unfold Cmp.less
  rw [lessTL_mp (toLiq_mp ha) (toLiq_mp hb)]

theorem lessB_mp {a a' b b' : GoVal} (ha : MP a a') (hb : MP b b') : lessB a b = lessB a' b' := by
  unfold lessB; rw [less_mp ha hb]

theorem sortLe_mp {a a' b b' : GoVal} (ha : MP a a') (hb : MP b b') : sortLe a b = sortLe a' b' := by
  unfold sortLe; rw [lessB_mp hb ha]

theorem kclass_mp {x x' : GoVal} (h : MP x x') : kclass x = kclass x' := by
  unfold kclass
  have := toLiq_mp h
  generalize toLiq x = u at this
  generalize toLiq x' = u' at this
  cases this <;> rfl

theorem smallNum_mp {x x' : GoVal} (h : MP x x') : smallNum x = smallNum x' := by
  unfold smallNum
  have := toLiq_mp h
  generalize toLiq x = u at this
  generalize toLiq x' = u' at this
  cases this <;> rfl

theorem all_mp {p : GoVal → Bool} (hp : ∀ x x', MP x x' → p x = p x') : ∀ {xs ys : List GoVal}, MPL xs ys → xs.all p = ys.all p
  | _, _, .nil => rfl
  | _, _, .cons hx h => by simp only [List.all_cons, hp _ _ hx, all_mp hp h]

theorem homog_mp {xs ys : List GoVal} (h : MPL xs ys) : homog xs = homog ys := by
  unfold homog
  rw [all_mp (p := isClass .int) (fun x x' hx => by simp [isClass, kclass_mp hx]) h,
    all_mp (p := smallNum) (fun x x' hx => smallNum_mp hx) h,
    all_mp (p := isClass .str) (fun x x' hx => by simp [isClass, kclass_mp hx]) h,
    all_mp (p := isClass .bool) (fun x x' hx => by simp [isClass, kclass_mp hx]) h,
    all_mp (p := isClass .nil) (fun x x' hx => by simp [isClass, kclass_mp hx]) h,
    all_mp (p := isClass .other) (fun x x' hx => by simp [isClass, kclass_mp hx]) h]

theorem tiesVisible_mp (le : GoVal → GoVal → Bool) (hle : ∀ a a' b b', MP a a' → MP b b' → le a b = le a' b') :
    ∀ {ys ys' : List GoVal}, MPL ys ys' → tiesVisible le ys = tiesVisible le ys'
  | _, _, .nil => rfl
  | _, _, .cons _ .nil => rfl
  | _, _, .cons ha (.cons hb h) => by
    simp only [tiesVisible, hle _ _ _ _ hb ha, canonEnc_mp ha, canonEnc_mp hb, tiesVisible_mp le hle (.cons hb h)]

theorem stableEnough_mp (le : GoVal → GoVal → Bool) (hle : ∀ a a' b b', MP a a' → MP b b' → le a b = le a' b')
    {ys ys' : List GoVal} (h : MPL ys ys') : stableEnough le ys = stableEnough le ys' := by
  unfold stableEnough
  rw [h.length_eq, tiesVisible_mp le hle h]

theorem sortM_mp {xs xs' : List GoVal} (h : MPL xs xs') : RRel true MPL (sortM xs) (sortM xs') := by
  unfold sortM
  rw [h.length_eq, homog_mp h]
  split
  · exact insertionSortM_mp (fun a a' b b' ha hb => RRel.of_eq (fun _ => rfl) (less_mp ha hb)) h
  · split
    · exact RRel.of_eq (fun _ => MPL.refl _) rfl
    · exact mergeSort_mp sortLe (fun a a' b b' ha hb => sortLe_mp ha hb) h

/-- the entry of a string-keyed map that `sort: key` orders by -/
theorem keyIndex_mp (key : Bytes) {x x' : GoVal} (h : MP x x') : MP (keyIndex key x) (keyIndex key x') := by
  unfold keyIndex
  have ht := h.toLiquid
  generalize x.toLiquid = u at ht
  generalize x'.toLiquid = u' at ht
  cases ht with
  | refl => exact .refl _
  | map kt vt hv hk hn hm hp ht' =>
    cases kt <;> first | exact .refl _ | exact (mapFind_mp (MP.map .str vt hv hk hn hm hp ht') _).2.2.2.getD.toLiquid
  | mapVals kt vt hv hn hm =>
    cases kt <;> first | exact .refl _ | exact (mapFind_mp (MP.mapVals .str vt hv hn hm) _).2.2.2.getD.toLiquid
  | keyedMap hn hf => exact (lookupFields_mpf hf key).getD.toLiquid
  | _ => exact .refl _

theorem lessByKeyM_mp (key : Bytes) {a a' b b' : GoVal} (ha : MP a a') (hb : MP b b') :
    lessByKeyM key a b = lessByKeyM key a' b' := by
  unfold lessByKeyM
  rw [isNil_mp (keyIndex_mp key ha), isNil_mp (keyIndex_mp key hb), less_mp (keyIndex_mp key ha) (keyIndex_mp key hb)]

theorem lessByKey_mp (key : Bytes) {a a' b b' : GoVal} (ha : MP a a') (hb : MP b b') :
    lessByKey key a b = lessByKey key a' b' := by
  unfold lessByKey
  rw [isNil_mp (keyIndex_mp key ha), isNil_mp (keyIndex_mp key hb), lessB_mp (keyIndex_mp key ha) (keyIndex_mp key hb)]

theorem sortByLe_mp (key : Bytes) {a a' b b' : GoVal} (ha : MP a a') (hb : MP b b') :
    sortByLe key a b = sortByLe key a' b' := by
  unfold sortByLe; rw [lessByKey_mp key hb ha]

theorem keysFilter_mp (key : Bytes) : ∀ {xs ys : List GoVal}, MPL xs ys →
    MPL ((xs.map (keyIndex key)).filter nonNil) ((ys.map (keyIndex key)).filter nonNil)
  | _, _, .nil => .nil
  | _, _, .cons hx h => by
    have hk := keyIndex_mp key hx
    have hn := isNil_mp hk
    simp only [List.map_cons, List.filter_cons]
    cases h1 : (keyIndex key _).isNil <;> cases h2 : (keyIndex key _).isNil <;> rw [h1, h2] at hn <;>
      simp only [nonNil, h1, h2] <;> first
        | (cases hn; done)
        | (simpa using MPL.cons hk (keysFilter_mp key h))
        | (simpa using keysFilter_mp key h)

theorem homogBy_mp (key : Bytes) {xs ys : List GoVal} (h : MPL xs ys) : homogBy key xs = homogBy key ys :=
  homog_mp (keysFilter_mp key h)

theorem sortByM_mp (key : Bytes) {xs xs' : List GoVal} (h : MPL xs xs') : RRel true MPL (sortByM key xs) (sortByM key xs') := by
  unfold sortByM
  rw [h.length_eq, homogBy_mp key h]
  split
  · exact insertionSortM_mp (fun a a' b b' ha hb => RRel.of_eq (fun _ => rfl) (lessByKeyM_mp key ha hb)) h
  · split
    · exact RRel.of_eq (fun _ => MPL.refl _) rfl
    · exact mergeSort_mp (sortByLe key) (fun a a' b b' ha hb => sortByLe_mp key ha hb) h

/-! ## `sort` -/

theorem sortWith_mp (strict : Bool) {xs xs' : List GoVal} {k k' : GoVal} (hx : MPL xs xs') (hk : MP k k') :
    RRel true MP (sortWith strict [.slice .any xs, k]) (sortWith strict [.slice .any xs', k']) := by
  have plain : RRel true MP (sortWith strict [.slice .any xs, .nil]) (sortWith strict [.slice .any xs', .nil]) := by
    simp only [sortWith]
    refine RRel.bind (sortM_mp hx) (fun ys ys' hy => ?_)
    rw [stableEnough_mp sortLe (fun a a' b b' ha hb => sortLe_mp ha hb) hy]
    split
    · exact RRel.unmL rfl _ _
    · exact MP.slice _ hy
  have keyed : ∀ kk kk' : GoVal, kk ≠ .nil → kk' ≠ .nil → RRel true Eq (sprintR kk) (sprintR kk') →
      RRel true MP (sortWith strict [.slice .any xs, kk]) (sortWith strict [.slice .any xs', kk']) := by
    intro kk kk' hn hn' hs
    have e1 : sortWith strict [.slice .any xs, kk] = (sprintR kk).bind fun k => (sortByM k xs).bind fun ys =>
        if strict && !stableEnough (sortByLe k) ys then tieOrder else .ok (.slice .any ys) := by
      cases kk <;> first | exact absurd rfl hn | rfl
    have e2 : sortWith strict [.slice .any xs', kk'] = (sprintR kk').bind fun k => (sortByM k xs').bind fun ys =>
        if strict && !stableEnough (sortByLe k) ys then tieOrder else .ok (.slice .any ys) := by
      cases kk' <;> first | exact absurd rfl hn' | rfl
    rw [e1, e2]
    refine RRel.bind hs (fun key key' e => ?_)
    subst e
    refine RRel.bind (sortByM_mp key hx) (fun ys ys' hy => ?_)
    rw [stableEnough_mp (sortByLe key) (fun a a' b b' ha hb => sortByLe_mp key ha hb) hy]
    split
    · exact RRel.unmL rfl _ _
    · exact MP.slice _ hy
  by_cases hn : k = .nil
  · subst hn
    have := hk.eq_of_rigid_left rfl
    subst this
    exact plain
  · have hn' : k' ≠ .nil := fun e => hn ((mp_nil_iff hk).mpr e)
    exact keyed k k' hn hn' (sprintR_mp hk)

theorem sort_respectsM : ImplRespectsM [.val .anys, .val .any] (eager sort) := by
  intro cs cs' h
  obtain ⟨a, as, a', as', rfl, rfl, h1, h2⟩ := argsRelM_cons h
  obtain ⟨k, k', rfl, rfl, hk⟩ := Num.argsRelM_any1 h2
  obtain ⟨c, c', rfl, rfl, xs, xs', rfl, rfl, hx⟩ := argRelM_val h1
  simp only [eager, FilterImpl.ofEager, FilterImpl.ofEager.collect, Res.bind_ok, sort]
  have := sortWith_mp true hx hk
  cases h1 : sortWith true [.slice .any xs, k] <;> cases h2 : sortWith true [.slice .any xs', k'] <;> rw [h1, h2] at this <;>
    simp only [RRel, Bool.false_eq_true, if_false, ret] at this ⊢ <;> first | exact this | trivial

/-! ## `sort_natural` -/

theorem natKey_mp {x x' : GoVal} (h : MP x x') : RRel true Eq (natKey x) (natKey x') := by
  rcases h.cases_rigid with rfl | ⟨r1, r2⟩
  · exact RRel.of_eq (fun _ => rfl) rfl
  · have hs := sprintRR_mp h
    have e1 : natKey x = (sprintR x).bind fun s => caseRes (StrF.upcase s) := by cases x <;> first | rfl | simp [rigidM] at r1
    have e2 : natKey x' = (sprintR x').bind fun s => caseRes (StrF.upcase s) := by cases x' <;> first | rfl | simp [rigidM] at r2
    rw [e1, e2]
    exact RRel.bind hs (fun b b' e => by subst e; exact RRel.of_eq (fun _ => rfl) rfl)

theorem natKeyBy_mp (name : Bytes) {m m' : GoVal} (h : MP m m') : natKeyBy name m = natKeyBy name m' := by
  unfold natKeyBy
  have key : ∀ o o' : Option GoVal, OptMP o o' →
      (match o.map GoVal.toLiquid with | some (.str s) => caseRes (StrF.downcase s) | _ => Res.ok []) =
      (match o'.map GoVal.toLiquid with | some (.str s) => caseRes (StrF.downcase s) | _ => Res.ok []) := by
    intro o o' ho
    cases o <;> cases o' <;> simp only [OptMP] at ho
    · rfl
    · next v v' =>
      have ht := ho.toLiquid
      simp only [Option.map_some]
      generalize v.toLiquid = u at ht
      generalize v'.toLiquid = u' at ht
      cases ht <;> rfl
  cases h with
  | refl => rfl
  | map kt vt hv hk hn hm hp ht' =>
    cases kt <;> first | rfl | exact key _ _ (mapFind_mp (MP.map .str vt hv hk hn hm hp ht') _).2.2.2
  | mapVals kt vt hv hn hm =>
    cases kt <;> first | rfl | exact key _ _ (mapFind_mp (MP.mapVals .str vt hv hn hm) _).2.2.2
  | keyedMap hn hf => exact key _ _ (lookupFields_mpf hf name)
  | _ => rfl

theorem natLessM_mp (f : GoVal → Res Cause Bytes) (hf : ∀ x x', MP x x' → RRel true Eq (f x) (f x'))
    {a a' b b' : GoVal} (ha : MP a a') (hb : MP b b') : RRel true Eq (natLessM f a b) (natLessM f a' b') := by
  unfold natLessM
  exact RRel.bind (hf a a' ha) (fun ka ka' e => by
    subst e
    exact RRel.bind (hf b b' hb) (fun kb kb' e => by subst e; exact RRel.of_eq (fun _ => rfl) rfl))

/-- decorated lists: the same sort texts, related elements -/
inductive MPD : List (Bytes × GoVal) → List (Bytes × GoVal) → Prop
  | nil : MPD [] []
  | cons (k : Bytes) {x y : GoVal} {r r' : List (Bytes × GoVal)} : MP x y → MPD r r' → MPD ((k, x) :: r) ((k, y) :: r')

theorem decorate_mp (f : GoVal → Res Cause Bytes) (hf : ∀ x x', MP x x' → RRel true Eq (f x) (f x')) :
    ∀ {xs xs' : List GoVal}, MPL xs xs' → RRel true MPD (decorate f xs) (decorate f xs')
  | _, _, .nil => by simp only [decorate]; exact MPD.nil
  | _, _, .cons hx h => by
    simp only [decorate]
    refine RRel.bind (hf _ _ hx) (fun k k' e => ?_)
    subst e
    exact RRel.bind (decorate_mp f hf h) (fun r r' hr => MPD.cons k hx hr)

theorem zip_of_mpd : ∀ {ds ds' : List (Bytes × GoVal)}, MPD ds ds' →
    ∃ l : List (Bytes × GoVal × GoVal), l.map (fun t => (t.1, t.2.1)) = ds ∧ l.map (fun t => (t.1, t.2.2)) = ds' ∧
      ∀ t ∈ l, MP t.2.1 t.2.2
  | _, _, .nil => ⟨[], rfl, rfl, fun _ h => by cases h⟩
  | _, _, @MPD.cons k x y r r' hx h => by
    obtain ⟨l, h1, h2, h3⟩ := zip_of_mpd h
    refine ⟨(k, x, y) :: l, by simp [h1], by simp [h2], ?_⟩
    intro t ht
    rcases List.mem_cons.mp ht with rfl | ht
    · exact hx
    · exact h3 t ht

theorem mpd_of_zip : ∀ (l : List (Bytes × GoVal × GoVal)), (∀ t ∈ l, MP t.2.1 t.2.2) →
    MPD (l.map (fun t => (t.1, t.2.1))) (l.map (fun t => (t.1, t.2.2)))
  | [], _ => .nil
  | (k, x, y) :: l, h => .cons k (h _ List.mem_cons_self) (mpd_of_zip l (fun q hq => h q (List.mem_cons_of_mem _ hq)))

theorem mergeTexts_mp {ds ds' : List (Bytes × GoVal)} (h : MPD ds ds') : MPD (ds.mergeSort textLe) (ds'.mergeSort textLe) := by
  obtain ⟨l, h1, h2, h3⟩ := zip_of_mpd h
  let le' : Bytes × GoVal × GoVal → Bytes × GoVal × GoVal → Bool := fun p q => textLe (p.1, p.2.1) (q.1, q.2.1)
  have e1 : (l.mergeSort le').map (fun t => (t.1, t.2.1)) = ds.mergeSort textLe := by
    rw [List.map_mergeSort (r := le') (s := textLe) (f := fun t : Bytes × GoVal × GoVal => (t.1, t.2.1)) (fun a _ b _ => rfl), h1]
  have e2 : (l.mergeSort le').map (fun t => (t.1, t.2.2)) = ds'.mergeSort textLe := by
    rw [List.map_mergeSort (r := le') (s := textLe) (f := fun t : Bytes × GoVal × GoVal => (t.1, t.2.2)) (fun a _ b _ => rfl), h2]
  rw [← e1, ← e2]
  exact mpd_of_zip _ (fun t ht => h3 t ((List.mergeSort_perm l le').subset ht))

theorem tiesVisibleT_mp : ∀ {ys ys' : List (Bytes × GoVal)}, MPD ys ys' → tiesVisibleT ys = tiesVisibleT ys'
  | _, _, .nil => rfl
  | _, _, .cons _ _ .nil => rfl
  | _, _, .cons ka ha (.cons kb hb h) => by
    simp only [tiesVisibleT, canonEnc_mp ha, canonEnc_mp hb, tiesVisibleT_mp (.cons kb hb h)]
    rfl

theorem MPD.snd : ∀ {ys ys' : List (Bytes × GoVal)}, MPD ys ys' → MPL (ys.map (·.2)) (ys'.map (·.2))
  | _, _, .nil => .nil
  | _, _, .cons _ hx h => .cons hx (MPD.snd h)

theorem sortNatM_mp (strict : Bool) (f : GoVal → Res Cause Bytes) (hf : ∀ x x', MP x x' → RRel true Eq (f x) (f x'))
    {xs xs' : List GoVal} (h : MPL xs xs') : RRel true MPL (sortNatM strict f xs) (sortNatM strict f xs') := by
  unfold sortNatM
  rw [h.length_eq]
  split
  · exact insertionSortM_mp (fun a a' b b' ha hb => natLessM_mp f hf ha hb) h
  · refine RRel.bind (decorate_mp f hf h) (fun ds ds' hd => ?_)
    have hm := mergeTexts_mp hd
    simp only
    rw [tiesVisibleT_mp hm]
    split
    · exact RRel.unmL rfl _ _
    · exact hm.snd

theorem sortNaturalWith_mp (strict : Bool) {xs xs' : List GoVal} {k k' : GoVal} (hx : MPL xs xs') (hk : MP k k') :
    RRel true MP (sortNaturalWith strict [.slice .any xs, k]) (sortNaturalWith strict [.slice .any xs', k']) := by
  have fin : ∀ f : GoVal → Res Cause Bytes, (∀ x x', MP x x' → RRel true Eq (f x) (f x')) →
      RRel true MP ((sortNatM strict f xs).bind fun ys => .ok (.slice .any ys)) ((sortNatM strict f xs').bind fun ys => .ok (.slice .any ys)) :=
    fun f hf => RRel.bind (sortNatM_mp strict f hf hx) (fun ys ys' hy => MP.slice _ hy)
  by_cases hn : k = .nil
  · subst hn
    have := hk.eq_of_rigid_left rfl
    subst this
    simp only [sortNaturalWith, Res.bind_ok]
    exact fin natKey (fun x x' h => natKey_mp h)
  · have hn' : k' ≠ .nil := fun e => hn ((mp_nil_iff hk).mpr e)
    have e1 : sortNaturalWith strict [.slice .any xs, k] =
        ((sprintR k).bind fun name => Res.ok (natKeyBy name)).bind fun f => (sortNatM strict f xs).bind fun ys => .ok (.slice .any ys) := by
      cases k <;> first | exact absurd rfl hn | rfl
    have e2 : sortNaturalWith strict [.slice .any xs', k'] =
        ((sprintR k').bind fun name => Res.ok (natKeyBy name)).bind fun f => (sortNatM strict f xs').bind fun ys => .ok (.slice .any ys) := by
      cases k' <;> first | exact absurd rfl hn' | rfl
    rw [e1, e2]
    have hs : RRel true Eq (sprintR k) (sprintR k') := sprintR_mp hk
    cases h1 : sprintR k <;> cases h2 : sprintR k' <;> rw [h1, h2] at hs <;> simp only [RRel] at hs <;> simp only [Res.bind] <;>
      first
        | (subst hs; exact fin _ (fun x x' h => RRel.of_eq (fun _ => rfl) (natKeyBy_mp _ h)))
        | exact RRel.unmL rfl _ _
        | exact RRel.unmR rfl _ _
        | (subst hs; exact RRel.of_eq (fun _ => MP.refl _) rfl)
        | exact False.elim hs

theorem sortNatural_respectsM : ImplRespectsM [.val .anys, .val .any] (eager sortNatural) := by
  intro cs cs' h
  obtain ⟨a, as, a', as', rfl, rfl, h1, h2⟩ := argsRelM_cons h
  obtain ⟨k, k', rfl, rfl, hk⟩ := Num.argsRelM_any1 h2
  obtain ⟨c, c', rfl, rfl, xs, xs', rfl, rfl, hx⟩ := argRelM_val h1
  simp only [eager, FilterImpl.ofEager, FilterImpl.ofEager.collect, Res.bind_ok, sortNatural]
  have := sortNaturalWith_mp true hx hk
  cases h1 : sortNaturalWith true [.slice .any xs, k] <;> cases h2 : sortNaturalWith true [.slice .any xs', k'] <;> rw [h1, h2] at this <;>
    simp only [RRel, Bool.false_eq_true, if_false, ret] at this ⊢ <;> first | exact this | trivial

/-! ## Every standard filter -/

theorem goodEntryM_all : ∀ e ∈ stdFilterImpls, goodEntryM e := fun e he =>
  goodEntryM_table []
    (fun _ => goodEntryM_of_sig ⟨ArrF.bn "sort", [.val .anys, .val .any], false⟩ (by decide +kernel) sort_respectsM)
    (fun _ => goodEntryM_of_sig ⟨ArrF.bn "uniq", [.val .anys], false⟩ (by decide +kernel) uniq_respectsM)
    (fun _ => goodEntryM_of_sig ⟨ArrF.bn "sort_natural", [.val .anys, .val .any], false⟩ (by decide +kernel) sortNatural_respectsM)
    (fun _ => goodEntryM_of_sig ⟨JsonF.bn "json", [.val .any], false⟩ (by decide +kernel) json_respectsM)
    (fun _ => goodEntryM_of_sig ⟨JsonF.bn "inspect", [.val .any], false⟩ (by decide +kernel) inspect_respectsM)
    (fun _ => goodEntryM_of_sig ⟨JsonF.bn "type", [.val .any], false⟩ (by decide +kernel) typeF_respectsM)
    e he (by simp)

/-- every standard filter maps inputs that differ in the order of map entries to results that differ in the
    order of map entries only (up to `unmodelled`), for every name (registered or not) -/
theorem filterRespectsM_all (name : Bytes) : FilterRespectsM name :=
  filterRespectsM_of_impl name (fun sg f hs hf => goodEntryM_all (name, f) (lookupImpl_mem hf) sg hs)

/-- the standard comparison and filter layer does not see the order of map entries -/
theorem stdPrims_respectsM : PrimsRespectM true stdPrims := by
  rw [← stdPrimsOnly_all]
  exact stdPrimsOnly_respectsM (fun _ => true) (fun n _ _ => filterRespectsM_all n)
