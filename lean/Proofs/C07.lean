import Proofs.PostLemmas
import Proofs.C05
/-!
# C07 — every failure is a SourceError that locates the offending tag or object
-/

/-- a property of every failure a program can end with, whatever the writer answers -/
inductive AllFail {α : Type} (Q : RawErr → Prop) : Prog α → Prop where
  | ret (a) : AllFail Q (.ret a)
  | fail (e) : Q e → AllFail Q (.fail e)
  | panic (w) : AllFail Q (.panic w)
  | unmodelled (w) : AllFail Q (.unmodelled w)
  | call (b k) : (∀ r, AllFail Q (k r)) → AllFail Q (.call b k)

theorem AllFail.mapFail {α} {Q : RawErr → Prop} (g : RawErr → RawErr) (p : Prog α) (h : ∀ e, Q (g e)) :
    AllFail Q (p.mapFail g) := by
  induction p with
  | ret a => exact .ret a
  | fail e => exact .fail _ (h e)
  | panic w => exact .panic w
  | unmodelled w => exact .unmodelled w
  | call b k ih => exact .call _ _ ih

theorem AllFail.bind {α β} {Q : RawErr → Prop} {p : Prog α} {f : α → Prog β}
    (hp : AllFail Q p) (hf : ∀ a, AllFail Q (f a)) : AllFail Q (p.bind f) := by
  induction hp with
  | ret a => exact hf a
  | fail e he => exact .fail e he
  | panic w => exact .panic w
  | unmodelled w => exact .unmodelled w
  | call b k _ ih => exact .call _ _ ih

def IsLocated : RawErr → Prop
  | .located _ => True
  | .plain _ => False

/-! ## WrapError -/

/-- **C07 (innermost location wins).** An error that already carries a line number — or a path —
    is returned unchanged by every enclosing node: the reported line is the line of the tag or
    object whose own evaluation failed, however deeply it is nested, with or without a path. -/
theorem wrap_keeps_located (path : Bytes) (e : SErr) (loc : Loc)
    (h : e.line ≠ 0 ∨ (e.pathSet = true ∧ path ≠ [])) : wrapError path (.located e) loc = e := by
  unfold wrapError
  rcases h with h | ⟨h1, h2⟩
  · simp [h]
  · have : path.isEmpty = false := by cases path <;> simp_all
    simp [h1, this]

/-- an error that is not yet a SourceError is located at the node that wraps it first, and is
    kept as the cause -/
theorem wrap_locates (path : Bytes) (c : Cause) (loc : Loc) :
    wrapError path (.plain c) loc = ⟨loc.line, loc.pathSet, c, .byCause⟩ := rfl

/-- re-wrapping never loses the cause (a filter's own error, a conversion error, the writer's error) -/
theorem cause_preserved_by_wrap (path : Bytes) (e : SErr) (loc : Loc) (h : e.cause ≠ .none) :
    (wrapError path (.located e) loc).cause = e.cause := by
  simp only [wrapError]
  split
  · rfl
  · simp [h]

/-- when an error without any location information is re-wrapped (only possible on line 0 of a
    template parsed without a path) the new location is the enclosing node's: still line 0 -/
theorem wrap_zero_line (path : Bytes) (e : SErr) (loc : Loc) (h : e.line = 0) (hl : loc.line = 0) :
    (wrapError path (.located e) loc).line = 0 := by
  simp only [wrapError]
  split <;> simp [h, hl]

/-! ## Nodes locate their own failures -/

/-- a failing object is reported at the object's line with the evaluation error as cause -/
theorem obj_error_located (c : RCtx) (line : Nat) (e : Expr) (s : RS) (cause : Cause)
    (h : evaluate c.P s.env e = .err cause) :
    renderNode c (.obj line e) s = .fail (.located ⟨line, true, cause, .byCause⟩) := by
  unfold renderNode
  simp only [wrapFailAt, M.mapFail, bind, M.bind, M.getEnv, M.ofRes, h, M.fail, Prog.bind, Prog.mapFail, wrapError]

/-- strict variables: an object whose final value is nil is an error at that object -/
theorem strict_undefined (c : RCtx) (line : Nat) (e : Expr) (s : RS)
    (h : evaluate c.P s.env e = .ok .nil) (hs : c.cfg.strict = true) :
    renderNode c (.obj line e) s = .fail (.located ⟨line, true, .other "undefinedVariable", .byCause⟩) := by
  unfold renderNode
  simp [wrapFailAt, M.mapFail, bind, M.bind, M.getEnv, M.ofRes, h, pure, M.pure, Prog.bind, GoVal.isNil, hs,
    M.fail, Prog.mapFail, wrapError]

/-- every failure that leaves a node through `wrapAt`/`wrapFailAt` is a located error (a
    SourceError), never a bare `error` -/
theorem wrapFailAt_located {α} (path : Bytes) (loc : Loc) (m : M α) (s : RS) :
    AllFail IsLocated (wrapFailAt path loc m s) :=
  AllFail.mapFail _ _ (fun _ => trivial)

theorem wrapAt_located (path : Bytes) (loc : Loc) (m : M Status) (s : RS) :
    AllFail IsLocated (wrapAt path loc m s) := by
  unfold wrapAt
  exact AllFail.bind (AllFail.mapFail _ _ (fun _ => trivial)) (fun _ => .ret _)

/-- an enclosing block leaves the located error of its body unchanged when that error has a line -/
theorem wrapAt_keeps (path : Bytes) (loc : Loc) (m : M Status) (s : RS) (e : SErr)
    (hm : m s = .fail (.located e)) (h : e.line ≠ 0 ∨ (e.pathSet = true ∧ path ≠ [])) :
    wrapAt path loc m s = .fail (.located e) := by
  unfold wrapAt
  simp only [hm, Prog.mapFail, Prog.bind, wrap_keeps_located path e loc h]

/-! ## Parse-time failures carry the line of the offending token -/

/-- a syntax error in an object is reported at that object's token line (which by `scan_line_at`
    is the start line plus the newlines before the object) -/
theorem parse_obj_error_line (g : Grammar) (chk : Bytes → Option Cause) (s : PState) (tok : Token) (c : Cause)
    (hm : s.mode = .normal) (ht : tok.ty = .obj) (hc : chk tok.args = some c) :
    parseStep g chk s tok = .err ⟨.objSyntax c, tok.line⟩ := by
  unfold parseStep
  simp [hm, ht, hc]

/-- `Render`/`RenderString` never return output together with an error: `run` is either output
    or an error -/
theorem run_output_xor_error (P : Prims) (O : OutPrims) (cfg : Cfg) (fs : FS) (fuel : Nat) (src : Bytes) (line : Nat) (env : Env) :
    (∃ out, run P O cfg fs fuel src line env = .ok out) ∨ (∃ e, run P O cfg fs fuel src line env = .err e) ∨
    (∃ w, run P O cfg fs fuel src line env = .panic w) ∨ (∃ w, run P O cfg fs fuel src line env = .unmodelled w) := by
  cases h : run P O cfg fs fuel src line env with
  | ok out => exact Or.inl ⟨out, rfl⟩
  | err e => exact Or.inr (Or.inl ⟨e, rfl⟩)
  | panic w => exact Or.inr (Or.inr (Or.inl ⟨w, rfl⟩))
  | unmodelled w => exact Or.inr (Or.inr (Or.inr ⟨w, rfl⟩))

/-! Non-vacuity -/
example : wrapError [] (.located ⟨2, true, .undefinedFilter [102], .byCause⟩) ⟨1, true⟩
    = ⟨2, true, .undefinedFilter [102], .byCause⟩ := by decide
example : wrapError [] (.plain .typeErr) ⟨3, true⟩ = ⟨3, true, .typeErr, .byCause⟩ := by decide
