import Proofs.PostLemmas
import Proofs.C05
import Liquid.Std
/-!
# C07 — every failure is a SourceError that locates the offending tag or object
-/

/-- a property of every failure a program can end with, whatever the writer answers -/
inductive AllFail {α : Type} (Q : RawErr → Prop) : Prog α → Prop where
  | ret (a) : AllFail Q (.ret a)
  | fail (e) : Q e → AllFail Q (.fail e)
  | panic (w) : AllFail Q (.panic w)
  | unmodelled (w) : AllFail Q (.unmodelled w)
  | call (b k) : (∀ r, AllFail Q (k r)) → AllFail Q (.call b k)

theorem AllFail.mapFail {α} {Q : RawErr → Prop} (g : RawErr → RawErr) (p : Prog α) (h : ∀ e, Q (g e)) :
    AllFail Q (p.mapFail g) := by
  induction p with
  | ret a => exact .ret a
  | fail e => exact .fail _ (h e)
  | panic w => exact .panic w
  | unmodelled w => exact .unmodelled w
  | call b k ih => exact .call _ _ ih

theorem AllFail.bind {α β} {Q : RawErr → Prop} {p : Prog α} {f : α → Prog β}
    (hp : AllFail Q p) (hf : ∀ a, AllFail Q (f a)) : AllFail Q (p.bind f) := by
  induction hp with
  | ret a => exact hf a
  | fail e he => exact .fail e he
  | panic w => exact .panic w
  | unmodelled w => exact .unmodelled w
  | call b k _ ih => exact .call _ _ ih

def IsLocated : RawErr → Prop
  | .located _ => True
  | .plain _ => False

/-! ## WrapError -/

/-- **C07 (innermost location wins).** An error that already carries a line number — or a path —
    is returned unchanged by every enclosing node: the reported line is the line of the tag or
    object whose own evaluation failed, however deeply it is nested, with or without a path. -/
theorem wrap_keeps_located (path : Bytes) (e : SErr) (loc : Loc)
    (h : e.line ≠ 0 ∨ (e.pathSet = true ∧ path ≠ [])) : wrapError path (.located e) loc = e := by
  unfold wrapError
  rcases h with h | ⟨h1, h2⟩
  · simp [h]
  · have : path.isEmpty = false := by cases path <;> simp_all
    simp [h1, this]

/-- an error that is not yet a SourceError is located at the node that wraps it first, and is
    kept as the cause -/
theorem wrap_locates (path : Bytes) (c : Cause) (loc : Loc) :
    wrapError path (.plain c) loc = ⟨loc.line, loc.pathSet, c, .byCause⟩ := rfl

/-- re-wrapping never loses the cause (a filter's own error, a conversion error, the writer's error) -/
theorem cause_preserved_by_wrap (path : Bytes) (e : SErr) (loc : Loc) (h : e.cause ≠ .none) :
    (wrapError path (.located e) loc).cause = e.cause := by
  simp only [wrapError]
  split
  · rfl
  · simp [h]

/-- when an error without any location information is re-wrapped (only possible on line 0 of a
    template parsed without a path) the new location is the enclosing node's: still line 0 -/
theorem wrap_zero_line (path : Bytes) (e : SErr) (loc : Loc) (h : e.line = 0) (hl : loc.line = 0) :
    (wrapError path (.located e) loc).line = 0 := by
  simp only [wrapError]
  split <;> simp [h, hl]

/-! ## Nodes locate their own failures -/

/-- a failing object is reported at the object's line with the evaluation error as cause -/
theorem obj_error_located (c : RCtx) (line : Nat) (e : Expr) (s : RS) (cause : Cause)
    (h : evaluate c.P s.env e = .err cause) :
    renderNode c (.obj line e) s = .fail (.located ⟨line, true, cause, .byCause⟩) := by
  unfold renderNode
  simp only [wrapFailAt, M.mapFail, bind, M.bind, M.getEnv, M.ofRes, h, M.fail, Prog.bind, Prog.mapFail, wrapError]

/-- strict variables: an object whose final value is nil is an error at that object -/
theorem strict_undefined (c : RCtx) (line : Nat) (e : Expr) (s : RS)
    (h : evaluate c.P s.env e = .ok .nil) (hs : c.cfg.strict = true) :
    renderNode c (.obj line e) s = .fail (.located ⟨line, true, .other "undefinedVariable", .byCause⟩) := by
  unfold renderNode
  simp [wrapFailAt, M.mapFail, bind, M.bind, M.getEnv, M.ofRes, h, pure, M.pure, Prog.bind, GoVal.isNil, hs,
    M.fail, Prog.mapFail, wrapError]

/-- every failure that leaves a node through `wrapAt`/`wrapFailAt` is a located error (a
    SourceError), never a bare `error` -/
theorem wrapFailAt_located {α} (path : Bytes) (loc : Loc) (m : M α) (s : RS) :
    AllFail IsLocated (wrapFailAt path loc m s) :=
  AllFail.mapFail _ _ (fun _ => trivial)

theorem wrapAt_located (path : Bytes) (loc : Loc) (m : M Status) (s : RS) :
    AllFail IsLocated (wrapAt path loc m s) := by
  unfold wrapAt
  exact AllFail.bind (AllFail.mapFail _ _ (fun _ => trivial)) (fun _ => .ret _)

/-- an enclosing block leaves the located error of its body unchanged when that error has a line -/
theorem wrapAt_keeps (path : Bytes) (loc : Loc) (m : M Status) (s : RS) (e : SErr)
    (hm : m s = .fail (.located e)) (h : e.line ≠ 0 ∨ (e.pathSet = true ∧ path ≠ [])) :
    wrapAt path loc m s = .fail (.located e) := by
  unfold wrapAt
  simp only [hm, Prog.mapFail, Prog.bind, wrap_keeps_located path e loc h]

/-! ## Parse-time failures carry the line of the offending token -/

/-- a syntax error in an object is reported at that object's token line (which by `scan_line_at`
    is the start line plus the newlines before the object) -/
theorem parse_obj_error_line (g : Grammar) (chk : Bytes → Option Cause) (s : PState) (tok : Token) (c : Cause)
    (hm : s.mode = .normal) (ht : tok.ty = .obj) (hc : chk tok.args = some c) :
    parseStep g chk s tok = .err ⟨.objSyntax c, tok.line⟩ := by
  unfold parseStep
  simp [hm, ht, hc]

/-- `Render`/`RenderString` never return output together with an error: `run` is either output
    or an error -/
theorem run_output_xor_error (P : Prims) (O : OutPrims) (cfg : Cfg) (fs : FS) (fuel : Nat) (src : Bytes) (line : Nat) (env : Env) :
    (∃ out, run P O cfg fs fuel src line env = .ok out) ∨ (∃ e, run P O cfg fs fuel src line env = .err e) ∨
    (∃ w, run P O cfg fs fuel src line env = .panic w) ∨ (∃ w, run P O cfg fs fuel src line env = .unmodelled w) := by
  cases h : run P O cfg fs fuel src line env with
  | ok out => exact Or.inl ⟨out, rfl⟩
  | err e => exact Or.inr (Or.inl ⟨e, rfl⟩)
  | panic w => exact Or.inr (Or.inr (Or.inl ⟨w, rfl⟩))
  | unmodelled w => exact Or.inr (Or.inr (Or.inr ⟨w, rfl⟩))

/-! ## Output or an error, never both — the entry points that RETURN a value

`Template.Render` and `Template.RenderString` render into a buffer of their own and return `(nil / "", err)` when
the render fails; the model's `run` (and `runStd`, the same with the standard value and output layers) is that
entry point: `RunResult` is output, or an error, or one of the model outcomes. `Template.FRender(w, vars)` is
`frender`, run against the caller's writer: what that writer accepted before the error (`written` below) stays
written. The three theorems say how the two are related: when `FRender` into a buffer ends with an error,
`Render` returns that error and drops everything that had been written; `Render` returns output only when
`FRender` ended without an error, and then all of it. -/

/-- **C07 (no output together with an error).** When `run` — `Render` / `RenderString` — returns an error it returns
    no output: the two results exclude each other (in the model by the type of the result; on the real code it is
    the `errloc` oracle that checks `out == nil` resp. `out == ""` next to every error). -/
theorem run_error_no_output (P : Prims) (O : OutPrims) (cfg : Cfg) (fs : FS) (fuel : Nat) (src : Bytes) (line : Nat) (env : Env)
    (e : SErr) (h : run P O cfg fs fuel src line env = .err e) : ∀ out, run P O cfg fs fuel src line env ≠ .ok out := by
  intro out ho
  rw [h] at ho
  cases ho

/-- **C07 (what was written before the error is not returned).** For a source that compiles to `root`: when
    `FRender` into a buffer ends with the error `e` after the buffer has received `written` — any bytes, a prefix
    of the output may have gone out already — `run` returns the error `e` and nothing of `written`. -/
theorem run_error_discards_written (P : Prims) (O : OutPrims) (cfg : Cfg) (fs : FS) (fuel : Nat) (src : Bytes) (line : Nat) (env : Env)
    (root : List Node) (written : Bytes) (e : SErr) (hc : compileSource cfg.delims src line = .ok root)
    (h : (frender P O cfg fs fuel root env).runPure = (written, .err (.located e))) :
    run P O cfg fs fuel src line env = .err e := by
  unfold run
  rw [hc]
  simp only [h]

/-- **C07 (output means the whole render succeeded).** For a source that compiles to `root`: `run` returns the
    output `out` if and only if `FRender` into a buffer wrote exactly `out` and ended without an error. -/
theorem run_ok_iff_frender_ok (P : Prims) (O : OutPrims) (cfg : Cfg) (fs : FS) (fuel : Nat) (src : Bytes) (line : Nat) (env : Env)
    (root : List Node) (out : Bytes) (hc : compileSource cfg.delims src line = .ok root) :
    run P O cfg fs fuel src line env = .ok out ↔ (frender P O cfg fs fuel root env).runPure = (out, .ok ()) := by
  unfold run
  rw [hc]
  simp only
  constructor
  · intro h
    split at h
    · next out' u hr => cases h; exact hr
    · cases h
    · cases h
    · cases h
    · cases h
  · intro h
    rw [h]

/-- the same for the standard engine (`runStd`: standard filters and output layer, 100 include levels) -/
theorem runStd_error_no_output (cfg : Cfg) (fs : FS) (src : Bytes) (line : Nat) (env : Env) (e : SErr)
    (h : runStd cfg fs src line env = .err e) : ∀ out, runStd cfg fs src line env ≠ .ok out :=
  run_error_no_output stdPrims stdOut cfg fs maxIncludeDepth src line env e h

/-! `a⏎{% if true %}⏎{{ y }}{% endif %}` with strict variables, `y` unbound: `FRender` has written `a⏎` when the
    object fails at line 3; `Render` returns the error alone. -/
def c07WrittenSrc : Bytes := [97, 10, 123, 37, 32, 105, 102, 32, 116, 114, 117, 101, 32, 37, 125, 10, 123, 123, 32, 121, 32, 125, 125,
  123, 37, 32, 101, 110, 100, 105, 102, 32, 37, 125]

theorem c07Written_compiles : compileSource [] c07WrittenSrc 1 =
    .ok [.text 1 [97, 10], .ifB 2 [(.expr 2 (.lit (.bool true)), [.text 2 [10], .obj 3 (.var [121])])]] := by rfl

theorem c07Written_frender (P : Prims) (O : OutPrims) (fs : FS) :
    (frender P O { strict := true } fs 1 [.text 1 [97, 10], .ifB 2 [(.expr 2 (.lit (.bool true)), [.text 2 [10], .obj 3 (.var [121])])]] []).runPure =
      ([97, 10], .err (.located ⟨3, true, .other "undefinedVariable", .byCause⟩)) := by
  simp [frender, renderRoot, renderList, renderNode, renderBranches, renderBlockBody, evalCond, wrapAt, wrapFailAt,
    M.mapFail, M.bind, M.pure, M.getEnv, M.ofRes, M.fail, writeM, Prog.bind, Prog.mapFail, Prog.runPure, bind, pure, mkCtx,
    evaluate, eval, Env.get, GoVal.unwrap, GoVal.isNil, GoVal.toLiquid, GoVal.test, wrapError]

theorem c07Written_run (P : Prims) (O : OutPrims) (fs : FS) :
    run P O { strict := true } fs 1 c07WrittenSrc 1 [] = .err ⟨3, true, .other "undefinedVariable", .byCause⟩ :=
  run_error_discards_written P O { strict := true } fs 1 c07WrittenSrc 1 [] _ [97, 10] _ c07Written_compiles (c07Written_frender P O fs)

example (P : Prims) (O : OutPrims) (fs : FS) : ∀ out, run P O { strict := true } fs 1 c07WrittenSrc 1 [] ≠ .ok out :=
  run_error_no_output P O { strict := true } fs 1 c07WrittenSrc 1 [] _ (c07Written_run P O fs)

/-- `run_ok_iff_frender_ok`: the text `a⏎` alone renders to itself -/
example (P : Prims) (O : OutPrims) (fs : FS) : run P O {} fs 1 [97, 10] 1 [] = .ok [97, 10] :=
  (run_ok_iff_frender_ok P O {} fs 1 [97, 10] 1 [] [.text 1 [97, 10]] [97, 10] rfl).mpr (by
    simp [frender, renderRoot, renderList, renderNode, wrapFailAt, M.mapFail, M.bind, M.pure, writeM, flushM, Prog.bind, Prog.mapFail,
      Prog.runPure, bind, pure, mkCtx, statusToProg])

/-! Non-vacuity -/
example : wrapError [] (.located ⟨2, true, .undefinedFilter [102], .byCause⟩) ⟨1, true⟩
    = ⟨2, true, .undefinedFilter [102], .byCause⟩ := by decide
example : wrapError [] (.plain .typeErr) ⟨3, true⟩ = ⟨3, true, .typeErr, .byCause⟩ := by decide
