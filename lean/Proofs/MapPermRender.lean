import Proofs.MapPermOps
import Proofs.RepEqRender
/-!
# Two renders against environments that differ in the order of map entries, in lock step (helper
lemmas for C02)

The architecture of `Proofs/RepEqProg.lean`, `RepEqEval.lean` and `RepEqRender.lean` (C18), with the
relation `MP` (`Proofs/MapPerm.lean`) between the values of the two runs: the same write calls, related
variable maps, the same include results. `PRel`, `RRel`, `ORel`, `All2`, `RunAgree` are the generic
definitions of those files.
-/

open GoVal MapOrder

variable {t : Bool}

theorem MPL.all2 : ∀ {xs ys : List GoVal}, MPL xs ys → All2 MP xs ys
  | _, _, .nil => .nil
  | _, _, .cons hx h => .cons hx (MPL.all2 h)

theorem All2.mpl {xs ys : List GoVal} (h : All2 MP xs ys) : MPL xs ys := by
  induction h with
  | nil => exact .nil
  | cons hx _ ih => exact .cons hx ih

def EnvRelM (env env' : Env) : Prop := ∀ x, MP (env.get x) (env'.get x)

theorem EnvRelM.refl (env : Env) : EnvRelM env env := fun _ => MP.refl _

theorem EnvRelM.set {env env' : Env} (h : EnvRelM env env') (x : Bytes) {v v' : GoVal} (hv : MP v v') :
    EnvRelM (env.set x v) (env'.set x v') := by
  intro y
  rw [Env.get_set, Env.get_set]
  split
  · exact hv
  · exact h y

structure SRelM (s s' : RS) : Prop where
  env : EnvRelM s.env s'.env
  tw : s.tw = s'.tw

def MRelM (t : Bool) {α} (R : α → α → Prop) (m m' : M α) : Prop :=
  ∀ s s', SRelM s s' → PRel t (fun r r' : α × RS => R r.1 r'.1 ∧ SRelM r.2 r'.2) (m s) (m' s')

theorem MRelM.mono_rel {α} {R S : α → α → Prop} {m m' : M α} (h : MRelM t R m m') (hRS : ∀ a a', R a a' → S a a') :
    MRelM t S m m' :=
  fun s s' hs => (h s s' hs).mono (fun _ _ hr => ⟨hRS _ _ hr.1, hr.2⟩)

theorem mrelM_bind {α β} {R : α → α → Prop} {S : β → β → Prop} {m m' : M α} {f f' : α → M β}
    (hm : MRelM t R m m') (hf : ∀ a a', R a a' → MRelM t S (f a) (f' a')) : MRelM t S (m >>= f) (m' >>= f') := by
  intro s s' hs
  exact PRel.bind (hm s s' hs) (fun ⟨a, s1⟩ ⟨a', s1'⟩ h => hf a a' h.1 s1 s1' h.2)

theorem mrelM_pure {α} {R : α → α → Prop} {a a' : α} (h : R a a') : MRelM t R (pure a : M α) (pure a') :=
  fun _ _ hs => .ret ⟨h, hs⟩

theorem mrelM_fail {α} {R : α → α → Prop} (e : RawErr) : MRelM t R (M.fail e : M α) (M.fail e) := fun _ _ _ => .fail e

theorem mrelM_getEnv : MRelM t (EnvRelM) M.getEnv M.getEnv := fun _ _ hs => .ret ⟨hs.env, hs⟩

theorem mrelM_getVar (x : Bytes) : MRelM t MP (M.getVar x) (M.getVar x) := fun _ _ hs => .ret ⟨hs.env x, hs⟩

theorem mrelM_setVar (x : Bytes) {v v' : GoVal} (h : MP v v') :
    MRelM t (fun _ _ => True) (M.setVar x v) (M.setVar x v') :=
  fun _ _ hs => .ret ⟨trivial, ⟨hs.env.set x h, hs.tw⟩⟩

theorem mrelM_ofRes {α} {R : α → α → Prop} {r r' : Res Cause α} (h : RRel t R r r') :
    MRelM t R (M.ofRes r) (M.ofRes r') := by
  intro s s' hs
  cases r <;> cases r' <;> simp only [RRel] at h <;> first
    | exact .ret ⟨h, hs⟩
    | (subst h; first | exact .fail _ | exact .panic _)
    | exact .unmL h _ _
    | exact .unmR h _ _
    | (rcases h with h | h
       · exact .unmL h _ _
       · subst h; exact .unmodelled _)

theorem mrelM_mapFail {α} {R : α → α → Prop} {m m' : M α} (g : RawErr → RawErr) (hm : MRelM t R m m') :
    MRelM t R (M.mapFail g m) (M.mapFail g m') := fun s s' hs => PRel.mapFail g (hm s s' hs)

theorem mrelM_wrapFailAt {α} {R : α → α → Prop} (path : Bytes) (loc : Loc) {m m' : M α} (hm : MRelM t R m m') :
    MRelM t R (wrapFailAt path loc m) (wrapFailAt path loc m') := mrelM_mapFail _ hm

theorem mrelM_wrapAt (path : Bytes) (loc : Loc) {m m' : M Status} (hm : MRelM t Eq m m') :
    MRelM t Eq (wrapAt path loc m) (wrapAt path loc m') := by
  rw [wrapAt_eq, wrapAt_eq]
  exact mrelM_bind (mrelM_mapFail _ hm) (fun a a' h => by subst h; exact mrelM_pure rfl)


theorem mrelM_of_envFree {α} {m : M α} (h : EnvFree m) : MRelM t Eq m m := by
  intro s s' hs
  refine (h s s' hs.tw).weaken.mono (fun r r' hr => ⟨hr.1, ?_, hr.2.1⟩)
  rw [hr.2.2.1, hr.2.2.2]
  exact hs.env


theorem mrelM_flush : MRelM t Eq flushM flushM := mrelM_of_envFree envFree_flush
theorem mrelM_write (b : Bytes) : MRelM t Eq (writeM b) (writeM b) := mrelM_of_envFree (envFree_write b)
theorem mrelM_trimLeft : MRelM t Eq trimLeftM trimLeftM := mrelM_of_envFree envFree_trimLeft
theorem mrelM_trimRight : MRelM t Eq trimRightM trimRightM := mrelM_of_envFree envFree_trimRight

theorem mrelM_writeVerbatim (b : Bytes) : MRelM t Eq (writeVerbatimM b) (writeVerbatimM b) := by
  unfold writeVerbatimM
  exact mrelM_bind (mrelM_write []) (fun _ _ _ => mrelM_bind (mrelM_write b) (fun _ _ _ => mrelM_flush))

theorem mrelM_writeAll : ∀ cs, MRelM t Eq (writeAllM cs) (writeAllM cs)
  | [] => mrelM_pure rfl
  | c :: cs => by
    unfold writeAllM
    exact mrelM_bind (mrelM_writeVerbatim c) (fun _ _ _ => mrelM_writeAll cs)

theorem mrelM_tablerowBefore (cols i : Nat) : MRelM t Eq (tablerowBefore cols i) (tablerowBefore cols i) := by
  unfold tablerowBefore
  simp only
  split
  · exact mrelM_bind (mrelM_write _) (fun _ _ _ => mrelM_write _)
  · exact mrelM_write _

theorem mrelM_tablerowAfter (cols i l : Nat) : MRelM t Eq (tablerowAfter cols i l) (tablerowAfter cols i l) := by
  unfold tablerowAfter
  refine mrelM_bind (mrelM_write _) (fun _ _ _ => ?_)
  split
  · exact mrelM_write _
  · exact mrelM_pure rfl

/-- a capture: the same text, related results and variables -/
theorem mrelM_capture {α} {R : α → α → Prop} {m m' : M α} (hm : MRelM t R m m') :
    MRelM t (fun r r' : α × Bytes => R r.1 r'.1 ∧ r.2 = r'.2) (captureM m) (captureM m') := by
  intro s s' hs
  unfold captureM
  simp only
  have hp : PRel t (fun r r' : α × RS => R r.1 r'.1 ∧ SRelM r.2 r'.2)
      ((m { env := s.env, tw := {} }).bind (fun (a, s1) => (flushM s1).bind (fun (_, s2) => .ret (a, s2))))
      ((m' { env := s'.env, tw := {} }).bind (fun (a, s1) => (flushM s1).bind (fun (_, s2) => .ret (a, s2)))) := by
    refine PRel.bind (hm _ _ ⟨hs.env, rfl⟩) (fun ⟨a, s1⟩ ⟨a', s1'⟩ h => ?_)
    exact PRel.bind (mrelM_flush s1 s1' h.2) (fun ⟨_, s2⟩ ⟨_, s2'⟩ h2 => .ret ⟨h.1, h2.2⟩)
  have hr := hp.runPure
  revert hr
  generalize ((m { env := s.env, tw := {} }).bind (fun (a, s1) => (flushM s1).bind (fun (_, s2) => Prog.ret (a, s2)))).runPure = q
  generalize ((m' { env := s'.env, tw := {} }).bind (fun (a, s1) => (flushM s1).bind (fun (_, s2) => Prog.ret (a, s2)))).runPure = q'
  obtain ⟨out, o⟩ := q
  obtain ⟨out', o'⟩ := q'
  intro hr
  simp only at hr
  obtain ⟨h2, h1⟩ := hr
  cases o <;> cases o' <;> simp only [ORel] at h2 <;> first
    | (next r r' =>
        obtain ⟨a, s2⟩ := r
        obtain ⟨a', s2'⟩ := r'
        have := h1 _ _ rfl rfl
        subst this
        exact .ret ⟨⟨h2.1, rfl⟩, ⟨h2.2.env, hs.tw⟩⟩)
    | (subst h2; first | exact .fail _ | exact .panic _)
    | exact .unmL h2 _ _
    | exact .unmR h2 _ _
    | (rcases h2 with h2 | h2
       · exact .unmL h2 _ _
       · subst h2; exact .unmodelled _)

/-! ## Expressions -/

/-- related values that are both unwrapped (results of `Evaluate`, filter inputs) -/
def UMP (a b : GoVal) : Prop := Unw a ∧ Unw b ∧ MP a b

theorem UMP.refl_unw {a : GoVal} (h : Unw a) : UMP a a := ⟨h, h, MP.refl a⟩

/-- what the congruence theorem needs from the comparison and filter layers: related operands
    give the same answer, related filter inputs give related results (`t`: up to `unmodelled`) -/
structure PrimsRespectM (t : Bool) (P : Prims) : Prop where
  equal : ∀ a a' b b', MP a a' → MP b b' → RRel t Eq (P.equal a b) (P.equal a' b')
  less : ∀ a a' b b', MP a a' → MP b b' → RRel t Eq (P.less a b) (P.less a' b')
  contains : ∀ a a' b b', MP a a' → MP b b' → RRel t Eq (P.contains a b) (P.contains a' b')
  /-- the operands of `case`/`when` are results of `Evaluate` (unwrapped) -/
  equalFn : ∀ a a' b b', UMP a a' → UMP b b' → RRel t Eq (P.equalFn a b) (P.equalFn a' b')
  /-- receiver and arguments reach a filter unwrapped -/
  applyFilter : ∀ name r r' as as', UMP r r' → All2 UMP as as' →
    RRel t MP (P.applyFilter name r as) (P.applyFilter name r' as')

theorem liftL_mp {r r' : LRes} (h : LRelM r r') : RRel t MP (liftL r) (liftL r') := by
  cases r <;> cases r' <;> simp only [LRelM] at h
  · exact h
  · exact .inr h

theorem RRel.boolOkM {r r' : Res Cause Bool} (h : RRel t Eq r r') (f : Bool → Bool) :
    RRel t MP (r.bind fun b => .ok (.bool (f b))) (r'.bind fun b => .ok (.bool (f b))) :=
  RRel.bind h (fun a a' e => by subst e; exact MP.refl _)

theorem all2_unwrapM {as as' : List GoVal} (h : All2 MP as as') :
    All2 UMP (as.map GoVal.unwrap) (as'.map GoVal.unwrap) := by
  induction h with
  | nil => exact .nil
  | cons h _ ih => exact .cons ⟨Unw.unwrap _, Unw.unwrap _, h.unwrap⟩ ih

theorem rrel_okM {α} {R : α → α → Prop} {a a' : α} (h : R a a') : RRel t R (.ok a) (.ok a') := h

mutual
theorem eval_mp (P : Prims) (hP : PrimsRespectM t P) {env env' : Env} (he : EnvRelM env env') :
    ∀ e : Expr, RRel t MP (eval P env e) (eval P env' e)
  | .lit v => by simp only [eval]; exact rrel_okM (MP.refl _)
  | .var x => by
    simp only [eval]
    exact rrel_okM (he x).toLiquid
  | .prop e name => by
    simp only [eval, Res.bind_eq]
    exact RRel.bind (eval_mp P hP he e) (fun v v' hv => liftL_mp (propertyValue_mp hv name))
  | .index e i => by
    simp only [eval, Res.bind_eq]
    exact RRel.bind (eval_mp P hP he e) (fun v v' hv =>
      RRel.bind (eval_mp P hP he i) (fun iv iv' hi => liftL_mp (indexValue_mp hv hi)))
  | .range a b => by
    simp only [eval, Res.bind_eq]
    refine RRel.bind (eval_mp P hP he a) (fun va va' ha => ?_)
    rw [intOf_mp ha]
    cases va'.intOf with
    | none => simp [RRel]
    | some x =>
      simp only
      refine RRel.bind (eval_mp P hP he b) (fun vb vb' hb => ?_)
      rw [intOf_mp hb]
      cases vb'.intOf <;> simp [RRel, MP.refl]
  | .rel op a b => by
    simp only [eval, Res.bind_eq]
    refine RRel.bind (eval_mp P hP he a) (fun va va' ha => ?_)
    refine RRel.bind (eval_mp P hP he b) (fun vb vb' hb => ?_)
    have e1 := hP.equal va va' vb vb' ha hb
    have l1 := hP.less va va' vb vb' ha hb
    have l2 := hP.less vb vb' va va' hb ha
    have c1 := hP.contains va va' vb vb' ha hb
    cases op <;> simp only
    · exact RRel.boolOkM e1 id
    · exact RRel.boolOkM e1 (fun b => !b)
    · exact RRel.boolOkM l2 id
    · exact RRel.boolOkM l1 id
    · refine RRel.bind l2 (fun l l' hl => ?_)
      subst hl
      split
      · exact rrel_okM (MP.refl _)
      · exact RRel.boolOkM e1 id
    · refine RRel.bind l1 (fun l l' hl => ?_)
      subst hl
      split
      · exact rrel_okM (MP.refl _)
      · exact RRel.boolOkM e1 id
    · exact RRel.boolOkM c1 id
  | .and_ a b => by
    simp only [eval, Res.bind_eq]
    refine RRel.bind (eval_mp P hP he a) (fun va va' ha => ?_)
    rw [test_mp ha]
    split
    · refine RRel.bind (eval_mp P hP he b) (fun vb vb' hb => ?_)
      rw [test_mp hb]
      exact rrel_okM (MP.refl _)
    · exact rrel_okM (MP.refl _)
  | .or_ a b => by
    simp only [eval, Res.bind_eq]
    refine RRel.bind (eval_mp P hP he a) (fun va va' ha => ?_)
    rw [test_mp ha]
    split
    · exact rrel_okM (MP.refl _)
    · refine RRel.bind (eval_mp P hP he b) (fun vb vb' hb => ?_)
      rw [test_mp hb]
      exact rrel_okM (MP.refl _)
  | .filter e name args => by
    simp only [eval]
    split
    · simp [RRel]
    · simp only [Res.bind_eq]
      refine RRel.bind (eval_mp P hP he e) (fun r r' hr => ?_)
      refine RRel.bind (evalList_mp P hP he args) (fun as as' has => ?_)
      exact hP.applyFilter name _ _ _ _ ⟨Unw.unwrap r, Unw.unwrap r', hr.unwrap⟩ (all2_unwrapM has)
theorem evalList_mp (P : Prims) (hP : PrimsRespectM t P) {env env' : Env} (he : EnvRelM env env') :
    ∀ es : List Expr, RRel t (All2 MP) (evalList P env es) (evalList P env' es)
  | [] => by simp only [evalList]; exact rrel_okM .nil
  | e :: es => by
    simp only [evalList, Res.bind_eq]
    refine RRel.bind (eval_mp P hP he e) (fun v v' hv => ?_)
    refine RRel.bind (evalList_mp P hP he es) (fun vs vs' hvs => ?_)
    exact rrel_okM (All2.cons hv hvs)
end

/-- `Expression.Evaluate` -/
theorem evaluate_mp (P : Prims) (hP : PrimsRespectM t P) {env env' : Env} (he : EnvRelM env env') (e : Expr) :
    RRel t UMP (evaluate P env e) (evaluate P env' e) := by
  unfold evaluate
  have h := eval_mp P hP he e
  cases h1 : eval P env e <;> cases h2 : eval P env' e <;> rw [h1, h2] at h <;> simp only [RRel] at h ⊢ <;> first
    | exact ⟨Unw.unwrap _, Unw.unwrap _, h.unwrap⟩
    | exact h

/-! ## Rendering -/

/-- what the congruence theorem needs from the output layer: related values print alike -/
structure OutRespectM (t : Bool) (O : OutPrims) : Prop where
  chunks : ∀ v v', UMP v v' → RRel t Eq (O.chunks v) (O.chunks v')

/-- the include handler gives the same result for related variables -/
def IncRespectM (t : Bool) (c : RCtx) : Prop :=
  ∀ line f env env', EnvRelM env env' → PRel t Eq (c.inc line f env) (c.inc line f env')

theorem ump_cases {v v' : GoVal} (h : UMP v v') : v' = v ∨ (rigidM v = false ∧ rigidM v' = false) :=
  h.2.2.cases_rigid

/-- read the variables and evaluate an expression -/
theorem mrelM_evaluate (P : Prims) (hP : PrimsRespectM t P) (e : Expr) {β} {S : β → β → Prop} {f f' : GoVal → M β}
    (hf : ∀ v v', UMP v v' → MRelM t S (f v) (f' v')) :
    MRelM t S (do let env ← M.getEnv; let v ← M.ofRes (evaluate P env e); f v)
           (do let env ← M.getEnv; let v ← M.ofRes (evaluate P env e); f' v) :=
  mrelM_bind mrelM_getEnv (fun _ _ he => mrelM_bind (mrelM_ofRes (evaluate_mp P hP he e)) hf)

theorem ump_test {v v' : GoVal} (h : UMP v v') : v.test = v'.test := test_mp h.2.2

theorem mrelM_evalCond (P : Prims) (hP : PrimsRespectM t P) (path : Bytes) (ct : CondT) :
    MRelM t Eq (evalCond P path ct) (evalCond P path ct) := by
  unfold evalCond
  refine mrelM_bind mrelM_getEnv (fun env env' he => ?_)
  cases ct with
  | always => exact mrelM_pure rfl
  | expr line e =>
    exact mrelM_wrapFailAt _ _ (mrelM_bind (mrelM_ofRes (evaluate_mp P hP he e)) (fun v v' hv => mrelM_pure (ump_test hv)))
  | notExpr line e =>
    exact mrelM_wrapFailAt _ _ (mrelM_bind (mrelM_ofRes (evaluate_mp P hP he e))
      (fun v v' hv => mrelM_pure (by rw [ump_test hv])))

theorem mrelM_intModifier (P : Prims) (hP : PrimsRespectM t P) (e : Option Expr) (loc : Loc) :
    MRelM t Eq (intModifier P e loc) (intModifier P e loc) := by
  unfold intModifier
  cases e with
  | none => exact mrelM_pure rfl
  | some ex =>
    refine mrelM_evaluate P hP ex (fun v v' hv => ?_)
    rcases ump_cases hv with rfl | ⟨h1, h2⟩
    · split
      · exact mrelM_pure rfl
      · exact mrelM_fail _
    · cases v <;> simp [rigidM] at h1 <;> cases v' <;> simp [rigidM] at h2 <;> exact mrelM_fail _

theorem mrelM_tablerowCols (P : Prims) (hP : PrimsRespectM t P) (tr : Bool) (cols : Option Expr) (loc : Loc) :
    MRelM t Eq (tablerowCols P tr cols loc) (tablerowCols P tr cols loc) := by
  unfold tablerowCols
  split
  · refine mrelM_bind (mrelM_intModifier P hP _ _) (fun cv cv' h => ?_)
    subst h
    cases cv <;> exact mrelM_pure rfl
  · exact mrelM_pure rfl

theorem mrelM_iterate (var : Bytes) (cols : Option Nat) {body : M Status} (hb : MRelM t Eq body body) (n : Nat) :
    ∀ {xs xs' : List GoVal}, All2 MP xs xs' → ∀ i cyc,
      MRelM t Eq (iterateM var cols body n xs i cyc) (iterateM var cols body n xs' i cyc) := by
  intro xs xs' h
  induction h with
  | nil => intro i cyc; exact mrelM_pure rfl
  | @cons x x' ys ys' hx _ ih =>
    intro i cyc
    unfold iterateM
    refine mrelM_bind (mrelM_setVar _ hx) (fun _ _ _ => mrelM_bind (mrelM_setVar _ (MP.refl _)) (fun _ _ _ => ?_))
    refine mrelM_bind (R := fun _ _ => True) ?_ (fun _ _ _ => mrelM_bind hb (fun st st' hst => mrelM_bind (R := fun _ _ => True) ?_ (fun _ _ _ =>
      mrelM_bind (mrelM_getVar _) (fun cur cur' hc => ?_))))
    · cases cols with
      | none => exact mrelM_pure trivial
      | some c => exact (mrelM_tablerowBefore c i).mono_rel (fun _ _ _ => trivial)
    · cases cols with
      | none => exact mrelM_pure trivial
      | some c => exact (mrelM_tablerowAfter c i n).mono_rel (fun _ _ _ => trivial)
    · subst hst
      have key : ∀ c1 c2 : List (GoVal × GoVal), c1 = c2 →
          MRelM t Eq (match st with | .brk _ => pure .done | _ => iterateM var cols body n ys (i + 1) c1)
                  (match st with | .brk _ => pure .done | _ => iterateM var cols body n ys' (i + 1) c2) := by
        intro c1 c2 h12
        subst h12
        cases st with
        | brk e => exact mrelM_pure rfl
        | done => exact ih _ _
        | cont e => exact ih _ _
      rcases hc.cyclesOf with rfl | ⟨h1, h2⟩
      · exact key _ _ rfl
      · simp only [h1, h2]
        exact key _ _ rfl

theorem mrelM_loopIterate (P : Prims) (hP : PrimsRespectM t P) (loc : Loc) (tr : Bool) (var : Bytes) (colsE : Option Expr)
    {bodyM : M Status} (hb : MRelM t Eq bodyM bodyM) {items items' : List GoVal} (h : All2 MP items items') :
    MRelM t Eq (loopIterate P loc tr var colsE bodyM items) (loopIterate P loc tr var colsE bodyM items') := by
  unfold loopIterate
  refine mrelM_bind (mrelM_tablerowCols P hP _ _ _) (fun cols cols' hc => ?_)
  subst hc
  refine mrelM_bind (mrelM_getVar _) (fun pl pl' hpl => mrelM_bind (mrelM_getVar _) (fun pv pv' hpv => ?_))
  rw [h.length_eq]
  refine mrelM_bind (mrelM_iterate var cols hb _ h 0 []) (fun st st' hst => ?_)
  subst hst
  refine mrelM_bind (R := fun _ _ => True) ?_ (fun _ _ _ => mrelM_pure rfl)
  unfold restoreLoopVars
  exact mrelM_bind (mrelM_setVar _ hpl) (fun _ _ _ => mrelM_setVar _ hpv)

theorem mrelM_loopDispatch (P : Prims) (hP : PrimsRespectM t P) (loc : Loc) (tr : Bool) (var : Bytes) (colsE : Option Expr)
    {bodyM : M Status} (hb : MRelM t Eq bodyM bodyM) (elseM : Option (M Status)) (he : ∀ m, elseM = some m → MRelM t Eq m m)
    {items items' : List GoVal} (h : All2 MP items items') :
    MRelM t Eq (loopDispatch P loc tr var colsE bodyM elseM items) (loopDispatch P loc tr var colsE bodyM elseM items') := by
  cases h with
  | nil =>
    unfold loopDispatch
    split
    · next els _ => exact he _ rfl
    · exact mrelM_loopIterate P hP loc tr var colsE hb .nil
  | cons hx hxs =>
    unfold loopDispatch
    exact mrelM_loopIterate P hP loc tr var colsE hb (.cons hx hxs)

theorem loopItems_mp {budget : Int} {v v' : GoVal} (h : UMP v v') : RRel t (All2 MP) (loopItems budget v) (loopItems budget v') := by
  rcases loopItems_mp_cases h.2.2 with ⟨xs, xs', h1, h2, hn⟩ | ⟨h1, h2⟩
  · rw [h1, h2]; exact hn.all2
  · rw [← h1]
    cases hl : loopItems budget v with
    | ok xs => exact absurd hl (h2 xs)
    | _ => simp [RRel]

theorem all2_selectItemsM {xs xs' : List GoVal} (h : All2 MP xs xs') (rev : Bool) (off lim : Option Int) :
    All2 MP (selectItems rev off lim xs) (selectItems rev off lim xs') := by
  exact (selectItems_mp h.mpl rev off lim).all2

theorem mrelM_loopRun {budget : Int} (P : Prims) (hP : PrimsRespectM t P) (path : Bytes) (loc : Loc) (tr : Bool) (var : Bytes) (e : Expr)
    (mods : LoopMods) {bodyM : M Status} (hb : MRelM t Eq bodyM bodyM) (tooMany : Bool)
    (elseM : Option (M Status)) (he : ∀ m, elseM = some m → MRelM t Eq m m) :
    MRelM t Eq (loopRun budget P path loc tr var e mods bodyM tooMany elseM) (loopRun budget P path loc tr var e mods bodyM tooMany elseM) := by
  unfold loopRun
  refine mrelM_wrapAt _ _ (mrelM_evaluate P hP e (fun v v' hv => ?_))
  refine mrelM_bind (mrelM_ofRes (loopItems_mp hv)) (fun items items' hi => ?_)
  refine mrelM_bind (mrelM_intModifier P hP _ _) (fun off off' ho => ?_)
  subst ho
  refine mrelM_bind (mrelM_intModifier P hP _ _) (fun lim lim' hl => ?_)
  subst hl
  split
  · exact mrelM_fail _
  · exact mrelM_loopDispatch P hP loc tr var mods.cols hb elseM he (all2_selectItemsM hi _ _ _)

theorem mrelM_inc (c : RCtx) (hI : IncRespectM t c) (line : Nat) (f : Bytes) {env env' : Env} (he : EnvRelM env env') :
    MRelM t Eq (fun s => (c.inc line f env).bind (fun r => .ret (r, s)) : M (Status × Bytes))
            (fun s => (c.inc line f env').bind (fun r => .ret (r, s)) : M (Status × Bytes)) :=
  fun _ _ hs => PRel.bind (hI line f env env' he) (fun _ _ h => .ret ⟨h, hs⟩)

/-! ## The congruence: a fragment rendered from related states -/

mutual
theorem mp_renderNode (c : RCtx) (hP : PrimsRespectM t c.P) (hO : OutRespectM t c.O) (hI : IncRespectM t c) :
    ∀ n : Node, MRelM t Eq (renderNode c n) (renderNode c n)
  | .text line src => by
    unfold renderNode
    exact mrelM_wrapFailAt _ _ (mrelM_bind (mrelM_write _) (fun _ _ _ => mrelM_pure rfl))
  | .obj line e => by
    unfold renderNode
    refine mrelM_wrapFailAt _ _ (mrelM_evaluate c.P hP e (fun v v' hv => ?_))
    rw [isNil_mp hv.2.2]
    split
    · exact mrelM_fail _
    · exact mrelM_bind (mrelM_ofRes (hO.chunks v v' hv)) (fun cs cs' h => by
        subst h; exact mrelM_bind (mrelM_writeAll _) (fun _ _ _ => mrelM_pure rfl))
  | .raw slices => by
    unfold renderNode
    exact mrelM_wrapFailAt _ _ (mrelM_bind (mrelM_writeAll _) (fun _ _ _ => mrelM_pure rfl))
  | .trim true => by
    unfold renderNode
    exact mrelM_wrapFailAt _ _ (mrelM_bind mrelM_trimLeft (fun _ _ _ => mrelM_pure rfl))
  | .trim false => by
    unfold renderNode
    exact mrelM_bind mrelM_trimRight (fun _ _ _ => mrelM_pure rfl)
  | .assign line x e => by
    unfold renderNode
    exact mrelM_wrapFailAt _ _ (mrelM_evaluate c.P hP e (fun v v' hv =>
      mrelM_bind (mrelM_setVar _ hv.2.2) (fun _ _ _ => mrelM_pure rfl)))
  | .capture line x body => by
    unfold renderNode
    refine mrelM_wrapAt _ _ (mrelM_bind (mrelM_capture (mp_renderList c hP hO hI body)) (fun r r' h => ?_))
    obtain ⟨st, out⟩ := r
    obtain ⟨st', out'⟩ := r'
    obtain ⟨h1, h2⟩ := h
    simp only at h1 h2
    subst h1 h2
    cases st with
    | done => exact mrelM_bind (mrelM_setVar _ (MP.refl _)) (fun _ _ _ => mrelM_pure rfl)
    | brk e => exact mrelM_pure rfl
    | cont e => exact mrelM_pure rfl
  | .ifB line branches => by
    unfold renderNode
    exact mrelM_wrapAt _ _ (mp_renderBranches c hP hO hI branches)
  | .caseB line subject cases => by
    unfold renderNode
    exact mrelM_wrapAt _ _ (mrelM_evaluate c.P hP subject (fun sel sel' hs => mp_renderCases c hP hO hI hs cases))
  | .loop line tablerow var e mods body clauses => by
    have hb := mp_renderBlockBody c hP hO hI body
    unfold renderNode
    simp only
    split
    · exact mrelM_loopRun _ hP _ _ _ _ _ _ hb _ none (fun _ h => by cases h)
    · next els =>
      exact mrelM_loopRun _ hP _ _ _ _ _ _ hb _ (some _)
        (fun m h => by cases h; exact mp_renderBlockBody c hP hO hI els)
    · exact mrelM_loopRun _ hP _ _ _ _ _ _ hb _ none (fun _ h => by cases h)
  | .cycle line group v0 rest => by
    unfold renderNode
    refine mrelM_wrapFailAt _ _ (mrelM_bind (mrelM_getVar _) (fun lv lv' hl => ?_))
    rcases hl.cyclesOf with rfl | ⟨h1, h2⟩
    · split
      · exact mrelM_fail _
      · exact mrelM_bind (mrelM_setVar _ (MP.refl _)) (fun _ _ _ => mrelM_bind (mrelM_writeVerbatim _) (fun _ _ _ => mrelM_pure rfl))
    · simp only [h1, h2]
      exact mrelM_fail _
  | .brk line => by unfold renderNode; exact mrelM_pure rfl
  | .cont line => by unfold renderNode; exact mrelM_pure rfl
  | .incl line args => by
    unfold renderNode
    refine mrelM_wrapAt _ _ (mrelM_bind mrelM_getEnv (fun env env' he => mrelM_bind (mrelM_ofRes (RRel.of_eq (R := Eq) (fun _ => rfl) rfl)) (fun e e' hee => ?_)))
    subst hee
    refine mrelM_bind (mrelM_ofRes (evaluate_mp c.P hP he e)) (fun v v' hv => ?_)
    rcases ump_cases hv with rfl | ⟨h1, h2⟩
    · split
      · next rel =>
        refine mrelM_bind (mrelM_inc c hI _ _ he) (fun r r' h => ?_)
        subst h
        obtain ⟨st, out⟩ := r
        cases st with
        | done => exact mrelM_bind (mrelM_writeVerbatim _) (fun _ _ _ => mrelM_pure rfl)
        | brk e => exact mrelM_pure rfl
        | cont e => exact mrelM_pure rfl
      · exact mrelM_fail _
    · cases v <;> simp [rigidM] at h1 <;> cases v' <;> simp [rigidM] at h2 <;> exact mrelM_fail _
theorem mp_renderList (c : RCtx) (hP : PrimsRespectM t c.P) (hO : OutRespectM t c.O) (hI : IncRespectM t c) :
    ∀ ns : List Node, MRelM t Eq (renderList c ns) (renderList c ns)
  | [] => by unfold renderList; exact mrelM_pure rfl
  | n :: ns => by
    unfold renderList
    refine mrelM_bind (mp_renderNode c hP hO hI n) (fun st st' h => ?_)
    subst h
    cases st with
    | done => exact mp_renderList c hP hO hI ns
    | brk e => exact mrelM_pure rfl
    | cont e => exact mrelM_pure rfl
theorem mp_renderBlockBody (c : RCtx) (hP : PrimsRespectM t c.P) (hO : OutRespectM t c.O) (hI : IncRespectM t c) (body : List Node) :
    MRelM t Eq (renderBlockBody c body) (renderBlockBody c body) := by
  unfold renderBlockBody
  refine mrelM_bind (mp_renderList c hP hO hI body) (fun st st' h => ?_)
  subst h
  cases st with
  | done => exact mrelM_bind (mrelM_wrapFailAt _ _ mrelM_flush) (fun _ _ _ => mrelM_pure rfl)
  | brk e => exact mrelM_pure rfl
  | cont e => exact mrelM_pure rfl
theorem mp_renderBranches (c : RCtx) (hP : PrimsRespectM t c.P) (hO : OutRespectM t c.O) (hI : IncRespectM t c) :
    ∀ bs : List (CondT × List Node), MRelM t Eq (renderBranches c bs) (renderBranches c bs)
  | [] => by unfold renderBranches; exact mrelM_pure rfl
  | (t, body) :: rest => by
    unfold renderBranches
    refine mrelM_bind (mrelM_evalCond _ hP _ _) (fun b b' h => ?_)
    subst h
    split
    · exact mp_renderBlockBody c hP hO hI body
    · exact mp_renderBranches c hP hO hI rest
theorem mp_renderCases (c : RCtx) (hP : PrimsRespectM t c.P) (hO : OutRespectM t c.O) (hI : IncRespectM t c)
    {sel sel' : GoVal} (hs : UMP sel sel') :
    ∀ cs : List (Option (Nat × List Expr) × List Node), MRelM t Eq (renderCases c sel cs) (renderCases c sel' cs)
  | [] => by unfold renderCases; exact mrelM_pure rfl
  | (none, body) :: rest => by
    unfold renderCases
    exact mp_renderBlockBody c hP hO hI body
  | (some (line, es), body) :: rest => by
    unfold renderCases
    refine mrelM_bind (mrelM_wrapFailAt _ _ (mp_whenMatches c hP hs es)) (fun hit hit' h => ?_)
    subst h
    split
    · exact mp_renderBlockBody c hP hO hI body
    · exact mp_renderCases c hP hO hI hs rest
theorem mp_whenMatches (c : RCtx) (hP : PrimsRespectM t c.P) {sel sel' : GoVal} (hs : UMP sel sel') :
    ∀ es : List Expr, MRelM t Eq (whenMatches c sel es) (whenMatches c sel' es)
  | [] => by unfold whenMatches; exact mrelM_pure rfl
  | e :: es => by
    unfold whenMatches
    refine mrelM_evaluate c.P hP e (fun v v' hv => ?_)
    refine mrelM_bind (mrelM_ofRes (hP.equalFn sel sel' v v' hs hv)) (fun eq eq' h => ?_)
    subst h
    split
    · exact mrelM_pure rfl
    · exact mp_whenMatches c hP hs es
end

/-! ## Whole renders -/

theorem mp_renderRoot (c : RCtx) (hP : PrimsRespectM t c.P) (hO : OutRespectM t c.O) (hI : IncRespectM t c)
    (root : List Node) {env env' : Env} (he : EnvRelM env env') :
    PRel t Eq (renderRoot c root env) (renderRoot c root env') := by
  unfold renderRoot
  refine PRel.bind (mp_renderList c hP hO hI root _ _ ⟨he, rfl⟩) (fun ⟨st, s⟩ ⟨st', s'⟩ h => ?_)
  obtain ⟨h1, h2⟩ := h
  simp only at h1 h2
  subst h1
  cases st with
  | done => exact PRel.bind (mrelM_wrapFailAt _ _ mrelM_flush s s' h2) (fun _ _ _ => .ret rfl)
  | brk e => exact .ret rfl
  | cont e => exact .ret rfl

theorem renderFileWith_mp (P : Prims) (O : OutPrims) (cfg : Cfg) (fs : FS)
    (inner : Nat → Bytes → Env → Prog (Status × Bytes)) (hP : PrimsRespectM t P) (hO : OutRespectM t O)
    (hI : IncRespectM t { P := P, O := O, cfg := cfg, inc := inner }) (line : Nat) (filename : Bytes)
    {env env' : Env} (he : EnvRelM env env') :
    PRel t Eq (renderFileWith P O cfg fs inner line filename env) (renderFileWith P O cfg fs inner line filename env') := by
  unfold renderFileWith
  simp only
  split
  · exact .fail _
  · split
    · exact .fail _
    · exact .panic _
    · exact .unmodelled _
    · next root _ =>
      have hr := (mp_renderRoot { P := P, O := O, cfg := cfg, inc := inner } hP hO hI root he).runPure
      revert hr
      generalize (renderRoot { P := P, O := O, cfg := cfg, inc := inner } root env).runPure = q
      generalize (renderRoot { P := P, O := O, cfg := cfg, inc := inner } root env').runPure = q'
      obtain ⟨out, o⟩ := q
      obtain ⟨out', o'⟩ := q'
      intro hr
      simp only at hr
      obtain ⟨h2, h1⟩ := hr
      cases o <;> cases o' <;> simp only [ORel] at h2 <;> first
        | (next st st' =>
            subst h2
            have := h1 _ _ rfl rfl
            subst this
            cases st <;> exact .ret rfl)
        | (subst h2; first | exact .fail _ | exact .panic _)
        | exact .unmL h2 _ _
        | exact .unmR h2 _ _
        | (rcases h2 with h2 | h2
           · exact .unmL h2 _ _
           · subst h2; exact .unmodelled _)

theorem incRespectM_mkCtx (P : Prims) (O : OutPrims) (cfg : Cfg) (fs : FS) (hP : PrimsRespectM t P) (hO : OutRespectM t O) :
    ∀ fuel, IncRespectM t (mkCtx P O cfg fs fuel)
  | 0 => fun _ _ _ _ _ => PRel.refl (fun _ => rfl) _
  | n + 1 => by
    intro line f env env' he
    have ih := incRespectM_mkCtx P O cfg fs hP hO n
    exact renderFileWith_mp P O cfg fs _ hP hO ih line f he

/-- rendering a compiled template against related variables: the same writes, the same outcome -/
theorem frender_mp (P : Prims) (O : OutPrims) (cfg : Cfg) (fs : FS) (fuel : Nat) (hP : PrimsRespectM t P) (hO : OutRespectM t O)
    (root : List Node) {env env' : Env} (he : EnvRelM env env') :
    PRel t Eq (frender P O cfg fs fuel root env) (frender P O cfg fs fuel root env') := by
  unfold frender
  exact PRel.bind (mp_renderRoot (mkCtx P O cfg fs fuel) hP hO (incRespectM_mkCtx P O cfg fs hP hO fuel) root he)
    (fun st st' h => by subst h; exact PRel.refl (fun _ => rfl) _)

theorem run_mp (P : Prims) (O : OutPrims) (cfg : Cfg) (fs : FS) (fuel : Nat) (hP : PrimsRespectM t P) (hO : OutRespectM t O)
    (src : Bytes) (line : Nat) {env env' : Env} (he : EnvRelM env env') :
    RunAgree t (run P O cfg fs fuel src line env) (run P O cfg fs fuel src line env') := by
  unfold run
  split
  · exact RunAgree.refl _
  · exact RunAgree.refl _
  · exact RunAgree.refl _
  · next root _ =>
    have hr := (frender_mp P O cfg fs fuel hP hO root he).runPure
    revert hr
    generalize (frender P O cfg fs fuel root env).runPure = q
    generalize (frender P O cfg fs fuel root env').runPure = q'
    obtain ⟨out, o⟩ := q
    obtain ⟨out', o'⟩ := q'
    intro hr
    simp only at hr
    obtain ⟨h2, h1⟩ := hr
    cases o with
    | ok a =>
      cases o' with
      | ok a' => have := h1 _ _ rfl rfl; subst this; exact RunAgree.refl _
      | unmodelled w => exact RunAgree.unmR h2 _ _
      | err e => exact absurd h2 id
      | panic w => exact absurd h2 id
    | err e =>
      cases o' with
      | err e' => simp only [ORel] at h2; subst h2; cases e <;> exact RunAgree.refl _
      | unmodelled w => exact RunAgree.unmR h2 _ _
      | ok a => exact absurd h2 id
      | panic w => exact absurd h2 id
    | panic w =>
      cases o' with
      | panic w' => simp only [ORel] at h2; subst h2; exact RunAgree.refl _
      | unmodelled w => exact RunAgree.unmR h2 _ _
      | ok a => exact absurd h2 id
      | err e => exact absurd h2 id
    | unmodelled w =>
      cases o' with
      | unmodelled w' =>
        rcases h2 with h3 | h3
        · exact RunAgree.unmL h3 _ _
        · subst h3; exact RunAgree.refl _
      | ok a => exact RunAgree.unmL h2 _ _
      | err e => exact RunAgree.unmL h2 _ _
      | panic w => exact RunAgree.unmL h2 _ _
