import Proofs.E2ELex
/-!
# The tokenizer on the spelling of a clean template: `scanWith (tokenRe d) d (spell d items) = tokensOf d items`
-/

/-! ## The whole pattern at the head of an item -/

theorem ol_not_prefix_tag (d : Delims) (hg : GoodDelims d) (x : Bytes) : ¬ d.ol <+: d.tl ++ x := by
  obtain ⟨_, _, _, _, _, _, _, _, h1, h2⟩ := hg
  intro h
  rcases List.prefix_or_prefix_of_prefix h (List.prefix_append d.tl x) with h | h
  · exact h1 h
  · exact h2 h

theorem matchAt_obj (d : Delims) (hg : GoodDelims d) (args : Bytes) (hl hr : Bool) (wl wr rest : Bytes)
    (hci : CleanItem d (.obj args hl hr wl wr)) (hcc : CleanClose d (.obj args hl hr wl wr))
    (p mf : Nat) (hmf : wl.length + args.length + wr.length ≤ mf) :
    (tokenRe d).matchAt mf ((Item.obj args hl hr wl wr).spell d ++ rest) p =
      some (p + ((Item.obj args hl hr wl wr).spell d).length,
        [⟨1, p + (d.ol.length + ((hyB hl).length + wl.length)), p + (d.ol.length + ((hyB hl).length + wl.length)) + args.length⟩]) := by
  rw [tokenRe_eq, matchAt_eq, alt_m, objRe_m d hg args hl hr wl wr rest hci hcc p mf hmf]

theorem matchAt_tag (d : Delims) (hg : GoodDelims d) (name args : Bytes) (hl hr : Bool) (wl wm wr rest : Bytes)
    (hci : CleanItem d (.tag name args hl hr wl wm wr)) (hcc : CleanClose d (.tag name args hl hr wl wm wr))
    (p mf : Nat) (hmf : wl.length + name.length + (tagArgPart args wm).length + wr.length ≤ mf) :
    (tokenRe d).matchAt mf ((Item.tag name args hl hr wl wm wr).spell d ++ rest) p =
      some (p + ((Item.tag name args hl hr wl wm wr).spell d).length,
        tagCaps (p + (d.tl.length + ((hyB hl).length + wl.length))) name args wm) := by
  rw [tokenRe_eq, matchAt_eq, alt_m]
  have hnone : (objReOf d).m mf ((Item.tag name args hl hr wl wm wr).spell d ++ rest) p [] kfin = none := by
    rw [objReOf, seq_m]
    refine lit_m_fail mf _ _ _ _ _ ?_
    have : (Item.tag name args hl hr wl wm wr).spell d ++ rest = d.tl ++
        ((hyB hl ++ (wl ++ (name ++ (tagArgPart args wm ++ (wr ++ (hyB hr ++ d.tr)))))) ++ rest) := by
      simp [Item.spell, List.append_assoc]
    rw [this]
    exact ol_not_prefix_tag d hg _
  rw [hnone, tagRe_m d hg name args hl hr wl wm wr rest hci hcc p mf hmf]

/-! ## Hyphen detection on a spelled item -/

def LastNe45 (x : Bytes) : Prop := x.getLast? ≠ some 45

theorem lastNe45_append_right {a b : Bytes} (hb : b ≠ []) (h : LastNe45 b) : LastNe45 (a ++ b) := by
  unfold LastNe45 at *
  rw [List.getLast?_append]
  cases hbl : b.getLast? with
  | none => exact absurd (List.getLast?_eq_none_iff.mp hbl) hb
  | some z => rw [hbl] at h; simpa using h

theorem lastNe45_append_nil {a b : Bytes} (hb : b = []) (h : LastNe45 a) : LastNe45 (a ++ b) := by
  subst hb; simpa using h

theorem lastNe45_of_all {pr : Pred} {ws : Bytes} (hall : AllP pr ws) (hq : ∀ x, pr.test x = true → x ≠ 45) : LastNe45 ws := by
  unfold LastNe45
  intro h
  exact hq 45 (hall 45 (List.mem_of_getLast? h)) rfl

theorem lastNe45_of_lastOk {a : Bytes} (h : lastOk a) : LastNe45 a := by
  unfold LastNe45
  unfold lastOk at h
  intro e
  rw [e] at h
  exact h.2 rfl

theorem space_ne45 (x : UInt8) (h : Pred.test .space x = true) : x ≠ 45 := by
  rintro rfl; revert h; decide

theorem word_ne45 (x : UInt8) (h : Pred.test .word x = true) : x ≠ 45 := by
  rintro rfl; revert h; decide

/-- the byte after the opening delimiter is a hyphen exactly when the item has a left hyphen -/
theorem isHyphenAt_left (l : Bytes) (b : Bool) (t : Bytes) (ht : b = false → HeadNot (.eq 45) t) :
    isHyphenAt (l ++ (hyB b ++ t)) l.length = b := by
  unfold isHyphenAt
  rw [List.getElem?_append_right (Nat.le_refl _), Nat.sub_self]
  cases b with
  | true => rfl
  | false =>
    rw [show hyB false = [] from rfl, List.nil_append]
    cases t with
    | nil => rfl
    | cons x xs =>
      have := ht rfl x xs rfl
      simp only [Pred.test] at this
      simp [this]

/-- the byte before the closing delimiter is a hyphen exactly when the item has a right hyphen -/
theorem isHyphenAt_right (pre : Bytes) (b : Bool) (l : Bytes) (hne : pre ≠ []) (hp : b = false → LastNe45 pre) :
    isHyphenAt (pre ++ (hyB b ++ l)) ((pre ++ (hyB b ++ l)).length - l.length - 1) = b := by
  unfold isHyphenAt
  cases b with
  | true =>
    have : (pre ++ (hyB true ++ l)).length - l.length - 1 = pre.length := by
      simp [hyB]; omega
    rw [this, List.getElem?_append_right (Nat.le_refl _), Nat.sub_self]
    rfl
  | false =>
    have hpos : 0 < pre.length := List.length_pos_iff.mpr hne
    have : (pre ++ (hyB false ++ l)).length - l.length - 1 = pre.length - 1 := by
      simp [hyB]
    rw [this, List.getElem?_append_left (by omega), ← List.getLast?_eq_getElem?]
    have := hp rfl
    unfold LastNe45 at this
    cases h : pre.getLast? with
    | none => rfl
    | some z =>
      rw [h] at this
      have hz : z ≠ 45 := fun e => this (by rw [e])
      simp [hz]

/-! ## `tokensOfMatch` on the match of an item -/

theorem subAt_mid (a b c : Bytes) (ts : Nat) :
    subAt (a ++ (b ++ c)) ts (ts + a.length) (ts + a.length + b.length) = b := by
  unfold subAt
  rw [show ts + a.length - ts = a.length by omega, show ts + a.length + b.length - (ts + a.length) = b.length by omega,
    List.drop_left' rfl, List.take_left' rfl]

theorem tokensOfMatch_obj (d : Delims) (args : Bytes) (hl hr : Bool) (wl wr : Bytes)
    (hci : CleanItem d (.obj args hl hr wl wr)) (p line : Nat) :
    tokensOfMatch d ((Item.obj args hl hr wl wr).spell d) p
      [⟨1, p + (d.ol.length + ((hyB hl).length + wl.length)), p + (d.ol.length + ((hyB hl).length + wl.length)) + args.length⟩] line =
    (Item.obj args hl hr wl wr).tokens d line := by
  obtain ⟨hwl, hwr, hane, hah, hah2, hal⟩ := hci
  have hpre : isPrefixOfB d.ol ((Item.obj args hl hr wl wr).spell d) = true :=
    (isPrefixOfB_iff _ _).mpr ⟨_, rfl⟩
  have hargs : subAt ((Item.obj args hl hr wl wr).spell d) p (p + (d.ol.length + ((hyB hl).length + wl.length)))
      (p + (d.ol.length + ((hyB hl).length + wl.length)) + args.length) = args := by
    have e : (Item.obj args hl hr wl wr).spell d = (d.ol ++ (hyB hl ++ wl)) ++ (args ++ (wr ++ (hyB hr ++ d.or))) := by
      simp [Item.spell, List.append_assoc]
    have := subAt_mid (d.ol ++ (hyB hl ++ wl)) args (wr ++ (hyB hr ++ d.or)) p
    simp only [List.length_append] at this
    rw [e]; exact this
  have hL : isHyphenAt ((Item.obj args hl hr wl wr).spell d) d.ol.length = hl := by
    refine isHyphenAt_left d.ol hl _ ?_
    intro hhl
    cases wl with
    | nil => rw [List.nil_append]; exact headNot_append_of_ne hane (hah2 ⟨hhl, rfl⟩)
    | cons w ws => exact headNot_cons (space_not_hyphen (hwl w (List.mem_cons_self ..)))
  have hR : isHyphenAt ((Item.obj args hl hr wl wr).spell d) (((Item.obj args hl hr wl wr).spell d).length - d.or.length - 1) = hr := by
    have e : (Item.obj args hl hr wl wr).spell d = (d.ol ++ (hyB hl ++ (wl ++ (args ++ wr)))) ++ (hyB hr ++ d.or) := by
      simp [Item.spell, List.append_assoc]
    rw [e]
    refine isHyphenAt_right _ hr d.or ?_ ?_
    · intro h
      have := congrArg List.length h
      simp only [List.length_append, List.length_nil] at this
      have : 0 < args.length := List.length_pos_iff.mpr hane
      omega
    · intro _
      refine lastNe45_append_right ?_ (lastNe45_append_right ?_ (lastNe45_append_right ?_ ?_)) <;> try (simp [hane])
      by_cases hw : wr = []
      · exact lastNe45_append_nil hw (lastNe45_of_lastOk hal)
      · exact lastNe45_append_right hw (lastNe45_of_all hwr space_ne45)
  unfold tokensOfMatch
  rw [if_pos hpre]
  simp only [Caps.find, List.find?_cons, beq_self_eq_true, hargs, hL, hR]
  rfl

theorem tokensOfMatch_tag (d : Delims) (hg : GoodDelims d) (name args : Bytes) (hl hr : Bool) (wl wm wr : Bytes)
    (hci : CleanItem d (.tag name args hl hr wl wm wr)) (p line : Nat) :
    tokensOfMatch d ((Item.tag name args hl hr wl wm wr).spell d) p
      (tagCaps (p + (d.tl.length + ((hyB hl).length + wl.length))) name args wm) line =
    (Item.tag name args hl hr wl wm wr).tokens d line := by
  obtain ⟨hwl, hwm, hwr, hnne, hnw, hnoargs, hargs⟩ := hci
  have hnpos : 0 < name.length := List.length_pos_iff.mpr hnne
  have hpre0 : isPrefixOfB d.ol ((Item.tag name args hl hr wl wm wr).spell d) = false := by
    cases h : isPrefixOfB d.ol ((Item.tag name args hl hr wl wm wr).spell d) with
    | false => rfl
    | true => exact absurd ((isPrefixOfB_iff _ _).mp h) (ol_not_prefix_tag d hg _)
  have hpre : isPrefixOfB d.tl ((Item.tag name args hl hr wl wm wr).spell d) = true :=
    (isPrefixOfB_iff _ _).mpr ⟨_, rfl⟩
  have hname : subAt ((Item.tag name args hl hr wl wm wr).spell d) p (p + (d.tl.length + ((hyB hl).length + wl.length)))
      (p + (d.tl.length + ((hyB hl).length + wl.length)) + name.length) = name := by
    have e : (Item.tag name args hl hr wl wm wr).spell d =
        (d.tl ++ (hyB hl ++ wl)) ++ (name ++ (tagArgPart args wm ++ (wr ++ (hyB hr ++ d.tr)))) := by
      simp [Item.spell, List.append_assoc]
    have := subAt_mid (d.tl ++ (hyB hl ++ wl)) name (tagArgPart args wm ++ (wr ++ (hyB hr ++ d.tr))) p
    simp only [List.length_append] at this
    rw [e]; exact this
  have hL : isHyphenAt ((Item.tag name args hl hr wl wm wr).spell d) d.tl.length = hl := by
    refine isHyphenAt_left d.tl hl _ ?_
    intro _
    cases wl with
    | nil =>
      rw [List.nil_append]
      cases name with
      | nil => exact absurd rfl hnne
      | cons n0 ns => exact headNot_cons (word_not_hyphen (hnw n0 (List.mem_cons_self ..)))
    | cons w ws => exact headNot_cons (space_not_hyphen (hwl w (List.mem_cons_self ..)))
  have hR : isHyphenAt ((Item.tag name args hl hr wl wm wr).spell d)
      (((Item.tag name args hl hr wl wm wr).spell d).length - d.tr.length - 1) = hr := by
    have e : (Item.tag name args hl hr wl wm wr).spell d =
        (d.tl ++ (hyB hl ++ (wl ++ (name ++ (tagArgPart args wm ++ wr))))) ++ (hyB hr ++ d.tr) := by
      simp [Item.spell, List.append_assoc]
    rw [e]
    refine isHyphenAt_right _ hr d.tr ?_ ?_
    · intro h
      have := congrArg List.length h
      simp only [List.length_append, List.length_nil] at this
      omega
    · intro _
      refine lastNe45_append_right ?_ (lastNe45_append_right ?_ (lastNe45_append_right ?_ ?_)) <;> try (simp [hnne])
      by_cases hw : wr = []
      · subst hw
        rw [List.append_nil]
        unfold tagArgPart
        split
        · exact lastNe45_append_nil rfl (lastNe45_of_all hnw word_ne45)
        · next hane =>
          obtain ⟨_, _, hal, _⟩ := hargs hane
          exact lastNe45_append_right (by simp [hane]) (lastNe45_append_right hane (lastNe45_of_lastOk hal))
      · exact lastNe45_append_right (by simp [hw]) (lastNe45_append_right hw (lastNe45_of_all hwr space_ne45))
  unfold tokensOfMatch
  rw [if_neg (by rw [hpre0]; simp), if_pos hpre]
  by_cases hane : args = []
  · subst hane
    simp only [tagCaps, if_true, Caps.find, List.find?_cons, List.find?_nil, beq_self_eq_true, hname, hL, hR]
    rfl
  · have hargsEq : subAt ((Item.tag name args hl hr wl wm wr).spell d) p
        (p + (d.tl.length + ((hyB hl).length + wl.length)) + name.length + wm.length)
        (p + (d.tl.length + ((hyB hl).length + wl.length)) + name.length + wm.length + args.length) = args := by
      have e : (Item.tag name args hl hr wl wm wr).spell d =
          (d.tl ++ (hyB hl ++ (wl ++ (name ++ wm)))) ++ (args ++ (wr ++ (hyB hr ++ d.tr))) := by
        simp [Item.spell, tagArgPart, hane, List.append_assoc]
      have := subAt_mid (d.tl ++ (hyB hl ++ (wl ++ (name ++ wm)))) args (wr ++ (hyB hr ++ d.tr)) p
      simp only [List.length_append] at this
      rw [e]
      have e2 : p + (d.tl.length + ((hyB hl).length + wl.length)) + name.length + wm.length =
          p + (d.tl.length + ((hyB hl).length + (wl.length + (name.length + wm.length)))) := by omega
      rw [e2]; exact this
    have hpos : p + (d.tl.length + ((hyB hl).length + wl.length)) + name.length + wm.length > 0 := by omega
    simp only [tagCaps, if_neg hane, Caps.find, List.find?_cons, beq_self_eq_true, hname, hL, hR, hargsEq, if_pos hpos,
      show ((3 : Nat) == 2) = false from rfl]
    rfl

/-! ## The FindAll loop -/

theorem tagNameOfMatch_obj (d : Delims) (args : Bytes) (hl hr : Bool) (wl wr : Bytes) (p : Nat) (caps : Caps) :
    tagNameOfMatch d ((Item.obj args hl hr wl wr).spell d) p caps = none := by
  have hpre : isPrefixOfB d.ol ((Item.obj args hl hr wl wr).spell d) = true := (isPrefixOfB_iff _ _).mpr ⟨_, rfl⟩
  simp only [tagNameOfMatch, hpre, if_true]

theorem tagNameOfMatch_tag (d : Delims) (hg : GoodDelims d) (name args : Bytes) (hl hr : Bool) (wl wm wr : Bytes) (p : Nat) :
    tagNameOfMatch d ((Item.tag name args hl hr wl wm wr).spell d) p
      (tagCaps (p + (d.tl.length + ((hyB hl).length + wl.length))) name args wm) = some name := by
  have hpre0 : isPrefixOfB d.ol ((Item.tag name args hl hr wl wm wr).spell d) = false := by
    cases h : isPrefixOfB d.ol ((Item.tag name args hl hr wl wm wr).spell d) with
    | false => rfl
    | true => exact absurd ((isPrefixOfB_iff _ _).mp h) (ol_not_prefix_tag d hg _)
  have hpre : isPrefixOfB d.tl ((Item.tag name args hl hr wl wm wr).spell d) = true :=
    (isPrefixOfB_iff _ _).mpr ⟨_, rfl⟩
  have hname : subAt ((Item.tag name args hl hr wl wm wr).spell d) p (p + (d.tl.length + ((hyB hl).length + wl.length)))
      (p + (d.tl.length + ((hyB hl).length + wl.length)) + name.length) = name := by
    have e : (Item.tag name args hl hr wl wm wr).spell d =
        (d.tl ++ (hyB hl ++ wl)) ++ (name ++ (tagArgPart args wm ++ (wr ++ (hyB hr ++ d.tr)))) := by
      simp [Item.spell, List.append_assoc]
    have := subAt_mid (d.tl ++ (hyB hl ++ wl)) name (tagArgPart args wm ++ (wr ++ (hyB hr ++ d.tr))) p
    simp only [List.length_append] at this
    rw [e]; exact this
  unfold tagNameOfMatch
  rw [if_neg (by rw [hpre0]; simp), if_pos hpre]
  by_cases hane : args = []
  · subst hane
    simp only [tagCaps, if_true, Caps.find, List.find?_cons, beq_self_eq_true, hname]
  · simp only [tagCaps, if_neg hane, Caps.find, List.find?_cons, beq_self_eq_true, hname,
      show ((3 : Nat) == 2) = false from rfl]

/-- one round of the loop: a gap `pre` in which the pattern matches nowhere, then a match `src`, then — after a
    raw/comment tag — the bytes up to the block's end tag as one text token -/
theorem scanLoop_step (mf : Nat) (re : Re) (d : Delims) (n : Nat) (pre src rest : Bytes) (p line : Nat) (caps : Caps)
    (hsrc : src ≠ [])
    (hnone : ∀ i, i < pre.length → re.matchAt mf ((pre ++ (src ++ rest)).drop i) (p + i) = none)
    (hm : re.matchAt mf (src ++ rest) (p + pre.length) = some (p + pre.length + src.length, caps)) :
    scanLoop mf re d (n + 1) (pre ++ (src ++ rest)) p line =
      (if pre.isEmpty then [] else [{ ty := .text, line := line, source := pre }]) ++
      (tokensOfMatch d src (p + pre.length) caps (line + countNL pre) ++
       ((if (rest.take (lexSkip mf d (tagNameOfMatch d src (p + pre.length) caps) rest (p + pre.length + src.length))).isEmpty then []
         else [{ ty := .text, line := line + countNL pre + countNL src,
                 source := rest.take (lexSkip mf d (tagNameOfMatch d src (p + pre.length) caps) rest (p + pre.length + src.length)) }]) ++
        scanLoop mf re d n (rest.drop (lexSkip mf d (tagNameOfMatch d src (p + pre.length) caps) rest (p + pre.length + src.length)))
          (p + pre.length + src.length + lexSkip mf d (tagNameOfMatch d src (p + pre.length) caps) rest (p + pre.length + src.length))
          (line + countNL pre + countNL src +
            countNL (rest.take (lexSkip mf d (tagNameOfMatch d src (p + pre.length) caps) rest (p + pre.length + src.length)))))) := by
  have hpos : 0 < src.length := List.length_pos_iff.mpr hsrc
  have hs : re.search mf (pre ++ (src ++ rest)) p 0 = some (pre.length, p + pre.length + src.length, caps) := by
    have := search_at mf re (p + pre.length + src.length) caps pre.length (pre ++ (src ++ rest)) p 0
      (by simp; omega) hnone (by rw [List.drop_left' rfl]; exact hm)
    simpa using this
  rw [scanLoop, hs]
  simp only
  have e1 : (pre ++ (src ++ rest)).take pre.length = pre := List.take_left' rfl
  have e2 : p + pre.length + src.length - (p + pre.length) = src.length := by omega
  have e3 : ((pre ++ (src ++ rest)).drop pre.length).take src.length = src := by
    rw [List.drop_left' rfl, List.take_left' rfl]
  have e4 : (pre ++ (src ++ rest)).drop (pre.length + src.length) = rest := by
    rw [← List.drop_drop, List.drop_left' rfl, List.drop_left' rfl]
  have hne : ¬ (p + pre.length + src.length ≤ p + pre.length) := by omega
  rw [e1, e2, e3, e4, if_neg hne, List.append_assoc]

/-- the round when the tokenizer does not skip (not a raw/comment tag, or no end tag ahead) -/
theorem scanLoop_step0 (mf : Nat) (re : Re) (d : Delims) (n : Nat) (pre src rest : Bytes) (p line : Nat) (caps : Caps)
    (hsrc : src ≠ [])
    (hnone : ∀ i, i < pre.length → re.matchAt mf ((pre ++ (src ++ rest)).drop i) (p + i) = none)
    (hm : re.matchAt mf (src ++ rest) (p + pre.length) = some (p + pre.length + src.length, caps))
    (h0 : lexSkip mf d (tagNameOfMatch d src (p + pre.length) caps) rest (p + pre.length + src.length) = 0) :
    scanLoop mf re d (n + 1) (pre ++ (src ++ rest)) p line =
      (if pre.isEmpty then [] else [{ ty := .text, line := line, source := pre }]) ++
      (tokensOfMatch d src (p + pre.length) caps (line + countNL pre) ++
       scanLoop mf re d n rest (p + pre.length + src.length) (line + countNL pre + countNL src)) := by
  rw [scanLoop_step mf re d n pre src rest p line caps hsrc hnone hm, h0]
  simp [countNL]

/-- the round when the tokenizer skips the body `body ≠ []` of a raw/comment block -/
theorem scanLoop_stepBody (mf : Nat) (re : Re) (d : Delims) (n : Nat) (pre src body rest : Bytes) (p line : Nat) (caps : Caps)
    (hsrc : src ≠ []) (hbody : body ≠ [])
    (hnone : ∀ i, i < pre.length → re.matchAt mf ((pre ++ (src ++ (body ++ rest))).drop i) (p + i) = none)
    (hm : re.matchAt mf (src ++ (body ++ rest)) (p + pre.length) = some (p + pre.length + src.length, caps))
    (h0 : lexSkip mf d (tagNameOfMatch d src (p + pre.length) caps) (body ++ rest) (p + pre.length + src.length) = body.length) :
    scanLoop mf re d (n + 1) (pre ++ (src ++ (body ++ rest))) p line =
      (if pre.isEmpty then [] else [{ ty := .text, line := line, source := pre }]) ++
      (tokensOfMatch d src (p + pre.length) caps (line + countNL pre) ++
       ({ ty := .text, line := line + countNL pre + countNL src, source := body } ::
        scanLoop mf re d n rest (p + pre.length + src.length + body.length) (line + countNL pre + countNL src + countNL body))) := by
  rw [scanLoop_step mf re d n pre src (body ++ rest) p line caps hsrc hnone hm, h0, List.take_left' rfl, List.drop_left' rfl]
  have : body.isEmpty = false := by cases body with | nil => exact absurd rfl hbody | cons x xs => rfl
  simp [this]

/-! ## Items at the head of the input -/

theorem spell_length_obj (d : Delims) (args : Bytes) (hl hr : Bool) (wl wr : Bytes) :
    ((Item.obj args hl hr wl wr).spell d).length =
      d.ol.length + ((hyB hl).length + (wl.length + (args.length + (wr.length + ((hyB hr).length + d.or.length))))) := by
  simp [Item.spell, List.length_append]

theorem spell_length_tag (d : Delims) (name args : Bytes) (hl hr : Bool) (wl wm wr : Bytes) :
    ((Item.tag name args hl hr wl wm wr).spell d).length =
      d.tl.length + ((hyB hl).length + (wl.length + (name.length + ((tagArgPart args wm).length +
        (wr.length + ((hyB hr).length + d.tr.length)))))) := by
  simp [Item.spell, List.length_append]

/-- at the head of its own spelling a clean object or tag is matched whole and yields its tokens -/
theorem item_match (d : Delims) (hg : GoodDelims d) (it : Item) (hnt : it.isText = false)
    (hci : CleanItem d it) (hcc : CleanClose d it) (rest : Bytes) (p mf : Nat) (hmf : (it.spell d).length ≤ mf) :
    ∃ caps, (tokenRe d).matchAt mf (it.spell d ++ rest) p = some (p + (it.spell d).length, caps) ∧
      (∀ line, tokensOfMatch d (it.spell d) p caps line = it.tokens d line) ∧ it.spell d ≠ [] ∧
      tagNameOfMatch d (it.spell d) p caps = it.tagName := by
  cases it with
  | text s => cases hnt
  | obj args hl hr wl wr =>
    have hl' := spell_length_obj d args hl hr wl wr
    refine ⟨_, matchAt_obj d hg args hl hr wl wr rest hci hcc p mf (by omega), fun line => tokensOfMatch_obj d args hl hr wl wr hci p line, ?_,
      tagNameOfMatch_obj d args hl hr wl wr p _⟩
    intro h
    have := congrArg List.length h
    have hpos : 0 < args.length := List.length_pos_iff.mpr hci.2.2.1
    rw [hl'] at this; simp only [List.length_nil] at this; omega
  | tag name args hl hr wl wm wr =>
    have hl' := spell_length_tag d name args hl hr wl wm wr
    refine ⟨_, matchAt_tag d hg name args hl hr wl wm wr rest hci hcc p mf (by omega), fun line => tokensOfMatch_tag d hg name args hl hr wl wm wr hci p line, ?_,
      tagNameOfMatch_tag d hg name args hl hr wl wm wr p⟩
    intro h
    have := congrArg List.length h
    have hpos : 0 < name.length := List.length_pos_iff.mpr hci.2.2.2.1
    rw [hl'] at this; simp only [List.length_nil] at this; omega

theorem text_no_match (d : Delims) (mf : Nat) (s x : Bytes) (p : Nat)
    (h : ∀ i, i < s.length → ¬ d.ol <+: (s ++ x).drop i ∧ ¬ d.tl <+: (s ++ x).drop i) :
    ∀ i, i < s.length → (tokenRe d).matchAt mf ((s ++ x).drop i) (p + i) = none := by
  intro i hi
  cases hm : (tokenRe d).matchAt mf ((s ++ x).drop i) (p + i) with
  | none => rfl
  | some r =>
    obtain ⟨e, c⟩ := r
    rcases tokenRe_startsWithDelim d _ _ _ _ _ hm with ⟨h1, _⟩ | ⟨h1, _⟩
    · exact absurd h1 (h i hi).1
    · exact absurd h1 (h i hi).2

/-- the statement about the loop, for one item list -/
def LoopOk (d : Delims) (mf : Nat) (items : List Item) : Prop :=
  ∀ (n p line : Nat), (spell d items).length < n → (spell d items).length ≤ mf →
    scanLoop mf (tokenRe d) d n (spell d items) p line = tokensOf d items line

/-- after an object or tag `it` has been matched: the lexical skip (if `it` is a raw/comment tag with its end
    tag ahead, the body becomes one text token) and the rest of the template -/
theorem after_item (d : Delims) (hg : GoodDelims d) (mf : Nat) (name : Option Bytes) (r : List Item)
    (hcl : CleanFrom d (lexEndOf name) r)
    (IH : ∀ r', r'.length ≤ r.length → Clean d r' → LoopOk d mf r')
    (n q l : Nat) (hn : (spell d r).length < n) (hmf : (spell d r).length ≤ mf) :
    (if ((spell d r).take (lexSkip mf d name (spell d r) q)).isEmpty then []
      else [({ ty := .text, line := l, source := (spell d r).take (lexSkip mf d name (spell d r) q) } : Token)]) ++
      scanLoop mf (tokenRe d) d n ((spell d r).drop (lexSkip mf d name (spell d r) q)) (q + lexSkip mf d name (spell d r) q)
        (l + countNL ((spell d r).take (lexSkip mf d name (spell d r) q))) = tokensOf d r l := by
  generalize ha : lexSkip mf d name (spell d r) q = a
  have zero : a = 0 → Clean d r →
      (if ((spell d r).take a).isEmpty then [] else [({ ty := .text, line := l, source := (spell d r).take a } : Token)]) ++
        scanLoop mf (tokenRe d) d n ((spell d r).drop a) (q + a) (l + countNL ((spell d r).take a)) = tokensOf d r l := by
    intro h0 hc
    subst h0
    simp only [List.take_zero, List.isEmpty_nil, if_true, List.nil_append, List.drop_zero, Nat.add_zero, countNL, List.count_nil]
    exact IH r (Nat.le_refl _) hc n q l hn hmf
  cases hle : lexEndOf name with
  | none =>
    rw [hle] at hcl
    exact zero (ha ▸ lexSkip_none mf d name _ q hle) hcl
  | some e =>
    rw [hle] at hcl
    cases r with
    | nil => exact zero (ha ▸ lexSkip_noEnd mf d hg name e _ q hle (by simp [spell]) (by intro i hi; simp [spell] at hi)) trivial
    | cons x r' =>
      obtain ⟨hci, hcc, hctx, htail⟩ := hcl
      cases x with
      | text s =>
        rcases hctx with hfe | ⟨hno, htxt⟩
        · have ha' : a = s.length := ha ▸ lexSkip_first mf d hg name e (spell d (.text s :: r')) q s.length hle hmf hfe
          have hs : spell d (.text s :: r') = s ++ spell d r' := rfl
          have hsne : s ≠ [] := hci
          have hse : s.isEmpty = false := by cases s with | nil => exact absurd rfl hsne | cons _ _ => rfl
          rw [ha', hs, List.take_left' rfl, List.drop_left' rfl, hse]
          have hlen : (spell d (.text s :: r')).length = s.length + (spell d r').length := by rw [hs, List.length_append]
          have := IH r' (by simp) htail n (q + s.length) (l + countNL s) (by omega) (by omega)
          simp only [Bool.false_eq_true, if_false, tokensOf, Item.tokens, Item.spell, List.singleton_append, this]
        · exact zero (ha ▸ lexSkip_noEnd mf d hg name e _ q hle hmf hno) ⟨hci, hcc, htxt, htail⟩
      | obj args hl hr wl wr =>
        rcases hctx with hat | hno
        · exact zero (ha ▸ lexSkip_first mf d hg name e _ q 0 hle hmf ⟨fun i hi => absurd hi (Nat.not_lt_zero i), hat⟩)
            ⟨hci, hcc, trivial, htail⟩
        · exact zero (ha ▸ lexSkip_noEnd mf d hg name e _ q hle hmf hno) ⟨hci, hcc, trivial, htail⟩
      | tag nm args hl hr wl wm wr =>
        rcases hctx with hat | hno
        · exact zero (ha ▸ lexSkip_first mf d hg name e _ q 0 hle hmf ⟨fun i hi => absurd hi (Nat.not_lt_zero i), hat⟩)
            ⟨hci, hcc, trivial, htail⟩
        · exact zero (ha ▸ lexSkip_noEnd mf d hg name e _ q hle hmf hno) ⟨hci, hcc, trivial, htail⟩

/-- one round: an optional gap `pre` (a clean text), a clean object or tag, the lexical skip, the rest -/
theorem round_item (d : Delims) (hg : GoodDelims d) (mf : Nat) (pre : Bytes) (it : Item) (r : List Item)
    (hnt : it.isText = false) (hci : CleanItem d it) (hcc : CleanClose d it) (hcl : CleanFrom d it.lexEnd r)
    (hnone : ∀ p i, i < pre.length → (tokenRe d).matchAt mf ((pre ++ (it.spell d ++ spell d r)).drop i) (p + i) = none)
    (IH : ∀ r', r'.length ≤ r.length → Clean d r' → LoopOk d mf r')
    (n p line : Nat) (hn : (pre ++ (it.spell d ++ spell d r)).length < n) (hmf : (pre ++ (it.spell d ++ spell d r)).length ≤ mf) :
    scanLoop mf (tokenRe d) d n (pre ++ (it.spell d ++ spell d r)) p line =
      (if pre.isEmpty then [] else [{ ty := .text, line := line, source := pre }]) ++
      (it.tokens d (line + countNL pre) ++ tokensOf d r (line + countNL pre + countNL (it.spell d))) := by
  simp only [List.length_append] at hn hmf
  obtain ⟨caps, hm, htok, hsne, htn⟩ := item_match d hg it hnt hci hcc (spell d r) (p + pre.length) mf (by omega)
  have hspos := List.length_pos_iff.mpr hsne
  cases n with
  | zero => simp at hn
  | succ n =>
    rw [scanLoop_step mf (tokenRe d) d n pre (it.spell d) (spell d r) p line caps hsne (hnone p) hm, htok, htn]
    have := after_item d hg mf it.tagName r hcl IH n (p + pre.length + (it.spell d).length)
      (line + countNL pre + countNL (it.spell d)) (by omega) (by omega)
    rw [this]

/-- **the match loop on the spelling of a clean template** -/
theorem scanLoop_spell (d : Delims) (hg : GoodDelims d) (mf : Nat) :
    ∀ (k : Nat) (items : List Item), items.length ≤ k → Clean d items → LoopOk d mf items := by
  intro k
  induction k with
  | zero =>
    intro items hk _ n p line hn _
    have : items = [] := List.eq_nil_of_length_eq_zero (Nat.le_zero.mp hk)
    subst this
    cases n with
    | zero => simp at hn
    | succ n => rfl
  | succ k ih =>
    intro items hk hc n p line hn hmf
    cases items with
    | nil =>
      cases n with
      | zero => simp at hn
      | succ n => rfl
    | cons x r =>
      have hkr : r.length ≤ k := by simpa using hk
      cases x with
      | text s =>
        obtain ⟨hne, _, ⟨htxt, hnt⟩, htail⟩ := hc
        have hne' : s ≠ [] := hne
        cases r with
        | nil =>
          have hs : spell d [.text s] = s ++ spell d [] := rfl
          rw [hs, scanLoop_text_only _ _ _ _ _ _ _ (search_none_of mf (tokenRe d) _ p 0 (by
            intro i hi
            have hi' : i < s.length := by simpa [spell] using hi
            exact text_no_match d mf s (spell d []) p htxt i hi'))]
          have : (s ++ spell d []).isEmpty = false := by
            cases s with
            | nil => exact absurd rfl hne
            | cons x xs => rfl
          simp [hne', tokensOf, Item.tokens, spell]
        | cons it r' =>
          obtain ⟨hci, hcc, _, hcl⟩ := htail
          have hs : spell d (.text s :: it :: r') = s ++ (it.spell d ++ spell d r') := rfl
          rw [hs] at hn hmf ⊢
          rw [round_item d hg mf s it r' hnt hci hcc hcl (fun p => text_no_match d mf s _ p htxt)
            (fun r'' hr'' => ih r'' (by simp at hkr; omega)) n p line hn hmf]
          have : s.isEmpty = false := by
            cases s with
            | nil => exact absurd rfl hne
            | cons x xs => rfl
          simp [this, tokensOf, Item.tokens, Item.spell, Nat.add_assoc]
      | obj args hl hr wl wr =>
        obtain ⟨hci, hcc, _, hcl⟩ := hc
        have hs : spell d (.obj args hl hr wl wr :: r) = [] ++ ((Item.obj args hl hr wl wr).spell d ++ spell d r) := rfl
        rw [hs] at hn hmf ⊢
        rw [round_item d hg mf [] _ r rfl hci hcc hcl (fun p i hi => by simp at hi)
          (fun r'' hr'' => ih r'' (by omega)) n p line hn hmf]
        simp [tokensOf, countNL]
      | tag name args hl hr wl wm wr =>
        obtain ⟨hci, hcc, _, hcl⟩ := hc
        have hs : spell d (.tag name args hl hr wl wm wr :: r) = [] ++ ((Item.tag name args hl hr wl wm wr).spell d ++ spell d r) := rfl
        rw [hs] at hn hmf ⊢
        rw [round_item d hg mf [] _ r rfl hci hcc hcl (fun p i hi => by simp at hi)
          (fun r'' hr'' => ih r'' (by omega)) n p line hn hmf]
        simp [tokensOf, countNL]

/-- the tokenizer reads the spelling of a clean template back as the template's tokens -/
theorem scanWith_spell (d : Delims) (hg : GoodDelims d) (items : List Item) (hc : Clean d items) (line : Nat) :
    scanWith (tokenRe d) d (spell d items) line = tokensOf d items line :=
  scanLoop_spell d hg _ items.length items (Nat.le_refl _) hc _ 0 line (Nat.lt_succ_self _) (Nat.le_succ _)
