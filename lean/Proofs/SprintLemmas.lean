import Liquid.Sprint
/-!
# Lemmas about the float formatter (`Liquid/Sprint.lean`) used by C17 `whole_prints_int`
-/

/-- the printed text, if any (`Res` has no decidable equality) -/
def okBytes : Res Cause Bytes → Option Bytes
  | .ok b => some b
  | _ => none

/-- all bytes are ASCII digits -/
def allDigits (b : Bytes) : Prop := ∀ c ∈ b, 48 ≤ c.toNat ∧ c.toNat ≤ 57

theorem allDigits_nil : allDigits [] := by intro c h; cases h

theorem allDigits_cons {c : UInt8} {b : Bytes} (hc : 48 ≤ c.toNat ∧ c.toNat ≤ 57) (hb : allDigits b) :
    allDigits (c :: b) := by
  intro d hd
  rcases List.mem_cons.mp hd with h | h
  · subst h; exact hc
  · exact hb d h

theorem allDigits_append {a b : Bytes} (ha : allDigits a) (hb : allDigits b) : allDigits (a ++ b) := by
  intro c hc
  rcases List.mem_append.mp hc with h | h
  · exact ha c h
  · exact hb c h

theorem allDigits_of_subset {a b : Bytes} (h : ∀ c ∈ a, c ∈ b) (hb : allDigits b) : allDigits a :=
  fun c hc => hb c (h c hc)

theorem allDigits_zeros (n : Nat) : allDigits (zeros n) := by
  intro c hc
  have := List.eq_of_mem_replicate hc
  subst this
  decide

theorem digit_toUInt8 {n : Nat} (h : n < 10) : 48 ≤ ((48 + n).toUInt8).toNat ∧ ((48 + n).toUInt8).toNat ≤ 57 := by
  have : ((48 + n).toUInt8).toNat = 48 + n := by
    simp [Nat.toUInt8, UInt8.toNat_ofNat']
    omega
  omega

theorem decDigitsAux_digits (fuel n : Nat) (acc : Bytes) (h : allDigits acc) : allDigits (decDigitsAux fuel n acc) := by
  induction fuel generalizing n acc with
  | zero => simpa [decDigitsAux] using h
  | succ f ih =>
    simp only [decDigitsAux]
    split
    · rename_i hn; exact allDigits_cons (digit_toUInt8 hn) h
    · exact ih _ _ (allDigits_cons (digit_toUInt8 (Nat.mod_lt _ (by decide))) h)

theorem natDec_digits (n : Nat) : allDigits (natDec n) := decDigitsAux_digits _ _ _ allDigits_nil

theorem stripTrailingZeros_subset (ds : Bytes) : ∀ c ∈ stripTrailingZeros ds, c ∈ ds := by
  intro c hc
  unfold stripTrailingZeros at hc
  have h1 := List.mem_reverse.mp hc
  have h2 := (List.dropWhile_sublist _).subset h1
  exact List.mem_reverse.mp h2

theorem stripTrailingZeros_length_le (ds : Bytes) : (stripTrailingZeros ds).length ≤ ds.length := by
  unfold stripTrailingZeros
  rw [List.length_reverse]
  have := (List.dropWhile_sublist (fun x : UInt8 => x == 48) (l := ds.reverse)).length_le
  simpa using this

theorem dropWhile_replicate_append (n : Nat) (xs : Bytes) :
    List.dropWhile (· == 48) (List.replicate n (48 : UInt8) ++ xs) = List.dropWhile (· == 48) xs := by
  induction n with
  | zero => simp
  | succ k ih => simp [List.replicate_succ, ih]

theorem stripTrailingZeros_append_zeros (ds : Bytes) (n : Nat) :
    stripTrailingZeros (ds ++ zeros n) = stripTrailingZeros ds := by
  unfold stripTrailingZeros zeros
  rw [List.reverse_append, List.reverse_replicate, dropWhile_replicate_append]

/-! ## incDigits -/

def incStep (d : UInt8) (acc : Bytes × Bool) : Bytes × Bool :=
  if acc.2 then (if d == 57 then (48 :: acc.1, true) else ((d + 1) :: acc.1, false)) else (d :: acc.1, false)

theorem incDigits_eq (ds : Bytes) :
    incDigits ds = (let r := ds.foldr incStep ([], true); if r.2 then (49 :: r.1, true) else (r.1, false)) := rfl

theorem succ_digit {d : UInt8} (h : 48 ≤ d.toNat ∧ d.toNat ≤ 57) (h9 : ¬ (d == 57) = true) :
    48 ≤ (d + 1).toNat ∧ (d + 1).toNat ≤ 57 := by
  have hne : d.toNat ≠ 57 := by
    intro h57
    apply h9
    have : d = 57 := UInt8.toNat_inj.mp (by simpa using h57)
    simp [this]
  have : (d + 1).toNat = d.toNat + 1 := by
    rw [UInt8.toNat_add]
    simp
    omega
  omega

theorem foldr_incStep (ds : Bytes) (h : allDigits ds) :
    (ds.foldr incStep ([], true)).1.length = ds.length ∧ allDigits (ds.foldr incStep ([], true)).1 := by
  induction ds with
  | nil => exact ⟨rfl, allDigits_nil⟩
  | cons d rest ih =>
    have hd := h d (List.mem_cons_self)
    have hrest : allDigits rest := fun c hc => h c (List.mem_cons_of_mem _ hc)
    have ⟨il, ia⟩ := ih hrest
    simp only [List.foldr_cons, incStep]
    split
    · split
      · exact ⟨by simp [il], allDigits_cons (by decide) ia⟩
      · rename_i h9; exact ⟨by simp [il], allDigits_cons (succ_digit hd h9) ia⟩
    · exact ⟨by simp [il], allDigits_cons hd ia⟩

theorem incDigits_props (ds : Bytes) (h : allDigits ds) :
    allDigits (incDigits ds).1 ∧ ((incDigits ds).2 = false → (incDigits ds).1.length = ds.length) := by
  have ⟨il, ia⟩ := foldr_incStep ds h
  rw [incDigits_eq]
  simp only
  split
  · exact ⟨allDigits_cons (by decide) ia, by intro h; cases h⟩
  · exact ⟨ia, fun _ => il⟩

/-! ## the n-digit candidates of a whole number -/

/-- what `whole_prints_int` needs of a digit string with its decimal point position -/
def WholeShape (c : Bytes × Int) : Prop := allDigits c.1 ∧ ((stripTrailingZeros c.1).length : Int) ≤ c.2

theorem nDigitCandidates_whole (ds : Bytes) (dp : Int) (n : Nat) (hd : allDigits ds) (hlen : (ds.length : Int) ≤ dp) :
    ∀ c ∈ nDigitCandidates ds dp n, WholeShape c := by
  -- the head: n digits
  have hhd : allDigits (ds.take n ++ zeros (n - (ds.take n).length)) :=
    allDigits_append (allDigits_of_subset (fun c hc => List.mem_of_mem_take hc) hd) (allDigits_zeros _)
  have hhdlen : (ds.take n ++ zeros (n - (ds.take n).length)).length = n := by
    simp [zeros, List.length_take]; omega
  have hlo_small : n ≤ ds.length → WholeShape (ds.take n ++ zeros (n - (ds.take n).length), dp) := by
    intro hn
    refine ⟨hhd, ?_⟩
    have := stripTrailingZeros_length_le (ds.take n ++ zeros (n - (ds.take n).length))
    simp only at this ⊢
    omega
  have hlo_big : ds.length ≤ n → WholeShape (ds.take n ++ zeros (n - (ds.take n).length), dp) := by
    intro hn
    refine ⟨hhd, ?_⟩
    simp only
    rw [List.take_of_length_le hn, stripTrailingZeros_append_zeros]
    have := stripTrailingZeros_length_le ds
    omega
  have hlo : WholeShape (ds.take n ++ zeros (n - (ds.take n).length), dp) := by
    rcases Nat.le_total n ds.length with h | h
    · exact hlo_small h
    · exact hlo_big h
  have hhi : ¬ (ds.drop n).all (· == 48) = true →
      WholeShape (if (incDigits (ds.take n ++ zeros (n - (ds.take n).length))).2
        then ((incDigits (ds.take n ++ zeros (n - (ds.take n).length))).1.take n, dp + 1)
        else ((incDigits (ds.take n ++ zeros (n - (ds.take n).length))).1, dp)) := by
    intro hnz
    have hn : n < ds.length := by
      apply Nat.lt_of_not_le
      intro hge
      apply hnz
      rw [List.drop_of_length_le hge]; rfl
    have ⟨ia, il⟩ := incDigits_props _ hhd
    split
    · refine ⟨allDigits_of_subset (fun c hc => List.mem_of_mem_take hc) ia, ?_⟩
      have h1 := stripTrailingZeros_length_le ((incDigits (ds.take n ++ zeros (n - (ds.take n).length))).1.take n)
      have h2 := List.length_take_le n (incDigits (ds.take n ++ zeros (n - (ds.take n).length))).1
      simp only at h1 h2 ⊢
      omega
    · rename_i hc
      refine ⟨ia, ?_⟩
      have h1 := stripTrailingZeros_length_le (incDigits (ds.take n ++ zeros (n - (ds.take n).length))).1
      have h2 := il (by simpa using hc)
      simp only at h1 ⊢
      omega
  intro c hc
  unfold nDigitCandidates at hc
  simp only at hc
  split at hc
  · simp only [List.mem_singleton] at hc
    subst hc; exact hlo
  · rename_i hnz
    have hh := hhi hnz
    split at hc
    all_goals (try split at hc)
    all_goals
      simp only [List.mem_cons, List.not_mem_nil, or_false] at hc
      rcases hc with h | h <;> subst h <;> first | exact hlo | exact hh | (simp only [*, ↓reduceIte] at hh; exact hh)

theorem shortestAux_whole (rnd : Rat → Option Rat) (q : Rat) (ds : Bytes) (dp : Int)
    (hd : allDigits ds) (hlen : (ds.length : Int) ≤ dp) (fuel n : Nat) (d : Bytes) (p : Int)
    (h : shortestAux rnd q ds dp fuel n = some (d, p)) : allDigits d ∧ (d.length : Int) ≤ p := by
  induction fuel generalizing n with
  | zero => simp [shortestAux] at h
  | succ f ih =>
    simp only [shortestAux] at h
    split at h
    · rename_i c hc
      have hmem := List.mem_of_find?_eq_some hc
      have ⟨ha, hl⟩ := nDigitCandidates_whole ds dp n hd hlen c hmem
      simp only [Option.some.injEq, Prod.mk.injEq] at h
      obtain ⟨h1, h2⟩ := h
      subst h1; subst h2
      exact ⟨allDigits_of_subset (stripTrailingZeros_subset _) ha, hl⟩
    · exact ih _ h

/-- the digits `shortestDigits` yields for a whole number: only digits, none after the point -/
theorem shortestDigits_whole (rnd : Rat → Option Rat) (m : Nat) (q : Rat) (hden : q.den = 1)
    (neg : Bool) (d : Bytes) (p : Int) (h : shortestDigits rnd m q = some (neg, d, p)) :
    allDigits d ∧ (d.length : Int) ≤ p := by
  unfold shortestDigits at h
  have hl : log2Exact 1 = some 0 := by decide
  by_cases h0 : q.num.natAbs = 0
  · have hdec : decimalOf q = some (false, [], 0) := by simp [decimalOf, hden, hl, h0]
    rw [hdec] at h
    simp only [Option.some.injEq, Prod.mk.injEq] at h
    obtain ⟨_, h2, h3⟩ := h
    subst h2; subst h3
    exact ⟨allDigits_nil, by simp⟩
  · have hdec : decimalOf q = some (decide (q.num < 0), stripTrailingZeros (natDec q.num.natAbs),
        ((natDec q.num.natAbs).length : Int)) := by simp [decimalOf, hden, hl, h0]
    rw [hdec] at h
    have hdig : allDigits (stripTrailingZeros (natDec q.num.natAbs)) :=
      allDigits_of_subset (stripTrailingZeros_subset _) (natDec_digits _)
    have hlen : ((stripTrailingZeros (natDec q.num.natAbs)).length : Int) ≤ ((natDec q.num.natAbs).length : Int) := by
      have := stripTrailingZeros_length_le (natDec q.num.natAbs)
      omega
    generalize stripTrailingZeros (natDec q.num.natAbs) = ds' at h hdig hlen
    generalize ((natDec q.num.natAbs).length : Int) = dp' at h hlen
    cases ds' with
    | nil =>
      simp only [Option.some.injEq, Prod.mk.injEq] at h
      obtain ⟨_, h2, h3⟩ := h
      subst h2; subst h3
      exact ⟨allDigits_nil, by simp⟩
    | cons x xs =>
      simp only at h
      split at h
      · simp at h
      · simp only [Option.map_eq_some_iff] at h
        obtain ⟨⟨d', p'⟩, hs, he⟩ := h
        simp only [Prod.mk.injEq] at he
        obtain ⟨_, h2, h3⟩ := he
        subst h2; subst h3
        exact shortestAux_whole rnd _ (x :: xs) dp' hdig hlen _ _ _ _ hs

theorem fmtF_whole (d : Bytes) (p : Int) (hd : allDigits d) (hne : d ≠ []) (hl : (d.length : Int) ≤ p) :
    allDigits (fmtF d p) := by
  have hpos : 0 < d.length := List.length_pos_iff.mpr hne
  have h1 : ¬ p ≤ 0 := by omega
  have h2 : p.toNat ≥ d.length := by omega
  simp only [fmtF, h1, ↓reduceIte, h2]
  exact allDigits_append hd (allDigits_zeros _)
