import Proofs.MapPermEqual
import Proofs.RepEqFilters
/-!
# The standard filters and the order of map entries (helper lemmas for C02)

A filter is applied to its receiver and arguments after `values.Call` converted them to the parameter
types. `Convert(·, []any)` of a map sorts the entries (`SortedMapKeys`), `Convert(·, string)` prints
with `fmt.Sprint`, which sorts them too: related inputs become related (or equal) arguments
(`convert_mp`, `convertArgs_mp`), and each body maps related arguments to related results
(`ImplRespectsM`).
-/

open GoVal MapOrder Cmp

/-! ## `values.Convert` -/

/-- converted arguments of two related inputs, by parameter type -/
def ArgValRelM : ParamTy → GoVal → GoVal → Prop
  | .anys, c, c' => ∃ ys ys', c = .slice .any ys ∧ c' = .slice .any ys' ∧ MPL ys ys'
  | .any, c, c' => MP c c'
  | _, c, c' => c = c'

theorem ArgValRelM.mp {t : ParamTy} {c c' : GoVal} (h : ArgValRelM t c c') : MP c c' := by
  cases t <;> simp only [ArgValRelM] at h <;> first
    | exact h
    | (subst h; exact .refl _)
    | (obtain ⟨ys, ys', rfl, rfl, hl⟩ := h; exact .slice _ hl)

theorem ArgValRelM.scalar {t : ParamTy} (ht : t.isScalar = true) {c c' : GoVal} (h : ArgValRelM t c c') : c = c' := by
  cases t <;> simp_all [ParamTy.isScalar, ArgValRelM]

theorem ArgValRelM.of_eq_scalar {t : ParamTy} (ht : t.isScalar = true) (c : GoVal) : ArgValRelM t c c := by
  cases t <;> simp_all [ParamTy.isScalar, ArgValRelM]

theorem convElems_mp {xs ys : List GoVal} (h : MPL xs ys) : MPL (convElems xs) (convElems ys) :=
  MPL.map_of (fun _ _ h => h.toLiquid) h

theorem insertRevF_mpf (k : Bytes) {v w : GoVal} (hv : MP v w) :
    ∀ {rev rev' : List (Bytes × GoVal)}, MPF rev rev' →
      MPF (insertRev (fun a b : Bytes × GoVal => decide (a.1 < b.1)) (k, v) rev) (insertRev (fun a b : Bytes × GoVal => decide (a.1 < b.1)) (k, w) rev')
  | _, _, .nil => .cons k hv .nil
  | _, _, .cons k0 hx h => by
    simp only [insertRev]
    by_cases hc : k < k0
    · simp only [hc, decide_true, if_true]
      exact .cons k0 hx (insertRevF_mpf k hv h)
    · simp only [hc, decide_false]
      exact .cons k hv (.cons k0 hx h)

theorem MPF.append : ∀ {xs ys xs' ys' : List (Bytes × GoVal)}, MPF xs ys → MPF xs' ys' → MPF (xs ++ xs') (ys ++ ys')
  | _, _, _, _, .nil, h => h
  | _, _, _, _, .cons k hx h, h' => .cons k hx (MPF.append h h')

theorem MPF.reverse : ∀ {xs ys : List (Bytes × GoVal)}, MPF xs ys → MPF xs.reverse ys.reverse
  | _, _, .nil => .nil
  | _, _, .cons k hx h => by
    simp only [List.reverse_cons]
    exact MPF.append (MPF.reverse h) (.cons k hx .nil)

theorem insertionLoopF_mpf : ∀ {rest rest' : List (Bytes × GoVal)}, MPF rest rest' → ∀ {rev rev' : List (Bytes × GoVal)}, MPF rev rev' →
    MPF (insertionLoop (fun a b : Bytes × GoVal => decide (a.1 < b.1)) rev rest) (insertionLoop (fun a b : Bytes × GoVal => decide (a.1 < b.1)) rev' rest')
  | _, _, .nil, _, _, hr => by simp only [insertionLoop]; exact hr.reverse
  | _, _, .cons k hv h, _, _, hr => by
    simp only [insertionLoop]
    exact insertionLoopF_mpf h (insertRevF_mpf k hv hr)

theorem sortedFields_mpf {fs fs' : List (Bytes × GoVal)} (h : MPF fs fs') : MPF (sortedFields fs) (sortedFields fs') :=
  insertionLoopF_mpf h .nil

/-- the `[]any` case of `Convert`, on the value after its `ToLiquid` step -/
def convAnysL (v : GoVal) : Res Cause GoVal :=
  match v with
  | .mapSlice kvs => .ok (.slice .any (convElems (kvs.map (·.2))))
  | .range a b =>
    if b - a + 1 > 10000000 then .err .typeErr
    else if b - a > 1000000 then .unmodelled "range of more than a million items"
    else .ok (.slice .any (rangeInts a b))
  | .slice _ xs => .ok (.slice .any (convElems xs))
  | .array _ xs => .ok (.slice .any (convElems xs))
  | .bytes s => .ok (.slice .any (s.map fun b => .int .u8 b.toNat))
  | .map _ _ kvs => (sortedMapEntries kvs).bind fun es => .ok (.slice .any (convElems (es.map (·.2))))
  | .keyedMap kvs => .ok (.slice .any (convElems ((sortedFields kvs).map (·.2))))
  | _ => .err .typeErr

theorem convert_anys_eq (a : GoVal) : convert a .anys = convAnysL a.toLiquid := by
  unfold convert convAnysL
  rfl

theorem convAnysL_mp {u u' : GoVal} (h : MP u u') : RRel true (ArgValRelM .anys) (convAnysL u) (convAnysL u') := by
  cases h with
  | refl =>
    cases hc : convAnysL u with
    | ok c =>
      have : ∃ ys, c = .slice .any ys := by
        unfold convAnysL at hc
        split at hc <;> first
          | (cases hc; exact ⟨_, rfl⟩)
          | (split at hc <;> first | (cases hc; done) | (split at hc <;> first | (cases hc; exact ⟨_, rfl⟩) | (cases hc; done)))
          | (next kvs =>
              rcases sortedMapEntries_cases (ε := Cause) kvs with ⟨_, h1⟩ | ⟨_, w, h1⟩ <;> rw [h1] at hc
              · cases hc; exact ⟨_, rfl⟩
              · cases hc)
          | cases hc
      obtain ⟨ys, rfl⟩ := this
      exact ⟨ys, ys, rfl, rfl, MPL.refl ys⟩
    | err e => rfl
    | panic w => rfl
    | unmodelled w => exact .inr rfl
  | slice t hl => exact ⟨_, _, rfl, rfl, convElems_mp hl⟩
  | array t hl => exact ⟨_, _, rfl, rfl, convElems_mp hl⟩
  | map kt vt hv hk hn hm hp ht =>
    simp only [convAnysL]
    rcases sortedMapEntries_mp (MP.map kt vt hv hk hn hm hp ht) with ⟨es, es', h1, h2, hs⟩ | ⟨w, h1, h2⟩
    · rw [h1, h2]; exact ⟨_, _, rfl, rfl, convElems_mp hs.vals⟩
    · rw [h1, h2]; exact .inl rfl
  | mapVals kt vt hv hn hm =>
    simp only [convAnysL]
    rcases sortedMapEntries_mp (MP.mapVals kt vt hv hn hm) with ⟨es, es', h1, h2, hs⟩ | ⟨w, h1, h2⟩
    · rw [h1, h2]; exact ⟨_, _, rfl, rfl, convElems_mp hs.vals⟩
    · rw [h1, h2]; exact .inl rfl
  | mapSlice hm => exact ⟨_, _, rfl, rfl, convElems_mp hm.vals⟩
  | keyedMap hn hf => exact ⟨_, _, rfl, rfl, convElems_mp (sortedFields_mpf hf).vals⟩
  | struct hf => rfl
  | ptr h' => rfl
  | drop h' => rfl

theorem convert_anys_mp {a a' : GoVal} (h : MP a a') :
    RRel true (ArgValRelM .anys) (convert a .anys) (convert a' .anys) := by
  rw [convert_anys_eq, convert_anys_eq]
  exact convAnysL_mp h.toLiquid

/-- the scalar cases of `Convert`, on the value after its `ToLiquid` step -/
def convScalarL (v : GoVal) (t : ParamTy) : Res Cause GoVal :=
  match t with
  | .bool =>
    match v with
    | .nil => .ok (.bool false)
    | .bool b => .ok (.bool b)
    | _ => .ok (.bool true)
  | .int =>
    match v with
    | .int _ n => .ok (.int .int (wrapInt64 n))
    | .flt _ q => (floatToInt64 q).bind fun n => .ok (.int .int n)
    | .bool b => .ok (.int .int (if b then 1 else 0))
    | .str s => match parseInt10 s with
      | some n => .ok (.int .int n)
      | none => .err .typeErr
    | _ => .err .typeErr
  | .f64 =>
    match v with
    | .int _ n => (f64Round n).bind fun q => .ok (.flt .f64 q)
    | .flt _ q => .ok (.flt .f64 q)
    | .str s => (parseFloatStr s).bind fun q => .ok (.flt .f64 q)
    | _ => .err .typeErr
  | .str =>
    match v with
    | .bytes b => .ok (.str b)
    | .time u => (timeString u).bind fun b => .ok (.str b)
    | .flt k q => (if isWholeSmall q then fmtFloatF k q else fmtFloatG k q).bind fun b => .ok (.str b)
    | w => (sprintR w).bind fun b => .ok (.str b)
  | .time =>
    match v with
    | .time u => .ok (.time u)
    | .str s =>
      match Cal.parseDate s with
      | .time u => .ok (.time u)
      | .reject => .err .typeErr
      | .unknown => .unmodelled "ParseDate: a string that is not one of the all-digit layouts (or `now`: the clock)"
    | _ => .err .typeErr
  | _ => .err .typeErr

theorem convert_scalar_eq {t : ParamTy} (ht : t.isScalar = true) (a : GoVal) : convert a t = convScalarL a.toLiquid t := by
  cases t <;> simp [ParamTy.isScalar] at ht <;> (unfold convert convScalarL; rfl)

theorem convScalarL_mp {t : ParamTy} {u u' : GoVal} (h : MP u u') : RRel true Eq (convScalarL u t) (convScalarL u' t) := by
  rcases h.cases_rigid with rfl | ⟨r1, r2⟩
  · exact RRel.of_eq (fun _ => rfl) rfl
  · cases t <;> simp only [convScalarL] <;> first
      | exact RRel.of_eq (fun _ => rfl) rfl
      | (cases h <;> exact RRel.of_eq (fun _ => rfl) rfl)
      | (have hs := sprintRR_mp h
         cases h <;> first
           | exact RRel.of_eq (fun _ => rfl) rfl
           | exact RRel.bind hs (fun b b' e => by subst e; exact RRel.of_eq (fun _ => rfl) rfl))

theorem convert_scalar_mp {t : ParamTy} (ht : t.isScalar = true) {a a' : GoVal} (h : MP a a') :
    RRel true (ArgValRelM t) (convert a t) (convert a' t) := by
  rw [convert_scalar_eq ht, convert_scalar_eq ht]
  have := convScalarL_mp (t := t) h.toLiquid
  cases t <;> simp [ParamTy.isScalar] at ht <;> exact this

theorem convert_any_mp {a a' : GoVal} (h : MP a a') : RRel true (ArgValRelM .any) (convert a .any) (convert a' .any) := by
  unfold convert convAny
  have ht := h.toLiquid
  have hn := isNil_mp ht
  simp only
  cases h1 : a.toLiquid <;> cases h2 : a'.toLiquid <;> rw [h1, h2] at hn ht <;> simp [GoVal.isNil] at hn <;>
    simp only [RRel, ArgValRelM] <;> first | exact ht | trivial

theorem convert_mp (t : ParamTy) {a a' : GoVal} (h : MP a a') : RRel true (ArgValRelM t) (convert a t) (convert a' t) := by
  cases ht : t.isScalar with
  | true => exact convert_scalar_mp ht h
  | false =>
    cases t <;> simp [ParamTy.isScalar] at ht
    · exact convert_any_mp h
    · exact convert_anys_mp h

/-! ## `values.Call`: the converted argument lists -/

def ArgRelM : Param → Arg → Arg → Prop
  | .val t, .val c, .val c' => ArgValRelM t c c'
  | .fn _, .fn none, .fn none => True
  | .fn t, .fn (some r), .fn (some r') => RRel true (ArgValRelM t) r r'
  | _, _, _ => False

def ArgsRelM : List Param → List Arg → List Arg → Prop
  | [], [], [] => True
  | p :: ps, a :: as, a' :: as' => ArgRelM p a a' ∧ ArgsRelM ps as as'
  | _, _, _ => False

theorem zero_argValRelM (t : ParamTy) : ArgValRelM t t.zero t.zero := by
  cases t <;> simp [ArgValRelM, ParamTy.zero, MP.refl]
  exact .nil

theorem convertArgs_nil_mp : ∀ ps : List Param, RRel true (ArgsRelM ps) (convertArgs ps []) (convertArgs ps [])
  | [] => by simp [convertArgs, RRel, ArgsRelM]
  | .fn t :: ps => by
    simp only [convertArgs]
    exact RRel.bind (convertArgs_nil_mp ps) (fun r r' h => ⟨trivial, h⟩)
  | .val t :: ps => by
    simp only [convertArgs]
    exact RRel.bind (convertArgs_nil_mp ps) (fun r r' h => ⟨zero_argValRelM t, h⟩)

theorem mp_nil_iff {a a' : GoVal} (h : MP a a') : a = .nil ↔ a' = .nil := by
  constructor
  · rintro rfl; exact h.eq_of_rigid_left rfl
  · rintro rfl; exact h.eq_of_rigid_right rfl

theorem convertArgs_mp : ∀ (ps : List Param) {as as' : List GoVal}, All2 MP as as' →
    RRel true (ArgsRelM ps) (convertArgs ps as) (convertArgs ps as')
  | ps, [], [], .nil => convertArgs_nil_mp ps
  | [], _ :: _, _ :: _, .cons _ _ => by simp [convertArgs, RRel, ArgsRelM]
  | .fn t :: ps, a :: as, a' :: as', .cons ha has => by
    simp only [convertArgs]
    exact RRel.bind (convertArgs_mp ps has) (fun r r' h => ⟨convert_mp t ha, h⟩)
  | .val t :: ps, a :: as, a' :: as', .cons ha has => by
    by_cases hn : a = .nil
    · have hn' := (mp_nil_iff ha).mp hn
      subst hn hn'
      simp only [convertArgs]
      exact RRel.bind (convertArgs_mp ps has) (fun r r' h => ⟨zero_argValRelM t, h⟩)
    · have hn' : a' ≠ .nil := fun e => hn ((mp_nil_iff ha).mpr e)
      have e1 : convertArgs (.val t :: ps) (a :: as) =
          (convert a t).bind fun c => (convertArgs ps as).bind fun r => .ok (.val c :: r) := by
        cases a <;> first | exact absurd rfl hn | rfl
      have e2 : convertArgs (.val t :: ps) (a' :: as') =
          (convert a' t).bind fun c => (convertArgs ps as').bind fun r => .ok (.val c :: r) := by
        cases a' <;> first | exact absurd rfl hn' | rfl
      rw [e1, e2]
      exact RRel.bind (convert_mp t ha) (fun c c' hc =>
        RRel.bind (convertArgs_mp ps has) (fun r r' h => ⟨hc, h⟩))

/-! ## `ApplyFilter` -/

/-- results of a filter body -/
def ExRelM : Except Cause GoVal → Except Cause GoVal → Prop
  | .ok v, .ok v' => MP v v'
  | .error c, .error c' => c = c'
  | _, _ => False

theorem bytesToString_mp {v v' : GoVal} (h : MP v v') : MP (bytesToString v) (bytesToString v') := by
  rcases h.cases_rigid with rfl | ⟨h1, h2⟩
  · exact .refl _
  · have e1 : bytesToString v = v := by cases v <;> simp_all [rigidM, bytesToString]
    have e2 : bytesToString v' = v' := by cases v' <;> simp_all [rigidM, bytesToString]
    rw [e1, e2]; exact h

/-- the body of a filter maps related converted arguments to related results -/
def ImplRespectsM (ps : List Param) (f : FilterImpl) : Prop :=
  ∀ cs cs', ArgsRelM ps cs cs' → RRel true ExRelM (f cs) (f cs')

/-- a standard filter maps related inputs to related results -/
def FilterRespectsM (name : Bytes) : Prop :=
  ∀ r r' as as', MP r r' → All2 MP as as' →
    RRel true MP (stdPrims.applyFilter name r as) (stdPrims.applyFilter name r' as')

theorem filterRespectsM_of_impl (name : Bytes)
    (h : ∀ sg f, lookupSig name = some sg → lookupImpl stdFilterImpls name = some f → ImplRespectsM sg.params f) :
    FilterRespectsM name := by
  intro r r' as as' hr has
  show RRel true MP (applyFilter (lookupImpl stdFilterImpls) name r as) (applyFilter (lookupImpl stdFilterImpls) name r' as')
  unfold applyFilter
  cases hs : lookupSig name with
  | none => simp [RRel]
  | some sg =>
    simp only
    have hl : (r :: as).length = (r' :: as').length := (All2.cons hr has).length_eq
    rw [hl]
    split
    · simp [RRel]
    · refine RRel.bind (convertArgs_mp sg.params (.cons hr has)) (fun cs cs' hcs => ?_)
      cases hf : lookupImpl stdFilterImpls name with
      | none => simp [RRel]
      | some f =>
        simp only
        refine RRel.bind (h sg f hs hf cs cs' hcs) (fun e e' he => ?_)
        cases e <;> cases e' <;> simp only [ExRelM] at he
        · subst he; simp [RRel]
        · exact bytesToString_mp he

/-! ## Bodies -/

theorem exrelM_refl (r : Res Cause (Except Cause GoVal)) : RRel true ExRelM r r :=
  RRel.of_eq (fun e => by cases e <;> simp [ExRelM, MP.refl]) rfl

theorem exrelM_ok {v v' : GoVal} (h : MP v v') : RRel true ExRelM (.ok (.ok v)) (.ok (.ok v')) := h

theorem argsRelM_cons {p : Param} {ps : List Param} {cs cs' : List Arg} (h : ArgsRelM (p :: ps) cs cs') :
    ∃ a as a' as', cs = a :: as ∧ cs' = a' :: as' ∧ ArgRelM p a a' ∧ ArgsRelM ps as as' := by
  cases cs with
  | nil => simp [ArgsRelM] at h
  | cons a as =>
    cases cs' with
    | nil => simp [ArgsRelM] at h
    | cons a' as' => exact ⟨a, as, a', as', rfl, rfl, h.1, h.2⟩

theorem argsRelM_nil {cs cs' : List Arg} (h : ArgsRelM [] cs cs') : cs = [] ∧ cs' = [] := by
  cases cs <;> cases cs' <;> simp_all [ArgsRelM]

theorem argRelM_val {t : ParamTy} {a a' : Arg} (h : ArgRelM (.val t) a a') : ∃ c c', a = .val c ∧ a' = .val c' ∧ ArgValRelM t c c' := by
  cases a <;> cases a' <;> simp only [ArgRelM] at h
  exact ⟨_, _, rfl, rfl, h⟩

/-- a default-function argument: absent on both sides, or two lazily converted constants that agree -/
theorem argRelM_fn {t : ParamTy} {a a' : Arg} (h : ArgRelM (.fn t) a a') :
    (a = .fn none ∧ a' = .fn none) ∨ ∃ r r', a = .fn (some r) ∧ a' = .fn (some r') ∧ RRel true (ArgValRelM t) r r' := by
  cases a with
  | val v => cases a' <;> simp only [ArgRelM] at h
  | fn o =>
    cases a' with
    | val v => cases o <;> simp only [ArgRelM] at h
    | fn o' =>
      cases o <;> cases o' <;> simp only [ArgRelM] at h
      · exact .inl ⟨rfl, rfl⟩
      · exact .inr ⟨_, _, rfl, rfl, h⟩

/-- every parameter is a plain value of scalar type -/
def valScalarParams : List Param → Bool
  | [] => true
  | .val t :: ps => t.isScalar && valScalarParams ps
  | .fn _ :: _ => false

theorem argsRelM_valScalar_eq : ∀ {ps : List Param} {cs cs' : List Arg}, valScalarParams ps = true → ArgsRelM ps cs cs' → cs = cs'
  | [], _, _, _, h => by obtain ⟨rfl, rfl⟩ := argsRelM_nil h; rfl
  | .val t :: ps, _, _, hp, h => by
    simp only [valScalarParams, Bool.and_eq_true] at hp
    obtain ⟨a, as, a', as', rfl, rfl, h1, h2⟩ := argsRelM_cons h
    obtain ⟨c, c', rfl, rfl, hc⟩ := argRelM_val h1
    rw [ArgValRelM.scalar hp.1 hc, argsRelM_valScalar_eq hp.2 h2]
  | .fn _ :: _, _, _, hp, _ => by simp [valScalarParams] at hp

/-- a filter all of whose parameters are plain scalars gets the same arguments from related inputs -/
theorem implRespectsM_of_valScalar {ps : List Param} (h : valScalarParams ps = true) (f : FilterImpl) : ImplRespectsM ps f := by
  intro cs cs' hcs
  rw [argsRelM_valScalar_eq h hcs]
  exact exrelM_refl _

/-! ### The string filters (`StrGlue.impl`: the arguments are collected left to right, then the body runs) -/

theorem all_shape_rel (p : Arg → Bool) (hp1 : ∀ c c', p (.val c) = p (.val c')) (hp2 : ∀ r r', p (.fn (some r)) = p (.fn (some r'))) :
    ∀ {ps : List Param} {cs cs' : List Arg}, ArgsRelM ps cs cs' → cs.all p = cs'.all p
  | [], _, _, h => by obtain ⟨rfl, rfl⟩ := argsRelM_nil h; rfl
  | .val t :: ps, _, _, h => by
    obtain ⟨a, as, a', as', rfl, rfl, h1, h2⟩ := argsRelM_cons h
    obtain ⟨c, c', rfl, rfl, _⟩ := argRelM_val h1
    simp only [List.all_cons, hp1 c c', all_shape_rel p hp1 hp2 h2]
  | .fn t :: ps, _, _, h => by
    obtain ⟨a, as, a', as', rfl, rfl, h1, h2⟩ := argsRelM_cons h
    rcases argRelM_fn h1 with ⟨rfl, rfl⟩ | ⟨r, r', rfl, rfl, _⟩
    · simp only [List.all_cons, all_shape_rel p hp1 hp2 h2]
    · simp only [List.all_cons, hp2 r r', all_shape_rel p hp1 hp2 h2]

theorem strCollect_mp : ∀ {ps : List Param} {cs cs' : List Arg}, scalarParams ps = true → ArgsRelM ps cs cs' →
    RRel true Eq (StrGlue.collect cs) (StrGlue.collect cs')
  | [], _, _, _, h => by obtain ⟨rfl, rfl⟩ := argsRelM_nil h; exact RRel.of_eq (fun _ => rfl) rfl
  | .val t :: ps, _, _, hp, h => by
    simp only [scalarParams, Bool.and_eq_true] at hp
    obtain ⟨a, as, a', as', rfl, rfl, h1, h2⟩ := argsRelM_cons h
    obtain ⟨c, c', rfl, rfl, hc⟩ := argRelM_val h1
    rw [ArgValRelM.scalar hp.1 hc]
    simp only [StrGlue.collect]
    exact RRel.bind (strCollect_mp hp.2 h2) (fun r r' e => by subst e; exact RRel.of_eq (fun _ => rfl) rfl)
  | .fn t :: ps, _, _, hp, h => by
    simp only [scalarParams, Bool.and_eq_true] at hp
    obtain ⟨a, as, a', as', rfl, rfl, h1, h2⟩ := argsRelM_cons h
    rcases argRelM_fn h1 with ⟨rfl, rfl⟩ | ⟨r, r', rfl, rfl, hr⟩
    · simp only [StrGlue.collect]
      rw [all_shape_rel _ (fun _ _ => rfl) (fun _ _ => rfl) h2]
      exact RRel.of_eq (fun _ => rfl) rfl
    · simp only [StrGlue.collect]
      refine RRel.bind hr (fun v v' hv => ?_)
      rw [ArgValRelM.scalar hp.1 hv]
      exact RRel.bind (strCollect_mp hp.2 h2) (fun r r' e => by subst e; exact RRel.of_eq (fun _ => rfl) rfl)

theorem sliceEarly_rel (name : String) {ps : List Param} {cs cs' : List Arg} (hp : scalarParams ps = true) (h : ArgsRelM ps cs cs') :
    StrGlue.sliceEarly name cs = StrGlue.sliceEarly name cs' := by
  cases ps with
  | nil => obtain ⟨rfl, rfl⟩ := argsRelM_nil h; rfl
  | cons p ps =>
    obtain ⟨a, as, a', as', rfl, rfl, h1, h2⟩ := argsRelM_cons h
    cases p with
    | val t =>
      simp only [scalarParams, Bool.and_eq_true] at hp
      obtain ⟨c, c', rfl, rfl, hc⟩ := argRelM_val h1
      rw [ArgValRelM.scalar hp.1 hc]
      unfold StrGlue.sliceEarly
      congr 1
      cases c' with
      | str s => cases s <;> rfl
      | _ => rfl
    | fn t =>
      rcases argRelM_fn h1 with ⟨rfl, rfl⟩ | ⟨r, r', rfl, rfl, _⟩ <;> simp [StrGlue.sliceEarly]

theorem strGlue_respectsM (name : String) {ps : List Param} (hp : scalarParams ps = true) : ImplRespectsM ps (StrGlue.impl name) := by
  intro cs cs' h
  unfold StrGlue.impl
  rw [sliceEarly_rel name hp h]
  split
  · exact exrelM_refl _
  · exact RRel.bind (strCollect_mp hp h) (fun r r' e => by subst e; exact exrelM_refl _)

/-! ### The array filters -/

theorem argsRelM_anys1 {cs cs' : List Arg} (h : ArgsRelM [.val .anys] cs cs') :
    ∃ ys ys', cs = [.val (.slice .any ys)] ∧ cs' = [.val (.slice .any ys')] ∧ MPL ys ys' := by
  obtain ⟨a, as, a', as', rfl, rfl, h1, h2⟩ := argsRelM_cons h
  obtain ⟨rfl, rfl⟩ := argsRelM_nil h2
  obtain ⟨c, c', rfl, rfl, ys, ys', rfl, rfl, hn⟩ := argRelM_val h1
  exact ⟨ys, ys', rfl, rfl, hn⟩

namespace ArrF

theorem first_respectsM : ImplRespectsM [.val .anys] (eager first) := by
  intro cs cs' h
  obtain ⟨ys, ys', rfl, rfl, hn⟩ := argsRelM_anys1 h
  simp only [eager, FilterImpl.ofEager, FilterImpl.ofEager.collect, Res.bind, first, ret, firstF_head]
  exact exrelM_ok hn.head

theorem last_respectsM : ImplRespectsM [.val .anys] (eager last) := by
  intro cs cs' h
  obtain ⟨ys, ys', rfl, rfl, hn⟩ := argsRelM_anys1 h
  simp only [eager, FilterImpl.ofEager, FilterImpl.ofEager.collect, Res.bind, last, ret, lastF_getLast]
  exact exrelM_ok hn.getLast

theorem reverse_respectsM : ImplRespectsM [.val .anys] (eager reverse) := by
  intro cs cs' h
  obtain ⟨ys, ys', rfl, rfl, hn⟩ := argsRelM_anys1 h
  simp only [eager, FilterImpl.ofEager, FilterImpl.ofEager.collect, Res.bind, reverse, ret, reverseF_rev]
  exact exrelM_ok (MP.slice _ hn.reverse)

theorem compactF_mp : ∀ {ys ys' : List GoVal}, MPL ys ys' → MPL (compactF ys) (compactF ys')
  | _, _, .nil => .nil
  | _, _, .cons hx h => by
    simp only [compactF, isNil_mp hx]
    split
    · exact compactF_mp h
    · exact .cons hx (compactF_mp h)

theorem compact_respectsM : ImplRespectsM [.val .anys] (eager compact) := by
  intro cs cs' h
  obtain ⟨ys, ys', rfl, rfl, hn⟩ := argsRelM_anys1 h
  simp only [eager, FilterImpl.ofEager, FilterImpl.ofEager.collect, Res.bind, compact, ret]
  exact exrelM_ok (MP.slice _ (compactF_mp hn))

theorem concat_respectsM : ImplRespectsM [.val .anys, .val .anys] (eager concat) := by
  intro cs cs' h
  obtain ⟨a, as, a', as', rfl, rfl, h1, h2⟩ := argsRelM_cons h
  obtain ⟨ys, ys', rfl, rfl, hn⟩ := argsRelM_anys1 h2
  obtain ⟨c, c', rfl, rfl, xs, xs', rfl, rfl, hx⟩ := argRelM_val h1
  simp only [eager, FilterImpl.ofEager, FilterImpl.ofEager.collect, Res.bind, concat, ret, concatF]
  exact exrelM_ok (MP.slice _ (hx.append hn))

theorem sprintNonNil_mp : ∀ {ys ys' : List GoVal}, MPL ys ys' → RRel true Eq (sprintNonNil ys) (sprintNonNil ys')
  | _, _, .nil => RRel.of_eq (fun _ => rfl) rfl
  | _, _, .cons hx h => by
    simp only [sprintNonNil, isNil_mp hx]
    split
    · exact sprintNonNil_mp h
    · exact rrel_true_bind_soft (sprintRR_mp hx) (fun _ => rrel_true_bind_soft (sprintNonNil_mp h) (fun _ => RRel.of_eq (fun _ => rfl) rfl))

theorem joinF_mp {xs xs' : List GoVal} (hx : MPL xs xs') (sep : Bytes) : RRel true MP (joinF xs sep) (joinF xs' sep) := by
  unfold joinF
  exact RRel.bind (sprintNonNil_mp hx) (fun ss ss' e => by subst e; exact MP.refl _)

theorem wrapOk_mp {r r' : R GoVal} (h : RRel true MP r r') :
    RRel true ExRelM (match r with | .ok v => ret v | .err c => Res.err c | .panic w => .panic w | .unmodelled w => .unmodelled w)
      (match r' with | .ok v => ret v | .err c => Res.err c | .panic w => .panic w | .unmodelled w => .unmodelled w) := by
  cases r <;> cases r' <;> simp only [RRel] at h ⊢ <;> first | exact h | trivial

theorem join_respectsM : ImplRespectsM [.val .anys, .fn .str] (eager join) := by
  intro cs cs' h
  obtain ⟨a, as, a', as', rfl, rfl, h1, h2⟩ := argsRelM_cons h
  obtain ⟨b, bs, b', bs', rfl, rfl, h3, h4⟩ := argsRelM_cons h2
  obtain ⟨rfl, rfl⟩ := argsRelM_nil h4
  obtain ⟨c, c', rfl, rfl, xs, xs', rfl, rfl, hx⟩ := argRelM_val h1
  rcases argRelM_fn h3 with ⟨rfl, rfl⟩ | ⟨r, r', rfl, rfl, hr⟩
  · simp only [eager, FilterImpl.ofEager, FilterImpl.ofEager.collect, Res.bind_ok, join]
    have := joinF_mp hx [32]
    cases h1 : joinF xs [32] <;> cases h2 : joinF xs' [32] <;> rw [h1, h2] at this <;> simp only [RRel] at this ⊢ <;>
      first | exact this | trivial
  · simp only [eager, FilterImpl.ofEager, FilterImpl.ofEager.collect]
    cases r <;> cases r' <;> simp only [RRel] at hr <;> simp only [Res.bind] <;>
      try (first | exact RRel.unmR rfl _ _ | exact RRel.unmL rfl _ _ | (subst hr; exact exrelM_refl _) | exact hr.elim)
    next v v' =>
      simp only [ArgValRelM] at hr
      subst hr
      cases v with
      | str sep =>
        simp only [join]
        have := joinF_mp hx sep
        cases h1 : joinF xs sep <;> cases h2 : joinF xs' sep <;> rw [h1, h2] at this <;> simp only [RRel] at this ⊢ <;>
          first | exact this | trivial
      | _ => simp only [join, badArgs]; exact exrelM_refl _

theorem propOf_mp {x x' : GoVal} (h : MP x x') (k : Bytes) : RRel true MP (propOf x k) (propOf x' k) := by
  have := propertyValue_mp h k
  unfold propOf
  cases h1 : x.propertyValue k <;> cases h2 : x'.propertyValue k <;> rw [h1, h2] at this <;> simp only [LRelM] at this
  · exact this.unwrap
  · exact .inr this

theorem mapF_mp (k : Bytes) : ∀ {ys ys' : List GoVal}, MPL ys ys' → RRel true MPL (mapF k ys) (mapF k ys')
  | _, _, .nil => by simp only [mapF]; exact MPL.nil
  | _, _, .cons hx h => by
    simp only [mapF]
    exact RRel.bind (propOf_mp hx k) (fun v v' hv => RRel.bind (mapF_mp k h) (fun vs vs' hvs => MPL.cons hv hvs))

theorem map_respectsM : ImplRespectsM [.val .anys, .val .str] (eager map) := by
  intro cs cs' h
  obtain ⟨a, as, a', as', rfl, rfl, h1, h2⟩ := argsRelM_cons h
  obtain ⟨b, bs, b', bs', rfl, rfl, h3, h4⟩ := argsRelM_cons h2
  obtain ⟨rfl, rfl⟩ := argsRelM_nil h4
  obtain ⟨c, c', rfl, rfl, xs, xs', rfl, rfl, hx⟩ := argRelM_val h1
  obtain ⟨k, k', rfl, rfl, hk⟩ := argRelM_val h3
  simp only [ArgValRelM] at hk
  subst hk
  simp only [eager, FilterImpl.ofEager, FilterImpl.ofEager.collect, Res.bind]
  cases k <;> simp only [map, badArgs] <;> try (exact exrelM_refl _)
  next s =>
    have := mapF_mp s hx
    cases h1 : mapF s xs <;> cases h2 : mapF s xs' <;> rw [h1, h2] at this <;> simp only [RRel] at this <;>
      simp only [Res.bind, ret, RRel] <;> first
        | exact MP.slice _ this
        | exact this
        | trivial

end ArrF

/-! ### `size`, `default`, `divided_by`, `round`, `date` -/

namespace Num

theorem argsRelM_any1 {cs cs' : List Arg} (h : ArgsRelM [.val .any] cs cs') :
    ∃ v v', cs = [.val v] ∧ cs' = [.val v'] ∧ MP v v' := by
  obtain ⟨a, as, a', as', rfl, rfl, h1, h2⟩ := argsRelM_cons h
  obtain ⟨rfl, rfl⟩ := argsRelM_nil h2
  obtain ⟨c, c', rfl, rfl, hc⟩ := argRelM_val h1
  exact ⟨c, c', rfl, rfl, hc⟩

theorem size_respectsM : ImplRespectsM [.val .any] size := by
  intro cs cs' h
  obtain ⟨v, v', rfl, rfl, hv⟩ := argsRelM_any1 h
  simp only [size]
  have ht := hv.toLiquid
  generalize v.toLiquid = u at ht ⊢
  generalize v'.toLiquid = u' at ht ⊢
  cases ht with
  | refl => exact exrelM_refl _
  | slice t hl => simp only [hl.length_eq]; exact exrelM_refl _
  | array t hl => simp only [hl.length_eq]; exact exrelM_refl _
  | mapSlice hm => simp only [hm.length_eq]; exact exrelM_refl _
  | _ => exact exrelM_refl _

theorem isEmpty_mp {v v' : GoVal} (h : MP v v') : isEmpty v = isEmpty v' := by
  cases h with
  | refl => rfl
  | slice t hl => exact isEmpty_len hl.length_eq
  | array t hl => exact isEmpty_len hl.length_eq
  | map kt vt hv hk hn hm hp ht => exact isEmpty_len (by rw [hm.length_eq, hp.length_eq])
  | mapVals kt vt hv hn hm => exact isEmpty_len hm.length_eq
  | mapSlice hm => exact isEmpty_len hm.length_eq
  | keyedMap hn hf => exact isEmpty_len hf.length_eq
  | _ => rfl

theorem default_respectsM : ImplRespectsM [.val .any, .val .any] default := by
  intro cs cs' h
  obtain ⟨a, as, a', as', rfl, rfl, h1, h2⟩ := argsRelM_cons h
  obtain ⟨dv, dv', rfl, rfl, hd⟩ := argsRelM_any1 h2
  obtain ⟨v, v', rfl, rfl, hv⟩ := argRelM_val h1
  simp only [ArgValRelM] at hv
  simp only [default, ret]
  have key : ∀ c : Bool, RRel true ExRelM (.ok (.ok (if c = true then dv else v))) (.ok (.ok (if c = true then dv' else v'))) := by
    intro c
    cases c
    · exact exrelM_ok hv
    · exact exrelM_ok hd
  have hi := isEmpty_mp hv.toLiquid
  cases hv with
  | refl => exact key _
  | _ => simp only [hi]; exact key _

theorem dividedBy_respectsM : ImplRespectsM [.val .f64, .val .any] dividedBy := by
  intro cs cs' h
  obtain ⟨a, as, a', as', rfl, rfl, h1, h2⟩ := argsRelM_cons h
  obtain ⟨b, b', rfl, rfl, hb⟩ := argsRelM_any1 h2
  obtain ⟨v, v', rfl, rfl, hv⟩ := argRelM_val h1
  simp only [ArgValRelM] at hv
  subst hv
  rcases hb.cases_rigid with rfl | ⟨hr1, hr2⟩
  · exact exrelM_refl _
  · have e1 : ∀ a : Rat, dividedBy [.val (.flt .f64 a), .val b] = retErr (.other "invalid divisor") := by
      intro a; cases b <;> simp_all [rigidM, dividedBy]
    have e2 : ∀ a : Rat, dividedBy [.val (.flt .f64 a), .val b'] = retErr (.other "invalid divisor") := by
      intro a; cases b' <;> simp_all [rigidM, dividedBy]
    cases v with
    | flt k q =>
      cases k with
      | f64 => rw [e1, e2]; exact exrelM_refl _
      | f32 => simp only [dividedBy]; exact exrelM_refl _
    | _ => simp only [dividedBy]; exact exrelM_refl _

/-- a body that calls its default-function argument once and continues with the value -/
theorem call_bind_mp {t : ParamTy} (ht : t.isScalar = true) {a a' : Arg} (h : ArgRelM (.fn t) a a') (d : GoVal)
    (k : GoVal → Res Cause (Except Cause GoVal)) :
    RRel true ExRelM ((a.call d).bind k) ((a'.call d).bind k) := by
  rcases argRelM_fn h with ⟨rfl, rfl⟩ | ⟨r, r', rfl, rfl, hr⟩
  · exact exrelM_refl _
  · simp only [Arg.call]
    exact RRel.bind hr (fun v v' e => by rw [ArgValRelM.scalar ht e]; exact exrelM_refl _)

theorem round_respectsM : ImplRespectsM [.val .f64, .fn .int] round := by
  intro cs cs' h
  obtain ⟨a, as, a', as', rfl, rfl, h1, h2⟩ := argsRelM_cons h
  obtain ⟨b, bs, b', bs', rfl, rfl, h3, h4⟩ := argsRelM_cons h2
  obtain ⟨rfl, rfl⟩ := argsRelM_nil h4
  obtain ⟨v, v', rfl, rfl, hv⟩ := argRelM_val h1
  simp only [ArgValRelM] at hv
  subst hv
  cases v with
  | flt k q =>
    cases k with
    | f64 => simp only [round]; exact call_bind_mp rfl h3 _ _
    | f32 => simp only [round]; exact exrelM_refl _
  | _ => simp only [round]; exact exrelM_refl _

end Num

theorem date_respectsM : ImplRespectsM [.val .time, .fn .str] DateF.date := by
  intro cs cs' h
  obtain ⟨a, as, a', as', rfl, rfl, h1, h2⟩ := argsRelM_cons h
  obtain ⟨b, bs, b', bs', rfl, rfl, h3, h4⟩ := argsRelM_cons h2
  obtain ⟨rfl, rfl⟩ := argsRelM_nil h4
  obtain ⟨v, v', rfl, rfl, hv⟩ := argRelM_val h1
  simp only [ArgValRelM] at hv
  subst hv
  cases v with
  | time u => simp only [DateF.date]; exact Num.call_bind_mp rfl h3 _ _
  | _ => simp only [DateF.date]; exact exrelM_refl _

/-! ## The table of the standard filters -/

/-- the signature registered under a name has plain scalar parameters only (or the name is not registered) -/
def valScalarSigB (name : Bytes) : Bool :=
  match lookupSig name with
  | some sg => valScalarParams sg.params
  | none => true

/-- an entry of the table of filter bodies maps related arguments to related results -/
def goodEntryM (e : Bytes × FilterImpl) : Prop :=
  ∀ sg, lookupSig e.1 = some sg → ImplRespectsM sg.params e.2

theorem goodEntryM_of_valScalar {name : Bytes} (h : valScalarSigB name = true) (f : FilterImpl) : goodEntryM (name, f) := by
  intro sg hs
  simp only [valScalarSigB, hs] at h
  exact implRespectsM_of_valScalar h f

theorem goodEntryM_of_sig {name : Bytes} {f : FilterImpl} (sg0 : FilterSig) (hs0 : lookupSig name = some sg0)
    (h : ImplRespectsM sg0.params f) : goodEntryM (name, f) := by
  intro sg hs
  simp only at hs
  rw [hs0] at hs
  cases hs
  exact h

theorem goodEntryM_strGlue (n : String) (h : scalarSigB n.toUTF8.toList = true) : goodEntryM (n.toUTF8.toList, StrGlue.impl n) := by
  intro sg hs
  simp only [scalarSigB, hs] at h
  exact strGlue_respectsM n h

/-- the filters whose bodies are not (yet) shown to respect the relation `MP`: the two sorts and `uniq`
    (which compare and identify whole elements) and the value printers `json`, `inspect`, `type` -/
def openFiltersM : List Bytes := [ArrF.bn "sort", ArrF.bn "uniq", ArrF.bn "sort_natural",
  JsonF.bn "json", JsonF.bn "inspect", JsonF.bn "type"]

theorem goodEntryM_table (excl : List Bytes)
    (hs : ArrF.bn "sort" ∉ excl → goodEntryM (ArrF.bn "sort", ArrF.eager ArrF.sort))
    (hu : ArrF.bn "uniq" ∉ excl → goodEntryM (ArrF.bn "uniq", ArrF.eager ArrF.uniq))
    (hnat : ArrF.bn "sort_natural" ∉ excl → goodEntryM (ArrF.bn "sort_natural", ArrF.eager ArrF.sortNatural))
    (hjson : JsonF.bn "json" ∉ excl → goodEntryM (JsonF.bn "json", JsonF.json))
    (hinsp : JsonF.bn "inspect" ∉ excl → goodEntryM (JsonF.bn "inspect", JsonF.inspect))
    (htype : JsonF.bn "type" ∉ excl → goodEntryM (JsonF.bn "type", JsonF.typeF)) :
    ∀ e ∈ stdFilterImpls, e.1 ∉ excl → goodEntryM e := by
  intro e he hn
  simp only [stdFilterImpls, List.mem_append] at he
  rcases he with (((he | he) | he) | he) | he
  · simp only [Num.impls, List.mem_cons, List.not_mem_nil, or_false] at he
    rcases he with rfl | rfl | rfl | rfl | rfl | rfl | rfl | rfl | rfl | rfl | rfl
    · exact goodEntryM_of_valScalar (by decide +kernel) _
    · exact goodEntryM_of_valScalar (by decide +kernel) _
    · exact goodEntryM_of_valScalar (by decide +kernel) _
    · exact goodEntryM_of_valScalar (by decide +kernel) _
    · exact goodEntryM_of_valScalar (by decide +kernel) _
    · exact goodEntryM_of_valScalar (by decide +kernel) _
    · exact goodEntryM_of_valScalar (by decide +kernel) _
    · exact goodEntryM_of_sig ⟨Num.bn "divided_by", [.val .f64, .val .any], true⟩ (by decide +kernel) Num.dividedBy_respectsM
    · exact goodEntryM_of_sig ⟨Num.bn "round", [.val .f64, .fn .int], false⟩ (by decide +kernel) Num.round_respectsM
    · exact goodEntryM_of_sig ⟨Num.bn "default", [.val .any, .val .any], false⟩ (by decide +kernel) Num.default_respectsM
    · exact goodEntryM_of_sig ⟨Num.bn "size", [.val .any], false⟩ (by decide +kernel) Num.size_respectsM
  · simp only [StrGlue.impls, List.mem_map] at he
    obtain ⟨n, hn', rfl⟩ := he
    exact goodEntryM_strGlue n (List.all_eq_true.mp strGlue_scalar n hn')
  · simp only [ArrF.impls, List.mem_cons, List.not_mem_nil, or_false] at he
    rcases he with rfl | rfl | rfl | rfl | rfl | rfl | rfl | rfl | rfl | rfl
    · exact goodEntryM_of_sig ⟨ArrF.bn "compact", [.val .anys], false⟩ (by decide +kernel) ArrF.compact_respectsM
    · exact goodEntryM_of_sig ⟨ArrF.bn "concat", [.val .anys, .val .anys], false⟩ (by decide +kernel) ArrF.concat_respectsM
    · exact goodEntryM_of_sig ⟨ArrF.bn "join", [.val .anys, .fn .str], false⟩ (by decide +kernel) ArrF.join_respectsM
    · exact goodEntryM_of_sig ⟨ArrF.bn "map", [.val .anys, .val .str], false⟩ (by decide +kernel) ArrF.map_respectsM
    · exact goodEntryM_of_sig ⟨ArrF.bn "reverse", [.val .anys], false⟩ (by decide +kernel) ArrF.reverse_respectsM
    · exact hs hn
    · exact goodEntryM_of_sig ⟨ArrF.bn "first", [.val .anys], false⟩ (by decide +kernel) ArrF.first_respectsM
    · exact goodEntryM_of_sig ⟨ArrF.bn "last", [.val .anys], false⟩ (by decide +kernel) ArrF.last_respectsM
    · exact hu hn
    · exact hnat hn
  · simp only [JsonF.impls, List.mem_cons, List.not_mem_nil, or_false] at he
    rcases he with rfl | rfl | rfl
    · exact hjson hn
    · exact hinsp hn
    · exact htype hn
  · simp only [DateF.impls, List.mem_cons, List.not_mem_nil, or_false] at he
    subst he
    exact goodEntryM_of_sig ⟨[100, 97, 116, 101], [.val .time, .fn .str], true⟩ (by decide +kernel) date_respectsM

theorem goodEntryM_std : ∀ e ∈ stdFilterImpls, e.1 ∉ openFiltersM → goodEntryM e :=
  goodEntryM_table openFiltersM (fun h => absurd (by simp [openFiltersM]) h) (fun h => absurd (by simp [openFiltersM]) h)
    (fun h => absurd (by simp [openFiltersM]) h) (fun h => absurd (by simp [openFiltersM]) h)
    (fun h => absurd (by simp [openFiltersM]) h) (fun h => absurd (by simp [openFiltersM]) h)

/-- every standard filter other than `sort`, `uniq`, `sort_natural`, `json`, `inspect`, `type` maps related inputs to
    related results, for every name (registered or not) -/
theorem filterRespectsM_std (name : Bytes) (h : name ∉ openFiltersM) : FilterRespectsM name :=
  filterRespectsM_of_impl name (fun sg f hs hf => goodEntryM_std (name, f) (lookupImpl_mem hf) h sg hs)

/-- the standard comparisons do not see the order of map entries, and neither does any allowed filter, given that
    the allowed ones among `sort`, `uniq`, `sort_natural`, `json`, `inspect`, `type` do not -/
theorem stdPrimsOnly_respectsM (allowed : Bytes → Bool)
    (hopen : ∀ n, n ∈ openFiltersM → allowed n = true → FilterRespectsM n) :
    PrimsRespectM true (stdPrimsOnly allowed) :=
  { equal := fun a a' b b' ha hb => opEq_prep_mp ha hb,
    less := fun a a' b b' ha hb => RRel.of_eq (fun _ => rfl) (opLt_prep_mp ha hb),
    contains := fun a a' b b' ha hb => opContains_prep_mp ha hb,
    equalFn := fun a a' b b' ha hb => equal_mp (prep_mp ha.2.2) (prep_mp hb.2.2),
    applyFilter := fun name r r' as as' hr has => by
      show RRel true MP (if allowed name then _ else _) (if allowed name then _ else _)
      have has' : All2 MP as as' := by
        clear hr
        induction has with
        | nil => exact .nil
        | cons h _ ih => exact .cons h.2.2 ih
      cases ha : allowed name with
      | false => simp [RRel]
      | true =>
        simp only [if_true]
        by_cases hn : name ∈ openFiltersM
        · exact hopen name hn ha r r' as as' hr.2.2 has'
        · exact filterRespectsM_std name hn r r' as as' hr.2.2 has' }

/-- the engine without `sort`, `uniq`, `sort_natural`, `json`, `inspect`, `type` -/
def coreFiltersM (n : Bytes) : Bool := !openFiltersM.contains n
