import Liquid.Render
import Proofs.MapOrderLemmas
/-!
# Rendering never panics when the value layer does not (helper lemmas for C01)
-/

/-- no `panic` leaf, whatever the writer answers -/
inductive NoPanicProg {α : Type} : Prog α → Prop where
  | ret (a) : NoPanicProg (.ret a)
  | fail (e) : NoPanicProg (.fail e)
  | unmodelled (w) : NoPanicProg (.unmodelled w)
  | call (b k) : (∀ r, NoPanicProg (k r)) → NoPanicProg (.call b k)

theorem NoPanicProg.bind {α β} {p : Prog α} {f : α → Prog β} (hp : NoPanicProg p) (hf : ∀ a, NoPanicProg (f a)) :
    NoPanicProg (p.bind f) := by
  induction hp with
  | ret a => exact hf a
  | fail e => exact .fail e
  | unmodelled w => exact .unmodelled w
  | call b k _ ih => exact .call _ _ ih

theorem NoPanicProg.mapFail {α} {p : Prog α} (g : RawErr → RawErr) (hp : NoPanicProg p) : NoPanicProg (p.mapFail g) := by
  induction hp with
  | ret a => exact .ret a
  | fail e => exact .fail _
  | unmodelled w => exact .unmodelled w
  | call b k _ ih => exact .call _ _ ih

def NoPanicRes {ε α} : Res ε α → Prop
  | .panic _ => False
  | _ => True

theorem NoPanicRes.bind {ε α β} {x : Res ε α} {f : α → Res ε β} (hx : NoPanicRes x) (hf : ∀ a, NoPanicRes (f a)) :
    NoPanicRes (x.bind f) := by
  cases x with
  | ok a => exact hf a
  | err e => trivial
  | panic w => exact hx
  | unmodelled w => trivial

def NPM {α} (m : M α) : Prop := ∀ s, NoPanicProg (m s)

theorem npm_pure {α} (a : α) : NPM (pure a : M α) := fun _ => .ret _
theorem npm_bind {α β} {m : M α} {f : α → M β} (hm : NPM m) (hf : ∀ a, NPM (f a)) : NPM (m >>= f) :=
  fun s => NoPanicProg.bind (hm s) (fun ⟨a, s'⟩ => hf a s')
theorem npm_fail {α} (e : RawErr) : NPM (M.fail e : M α) := fun _ => .fail _
theorem npm_getEnv : NPM M.getEnv := fun _ => .ret _
theorem npm_setVar (x : Bytes) (v : GoVal) : NPM (M.setVar x v) := fun _ => .ret _
theorem npm_getVar (x : Bytes) : NPM (M.getVar x) := fun _ => .ret _

theorem npm_ofRes {α} (r : Res Cause α) (h : NoPanicRes r) : NPM (M.ofRes r) := by
  intro s
  cases r with
  | ok a => exact .ret _
  | err c => exact .fail _
  | panic w => exact absurd h (by simp [NoPanicRes])
  | unmodelled w => exact .unmodelled _

theorem npm_wrapFailAt {α} (path : Bytes) (loc : Loc) {m : M α} (hm : NPM m) : NPM (wrapFailAt path loc m) :=
  fun s => NoPanicProg.mapFail _ (hm s)

theorem npm_wrapAt (path : Bytes) (loc : Loc) {m : M Status} (hm : NPM m) : NPM (wrapAt path loc m) := by
  intro s
  unfold wrapAt
  exact NoPanicProg.bind (NoPanicProg.mapFail _ (hm s)) (fun _ => .ret _)

theorem npm_flush : NPM flushM := by
  intro s
  unfold flushM
  split
  · exact .ret _
  · exact .call _ _ (fun r => by cases r <;> first | exact .ret _ | exact .fail _)

theorem npm_write (b : Bytes) : NPM (writeM b) := by
  intro s
  unfold writeM
  simp only
  split
  · exact .ret _
  · exact .call _ _ (fun r => by cases r <;> first | exact .ret _ | exact .fail _)

theorem npm_trimLeft : NPM trimLeftM := by
  intro s
  exact .call _ _ (fun r => by cases r <;> first | exact .ret _ | exact .fail _)

theorem npm_trimRight : NPM trimRightM := fun _ => .ret _

theorem npm_writeVerbatim (b : Bytes) : NPM (writeVerbatimM b) := by
  unfold writeVerbatimM
  exact npm_bind (npm_write _) (fun _ => npm_bind (npm_write b) (fun _ => npm_flush))

theorem npm_writeAll : ∀ cs, NPM (writeAllM cs)
  | [] => npm_pure ()
  | c :: cs => by
    unfold writeAllM
    exact npm_bind (npm_writeVerbatim c) (fun _ => npm_writeAll cs)

theorem runPure_noPanic {α} {p : Prog α} (hp : NoPanicProg p) : ∀ w, p.runPure.2 ≠ .panic w := by
  induction hp with
  | ret a => intro w h; cases h
  | fail e => intro w h; cases h
  | unmodelled w' => intro w h; cases h
  | call b k _ ih =>
    intro w
    simp only [Prog.runPure]
    exact ih .ok w

theorem npm_capture {α} {m : M α} (hm : NPM m) : NPM (captureM m) := by
  intro s
  unfold captureM
  simp only
  have hp : NoPanicProg ((m { env := s.env, tw := {} }).bind fun x => (flushM x.2).bind fun y => Prog.ret (x.1, y.2)) :=
    NoPanicProg.bind (hm _) (fun ⟨a, s1⟩ => NoPanicProg.bind (npm_flush s1) (fun _ => .ret _))
  split
  · exact .ret _
  · exact .fail _
  · next w heq =>
    have := runPure_noPanic hp w
    rw [heq] at this
    exact absurd rfl this
  · exact .unmodelled _

/-- the value layer never panics -/
structure PrimsNoPanic (P : Prims) (O : OutPrims) : Prop where
  equal : ∀ a b, NoPanicRes (P.equal a b)
  less : ∀ a b, NoPanicRes (P.less a b)
  contains : ∀ a b, NoPanicRes (P.contains a b)
  equalFn : ∀ a b, NoPanicRes (P.equalFn a b)
  applyFilter : ∀ n r as, NoPanicRes (P.applyFilter n r as)
  chunks : ∀ v, NoPanicRes (O.chunks v)


/-! ## Lookup and evaluation -/

theorem liftL_noPanic (r : GoVal.LRes) : NoPanicRes (liftL r) := by
  cases r <;> trivial

mutual
theorem eval_noPanic (P : Prims) (O : OutPrims) (h : PrimsNoPanic P O) (env : Env) : ∀ e : Expr, NoPanicRes (eval P env e)
  | .lit v => by rw [eval]; trivial
  | .var x => by rw [eval]; trivial
  | .prop e name => by
    rw [eval]
    exact NoPanicRes.bind (eval_noPanic P O h env e) (fun _ => liftL_noPanic _)
  | .index e i => by
    rw [eval]
    exact NoPanicRes.bind (eval_noPanic P O h env e) (fun _ => NoPanicRes.bind (eval_noPanic P O h env i) (fun _ => liftL_noPanic _))
  | .range a b => by
    rw [eval]
    refine NoPanicRes.bind (eval_noPanic P O h env a) (fun va => ?_)
    split
    · trivial
    · refine NoPanicRes.bind (eval_noPanic P O h env b) (fun vb => ?_)
      split <;> trivial
  | .rel op a b => by
    rw [eval]
    refine NoPanicRes.bind (eval_noPanic P O h env a) (fun va => NoPanicRes.bind (eval_noPanic P O h env b) (fun vb => ?_))
    cases op
    · exact NoPanicRes.bind (h.equal _ _) (fun _ => trivial)
    · exact NoPanicRes.bind (h.equal _ _) (fun _ => trivial)
    · exact NoPanicRes.bind (h.less _ _) (fun _ => trivial)
    · exact NoPanicRes.bind (h.less _ _) (fun _ => trivial)
    · refine NoPanicRes.bind (h.less _ _) (fun l => ?_)
      split
      · trivial
      · exact NoPanicRes.bind (h.equal _ _) (fun _ => trivial)
    · refine NoPanicRes.bind (h.less _ _) (fun l => ?_)
      split
      · trivial
      · exact NoPanicRes.bind (h.equal _ _) (fun _ => trivial)
    · exact NoPanicRes.bind (h.contains _ _) (fun _ => trivial)
  | .and_ a b => by
    rw [eval]
    refine NoPanicRes.bind (eval_noPanic P O h env a) (fun va => ?_)
    split
    · exact NoPanicRes.bind (eval_noPanic P O h env b) (fun _ => trivial)
    · trivial
  | .or_ a b => by
    rw [eval]
    refine NoPanicRes.bind (eval_noPanic P O h env a) (fun va => ?_)
    split
    · trivial
    · exact NoPanicRes.bind (eval_noPanic P O h env b) (fun _ => trivial)
  | .filter e name args => by
    rw [eval]
    split
    · trivial
    · exact NoPanicRes.bind (eval_noPanic P O h env e) (fun _ => NoPanicRes.bind (evalList_noPanic P O h env args)
        (fun _ => h.applyFilter _ _ _))
theorem evalList_noPanic (P : Prims) (O : OutPrims) (h : PrimsNoPanic P O) (env : Env) :
    ∀ es : List Expr, NoPanicRes (evalList P env es)
  | [] => by rw [evalList]; trivial
  | e :: es => by
    rw [evalList]
    exact NoPanicRes.bind (eval_noPanic P O h env e) (fun _ => NoPanicRes.bind (evalList_noPanic P O h env es) (fun _ => trivial))
end

theorem evaluate_noPanic (P : Prims) (O : OutPrims) (h : PrimsNoPanic P O) (env : Env) (e : Expr) :
    NoPanicRes (evaluate P env e) := by
  unfold evaluate
  have := eval_noPanic P O h env e
  cases hr : eval P env e with
  | ok v => trivial
  | err c => trivial
  | panic w => rw [hr] at this; exact this
  | unmodelled w => trivial

/-! ## Rendering -/

theorem npm_tablerowBefore (cols i : Nat) : NPM (tablerowBefore cols i) := by
  unfold tablerowBefore
  dsimp only
  split
  · exact npm_bind (npm_write _) (fun _ => npm_write _)
  · exact npm_bind (npm_pure _) (fun _ => npm_write _)

theorem npm_tablerowAfter (cols i l : Nat) : NPM (tablerowAfter cols i l) := by
  unfold tablerowAfter
  refine npm_bind (npm_write _) (fun _ => ?_)
  split
  · exact npm_write _
  · exact npm_pure _

variable {P : Prims} {O : OutPrims}

theorem npm_evalCond (h : PrimsNoPanic P O) (path : Bytes) (t : CondT) : NPM (evalCond P path t) := by
  unfold evalCond
  refine npm_bind npm_getEnv (fun env => ?_)
  cases t with
  | always => exact npm_pure _
  | expr line e => exact npm_wrapFailAt _ _ (npm_bind (npm_ofRes _ (evaluate_noPanic P O h env e)) (fun _ => npm_pure _))
  | notExpr line e => exact npm_wrapFailAt _ _ (npm_bind (npm_ofRes _ (evaluate_noPanic P O h env e)) (fun _ => npm_pure _))

theorem npm_intModifier (h : PrimsNoPanic P O) (e : Option Expr) (loc : Loc) : NPM (intModifier P e loc) := by
  unfold intModifier
  cases e with
  | none => exact npm_pure _
  | some ex =>
    refine npm_bind npm_getEnv (fun env => npm_bind (npm_ofRes _ (evaluate_noPanic P O h env ex)) (fun v => ?_))
    split
    · exact npm_pure _
    · exact npm_fail _

theorem npm_tablerowCols (h : PrimsNoPanic P O) (tr : Bool) (cols : Option Expr) (loc : Loc) :
    NPM (tablerowCols P tr cols loc) := by
  unfold tablerowCols
  split
  · refine npm_bind (npm_intModifier h _ _) (fun cv => ?_)
    cases cv <;> exact npm_pure _
  · exact npm_pure _

theorem npm_restore (var : Bytes) (a b : GoVal) : NPM (restoreLoopVars var a b) := by
  unfold restoreLoopVars
  exact npm_bind (npm_setVar _ _) (fun _ => npm_setVar _ _)

theorem npm_iterate (var : Bytes) (cols : Option Nat) (body : M Status) (hb : NPM body) (n : Nat) :
    ∀ xs i cyc, NPM (iterateM var cols body n xs i cyc) := by
  intro xs
  induction xs with
  | nil => intro i cyc; exact npm_pure _
  | cons x xs ih =>
    intro i cyc
    unfold iterateM
    refine npm_bind (npm_setVar _ _) (fun _ => npm_bind (npm_setVar _ _) (fun _ => ?_))
    refine npm_bind ?_ (fun _ => npm_bind hb (fun st => npm_bind ?_ (fun _ => npm_bind (npm_getVar _) (fun cur => ?_))))
    · cases cols with
      | none => exact npm_pure _
      | some c => exact npm_tablerowBefore c i
    · cases cols with
      | none => exact npm_pure _
      | some c => exact npm_tablerowAfter c i n
    · cases st with
      | brk e => exact npm_pure _
      | done => exact ih _ _
      | cont e => exact ih _ _

theorem loopItems_noPanic {budget : Int} (v : GoVal) : NoPanicRes (loopItems budget v) := by
  unfold loopItems
  split <;> try trivial
  · split <;> trivial
  · next kvs =>
    rcases MapOrder.sortedMapEntries_cases (ε := Cause) kvs with ⟨_, h⟩ | ⟨_, w, h⟩ <;> rw [h] <;> trivial

theorem npm_loopRun {budget : Int} (h : PrimsNoPanic P O) (path : Bytes) (loc : Loc) (tr : Bool) (var : Bytes) (e : Expr) (mods : LoopMods)
    {bodyM : M Status} (hb : NPM bodyM) (tooMany : Bool) (elseM : Option (M Status))
    (he : ∀ m, elseM = some m → NPM m) :
    NPM (loopRun budget P path loc tr var e mods bodyM tooMany elseM) := by
  unfold loopRun
  refine npm_wrapAt _ _ (npm_bind npm_getEnv (fun env => npm_bind (npm_ofRes _ (evaluate_noPanic P O h env e)) (fun v =>
    npm_bind (npm_ofRes _ (loopItems_noPanic v)) (fun items0 => npm_bind (npm_intModifier h _ _) (fun off =>
    npm_bind (npm_intModifier h _ _) (fun lim => ?_))))))
  split
  · exact npm_fail _
  · unfold loopDispatch
    split
    · next els => exact he _ rfl
    · unfold loopIterate
      exact npm_bind (npm_tablerowCols h _ _ _) (fun cols => npm_bind (npm_getVar _) (fun pl =>
        npm_bind (npm_getVar _) (fun pv => npm_bind (npm_iterate _ _ _ hb _ _ _ _) (fun st =>
        npm_bind (npm_restore _ _ _) (fun _ => npm_pure _)))))

/-- the include handler never panics -/
def IncNoPanic (c : RCtx) : Prop := ∀ line f env, NoPanicProg (c.inc line f env)

theorem mkTok_noPanic (r : Rule) (t : Bytes) (w : String) : mkTok r t ≠ .panic w := by
  unfold mkTok
  cases r <;> simp <;> (try split) <;> simp

theorem lexAux_noPanic : ∀ (n : Nat) (s : Bytes) (acc : List ETok) (w : String), (lexAux n s acc).2 ≠ some (.panic w) := by
  intro n
  induction n with
  | zero => intro s acc w; simp [lexAux]
  | succ n ih =>
    intro s acc w
    cases s with
    | nil => simp [lexAux]
    | cons b bs =>
      simp only [lexAux]
      split
      · simp
      · split
        · exact ih _ _ _
        · exact ih _ _ _
        · simp
        · next w' heq => exact absurd heq (mkTok_noPanic _ _ _)
        · simp

theorem parseExprSource_noPanic (src : Bytes) : NoPanicRes (parseExprSource src) := by
  unfold parseExprSource parseSource
  have hl : ∀ w, (lex src).2 ≠ some (.panic w) := fun w => lexAux_noPanic _ _ _ w
  rcases hlex : lex src with ⟨toks, o⟩
  cases o with
  | none =>
    simp only
    cases parseTokensE toks with
    | none => trivial
    | some st => cases st <;> trivial
  | some r =>
    cases r with
    | ok _ => trivial
    | err _ => trivial
    | panic w => exact absurd (by rw [hlex]) (hl w)
    | unmodelled _ => trivial

mutual
theorem np_renderNode (c : RCtx) (h : PrimsNoPanic c.P c.O) (hc : IncNoPanic c) : ∀ n : Node, NPM (renderNode c n)
  | .text line src => by
    unfold renderNode
    exact npm_wrapFailAt _ _ (npm_bind (npm_write _) (fun _ => npm_pure _))
  | .obj line e => by
    unfold renderNode
    refine npm_wrapFailAt _ _ (npm_bind npm_getEnv (fun env => npm_bind (npm_ofRes _ (evaluate_noPanic _ _ h env e)) (fun v => ?_)))
    split
    · exact npm_fail _
    · exact npm_bind (npm_ofRes _ (h.chunks v)) (fun _ => npm_bind (npm_writeAll _) (fun _ => npm_pure _))
  | .raw slices => by
    unfold renderNode
    exact npm_wrapFailAt _ _ (npm_bind (npm_writeAll _) (fun _ => npm_pure _))
  | .trim true => by
    unfold renderNode
    exact npm_wrapFailAt _ _ (npm_bind npm_trimLeft (fun _ => npm_pure _))
  | .trim false => by
    unfold renderNode
    exact npm_bind npm_trimRight (fun _ => npm_pure _)
  | .assign line x e => by
    unfold renderNode
    exact npm_wrapFailAt _ _ (npm_bind npm_getEnv (fun env => npm_bind (npm_ofRes _ (evaluate_noPanic _ _ h env e))
      (fun v => npm_bind (npm_setVar _ _) (fun _ => npm_pure _))))
  | .capture line x body => by
    unfold renderNode
    refine npm_wrapAt _ _ (npm_bind (npm_capture (np_renderList c h hc body)) (fun r => ?_))
    obtain ⟨st, out⟩ := r
    cases st with
    | done => exact npm_bind (npm_setVar _ _) (fun _ => npm_pure _)
    | brk e => exact npm_pure _
    | cont e => exact npm_pure _
  | .ifB line branches => by
    unfold renderNode
    exact npm_wrapAt _ _ (np_renderBranches c h hc branches)
  | .caseB line subject cases => by
    unfold renderNode
    exact npm_wrapAt _ _ (npm_bind npm_getEnv (fun env => npm_bind (npm_ofRes _ (evaluate_noPanic _ _ h env subject))
      (fun sel => np_renderCases c h hc sel cases)))
  | .loop line tablerow var e mods body clauses => by
    unfold renderNode
    simp only
    split
    · exact npm_loopRun h _ _ _ _ _ _ (np_renderBlockBody c h hc body) _ none (fun _ h => by cases h)
    · next els =>
      exact npm_loopRun h _ _ _ _ _ _ (np_renderBlockBody c h hc body) _ (some _)
        (fun m hm => by cases hm; exact np_renderBlockBody c h hc els)
    · exact npm_loopRun h _ _ _ _ _ _ (np_renderBlockBody c h hc body) _ none (fun _ h => by cases h)
  | .cycle line group v0 rest => by
    unfold renderNode
    refine npm_wrapFailAt _ _ (npm_bind (npm_getVar _) (fun lv => ?_))
    split
    · exact npm_fail _
    · exact npm_bind (npm_setVar _ _) (fun _ => npm_bind (npm_writeVerbatim _) (fun _ => npm_pure _))
  | .brk line => by unfold renderNode; exact npm_pure _
  | .cont line => by unfold renderNode; exact npm_pure _
  | .incl line args => by
    unfold renderNode
    refine npm_wrapAt _ _ (npm_bind npm_getEnv (fun env => npm_bind (npm_ofRes _ ?_) (fun e =>
      npm_bind (npm_ofRes _ (evaluate_noPanic _ _ h env e)) (fun v => ?_))))
    · have := parseExprSource_noPanic args
      cases hp : parseExprSource args <;> simp_all [Res.mapErr, NoPanicRes]
    · split
      · next rel =>
        refine npm_bind ?_ (fun r => ?_)
        · intro s
          exact NoPanicProg.bind (hc _ _ _) (fun _ => .ret _)
        · obtain ⟨st, out⟩ := r
          cases st with
          | done => exact npm_bind (npm_writeVerbatim _) (fun _ => npm_pure _)
          | brk e => exact npm_pure _
          | cont e => exact npm_pure _
      · exact npm_fail _
theorem np_renderList (c : RCtx) (h : PrimsNoPanic c.P c.O) (hc : IncNoPanic c) : ∀ ns : List Node, NPM (renderList c ns)
  | [] => by unfold renderList; exact npm_pure _
  | n :: ns => by
    unfold renderList
    refine npm_bind (np_renderNode c h hc n) (fun st => ?_)
    cases st with
    | done => exact np_renderList c h hc ns
    | brk e => exact npm_pure _
    | cont e => exact npm_pure _
theorem np_renderBlockBody (c : RCtx) (h : PrimsNoPanic c.P c.O) (hc : IncNoPanic c) (body : List Node) :
    NPM (renderBlockBody c body) := by
  unfold renderBlockBody
  refine npm_bind (np_renderList c h hc body) (fun st => ?_)
  cases st with
  | done => exact npm_bind (npm_wrapFailAt _ _ npm_flush) (fun _ => npm_pure _)
  | brk e => exact npm_pure _
  | cont e => exact npm_pure _
theorem np_renderBranches (c : RCtx) (h : PrimsNoPanic c.P c.O) (hc : IncNoPanic c) :
    ∀ bs : List (CondT × List Node), NPM (renderBranches c bs)
  | [] => by unfold renderBranches; exact npm_pure _
  | (t, body) :: rest => by
    unfold renderBranches
    refine npm_bind (npm_evalCond h _ _) (fun b => ?_)
    split
    · exact np_renderBlockBody c h hc body
    · exact np_renderBranches c h hc rest
theorem np_renderCases (c : RCtx) (h : PrimsNoPanic c.P c.O) (hc : IncNoPanic c) (sel : GoVal) :
    ∀ cs : List (Option (Nat × List Expr) × List Node), NPM (renderCases c sel cs)
  | [] => by unfold renderCases; exact npm_pure _
  | (none, body) :: _ => by unfold renderCases; exact np_renderBlockBody c h hc body
  | (some (line, es), body) :: rest => by
    unfold renderCases
    refine npm_bind (npm_wrapFailAt _ _ (np_whenMatches c h sel es)) (fun hit => ?_)
    split
    · exact np_renderBlockBody c h hc body
    · exact np_renderCases c h hc sel rest
theorem np_whenMatches (c : RCtx) (h : PrimsNoPanic c.P c.O) (sel : GoVal) : ∀ es : List Expr, NPM (whenMatches c sel es)
  | [] => by unfold whenMatches; exact npm_pure _
  | e :: es => by
    unfold whenMatches
    refine npm_bind npm_getEnv (fun env => npm_bind (npm_ofRes _ (evaluate_noPanic _ _ h env e)) (fun v =>
      npm_bind (npm_ofRes _ (h.equalFn _ _)) (fun eq => ?_)))
    split
    · exact npm_pure _
    · exact np_whenMatches c h sel es
end
