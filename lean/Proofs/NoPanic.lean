import Liquid.Render
/-!
# Rendering never panics when the value layer does not (helper lemmas for C01)
-/

/-- no `panic` leaf, whatever the writer answers -/
inductive NoPanicProg {α : Type} : Prog α → Prop where
  | ret (a) : NoPanicProg (.ret a)
  | fail (e) : NoPanicProg (.fail e)
  | unmodelled (w) : NoPanicProg (.unmodelled w)
  | call (b k) : (∀ r, NoPanicProg (k r)) → NoPanicProg (.call b k)

theorem NoPanicProg.bind {α β} {p : Prog α} {f : α → Prog β} (hp : NoPanicProg p) (hf : ∀ a, NoPanicProg (f a)) :
    NoPanicProg (p.bind f) := by
  induction hp with
  | ret a => exact hf a
  | fail e => exact .fail e
  | unmodelled w => exact .unmodelled w
  | call b k _ ih => exact .call _ _ ih

theorem NoPanicProg.mapFail {α} {p : Prog α} (g : RawErr → RawErr) (hp : NoPanicProg p) : NoPanicProg (p.mapFail g) := by
  induction hp with
  | ret a => exact .ret a
  | fail e => exact .fail _
  | unmodelled w => exact .unmodelled w
  | call b k _ ih => exact .call _ _ ih

def NoPanicRes {ε α} : Res ε α → Prop
  | .panic _ => False
  | _ => True

theorem NoPanicRes.bind {ε α β} {x : Res ε α} {f : α → Res ε β} (hx : NoPanicRes x) (hf : ∀ a, NoPanicRes (f a)) :
    NoPanicRes (x.bind f) := by
  cases x with
  | ok a => exact hf a
  | err e => trivial
  | panic w => exact hx
  | unmodelled w => trivial

def NPM {α} (m : M α) : Prop := ∀ s, NoPanicProg (m s)

theorem npm_pure {α} (a : α) : NPM (pure a : M α) := fun _ => .ret _
theorem npm_bind {α β} {m : M α} {f : α → M β} (hm : NPM m) (hf : ∀ a, NPM (f a)) : NPM (m >>= f) :=
  fun s => NoPanicProg.bind (hm s) (fun ⟨a, s'⟩ => hf a s')
theorem npm_fail {α} (e : RawErr) : NPM (M.fail e : M α) := fun _ => .fail _
theorem npm_getEnv : NPM M.getEnv := fun _ => .ret _
theorem npm_setVar (x : Bytes) (v : GoVal) : NPM (M.setVar x v) := fun _ => .ret _
theorem npm_getVar (x : Bytes) : NPM (M.getVar x) := fun _ => .ret _

theorem npm_ofRes {α} (r : Res Cause α) (h : NoPanicRes r) : NPM (M.ofRes r) := by
  intro s
  cases r with
  | ok a => exact .ret _
  | err c => exact .fail _
  | panic w => exact absurd h (by simp [NoPanicRes])
  | unmodelled w => exact .unmodelled _

theorem npm_wrapFailAt {α} (path : Bytes) (loc : Loc) {m : M α} (hm : NPM m) : NPM (wrapFailAt path loc m) :=
  fun s => NoPanicProg.mapFail _ (hm s)

theorem npm_wrapAt (path : Bytes) (loc : Loc) {m : M Status} (hm : NPM m) : NPM (wrapAt path loc m) := by
  intro s
  unfold wrapAt
  exact NoPanicProg.bind (NoPanicProg.mapFail _ (hm s)) (fun _ => .ret _)

theorem npm_flush : NPM flushM := by
  intro s
  unfold flushM
  split
  · exact .ret _
  · exact .call _ _ (fun r => by cases r <;> first | exact .ret _ | exact .fail _)

theorem npm_write (b : Bytes) : NPM (writeM b) := by
  intro s
  unfold writeM
  split
  · exact .ret _
  · split
    · exact .ret _
    · exact .call _ _ (fun r => by cases r <;> first | exact .ret _ | exact .fail _)

theorem npm_trimLeft : NPM trimLeftM := by
  intro s
  exact .call _ _ (fun r => by cases r <;> first | exact .ret _ | exact .fail _)

theorem npm_trimRight : NPM trimRightM := fun _ => .ret _

theorem npm_writeAll : ∀ cs, NPM (writeAllM cs)
  | [] => npm_pure ()
  | c :: cs => by
    unfold writeAllM
    exact npm_bind (npm_write c) (fun _ => npm_writeAll cs)

theorem runPure_noPanic {α} {p : Prog α} (hp : NoPanicProg p) : ∀ w, p.runPure.2 ≠ .panic w := by
  induction hp with
  | ret a => intro w h; cases h
  | fail e => intro w h; cases h
  | unmodelled w' => intro w h; cases h
  | call b k _ ih =>
    intro w
    simp only [Prog.runPure]
    exact ih .ok w

theorem npm_capture {α} {m : M α} (hm : NPM m) : NPM (captureM m) := by
  intro s
  unfold captureM
  simp only
  have hp : NoPanicProg ((m { env := s.env, tw := {} }).bind fun x => (flushM x.2).bind fun y => Prog.ret (x.1, y.2)) :=
    NoPanicProg.bind (hm _) (fun ⟨a, s1⟩ => NoPanicProg.bind (npm_flush s1) (fun _ => .ret _))
  split
  · exact .ret _
  · exact .fail _
  · next w heq =>
    have := runPure_noPanic hp w
    rw [heq] at this
    exact absurd rfl this
  · exact .unmodelled _

/-- the value layer never panics -/
structure PrimsNoPanic (P : Prims) (O : OutPrims) : Prop where
  equal : ∀ a b, NoPanicRes (P.equal a b)
  less : ∀ a b, NoPanicRes (P.less a b)
  contains : ∀ a b, NoPanicRes (P.contains a b)
  equalFn : ∀ a b, NoPanicRes (P.equalFn a b)
  applyFilter : ∀ n r as, NoPanicRes (P.applyFilter n r as)
  chunks : ∀ v, NoPanicRes (O.chunks v)

