import Proofs.E2ERun
import Proofs.C07Lines
import Proofs.C06
/-!
# End-to-end helpers for C06: the block parser inside `compileSource` / `run`

* compile-phase errors never carry the messages of the block parser (`notInside`, `unterminated`);
* the block parser with an expression checker follows the parser that accepts every object until
  the first object the checker rejects;
* a parser error is located at a token of the scanned source whose line is the start line plus
  the newlines before it.
-/

/-! ## Compile-phase errors are not nesting errors -/

def NotNestMsg (e : SErr) : Prop := e.msg ≠ .notInside ∧ e.msg ≠ .unterminated

theorem cmsg_liftParse {α} (line : Nat) (keep : Bool) (r : Res ParseErr α) :
    CPost NotNestMsg (fun _ => True) (liftParse line keep r) := by
  cases r with
  | ok a => exact True.intro
  | err e => simp only [liftParse, CPost]; split <;> simp [NotNestMsg]
  | panic w => exact True.intro
  | unmodelled w => exact True.intro

theorem cmsg_ifClauseTests : ∀ cs, CPost NotNestMsg (fun _ => True) (compileIfClauseTests cs)
  | [] => True.intro
  | (t, body) :: cs => by
    unfold compileIfClauseTests
    refine CPost.bind (R := fun _ => True) ?_ (fun _ _ => CPost.bind (cmsg_ifClauseTests cs) (fun _ _ => True.intro))
    split
    · exact CPost.bind (cmsg_liftParse _ _ _) (fun _ _ => True.intro)
    · exact True.intro

theorem cmsg_caseClauses : ∀ cs, CPost NotNestMsg (fun _ => True) (compileCaseClauses cs)
  | [] => True.intro
  | (t, body) :: cs => by
    unfold compileCaseClauses
    refine CPost.bind (R := fun _ => True) ?_ (fun _ _ => CPost.bind (cmsg_caseClauses cs) (fun _ _ => True.intro))
    split
    · refine CPost.bind (cmsg_liftParse _ _ _) (fun st _ => ?_)
      split
      · exact True.intro
      · simp [CPost, NotNestMsg]
    · exact True.intro

mutual
theorem cmsg_compileNode : ∀ a : AST, CPost NotNestMsg (fun _ => True) (compileNode a)
  | .text t => by simp [compileNode, CPost]
  | .obj t => by
    unfold compileNode
    split
    · exact True.intro
    · simp [CPost, NotNestMsg]
    · exact True.intro
    · exact True.intro
  | .trim l => by simp [compileNode, CPost]
  | .raw sl => by simp [compileNode, CPost]
  | .tag t => by
    unfold compileNode
    split
    · refine CPost.bind (cmsg_liftParse _ _ _) (fun st _ => ?_)
      split
      · exact True.intro
      · simp [CPost, NotNestMsg]
    · split
      · exact True.intro
      · split
        · exact True.intro
        · split
          · exact True.intro
          · split
            · refine CPost.bind (cmsg_liftParse _ _ _) (fun st _ => ?_)
              split
              · exact True.intro
              · simp [CPost, NotNestMsg]
            · simp [CPost, NotNestMsg]
  | .block t body clauses => by
    unfold compileNode
    refine CPost.bind (cmsg_compileList body) (fun b _ => CPost.bind (cmsg_compileClauses clauses) (fun cs _ => ?_))
    split
    · exact CPost.bind (cmsg_liftParse _ _ _) (fun e _ => CPost.bind (cmsg_ifClauseTests cs) (fun _ _ => True.intro))
    · split
      · exact CPost.bind (cmsg_liftParse _ _ _) (fun e _ => CPost.bind (cmsg_caseClauses cs) (fun _ _ => True.intro))
      · split
        · refine CPost.bind (cmsg_liftParse _ _ _) (fun st _ => ?_)
          split
          · exact True.intro
          · simp [CPost, NotNestMsg]
        · split
          · exact True.intro
          · exact True.intro
theorem cmsg_compileList : ∀ as : List AST, CPost NotNestMsg (fun _ => True) (compileList as)
  | [] => by simp [compileList, CPost]
  | a :: as => by
    unfold compileList
    exact CPost.bind (cmsg_compileNode a) (fun _ _ => CPost.bind (cmsg_compileList as) (fun _ _ => True.intro))
theorem cmsg_compileClauses : ∀ cs : List (Token × List AST), CPost NotNestMsg (fun _ => True) (compileClauses cs)
  | [] => by simp [compileClauses, CPost]
  | (t, body) :: cs => by
    unfold compileClauses
    exact CPost.bind (cmsg_compileList body) (fun _ _ => CPost.bind (cmsg_compileClauses cs) (fun _ _ => True.intro))
end

theorem compileList_err_not_nest {ast : List AST} {e : SErr} (h : compileList ast = .err e) : NotNestMsg e := by
  have := cmsg_compileList ast
  rw [h] at this
  exact this

/-! ## The parser with a checker against the parser that accepts every object -/

section sim
variable {g : Grammar} {chk : Bytes → Option Cause}

def acceptAll : Bytes → Option Cause := fun _ => none

theorem parseStep_sim (s : PState) (t : Token) :
    parseStep g chk s t = parseStep g acceptAll s t ∨
      (t.ty = .obj ∧ ∃ c, chk t.args = some c ∧ parseStep g chk s t = .err ⟨.objSyntax c, t.line⟩) := by
  obtain ⟨cur, st, mode⟩ := s
  cases mode with
  | comment o => exact .inl rfl
  | raw o sl => exact .inl rfl
  | normal =>
    cases ht : t.ty with
    | obj =>
      cases hc : chk t.args with
      | none => left; rw [step_obj ht hc, step_obj ht (by rfl)]
      | some c => right; exact ⟨rfl, c, rfl, step_obj_err ht hc⟩
    | text => left; rw [step_text ht, step_text ht]
    | trimL => left; rw [step_trimL ht, step_trimL ht]
    | trimR => left; rw [step_trimR ht, step_trimR ht]
    | tag => left; simp only [parseStep, ht]

theorem parseStep_all_ok (s : PState) (t : Token) (h : t.ty = .obj → chk t.args = none) :
    parseStep g chk s t = parseStep g acceptAll s t := by
  rcases parseStep_sim (g := g) (chk := chk) s t with h1 | ⟨ht, c, hc, _⟩
  · exact h1
  · rw [h ht] at hc; cases hc

theorem parseLoop_sim : ∀ (ts : List Token) (s : PState),
    parseLoop g chk s ts = parseLoop g acceptAll s ts ∨ ∃ c l, parseLoop g chk s ts = .err ⟨.objSyntax c, l⟩
  | [], _ => .inl rfl
  | t :: ts, s => by
    simp only [parseLoop]
    rcases parseStep_sim (g := g) (chk := chk) s t with h | ⟨_, c, _, h⟩
    · rw [h]
      cases parseStep g acceptAll s t with
      | ok s1 => exact parseLoop_sim ts s1
      | err e => exact .inl rfl
      | panic w => exact .inl rfl
      | unmodelled w => exact .inl rfl
    · rw [h]; exact .inr ⟨c, _, rfl⟩

theorem parseLoop_all_ok : ∀ (ts : List Token) (s : PState), (∀ t ∈ ts, t.ty = .obj → chk t.args = none) →
    parseLoop g chk s ts = parseLoop g acceptAll s ts
  | [], _, _ => rfl
  | t :: ts, s, h => by
    simp only [parseLoop]
    rw [parseStep_all_ok s t (h t (List.mem_cons_self ..))]
    cases parseStep g acceptAll s t with
    | ok s1 => exact parseLoop_all_ok ts s1 (fun x hx => h x (List.mem_cons_of_mem _ hx))
    | err e => rfl
    | panic w => rfl
    | unmodelled w => rfl

/-- the result with a checker is the result of the parser that accepts every object, or the
    `objSyntax` error of the first rejected object -/
theorem parseTokens_sim (toks : List Token) :
    parseTokens g chk toks = parseTokens g acceptAll toks ∨ ∃ c l, parseTokens g chk toks = .err ⟨.objSyntax c, l⟩ := by
  unfold parseTokens
  rcases parseLoop_sim (g := g) (chk := chk) toks {} with h | ⟨c, l, h⟩
  · rw [h]; exact .inl rfl
  · rw [h]; exact .inr ⟨c, l, rfl⟩

theorem parseTokens_all_ok (toks : List Token) (h : ∀ t ∈ toks, t.ty = .obj → chk t.args = none) :
    parseTokens g chk toks = parseTokens g acceptAll toks := by
  unfold parseTokens
  rw [parseLoop_all_ok toks {} h]

/-- nesting alone: the parser that accepts every object succeeds exactly on well-nested lists -/
theorem wellNested_iff_acceptAll (ok : g.OK = true) (toks : List Token) :
    WellNested g toks ↔ (parseTokens g acceptAll toks).isOk = true := by
  rw [parse_ok_iff g ok acceptAll toks]
  exact ⟨fun h => ⟨h, fun _ _ _ => rfl⟩, fun h => h.1⟩
end sim

/-! ## Objects that parse are inside the lexer model -/

theorem firstUnmodelledObj_none_of_objChk : ∀ (toks : List Token), (∀ t ∈ toks, t.ty = .obj → objChk t.args = none) →
    firstUnmodelledObj toks = none
  | [], _ => rfl
  | t :: ts, h => by
    have ih := firstUnmodelledObj_none_of_objChk ts (fun x hx => h x (List.mem_cons_of_mem _ hx))
    simp only [firstUnmodelledObj]
    split
    · next ht =>
      have := h t (List.mem_cons_self ..) (by simpa using ht)
      unfold objChk at this
      split
      · next w hw => rw [hw] at this; cases this
      · exact ih
    · exact ih

/-! ## Where a parser error is located in the source -/

/-- position `pre.length` of the token list of `src`: the token's line is the start line plus the
    newlines of the source text before it, and the sources around it make up `src` -/
theorem scan_split_located (delims : List Bytes) (src : Bytes) (line : Nat) (pre rest : List Token) (t : Token)
    (h : scan delims src line = pre ++ t :: rest) (ht : t.isTrim = false) :
    t.line = line + countNL (srcs pre) ∧ src = srcs pre ++ (t.source ++ srcs rest) := by
  constructor
  · have := scan_line_at delims src line pre.length t (by rw [h]; simp) ht
    rw [this, h]; simp
  · have := scan_partition delims src line
    rw [h] at this
    rw [← this]; simp [srcs]

/-- every parser error is located at a tag or object token -/
theorem parse_error_token (g : Grammar) (chk : Bytes → Option Cause) (toks : List Token) (e : PErr)
    (h : parseTokens g chk toks = .err e) :
    ∃ pre t rest, toks = pre ++ t :: rest ∧ e.line = t.line ∧ (t.ty = .tag ∨ t.ty = .obj) := by
  rcases error_at_first_bad_token g chk toks e h with hk | ⟨pre, t, rest, h1, _, h2, h3⟩
  · obtain ⟨k, l⟩ := e
    simp only at hk; subst hk
    obtain ⟨pre, o, rest, h1, h2, _, h3⟩ := unterminated_decompose g chk toks l h
    refine ⟨pre, o, rest, h1, h2, .inl ?_⟩
    rcases h3 with ⟨h3, _⟩ | ⟨h3, _⟩ | ⟨h3, _⟩
    · simp only [Grammar.isCommentOpen, Bool.and_eq_true, beq_iff_eq] at h3; exact h3.1.1
    · simp only [Grammar.isRawOpen, Bool.and_eq_true, beq_iff_eq] at h3; exact h3.1.1
    · simp only [Grammar.isOpen, Bool.and_eq_true, beq_iff_eq] at h3; exact h3.1.1.1
  · refine ⟨pre, t, rest, h1, h2, ?_⟩
    rcases h3 with ⟨h3, _⟩ | ⟨h3, _⟩
    · exact .inr h3
    · exact .inl h3

/-! ## Example sources for `Proofs/C06E2E.lean`: `a\n{% if x %}\n{% endfor %}` and `{% if x %}\nb` -/
def exSrcBad : Bytes := [97, 10, 123, 37, 32, 105, 102, 32, 120, 32, 37, 125, 10, 123, 37, 32, 101, 110, 100, 102, 111, 114, 32, 37, 125]
def exSrcOpen : Bytes := [123, 37, 32, 105, 102, 32, 120, 32, 37, 125, 10, 98]

theorem exSrcBad_parse : parseTokens stdGrammar objChk (scan ({} : Cfg).delims exSrcBad 1) = .err ⟨.notInside, 3⟩ := by rfl
theorem exSrcOpen_parse : parseTokens stdGrammar objChk (scan ({} : Cfg).delims exSrcOpen 1) = .err ⟨.unterminated, 1⟩ := by rfl

