import Liquid.Std
/-!
# C03 — rendering never modifies bindings or the template; renders are independent

The model of a render (`run`) is a function of the engine configuration, the template source,
the binding environment and the file system; the only engine state that survives a call is the
template cache written by `ParseTemplateAndCache`. The history machine below makes "other renders
happened in between" explicit and shows they cannot matter.

What this (value) model cannot express is *aliasing* of Go reference values (a filter sorting the
caller's slice in place). For slices that part of the property is proved on the slice-memory model of
`Liquid/Heap.lean` in `Proofs/C15Heap.lean` (`array_filters_do_not_write_inputs`, `pipeline_no_write`), tied by
the `alias` stream; for maps, structs and pointers it is carried by the `immut` stream, which deep-snapshots
every binding environment around every render on the real code.
-/

/-- operations on one shared engine -/
inductive EOp where
  | render (src : Bytes) (line : Nat) (env : Env)
  | parseAndCache (src : Bytes) (path : Bytes) (line : Nat)

/-- the engine state that outlives a call: the cache of `ParseTemplateAndCache` (latest first) -/
abbrev ECache := List (Bytes × Bytes)

def cacheFS (read : Bytes → FileRes) (cache : ECache) : FS :=
  { read := read, cache := fun p => (cache.find? (fun e => e.1 == p)).map (·.2) }

inductive EResult where
  | rendered (r : RunResult)
  | parsed (ok : Bool)

/-- one operation: its result and the engine state after it -/
def estep (P : Prims) (O : OutPrims) (cfg : Cfg) (read : Bytes → FileRes) (fuel : Nat) (cache : ECache) :
    EOp → EResult × ECache
  | .render src line env => (.rendered (run P O cfg (cacheFS read cache) fuel src line env), cache)
  | .parseAndCache src path line =>
    match compileSource cfg.delims src line with
    | .ok _ => (.parsed true, (path, src) :: cache)
    | _ => (.parsed false, cache)

/-- run a history; results in order -/
def erun (P : Prims) (O : OutPrims) (cfg : Cfg) (read : Bytes → FileRes) (fuel : Nat) : ECache → List EOp → List EResult
  | _, [] => []
  | cache, op :: ops =>
    let (r, cache') := estep P O cfg read fuel cache op
    r :: erun P O cfg read fuel cache' ops

def EOp.isRender : EOp → Bool
  | .render .. => true
  | _ => false

/-- a render — succeeding or failing — leaves the engine exactly as it was -/
theorem render_preserves_engine (P : Prims) (O : OutPrims) (cfg : Cfg) (read : Bytes → FileRes) (fuel : Nat) (cache : ECache)
    (src : Bytes) (line : Nat) (env : Env) :
    (estep P O cfg read fuel cache (.render src line env)).2 = cache := rfl

/-- **C03 (history independence).** In any history of renders on one engine — other templates, other
    bindings, succeeding or failing, in any number — every render returns exactly what it returns
    when it is the only operation ever performed. -/
theorem history_independent (P : Prims) (O : OutPrims) (cfg : Cfg) (read : Bytes → FileRes) (fuel : Nat) (cache : ECache) :
    ∀ (ops : List EOp), (∀ op ∈ ops, op.isRender = true) →
      erun P O cfg read fuel cache ops = ops.map (fun op => (estep P O cfg read fuel cache op).1) := by
  intro ops
  induction ops with
  | nil => intro _; rfl
  | cons op ops ih =>
    intro h
    have hop := h op (by simp)
    cases op with
    | render src line env =>
      simp only [erun, estep, List.map_cons]
      rw [ih (fun o ho => h o (by simp [ho]))]
      rfl
    | parseAndCache src path line => simp [EOp.isRender] at hop

/-- the same render repeated gives the same result each time (same bytes or same error), whatever
    renders happened in between -/
theorem rerender_same (P : Prims) (O : OutPrims) (cfg : Cfg) (read : Bytes → FileRes) (fuel : Nat) (cache : ECache)
    (src : Bytes) (line : Nat) (env : Env) (between : List EOp) (h : ∀ op ∈ between, op.isRender = true) :
    erun P O cfg read fuel cache (.render src line env :: between ++ [.render src line env]) =
      .rendered (run P O cfg (cacheFS read cache) fuel src line env) ::
        (between.map (fun op => (estep P O cfg read fuel cache op).1) ++
          [.rendered (run P O cfg (cacheFS read cache) fuel src line env)]) := by
  have hall : ∀ op ∈ (EOp.render src line env :: between ++ [EOp.render src line env]), op.isRender = true := by
    intro op hop
    simp only [List.cons_append, List.mem_cons, List.mem_append, List.mem_singleton] at hop
    rcases hop with h1 | h1 | h1 | h1
    · subst h1; rfl
    · exact h op h1
    · subst h1; rfl
    · cases h1
  rw [history_independent P O cfg read fuel cache _ hall]
  simp [estep]

/-- **C03 (variables do not survive).** Every render starts from exactly the caller's bindings:
    what `assign`, `capture`, loops, `forloop` and `cycle` did to the variable map in an earlier
    render is not an input of a later one (`run` takes the environment as its argument and returns
    only output or an error). -/
theorem vars_reset (P : Prims) (O : OutPrims) (cfg : Cfg) (fs : FS) (fuel : Nat) (root : List Node) (env : Env) :
    frender P O cfg fs fuel root env =
      ((renderList (mkCtx P O cfg fs fuel) root { env := env, tw := {} }).bind fun (st, s) =>
        match st with
        | .done => ((wrapFailAt cfg.path invalidLoc flushM) s).bind fun _ => .ret Status.done
        | st => .ret st).bind statusToProg := rfl

/-! Non-vacuity: a two-render history -/
example (P : Prims) (O : OutPrims) (cfg : Cfg) (read : Bytes → FileRes) :
    (erun P O cfg read 1 [] [.render [97] 0 [], .render [98] 0 []]).length = 2 := rfl
