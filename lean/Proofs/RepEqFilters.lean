import Proofs.RepEqCmp
/-!
# The standard filters and representation equivalence (helper lemmas for C18, `d = false`)

`values.Call` converts the receiver and the arguments to the parameter types of the filter.
For the scalar parameter types (`bool`, `int`, `float64`, `string`, `time.Time`) the converted
value of two representation-equivalent inputs is *the same*, so every filter whose parameters are
all scalar respects the equivalence whatever its body does (`filterRespects_of_scalar`). A `[]any`
parameter receives the elements through `ToLiquid` (related element by element), an `any`
parameter the value itself.
-/

open GoVal

/-- with `d = false` only slices, arrays and maps change under `norm` -/
def rigidF : GoVal → Bool
  | .slice _ _ | .array _ _ | .map _ _ _ => false
  | _ => true

theorem norm_false_of_rigidF {u : GoVal} (h : rigidF u = true) : u.norm false = u := by
  cases u <;> simp_all [rigidF, norm]

theorem repEq_false_rigid {u u' : GoVal} (hu : rigidF u = true) (h : RepEq false u u') : u' = u := by
  unfold RepEq at h
  rw [norm_false_of_rigidF hu] at h
  cases u' with
  | slice t xs => subst h; simp [norm, rigidF] at hu
  | array t xs => subst h; simp [norm, rigidF] at hu
  | map kt vt kvs =>
    subst h
    cases hr : isRec (.map kt vt kvs) with
    | true => rw [norm_of_isRec hr] at hu; simp [rigidF] at hu
    | false => rw [norm_map_nonrec hr] at hu; simp [rigidF] at hu
  | drop w => rw [norm_drop_false] at h; exact h.symm
  | _ => simpa [norm] using h.symm

theorem repEq_false_cases {u u' : GoVal} (h : RepEq false u u') : u' = u ∨ (rigidF u = false ∧ rigidF u' = false) := by
  cases hr : rigidF u with
  | true => exact .inl (repEq_false_rigid hr h)
  | false =>
    cases hr' : rigidF u' with
    | false => exact .inr ⟨rfl, rfl⟩
    | true => exact .inl (repEq_false_rigid hr' h.symm).symm

theorem unwrap_ne_ptr_drop (v w : GoVal) : v.unwrap ≠ .ptr (.drop w) := by
  induction v using GoVal.unwrap.induct <;> simp_all [unwrap]

theorem unw_toLiquid {v : GoVal} (h : Unw v) : v.toLiquid = v := by
  have h1 := h.noDrop
  cases v with
  | drop w => simp [noDrop] at h1
  | ptr w =>
    cases w with
    | drop x => exact absurd h (by unfold Unw; exact fun e => unwrap_ne_ptr_drop _ x e)
    | _ => rfl
  | _ => rfl

theorem toLiquid_repEq_false {x x' : GoVal} (h : RepEq false x x') : RepEq false x.toLiquid x'.toLiquid := by
  rcases repEq_false_cases h with rfl | ⟨h1, h2⟩
  · rfl
  · have e1 : x.toLiquid = x := by cases x <;> simp_all [rigidF, toLiquid]
    have e2 : x'.toLiquid = x' := by cases x' <;> simp_all [rigidF, toLiquid]
    rw [e1, e2]; exact h

theorem convElems_rel {xs xs' : List GoVal} (h : normList false xs = normList false xs') :
    normList false (convElems xs) = normList false (convElems xs') := by
  induction xs generalizing xs' with
  | nil => cases xs' <;> simp_all [normList, convElems]
  | cons x xs ih =>
    cases xs' with
    | nil => simp [normList] at h
    | cons x' xs' =>
      simp only [normList, List.cons.injEq] at h
      simp only [convElems, List.map_cons, normList, List.cons.injEq]
      exact ⟨toLiquid_repEq_false h.1, ih h.2⟩

theorem normKVs_vals {kvs kvs' : List (GoVal × GoVal)} (h : normKVs false kvs = normKVs false kvs') :
    normList false (kvs.map (·.2)) = normList false (kvs'.map (·.2)) := by
  induction kvs generalizing kvs' with
  | nil => cases kvs' with
    | nil => rfl
    | cons kv r => obtain ⟨k, v⟩ := kv; simp [normKVs] at h
  | cons kv kvs ih =>
    obtain ⟨k, v⟩ := kv
    cases kvs' with
    | nil => simp [normKVs] at h
    | cons kv' kvs' =>
      obtain ⟨k', v'⟩ := kv'
      simp only [normKVs, List.cons.injEq, Prod.mk.injEq] at h
      simp only [List.map_cons, normList, List.cons.injEq]
      exact ⟨h.1.2, ih h.2⟩

/-! ## `values.Convert` -/

def ParamTy.isScalar : ParamTy → Bool
  | .any | .anys => false
  | _ => true

/-- converted arguments of two related inputs, by parameter type -/
def ArgValRel : ParamTy → GoVal → GoVal → Prop
  | .anys, c, c' => ∃ ys ys', c = .slice .any ys ∧ c' = .slice .any ys' ∧ normList false ys = normList false ys'
  | .any, c, c' => URel false c c'
  | _, c, c' => c = c'

theorem ArgValRel.scalar {t : ParamTy} (ht : t.isScalar = true) {c c' : GoVal} (h : ArgValRel t c c') : c = c' := by
  cases t <;> simp_all [ParamTy.isScalar, ArgValRel]

theorem ArgValRel.of_eq_scalar {t : ParamTy} (ht : t.isScalar = true) (c : GoVal) : ArgValRel t c c := by
  cases t <;> simp_all [ParamTy.isScalar, ArgValRel]

theorem sprint_repEq_false {a a' : GoVal} (h : RepEq false a a') : sprint a = sprint a' := by
  rw [← sprint_norm a, ← sprint_norm a', h]

/-- a scalar parameter receives the same value from related inputs -/
theorem convert_scalar_rel {t : ParamTy} (ht : t.isScalar = true) {a a' : GoVal} (h : URel false a a') :
    convert a t = convert a' t := by
  rcases repEq_false_cases h.2.2 with rfl | ⟨h1, h2⟩
  · rfl
  · have hs := sprint_repEq_false h.2.2
    unfold convert
    rw [unw_toLiquid h.1, unw_toLiquid h.2.1]
    cases a <;> simp [rigidF] at h1 <;> cases a' <;> simp [rigidF] at h2 <;> cases t <;>
      simp [ParamTy.isScalar] at ht <;> simp [hs]

theorem convert_anys_shape {a c : GoVal} (h : convert a .anys = .ok c) : ∃ ys, c = .slice .any ys := by
  unfold convert at h
  simp only at h
  split at h <;> first
    | (injection h with h; exact ⟨_, h.symm⟩)
    | (split at h <;> first | (injection h with h; exact ⟨_, h.symm⟩) | (split at h <;> first | (injection h with h; exact ⟨_, h.symm⟩) | cases h) | cases h)
    | cases h

theorem rrel_refl_of {α} {R : α → α → Prop} {t : Bool} (r : Res Cause α) (h : ∀ a, r = .ok a → R a a) : RRel t R r r := by
  cases r <;> simp [RRel]
  exact h _ rfl

theorem convert_anys_rel {a a' : GoVal} (h : URel false a a') :
    RRel false (ArgValRel .anys) (convert a .anys) (convert a' .anys) := by
  rcases repEq_false_cases h.2.2 with rfl | ⟨h1, h2⟩
  · refine rrel_refl_of _ (fun c hc => ?_)
    obtain ⟨ys, rfl⟩ := convert_anys_shape hc
    exact ⟨ys, ys, rfl, rfl, rfl⟩
  · unfold convert
    rw [unw_toLiquid h.1, unw_toLiquid h.2.1]
    have hnd := h.2.1.noDrop
    cases a with
    | slice t xs =>
      obtain ⟨xs', hs, hn⟩ := norm_inv_seq (u := .slice t xs) rfl hnd h.2.2
      cases a' <;> simp [seqElems?] at hs <;> subst hs <;> exact ⟨_, _, rfl, rfl, convElems_rel hn⟩
    | array t xs =>
      obtain ⟨xs', hs, hn⟩ := norm_inv_seq (u := .array t xs) rfl hnd h.2.2
      cases a' <;> simp [seqElems?] at hs <;> subst hs <;> exact ⟨_, _, rfl, rfl, convElems_rel hn⟩
    | map kt vt kvs =>
      rcases norm_inv_map hnd h.2.2 with rfl | ⟨_, vt', kvs', rfl, _, hn⟩
      · exact ⟨_, _, rfl, rfl, rfl⟩
      · exact ⟨_, _, rfl, rfl, convElems_rel (normKVs_vals hn)⟩
    | _ => simp [rigidF] at h1

theorem convert_any_rel {a a' : GoVal} (h : URel false a a') :
    RRel false (ArgValRel .any) (convert a .any) (convert a' .any) := by
  unfold convert convAny
  rw [unw_toLiquid h.1, unw_toLiquid h.2.1]
  have hn := isNil_rel h.1 h.2.1 h.2.2
  cases a <;> cases a' <;> simp [GoVal.isNil] at hn <;> simp [RRel, ArgValRel] <;> exact h

theorem convert_rel (t : ParamTy) {a a' : GoVal} (h : URel false a a') :
    RRel false (ArgValRel t) (convert a t) (convert a' t) := by
  cases ht : t.isScalar with
  | true =>
    rw [convert_scalar_rel ht h]
    exact rrel_refl_of _ (fun c _ => ArgValRel.of_eq_scalar ht c)
  | false =>
    cases t <;> simp [ParamTy.isScalar] at ht
    · exact convert_any_rel h
    · exact convert_anys_rel h

/-! ## `values.Call`: the converted argument lists -/

def ArgRel : Param → Arg → Arg → Prop
  | .val t, .val c, .val c' => ArgValRel t c c'
  | .fn _, .fn none, .fn none => True
  | .fn t, .fn (some r), .fn (some r') => RRel false (ArgValRel t) r r'
  | _, _, _ => False

def ArgsRel : List Param → List Arg → List Arg → Prop
  | [], [], [] => True
  | p :: ps, a :: as, a' :: as' => ArgRel p a a' ∧ ArgsRel ps as as'
  | _, _, _ => False

theorem zero_argValRel (t : ParamTy) : ArgValRel t t.zero t.zero := by
  cases t <;> simp [ArgValRel, ParamTy.zero]
  · exact URel.refl_unw rfl

theorem convertArgs_nil_rel : ∀ ps : List Param, RRel false (ArgsRel ps) (convertArgs ps []) (convertArgs ps [])
  | [] => by simp [convertArgs, RRel, ArgsRel]
  | .fn t :: ps => by
    simp only [convertArgs]
    exact RRel.bind (convertArgs_nil_rel ps) (fun r r' h => ⟨trivial, h⟩)
  | .val t :: ps => by
    simp only [convertArgs]
    exact RRel.bind (convertArgs_nil_rel ps) (fun r r' h => ⟨zero_argValRel t, h⟩)

theorem urel_nil_iff {a a' : GoVal} (h : URel false a a') : a = .nil ↔ a' = .nil := by
  constructor
  · rintro rfl; exact repEq_false_rigid rfl h.2.2
  · rintro rfl; exact repEq_false_rigid rfl h.2.2.symm

theorem convertArgs_rel : ∀ (ps : List Param) {as as' : List GoVal}, All2 (URel false) as as' →
    RRel false (ArgsRel ps) (convertArgs ps as) (convertArgs ps as')
  | ps, [], [], .nil => convertArgs_nil_rel ps
  | [], _ :: _, _ :: _, .cons _ _ => by simp [convertArgs, RRel, ArgsRel]
  | .fn t :: ps, a :: as, a' :: as', .cons ha has => by
    simp only [convertArgs]
    exact RRel.bind (convertArgs_rel ps has) (fun r r' h => ⟨convert_rel t ha, h⟩)
  | .val t :: ps, a :: as, a' :: as', .cons ha has => by
    by_cases hn : a = .nil
    · have hn' := (urel_nil_iff ha).mp hn
      subst hn hn'
      simp only [convertArgs]
      exact RRel.bind (convertArgs_rel ps has) (fun r r' h => ⟨zero_argValRel t, h⟩)
    · have hn' : a' ≠ .nil := fun e => hn ((urel_nil_iff ha).mpr e)
      have e1 : convertArgs (.val t :: ps) (a :: as) =
          (convert a t).bind fun c => (convertArgs ps as).bind fun r => .ok (.val c :: r) := by
        cases a <;> first | exact absurd rfl hn | rfl
      have e2 : convertArgs (.val t :: ps) (a' :: as') =
          (convert a' t).bind fun c => (convertArgs ps as').bind fun r => .ok (.val c :: r) := by
        cases a' <;> first | exact absurd rfl hn' | rfl
      rw [e1, e2]
      exact RRel.bind (convert_rel t ha) (fun c c' hc =>
        RRel.bind (convertArgs_rel ps has) (fun r r' h => ⟨hc, h⟩))

/-! ## `ApplyFilter` -/

/-- results of a filter body -/
def ExRel : Except Cause GoVal → Except Cause GoVal → Prop
  | .ok v, .ok v' => RepEq false v v'
  | .error c, .error c' => c = c'
  | _, _ => False

theorem bytesToString_rel {v v' : GoVal} (h : RepEq false v v') : VRel false (bytesToString v) (bytesToString v') := by
  rcases repEq_false_cases h with rfl | ⟨h1, h2⟩
  · exact VRel.refl _
  · have e1 : bytesToString v = v := by cases v <;> simp_all [rigidF, bytesToString]
    have e2 : bytesToString v' = v' := by cases v' <;> simp_all [rigidF, bytesToString]
    rw [e1, e2]; exact h.vrel

/-- the body of a filter respects the equivalence on converted argument lists -/
def ImplRespects (t : Bool) (ps : List Param) (f : FilterImpl) : Prop :=
  ∀ cs cs', ArgsRel ps cs cs' → RRel t ExRel (f cs) (f cs')

/-- a standard filter respects the equivalence (receiver and arguments unwrapped, as they reach it) -/
def FilterRespects (t : Bool) (name : Bytes) : Prop :=
  ∀ r r' as as', URel false r r' → All2 (URel false) as as' →
    RRel t (VRel false) (stdPrims.applyFilter name r as) (stdPrims.applyFilter name r' as')

theorem filterRespects_of_impl {t : Bool} (name : Bytes)
    (h : ∀ sg f, lookupSig name = some sg → lookupImpl stdFilterImpls name = some f → ImplRespects t sg.params f) :
    FilterRespects t name := by
  intro r r' as as' hr has
  show RRel t (VRel false) (applyFilter (lookupImpl stdFilterImpls) name r as) (applyFilter (lookupImpl stdFilterImpls) name r' as')
  unfold applyFilter
  cases hs : lookupSig name with
  | none => simp [RRel]
  | some sg =>
    simp only
    have hl : (r :: as).length = (r' :: as').length := (All2.cons hr has).length_eq
    rw [hl]
    split
    · simp [RRel]
    · refine RRel.bind (RRel.weaken (convertArgs_rel sg.params (.cons hr has))) (fun cs cs' hcs => ?_)
      cases hf : lookupImpl stdFilterImpls name with
      | none => simp [RRel]
      | some f =>
        simp only
        refine RRel.bind (h sg f hs hf cs cs' hcs) (fun e e' he => ?_)
        cases e <;> cases e' <;> simp only [ExRel] at he
        · subst he; simp [RRel]
        · exact bytesToString_rel he

/-- all parameters of the signature are scalar -/
def scalarParams : List Param → Bool
  | [] => true
  | .val t :: ps => t.isScalar && scalarParams ps
  | .fn t :: ps => t.isScalar && scalarParams ps

theorem argsRel_scalar_eq : ∀ {ps : List Param} {cs cs' : List Arg}, scalarParams ps = true → ArgsRel ps cs cs' → cs = cs'
  | [], [], [], _, _ => rfl
  | [], [], _ :: _, _, h => by simp [ArgsRel] at h
  | [], _ :: _, _, _, h => by simp [ArgsRel] at h
  | _ :: _, [], _, _, h => by simp [ArgsRel] at h
  | _ :: _, _ :: _, [], _, h => by simp [ArgsRel] at h
  | .val t :: ps, c :: cs, c' :: cs', hp, h => by
    simp only [scalarParams, Bool.and_eq_true] at hp
    obtain ⟨h1, h2⟩ := h
    have := argsRel_scalar_eq hp.2 h2
    subst this
    cases c <;> cases c' <;> simp only [ArgRel] at h1
    rw [ArgValRel.scalar hp.1 h1]
  | .fn t :: ps, c :: cs, c' :: cs', hp, h => by
    simp only [scalarParams, Bool.and_eq_true] at hp
    obtain ⟨h1, h2⟩ := h
    have := argsRel_scalar_eq hp.2 h2
    subst this
    cases c with
    | val v => cases c' <;> simp only [ArgRel] at h1
    | fn o =>
      cases c' with
      | val v => cases o <;> simp only [ArgRel] at h1
      | fn o' =>
        cases o with
        | none => cases o' <;> simp only [ArgRel] at h1; rfl
        | some r =>
          cases o' with
          | none => simp only [ArgRel] at h1
          | some r' =>
            simp only [ArgRel] at h1
            have : RRel false Eq r r' := by
              cases r <;> cases r' <;> simp only [RRel] at h1 ⊢ <;> first | exact ArgValRel.scalar hp.1 h1 | exact h1
            rw [RRel.eq this]

/-- every filter whose parameters are all of scalar type respects the equivalence, whatever its body -/
theorem filterRespects_of_scalar (t : Bool) (name : Bytes)
    (h : ∀ sg, lookupSig name = some sg → scalarParams sg.params = true) : FilterRespects t name :=
  filterRespects_of_impl name (fun sg f hs _ cs cs' hcs => by
    rw [argsRel_scalar_eq (h sg hs) hcs]
    exact RRel.of_eq (fun e => by cases e <;> simp [ExRel, RepEq.refl]) rfl)

/-- a filter without a modelled body is `unmodelled` on both sides -/
theorem filterRespects_of_noImpl (t : Bool) (name : Bytes) (h : lookupImpl stdFilterImpls name = none) :
    FilterRespects t name :=
  filterRespects_of_impl name (fun sg f _ hf => by rw [h] at hf; cases hf)
