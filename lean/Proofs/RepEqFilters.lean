import Proofs.RepEqCmp
/-!
# The standard filters and representation equivalence (helper lemmas for C18; `d`: with drops nested in containers)

`values.Call` converts the receiver and the arguments to the parameter types of the filter.
For the scalar parameter types (`bool`, `int`, `float64`, `string`, `time.Time`) the converted
value of two representation-equivalent inputs is *the same*, so every filter whose parameters are
all scalar respects the equivalence whatever its body does (`filterRespects_of_scalar`). A `[]any`
parameter receives the elements through `ToLiquid` (related element by element), an `any`
parameter the value itself.
-/

open GoVal

/-- with `d = false` only slices, arrays and maps change under `norm` -/
def rigidF : GoVal → Bool
  | .slice _ _ | .array _ _ | .map _ _ _ => false
  | _ => true

theorem norm_false_of_rigidF {u : GoVal} (h : rigidF u = true) : u.norm false = u := by
  cases u <;> simp_all [rigidF, norm]

theorem repEq_false_rigid {u u' : GoVal} (hu : rigidF u = true) (h : RepEq false u u') : u' = u := by
  unfold RepEq at h
  rw [norm_false_of_rigidF hu] at h
  cases u' with
  | slice t xs => subst h; simp [norm, rigidF] at hu
  | array t xs => subst h; simp [norm, rigidF] at hu
  | map kt vt kvs =>
    subst h
    cases hr : isRec (.map kt vt kvs) with
    | true => rw [norm_of_isRec hr] at hu; simp [rigidF] at hu
    | false => rw [norm_map_nonrec hr] at hu; simp [rigidF] at hu
  | drop w => rw [norm_drop_false] at h; exact h.symm
  | _ => simpa [norm] using h.symm

theorem repEq_false_cases {u u' : GoVal} (h : RepEq false u u') : u' = u ∨ (rigidF u = false ∧ rigidF u' = false) := by
  cases hr : rigidF u with
  | true => exact .inl (repEq_false_rigid hr h)
  | false =>
    cases hr' : rigidF u' with
    | false => exact .inr ⟨rfl, rfl⟩
    | true => exact .inl (repEq_false_rigid hr' h.symm).symm

/-- for every `d`: two related values that are no drops are the same value, or both are containers -/
theorem repEq_noDrop_cases {d : Bool} {u u' : GoVal} (hu : noDrop u = true) (hu' : noDrop u' = true) (h : RepEq d u u') :
    u' = u ∨ (rigidF u = false ∧ rigidF u' = false) := by
  cases hr : rigidHead u with
  | true => exact .inl (norm_inv_rigid hr hu' h)
  | false =>
    cases hr' : rigidHead u' with
    | true => exact .inl (norm_inv_rigid hr' hu h.symm).symm
    | false =>
      refine .inr ⟨?_, ?_⟩
      · cases u <;> simp_all [rigidHead, noDrop, rigidF]
      · cases u' <;> simp_all [rigidHead, noDrop, rigidF]

theorem URel.cases {d : Bool} {u u' : GoVal} (h : URel d u u') : u' = u ∨ (rigidF u = false ∧ rigidF u' = false) :=
  repEq_noDrop_cases h.1.noDrop h.2.1.noDrop h.2.2

/-- the elements of a converted `[]any` argument went through `ToLiquid`: none is a drop -/
def NoDrops (ys : List GoVal) : Prop := ∀ y ∈ ys, noDrop y = true

theorem NoDrops.nil : NoDrops [] := fun _ h => by cases h
theorem NoDrops.head {y : GoVal} {ys : List GoVal} (h : NoDrops (y :: ys)) : noDrop y = true := h y (List.mem_cons_self ..)
theorem NoDrops.tail {y : GoVal} {ys : List GoVal} (h : NoDrops (y :: ys)) : NoDrops ys := fun z hz => h z (List.mem_cons_of_mem _ hz)

theorem toLiquid_noDrop (v : GoVal) : noDrop v.toLiquid = true := by
  have := toLiquid_not_dropLike v
  cases h : v.toLiquid <;> simp_all [isDropLike, noDrop]

theorem convElems_noDrops (xs : List GoVal) : NoDrops (convElems xs) := by
  intro y hy
  simp only [convElems, List.mem_map] at hy
  obtain ⟨x, _, rfl⟩ := hy
  exact toLiquid_noDrop x

/-- `ToLiquid` commutes with the normal form, up to the normal form -/
theorem norm_toLiquid (d : Bool) : ∀ x : GoVal, x.toLiquid.norm d = (x.norm d).toLiquid.norm d
  | .drop v => by
    rw [toLiquid_drop, norm]
    split
    · rw [toLiquid_drop]
    · exact norm_toLiquid d v
  | .ptr w => by simp [norm]
  | .slice t xs => by
    have e : ((GoVal.slice t xs).norm d).toLiquid = (GoVal.slice t xs).norm d := by simp [norm, toLiquid]
    rw [e, norm_idem]; simp [toLiquid]
  | .array t xs => by
    have e : ((GoVal.array t xs).norm d).toLiquid = (GoVal.array t xs).norm d := by simp [norm, toLiquid]
    rw [e, norm_idem]; simp [toLiquid]
  | .map kt vt kvs => by
    cases hr : isRec (.map kt vt kvs) with
    | true => rw [norm_of_isRec hr]
    | false =>
      have e : ((GoVal.map kt vt kvs).norm d).toLiquid = (GoVal.map kt vt kvs).norm d := by
        rw [norm_map_nonrec hr]; simp [toLiquid]
      rw [e, norm_idem]; simp [toLiquid]
  | .nil | .bool _ | .int _ _ | .flt _ _ | .str _ | .bytes _
  | .mapSlice _ | .keyedMap _ | .range _ _ | .nilPtr
  | .struct _ | .time _ => by simp [norm]

theorem toLiquid_repEq {d : Bool} {x x' : GoVal} (h : RepEq d x x') : RepEq d x.toLiquid x'.toLiquid := by
  unfold RepEq at *
  rw [norm_toLiquid d x, norm_toLiquid d x', h]

theorem unwrap_ne_ptr_drop (v w : GoVal) : v.unwrap ≠ .ptr (.drop w) := by
  induction v using GoVal.unwrap.induct <;> simp_all [unwrap]

theorem unw_toLiquid {v : GoVal} (h : Unw v) : v.toLiquid = v := by
  have h1 := h.noDrop
  cases v with
  | drop w => simp [noDrop] at h1
  | ptr w =>
    cases w with
    | drop x => exact absurd h (by unfold Unw; exact fun e => unwrap_ne_ptr_drop _ x e)
    | _ => rfl
  | _ => rfl

theorem toLiquid_repEq_false {x x' : GoVal} (h : RepEq false x x') : RepEq false x.toLiquid x'.toLiquid :=
  toLiquid_repEq h

theorem convElems_rel {d : Bool} {xs xs' : List GoVal} (h : normList d xs = normList d xs') :
    normList d (convElems xs) = normList d (convElems xs') := by
  induction xs generalizing xs' with
  | nil => cases xs' <;> simp_all [normList, convElems]
  | cons x xs ih =>
    cases xs' with
    | nil => simp [normList] at h
    | cons x' xs' =>
      simp only [normList, List.cons.injEq] at h
      simp only [convElems, List.map_cons, normList, List.cons.injEq]
      exact ⟨toLiquid_repEq h.1, ih h.2⟩

theorem normKVs_vals {d : Bool} {kvs kvs' : List (GoVal × GoVal)} (h : normKVs d kvs = normKVs d kvs') :
    normList d (kvs.map (·.2)) = normList d (kvs'.map (·.2)) := by
  induction kvs generalizing kvs' with
  | nil => cases kvs' with
    | nil => rfl
    | cons kv r => obtain ⟨k, v⟩ := kv; simp [normKVs] at h
  | cons kv kvs ih =>
    obtain ⟨k, v⟩ := kv
    cases kvs' with
    | nil => simp [normKVs] at h
    | cons kv' kvs' =>
      obtain ⟨k', v'⟩ := kv'
      simp only [normKVs, List.cons.injEq, Prod.mk.injEq] at h
      simp only [List.map_cons, normList, List.cons.injEq]
      exact ⟨h.1.2, ih h.2⟩

/-! ## `values.Convert` -/

def ParamTy.isScalar : ParamTy → Bool
  | .any | .anys => false
  | _ => true

/-- converted arguments of two related inputs, by parameter type -/
def ArgValRel (d : Bool) : ParamTy → GoVal → GoVal → Prop
  | .anys, c, c' => ∃ ys ys', c = .slice .any ys ∧ c' = .slice .any ys' ∧ normList d ys = normList d ys' ∧
      NoDrops ys ∧ NoDrops ys'
  | .any, c, c' => URel d c c'
  | _, c, c' => c = c'

theorem ArgValRel.scalar {d : Bool} {t : ParamTy} (ht : t.isScalar = true) {c c' : GoVal} (h : ArgValRel d t c c') : c = c' := by
  cases t <;> simp_all [ParamTy.isScalar, ArgValRel]

theorem ArgValRel.of_eq_scalar {d : Bool} {t : ParamTy} (ht : t.isScalar = true) (c : GoVal) : ArgValRel d t c c := by
  cases t <;> simp_all [ParamTy.isScalar, ArgValRel]

theorem sprint_repEq_false {a a' : GoVal} (h : RepEq false a a') : sprint a = sprint a' := by
  rw [← sprint_norm a, ← sprint_norm a', h]

/-- printing in Go syntax (`fmt.Sprint(values.ResolveDrops(·))`) does not see the representation — drops nested
    in containers included (`d = true`) -/
theorem sprintR_repEq {d : Bool} {a a' : GoVal} (h : RepEq d a a') : sprintR a = sprintR a' := by
  unfold sprintR
  rw [← sprintR_norm d a, ← sprintR_norm d a', h]

/-- a scalar parameter receives the same value from related inputs -/
theorem convert_scalar_rel {d : Bool} {t : ParamTy} (ht : t.isScalar = true) {a a' : GoVal} (h : URel d a a') :
    convert a t = convert a' t := by
  rcases h.cases with rfl | ⟨h1, h2⟩
  · rfl
  · have hsR := sprintR_repEq h.2.2
    unfold convert
    rw [unw_toLiquid h.1, unw_toLiquid h.2.1]
    cases a <;> simp [rigidF] at h1 <;> cases a' <;> simp [rigidF] at h2 <;> cases t <;>
      simp [ParamTy.isScalar] at ht <;> simp [hsR]

theorem rangeInts_noDrops (a b : Int) : NoDrops (rangeInts a b) := by
  intro y hy
  simp only [rangeInts, List.mem_map] at hy
  obtain ⟨i, _, rfl⟩ := hy
  rfl

theorem bytesElems_noDrops (s : Bytes) : NoDrops (s.map fun b => GoVal.int .u8 b.toNat) := by
  intro y hy
  simp only [List.mem_map] at hy
  obtain ⟨i, _, rfl⟩ := hy
  rfl

theorem convert_anys_shape {a c : GoVal} (h : convert a .anys = .ok c) : ∃ ys, c = .slice .any ys ∧ NoDrops ys := by
  unfold convert at h
  simp only at h
  split at h <;> first
    | (injection h with h; exact ⟨_, h.symm, convElems_noDrops _⟩)
    | (injection h with h; exact ⟨_, h.symm, bytesElems_noDrops _⟩)
    | (split at h <;> first | (injection h with h; exact ⟨_, h.symm, rangeInts_noDrops _ _⟩) | (split at h <;> first | (injection h with h; exact ⟨_, h.symm, rangeInts_noDrops _ _⟩) | cases h) | cases h)
    | cases h
    | (next kvs _ =>
        rcases MapOrder.sortedMapEntries_cases (ε := Cause) kvs with ⟨_, h1⟩ | ⟨_, w, h1⟩ <;> rw [h1] at h
        · injection h with h; exact ⟨_, h.symm, convElems_noDrops _⟩
        · cases h)

theorem rrel_refl_of {α} {R : α → α → Prop} {t : Bool} (r : Res Cause α) (h : ∀ a, r = .ok a → R a a) : RRel t R r r := by
  cases r <;> simp [RRel]
  exact h _ rfl

theorem convert_anys_rel {d : Bool} {a a' : GoVal} (h : URel d a a') :
    RRel false (ArgValRel d .anys) (convert a .anys) (convert a' .anys) := by
  rcases h.cases with rfl | ⟨h1, h2⟩
  · refine rrel_refl_of _ (fun c hc => ?_)
    obtain ⟨ys, rfl, hy⟩ := convert_anys_shape hc
    exact ⟨ys, ys, rfl, rfl, rfl, hy, hy⟩
  · unfold convert
    rw [unw_toLiquid h.1, unw_toLiquid h.2.1]
    have hnd := h.2.1.noDrop
    cases a with
    | slice t xs =>
      obtain ⟨xs', hs, hn⟩ := norm_inv_seq (u := .slice t xs) rfl hnd h.2.2
      cases a' <;> simp [seqElems?] at hs <;> subst hs <;>
        exact ⟨_, _, rfl, rfl, convElems_rel hn, convElems_noDrops _, convElems_noDrops _⟩
    | array t xs =>
      obtain ⟨xs', hs, hn⟩ := norm_inv_seq (u := .array t xs) rfl hnd h.2.2
      cases a' <;> simp [seqElems?] at hs <;> subst hs <;>
        exact ⟨_, _, rfl, rfl, convElems_rel hn, convElems_noDrops _, convElems_noDrops _⟩
    | map kt vt kvs =>
      rcases norm_inv_map hnd h.2.2 with rfl | ⟨_, vt', kvs', rfl, _, hn⟩
      · simp only
        rcases MapOrder.sortedMapEntries_cases (ε := Cause) kvs with ⟨_, h1⟩ | ⟨_, w, h1⟩ <;> rw [h1]
        · exact ⟨_, _, rfl, rfl, rfl, convElems_noDrops _, convElems_noDrops _⟩
        · simp [RRel]
      · simp only
        rcases sortedMapEntries_norm_rel hn with ⟨es, es', h1, h2, hs⟩ | ⟨w, h1, h2⟩ <;> rw [h1, h2]
        · exact ⟨_, _, rfl, rfl, convElems_rel (normKVs_vals hs), convElems_noDrops _, convElems_noDrops _⟩
        · simp [RRel]
    | _ => simp [rigidF] at h1

theorem convert_any_rel {d : Bool} {a a' : GoVal} (h : URel d a a') :
    RRel false (ArgValRel d .any) (convert a .any) (convert a' .any) := by
  unfold convert convAny
  rw [unw_toLiquid h.1, unw_toLiquid h.2.1]
  have hn := isNil_rel h.1 h.2.1 h.2.2
  cases a <;> cases a' <;> simp [GoVal.isNil] at hn <;> simp [RRel, ArgValRel] <;> exact h

theorem convert_rel {d : Bool} (t : ParamTy) {a a' : GoVal} (h : URel d a a') :
    RRel false (ArgValRel d t) (convert a t) (convert a' t) := by
  cases ht : t.isScalar with
  | true =>
    rw [convert_scalar_rel ht h]
    exact rrel_refl_of _ (fun c _ => ArgValRel.of_eq_scalar ht c)
  | false =>
    cases t <;> simp [ParamTy.isScalar] at ht
    · exact convert_any_rel h
    · exact convert_anys_rel h

/-! ## `values.Call`: the converted argument lists -/

def ArgRel (d : Bool) : Param → Arg → Arg → Prop
  | .val t, .val c, .val c' => ArgValRel d t c c'
  | .fn _, .fn none, .fn none => True
  | .fn t, .fn (some r), .fn (some r') => RRel false (ArgValRel d t) r r'
  | _, _, _ => False

def ArgsRel (d : Bool) : List Param → List Arg → List Arg → Prop
  | [], [], [] => True
  | p :: ps, a :: as, a' :: as' => ArgRel d p a a' ∧ ArgsRel d ps as as'
  | _, _, _ => False

theorem zero_argValRel (d : Bool) (t : ParamTy) : ArgValRel d t t.zero t.zero := by
  cases t <;> simp [ArgValRel, ParamTy.zero]
  · exact URel.refl_unw rfl
  · exact NoDrops.nil

theorem convertArgs_nil_rel {d : Bool} : ∀ ps : List Param, RRel false (ArgsRel d ps) (convertArgs ps []) (convertArgs ps [])
  | [] => by simp [convertArgs, RRel, ArgsRel]
  | .fn t :: ps => by
    simp only [convertArgs]
    exact RRel.bind (convertArgs_nil_rel ps) (fun r r' h => ⟨trivial, h⟩)
  | .val t :: ps => by
    simp only [convertArgs]
    exact RRel.bind (convertArgs_nil_rel ps) (fun r r' h => ⟨zero_argValRel d t, h⟩)

theorem urel_nil_iff {d : Bool} {a a' : GoVal} (h : URel d a a') : a = .nil ↔ a' = .nil := by
  constructor
  · rintro rfl; exact norm_inv_rigid rfl h.2.1.noDrop h.2.2
  · rintro rfl; exact norm_inv_rigid rfl h.1.noDrop h.2.2.symm

theorem convertArgs_rel {d : Bool} : ∀ (ps : List Param) {as as' : List GoVal}, All2 (URel d) as as' →
    RRel false (ArgsRel d ps) (convertArgs ps as) (convertArgs ps as')
  | ps, [], [], .nil => convertArgs_nil_rel ps
  | [], _ :: _, _ :: _, .cons _ _ => by simp [convertArgs, RRel, ArgsRel]
  | .fn t :: ps, a :: as, a' :: as', .cons ha has => by
    simp only [convertArgs]
    exact RRel.bind (convertArgs_rel ps has) (fun r r' h => ⟨convert_rel t ha, h⟩)
  | .val t :: ps, a :: as, a' :: as', .cons ha has => by
    by_cases hn : a = .nil
    · have hn' := (urel_nil_iff ha).mp hn
      subst hn hn'
      simp only [convertArgs]
      exact RRel.bind (convertArgs_rel ps has) (fun r r' h => ⟨zero_argValRel d t, h⟩)
    · have hn' : a' ≠ .nil := fun e => hn ((urel_nil_iff ha).mpr e)
      have e1 : convertArgs (.val t :: ps) (a :: as) =
          (convert a t).bind fun c => (convertArgs ps as).bind fun r => .ok (.val c :: r) := by
        cases a <;> first | exact absurd rfl hn | rfl
      have e2 : convertArgs (.val t :: ps) (a' :: as') =
          (convert a' t).bind fun c => (convertArgs ps as').bind fun r => .ok (.val c :: r) := by
        cases a' <;> first | exact absurd rfl hn' | rfl
      rw [e1, e2]
      exact RRel.bind (convert_rel t ha) (fun c c' hc =>
        RRel.bind (convertArgs_rel ps has) (fun r r' h => ⟨hc, h⟩))

/-! ## `ApplyFilter` -/

/-- results of a filter body, as `ApplyFilter` hands them on (a `[]byte` result is a string) -/
def ExRel (d : Bool) : Except Cause GoVal → Except Cause GoVal → Prop
  | .ok v, .ok v' => VRel d (bytesToString v) (bytesToString v')
  | .error c, .error c' => c = c'
  | _, _ => False

/-- related results that are no drops (every filter body returns an element that went through `ToLiquid`, or a
    value it built) -/
theorem bytesToString_rel_noDrop {d : Bool} {v v' : GoVal} (h : RepEq d v v') (hv : noDrop v = true) (hv' : noDrop v' = true) :
    VRel d (bytesToString v) (bytesToString v') := by
  rcases repEq_noDrop_cases hv hv' h with rfl | ⟨h1, h2⟩
  · exact VRel.refl _
  · have e1 : bytesToString v = v := by cases v <;> simp_all [rigidF, bytesToString]
    have e2 : bytesToString v' = v' := by cases v' <;> simp_all [rigidF, bytesToString]
    rw [e1, e2]; exact h.vrel

theorem bytesToString_rel {v v' : GoVal} (h : RepEq false v v') : VRel false (bytesToString v) (bytesToString v') := by
  rcases repEq_false_cases h with rfl | ⟨h1, h2⟩
  · exact VRel.refl _
  · have e1 : bytesToString v = v := by cases v <;> simp_all [rigidF, bytesToString]
    have e2 : bytesToString v' = v' := by cases v' <;> simp_all [rigidF, bytesToString]
    rw [e1, e2]; exact h.vrel

/-- the body of a filter respects the equivalence on converted argument lists -/
def ImplRespects (t d : Bool) (ps : List Param) (f : FilterImpl) : Prop :=
  ∀ cs cs', ArgsRel d ps cs cs' → RRel t (ExRel d) (f cs) (f cs')

/-- a standard filter respects the equivalence (receiver and arguments unwrapped, as they reach it) -/
def FilterRespects (t d : Bool) (name : Bytes) : Prop :=
  ∀ r r' as as', URel d r r' → All2 (URel d) as as' →
    RRel t (VRel d) (stdPrims.applyFilter name r as) (stdPrims.applyFilter name r' as')

theorem filterRespects_of_impl {t d : Bool} (name : Bytes)
    (h : ∀ sg f, lookupSig name = some sg → lookupImpl stdFilterImpls name = some f → ImplRespects t d sg.params f) :
    FilterRespects t d name := by
  intro r r' as as' hr has
  show RRel t (VRel d) (applyFilter (lookupImpl stdFilterImpls) name r as) (applyFilter (lookupImpl stdFilterImpls) name r' as')
  unfold applyFilter
  cases hs : lookupSig name with
  | none => simp [RRel]
  | some sg =>
    simp only
    have hl : (r :: as).length = (r' :: as').length := (All2.cons hr has).length_eq
    rw [hl]
    split
    · simp [RRel]
    · refine RRel.bind (RRel.weaken (convertArgs_rel sg.params (.cons hr has))) (fun cs cs' hcs => ?_)
      cases hf : lookupImpl stdFilterImpls name with
      | none => simp [RRel]
      | some f =>
        simp only
        refine RRel.bind (h sg f hs hf cs cs' hcs) (fun e e' he => ?_)
        cases e <;> cases e' <;> simp only [ExRel] at he
        · subst he; simp [RRel]
        · exact he

/-- all parameters of the signature are scalar -/
def scalarParams : List Param → Bool
  | [] => true
  | .val t :: ps => t.isScalar && scalarParams ps
  | .fn t :: ps => t.isScalar && scalarParams ps

theorem argsRel_scalar_eq {d : Bool} : ∀ {ps : List Param} {cs cs' : List Arg}, scalarParams ps = true → ArgsRel d ps cs cs' → cs = cs'
  | [], [], [], _, _ => rfl
  | [], [], _ :: _, _, h => by simp [ArgsRel] at h
  | [], _ :: _, _, _, h => by simp [ArgsRel] at h
  | _ :: _, [], _, _, h => by simp [ArgsRel] at h
  | _ :: _, _ :: _, [], _, h => by simp [ArgsRel] at h
  | .val t :: ps, c :: cs, c' :: cs', hp, h => by
    simp only [scalarParams, Bool.and_eq_true] at hp
    obtain ⟨h1, h2⟩ := h
    have := argsRel_scalar_eq hp.2 h2
    subst this
    cases c <;> cases c' <;> simp only [ArgRel] at h1
    rw [ArgValRel.scalar hp.1 h1]
  | .fn t :: ps, c :: cs, c' :: cs', hp, h => by
    simp only [scalarParams, Bool.and_eq_true] at hp
    obtain ⟨h1, h2⟩ := h
    have := argsRel_scalar_eq hp.2 h2
    subst this
    cases c with
    | val v => cases c' <;> simp only [ArgRel] at h1
    | fn o =>
      cases c' with
      | val v => cases o <;> simp only [ArgRel] at h1
      | fn o' =>
        cases o with
        | none => cases o' <;> simp only [ArgRel] at h1; rfl
        | some r =>
          cases o' with
          | none => simp only [ArgRel] at h1
          | some r' =>
            simp only [ArgRel] at h1
            have : RRel false Eq r r' := by
              cases r <;> cases r' <;> simp only [RRel] at h1 ⊢ <;> first | exact ArgValRel.scalar hp.1 h1 | exact h1
            rw [RRel.eq this]

/-- every filter whose parameters are all of scalar type respects the equivalence, whatever its body -/
theorem filterRespects_of_scalar (t d : Bool) (name : Bytes)
    (h : ∀ sg, lookupSig name = some sg → scalarParams sg.params = true) : FilterRespects t d name :=
  filterRespects_of_impl name (fun sg f hs _ cs cs' hcs => by
    rw [argsRel_scalar_eq (h sg hs) hcs]
    exact RRel.of_eq (fun e => by cases e <;> simp [ExRel, VRel.refl]) rfl)

/-- a filter without a modelled body is `unmodelled` on both sides -/
theorem filterRespects_of_noImpl (t d : Bool) (name : Bytes) (h : lookupImpl stdFilterImpls name = none) :
    FilterRespects t d name :=
  filterRespects_of_impl name (fun sg f _ hf => by rw [h] at hf; cases hf)

/-! ## The filters with `[]any` and `any` parameters -/

/-- a one-element related argument list -/
theorem argsRel_cons {d : Bool} {p : Param} {ps : List Param} {cs cs' : List Arg} (h : ArgsRel d (p :: ps) cs cs') :
    ∃ a as a' as', cs = a :: as ∧ cs' = a' :: as' ∧ ArgRel d p a a' ∧ ArgsRel d ps as as' := by
  cases cs with
  | nil => simp [ArgsRel] at h
  | cons a as =>
    cases cs' with
    | nil => simp [ArgsRel] at h
    | cons a' as' => exact ⟨a, as, a', as', rfl, rfl, h.1, h.2⟩

theorem argsRel_nil {d : Bool} {cs cs' : List Arg} (h : ArgsRel d [] cs cs') : cs = [] ∧ cs' = [] := by
  cases cs <;> cases cs' <;> simp_all [ArgsRel]

theorem argRel_val {d : Bool} {t : ParamTy} {a a' : Arg} (h : ArgRel d (.val t) a a') : ∃ c c', a = .val c ∧ a' = .val c' ∧ ArgValRel d t c c' := by
  cases a <;> cases a' <;> simp only [ArgRel] at h
  exact ⟨_, _, rfl, rfl, h⟩

theorem argsRel_anys1 {d : Bool} {cs cs' : List Arg} (h : ArgsRel d [.val .anys] cs cs') :
    ∃ ys ys', cs = [.val (.slice .any ys)] ∧ cs' = [.val (.slice .any ys')] ∧ normList d ys = normList d ys' ∧
      NoDrops ys ∧ NoDrops ys' := by
  obtain ⟨a, as, a', as', rfl, rfl, h1, h2⟩ := argsRel_cons h
  obtain ⟨rfl, rfl⟩ := argsRel_nil h2
  obtain ⟨c, c', rfl, rfl, ys, ys', rfl, rfl, hn⟩ := argRel_val h1
  exact ⟨ys, ys', rfl, rfl, hn⟩

/-- a related result that is no drop on either side -/
theorem exrel_ok {t d : Bool} {v v' : GoVal} (h : RepEq d v v') (hv : noDrop v = true) (hv' : noDrop v' = true) :
    RRel t (ExRel d) (.ok (.ok v)) (.ok (.ok v')) := bytesToString_rel_noDrop h hv hv'

theorem head_noDrop {ys : List GoVal} (h : NoDrops ys) : noDrop (ys.head?.getD .nil) = true := by
  cases ys with
  | nil => rfl
  | cons y ys => exact h.head

theorem getLast_noDrop {ys : List GoVal} (h : NoDrops ys) : noDrop (ys.getLast?.getD .nil) = true := by
  cases hl : ys.getLast? with
  | none => rfl
  | some y => exact h y (List.mem_of_getLast? hl)

namespace ArrF

theorem firstF_head (xs : List GoVal) : firstF xs = xs.head?.getD .nil := by cases xs <;> rfl

theorem lastF_getLast : ∀ xs : List GoVal, lastF xs = xs.getLast?.getD .nil
  | [] => rfl
  | [x] => rfl
  | x :: y :: r => by rw [lastF, lastF_getLast (y :: r)]; simp [List.getLast?_cons_cons]

theorem first_respects (t d : Bool) : ImplRespects t d [.val .anys] (eager first) := by
  intro cs cs' h
  obtain ⟨ys, ys', rfl, rfl, hn, hy, hy'⟩ := argsRel_anys1 h
  simp only [eager, FilterImpl.ofEager, FilterImpl.ofEager.collect, Res.bind, first, ret, firstF_head]
  exact exrel_ok (normList_head hn) (head_noDrop hy) (head_noDrop hy')

theorem last_respects (t d : Bool) : ImplRespects t d [.val .anys] (eager last) := by
  intro cs cs' h
  obtain ⟨ys, ys', rfl, rfl, hn, hy, hy'⟩ := argsRel_anys1 h
  simp only [eager, FilterImpl.ofEager, FilterImpl.ofEager.collect, Res.bind, last, ret, lastF_getLast]
  exact exrel_ok (normList_getLast hn) (getLast_noDrop hy) (getLast_noDrop hy')

theorem reverseF_rev (xs : List GoVal) : reverseF xs = xs.reverse := by
  unfold reverseF
  have : ∀ acc : List GoVal, xs.foldl (fun acc x => x :: acc) acc = xs.reverse ++ acc := by
    induction xs with
    | nil => intro acc; rfl
    | cons x xs ih => intro acc; simp [List.foldl, ih]
  simp [this []]

theorem slice_any_rel {d : Bool} {ys ys' : List GoVal} (h : normList d ys = normList d ys') :
    RepEq d (.slice .any ys) (.slice .any ys') := by
  simp only [RepEq, norm, h]

/-- an array result -/
theorem exrel_slice {t d : Bool} {ys ys' : List GoVal} (h : normList d ys = normList d ys') :
    RRel t (ExRel d) (.ok (.ok (.slice .any ys))) (.ok (.ok (.slice .any ys'))) :=
  exrel_ok (slice_any_rel h) rfl rfl

theorem reverse_respects (t d : Bool) : ImplRespects t d [.val .anys] (eager reverse) := by
  intro cs cs' h
  obtain ⟨ys, ys', rfl, rfl, hn, _, _⟩ := argsRel_anys1 h
  simp only [eager, FilterImpl.ofEager, FilterImpl.ofEager.collect, Res.bind, reverse, ret, reverseF_rev]
  refine exrel_slice ?_
  simp only [normList_eq_map, List.map_reverse] at hn ⊢
  rw [hn]

theorem isNil_repEq_false {x x' : GoVal} (h : RepEq false x x') : x.isNil = x'.isNil := by
  rcases repEq_false_cases h with rfl | ⟨h1, h2⟩
  · rfl
  · cases x <;> cases x' <;> simp_all [rigidF, GoVal.isNil]

/-- `item != nil` on elements that went through `ToLiquid` (a drop that yields nil IS nil there) -/
theorem isNil_repEq_noDrop {d : Bool} {x x' : GoVal} (hx : noDrop x = true) (hx' : noDrop x' = true) (h : RepEq d x x') :
    x.isNil = x'.isNil := by
  rcases repEq_noDrop_cases hx hx' h with rfl | ⟨h1, h2⟩
  · rfl
  · cases x <;> cases x' <;> simp_all [rigidF, GoVal.isNil]

theorem compactF_rel {d : Bool} : ∀ {ys ys' : List GoVal}, normList d ys = normList d ys' → NoDrops ys → NoDrops ys' →
    normList d (compactF ys) = normList d (compactF ys')
  | [], [], _, _, _ => rfl
  | [], _ :: _, h, _, _ => by simp [normList] at h
  | _ :: _, [], h, _, _ => by simp [normList] at h
  | y :: ys, y' :: ys', h, hy, hy' => by
    simp only [normList, List.cons.injEq] at h
    have ih := compactF_rel h.2 hy.tail hy'.tail
    simp only [compactF, isNil_repEq_noDrop hy.head hy'.head h.1]
    split
    · exact ih
    · simp only [normList, ih, h.1]

theorem compact_respects (t d : Bool) : ImplRespects t d [.val .anys] (eager compact) := by
  intro cs cs' h
  obtain ⟨ys, ys', rfl, rfl, hn, hy, hy'⟩ := argsRel_anys1 h
  simp only [eager, FilterImpl.ofEager, FilterImpl.ofEager.collect, Res.bind, compact, ret]
  exact exrel_slice (compactF_rel hn hy hy')

/-! ### `uniq` (after `fixes/nested-drops-resolved`: elements are compared by what they hold) -/

mutual
theorem hasPtr_norm (d : Bool) : ∀ v : GoVal, hasPtr (v.norm d) = hasPtr v
  | .drop v => by
    rw [norm]; split
    · rfl
    · simp only [hasPtr]; exact hasPtr_norm d v
  | .slice _ xs => by simp only [norm, hasPtr, hasPtrList_norm d xs]
  | .array _ xs => by simp only [norm, hasPtr, hasPtrList_norm d xs]
  | .map kt vt kvs => by
    cases h : isRec (.map kt vt kvs) with
    | true => rw [norm_of_isRec h]
    | false => rw [norm_map_nonrec h]; simp only [hasPtr, hasPtrKVs_norm d kvs]
  | .nil | .bool _ | .int _ _ | .flt _ _ | .str _ | .bytes _
  | .mapSlice _ | .keyedMap _ | .range _ _ | .ptr _ | .nilPtr
  | .struct _ | .time _ => by simp [norm]
theorem hasPtrList_norm (d : Bool) : ∀ xs : List GoVal, hasPtr.hasPtrList (normList d xs) = hasPtr.hasPtrList xs
  | [] => rfl
  | x :: xs => by simp only [normList, hasPtr.hasPtrList, hasPtr_norm d x, hasPtrList_norm d xs]
theorem hasPtrKVs_norm (d : Bool) : ∀ kvs : List (GoVal × GoVal), hasPtr.hasPtrKVs (normKVs d kvs) = hasPtr.hasPtrKVs kvs
  | [] => rfl
  | (k, v) :: r => by simp only [normKVs, hasPtr.hasPtrKVs, hasPtr_norm d v, hasPtrKVs_norm d r]
end

mutual
/-- what `uniq` compares does not see the representation: typed containers, and drops at every depth -/
theorem uniqForm_norm (d : Bool) : ∀ v : GoVal, uniqForm (v.norm d) = uniqForm v
  | .drop v => by
    rw [norm]; split
    · rfl
    · simp only [uniqForm]; exact uniqForm_norm d v
  | .slice _ xs => by simp only [norm, uniqForm, uniqFormList_norm d xs]
  | .array _ xs => by simp only [norm, uniqForm, uniqFormList_norm d xs]
  | .map kt vt kvs => by
    cases h : isRec (.map kt vt kvs) with
    | true => rw [norm_of_isRec h]
    | false => rw [norm_map_nonrec h]; simp only [uniqForm, uniqFormVals_norm d kvs]
  | .nil | .bool _ | .int _ _ | .flt _ _ | .str _ | .bytes _
  | .mapSlice _ | .keyedMap _ | .range _ _ | .ptr _ | .nilPtr
  | .struct _ | .time _ => by simp [norm]
theorem uniqFormList_norm (d : Bool) : ∀ xs : List GoVal, uniqFormList (normList d xs) = uniqFormList xs
  | [] => rfl
  | x :: xs => by simp only [normList, uniqFormList, uniqForm_norm d x, uniqFormList_norm d xs]
theorem uniqFormVals_norm (d : Bool) : ∀ kvs : List (GoVal × GoVal), uniqFormVals (normKVs d kvs) = uniqFormVals kvs
  | [] => rfl
  | (k, v) :: r => by simp only [normKVs, uniqFormVals, uniqForm_norm d v, uniqFormVals_norm d r]
end

/-- representation-equivalent elements (drops nested in them included, `d = true`) are one element to `uniq` -/
theorem uniqKey_repEq {d : Bool} {x x' : GoVal} (h : RepEq d x x') : uniqKey x = uniqKey x' := by
  unfold uniqKey
  rw [← uniqForm_norm d x, ← uniqForm_norm d x', h]

theorem hasPtr_repEq {d : Bool} {x x' : GoVal} (h : RepEq d x x') : hasPtr x = hasPtr x' := by
  rw [← hasPtr_norm d x, ← hasPtr_norm d x', h]

theorem any_hasPtr_rel {d : Bool} : ∀ {ys ys' : List GoVal}, normList d ys = normList d ys' →
    ys.any hasPtr = ys'.any hasPtr
  | [], [], _ => rfl
  | [], _ :: _, h => by simp [normList] at h
  | _ :: _, [], h => by simp [normList] at h
  | y :: ys, y' :: ys', h => by
    simp only [normList, List.cons.injEq] at h
    simp only [List.any_cons, hasPtr_repEq h.1, any_hasPtr_rel h.2]

theorem uniqOn_rel {d : Bool} : ∀ {ys ys' : List GoVal}, normList d ys = normList d ys' → ∀ seen : List String,
    normList d (uniqOn uniqKey seen ys) = normList d (uniqOn uniqKey seen ys')
  | [], [], _, _ => rfl
  | [], _ :: _, h, _ => by simp [normList] at h
  | _ :: _, [], h, _ => by simp [normList] at h
  | y :: ys, y' :: ys', h, seen => by
    simp only [normList, List.cons.injEq] at h
    simp only [uniqOn, uniqKey_repEq h.1]
    split
    · exact uniqOn_rel h.2 seen
    · simp only [normList, h.1, uniqOn_rel h.2 _]

/-- `uniq` respects representation equivalence: it no longer observes the Go types of nested containers -/
theorem uniq_respects (t d : Bool) : ImplRespects t d [.val .anys] (eager uniq) := by
  intro cs cs' h
  obtain ⟨ys, ys', rfl, rfl, hn, _, _⟩ := argsRel_anys1 h
  simp only [eager, FilterImpl.ofEager, FilterImpl.ofEager.collect, Res.bind, uniq, any_hasPtr_rel hn]
  cases ys'.any hasPtr with
  | true => exact RRel.of_eq (fun e => by cases e <;> simp [ExRel, VRel.refl]) rfl
  | false =>
    simp only [Bool.false_eq_true, if_false, ret, uniqF]
    exact exrel_slice (uniqOn_rel hn [])

end ArrF

namespace ArrF

theorem concat_respects (t d : Bool) : ImplRespects t d [.val .anys, .val .anys] (eager concat) := by
  intro cs cs' h
  obtain ⟨a, as, a', as', rfl, rfl, h1, h2⟩ := argsRel_cons h
  obtain ⟨ys, ys', rfl, rfl, hn, _, _⟩ := argsRel_anys1 h2
  obtain ⟨c, c', rfl, rfl, xs, xs', rfl, rfl, hx, _, _⟩ := argRel_val h1
  simp only [eager, FilterImpl.ofEager, FilterImpl.ofEager.collect, Res.bind, concat, ret, concatF]
  refine exrel_slice ?_
  simp only [normList_eq_map, List.map_append] at hn hx ⊢
  rw [hn, hx]

theorem sprintNonNil_rel {d : Bool} : ∀ {ys ys' : List GoVal}, normList d ys = normList d ys' → NoDrops ys → NoDrops ys' →
    sprintNonNil ys = sprintNonNil ys'
  | [], [], _, _, _ => rfl
  | [], _ :: _, h, _, _ => by simp [normList] at h
  | _ :: _, [], h, _, _ => by simp [normList] at h
  | y :: ys, y' :: ys', h, hy, hy' => by
    simp only [normList, List.cons.injEq] at h
    simp only [sprintNonNil, isNil_repEq_noDrop hy.head hy'.head h.1, sprintR_repEq h.1, sprintNonNil_rel h.2 hy.tail hy'.tail]

theorem join_respects (t d : Bool) : ImplRespects t d [.val .anys, .fn .str] (eager join) := by
  intro cs cs' h
  obtain ⟨a, as, a', as', rfl, rfl, h1, h2⟩ := argsRel_cons h
  obtain ⟨b, bs, b', bs', rfl, rfl, h3, h4⟩ := argsRel_cons h2
  obtain ⟨rfl, rfl⟩ := argsRel_nil h4
  obtain ⟨c, c', rfl, rfl, xs, xs', rfl, rfl, hx, hxn, hxn'⟩ := argRel_val h1
  have hs := sprintNonNil_rel hx hxn hxn'
  cases b with
  | val v => cases b' <;> simp only [ArgRel] at h3
  | fn o =>
    cases b' with
    | val v => cases o <;> simp only [ArgRel] at h3
    | fn o' =>
      cases o with
      | none =>
        cases o' <;> simp only [ArgRel] at h3
        simp only [eager, FilterImpl.ofEager, FilterImpl.ofEager.collect, Res.bind, join, joinF, hs]
        exact RRel.of_eq (fun e => by cases e <;> simp [ExRel, VRel.refl]) rfl
      | some r =>
        cases o' with
        | none => simp only [ArgRel] at h3
        | some r' =>
          simp only [ArgRel] at h3
          have : r = r' := by
            cases r <;> cases r' <;> simp only [RRel, ArgValRel] at h3 <;> simp_all
          subst this
          simp only [eager, FilterImpl.ofEager, FilterImpl.ofEager.collect]
          cases r with
          | ok v =>
            simp only [Res.bind]
            cases v <;> simp only [join, joinF, hs, badArgs] <;>
              exact RRel.of_eq (fun e => by cases e <;> simp [ExRel, VRel.refl]) rfl
          | _ => simp [Res.bind, RRel]

theorem propOf_rel {d : Bool} {x x' : GoVal} (h : RepEq d x x') (k : Bytes) :
    RRel false (RepEq d) (propOf x k) (propOf x' k) := by
  have := propertyValue_rel h.vrel k
  unfold propOf
  cases h1 : x.propertyValue k <;> cases h2 : x'.propertyValue k <;> rw [h1, h2] at this <;> simp only [LRel] at this
  · exact this.unwrap
  · exact .inr this

theorem mapF_rel {d : Bool} (k : Bytes) : ∀ {ys ys' : List GoVal}, normList d ys = normList d ys' →
    RRel false (fun vs vs' => normList d vs = normList d vs') (mapF k ys) (mapF k ys')
  | [], [], _ => by simp [mapF, RRel]
  | [], _ :: _, h => by simp [normList] at h
  | _ :: _, [], h => by simp [normList] at h
  | y :: ys, y' :: ys', h => by
    simp only [normList, List.cons.injEq] at h
    simp only [mapF]
    refine RRel.bind (propOf_rel h.1 k) (fun v v' hv => RRel.bind (mapF_rel k h.2) (fun vs vs' hvs => ?_))
    simp only [RRel, normList, hvs]
    rw [hv]

theorem map_respects (t d : Bool) : ImplRespects t d [.val .anys, .val .str] (eager map) := by
  intro cs cs' h
  obtain ⟨a, as, a', as', rfl, rfl, h1, h2⟩ := argsRel_cons h
  obtain ⟨b, bs, b', bs', rfl, rfl, h3, h4⟩ := argsRel_cons h2
  obtain ⟨rfl, rfl⟩ := argsRel_nil h4
  obtain ⟨c, c', rfl, rfl, xs, xs', rfl, rfl, hx, _, _⟩ := argRel_val h1
  obtain ⟨k, k', rfl, rfl, hk⟩ := argRel_val h3
  simp only [ArgValRel] at hk
  subst hk
  simp only [eager, FilterImpl.ofEager, FilterImpl.ofEager.collect, Res.bind]
  cases k <;> simp only [map, badArgs] <;> try (exact RRel.of_eq (fun e => by cases e <;> simp [ExRel, VRel.refl]) rfl)
  next s =>
    have := mapF_rel s hx
    cases h1 : mapF s xs <;> cases h2 : mapF s xs' <;> rw [h1, h2] at this <;> simp only [RRel] at this <;>
      simp only [Res.bind, ret, RRel] <;> first
        | exact bytesToString_rel_noDrop (slice_any_rel this) rfl rfl
        | exact this
        | (rcases this with h | h <;> simp_all)

end ArrF

namespace Num

theorem argsRel_any1 {d : Bool} {cs cs' : List Arg} (h : ArgsRel d [.val .any] cs cs') :
    ∃ v v', cs = [.val v] ∧ cs' = [.val v'] ∧ URel d v v' := by
  obtain ⟨a, as, a', as', rfl, rfl, h1, h2⟩ := argsRel_cons h
  obtain ⟨rfl, rfl⟩ := argsRel_nil h2
  obtain ⟨c, c', rfl, rfl, hc⟩ := argRel_val h1
  exact ⟨c, c', rfl, rfl, hc⟩

theorem exrel_refl (t : Bool) {d : Bool} (r : Res Cause (Except Cause GoVal)) : RRel t (ExRel d) r r :=
  RRel.of_eq (fun e => by cases e <;> simp [ExRel, VRel.refl]) rfl

theorem size_respects (t d : Bool) : ImplRespects t d [.val .any] size := by
  intro cs cs' h
  obtain ⟨v, v', rfl, rfl, hv⟩ := argsRel_any1 h
  simp only [size, unw_toLiquid hv.1, unw_toLiquid hv.2.1]
  rcases hv.cases with rfl | ⟨h1, h2⟩
  · exact exrel_refl t _
  · have hnd := hv.2.1.noDrop
    cases v with
    | slice ty xs =>
      obtain ⟨xs', hs, hn⟩ := norm_inv_seq (u := .slice ty xs) rfl hnd hv.2.2
      cases v' <;> simp [seqElems?] at hs <;> subst hs <;> simp only [normList_length hn] <;> exact exrel_refl t _
    | array ty xs =>
      obtain ⟨xs', hs, hn⟩ := norm_inv_seq (u := .array ty xs) rfl hnd hv.2.2
      cases v' <;> simp [seqElems?] at hs <;> subst hs <;> simp only [normList_length hn] <;> exact exrel_refl t _
    | map kt vt kvs =>
      rcases norm_inv_map hnd hv.2.2 with rfl | ⟨_, vt', kvs', rfl, _, hn⟩
      · exact exrel_refl t _
      · exact exrel_refl t _
    | _ => simp [rigidF] at h1

theorem isEmpty_len {α β} {xs : List α} {ys : List β} (h : xs.length = ys.length) : xs.isEmpty = ys.isEmpty := by
  cases xs <;> cases ys <;> simp_all

theorem isEmpty_rel {d : Bool} {v v' : GoVal} (hv : URel d v v') : isEmpty v = isEmpty v' := by
  rcases hv.cases with rfl | ⟨h1, h2⟩
  · rfl
  · have hnd := hv.2.1.noDrop
    cases v with
    | slice ty xs =>
      obtain ⟨xs', hs, hn⟩ := norm_inv_seq (u := .slice ty xs) rfl hnd hv.2.2
      have hl := normList_length hn
      cases v' <;> simp [seqElems?] at hs <;> subst hs <;> exact isEmpty_len hl
    | array ty xs =>
      obtain ⟨xs', hs, hn⟩ := norm_inv_seq (u := .array ty xs) rfl hnd hv.2.2
      have hl := normList_length hn
      cases v' <;> simp [seqElems?] at hs <;> subst hs <;> exact isEmpty_len hl
    | map kt vt kvs =>
      rcases norm_inv_map hnd hv.2.2 with rfl | ⟨_, vt', kvs', rfl, _, hn⟩
      · rfl
      · exact isEmpty_len (normKVs_length hn)
    | _ => simp [rigidF] at h1

theorem default_respects (t d : Bool) : ImplRespects t d [.val .any, .val .any] default := by
  intro cs cs' h
  obtain ⟨a, as, a', as', rfl, rfl, h1, h2⟩ := argsRel_cons h
  obtain ⟨dv, dv', rfl, rfl, hd⟩ := argsRel_any1 h2
  obtain ⟨v, v', rfl, rfl, hv⟩ := argRel_val h1
  simp only [ArgValRel] at hv
  simp only [default, ret]
  have hdd := exrel_ok (t := t) hd.2.2 hd.1.noDrop hd.2.1.noDrop
  have hvv := exrel_ok (t := t) hv.2.2 hv.1.noDrop hv.2.1.noDrop
  rcases hv.cases with rfl | ⟨hr1, hr2⟩
  · have key : ∀ c : Bool, RRel t (ExRel d) (.ok (.ok (if c = true then dv else v'))) (.ok (.ok (if c = true then dv' else v'))) := by
      intro c
      cases c
      · exact hvv
      · exact hdd
    exact key _
  · have := isEmpty_rel hv
    rw [← unw_toLiquid hv.1, ← unw_toLiquid hv.2.1] at this
    cases v <;> simp [rigidF] at hr1 <;> cases v' <;> simp [rigidF] at hr2 <;> simp only [this] <;>
      (split
       · exact hdd
       · exact hvv)

theorem dividedBy_respects (t d : Bool) : ImplRespects t d [.val .f64, .val .any] dividedBy := by
  intro cs cs' h
  obtain ⟨a, as, a', as', rfl, rfl, h1, h2⟩ := argsRel_cons h
  obtain ⟨b, b', rfl, rfl, hb⟩ := argsRel_any1 h2
  obtain ⟨v, v', rfl, rfl, hv⟩ := argRel_val h1
  simp only [ArgValRel] at hv
  subst hv
  rcases hb.cases with rfl | ⟨hr1, hr2⟩
  · exact exrel_refl t _
  · have e1 : ∀ a : Rat, dividedBy [.val (.flt .f64 a), .val b] = retErr (.other "invalid divisor") := by
      intro a; cases b <;> simp_all [rigidF, dividedBy]
    have e2 : ∀ a : Rat, dividedBy [.val (.flt .f64 a), .val b'] = retErr (.other "invalid divisor") := by
      intro a; cases b' <;> simp_all [rigidF, dividedBy]
    cases v with
    | flt k q =>
      cases k with
      | f64 => rw [e1, e2]; exact exrel_refl t _
      | f32 => simp only [dividedBy]; exact exrel_refl t _
    | _ => simp only [dividedBy]; exact exrel_refl t _

end Num

/-! ## The table of the standard filters -/

theorem implRespects_of_scalar (t d : Bool) {ps : List Param} (h : scalarParams ps = true) (f : FilterImpl) :
    ImplRespects t d ps f := by
  intro cs cs' hcs
  rw [argsRel_scalar_eq h hcs]
  exact Num.exrel_refl t _

/-- the signature registered under a name has scalar parameters only (or the name is not registered) -/
def scalarSigB (name : Bytes) : Bool :=
  match lookupSig name with
  | some sg => scalarParams sg.params
  | none => true

/-- an entry of the table of filter bodies respects the equivalence under the signature of its name -/
def goodEntry (t d : Bool) (e : Bytes × FilterImpl) : Prop :=
  ∀ sg, lookupSig e.1 = some sg → ImplRespects t d sg.params e.2

theorem goodEntry_of_scalar (t d : Bool) {name : Bytes} (h : scalarSigB name = true) (f : FilterImpl) : goodEntry t d (name, f) := by
  intro sg hs
  simp only [scalarSigB, hs] at h
  exact implRespects_of_scalar t d h f

theorem goodEntry_of_sig (t d : Bool) {name : Bytes} {f : FilterImpl} (sg0 : FilterSig) (hs0 : lookupSig name = some sg0)
    (h : ImplRespects t d sg0.params f) : goodEntry t d (name, f) := by
  intro sg hs
  simp only at hs
  rw [hs0] at hs
  cases hs
  exact h

/-- the filters that *observe the Go representation* and therefore do not respect the equivalence:
    `type` prints the Go type (`[]int` against `[]interface {}`); `json` and `inspect` marshal the Go value
    (a `[]uint8` is base64 text, a `map[any]any` is rejected, where the generic slice / the string-keyed map
    print their elements). Counterexamples in `Proofs/C18.lean`. (`uniq` was on this list until
    `fixes/nested-drops-resolved`: it compared nested containers by their Go types; `ArrF.uniq_respects`.) -/
def reprFilters : List Bytes := [JsonF.bn "json", JsonF.bn "inspect", JsonF.bn "type"]

/-- the filters whose bodies are not shown to respect the equivalence exactly: `reprFilters` do not;
    `sort` and `sort_natural` are open (they do up to `unmodelled`: `Proofs/RepEqSort.lean`) -/
def openFilters : List Bytes := [ArrF.bn "sort", ArrF.bn "sort_natural",
  JsonF.bn "json", JsonF.bn "inspect", JsonF.bn "type"]

theorem strGlue_scalar : StrGlue.names.all (fun n => scalarSigB n.toUTF8.toList) = true := by decide +kernel

/-- every entry of the table is good, except the excluded names; the five open entries are good
    when they are not excluded and shown good -/
theorem goodEntry_table (t d : Bool) (excl : List Bytes)
    (hs : ArrF.bn "sort" ∉ excl → goodEntry t d (ArrF.bn "sort", ArrF.eager ArrF.sort))
    (hnat : ArrF.bn "sort_natural" ∉ excl → goodEntry t d (ArrF.bn "sort_natural", ArrF.eager ArrF.sortNatural))
    (hjson : JsonF.bn "json" ∉ excl → goodEntry t d (JsonF.bn "json", JsonF.json))
    (hinsp : JsonF.bn "inspect" ∉ excl → goodEntry t d (JsonF.bn "inspect", JsonF.inspect))
    (htype : JsonF.bn "type" ∉ excl → goodEntry t d (JsonF.bn "type", JsonF.typeF)) :
    ∀ e ∈ stdFilterImpls, e.1 ∉ excl → goodEntry t d e := by
  intro e he hn
  simp only [stdFilterImpls, List.mem_append] at he
  rcases he with (((he | he) | he) | he) | he
  · simp only [Num.impls, List.mem_cons, List.not_mem_nil, or_false] at he
    rcases he with rfl | rfl | rfl | rfl | rfl | rfl | rfl | rfl | rfl | rfl | rfl
    · exact goodEntry_of_scalar t d (by decide +kernel) _
    · exact goodEntry_of_scalar t d (by decide +kernel) _
    · exact goodEntry_of_scalar t d (by decide +kernel) _
    · exact goodEntry_of_scalar t d (by decide +kernel) _
    · exact goodEntry_of_scalar t d (by decide +kernel) _
    · exact goodEntry_of_scalar t d (by decide +kernel) _
    · exact goodEntry_of_scalar t d (by decide +kernel) _
    · exact goodEntry_of_sig t d ⟨Num.bn "divided_by", [.val .f64, .val .any], true⟩ (by decide +kernel) (Num.dividedBy_respects t d)
    · exact goodEntry_of_scalar t d (by decide +kernel) _
    · exact goodEntry_of_sig t d ⟨Num.bn "default", [.val .any, .val .any], false⟩ (by decide +kernel) (Num.default_respects t d)
    · exact goodEntry_of_sig t d ⟨Num.bn "size", [.val .any], false⟩ (by decide +kernel) (Num.size_respects t d)
  · simp only [StrGlue.impls, List.mem_map] at he
    obtain ⟨n, hn', rfl⟩ := he
    exact goodEntry_of_scalar t d (List.all_eq_true.mp strGlue_scalar n hn') _
  · simp only [ArrF.impls, List.mem_cons, List.not_mem_nil, or_false] at he
    rcases he with rfl | rfl | rfl | rfl | rfl | rfl | rfl | rfl | rfl | rfl
    · exact goodEntry_of_sig t d ⟨ArrF.bn "compact", [.val .anys], false⟩ (by decide +kernel) (ArrF.compact_respects t d)
    · exact goodEntry_of_sig t d ⟨ArrF.bn "concat", [.val .anys, .val .anys], false⟩ (by decide +kernel) (ArrF.concat_respects t d)
    · exact goodEntry_of_sig t d ⟨ArrF.bn "join", [.val .anys, .fn .str], false⟩ (by decide +kernel) (ArrF.join_respects t d)
    · exact goodEntry_of_sig t d ⟨ArrF.bn "map", [.val .anys, .val .str], false⟩ (by decide +kernel) (ArrF.map_respects t d)
    · exact goodEntry_of_sig t d ⟨ArrF.bn "reverse", [.val .anys], false⟩ (by decide +kernel) (ArrF.reverse_respects t d)
    · exact hs hn
    · exact goodEntry_of_sig t d ⟨ArrF.bn "first", [.val .anys], false⟩ (by decide +kernel) (ArrF.first_respects t d)
    · exact goodEntry_of_sig t d ⟨ArrF.bn "last", [.val .anys], false⟩ (by decide +kernel) (ArrF.last_respects t d)
    · exact goodEntry_of_sig t d ⟨ArrF.bn "uniq", [.val .anys], false⟩ (by decide +kernel) (ArrF.uniq_respects t d)
    · exact hnat hn
  · simp only [JsonF.impls, List.mem_cons, List.not_mem_nil, or_false] at he
    rcases he with rfl | rfl | rfl
    · exact hjson hn
    · exact hinsp hn
    · exact htype hn
  · -- `date`: a time receiver and a string default function, both scalar parameters
    simp only [DateF.impls, List.mem_cons, List.not_mem_nil, or_false] at he
    subst he
    exact goodEntry_of_scalar t d (by decide +kernel) _

theorem goodEntry_std (t d : Bool) : ∀ e ∈ stdFilterImpls, e.1 ∉ openFilters → goodEntry t d e :=
  goodEntry_table t d openFilters (fun h => absurd (by simp [openFilters]) h)
    (fun h => absurd (by simp [openFilters]) h) (fun h => absurd (by simp [openFilters]) h)
    (fun h => absurd (by simp [openFilters]) h) (fun h => absurd (by simp [openFilters]) h)

theorem lookupImpl_mem {tbl : List (Bytes × FilterImpl)} {name : Bytes} {f : FilterImpl}
    (h : lookupImpl tbl name = some f) : (name, f) ∈ tbl := by
  unfold lookupImpl at h
  cases hf : tbl.find? (·.1 == name) with
  | none => simp [hf] at h
  | some e =>
    simp only [hf, Option.map_some, Option.some.injEq] at h
    have hm := List.mem_of_find?_eq_some hf
    have hp := List.find?_some hf
    simp only [beq_iff_eq] at hp
    obtain ⟨n, g⟩ := e
    simp only at hp h
    subst hp h
    exact hm

/-- every standard filter other than `sort`, `sort_natural`, `json`, `inspect`, `type` respects representation
    equivalence — for every `d`: also with drops nested in the receiver and the arguments (`d = true`) —, for every
    name (registered or not) -/
theorem filterRespects_std (t d : Bool) (name : Bytes) (h : name ∉ openFilters) : FilterRespects t d name :=
  filterRespects_of_impl name (fun sg f hs hf => goodEntry_std t d (name, f) (lookupImpl_mem hf) h sg hs)

/-! ## The standard configuration with a chosen set of filters -/

/-- the standard comparison and filter layer of an engine on which only the filters satisfying
    `allowed` are registered (any other name is an undefined filter, as on the real engine) -/
def stdPrimsOnly (allowed : Bytes → Bool) : Prims :=
  { stdPrims with
    hasFilter := fun n => stdPrims.hasFilter n && allowed n,
    applyFilter := fun n r as => if allowed n then stdPrims.applyFilter n r as else .err (.undefinedFilter n) }

theorem stdPrimsOnly_all : stdPrimsOnly (fun _ => true) = stdPrims := by
  simp [stdPrimsOnly]

/-- the standard comparisons respect the equivalence, and so does every allowed filter, given
    that the allowed ones among `sort`, `sort_natural` (and `json`, `inspect`, `type`) do -/
theorem stdPrimsOnly_respects {d : Bool} (allowed : Bytes → Bool)
    (hopen : ∀ n, n ∈ openFilters → allowed n = true → FilterRespects true d n) :
    PrimsRespect true d (stdPrimsOnly allowed) :=
  { equal := fun a a' b b' ha hb => RRel.of_eq (fun _ => rfl) (Cmp.opEq_prep_vrel ha hb),
    less := fun a a' b b' ha hb => RRel.of_eq (fun _ => rfl) (Cmp.opLt_prep_vrel ha hb),
    contains := fun a a' b b' ha hb => Cmp.opContains_prep_vrel ha hb,
    equalFn := fun a a' b b' ha hb => RRel.of_eq (fun _ => rfl) (Cmp.equal_prep_repEq ha.2.2 hb.2.2),
    applyFilter := fun name r r' as as' hr has => by
      show RRel true (VRel d) (if allowed name then _ else _) (if allowed name then _ else _)
      cases ha : allowed name with
      | false => simp [RRel]
      | true =>
        simp only [if_true]
        by_cases hn : name ∈ openFilters
        · exact hopen name hn ha r r' as as' hr has
        · exact filterRespects_std true d name hn r r' as as' hr has }

/-- the engine without `sort` and `sort_natural` (and `json`, `inspect`, `type`) -/
def coreFilters (n : Bytes) : Bool := !openFilters.contains n

/-- the engine without the filters that observe the Go representation (`json`, `inspect`, `type`) -/
def withoutRepr (n : Bytes) : Bool := !reprFilters.contains n

/-- the length of an array result (for the examples of `Proofs/C18.lean`) -/
def lenOfRes : Res Cause GoVal → Nat
  | .ok (.slice _ xs) => xs.length
  | _ => 0

/-- the text of a string result (for the examples of `Proofs/C18.lean`) -/
def strOfRes : Res Cause GoVal → Bytes
  | .ok (.str s) => s
  | _ => []
