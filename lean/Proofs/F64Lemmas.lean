import Liquid.F64
/-!
# `roundFloat` is a projection (helper lemmas for `Proofs/C08.lean`)

`pow2` is `2^e` for integer `e`; the exponent `roundFloat` picks (`fexp1`) is THE integer `x` with
`2^(p-1) ≤ a / 2^x < 2^p` (`fexp1_spec`, `fexp_unique`: the estimate from the bit lengths of numerator and
denominator is off by at most one). So the result of rounding a positive rational is `0` or `m · 2^e` with
`0 < m < 2^p`, `emin ≤ e`, normalised unless `e = emin` (`roundFloat_rep`), and such a value rounds to itself
(`roundFloat_of_rep`): `roundFloat` is idempotent on its image.
-/


theorem pow2_eq_zpow (e : Int) : pow2 e = (2 : Rat) ^ e := by
  unfold pow2
  split
  · rename_i h
    have : e = (e.toNat : Int) := by omega
    conv => rhs; rw [this]
    rw [Rat.zpow_natCast, Rat.natCast_pow]; rfl
  · rename_i h
    have : e = -((-e).toNat : Int) := by omega
    conv => rhs; rw [this]
    rw [Rat.zpow_neg, Rat.zpow_natCast, Rat.natCast_pow, Rat.div_def, Rat.one_mul]; rfl

theorem pow2_pos (e : Int) : 0 < pow2 e := by
  rw [pow2_eq_zpow]; exact Rat.zpow_pos (by decide)

theorem pow2_ne_zero (e : Int) : pow2 e ≠ 0 := Rat.ne_of_gt (pow2_pos e)

theorem pow2_add (a b : Int) : pow2 (a + b) = pow2 a * pow2 b := by
  simp only [pow2_eq_zpow]; exact Rat.zpow_add (by decide) a b

theorem pow2_zero : pow2 0 = 1 := by rw [pow2_eq_zpow]; rfl
theorem pow2_one : pow2 1 = 2 := by rw [pow2_eq_zpow]; rfl

theorem pow2_natCast (n : Nat) : pow2 (n : Int) = ((2 ^ n : Nat) : Rat) := by
  unfold pow2; simp

theorem pow2_sub (a b : Int) : pow2 (a - b) = pow2 a / pow2 b := by
  have h := pow2_add (a - b) b
  rw [Int.sub_add_cancel] at h
  have := pow2_ne_zero b
  grind

theorem pow2_succ (a : Int) : pow2 (a + 1) = 2 * pow2 a := by
  rw [pow2_add, pow2_one, Rat.mul_comm]

theorem one_le_pow2 (n : Nat) : 1 ≤ pow2 (n : Int) := by
  rw [pow2_natCast]
  have : 1 ≤ 2 ^ n := Nat.one_le_two_pow
  have := (@Rat.natCast_le_natCast 1 (2^n)).2 this
  simpa using this

theorem pow2_le {a b : Int} (h : a ≤ b) : pow2 a ≤ pow2 b := by
  have hb : b = a + ((b - a).toNat : Int) := by omega
  rw [hb, pow2_add]
  have h1 := one_le_pow2 (b - a).toNat
  have h2 := pow2_pos a
  have := Rat.mul_le_mul_of_nonneg_left h1 (Rat.le_of_lt h2)
  simpa using this

theorem pow2_lt {a b : Int} (h : a < b) : pow2 a < pow2 b := by
  have h1 : pow2 (a + 1) ≤ pow2 b := pow2_le (by omega)
  rw [pow2_succ] at h1
  have := pow2_pos a
  grind

theorem pow2_lt_iff {a b : Int} : pow2 a < pow2 b ↔ a < b := by
  constructor
  · intro h
    apply Classical.byContradiction
    intro hn
    have := pow2_le (show b ≤ a by omega)
    grind
  · exact pow2_lt

theorem rat_eq_num_div_den (a : Rat) : a = (a.num : Rat) / ((a.den : Nat) : Rat) := by
  rw [← Rat.mkRat_eq_div, Rat.mkRat_self]

theorem rat_num_pos {a : Rat} (h : 0 < a) : 0 < a.num := by
  have h1 : 0 ≤ a.num := Rat.num_nonneg.2 (Rat.le_of_lt h)
  have h2 : a.num ≠ 0 := fun h0 => Rat.ne_of_gt h (Rat.num_eq_zero.1 h0)
  omega

/-- a positive rational as a quotient of positive naturals -/
theorem rat_pos_eq {a : Rat} (h : 0 < a) : a * ((a.den : Nat) : Rat) = ((a.num.natAbs : Nat) : Rat) := by
  have hn := rat_num_pos h
  have h1 : ((a.num.natAbs : Nat) : Rat) = (a.num : Rat) := by
    rw [← Rat.intCast_natCast]; congr 1; omega
  have hd : ((a.den : Nat) : Rat) ≠ 0 := by
    simp [Rat.natCast_eq_zero_iff, a.den_nz]
  rw [h1]
  have := @Rat.div_mul_cancel (a.num : Rat) _ hd
  rwa [← rat_eq_num_div_den a] at this

def fexp0 (p : Nat) (a : Rat) : Int :=
  (Nat.log2 a.num.natAbs : Int) - (Nat.log2 a.den : Int) - (p - 1 : Int)

def fexp1 (p : Nat) (a : Rat) : Int :=
  if a / pow2 (fexp0 p a) < ((2 ^ (p - 1) : Nat) : Rat) then fexp0 p a - 1 else
  if a / pow2 (fexp0 p a) ≥ ((2 ^ p : Nat) : Rat) then fexp0 p a + 1 else fexp0 p a

theorem natCast_lt {a b : Nat} (h : a < b) : (a : Rat) < (b : Rat) := Rat.natCast_lt_natCast.2 h
theorem natCast_le {a b : Nat} (h : a ≤ b) : (a : Rat) ≤ (b : Rat) := Rat.natCast_le_natCast.2 h

theorem fexp0_bounds (p : Nat) (a : Rat) (ha : 0 < a) :
    pow2 ((p : Int) - 2) < a / pow2 (fexp0 p a) ∧ a / pow2 (fexp0 p a) < pow2 (p : Int) := by
  have hn : a.num.natAbs ≠ 0 := by have := rat_num_pos ha; omega
  have hd : a.den ≠ 0 := a.den_nz
  have hnl := natCast_le (Nat.log2_self_le hn)
  have hnu := natCast_lt (@Nat.lt_log2_self a.num.natAbs)
  have hdl := natCast_le (Nat.log2_self_le hd)
  have hdu := natCast_lt (@Nat.lt_log2_self a.den)
  rw [← pow2_natCast] at hnl hnu hdl hdu
  have heq := rat_pos_eq ha
  have he0 : fexp0 p a = (Nat.log2 a.num.natAbs : Int) - (Nat.log2 a.den : Int) - ((p : Int) - 1) := rfl
  rw [he0]
  generalize Nat.log2 a.num.natAbs = ln at *
  generalize Nat.log2 a.den = ld at *
  generalize ((a.num.natAbs : Nat) : Rat) = N at *
  generalize ((a.den : Nat) : Rat) = D at *
  have hpe := pow2_pos ((ln : Int) - ld - ((p : Int) - 1))
  rw [Rat.lt_div_iff hpe, Rat.div_lt_iff hpe, ← pow2_add, ← pow2_add]
  have e1 : (p : Int) - 2 + ((ln : Int) - ld - ((p : Int) - 1)) = (ln : Int) - ((ld : Int) + 1) := by omega
  have e2 : (p : Int) + ((ln : Int) - ld - ((p : Int) - 1)) = ((ln : Int) + 1) - (ld : Int) := by omega
  rw [e1, e2, pow2_sub, pow2_sub]
  have hp1 := pow2_pos ((ld : Int) + 1)
  have hp2 := pow2_pos (ld : Int)
  rw [Rat.div_lt_iff hp1, Rat.lt_div_iff hp2]
  push_cast at hnu hdu
  have hapos := ha
  constructor
  · -- pow2 ln ≤ N = a * D < a * pow2 (ld+1)
    have := Rat.mul_lt_mul_of_pos_left hdu ha
    grind
  · have := Rat.mul_le_mul_of_nonneg_left hdl (Rat.le_of_lt ha)
    grind

theorem div_two_mul (a x : Rat) (hx : x ≠ 0) : a / (2 * x) = a / x / 2 := by grind

theorem fexp1_spec (p : Nat) (hp : 1 ≤ p) (a : Rat) (ha : 0 < a) :
    pow2 ((p : Int) - 1) ≤ a / pow2 (fexp1 p a) ∧ a / pow2 (fexp1 p a) < pow2 (p : Int) := by
  obtain ⟨hl, hu⟩ := fexp0_bounds p a ha
  have c1 : ((2 ^ (p - 1) : Nat) : Rat) = pow2 ((p : Int) - 1) := by
    rw [← pow2_natCast]; congr 1; omega
  have c2 : ((2 ^ p : Nat) : Rat) = pow2 (p : Int) := by rw [← pow2_natCast]
  unfold fexp1
  rw [c1, c2]
  split
  · rename_i h
    have e : pow2 (fexp0 p a) = 2 * pow2 (fexp0 p a - 1) := by
      rw [← pow2_succ]; congr 1; omega
    have e' : pow2 ((p : Int) - 1) = 2 * pow2 ((p : Int) - 2) := by
      rw [← pow2_succ]; congr 1; omega
    have e'' : pow2 (p : Int) = 2 * pow2 ((p : Int) - 1) := by
      rw [← pow2_succ]; congr 1; omega
    rw [e, div_two_mul _ _ (pow2_ne_zero _)] at hl hu h
    generalize a / pow2 (fexp0 p a - 1) = y at *
    generalize pow2 ((p : Int) - 2) = P2 at *
    generalize pow2 ((p : Int) - 1) = P1 at *
    generalize pow2 (p : Int) = P0 at *
    constructor
    · apply Rat.le_of_lt; grind
    · grind
  · rename_i h
    split
    · rename_i h2
      exact absurd hu (Rat.not_lt.2 h2)
    · exact ⟨Rat.not_lt.1 h, hu⟩

theorem fexp_unique (p : Nat) (a : Rat) (x y : Int)
    (hx1 : pow2 ((p : Int) - 1) ≤ a / pow2 x) (hx2 : a / pow2 x < pow2 (p : Int))
    (hy1 : pow2 ((p : Int) - 1) ≤ a / pow2 y) (hy2 : a / pow2 y < pow2 (p : Int)) : x = y := by
  have key : ∀ x y : Int, pow2 ((p : Int) - 1) ≤ a / pow2 y → a / pow2 x < pow2 (p : Int) → ¬ x < y := by
    intro x y h1 h2 hlt
    have hle : pow2 (x + 1) ≤ pow2 y := pow2_le (by omega)
    rw [pow2_succ] at hle
    have e'' : pow2 (p : Int) = 2 * pow2 ((p : Int) - 1) := by
      rw [← pow2_succ]; congr 1; omega
    have hpx := pow2_pos x
    have hpy := pow2_pos y
    have hpp := pow2_pos ((p : Int) - 1)
    rw [Rat.div_lt_iff hpx, e''] at h2
    -- P * pow2 y ≤ a
    have h1' : pow2 ((p : Int) - 1) * pow2 y ≤ a := by
      have := Rat.mul_le_mul_of_nonneg_right h1 (Rat.le_of_lt hpy)
      rwa [Rat.div_mul_cancel (pow2_ne_zero y)] at this
    have := Rat.mul_le_mul_of_nonneg_left hle (Rat.le_of_lt hpp)
    generalize pow2 ((p : Int) - 1) = P1 at *
    generalize pow2 x = X at *
    generalize pow2 y = Y at *
    grind
  have k1 := key x y hy1 hx2
  have k2 := key y x hx1 hy2
  omega

/-! ## roundHalfEven -/

theorem rat_half_pos : (0 : Rat) < 1 / 2 := by grind

theorem roundHalfEven_intCast (m : Int) : roundHalfEven (m : Rat) = m := by
  unfold roundHalfEven
  simp only [Rat.floor_intCast, Rat.sub_self, rat_half_pos, if_true]

theorem roundHalfEven_floor (q : Rat) : q.floor ≤ roundHalfEven q ∧ roundHalfEven q ≤ q.floor + 1 := by
  unfold roundHalfEven
  simp only
  split
  · omega
  · split
    · omega
    · split <;> omega

theorem roundHalfEven_ge (q : Rat) (lo : Int) (h : (lo : Rat) ≤ q) : lo ≤ roundHalfEven q := by
  have := (roundHalfEven_floor q).1
  have := Rat.le_floor_iff.2 h
  omega

theorem roundHalfEven_le (q : Rat) (hi : Int) (h : q < (hi : Rat)) : roundHalfEven q ≤ hi := by
  have := (roundHalfEven_floor q).2
  have := Rat.floor_lt_iff.2 h
  omega

/-! ## roundFloat on a positive argument -/

theorem roundFloat_pos (p : Nat) (emin emax : Int) (q : Rat) (hq : 0 < q) :
    roundFloat p emin emax q =
      (if (roundHalfEven (q / pow2 (if fexp1 p q < emin then emin else fexp1 p q)) : Rat) *
            pow2 (if fexp1 p q < emin then emin else fexp1 p q) ≥ pow2 emax then none
       else some ((roundHalfEven (q / pow2 (if fexp1 p q < emin then emin else fexp1 p q)) : Rat) *
            pow2 (if fexp1 p q < emin then emin else fexp1 p q))) := by
  have h0 : (q == 0) = false := by
    simp only [beq_eq_false_iff_ne, ne_eq]; exact Rat.ne_of_gt hq
  have h1 : ¬ q < 0 := Rat.not_lt.2 (Rat.le_of_lt hq)
  unfold roundFloat
  simp only [h0, Bool.false_eq_true, if_false, h1]
  rfl

/-! ## the shape of a rounded value -/

/-- `r = m · 2^e` is a positive value of the format: `0 < m < 2^p`, `emin ≤ e`, normalised (`2^(p-1) ≤ m`) unless
    `e = emin` (subnormal), below the overflow threshold -/
structure IsFloatRep (p : Nat) (emin emax : Int) (r : Rat) (m e : Int) : Prop where
  eq : r = (m : Rat) * pow2 e
  he : emin ≤ e
  mpos : 0 < m
  mlt : (m : Rat) < pow2 (p : Int)
  norm : pow2 ((p : Int) - 1) ≤ (m : Rat) ∨ e = emin
  lt : r < pow2 emax

theorem pow2_natCast_int (n : Nat) : pow2 (n : Int) = (((2 ^ n : Nat) : Int) : Rat) := by
  rw [pow2_natCast]; rfl

/-- a value with a representation rounds to itself -/
theorem roundFloat_of_rep (p : Nat) (hp : 1 ≤ p) (emin emax : Int) (r : Rat) (m e : Int)
    (h : IsFloatRep p emin emax r m e) : roundFloat p emin emax r = some r := by
  have hm : (0 : Rat) < (m : Rat) := Rat.intCast_pos.2 h.mpos
  have hr : 0 < r := by rw [h.eq]; exact Rat.mul_pos hm (pow2_pos e)
  have hdiv : r / pow2 e = (m : Rat) := by rw [h.eq]; exact Rat.mul_div_cancel (pow2_ne_zero e)
  obtain ⟨s1, s2⟩ := fexp1_spec p hp r hr
  have hexp : (if fexp1 p r < emin then emin else fexp1 p r) = e := by
    by_cases hn : pow2 ((p : Int) - 1) ≤ (m : Rat)
    · have : fexp1 p r = e := fexp_unique p r _ _ s1 s2 (by rw [hdiv]; exact hn) (by rw [hdiv]; exact h.mlt)
      rw [this]
      have := h.he
      split <;> omega
    · have he : e = emin := by rcases h.norm with h1 | h1; exact absurd h1 hn; exact h1
      have : fexp1 p r < emin := by
        apply Classical.byContradiction
        intro hge
        have hle : pow2 e ≤ pow2 (fexp1 p r) := pow2_le (by omega)
        have hp1 := pow2_pos (fexp1 p r)
        have hp2 := pow2_pos e
        have := Rat.not_le.1 hn
        rw [← hdiv, Rat.div_lt_iff hp2] at this
        have s1' : pow2 ((p : Int) - 1) * pow2 (fexp1 p r) ≤ r := by
          have := Rat.mul_le_mul_of_nonneg_right s1 (Rat.le_of_lt hp1)
          rwa [Rat.div_mul_cancel (pow2_ne_zero _)] at this
        have hpp := pow2_pos ((p : Int) - 1)
        have := Rat.mul_le_mul_of_nonneg_left hle (Rat.le_of_lt hpp)
        generalize pow2 ((p : Int) - 1) = P1 at *
        generalize pow2 (fexp1 p r) = X at *
        generalize pow2 e = Y at *
        grind
      simp only [this, if_true, he]
  rw [roundFloat_pos p emin emax r hr, hexp, hdiv, roundHalfEven_intCast, ← h.eq]
  have : ¬ r ≥ pow2 emax := Rat.not_le.2 h.lt
  simp only [this, if_false]

theorem pow2_pred_int (p : Nat) (hp : 1 ≤ p) : pow2 ((p : Int) - 1) = (((2 ^ (p - 1) : Nat) : Int) : Rat) := by
  rw [← pow2_natCast_int]; congr 1; omega

theorem two_pow_pred (p : Nat) (hp : 1 ≤ p) : 2 ^ p = 2 * 2 ^ (p - 1) := by
  have : p = (p - 1) + 1 := by omega
  conv => lhs; rw [this, Nat.pow_succ]
  omega

/-- the result of rounding a positive rational is `0` or has a representation -/
theorem roundFloat_rep (p : Nat) (hp : 1 ≤ p) (emin emax : Int) (q r : Rat) (hq : 0 < q)
    (h : roundFloat p emin emax q = some r) : r = 0 ∨ ∃ m e, IsFloatRep p emin emax r m e := by
  rw [roundFloat_pos p emin emax q hq] at h
  obtain ⟨s1, s2⟩ := fexp1_spec p hp q hq
  rw [pow2_pred_int p hp] at s1
  rw [pow2_natCast_int] at s2
  have hP : ((2 ^ p : Nat) : Int) = 2 * ((2 ^ (p - 1) : Nat) : Int) := by
    rw [two_pow_pred p hp]; push_cast; rfl
  have hPpos : 0 < ((2 ^ (p - 1) : Nat) : Int) := by
    have := @Nat.pow_pos 2 (p - 1) (by decide); omega
  by_cases hc : fexp1 p q < emin
  · simp only [hc, if_true] at h
    split at h
    · cases h
    rename_i hlt
    have hlt := Rat.not_le.1 hlt
    simp only [Option.some.injEq] at h
    -- subnormal range: the significand is below 2^(p-1)
    have hx : q / pow2 emin < (((2 ^ (p - 1) : Nat) : Int) : Rat) := by
      have hle : pow2 (fexp1 p q + 1) ≤ pow2 emin := pow2_le (by omega)
      rw [pow2_succ] at hle
      have hp1 := pow2_pos (fexp1 p q)
      have hp2 := pow2_pos emin
      rw [Rat.div_lt_iff hp1, hP] at s2
      rw [Rat.div_lt_iff hp2]
      have hPr : (0 : Rat) < (((2 ^ (p - 1) : Nat) : Int) : Rat) := Rat.intCast_pos.2 hPpos
      have := Rat.mul_le_mul_of_nonneg_left hle (Rat.le_of_lt hPr)
      push_cast at s2 this ⊢
      generalize ((2 ^ (p - 1) : Nat) : Rat) = P1 at *
      generalize pow2 (fexp1 p q) = X at *
      generalize pow2 emin = Y at *
      grind
    have hM1 := roundHalfEven_le _ _ hx
    have hx0 : ((0 : Int) : Rat) ≤ q / pow2 emin := by
      have := Rat.mul_pos hq (Rat.inv_pos.2 (pow2_pos emin))
      rw [← Rat.div_def] at this
      exact Rat.le_of_lt this
    have hM0 := roundHalfEven_ge _ _ hx0
    generalize roundHalfEven (q / pow2 emin) = M at *
    by_cases hz : M = 0
    · left; rw [← h, hz]; simp
    · right
      refine ⟨M, emin, ⟨h.symm, Int.le_refl _, by omega, ?_, Or.inr rfl, by rw [← h]; exact hlt⟩⟩
      rw [pow2_natCast_int]
      exact Rat.intCast_lt_intCast.2 (by omega)
  · simp only [hc, if_false] at h
    split at h
    · cases h
    rename_i hlt
    have hlt := Rat.not_le.1 hlt
    simp only [Option.some.injEq] at h
    have hM1 := roundHalfEven_le _ _ s2
    have hM0 := roundHalfEven_ge _ _ s1
    generalize roundHalfEven (q / pow2 (fexp1 p q)) = M at *
    right
    by_cases htop : M = ((2 ^ p : Nat) : Int)
    · -- the significand rounded up to 2^p: renormalise
      have hr : r = (((2 ^ (p - 1) : Nat) : Int) : Rat) * pow2 (fexp1 p q + 1) := by
        rw [← h, htop, hP, pow2_succ]; push_cast; grind
      refine ⟨((2 ^ (p - 1) : Nat) : Int), fexp1 p q + 1, ⟨hr, by omega, hPpos, ?_, Or.inl ?_, by rw [← h]; exact hlt⟩⟩
      · rw [pow2_natCast_int]; exact Rat.intCast_lt_intCast.2 (by omega)
      · rw [pow2_pred_int p hp]; exact Rat.le_refl
    · refine ⟨M, fexp1 p q, ⟨h.symm, by omega, by omega, ?_, Or.inl ?_, by rw [← h]; exact hlt⟩⟩
      · rw [pow2_natCast_int]; exact Rat.intCast_lt_intCast.2 (by omega)
      · rw [pow2_pred_int p hp]; exact Rat.intCast_le_intCast.2 hM0
