import Proofs.PostLemmas
import Proofs.RunLemmas
/-!
# Which variables a fragment can change (helper definitions and lemmas for C12)

`writesNode n` lists the names a node can leave changed: the targets of `assign` and `capture`,
`forloop` for a `cycle` tag (it updates the counters inside the record bound to `forloop`), and
what the bodies of a block write — except that a loop restores its own variable and `forloop`
when it ends, so those two are not counted for the loop's body. An `include` writes nothing: it
works on a copy. `keeps_renderNode` proves the list sound: every other variable has its old
value whenever the fragment returns.
-/

mutual
def writesNode : Node → List Bytes
  | .text _ _ => []
  | .obj _ _ => []
  | .raw _ => []
  | .trim _ => []
  | .assign _ x _ => [x]
  | .capture _ x body => x :: writesList body
  | .ifB _ branches => writesBranches branches
  | .caseB _ _ cases => writesCases cases
  | .loop _ _ var _ _ body clauses =>
    (writesList body).filter (fun y => y != var && y != nmForloop) ++ writesClauses clauses
  | .cycle _ _ _ _ => [nmForloop]
  | .brk _ => []
  | .cont _ => []
  | .incl _ _ => []
def writesList : List Node → List Bytes
  | [] => []
  | n :: ns => writesNode n ++ writesList ns
def writesBranches : List (CondT × List Node) → List Bytes
  | [] => []
  | (_, body) :: rest => writesList body ++ writesBranches rest
def writesCases : List (Option (Nat × List Expr) × List Node) → List Bytes
  | [] => []
  | (_, body) :: rest => writesList body ++ writesCases rest
def writesClauses : List (List Node) → List Bytes
  | [] => []
  | body :: rest => writesList body ++ writesClauses rest
end

theorem writesList_append (a b : List Node) : writesList (a ++ b) = writesList a ++ writesList b := by
  induction a with
  | nil => simp [writesList]
  | cons n ns ih => simp [writesList, ih, List.append_assoc]

/-- `m` leaves the variable `y` as it found it, whenever it returns -/
def KeepsM {α} (y : Bytes) (m : M α) : Prop := ∀ s, AllRet (fun r : α × RS => r.2.env.get y = s.env.get y) (m s)

theorem keepsM_bind {α β} {y : Bytes} {m : M α} {f : α → M β} (hm : KeepsM y m) (hf : ∀ a, KeepsM y (f a)) :
    KeepsM y (m >>= f) := by
  intro s
  refine AllRet.bind (hm s) (fun ⟨a, s1⟩ h1 => ?_)
  simp only at h1
  exact (hf a s1).mono (fun r hr => hr.trans h1)

theorem keepsM_pure {α} (y : Bytes) (a : α) : KeepsM y (pure a : M α) := fun _ => .ret _ rfl
theorem keepsM_fail {α} (y : Bytes) (e : RawErr) : KeepsM y (M.fail e : M α) := fun _ => .fail _
theorem keepsM_getEnv (y : Bytes) : KeepsM y M.getEnv := fun _ => .ret _ rfl
theorem keepsM_getVar (y x : Bytes) : KeepsM y (M.getVar x) := fun _ => .ret _ rfl
theorem keepsM_setVar (y x : Bytes) (v : GoVal) (h : y ≠ x) : KeepsM y (M.setVar x v) :=
  fun s => .ret _ (Env.get_set_other s.env x y v h)

theorem keepsM_ofRes {α} (y : Bytes) (r : Res Cause α) : KeepsM y (M.ofRes r) := by
  intro s
  cases r with
  | ok a => exact .ret _ rfl
  | err c => exact .fail _
  | panic w => exact .panic _
  | unmodelled w => exact .unmodelled _

theorem keepsM_mapFail {α} {y : Bytes} {m : M α} (g : RawErr → RawErr) (hm : KeepsM y m) : KeepsM y (M.mapFail g m) :=
  fun s => AllRet.mapFail g (hm s)

theorem keepsM_wrapFailAt {α} {y : Bytes} (path : Bytes) (loc : Loc) {m : M α} (hm : KeepsM y m) :
    KeepsM y (wrapFailAt path loc m) := keepsM_mapFail _ hm

theorem keepsM_wrapAt {y : Bytes} (path : Bytes) (loc : Loc) {m : M Status} (hm : KeepsM y m) :
    KeepsM y (wrapAt path loc m) := by
  rw [wrapAt_eq]
  exact keepsM_bind (keepsM_mapFail _ hm) (fun _ => keepsM_pure _ _)

theorem keepsM_flush (y : Bytes) : KeepsM y flushM := by
  intro s
  unfold flushM
  split
  · exact .ret _ rfl
  · exact .call _ _ (fun r => by cases r <;> first | exact .ret _ rfl | exact .fail _)

theorem keepsM_write (y : Bytes) (b : Bytes) : KeepsM y (writeM b) := by
  intro s
  unfold writeM
  simp only
  split
  · exact .ret _ rfl
  · exact .call _ _ (fun r => by cases r <;> first | exact .ret _ rfl | exact .fail _)

theorem keepsM_trimLeft (y : Bytes) : KeepsM y trimLeftM := by
  intro s
  exact .call _ _ (fun r => by cases r <;> first | exact .ret _ rfl | exact .fail _)

theorem keepsM_trimRight (y : Bytes) : KeepsM y trimRightM := fun _ => .ret _ rfl

theorem keepsM_writeVerbatim (y : Bytes) (b : Bytes) : KeepsM y (writeVerbatimM b) := by
  unfold writeVerbatimM
  exact keepsM_bind (keepsM_write y []) (fun _ => keepsM_bind (keepsM_write y b) (fun _ => keepsM_flush y))

theorem keepsM_writeAll (y : Bytes) : ∀ cs, KeepsM y (writeAllM cs)
  | [] => keepsM_pure _ ()
  | c :: cs => by
    unfold writeAllM
    exact keepsM_bind (keepsM_writeVerbatim y c) (fun _ => keepsM_writeAll y cs)

/-- what holds of every possible result holds of the result on a fault-free writer -/
theorem AllRet.runPure {α} {Q : α → Prop} {p : Prog α} (h : AllRet Q p) (out : Bytes) (a : α)
    (hr : p.runPure = (out, .ok a)) : Q a := by
  induction h generalizing out with
  | ret a' ha => simp [Prog.runPure] at hr; obtain ⟨_, rfl⟩ := hr; exact ha
  | fail e => simp [Prog.runPure] at hr
  | panic w => simp [Prog.runPure] at hr
  | unmodelled w => simp [Prog.runPure] at hr
  | call b k _ ih =>
    simp only [Prog.runPure] at hr
    rcases hk : (k .ok).runPure with ⟨o2, r2⟩
    rw [hk] at hr
    simp only [Prod.mk.injEq] at hr
    obtain ⟨_, rfl⟩ := hr
    exact ih .ok o2 hk

/-- a capture passes on the variables its body ends with -/
theorem keepsM_capture {α} {y : Bytes} {m : M α} (hm : KeepsM y m) : KeepsM y (captureM m) := by
  intro s
  unfold captureM
  simp only
  split
  · next out a s2 h =>
    refine .ret _ ?_
    have hp : AllRet (fun r : α × RS => r.2.env.get y = s.env.get y)
        ((m { env := s.env, tw := {} }).bind (fun (a, s1) => (flushM s1).bind (fun (_, s2) => .ret (a, s2)))) := by
      refine AllRet.bind (hm { env := s.env, tw := {} }) (fun ⟨a, s1⟩ h1 => ?_)
      simp only at h1
      refine AllRet.bind (keepsM_flush y s1) (fun ⟨_, s2⟩ h2 => .ret _ ?_)
      simp only at h2
      exact h2.trans h1
    exact hp.runPure _ _ h
  · exact .fail _
  · exact .panic _
  · exact .unmodelled _

theorem keepsM_tablerowBefore (y : Bytes) (cols i : Nat) : KeepsM y (tablerowBefore cols i) := by
  unfold tablerowBefore
  simp only [bind_pure_comp]
  split
  · exact keepsM_bind (keepsM_write y _) (fun _ => keepsM_write y _)
  · exact keepsM_bind (keepsM_pure y _) (fun _ => keepsM_write y _)

theorem keepsM_tablerowAfter (y : Bytes) (cols i l : Nat) : KeepsM y (tablerowAfter cols i l) := by
  unfold tablerowAfter
  refine keepsM_bind (keepsM_write y _) (fun _ => ?_)
  split
  · exact keepsM_write y _
  · exact keepsM_pure y _

theorem keepsM_evalCond (y : Bytes) (P : Prims) (path : Bytes) (t : CondT) : KeepsM y (evalCond P path t) := by
  unfold evalCond
  refine keepsM_bind (keepsM_getEnv y) (fun env => ?_)
  cases t with
  | always => exact keepsM_pure y _
  | expr line e => exact keepsM_wrapFailAt _ _ (keepsM_bind (keepsM_ofRes y _) (fun _ => keepsM_pure y _))
  | notExpr line e => exact keepsM_wrapFailAt _ _ (keepsM_bind (keepsM_ofRes y _) (fun _ => keepsM_pure y _))

theorem keepsM_intModifier (y : Bytes) (P : Prims) (e : Option Expr) (loc : Loc) : KeepsM y (intModifier P e loc) := by
  unfold intModifier
  cases e with
  | none => exact keepsM_pure y _
  | some ex =>
    refine keepsM_bind (keepsM_getEnv y) (fun env => keepsM_bind (keepsM_ofRes y _) (fun v => ?_))
    split
    · exact keepsM_pure y _
    · exact keepsM_fail y _

theorem keepsM_tablerowCols (y : Bytes) (P : Prims) (tr : Bool) (cols : Option Expr) (loc : Loc) :
    KeepsM y (tablerowCols P tr cols loc) := by
  unfold tablerowCols
  split
  · refine keepsM_bind (keepsM_intModifier y _ _ _) (fun cv => ?_)
    cases cv <;> exact keepsM_pure y _
  · exact keepsM_pure y _

theorem keepsM_iterate (y : Bytes) (var : Bytes) (cols : Option Nat) (body : M Status) (hb : KeepsM y body) (n : Nat)
    (h1 : y ≠ var) (h2 : y ≠ nmForloop) :
    ∀ xs i cyc, KeepsM y (iterateM var cols body n xs i cyc) := by
  intro xs
  induction xs with
  | nil => intro i cyc; exact keepsM_pure y _
  | cons x xs ih =>
    intro i cyc
    unfold iterateM
    refine keepsM_bind (keepsM_setVar y _ _ h1) (fun _ => keepsM_bind (keepsM_setVar y _ _ h2) (fun _ => ?_))
    refine keepsM_bind ?_ (fun _ => keepsM_bind hb (fun st => keepsM_bind ?_ (fun _ => keepsM_bind (keepsM_getVar y _) (fun cur => ?_))))
    · cases cols with
      | none => exact keepsM_pure y _
      | some c => exact keepsM_tablerowBefore y c i
    · cases cols with
      | none => exact keepsM_pure y _
      | some c => exact keepsM_tablerowAfter y c i n
    · cases st with
      | brk e => exact keepsM_pure y _
      | done => exact ih _ _
      | cont e => exact ih _ _

/-- the deferred restore of a loop, for the loop's own two variables (same statement as
    `loop_restores` of C12) -/
theorem loopIterate_restores (P : Prims) (loc : Loc) (tr : Bool) (var : Bytes) (colsE : Option Expr) (bodyM : M Status)
    (items : List GoVal) (s : RS) :
    AllRet (fun r : Status × RS =>
        r.2.env.get var = s.env.get var ∧ r.2.env.get nmForloop = s.env.get nmForloop)
      (loopIterate P loc tr var colsE bodyM items s) := by
  unfold loopIterate
  simp only [bind, M.bind]
  have hcols : AllRet (fun r : Option Nat × RS => r.2.env = s.env) (tablerowCols P tr colsE loc s) := by
    unfold tablerowCols
    split
    · simp only [bind, M.bind, intModifier]
      cases colsE with
      | none => exact .ret _ rfl
      | some ex =>
        simp only [bind, M.bind, M.getEnv, Prog.bind]
        cases evaluate P s.env ex with
        | ok v =>
          simp only [M.ofRes, pure, M.pure, Prog.bind]
          split
          · exact .ret _ rfl
          · exact .fail _
        | err e => exact .fail _
        | panic w => exact .panic _
        | unmodelled w => exact .unmodelled _
    · exact .ret _ rfl
  refine AllRet.bind hcols (fun ⟨cols, s1⟩ h1 => ?_)
  simp only at h1
  simp only [M.getVar, Prog.bind]
  refine AllRet.bind (AllRet.trivial _) (fun ⟨st, s2⟩ _ => ?_)
  simp only [restoreLoopVars, bind, M.bind, M.setVar, Prog.bind, pure, M.pure, h1]
  refine .ret _ ⟨?_, ?_⟩
  · exact Env.get_set_same _ _ _
  · by_cases hv : var = nmForloop
    · subst hv; rw [Env.get_set_same]
    · rw [Env.get_set_other _ _ _ _ (Ne.symm hv), Env.get_set_same]

theorem keepsM_loopIterate (y : Bytes) (P : Prims) (loc : Loc) (tr : Bool) (var : Bytes) (colsE : Option Expr)
    (bodyM : M Status) (hb : y ≠ var → y ≠ nmForloop → KeepsM y bodyM) (items : List GoVal) :
    KeepsM y (loopIterate P loc tr var colsE bodyM items) := by
  by_cases h1 : y = var
  · intro s
    exact (loopIterate_restores P loc tr var colsE bodyM items s).mono (fun r hr => h1 ▸ hr.1)
  by_cases h2 : y = nmForloop
  · intro s
    exact (loopIterate_restores P loc tr var colsE bodyM items s).mono (fun r hr => h2 ▸ hr.2)
  unfold loopIterate
  refine keepsM_bind (keepsM_tablerowCols y _ _ _ _) (fun cols => keepsM_bind (keepsM_getVar y _) (fun pl =>
    keepsM_bind (keepsM_getVar y _) (fun pv => keepsM_bind (keepsM_iterate y _ _ _ (hb h1 h2) _ h1 h2 _ _ _) (fun st =>
    keepsM_bind ?_ (fun _ => keepsM_pure y _)))))
  unfold restoreLoopVars
  exact keepsM_bind (keepsM_setVar y _ _ h2) (fun _ => keepsM_setVar y _ _ h1)

theorem keepsM_loopRun {budget : Int} (y : Bytes) (P : Prims) (path : Bytes) (loc : Loc) (tr : Bool) (var : Bytes) (e : Expr)
    (mods : LoopMods) {bodyM : M Status} (hb : y ≠ var → y ≠ nmForloop → KeepsM y bodyM) (tooMany : Bool)
    (elseM : Option (M Status)) (he : ∀ m, elseM = some m → KeepsM y m) :
    KeepsM y (loopRun budget P path loc tr var e mods bodyM tooMany elseM) := by
  unfold loopRun
  refine keepsM_wrapAt _ _ (keepsM_bind (keepsM_getEnv y) (fun env => keepsM_bind (keepsM_ofRes y _) (fun v =>
    keepsM_bind (keepsM_ofRes y _) (fun items0 => keepsM_bind (keepsM_intModifier y _ _ _) (fun off =>
    keepsM_bind (keepsM_intModifier y _ _ _) (fun lim => ?_))))))
  split
  · exact keepsM_fail y _
  · unfold loopDispatch
    split
    · next els => exact he _ rfl
    · exact keepsM_loopIterate y P loc tr var mods.cols bodyM hb _

theorem keepsM_inc (y : Bytes) (c : RCtx) (line : Nat) (f : Bytes) (env0 : Env) :
    KeepsM y (fun s => (c.inc line f env0).bind (fun r => .ret (r, s)) : M (Status × Bytes)) :=
  fun s => AllRet.bind (AllRet.trivial _) (fun _ _ => .ret _ rfl)

theorem not_mem_filter_loop {y var : Bytes} {l : List Bytes}
    (h : y ∉ l.filter (fun z => z != var && z != nmForloop)) (h1 : y ≠ var) (h2 : y ≠ nmForloop) : y ∉ l := by
  intro hm
  exact h (List.mem_filter.mpr ⟨hm, by simp [h1, h2]⟩)

/-! ## The frame theorem: a fragment changes only the variables it writes -/

mutual
theorem keeps_renderNode (c : RCtx) (y : Bytes) : ∀ n : Node, y ∉ writesNode n → KeepsM y (renderNode c n)
  | .text line src, _ => by
    unfold renderNode
    exact keepsM_wrapFailAt _ _ (keepsM_bind (keepsM_write y _) (fun _ => keepsM_pure y _))
  | .obj line e, _ => by
    unfold renderNode
    refine keepsM_wrapFailAt _ _ (keepsM_bind (keepsM_getEnv y) (fun env => keepsM_bind (keepsM_ofRes y _) (fun v => ?_)))
    split
    · exact keepsM_fail y _
    · exact keepsM_bind (keepsM_ofRes y _) (fun _ => keepsM_bind (keepsM_writeAll y _) (fun _ => keepsM_pure y _))
  | .raw slices, _ => by
    unfold renderNode
    exact keepsM_wrapFailAt _ _ (keepsM_bind (keepsM_writeAll y _) (fun _ => keepsM_pure y _))
  | .trim true, _ => by
    unfold renderNode
    exact keepsM_wrapFailAt _ _ (keepsM_bind (keepsM_trimLeft y) (fun _ => keepsM_pure y _))
  | .trim false, _ => by
    unfold renderNode
    exact keepsM_bind (keepsM_trimRight y) (fun _ => keepsM_pure y _)
  | .assign line x e, h => by
    unfold renderNode
    have hx : y ≠ x := by simpa [writesNode] using h
    exact keepsM_wrapFailAt _ _ (keepsM_bind (keepsM_getEnv y) (fun env => keepsM_bind (keepsM_ofRes y _)
      (fun v => keepsM_bind (keepsM_setVar y _ _ hx) (fun _ => keepsM_pure y _))))
  | .capture line x body, h => by
    unfold renderNode
    have hx : y ≠ x ∧ y ∉ writesList body := by simpa [writesNode] using h
    refine keepsM_wrapAt _ _ (keepsM_bind (keepsM_capture (keeps_renderList c y body hx.2)) (fun r => ?_))
    obtain ⟨st, out⟩ := r
    cases st with
    | done => exact keepsM_bind (keepsM_setVar y _ _ hx.1) (fun _ => keepsM_pure y _)
    | brk e => exact keepsM_pure y _
    | cont e => exact keepsM_pure y _
  | .ifB line branches, h => by
    unfold renderNode
    exact keepsM_wrapAt _ _ (keeps_renderBranches c y branches (by simpa [writesNode] using h))
  | .caseB line subject cases, h => by
    unfold renderNode
    exact keepsM_wrapAt _ _ (keepsM_bind (keepsM_getEnv y) (fun env => keepsM_bind (keepsM_ofRes y _)
      (fun sel => keeps_renderCases c y sel cases (by simpa [writesNode] using h))))
  | .loop line tablerow var e mods body clauses, h => by
    have h' : y ∉ (writesList body).filter (fun z => z != var && z != nmForloop) ∧ y ∉ writesClauses clauses := by
      simpa [writesNode] using h
    have hb : y ≠ var → y ≠ nmForloop → KeepsM y (renderBlockBody c body) :=
      fun h1 h2 => keeps_renderBlockBody c y body (not_mem_filter_loop h'.1 h1 h2)
    unfold renderNode
    simp only
    split
    · exact keepsM_loopRun y _ _ _ _ _ _ _ hb _ none (fun _ h => by cases h)
    · next els =>
      have hels : y ∉ writesList els := by
        have := h'.2
        simp only [writesClauses, List.append_nil] at this
        exact this
      exact keepsM_loopRun y _ _ _ _ _ _ _ hb _ (some _)
        (fun m h => by cases h; exact keeps_renderBlockBody c y els hels)
    · exact keepsM_loopRun y _ _ _ _ _ _ _ hb _ none (fun _ h => by cases h)
  | .cycle line group v0 rest, h => by
    unfold renderNode
    have hx : y ≠ nmForloop := by simpa [writesNode] using h
    refine keepsM_wrapFailAt _ _ (keepsM_bind (keepsM_getVar y _) (fun lv => ?_))
    split
    · exact keepsM_fail y _
    · exact keepsM_bind (keepsM_setVar y _ _ hx) (fun _ => keepsM_bind (keepsM_writeVerbatim y _) (fun _ => keepsM_pure y _))
  | .brk line, _ => by unfold renderNode; exact keepsM_pure y _
  | .cont line, _ => by unfold renderNode; exact keepsM_pure y _
  | .incl line args, _ => by
    unfold renderNode
    refine keepsM_wrapAt _ _ (keepsM_bind (keepsM_getEnv y) (fun env => keepsM_bind (keepsM_ofRes y _) (fun e =>
      keepsM_bind (keepsM_ofRes y _) (fun v => ?_))))
    split
    · next rel =>
      refine keepsM_bind (keepsM_inc y c _ _ _) (fun r => ?_)
      obtain ⟨st, out⟩ := r
      cases st with
      | done => exact keepsM_bind (keepsM_writeVerbatim y _) (fun _ => keepsM_pure y _)
      | brk e => exact keepsM_pure y _
      | cont e => exact keepsM_pure y _
    · exact keepsM_fail y _
theorem keeps_renderList (c : RCtx) (y : Bytes) : ∀ ns : List Node, y ∉ writesList ns → KeepsM y (renderList c ns)
  | [], _ => by unfold renderList; exact keepsM_pure y _
  | n :: ns, h => by
    have h' : y ∉ writesNode n ∧ y ∉ writesList ns := by simpa [writesList] using h
    unfold renderList
    refine keepsM_bind (keeps_renderNode c y n h'.1) (fun st => ?_)
    cases st with
    | done => exact keeps_renderList c y ns h'.2
    | brk e => exact keepsM_pure y _
    | cont e => exact keepsM_pure y _
theorem keeps_renderBlockBody (c : RCtx) (y : Bytes) (body : List Node) (h : y ∉ writesList body) :
    KeepsM y (renderBlockBody c body) := by
  unfold renderBlockBody
  refine keepsM_bind (keeps_renderList c y body h) (fun st => ?_)
  cases st with
  | done => exact keepsM_bind (keepsM_wrapFailAt _ _ (keepsM_flush y)) (fun _ => keepsM_pure y _)
  | brk e => exact keepsM_pure y _
  | cont e => exact keepsM_pure y _
theorem keeps_renderBranches (c : RCtx) (y : Bytes) :
    ∀ bs : List (CondT × List Node), y ∉ writesBranches bs → KeepsM y (renderBranches c bs)
  | [], _ => by unfold renderBranches; exact keepsM_pure y _
  | (t, body) :: rest, h => by
    have h' : y ∉ writesList body ∧ y ∉ writesBranches rest := by simpa [writesBranches] using h
    unfold renderBranches
    refine keepsM_bind (keepsM_evalCond y _ _ _) (fun b => ?_)
    split
    · exact keeps_renderBlockBody c y body h'.1
    · exact keeps_renderBranches c y rest h'.2
theorem keeps_renderCases (c : RCtx) (y : Bytes) (sel : GoVal) :
    ∀ cs : List (Option (Nat × List Expr) × List Node), y ∉ writesCases cs → KeepsM y (renderCases c sel cs)
  | [], _ => by unfold renderCases; exact keepsM_pure y _
  | (none, body) :: rest, h => by
    have h' : y ∉ writesList body ∧ y ∉ writesCases rest := by simpa [writesCases] using h
    unfold renderCases
    exact keeps_renderBlockBody c y body h'.1
  | (some (line, es), body) :: rest, h => by
    have h' : y ∉ writesList body ∧ y ∉ writesCases rest := by simpa [writesCases] using h
    unfold renderCases
    refine keepsM_bind (keepsM_wrapFailAt _ _ (keeps_whenMatches c y sel es)) (fun hit => ?_)
    split
    · exact keeps_renderBlockBody c y body h'.1
    · exact keeps_renderCases c y sel rest h'.2
theorem keeps_whenMatches (c : RCtx) (y : Bytes) (sel : GoVal) : ∀ es : List Expr, KeepsM y (whenMatches c sel es)
  | [] => by unfold whenMatches; exact keepsM_pure y _
  | e :: es => by
    unfold whenMatches
    refine keepsM_bind (keepsM_getEnv y) (fun env => keepsM_bind (keepsM_ofRes y _) (fun v =>
      keepsM_bind (keepsM_ofRes y _) (fun eq => ?_)))
    split
    · exact keepsM_pure y _
    · exact keeps_whenMatches c y sel es
end

/-! ## Operations that leave the variables untouched, and invariants of the variables -/

/-- `m` returns with exactly the variables it started with -/
def SameEnv {α} (m : M α) : Prop := ∀ s, AllRet (fun r : α × RS => r.2.env = s.env) (m s)

theorem sameEnv_bind {α β} {m : M α} {f : α → M β} (hm : SameEnv m) (hf : ∀ a, SameEnv (f a)) : SameEnv (m >>= f) := by
  intro s
  refine AllRet.bind (hm s) (fun ⟨a, s1⟩ h1 => ?_)
  simp only at h1
  exact (hf a s1).mono (fun r hr => hr.trans h1)

theorem sameEnv_pure {α} (a : α) : SameEnv (pure a : M α) := fun _ => .ret _ rfl
theorem sameEnv_fail {α} (e : RawErr) : SameEnv (M.fail e : M α) := fun _ => .fail _
theorem sameEnv_getEnv : SameEnv M.getEnv := fun _ => .ret _ rfl
theorem sameEnv_getVar (x : Bytes) : SameEnv (M.getVar x) := fun _ => .ret _ rfl
theorem sameEnv_ofRes {α} (r : Res Cause α) : SameEnv (M.ofRes r) := by
  intro s
  cases r with
  | ok a => exact .ret _ rfl
  | err c => exact .fail _
  | panic w => exact .panic _
  | unmodelled w => exact .unmodelled _
theorem sameEnv_mapFail {α} {m : M α} (g : RawErr → RawErr) (hm : SameEnv m) : SameEnv (M.mapFail g m) :=
  fun s => AllRet.mapFail g (hm s)
theorem sameEnv_wrapFailAt {α} (path : Bytes) (loc : Loc) {m : M α} (hm : SameEnv m) :
    SameEnv (wrapFailAt path loc m) := sameEnv_mapFail _ hm
theorem sameEnv_flush : SameEnv flushM := by
  intro s
  unfold flushM
  split
  · exact .ret _ rfl
  · exact .call _ _ (fun r => by cases r <;> first | exact .ret _ rfl | exact .fail _)
theorem sameEnv_write (b : Bytes) : SameEnv (writeM b) := by
  intro s
  unfold writeM
  simp only
  split
  · exact .ret _ rfl
  · exact .call _ _ (fun r => by cases r <;> first | exact .ret _ rfl | exact .fail _)
theorem sameEnv_tablerowBefore (cols i : Nat) : SameEnv (tablerowBefore cols i) := by
  unfold tablerowBefore
  simp only [bind_pure_comp]
  split
  · exact sameEnv_bind (sameEnv_write _) (fun _ => sameEnv_write _)
  · exact sameEnv_bind (sameEnv_pure _) (fun _ => sameEnv_write _)
theorem sameEnv_tablerowAfter (cols i l : Nat) : SameEnv (tablerowAfter cols i l) := by
  unfold tablerowAfter
  refine sameEnv_bind (sameEnv_write _) (fun _ => ?_)
  split
  · exact sameEnv_write _
  · exact sameEnv_pure _
theorem sameEnv_intModifier (P : Prims) (e : Option Expr) (loc : Loc) : SameEnv (intModifier P e loc) := by
  unfold intModifier
  cases e with
  | none => exact sameEnv_pure _
  | some ex =>
    refine sameEnv_bind sameEnv_getEnv (fun env => sameEnv_bind (sameEnv_ofRes _) (fun v => ?_))
    split
    · exact sameEnv_pure _
    · exact sameEnv_fail _
theorem sameEnv_tablerowCols (P : Prims) (tr : Bool) (cols : Option Expr) (loc : Loc) :
    SameEnv (tablerowCols P tr cols loc) := by
  unfold tablerowCols
  split
  · refine sameEnv_bind (sameEnv_intModifier _ _ _) (fun cv => ?_)
    cases cv <;> exact sameEnv_pure _
  · exact sameEnv_pure _

/-- `m` preserves the property `I` of the variables -/
def PresM {α} (I : Env → Prop) (m : M α) : Prop := ∀ s, I s.env → AllRet (fun r : α × RS => I r.2.env) (m s)

theorem presM_of_sameEnv {α} {I : Env → Prop} {m : M α} (h : SameEnv m) : PresM I m :=
  fun s hs => (h s).mono (fun r hr => by rw [hr]; exact hs)

theorem presM_bind {α β} {I : Env → Prop} {m : M α} {f : α → M β} (hm : PresM I m) (hf : ∀ a, PresM I (f a)) :
    PresM I (m >>= f) := by
  intro s hs
  exact AllRet.bind (hm s hs) (fun ⟨a, s1⟩ h1 => hf a s1 h1)

theorem presM_pure {α} (I : Env → Prop) (a : α) : PresM I (pure a : M α) := fun _ hs => .ret _ hs

/-- a property of the variables that does not look at the loop variable or `forloop` is an
    invariant of the iterations as soon as the body preserves it -/
theorem presM_iterate (I : Env → Prop) (var : Bytes) (cols : Option Nat) (body : M Status) (n : Nat)
    (hI : ∀ env y w, (y = var ∨ y = nmForloop) → (I (env.set y w) ↔ I env)) (hb : PresM I body) :
    ∀ xs i cyc, PresM I (iterateM var cols body n xs i cyc) := by
  intro xs
  induction xs with
  | nil => intro i cyc; exact presM_pure I _
  | cons x xs ih =>
    intro i cyc
    unfold iterateM
    have hset : ∀ y w, (y = var ∨ y = nmForloop) → PresM I (M.setVar y w) :=
      fun y w hy s hs => .ret _ ((hI s.env y w hy).mpr hs)
    refine presM_bind (hset _ _ (.inl rfl)) (fun _ => presM_bind (hset _ _ (.inr rfl)) (fun _ => ?_))
    refine presM_bind ?_ (fun _ => presM_bind hb (fun st => presM_bind ?_ (fun _ =>
      presM_bind (presM_of_sameEnv (sameEnv_getVar _)) (fun cur => ?_))))
    · cases cols with
      | none => exact presM_pure I _
      | some c => exact presM_of_sameEnv (sameEnv_tablerowBefore c i)
    · cases cols with
      | none => exact presM_pure I _
      | some c => exact presM_of_sameEnv (sameEnv_tablerowAfter c i n)
    · cases st with
      | brk e => exact presM_pure I _
      | done => exact ih _ _
      | cont e => exact ih _ _

theorem presM_loopIterate (I : Env → Prop) (P : Prims) (loc : Loc) (tr : Bool) (var : Bytes) (colsE : Option Expr)
    (bodyM : M Status) (hI : ∀ env y w, (y = var ∨ y = nmForloop) → (I (env.set y w) ↔ I env)) (hb : PresM I bodyM)
    (items : List GoVal) : PresM I (loopIterate P loc tr var colsE bodyM items) := by
  unfold loopIterate
  have hset : ∀ y w, (y = var ∨ y = nmForloop) → PresM I (M.setVar y w) :=
    fun y w hy s hs => .ret _ ((hI s.env y w hy).mpr hs)
  refine presM_bind (presM_of_sameEnv (sameEnv_tablerowCols _ _ _ _)) (fun cols =>
    presM_bind (presM_of_sameEnv (sameEnv_getVar _)) (fun pl => presM_bind (presM_of_sameEnv (sameEnv_getVar _)) (fun pv =>
    presM_bind (presM_iterate I var cols bodyM _ hI hb _ _ _) (fun st => presM_bind ?_ (fun _ => presM_pure I _)))))
  unfold restoreLoopVars
  exact presM_bind (hset _ _ (.inr rfl)) (fun _ => hset _ _ (.inl rfl))

/-- the iterations consume `break` and `continue` (same statement as `iterate_consumes` of C11) -/
theorem iterateM_done (var : Bytes) (cols : Option Nat) (body : M Status) (n : Nat) :
    ∀ xs i cyc s, AllRet (fun r : Status × RS => r.1 = .done) (iterateM var cols body n xs i cyc s) := by
  intro xs
  induction xs with
  | nil => intro i cyc s; exact .ret _ rfl
  | cons x xs ih =>
    intro i cyc s
    unfold iterateM
    simp only [bind, M.bind]
    refine AllRet.bind (AllRet.trivial _) (fun _ _ => AllRet.bind (AllRet.trivial _) (fun _ _ =>
      AllRet.bind (AllRet.trivial _) (fun _ _ => AllRet.bind (AllRet.trivial _) (fun r _ =>
      AllRet.bind (AllRet.trivial _) (fun _ _ => AllRet.bind (AllRet.trivial _) (fun _ _ => ?_))))))
    obtain ⟨st, s'⟩ := r
    cases st with
    | brk e => exact .ret _ rfl
    | done => exact ih _ _ _
    | cont e => exact ih _ _ _

/-- the status of a loop execution is always `done` -/
theorem loopIterate_done (P : Prims) (loc : Loc) (tr : Bool) (var : Bytes) (colsE : Option Expr) (bodyM : M Status)
    (items : List GoVal) (s : RS) :
    AllRet (fun r : Status × RS => r.1 = .done) (loopIterate P loc tr var colsE bodyM items s) := by
  unfold loopIterate
  simp only [bind, M.bind]
  refine AllRet.bind (AllRet.trivial _) (fun _ _ => AllRet.bind (AllRet.trivial _) (fun _ _ =>
    AllRet.bind (AllRet.trivial _) (fun _ _ => ?_)))
  refine AllRet.bind (iterateM_done _ _ _ _ _ _ _ _) (fun ⟨st, s2⟩ h => ?_)
  simp only at h
  subst h
  exact AllRet.bind (AllRet.trivial _) (fun _ _ => .ret _ rfl)

theorem AllRet.and {α} {Q R : α → Prop} {p : Prog α} (h1 : AllRet Q p) (h2 : AllRet R p) :
    AllRet (fun a => Q a ∧ R a) p := by
  induction h1 with
  | ret a ha => cases h2 with | ret _ hb => exact .ret a ⟨ha, hb⟩
  | fail e => exact .fail e
  | panic w => exact .panic w
  | unmodelled w => exact .unmodelled w
  | call b k _ ih => cases h2 with | call _ _ hk => exact .call _ _ (fun r => ih r (hk r))

/-! ## Postconditions on the variables that may depend on how a fragment ended -/

/-- how a fragment ended: normally, with `break`, with `continue` -/
inductive SK where
  | done | brk | cont
  deriving DecidableEq, Repr

def Status.kind : Status → SK
  | .done => .done
  | .brk _ => .brk
  | .cont _ => .cont

theorem Status.kind_wrap (path : Bytes) (loc : Loc) (st : Status) : (st.wrap path loc).kind = st.kind := by
  cases st <;> rfl

/-- a condition on the variables a fragment ends with, per kind of ending -/
abbrev EnvQ (Q : SK → Env → Prop) : Status × RS → Prop := fun r => Q r.1.kind r.2.env

theorem AllRet.wrapAt {Q : SK → Env → Prop} {path : Bytes} {loc : Loc} {m : M Status} {s : RS}
    (h : AllRet (EnvQ Q) (m s)) : AllRet (EnvQ Q) (wrapAt path loc m s) := by
  unfold _root_.wrapAt
  refine AllRet.bind (AllRet.mapFail _ h) (fun ⟨st, s'⟩ hr => .ret _ ?_)
  simp only [EnvQ, Status.kind_wrap]
  exact hr

/-- `m` returns in exactly the state it started in -/
def SameState {α} (m : M α) : Prop := ∀ s, AllRet (fun r : α × RS => r.2 = s) (m s)

theorem sameState_bind {α β} {m : M α} {f : α → M β} (hm : SameState m) (hf : ∀ a, SameState (f a)) :
    SameState (m >>= f) := by
  intro s
  refine AllRet.bind (hm s) (fun ⟨a, s1⟩ h1 => ?_)
  simp only at h1
  subst h1
  exact hf a s1

theorem sameState_pure {α} (a : α) : SameState (pure a : M α) := fun _ => .ret _ rfl
theorem sameState_fail {α} (e : RawErr) : SameState (M.fail e : M α) := fun _ => .fail _
theorem sameState_getEnv : SameState M.getEnv := fun _ => .ret _ rfl
theorem sameState_getVar (x : Bytes) : SameState (M.getVar x) := fun _ => .ret _ rfl
theorem sameState_ofRes {α} (r : Res Cause α) : SameState (M.ofRes r) := by
  intro s
  cases r with
  | ok a => exact .ret _ rfl
  | err c => exact .fail _
  | panic w => exact .panic _
  | unmodelled w => exact .unmodelled _
theorem sameState_intModifier (P : Prims) (e : Option Expr) (loc : Loc) : SameState (intModifier P e loc) := by
  unfold intModifier
  cases e with
  | none => exact sameState_pure _
  | some ex =>
    refine sameState_bind sameState_getEnv (fun env => sameState_bind (sameState_ofRes _) (fun v => ?_))
    split
    · exact sameState_pure _
    · exact sameState_fail _

/-- a loop node, reduced to what it does after its head (collection, items, offset, limit) has
    been evaluated — which changes nothing: for every possible item list `items`, the dispatch on
    it from the same state -/
theorem loopRun_post {budget : Int} (P : Prims) (path : Bytes) (loc : Loc) (tr : Bool) (var : Bytes) (e : Expr) (mods : LoopMods)
    (bodyM : M Status) (elseM : Option (M Status)) (s : RS) (Q : SK → Env → Prop)
    (h : ∀ items, AllRet (EnvQ Q) (loopDispatch P loc tr var mods.cols bodyM elseM items s)) :
    AllRet (EnvQ Q) (loopRun budget P path loc tr var e mods bodyM false elseM s) := by
  unfold loopRun
  refine AllRet.wrapAt ?_
  have hpre : SameState (do
      let env ← M.getEnv
      let v ← M.ofRes (evaluate P env e)
      let items0 ← M.ofRes (loopItems budget v)
      let off ← intModifier P mods.offset loc
      let lim ← intModifier P mods.limit loc
      pure (selectItems mods.reversed off lim items0) : M (List GoVal)) :=
    sameState_bind sameState_getEnv (fun env => sameState_bind (sameState_ofRes _) (fun v =>
      sameState_bind (sameState_ofRes _) (fun items0 => sameState_bind (sameState_intModifier _ _ _) (fun off =>
      sameState_bind (sameState_intModifier _ _ _) (fun lim => sameState_pure _)))))
  have hb := AllRet.bind (hpre s) (R := EnvQ Q)
    (f := fun r => loopDispatch P loc tr var mods.cols bodyM elseM r.1 r.2)
    (fun ⟨items, s1⟩ h1 => by simp only at h1; subst h1; exact h items)
  simp only [bind, M.bind, Prog.bind_assoc, pure, M.pure, Prog.bind, Bool.false_eq_true, if_false] at hb ⊢
  exact hb

/-! ## Pre/post-conditions on the variables -/

/-- from variables satisfying `I`, `m` returns with variables satisfying `J` -/
def Tri {α} (I : Env → Prop) (m : M α) (J : Env → Prop) : Prop :=
  ∀ s, I s.env → AllRet (fun r : α × RS => J r.2.env) (m s)

theorem tri_bind {α β} {I K J : Env → Prop} {m : M α} {f : α → M β} (hm : Tri I m K) (hf : ∀ a, Tri K (f a) J) :
    Tri I (m >>= f) J := by
  intro s hs
  exact AllRet.bind (hm s hs) (fun ⟨a, s1⟩ h1 => hf a s1 h1)

theorem tri_of_presM {α} {I : Env → Prop} {m : M α} (h : PresM I m) : Tri I m I := h

/-- a loop that visits at least one item: `I` before the loop, the body turns `I` into `J` and
    keeps `J`; then `J` holds after the iterations and the restore -/
theorem tri_iterate_cons (I J : Env → Prop) (var : Bytes) (cols : Option Nat) (body : M Status) (n : Nat)
    (hI : ∀ env y w, (y = var ∨ y = nmForloop) → (I (env.set y w) ↔ I env))
    (hJ : ∀ env y w, (y = var ∨ y = nmForloop) → (J (env.set y w) ↔ J env))
    (hfirst : Tri I body J) (hnext : Tri J body J) (x : GoVal) (xs : List GoVal) (i : Nat) (cyc) :
    Tri I (iterateM var cols body n (x :: xs) i cyc) J := by
  unfold iterateM
  have hset : ∀ y w, (y = var ∨ y = nmForloop) → Tri I (M.setVar y w) I :=
    fun y w hy s hs => .ret _ ((hI s.env y w hy).mpr hs)
  refine tri_bind (hset _ _ (.inl rfl)) (fun _ => tri_bind (hset _ _ (.inr rfl)) (fun _ => ?_))
  refine tri_bind (K := I) ?_ (fun _ => tri_bind hfirst (fun st => tri_bind (K := J) ?_ (fun _ =>
    tri_bind (tri_of_presM (presM_of_sameEnv (sameEnv_getVar _))) (fun cur => ?_))))
  · cases cols with
    | none => exact tri_of_presM (presM_pure I _)
    | some c => exact tri_of_presM (presM_of_sameEnv (sameEnv_tablerowBefore c i))
  · cases cols with
    | none => exact tri_of_presM (presM_pure J _)
    | some c => exact tri_of_presM (presM_of_sameEnv (sameEnv_tablerowAfter c i n))
  · cases st with
    | brk e => exact tri_of_presM (presM_pure J _)
    | done => exact tri_of_presM (presM_iterate J var cols body n hJ hnext _ _ _)
    | cont e => exact tri_of_presM (presM_iterate J var cols body n hJ hnext _ _ _)

theorem tri_loopIterate_cons (I J : Env → Prop) (P : Prims) (loc : Loc) (tr : Bool) (var : Bytes) (colsE : Option Expr)
    (bodyM : M Status)
    (hI : ∀ env y w, (y = var ∨ y = nmForloop) → (I (env.set y w) ↔ I env))
    (hJ : ∀ env y w, (y = var ∨ y = nmForloop) → (J (env.set y w) ↔ J env))
    (hfirst : Tri I bodyM J) (hnext : Tri J bodyM J) (x : GoVal) (xs : List GoVal) :
    Tri I (loopIterate P loc tr var colsE bodyM (x :: xs)) J := by
  unfold loopIterate
  have hset : ∀ y w, (y = var ∨ y = nmForloop) → Tri J (M.setVar y w) J :=
    fun y w hy s hs => .ret _ ((hJ s.env y w hy).mpr hs)
  refine tri_bind (tri_of_presM (presM_of_sameEnv (sameEnv_tablerowCols _ _ _ _))) (fun cols =>
    tri_bind (tri_of_presM (presM_of_sameEnv (sameEnv_getVar _))) (fun pl =>
    tri_bind (tri_of_presM (presM_of_sameEnv (sameEnv_getVar _))) (fun pv =>
    tri_bind (tri_iterate_cons I J var cols bodyM _ hI hJ hfirst hnext x xs _ _) (fun st =>
    tri_bind (K := J) ?_ (fun _ => tri_of_presM (presM_pure J _))))))
  unfold restoreLoopVars
  exact tri_bind (hset _ _ (.inr rfl)) (fun _ => hset _ _ (.inl rfl))
