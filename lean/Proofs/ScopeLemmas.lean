import Proofs.PostLemmas
import Proofs.RunLemmas
/-!
# Which variables a fragment can change (helper definitions and lemmas for C12)

`writesNode n` lists the names a node can leave changed: the targets of `assign` and `capture`,
`forloop` for a `cycle` tag (it updates the counters inside the record bound to `forloop`), and
what the bodies of a block write — except that a loop restores its own variable and `forloop`
when it ends, so those two are not counted for the loop's body. An `include` writes nothing: it
works on a copy. `keeps_renderNode` proves the list sound: every other variable has its old
value whenever the fragment returns.
-/

mutual
def writesNode : Node → List Bytes
  | .text _ _ => []
  | .obj _ _ => []
  | .raw _ => []
  | .trim _ => []
  | .assign _ x _ => [x]
  | .capture _ x body => x :: writesList body
  | .ifB _ branches => writesBranches branches
  | .caseB _ _ cases => writesCases cases
  | .loop _ _ var _ _ body clauses =>
    (writesList body).filter (fun y => y != var && y != nmForloop) ++ writesClauses clauses
  | .cycle _ _ _ _ => [nmForloop]
  | .brk _ => []
  | .cont _ => []
  | .incl _ _ => []
def writesList : List Node → List Bytes
  | [] => []
  | n :: ns => writesNode n ++ writesList ns
def writesBranches : List (CondT × List Node) → List Bytes
  | [] => []
  | (_, body) :: rest => writesList body ++ writesBranches rest
def writesCases : List (Option (Nat × List Expr) × List Node) → List Bytes
  | [] => []
  | (_, body) :: rest => writesList body ++ writesCases rest
def writesClauses : List (List Node) → List Bytes
  | [] => []
  | body :: rest => writesList body ++ writesClauses rest
end

theorem writesList_append (a b : List Node) : writesList (a ++ b) = writesList a ++ writesList b := by
  induction a with
  | nil => simp [writesList]
  | cons n ns ih => simp [writesList, ih, List.append_assoc]

/-- `m` leaves the variable `y` as it found it, whenever it returns -/
def KeepsM {α} (y : Bytes) (m : M α) : Prop := ∀ s, AllRet (fun r : α × RS => r.2.env.get y = s.env.get y) (m s)

theorem keepsM_bind {α β} {y : Bytes} {m : M α} {f : α → M β} (hm : KeepsM y m) (hf : ∀ a, KeepsM y (f a)) :
    KeepsM y (m >>= f) := by
  intro s
  refine AllRet.bind (hm s) (fun ⟨a, s1⟩ h1 => ?_)
  simp only at h1
  exact (hf a s1).mono (fun r hr => hr.trans h1)

theorem keepsM_pure {α} (y : Bytes) (a : α) : KeepsM y (pure a : M α) := fun _ => .ret _ rfl
theorem keepsM_fail {α} (y : Bytes) (e : RawErr) : KeepsM y (M.fail e : M α) := fun _ => .fail _
theorem keepsM_getEnv (y : Bytes) : KeepsM y M.getEnv := fun _ => .ret _ rfl
theorem keepsM_getVar (y x : Bytes) : KeepsM y (M.getVar x) := fun _ => .ret _ rfl
theorem keepsM_setVar (y x : Bytes) (v : GoVal) (h : y ≠ x) : KeepsM y (M.setVar x v) :=
  fun s => .ret _ (Env.get_set_other s.env x y v h)

theorem keepsM_ofRes {α} (y : Bytes) (r : Res Cause α) : KeepsM y (M.ofRes r) := by
  intro s
  cases r with
  | ok a => exact .ret _ rfl
  | err c => exact .fail _
  | panic w => exact .panic _
  | unmodelled w => exact .unmodelled _

theorem keepsM_mapFail {α} {y : Bytes} {m : M α} (g : RawErr → RawErr) (hm : KeepsM y m) : KeepsM y (M.mapFail g m) :=
  fun s => AllRet.mapFail g (hm s)

theorem keepsM_wrapFailAt {α} {y : Bytes} (path : Bytes) (loc : Loc) {m : M α} (hm : KeepsM y m) :
    KeepsM y (wrapFailAt path loc m) := keepsM_mapFail _ hm

theorem keepsM_wrapAt {y : Bytes} (path : Bytes) (loc : Loc) {m : M Status} (hm : KeepsM y m) :
    KeepsM y (wrapAt path loc m) := by
  rw [wrapAt_eq]
  exact keepsM_bind (keepsM_mapFail _ hm) (fun _ => keepsM_pure _ _)

theorem keepsM_flush (y : Bytes) : KeepsM y flushM := by
  intro s
  unfold flushM
  split
  · exact .ret _ rfl
  · exact .call _ _ (fun r => by cases r <;> first | exact .ret _ rfl | exact .fail _)

theorem keepsM_write (y : Bytes) (b : Bytes) : KeepsM y (writeM b) := by
  intro s
  unfold writeM
  simp only
  split
  · exact .ret _ rfl
  · exact .call _ _ (fun r => by cases r <;> first | exact .ret _ rfl | exact .fail _)

theorem keepsM_trimLeft (y : Bytes) : KeepsM y trimLeftM := by
  intro s
  exact .call _ _ (fun r => by cases r <;> first | exact .ret _ rfl | exact .fail _)

theorem keepsM_trimRight (y : Bytes) : KeepsM y trimRightM := fun _ => .ret _ rfl

theorem keepsM_writeAll (y : Bytes) : ∀ cs, KeepsM y (writeAllM cs)
  | [] => keepsM_pure _ ()
  | c :: cs => by
    unfold writeAllM
    exact keepsM_bind (keepsM_write y c) (fun _ => keepsM_writeAll y cs)

/-- what holds of every possible result holds of the result on a fault-free writer -/
theorem AllRet.runPure {α} {Q : α → Prop} {p : Prog α} (h : AllRet Q p) (out : Bytes) (a : α)
    (hr : p.runPure = (out, .ok a)) : Q a := by
  induction h generalizing out with
  | ret a' ha => simp [Prog.runPure] at hr; obtain ⟨_, rfl⟩ := hr; exact ha
  | fail e => simp [Prog.runPure] at hr
  | panic w => simp [Prog.runPure] at hr
  | unmodelled w => simp [Prog.runPure] at hr
  | call b k _ ih =>
    simp only [Prog.runPure] at hr
    rcases hk : (k .ok).runPure with ⟨o2, r2⟩
    rw [hk] at hr
    simp only [Prod.mk.injEq] at hr
    obtain ⟨_, rfl⟩ := hr
    exact ih .ok o2 hk

/-- a capture passes on the variables its body ends with -/
theorem keepsM_capture {α} {y : Bytes} {m : M α} (hm : KeepsM y m) : KeepsM y (captureM m) := by
  intro s
  unfold captureM
  simp only
  split
  · next out a s2 h =>
    refine .ret _ ?_
    have hp : AllRet (fun r : α × RS => r.2.env.get y = s.env.get y)
        ((m { env := s.env, tw := {} }).bind (fun (a, s1) => (flushM s1).bind (fun (_, s2) => .ret (a, s2)))) := by
      refine AllRet.bind (hm { env := s.env, tw := {} }) (fun ⟨a, s1⟩ h1 => ?_)
      simp only at h1
      refine AllRet.bind (keepsM_flush y s1) (fun ⟨_, s2⟩ h2 => .ret _ ?_)
      simp only at h2
      exact h2.trans h1
    exact hp.runPure _ _ h
  · exact .fail _
  · exact .panic _
  · exact .unmodelled _

theorem keepsM_tablerowBefore (y : Bytes) (cols i : Nat) : KeepsM y (tablerowBefore cols i) := by
  unfold tablerowBefore
  simp only [bind_pure_comp]
  split
  · exact keepsM_bind (keepsM_write y _) (fun _ => keepsM_write y _)
  · exact keepsM_bind (keepsM_pure y _) (fun _ => keepsM_write y _)

theorem keepsM_tablerowAfter (y : Bytes) (cols i l : Nat) : KeepsM y (tablerowAfter cols i l) := by
  unfold tablerowAfter
  refine keepsM_bind (keepsM_write y _) (fun _ => ?_)
  split
  · exact keepsM_write y _
  · exact keepsM_pure y _

theorem keepsM_evalCond (y : Bytes) (P : Prims) (path : Bytes) (t : CondT) : KeepsM y (evalCond P path t) := by
  unfold evalCond
  refine keepsM_bind (keepsM_getEnv y) (fun env => ?_)
  cases t with
  | always => exact keepsM_pure y _
  | expr line e => exact keepsM_wrapFailAt _ _ (keepsM_bind (keepsM_ofRes y _) (fun _ => keepsM_pure y _))
  | notExpr line e => exact keepsM_wrapFailAt _ _ (keepsM_bind (keepsM_ofRes y _) (fun _ => keepsM_pure y _))

theorem keepsM_intModifier (y : Bytes) (P : Prims) (e : Option Expr) (loc : Loc) : KeepsM y (intModifier P e loc) := by
  unfold intModifier
  cases e with
  | none => exact keepsM_pure y _
  | some ex =>
    refine keepsM_bind (keepsM_getEnv y) (fun env => keepsM_bind (keepsM_ofRes y _) (fun v => ?_))
    split
    · exact keepsM_pure y _
    · exact keepsM_fail y _

theorem keepsM_tablerowCols (y : Bytes) (P : Prims) (tr : Bool) (cols : Option Expr) (loc : Loc) :
    KeepsM y (tablerowCols P tr cols loc) := by
  unfold tablerowCols
  split
  · refine keepsM_bind (keepsM_intModifier y _ _ _) (fun cv => ?_)
    cases cv <;> exact keepsM_pure y _
  · exact keepsM_pure y _

theorem keepsM_iterate (y : Bytes) (var : Bytes) (cols : Option Nat) (body : M Status) (hb : KeepsM y body) (n : Nat)
    (h1 : y ≠ var) (h2 : y ≠ nmForloop) :
    ∀ xs i cyc, KeepsM y (iterateM var cols body n xs i cyc) := by
  intro xs
  induction xs with
  | nil => intro i cyc; exact keepsM_pure y _
  | cons x xs ih =>
    intro i cyc
    unfold iterateM
    refine keepsM_bind (keepsM_setVar y _ _ h1) (fun _ => keepsM_bind (keepsM_setVar y _ _ h2) (fun _ => ?_))
    refine keepsM_bind ?_ (fun _ => keepsM_bind hb (fun st => keepsM_bind ?_ (fun _ => keepsM_bind (keepsM_getVar y _) (fun cur => ?_))))
    · cases cols with
      | none => exact keepsM_pure y _
      | some c => exact keepsM_tablerowBefore y c i
    · cases cols with
      | none => exact keepsM_pure y _
      | some c => exact keepsM_tablerowAfter y c i n
    · cases st with
      | brk e => exact keepsM_pure y _
      | done => exact ih _ _
      | cont e => exact ih _ _

/-- the deferred restore of a loop, for the loop's own two variables (same statement as
    `loop_restores` of C12) -/
theorem loopIterate_restores (P : Prims) (loc : Loc) (tr : Bool) (var : Bytes) (colsE : Option Expr) (bodyM : M Status)
    (items : List GoVal) (s : RS) :
    AllRet (fun r : Status × RS =>
        r.2.env.get var = s.env.get var ∧ r.2.env.get nmForloop = s.env.get nmForloop)
      (loopIterate P loc tr var colsE bodyM items s) := by
  unfold loopIterate
  simp only [bind, M.bind]
  have hcols : AllRet (fun r : Option Nat × RS => r.2.env = s.env) (tablerowCols P tr colsE loc s) := by
    unfold tablerowCols
    split
    · simp only [bind, M.bind, intModifier]
      cases colsE with
      | none => exact .ret _ rfl
      | some ex =>
        simp only [bind, M.bind, M.getEnv, Prog.bind]
        cases evaluate P s.env ex with
        | ok v =>
          simp only [M.ofRes, pure, M.pure, Prog.bind]
          split
          · exact .ret _ rfl
          · exact .fail _
        | err e => exact .fail _
        | panic w => exact .panic _
        | unmodelled w => exact .unmodelled _
    · exact .ret _ rfl
  refine AllRet.bind hcols (fun ⟨cols, s1⟩ h1 => ?_)
  simp only at h1
  simp only [M.getVar, Prog.bind]
  refine AllRet.bind (AllRet.trivial _) (fun ⟨st, s2⟩ _ => ?_)
  simp only [restoreLoopVars, bind, M.bind, M.setVar, Prog.bind, pure, M.pure, h1]
  refine .ret _ ⟨?_, ?_⟩
  · exact Env.get_set_same _ _ _
  · by_cases hv : var = nmForloop
    · subst hv; rw [Env.get_set_same]
    · rw [Env.get_set_other _ _ _ _ (Ne.symm hv), Env.get_set_same]

theorem keepsM_loopIterate (y : Bytes) (P : Prims) (loc : Loc) (tr : Bool) (var : Bytes) (colsE : Option Expr)
    (bodyM : M Status) (hb : y ≠ var → y ≠ nmForloop → KeepsM y bodyM) (items : List GoVal) :
    KeepsM y (loopIterate P loc tr var colsE bodyM items) := by
  by_cases h1 : y = var
  · intro s
    exact (loopIterate_restores P loc tr var colsE bodyM items s).mono (fun r hr => h1 ▸ hr.1)
  by_cases h2 : y = nmForloop
  · intro s
    exact (loopIterate_restores P loc tr var colsE bodyM items s).mono (fun r hr => h2 ▸ hr.2)
  unfold loopIterate
  refine keepsM_bind (keepsM_tablerowCols y _ _ _ _) (fun cols => keepsM_bind (keepsM_getVar y _) (fun pl =>
    keepsM_bind (keepsM_getVar y _) (fun pv => keepsM_bind (keepsM_iterate y _ _ _ (hb h1 h2) _ h1 h2 _ _ _) (fun st =>
    keepsM_bind ?_ (fun _ => keepsM_pure y _)))))
  unfold restoreLoopVars
  exact keepsM_bind (keepsM_setVar y _ _ h2) (fun _ => keepsM_setVar y _ _ h1)

theorem keepsM_loopRun (y : Bytes) (P : Prims) (path : Bytes) (loc : Loc) (tr : Bool) (var : Bytes) (e : Expr)
    (mods : LoopMods) {bodyM : M Status} (hb : y ≠ var → y ≠ nmForloop → KeepsM y bodyM) (tooMany : Bool)
    (elseM : Option (M Status)) (he : ∀ m, elseM = some m → KeepsM y m) :
    KeepsM y (loopRun P path loc tr var e mods bodyM tooMany elseM) := by
  unfold loopRun
  refine keepsM_wrapAt _ _ (keepsM_bind (keepsM_getEnv y) (fun env => keepsM_bind (keepsM_ofRes y _) (fun v =>
    keepsM_bind (keepsM_ofRes y _) (fun items0 => keepsM_bind (keepsM_intModifier y _ _ _) (fun off =>
    keepsM_bind (keepsM_intModifier y _ _ _) (fun lim => ?_))))))
  split
  · exact keepsM_fail y _
  · unfold loopDispatch
    split
    · next els => exact he _ rfl
    · exact keepsM_loopIterate y P loc tr var mods.cols bodyM hb _

theorem keepsM_inc (y : Bytes) (c : RCtx) (line : Nat) (f : Bytes) (env0 : Env) :
    KeepsM y (fun s => (c.inc line f env0).bind (fun r => .ret (r, s)) : M (Status × Bytes)) :=
  fun s => AllRet.bind (AllRet.trivial _) (fun _ _ => .ret _ rfl)

theorem not_mem_filter_loop {y var : Bytes} {l : List Bytes}
    (h : y ∉ l.filter (fun z => z != var && z != nmForloop)) (h1 : y ≠ var) (h2 : y ≠ nmForloop) : y ∉ l := by
  intro hm
  exact h (List.mem_filter.mpr ⟨hm, by simp [h1, h2]⟩)

/-! ## The frame theorem: a fragment changes only the variables it writes -/

mutual
theorem keeps_renderNode (c : RCtx) (y : Bytes) : ∀ n : Node, y ∉ writesNode n → KeepsM y (renderNode c n)
  | .text line src, _ => by
    unfold renderNode
    exact keepsM_wrapFailAt _ _ (keepsM_bind (keepsM_write y _) (fun _ => keepsM_pure y _))
  | .obj line e, _ => by
    unfold renderNode
    refine keepsM_wrapFailAt _ _ (keepsM_bind (keepsM_getEnv y) (fun env => keepsM_bind (keepsM_ofRes y _) (fun v => ?_)))
    split
    · exact keepsM_fail y _
    · exact keepsM_bind (keepsM_ofRes y _) (fun _ => keepsM_bind (keepsM_writeAll y _) (fun _ => keepsM_pure y _))
  | .raw slices, _ => by
    unfold renderNode
    exact keepsM_wrapFailAt _ _ (keepsM_bind (keepsM_writeAll y _) (fun _ => keepsM_pure y _))
  | .trim true, _ => by
    unfold renderNode
    exact keepsM_wrapFailAt _ _ (keepsM_bind (keepsM_trimLeft y) (fun _ => keepsM_pure y _))
  | .trim false, _ => by
    unfold renderNode
    exact keepsM_bind (keepsM_trimRight y) (fun _ => keepsM_pure y _)
  | .assign line x e, h => by
    unfold renderNode
    have hx : y ≠ x := by simpa [writesNode] using h
    exact keepsM_wrapFailAt _ _ (keepsM_bind (keepsM_getEnv y) (fun env => keepsM_bind (keepsM_ofRes y _)
      (fun v => keepsM_bind (keepsM_setVar y _ _ hx) (fun _ => keepsM_pure y _))))
  | .capture line x body, h => by
    unfold renderNode
    have hx : y ≠ x ∧ y ∉ writesList body := by simpa [writesNode] using h
    refine keepsM_wrapAt _ _ (keepsM_bind (keepsM_capture (keeps_renderList c y body hx.2)) (fun r => ?_))
    obtain ⟨st, out⟩ := r
    cases st with
    | done => exact keepsM_bind (keepsM_setVar y _ _ hx.1) (fun _ => keepsM_pure y _)
    | brk e => exact keepsM_pure y _
    | cont e => exact keepsM_pure y _
  | .ifB line branches, h => by
    unfold renderNode
    exact keepsM_wrapAt _ _ (keeps_renderBranches c y branches (by simpa [writesNode] using h))
  | .caseB line subject cases, h => by
    unfold renderNode
    exact keepsM_wrapAt _ _ (keepsM_bind (keepsM_getEnv y) (fun env => keepsM_bind (keepsM_ofRes y _)
      (fun sel => keeps_renderCases c y sel cases (by simpa [writesNode] using h))))
  | .loop line tablerow var e mods body clauses, h => by
    have h' : y ∉ (writesList body).filter (fun z => z != var && z != nmForloop) ∧ y ∉ writesClauses clauses := by
      simpa [writesNode] using h
    have hb : y ≠ var → y ≠ nmForloop → KeepsM y (renderBlockBody c body) :=
      fun h1 h2 => keeps_renderBlockBody c y body (not_mem_filter_loop h'.1 h1 h2)
    unfold renderNode
    simp only
    split
    · exact keepsM_loopRun y _ _ _ _ _ _ _ hb _ none (fun _ h => by cases h)
    · next els =>
      have hels : y ∉ writesList els := by
        have := h'.2
        simp only [writesClauses, List.append_nil] at this
        exact this
      exact keepsM_loopRun y _ _ _ _ _ _ _ hb _ (some _)
        (fun m h => by cases h; exact keeps_renderBlockBody c y els hels)
    · exact keepsM_loopRun y _ _ _ _ _ _ _ hb _ none (fun _ h => by cases h)
  | .cycle line group v0 rest, h => by
    unfold renderNode
    have hx : y ≠ nmForloop := by simpa [writesNode] using h
    refine keepsM_wrapFailAt _ _ (keepsM_bind (keepsM_getVar y _) (fun lv => ?_))
    split
    · exact keepsM_fail y _
    · exact keepsM_bind (keepsM_setVar y _ _ hx) (fun _ => keepsM_bind (keepsM_write y _) (fun _ => keepsM_pure y _))
  | .brk line, _ => by unfold renderNode; exact keepsM_pure y _
  | .cont line, _ => by unfold renderNode; exact keepsM_pure y _
  | .incl line args, _ => by
    unfold renderNode
    refine keepsM_wrapAt _ _ (keepsM_bind (keepsM_getEnv y) (fun env => keepsM_bind (keepsM_ofRes y _) (fun e =>
      keepsM_bind (keepsM_ofRes y _) (fun v => ?_))))
    split
    · next rel =>
      refine keepsM_bind (keepsM_inc y c _ _ _) (fun r => ?_)
      obtain ⟨st, out⟩ := r
      cases st with
      | done => exact keepsM_bind (keepsM_write y _) (fun _ => keepsM_pure y _)
      | brk e => exact keepsM_pure y _
      | cont e => exact keepsM_pure y _
    · exact keepsM_fail y _
theorem keeps_renderList (c : RCtx) (y : Bytes) : ∀ ns : List Node, y ∉ writesList ns → KeepsM y (renderList c ns)
  | [], _ => by unfold renderList; exact keepsM_pure y _
  | n :: ns, h => by
    have h' : y ∉ writesNode n ∧ y ∉ writesList ns := by simpa [writesList] using h
    unfold renderList
    refine keepsM_bind (keeps_renderNode c y n h'.1) (fun st => ?_)
    cases st with
    | done => exact keeps_renderList c y ns h'.2
    | brk e => exact keepsM_pure y _
    | cont e => exact keepsM_pure y _
theorem keeps_renderBlockBody (c : RCtx) (y : Bytes) (body : List Node) (h : y ∉ writesList body) :
    KeepsM y (renderBlockBody c body) := by
  unfold renderBlockBody
  refine keepsM_bind (keeps_renderList c y body h) (fun st => ?_)
  cases st with
  | done => exact keepsM_bind (keepsM_wrapFailAt _ _ (keepsM_flush y)) (fun _ => keepsM_pure y _)
  | brk e => exact keepsM_pure y _
  | cont e => exact keepsM_pure y _
theorem keeps_renderBranches (c : RCtx) (y : Bytes) :
    ∀ bs : List (CondT × List Node), y ∉ writesBranches bs → KeepsM y (renderBranches c bs)
  | [], _ => by unfold renderBranches; exact keepsM_pure y _
  | (t, body) :: rest, h => by
    have h' : y ∉ writesList body ∧ y ∉ writesBranches rest := by simpa [writesBranches] using h
    unfold renderBranches
    refine keepsM_bind (keepsM_evalCond y _ _ _) (fun b => ?_)
    split
    · exact keeps_renderBlockBody c y body h'.1
    · exact keeps_renderBranches c y rest h'.2
theorem keeps_renderCases (c : RCtx) (y : Bytes) (sel : GoVal) :
    ∀ cs : List (Option (Nat × List Expr) × List Node), y ∉ writesCases cs → KeepsM y (renderCases c sel cs)
  | [], _ => by unfold renderCases; exact keepsM_pure y _
  | (none, body) :: rest, h => by
    have h' : y ∉ writesList body ∧ y ∉ writesCases rest := by simpa [writesCases] using h
    unfold renderCases
    exact keeps_renderBlockBody c y body h'.1
  | (some (line, es), body) :: rest, h => by
    have h' : y ∉ writesList body ∧ y ∉ writesCases rest := by simpa [writesCases] using h
    unfold renderCases
    refine keepsM_bind (keepsM_wrapFailAt _ _ (keeps_whenMatches c y sel es)) (fun hit => ?_)
    split
    · exact keeps_renderBlockBody c y body h'.1
    · exact keeps_renderCases c y sel rest h'.2
theorem keeps_whenMatches (c : RCtx) (y : Bytes) (sel : GoVal) : ∀ es : List Expr, KeepsM y (whenMatches c sel es)
  | [] => by unfold whenMatches; exact keepsM_pure y _
  | e :: es => by
    unfold whenMatches
    refine keepsM_bind (keepsM_getEnv y) (fun env => keepsM_bind (keepsM_ofRes y _) (fun v =>
      keepsM_bind (keepsM_ofRes y _) (fun eq => ?_)))
    split
    · exact keepsM_pure y _
    · exact keeps_whenMatches c y sel es
end
