import Proofs.HyphenLemmas
/-!
# Hyphens at template level: congruence along the renderer, the hyphen-free tree, whole renders

* congruence rules of `GPair` for every node constructor (generic in the relation);
* the pass over a tree and its hyphen-free version (`strip_list`);
* what `Render` outputs, read off a trace (`rootResult`, `renderRoot_of_traced`).
-/

/-! ## Congruence along the renderer -/

section cong
variable {W : Bytes → Prop} {R : List WOp → List WOp → Prop}

theorem gpair_ofRes_bind {α β} (hR : RelOK W R) (r : Res Cause α) (f f' : α → M β)
    (h : ∀ a, r = .ok a → GPair R (f a) (f' a)) : GPair R (M.ofRes r >>= f) (M.ofRes r >>= f') := by
  cases r with
  | ok a =>
    intro env
    obtain ⟨ops, ops', o, h1, h1', r1⟩ := h a rfl env
    exact ⟨ops, ops', o, h1, h1', r1⟩
  | err e =>
    intro env
    have h0 : ∀ g : α → M β, TracedAtL (M.ofRes (.err e) >>= g) env [] (.err (.plain e)) :=
      fun g => tracedAtL_bind_err (fun _ => rfl)
    exact ⟨[], [], _, h0 f, h0 f', hR.nil⟩
  | panic w =>
    intro env
    have h0 : ∀ g : α → M β, TracedAtL (M.ofRes (.panic w : Res Cause α) >>= g) env [] (.panic w) :=
      fun g => tracedAtL_bind_panic (fun _ => rfl)
    exact ⟨[], [], _, h0 f, h0 f', hR.nil⟩
  | unmodelled w =>
    intro env
    have h0 : ∀ g : α → M β, TracedAtL (M.ofRes (.unmodelled w : Res Cause α) >>= g) env [] (.unmodelled w) :=
      fun g => tracedAtL_bind_unmodelled (fun _ => rfl)
    exact ⟨[], [], _, h0 f, h0 f', hR.nil⟩

theorem gpair_inc_bind {β} (hR : RelOK W R) (c : RCtx) (hc : IncQuiet c) (line : Nat) (fn : Bytes) (env0 : Env)
    (k k' : Status × Bytes → M β) (h : ∀ r, c.inc line fn env0 = .ret r → GPair R (k r) (k' r)) :
    GPair R ((fun s => (c.inc line fn env0).bind (fun r => .ret (r, s)) : M (Status × Bytes)) >>= k)
      ((fun s => (c.inc line fn env0).bind (fun r => .ret (r, s)) : M (Status × Bytes)) >>= k') := by
  have hq := hc line fn env0
  cases hi : c.inc line fn env0 with
  | ret r =>
    intro env
    obtain ⟨ops, ops', o, h1, h1', r1⟩ := h r hi env
    exact ⟨ops, ops', o, h1, h1', r1⟩
  | fail e =>
    intro env
    have h0 : ∀ g : Status × Bytes → M β,
        TracedAtL ((fun s => (Prog.fail e : Prog (Status × Bytes)).bind (fun r => .ret (r, s)) : M (Status × Bytes)) >>= g)
          env [] (.err e) := fun g => tracedAtL_bind_err (fun _ => rfl)
    exact ⟨[], [], _, h0 k, h0 k', hR.nil⟩
  | panic w =>
    intro env
    have h0 : ∀ g : Status × Bytes → M β,
        TracedAtL ((fun s => (Prog.panic w : Prog (Status × Bytes)).bind (fun r => .ret (r, s)) : M (Status × Bytes)) >>= g)
          env [] (.panic w) := fun g => tracedAtL_bind_panic (fun _ => rfl)
    exact ⟨[], [], _, h0 k, h0 k', hR.nil⟩
  | unmodelled w =>
    intro env
    have h0 : ∀ g : Status × Bytes → M β,
        TracedAtL ((fun s => (Prog.unmodelled w : Prog (Status × Bytes)).bind (fun r => .ret (r, s)) : M (Status × Bytes)) >>= g)
          env [] (.unmodelled w) := fun g => tracedAtL_bind_unmodelled (fun _ => rfl)
    exact ⟨[], [], _, h0 k, h0 k', hR.nil⟩
  | call b k0 => rw [hi] at hq; exact absurd hq (by simp [NoCalls])

theorem gpair_list_nil (hR : RelOK W R) (c : RCtx) : GPair R (renderList c []) (renderList c []) := by
  unfold renderList; exact gpair_quiet hR (quiet_pure _)

theorem gpair_list_cons (hR : RelOK W R) (c : RCtx) {n n' : Node} {ns ns' : List Node}
    (hn : GPair R (renderNode c n) (renderNode c n')) (hns : GPair R (renderList c ns) (renderList c ns')) :
    GPair R (renderList c (n :: ns)) (renderList c (n' :: ns')) := by
  unfold renderList
  refine gpair_bind hR hn (fun st => ?_)
  cases st with
  | done => exact hns
  | brk e => exact gpair_quiet hR (quiet_pure _)
  | cont e => exact gpair_quiet hR (quiet_pure _)

theorem gpair_blockBody (hR : RelOK W R) (c : RCtx) {b b' : List Node}
    (h : GPair R (renderList c b) (renderList c b')) : GPair R (renderBlockBody c b) (renderBlockBody c b') := by
  unfold renderBlockBody
  refine gpair_bind hR h (fun st => ?_)
  cases st with
  | done => exact gpair_bind hR (gpair_wrapFailAt _ _ (gpair_flush hR)) (fun _ => gpair_quiet hR (quiet_pure _))
  | brk e => exact gpair_quiet hR (quiet_pure _)
  | cont e => exact gpair_quiet hR (quiet_pure _)

theorem gpair_branches_nil (hR : RelOK W R) (c : RCtx) : GPair R (renderBranches c []) (renderBranches c []) := by
  unfold renderBranches; exact gpair_quiet hR (quiet_pure _)

theorem gpair_branches_cons (hR : RelOK W R) (c : RCtx) (t : CondT) {b b' : List Node}
    {rest rest' : List (CondT × List Node)} (hb : GPair R (renderBlockBody c b) (renderBlockBody c b'))
    (hr : GPair R (renderBranches c rest) (renderBranches c rest')) :
    GPair R (renderBranches c ((t, b) :: rest)) (renderBranches c ((t, b') :: rest')) := by
  unfold renderBranches
  refine gpair_bind hR (gpair_quiet hR (quiet_evalCond _ _ _)) (fun v => ?_)
  cases v with
  | true => exact hb
  | false => exact hr

theorem gpair_cases_nil (hR : RelOK W R) (c : RCtx) (sel : GoVal) : GPair R (renderCases c sel []) (renderCases c sel []) := by
  unfold renderCases; exact gpair_quiet hR (quiet_pure _)

theorem gpair_cases_else (c : RCtx) (sel : GoVal) {b b' : List Node}
    {rest rest' : List (Option (Nat × List Expr) × List Node)} (hb : GPair R (renderBlockBody c b) (renderBlockBody c b')) :
    GPair R (renderCases c sel ((none, b) :: rest)) (renderCases c sel ((none, b') :: rest')) := by
  unfold renderCases; exact hb

theorem gpair_cases_when (hR : RelOK W R) (c : RCtx) (sel : GoVal) (line : Nat) (es : List Expr) {b b' : List Node}
    {rest rest' : List (Option (Nat × List Expr) × List Node)} (hb : GPair R (renderBlockBody c b) (renderBlockBody c b'))
    (hr : GPair R (renderCases c sel rest) (renderCases c sel rest')) :
    GPair R (renderCases c sel ((some (line, es), b) :: rest)) (renderCases c sel ((some (line, es), b') :: rest')) := by
  unfold renderCases
  refine gpair_bind hR (gpair_quiet hR (quiet_wrapFailAt _ _ (quiet_whenMatches c sel es))) (fun v => ?_)
  cases v with
  | true => exact hb
  | false => exact hr

theorem gpair_node_ifB (hR : RelOK W R) (c : RCtx) (line : Nat) {bs bs' : List (CondT × List Node)}
    (h : GPair R (renderBranches c bs) (renderBranches c bs')) :
    GPair R (renderNode c (.ifB line bs)) (renderNode c (.ifB line bs')) := by
  unfold renderNode; exact gpair_wrapAt hR _ _ h

theorem gpair_node_caseB (hR : RelOK W R) (c : RCtx) (line : Nat) (subject : Expr)
    {cs cs' : List (Option (Nat × List Expr) × List Node)}
    (h : ∀ sel, GPair R (renderCases c sel cs) (renderCases c sel cs')) :
    GPair R (renderNode c (.caseB line subject cs)) (renderNode c (.caseB line subject cs')) := by
  unfold renderNode
  exact gpair_wrapAt hR _ _ (gpair_bind hR (gpair_quiet hR quiet_getEnv) (fun env =>
    gpair_bind hR (gpair_quiet hR (quiet_ofRes _)) (fun sel => h sel)))

/-- a capture node whose two bodies hand back the same text -/
theorem gpair_node_capture (hR : RelOK W R) (c : RCtx) (line : Nat) (x : Bytes) {b b' : List Node}
    (h : GPair R (captureM (renderList c b)) (captureM (renderList c b'))) :
    GPair R (renderNode c (.capture line x b)) (renderNode c (.capture line x b')) := by
  unfold renderNode
  refine gpair_wrapAt hR _ _ (gpair_bind hR h (fun r => ?_))
  obtain ⟨st, out⟩ := r
  cases st with
  | done => exact gpair_bind hR (gpair_quiet hR (quiet_setVar _ _)) (fun _ => gpair_quiet hR (quiet_pure _))
  | brk e => exact gpair_quiet hR (quiet_pure _)
  | cont e => exact gpair_quiet hR (quiet_pure _)

/-- two captured bodies with the same result whose operations give the same text from an empty trim writer -/
theorem gpair_capture {α} (hR : RelOK W R) (hT : ∀ ops ops', R ops ops' → twTotal {} ops = twTotal {} ops') {m m' : M α}
    (h : GPair R m m') : GPair R (captureM m) (captureM m') := by
  intro env
  obtain ⟨ops, ops', o, h1, h1', r⟩ := h env
  cases o with
  | ok a env' =>
    refine ⟨[], [], .ok (a, twTotal {} ops) env', fun tw => ?_, fun tw => ?_, hR.nil⟩
    · rw [captureM_of_traced m env env' ops a h1.toTracedAt tw]; rfl
    · rw [captureM_of_traced m' env env' ops' a h1'.toTracedAt tw, hT ops ops' r]; rfl
  | err e =>
    refine ⟨[], [], .err e, fun tw => ?_, fun tw => ?_, hR.nil⟩
    · rw [captureM_of_traced_err m env ops e h1.toTracedAt tw]; rfl
    · rw [captureM_of_traced_err m' env ops' e h1'.toTracedAt tw]; rfl
  | panic w =>
    refine ⟨[], [], .panic w, fun tw => ?_, fun tw => ?_, hR.nil⟩
    · rw [captureM_of_traced_panic m env ops w h1.toTracedAt tw]; rfl
    · rw [captureM_of_traced_panic m' env ops' w h1'.toTracedAt tw]; rfl
  | unmodelled w =>
    refine ⟨[], [], .unmodelled w, fun tw => ?_, fun tw => ?_, hR.nil⟩
    · rw [captureM_of_traced_unmodelled m env ops w h1.toTracedAt tw]; rfl
    · rw [captureM_of_traced_unmodelled m' env ops' w h1'.toTracedAt tw]; rfl

theorem gpair_node_loop0 (hR : RelOK W R) (hd : ∀ b, DecoChunk b → W b) (c : RCtx) (line : Nat) (tr : Bool) (var : Bytes)
    (e : Expr) (mods : LoopMods) {b b' : List Node} (hb : GPair R (renderBlockBody c b) (renderBlockBody c b')) :
    GPair R (renderNode c (.loop line tr var e mods b [])) (renderNode c (.loop line tr var e mods b' [])) := by
  unfold renderNode
  exact gpair_loopRun hR hd _ _ _ _ _ _ _ hb _ none none trivial

theorem gpair_node_loop1 (hR : RelOK W R) (hd : ∀ b, DecoChunk b → W b) (c : RCtx) (line : Nat) (tr : Bool) (var : Bytes)
    (e : Expr) (mods : LoopMods) {b b' els els' : List Node} (hb : GPair R (renderBlockBody c b) (renderBlockBody c b'))
    (he : GPair R (renderBlockBody c els) (renderBlockBody c els')) :
    GPair R (renderNode c (.loop line tr var e mods b [els])) (renderNode c (.loop line tr var e mods b' [els'])) := by
  unfold renderNode
  exact gpair_loopRun hR hd _ _ _ _ _ _ _ hb _ (some _) (some _) he

theorem gpair_node_loop2 (hR : RelOK W R) (hd : ∀ b, DecoChunk b → W b) (c : RCtx) (line : Nat) (tr : Bool) (var : Bytes)
    (e : Expr) (mods : LoopMods) {b b' : List Node} (c1 c2 c1' c2' : List Node) (r r' : List (List Node))
    (hb : GPair R (renderBlockBody c b) (renderBlockBody c b')) :
    GPair R (renderNode c (.loop line tr var e mods b (c1 :: c2 :: r)))
      (renderNode c (.loop line tr var e mods b' (c1' :: c2' :: r'))) := by
  unfold renderNode
  exact gpair_loopRun hR hd _ _ _ _ _ _ _ hb _ none none trivial

/-! ### nodes without a body -/

theorem gpair_node_text (hR : RelOK W R) (c : RCtx) (line : Nat) (s : Bytes) (hs : W s) :
    GPair R (renderNode c (.text line s)) (renderNode c (.text line s)) := by
  unfold renderNode
  exact gpair_wrapFailAt _ _ (gpair_bind hR (gpair_write hR s hs) (fun _ => gpair_quiet hR (quiet_pure _)))

theorem gpair_node_raw (hR : RelOK W R) (c : RCtx) (sl : List Bytes) (h0 : W []) (hs : ∀ b ∈ sl, W b) :
    GPair R (renderNode c (.raw sl)) (renderNode c (.raw sl)) := by
  unfold renderNode
  exact gpair_wrapFailAt _ _ (gpair_bind hR (gpair_writeAll hR h0 sl hs) (fun _ => gpair_quiet hR (quiet_pure _)))

theorem gpair_node_obj (hR : RelOK W R) (c : RCtx) (hx : CtxChunks W c) (line : Nat) (e : Expr) :
    GPair R (renderNode c (.obj line e)) (renderNode c (.obj line e)) := by
  unfold renderNode
  refine gpair_wrapFailAt _ _ (gpair_bind hR (gpair_quiet hR quiet_getEnv) (fun env =>
    gpair_bind hR (gpair_quiet hR (quiet_ofRes _)) (fun v => ?_)))
  split
  · exact gpair_quiet hR (quiet_fail _)
  · exact gpair_ofRes_bind hR _ _ _ (fun cs hcs =>
      gpair_bind hR (gpair_writeAll hR hx.emp cs (hx.obj v cs hcs)) (fun _ => gpair_quiet hR (quiet_pure _)))

theorem gpair_node_assign (hR : RelOK W R) (c : RCtx) (line : Nat) (x : Bytes) (e : Expr) :
    GPair R (renderNode c (.assign line x e)) (renderNode c (.assign line x e)) := by
  unfold renderNode
  exact gpair_quiet hR (quiet_wrapFailAt _ _ (quiet_bind quiet_getEnv (fun env => quiet_bind (quiet_ofRes _)
    (fun v => quiet_bind (quiet_setVar _ _) (fun _ => quiet_pure _)))))

theorem getD_mem_cons {α} (l : List α) (i : Nat) (d : α) : l.getD i d ∈ d :: l := by
  induction l generalizing i with
  | nil => simp
  | cons a l ih =>
    cases i with
    | zero => simp
    | succ i =>
      have := ih i
      simp only [List.getD_cons_succ]
      simp only [List.mem_cons] at this ⊢
      rcases this with h | h
      · exact .inl h
      · exact .inr (.inr h)

theorem gpair_node_cycle (hR : RelOK W R) (c : RCtx) (line : Nat) (g v0 : Bytes) (rest : List Bytes) (h0 : W [])
    (hs : ∀ b ∈ v0 :: rest, W b) : GPair R (renderNode c (.cycle line g v0 rest)) (renderNode c (.cycle line g v0 rest)) := by
  unfold renderNode
  refine gpair_wrapFailAt _ _ (gpair_bind hR (gpair_quiet hR (quiet_getVar _)) (fun lv => ?_))
  split
  · exact gpair_quiet hR (quiet_fail _)
  · refine gpair_bind hR (gpair_quiet hR (quiet_setVar _ _)) (fun _ =>
      gpair_bind hR (gpair_writeVerbatim hR h0 _ ?_) (fun _ => gpair_quiet hR (quiet_pure _)))
    have := getD_mem_cons (v0 :: rest) (cycleGet ‹_› g % (rest.length + 1)) v0
    rcases List.mem_cons.1 this with h | h
    · rw [h]; exact hs v0 (by simp)
    · exact hs _ h

theorem gpair_node_brk (hR : RelOK W R) (c : RCtx) (line : Nat) : GPair R (renderNode c (.brk line)) (renderNode c (.brk line)) := by
  unfold renderNode; exact gpair_quiet hR (quiet_pure _)

theorem gpair_node_cont (hR : RelOK W R) (c : RCtx) (line : Nat) : GPair R (renderNode c (.cont line)) (renderNode c (.cont line)) := by
  unfold renderNode; exact gpair_quiet hR (quiet_pure _)

theorem gpair_node_incl (hR : RelOK W R) (c : RCtx) (hc : IncQuiet c) (hx : CtxChunks W c) (line : Nat) (args : Bytes) :
    GPair R (renderNode c (.incl line args)) (renderNode c (.incl line args)) := by
  unfold renderNode
  refine gpair_wrapAt hR _ _ (gpair_bind hR (gpair_quiet hR quiet_getEnv) (fun env =>
    gpair_bind hR (gpair_quiet hR (quiet_ofRes _)) (fun e => gpair_bind hR (gpair_quiet hR (quiet_ofRes _)) (fun v => ?_))))
  split
  · next rel =>
    refine gpair_inc_bind hR c hc _ _ _ _ _ (fun r hr => ?_)
    obtain ⟨st, out⟩ := r
    cases st with
    | done => exact gpair_bind hR (gpair_writeVerbatim hR hx.emp out (hx.inc _ _ _ _ hr)) (fun _ => gpair_quiet hR (quiet_pure _))
    | brk e => exact gpair_quiet hR (quiet_pure _)
    | cont e => exact gpair_quiet hR (quiet_pure _)
  · exact gpair_quiet hR (quiet_fail _)

end cong

/-! ## The relation between a tree and its hyphen-free version -/

/-- `ops'` is `ops` without its trim operations, and every chunk written satisfies `V` -/
def HypRel (V : Bytes → Prop) (ops ops' : List WOp) : Prop := ops' = eraseTrims ops ∧ ∀ b, WOp.write b ∈ ops → V b

theorem eraseTrims_append (a b : List WOp) : eraseTrims (a ++ b) = eraseTrims a ++ eraseTrims b := by
  simp [eraseTrims, List.filter_append]

theorem hypRel_ok (V : Bytes → Prop) : RelOK V (HypRel V) where
  nil := ⟨rfl, by simp⟩
  app := by
    intro a a' b b' h1 h2
    refine ⟨by rw [eraseTrims_append, h1.1, h2.1], fun x hx => ?_⟩
    rcases List.mem_append.1 hx with hx | hx
    · exact h1.2 x hx
    · exact h2.2 x hx
  write := by
    intro b hb
    refine ⟨rfl, fun x hx => ?_⟩
    simp only [List.mem_singleton, WOp.write.injEq] at hx
    subst hx; exact hb
  flush := ⟨rfl, by simp⟩

theorem tracedAtL_trimNode (c : RCtx) (b : Bool) (env : Env) :
    TracedAtL (renderNode c (.trim b)) env [if b then .trimLeft else .trimRight] (.ok .done env) := by
  have hp : TracedAtL (pure Status.done : M Status) env [] (.ok .done env) := fun _ => rfl
  cases b with
  | true =>
    unfold renderNode
    have := tracedAtL_mapFail (fun e => RawErr.located (wrapError c.cfg.path e invalidLoc))
      (tracedAtL_bind_ok (f := fun _ => (pure Status.done : M Status)) (tracedAtL_trimLeft env) hp)
    simpa [wrapFailAt, EOut.mapErr] using this
  | false =>
    unfold renderNode
    simpa using tracedAtL_bind_ok (f := fun _ => (pure Status.done : M Status)) (tracedAtL_trimRight env) hp

/-- a hyphen in front of a sequence adds one trim operation to the left-hand trace -/
theorem gpair_list_skip (V : Bytes → Prop) (c : RCtx) (b : Bool) {ns ns' : List Node}
    (h : GPair (HypRel V) (renderList c ns) (renderList c ns')) :
    GPair (HypRel V) (renderList c (.trim b :: ns)) (renderList c ns') := by
  intro env
  obtain ⟨ops, ops', o, h1, h1', r⟩ := h env
  refine ⟨[if b then .trimLeft else .trimRight] ++ ops, ops', o, ?_, h1', ?_, ?_⟩
  · rw [renderList]
    exact tracedAtL_bind_ok (tracedAtL_trimNode c b env) h1
  · rw [r.1, eraseTrims_append]
    cases b <;> simp [eraseTrims]
  · intro x hx
    rcases List.mem_append.1 hx with hx | hx
    · cases b <;> simp at hx
    · exact r.2 x hx

theorem stripTrims_cons_of_ne (n : Node) (ns : List Node) (h : ∀ b, n ≠ .trim b) :
    stripTrims (n :: ns) = stripNode n :: stripTrims ns := by
  cases n with
  | trim b => exact absurd rfl (h b)
  | _ => simp [stripTrims]

section strip
set_option linter.unusedSectionVars false
variable (V : Bytes → Prop) (c : RCtx) (hc : IncQuiet c) (hx : CtxChunks V c)
include hc hx

mutual
theorem strip_node : ∀ n : Node, (∀ b, n ≠ .trim b) → capTrimFreeNode n = true → (∀ b ∈ litNode n, V b) →
    GPair (HypRel V) (renderNode c n) (renderNode c (stripNode n))
  | .text l s, _, _, hl => by
    rw [stripNode]; exact gpair_node_text (hypRel_ok V) c l s (hl s (by simp [litNode]))
  | .obj l e, _, _, _ => by
    rw [stripNode]; exact gpair_node_obj (hypRel_ok V) c hx l e
  | .raw sl, _, _, hl => by
    rw [stripNode]; exact gpair_node_raw (hypRel_ok V) c sl hx.emp (fun b hb => hl b (by simpa [litNode] using hb))
  | .trim b, hnt, _, _ => absurd rfl (hnt b)
  | .assign l x e, _, _, _ => by
    rw [stripNode]; exact gpair_node_assign (hypRel_ok V) c l x e
  | .capture l x body, _, hcap, _ => by
    simp only [capTrimFreeNode, Bool.not_eq_true'] at hcap
    rw [stripNode, stripTrims_of_noTrim body hcap]
    exact gpair_node_capture (hypRel_ok V) c l x (gpair_quiet (hypRel_ok V) (quiet_capture _))
  | .ifB l bs, _, hcap, hl => by
    simp only [capTrimFreeNode] at hcap
    rw [stripNode]
    exact gpair_node_ifB (hypRel_ok V) c l (strip_branches bs hcap (fun b hb => hl b (by simpa [litNode] using hb)))
  | .caseB l s cs, _, hcap, hl => by
    simp only [capTrimFreeNode] at hcap
    rw [stripNode]
    exact gpair_node_caseB (hypRel_ok V) c l s
      (fun sel => strip_cases sel cs hcap (fun b hb => hl b (by simpa [litNode] using hb)))
  | .loop l t v e m body [], _, hcap, hl => by
    simp only [capTrimFreeNode, Bool.and_eq_true] at hcap
    rw [stripNode, stripClauses]
    exact gpair_node_loop0 (hypRel_ok V) hx.deco c l t v e m
      (gpair_blockBody (hypRel_ok V) c (strip_list body hcap.1 (fun b hb => hl b (by simp [litNode, hb]))))
  | .loop l t v e m body [els], _, hcap, hl => by
    simp only [capTrimFreeNode, capTrimFreeClauses, Bool.and_eq_true] at hcap
    rw [stripNode, stripClauses, stripClauses]
    exact gpair_node_loop1 (hypRel_ok V) hx.deco c l t v e m
      (gpair_blockBody (hypRel_ok V) c (strip_list body hcap.1 (fun b hb => hl b (by simp [litNode, hb]))))
      (gpair_blockBody (hypRel_ok V) c (strip_list els hcap.2.1 (fun b hb => hl b (by simp [litNode, litClauses, hb]))))
  | .loop l t v e m body (c1 :: c2 :: r), _, hcap, hl => by
    simp only [capTrimFreeNode, Bool.and_eq_true] at hcap
    rw [stripNode, stripClauses, stripClauses]
    exact gpair_node_loop2 (hypRel_ok V) hx.deco c l t v e m _ _ _ _ _ _
      (gpair_blockBody (hypRel_ok V) c (strip_list body hcap.1 (fun b hb => hl b (by simp [litNode, hb]))))
  | .cycle l g v0 r, _, _, hl => by
    rw [stripNode]; exact gpair_node_cycle (hypRel_ok V) c l g v0 r hx.emp (fun b hb => hl b (by simpa [litNode] using hb))
  | .brk l, _, _, _ => by rw [stripNode]; exact gpair_node_brk (hypRel_ok V) c l
  | .cont l, _, _, _ => by rw [stripNode]; exact gpair_node_cont (hypRel_ok V) c l
  | .incl l a, _, _, _ => by rw [stripNode]; exact gpair_node_incl (hypRel_ok V) c hc hx l a
theorem strip_list : ∀ ns : List Node, capTrimFree ns = true → (∀ b ∈ litChunks ns, V b) →
    GPair (HypRel V) (renderList c ns) (renderList c (stripTrims ns))
  | [], _, _ => by rw [stripTrims]; exact gpair_list_nil (hypRel_ok V) c
  | n :: ns, hcap, hl => by
    simp only [capTrimFree, Bool.and_eq_true] at hcap
    have hns := strip_list ns hcap.2 (fun b hb => hl b (by simp [litChunks, hb]))
    have hn := strip_node n
    cases n with
    | trim b => rw [stripTrims]; exact gpair_list_skip V c b hns
    | _ =>
      rw [stripTrims_cons_of_ne _ _ (by intro b h; cases h)]
      exact gpair_list_cons (hypRel_ok V) c
        (hn (by intro b h; cases h) hcap.1 (fun b hb => hl b (by simp [litChunks, hb]))) hns
theorem strip_branches : ∀ bs : List (CondT × List Node), capTrimFreeBranches bs = true → (∀ b ∈ litBranches bs, V b) →
    GPair (HypRel V) (renderBranches c bs) (renderBranches c (stripBranches bs))
  | [], _, _ => by rw [stripBranches]; exact gpair_branches_nil (hypRel_ok V) c
  | (t, body) :: rest, hcap, hl => by
    simp only [capTrimFreeBranches, Bool.and_eq_true] at hcap
    rw [stripBranches]
    exact gpair_branches_cons (hypRel_ok V) c t
      (gpair_blockBody (hypRel_ok V) c (strip_list body hcap.1 (fun b hb => hl b (by simp [litBranches, hb]))))
      (strip_branches rest hcap.2 (fun b hb => hl b (by simp [litBranches, hb])))
theorem strip_cases (sel : GoVal) : ∀ cs : List (Option (Nat × List Expr) × List Node), capTrimFreeCases cs = true →
    (∀ b ∈ litCases cs, V b) → GPair (HypRel V) (renderCases c sel cs) (renderCases c sel (stripCases cs))
  | [], _, _ => by rw [stripCases]; exact gpair_cases_nil (hypRel_ok V) c sel
  | (none, body) :: rest, hcap, hl => by
    simp only [capTrimFreeCases, Bool.and_eq_true] at hcap
    rw [stripCases]
    exact gpair_cases_else c sel
      (gpair_blockBody (hypRel_ok V) c (strip_list body hcap.1 (fun b hb => hl b (by simp [litCases, hb]))))
  | (some (line, es), body) :: rest, hcap, hl => by
    simp only [capTrimFreeCases, Bool.and_eq_true] at hcap
    rw [stripCases]
    exact gpair_cases_when (hypRel_ok V) c sel line es
      (gpair_blockBody (hypRel_ok V) c (strip_list body hcap.1 (fun b hb => hl b (by simp [litCases, hb]))))
      (strip_cases sel rest hcap.2 (fun b hb => hl b (by simp [litCases, hb])))
end

end strip

/-! ## What `Render` outputs, read off the trace of the root sequence -/

/-- the output and outcome of `Render` when the root sequence performs `ops` and ends with `o`:
    after a normal end comes the final flush; any other end leaves the pending text unwritten -/
def rootResult (ops : List WOp) : EOut Status → Bytes × Prog.Outcome Status
  | .ok .done _ => (runOps ops, .ok .done)
  | .ok st _ => ((TW.run {} ops).2.flatten, .ok st)
  | .err e => ((TW.run {} ops).2.flatten, .err e)
  | .panic w => ((TW.run {} ops).2.flatten, .panic w)
  | .unmodelled w => ((TW.run {} ops).2.flatten, .unmodelled w)

theorem renderRoot_of_traced (c : RCtx) (root : List Node) (env : Env) (ops : List WOp) (o : EOut Status)
    (h : TracedAt (renderList c root) env ops o) : (renderRoot c root env).runPure = rootResult ops o := by
  rw [renderRoot_eq_blockBody, Prog.runPure_bind]
  cases o with
  | ok st env' =>
    cases st with
    | done =>
      rw [tracedAt_blockBody_done c root env env' ops h {}]
      simp [EOut.withTw, Prog.runPure, rootResult, runOps]
    | brk e =>
      rw [tracedAt_blockBody_other c root env ops _ h (by intro _ h; cases h) {}]
      simp [EOut.withTw, Prog.runPure, rootResult]
    | cont e =>
      rw [tracedAt_blockBody_other c root env ops _ h (by intro _ h; cases h) {}]
      simp [EOut.withTw, Prog.runPure, rootResult]
  | err e =>
    rw [tracedAt_blockBody_other c root env ops _ h (by intro _ h; cases h) {}]
    simp [EOut.withTw, rootResult]
  | panic w =>
    rw [tracedAt_blockBody_other c root env ops _ h (by intro _ h; cases h) {}]
    simp [EOut.withTw, rootResult]
  | unmodelled w =>
    rw [tracedAt_blockBody_other c root env ops _ h (by intro _ h; cases h) {}]
    simp [EOut.withTw, rootResult]

theorem rootResult_snd (ops ops' : List WOp) (o : EOut Status) : (rootResult ops o).2 = (rootResult ops' o).2 := by
  cases o with
  | ok st env => cases st <;> rfl
  | _ => rfl

theorem rootResult_done (ops : List WOp) (o : EOut Status) (out : Bytes) (h : rootResult ops o = (out, .ok .done)) :
    (∃ env', o = .ok .done env') ∧ out = runOps ops := by
  cases o with
  | ok st env =>
    cases st with
    | done => simp only [rootResult, Prod.mk.injEq] at h; exact ⟨⟨env, rfl⟩, h.1.symm⟩
    | brk e => simp [rootResult] at h
    | cont e => simp [rootResult] at h
  | err e => simp [rootResult] at h
  | panic w => simp [rootResult] at h
  | unmodelled w => simp [rootResult] at h

/-! ## The underlying write calls of `Render`, read off the trace -/

theorem tracedAtL_blockBody_done (c : RCtx) (body : List Node) (env env' : Env) (ops : List WOp)
    (h : TracedAtL (renderList c body) env ops (.ok .done env')) :
    TracedAtL (renderBlockBody c body) env (ops ++ [.flush]) (.ok .done env') := by
  unfold renderBlockBody
  refine tracedAtL_bind_ok h ?_
  have h1 : TracedAtL (wrapFailAt c.cfg.path invalidLoc flushM) env' [.flush] (.ok () env') :=
    tracedAtL_mapFail _ (tracedAtL_flush env')
  have h2 : TracedAtL (pure Status.done : M Status) env' [] (.ok .done env') := fun _ => rfl
  exact tracedAtL_bind_ok (f := fun _ => (pure Status.done : M Status)) h1 h2

theorem tracedAtL_blockBody_other (c : RCtx) (body : List Node) (env : Env) (ops : List WOp) (o : EOut Status)
    (h : TracedAtL (renderList c body) env ops o) (hnd : ∀ env', o ≠ .ok .done env') :
    TracedAtL (renderBlockBody c body) env ops o := by
  unfold renderBlockBody
  cases o with
  | ok st env' =>
    cases st with
    | done => exact absurd rfl (hnd env')
    | brk e =>
      have h2 : TracedAtL (pure (Status.brk e) : M Status) env' [] (.ok (.brk e) env') := fun _ => rfl
      have := tracedAtL_bind_ok (f := fun st => match st with
        | Status.done => (do wrapFailAt c.cfg.path invalidLoc flushM; pure Status.done : M Status)
        | st => pure st) h h2
      rw [List.append_nil] at this
      exact this
    | cont e =>
      have h2 : TracedAtL (pure (Status.cont e) : M Status) env' [] (.ok (.cont e) env') := fun _ => rfl
      have := tracedAtL_bind_ok (f := fun st => match st with
        | Status.done => (do wrapFailAt c.cfg.path invalidLoc flushM; pure Status.done : M Status)
        | st => pure st) h h2
      rw [List.append_nil] at this
      exact this
  | err e => exact tracedAtL_bind_err h
  | panic w => exact tracedAtL_bind_panic h
  | unmodelled w => exact tracedAtL_bind_unmodelled h

/-- the calls `Render` makes on its writer when the root sequence performs `ops` and ends with `o` -/
def rootCalls (ops : List WOp) : EOut Status → List Bytes
  | .ok .done _ => writeCalls ops
  | _ => (TW.run {} ops).2

theorem renderRoot_calls_of_traced (c : RCtx) (root : List Node) (env : Env) (ops : List WOp) (o : EOut Status)
    (h : TracedAtL (renderList c root) env ops o) : (renderRoot c root env).calls = rootCalls ops o := by
  rw [← Prog.runLog_fst, renderRoot_eq_blockBody, Prog.runLog_bind]
  cases o with
  | ok st env' =>
    cases st with
    | done =>
      rw [tracedAtL_blockBody_done c root env env' ops h {}]
      simp [EOut.withTw, Prog.runLog, rootCalls, writeCalls]
    | brk e =>
      rw [tracedAtL_blockBody_other c root env ops _ h (by intro _ h; cases h) {}]
      simp [EOut.withTw, Prog.runLog, rootCalls]
    | cont e =>
      rw [tracedAtL_blockBody_other c root env ops _ h (by intro _ h; cases h) {}]
      simp [EOut.withTw, Prog.runLog, rootCalls]
  | err e =>
    rw [tracedAtL_blockBody_other c root env ops _ h (by intro _ h; cases h) {}]
    simp [EOut.withTw, rootCalls]
  | panic w =>
    rw [tracedAtL_blockBody_other c root env ops _ h (by intro _ h; cases h) {}]
    simp [EOut.withTw, rootCalls]
  | unmodelled w =>
    rw [tracedAtL_blockBody_other c root env ops _ h (by intro _ h; cases h) {}]
    simp [EOut.withTw, rootCalls]

/-! ## a tree without hyphens has none inside a capture -/

mutual
theorem capTrimFreeNode_of_noTrim : ∀ n : Node, hasTrimNode n = false → capTrimFreeNode n = true
  | .text _ _, _ => rfl
  | .obj _ _, _ => rfl
  | .raw _, _ => rfl
  | .trim _, _ => rfl
  | .assign _ _ _, _ => rfl
  | .capture _ _ body, h => by simp only [hasTrimNode] at h; simp [capTrimFreeNode, h]
  | .ifB _ bs, h => by
    simp only [hasTrimNode] at h; simp only [capTrimFreeNode]; exact capTrimFreeBranches_of_noTrim bs h
  | .caseB _ _ cs, h => by
    simp only [hasTrimNode] at h; simp only [capTrimFreeNode]; exact capTrimFreeCases_of_noTrim cs h
  | .loop _ _ _ _ _ body cls, h => by
    simp only [hasTrimNode, Bool.or_eq_false_iff] at h
    simp only [capTrimFreeNode, Bool.and_eq_true]
    exact ⟨capTrimFree_of_noTrim body h.1, capTrimFreeClauses_of_noTrim cls h.2⟩
  | .cycle _ _ _ _, _ => rfl
  | .brk _, _ => rfl
  | .cont _, _ => rfl
  | .incl _ _, _ => rfl
theorem capTrimFree_of_noTrim : ∀ ns : List Node, hasTrim ns = false → capTrimFree ns = true
  | [], _ => rfl
  | n :: ns, h => by
    simp only [hasTrim, Bool.or_eq_false_iff] at h
    simp only [capTrimFree, Bool.and_eq_true]
    exact ⟨capTrimFreeNode_of_noTrim n h.1, capTrimFree_of_noTrim ns h.2⟩
theorem capTrimFreeBranches_of_noTrim : ∀ bs : List (CondT × List Node), hasTrimBranches bs = false →
    capTrimFreeBranches bs = true
  | [], _ => rfl
  | (_, body) :: rest, h => by
    simp only [hasTrimBranches, Bool.or_eq_false_iff] at h
    simp only [capTrimFreeBranches, Bool.and_eq_true]
    exact ⟨capTrimFree_of_noTrim body h.1, capTrimFreeBranches_of_noTrim rest h.2⟩
theorem capTrimFreeCases_of_noTrim : ∀ cs : List (Option (Nat × List Expr) × List Node), hasTrimCases cs = false →
    capTrimFreeCases cs = true
  | [], _ => rfl
  | (_, body) :: rest, h => by
    simp only [hasTrimCases, Bool.or_eq_false_iff] at h
    simp only [capTrimFreeCases, Bool.and_eq_true]
    exact ⟨capTrimFree_of_noTrim body h.1, capTrimFreeCases_of_noTrim rest h.2⟩
theorem capTrimFreeClauses_of_noTrim : ∀ cls : List (List Node), hasTrimClauses cls = false → capTrimFreeClauses cls = true
  | [], _ => rfl
  | body :: rest, h => by
    simp only [hasTrimClauses, Bool.or_eq_false_iff] at h
    simp only [capTrimFreeClauses, Bool.and_eq_true]
    exact ⟨capTrimFree_of_noTrim body h.1, capTrimFreeClauses_of_noTrim rest h.2⟩
end

theorem eraseTrims_idem (ops : List WOp) : eraseTrims (eraseTrims ops) = eraseTrims ops := by
  simp [eraseTrims, List.filter_filter]

/-- every chunk allowed: the calculus then speaks about the operations only -/
theorem ctxChunks_true (c : RCtx) : CtxChunks (fun _ => True) c := ⟨trivial, fun _ _ _ _ _ => trivial, fun _ _ _ _ _ => trivial, fun _ _ => trivial⟩
