import Proofs.CaseTableLemmas
/-!
# The case tables of translator T6 (DESIGN 5.4): what the C16 theorems need of them

`Liquid/Generated/CaseTables.lean` is rewritten on every check run from `unicode.ToUpper` / `unicode.ToLower` of the
toolchain. Nothing here is proved rune by rune over the 1 114 112 code points: each fact is a *checker* over the few
hundred ranges (interval reasoning), proved correct for every table, and then evaluated on the generated tables by
the kernel (`decide +kernel`; the checkers are written with `Nat.ble` / `Nat.beq`, which the kernel computes on
literals directly). A toolchain with other tables either passes the same checkers — and every theorem downstream is
re-proved — or fails to build here, visibly (`case_tables_wellformed` is the obligation registered for C16 in
`checklib/props/__init__.py`; the translator names the failing fact in an `OBLIGATION … BROKEN` line).

* `case_tables_wellformed` — ranges non-empty, in ascending order, pairwise disjoint as intervals, inside
  U+0000..U+10FFFF, no range that moves nothing, alternating ranges of even span; every image interval consists of
  scalar values (does not touch the surrogates, stays below U+110000).
* `case_tables_idempotent` — no image of a range is hit by a range again.
* `case_tables_round_trip` — the exception list of `upper_lower_upper` is exact: a range of `ToLower` is undone by one range
  of `ToUpper`, or (title-case digraphs, the exceptions) its runes are tried one by one.
-/

/-- the exceptions are exceptions: each is kept by `ToUpper` and does not come back -/
def caseExceptionsExact : Bool :=
  upperLowerUpperExceptions.all fun u => Nat.beq (toUpperRune u) u && !Nat.beq (toUpperRune (toLowerRune u)) u

/-! ## the generated tables -/

/-- OBLIGATION (T6): both tables are well-formed and every image is a scalar value -/
theorem case_tables_wellformed : caseTableWf upperRanges = true ∧ caseTableWf lowerRanges = true := by
  constructor <;> decide +kernel

/-- OBLIGATION (T6): in both tables no image is moved again -/
theorem case_tables_idempotent : caseIdemCheck upperRanges = true ∧ caseIdemCheck lowerRanges = true := by
  constructor <;> decide +kernel

/-- OBLIGATION (T6): `upperLowerUpperExceptions` is exactly the set of upper-case runes that do not come back -/
theorem case_tables_round_trip :
    caseRoundTripCheck upperRanges lowerRanges upperLowerUpperExceptions = true ∧ caseExceptionsExact = true := by
  constructor <;> decide +kernel

/-! The checkers do reject: tables that are not sorted, that map into the surrogates, whose images are moved again (`a → b`,
`b → c`), or whose exception list misses a rune (`K → k → K`, the Kelvin sign U+212A). A toolchain whose tables had one of
these defects would fail the obligations above, not pass them vacuously. -/
example : caseTableWf [⟨0x62, 0x63, false, 0x42⟩, ⟨0x61, 0x61, false, 0x41⟩] = false := by decide +kernel
example : caseTableWf [⟨0x61, 0x63, false, 0xD7FF⟩] = false := by decide +kernel
example : caseTableWf [⟨0x61, 0x64, true, 0x41⟩] = false := by decide +kernel
example : caseIdemCheck [⟨0x61, 0x61, false, 0x62⟩, ⟨0x62, 0x62, false, 0x63⟩] = false := by decide +kernel
example : caseIdemCheck [⟨0x101, 0x12F, true, 0x100⟩, ⟨0x131, 0x131, false, 0x49⟩] = true := by decide +kernel
example : caseIdemCheck [⟨0x101, 0x12F, true, 0x103⟩] = false := by decide +kernel
example : caseRoundTripCheck [⟨0x6B, 0x6B, false, 0x4B⟩] [⟨0x4B, 0x4B, false, 0x6B⟩, ⟨0x212A, 0x212A, false, 0x6B⟩] [] = false := by
  decide +kernel
example : caseRoundTripCheck [⟨0x6B, 0x6B, false, 0x4B⟩] [⟨0x4B, 0x4B, false, 0x6B⟩, ⟨0x212A, 0x212A, false, 0x6B⟩] [0x212A] = true := by
  decide +kernel

theorem upperRanges_sorted : caseSorted upperRanges = true := by
  have := case_tables_wellformed.1
  simp only [caseTableWf, Bool.and_eq_true] at this
  exact this.2

theorem lowerRanges_sorted : caseSorted lowerRanges = true := by
  have := case_tables_wellformed.2
  simp only [caseTableWf, Bool.and_eq_true] at this
  exact this.2

