import Liquid.Generated.Filters
/-!
# Obligation of translator T2: the filter registry of the model is the registry of the source

`translate/filters` (go/types, nothing executed) writes `generatedFilterSigs`: one `FilterSig` per
`AddFilter(name, fn)` reachable from `filters.AddStandardFilters`, with the parameter types and the
result shape of `fn`. `filter_sigs_are_standard` re-checks on every run (kernel evaluation) that this
table and `stdFilters` — the table `lookupSig`, hence `applyFilter`, is defined on — are the same
registry: no name occurs twice in either, and each entry of one is an entry of the other. The order of
the registrations is irrelevant (in Go the dictionary is a map), so re-ordering the `AddFilter` calls
raises no alarm; a changed parameter type, a changed result shape, a new and a removed filter do.

`lookupSig_is_source` is the consequence the other theorems can use: looking a name up in the model's
table is looking it up in the extracted one.
-/

/-- no two entries have the same name -/
def namesDistinct : List FilterSig → Bool
  | [] => true
  | x :: xs => xs.all (fun y => !(y.name == x.name)) && namesDistinct xs

/-- two tables define the same registry -/
def sameRegistry (a b : List FilterSig) : Bool :=
  namesDistinct a && namesDistinct b && a.all (fun x => b.contains x) && b.all (fun x => a.contains x)

/-- lookup by name, as `lookupSig` does on `stdFilters` -/
def findSig (l : List FilterSig) (name : Bytes) : Option FilterSig := l.find? (·.name == name)

theorem namesDistinct_unique : ∀ (l : List FilterSig), namesDistinct l = true →
    ∀ x y, x ∈ l → y ∈ l → x.name = y.name → x = y := by
  intro l
  induction l with
  | nil => intro _ x y hx; cases hx
  | cons z zs ih =>
    intro h x y hx hy hn
    simp only [namesDistinct, Bool.and_eq_true, List.all_eq_true, Bool.not_eq_eq_eq_not, Bool.not_true,
      beq_eq_false_iff_ne, ne_eq] at h
    rcases List.mem_cons.1 hx with hxz | hx
    · rcases List.mem_cons.1 hy with hyz | hy
      · rw [hxz, hyz]
      · exact absurd (hxz ▸ hn.symm) (h.1 y hy)
    · rcases List.mem_cons.1 hy with hyz | hy
      · exact absurd (hyz ▸ hn) (h.1 x hx)
      · exact ih h.2 x y hx hy hn

theorem findSig_some_iff (l : List FilterSig) (hd : namesDistinct l = true) (name : Bytes) (x : FilterSig) :
    findSig l name = some x ↔ x ∈ l ∧ x.name = name := by
  constructor
  · intro h
    exact ⟨List.mem_of_find?_eq_some h, by simpa using List.find?_some h⟩
  · rintro ⟨hx, hn⟩
    cases hf : findSig l name with
    | none =>
      have := List.find?_eq_none.1 hf x hx
      simp [hn] at this
    | some y =>
      have hy := List.mem_of_find?_eq_some hf
      have hyn : y.name = name := by simpa using List.find?_some hf
      rw [namesDistinct_unique l hd y x hy hx (hyn.trans hn.symm)]

/-- tables that define the same registry answer every lookup alike -/
theorem sameRegistry_findSig (a b : List FilterSig) (h : sameRegistry a b = true) (name : Bytes) :
    findSig a name = findSig b name := by
  simp only [sameRegistry, Bool.and_eq_true, List.all_eq_true, List.contains_iff_mem] at h
  obtain ⟨⟨⟨ha, hb⟩, hab⟩, hba⟩ := h
  cases hf : findSig a name with
  | some x =>
    obtain ⟨hx, hn⟩ := (findSig_some_iff a ha name x).1 hf
    exact ((findSig_some_iff b hb name x).2 ⟨hab x hx, hn⟩).symm
  | none =>
    cases hg : findSig b name with
    | none => rfl
    | some y =>
      obtain ⟨hy, hn⟩ := (findSig_some_iff b hb name y).1 hg
      rw [(findSig_some_iff a ha name y).2 ⟨hba y hy, hn⟩] at hf
      cases hf

/-- **T2 obligation.** The signatures extracted from the `AddFilter` calls of `AddStandardFilters`
and the table of the model's call layer are the same registry. -/
theorem filter_sigs_are_standard : sameRegistry generatedFilterSigs stdFilters = true := by decide +kernel

/-- the name → signature map of the model is the one of the source, for every name (registered or not) -/
theorem lookupSig_is_source (name : Bytes) : lookupSig name = findSig generatedFilterSigs name :=
  (sameRegistry_findSig _ _ filter_sigs_are_standard name).symm

/-- a filter is defined for the model's evaluator exactly when the source registers it -/
theorem hasFilter_iff_registered (name : Bytes) :
    (lookupSig name).isSome = generatedFilterSigs.any (·.name == name) := by
  rw [lookupSig_is_source, findSig]
  induction generatedFilterSigs with
  | nil => rfl
  | cons x xs ih => cases hx : x.name == name <;> simp [List.find?, hx, ih]

/-- at present the two tables even list the filters in the same order -/
example : generatedFilterSigs = stdFilters := by decide +kernel

/-- `slice` as extracted: `func(string, int, func(int) int) string` -/
example : lookupSig [115, 108, 105, 99, 101] = some ⟨[115, 108, 105, 99, 101], [.val .str, .val .int, .fn .int], false⟩ := by
  rw [lookupSig_is_source]; decide +kernel

/-- a name the source does not register is undefined in the model: `nope` -/
example : lookupSig [110, 111, 112, 101] = none := by rw [lookupSig_is_source]; decide +kernel

/-- `sameRegistry` does see a changed parameter type (`slice` with a float64 start), a removed and a renamed entry -/
example : sameRegistry [⟨[115], [.val .str, .val .f64], false⟩] [⟨[115], [.val .str, .val .int], false⟩] = false := by decide
example : sameRegistry [⟨[115], [.val .str], false⟩] [⟨[115], [.val .str], false⟩, ⟨[116], [.val .str], false⟩] = false := by decide
example : sameRegistry [⟨[115], [.val .str], true⟩] [⟨[115], [.val .str], false⟩] = false := by decide
example : sameRegistry [⟨[115], [.val .str], false⟩, ⟨[116], [.val .any], false⟩]
    [⟨[116], [.val .any], false⟩, ⟨[115], [.val .str], false⟩] = true := by decide
