import Liquid.Generated.Filters
import Proofs.FilterSigsLemmas
/-!
# Obligation of translator T2: the filter registry of the model is the registry of the source

`translate/filters` (go/types, nothing executed) writes `generatedFilterSigs`: one `FilterSig` per
`AddFilter(name, fn)` reachable from `filters.AddStandardFilters`, with the parameter types and the
result shape of `fn`. `filter_sigs_are_standard` re-checks on every run (kernel evaluation) that this
table and `stdFilters` — the table `lookupSig`, hence `applyFilter`, is defined on — are the same
registry: no name occurs twice in either, and each entry of one is an entry of the other. The order of
the registrations is irrelevant (in Go the dictionary is a map), so re-ordering the `AddFilter` calls
raises no alarm; a changed parameter type, a changed result shape, a new and a removed filter do.

`lookupSig_is_source` is the consequence the other theorems can use: looking a name up in the model's
table is looking it up in the extracted one. `sameRegistry`, `findSig` and the lemma that equal registries
answer every lookup alike (`sameRegistry_findSig`) are in `Proofs/FilterSigsLemmas.lean`.
-/

/-- **T2 obligation.** The signatures extracted from the `AddFilter` calls of `AddStandardFilters`
and the table of the model's call layer are the same registry. -/
theorem filter_sigs_are_standard : sameRegistry generatedFilterSigs stdFilters = true := by decide +kernel

/-- the name → signature map of the model is the one of the source, for every name (registered or not) -/
theorem lookupSig_is_source (name : Bytes) : lookupSig name = findSig generatedFilterSigs name :=
  (sameRegistry_findSig _ _ filter_sigs_are_standard name).symm

/-- a filter is defined for the model's evaluator exactly when the source registers it -/
theorem hasFilter_iff_registered (name : Bytes) :
    (lookupSig name).isSome = generatedFilterSigs.any (·.name == name) := by
  rw [lookupSig_is_source, findSig]
  induction generatedFilterSigs with
  | nil => rfl
  | cons x xs ih => cases hx : x.name == name <;> simp [List.find?, hx, ih]

/-- `slice` as extracted: `func(string, int, func(int) int) string` -/
example : lookupSig [115, 108, 105, 99, 101] = some ⟨[115, 108, 105, 99, 101], [.val .str, .val .int, .fn .int], false⟩ := by
  rw [lookupSig_is_source]; decide +kernel

/-- a name the source does not register is undefined in the model: `nope` -/
example : lookupSig [110, 111, 112, 101] = none := by rw [lookupSig_is_source]; decide +kernel

/-- `sameRegistry` does see a changed parameter type (`slice` with a float64 start), a removed and a renamed entry -/
example : sameRegistry [⟨[115], [.val .str, .val .f64], false⟩] [⟨[115], [.val .str, .val .int], false⟩] = false := by decide
example : sameRegistry [⟨[115], [.val .str], false⟩] [⟨[115], [.val .str], false⟩, ⟨[116], [.val .str], false⟩] = false := by decide
example : sameRegistry [⟨[115], [.val .str], true⟩] [⟨[115], [.val .str], false⟩] = false := by decide
example : sameRegistry [⟨[115], [.val .str], false⟩, ⟨[116], [.val .any], false⟩]
    [⟨[116], [.val .any], false⟩, ⟨[115], [.val .str], false⟩] = true := by decide
