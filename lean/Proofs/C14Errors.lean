import Proofs.C07First
/-!
# C14 — errors that come out of an included file

`ctx.RenderFile` compiles the file with the include tag's `SourceLoc` (`c.node.SourceLoc`) and renders it with
`render.Render` into a buffer. Two consequences, both reproduced by the model and checked on the real code by the
`incl` and `errloc` streams:

* an error inside the file is a `parser.Error` whose PATH is the path the including template was parsed with —
  not the name of the included file — and whose LINE is the include tag's line plus the newlines of the file
  before the failing construct;
* the include tag's own `WrapError` returns such an error as it is (it has a line or a path), so it reaches the
  caller with that location, through every enclosing block of the including template.

Theorems about handler failures that are not located (missing file, read error, non-string argument) and about
parse errors in the file: Proofs/C14.lean (`include_missing_located`, `include_compile_err_located`, …).
-/

/-- the handler on a file that is found and compiles, whose render fails -/
theorem renderFileWith_render_err (P : Prims) (O : OutPrims) (cfg : Cfg) (fs : FS)
    (inner : Nat → Bytes → Env → Prog (Status × Bytes)) (line : Nat) (f : Bytes) (env : Env) (src : Bytes) (root : List Node)
    (out : Bytes) (e : RawErr)
    (hsrc : fileSource fs f = some src) (hc : compileSource cfg.delims src line = .ok root)
    (hr : (renderRoot { P := P, O := O, cfg := cfg, inc := inner } root env).runPure = (out, .err e)) :
    renderFileWith P O cfg fs inner line f env = .fail e := by
  unfold fileSource at hsrc
  unfold renderFileWith
  cases hrd : fs.read f with
  | content b =>
    simp only [hrd, Option.some.injEq] at hsrc
    subst hsrc
    simp only [hc, hr]
  | notExist =>
    simp only [hrd] at hsrc
    simp only [hsrc, hc, hr]
  | otherError => simp [hrd] at hsrc

/-- …whose render ends with a sentinel -/
theorem renderFileWith_render_sentinel (P : Prims) (O : OutPrims) (cfg : Cfg) (fs : FS)
    (inner : Nat → Bytes → Env → Prog (Status × Bytes)) (line : Nat) (f : Bytes) (env : Env) (src : Bytes) (root : List Node)
    (out : Bytes) (st : Status) (hst : st ≠ .done)
    (hsrc : fileSource fs f = some src) (hc : compileSource cfg.delims src line = .ok root)
    (hr : (renderRoot { P := P, O := O, cfg := cfg, inc := inner } root env).runPure = (out, .ok st)) :
    renderFileWith P O cfg fs inner line f env = .ret (st, []) := by
  unfold fileSource at hsrc
  unfold renderFileWith
  cases hrd : fs.read f with
  | content b =>
    simp only [hrd, Option.some.injEq] at hsrc
    subst hsrc
    cases st with
    | done => exact absurd rfl hst
    | brk eb => simp only [hc, hr]
    | cont eb => simp only [hc, hr]
  | notExist =>
    simp only [hrd] at hsrc
    cases st with
    | done => exact absurd rfl hst
    | brk eb => simp only [hsrc, hc, hr]
    | cont eb => simp only [hsrc, hc, hr]
  | otherError => simp [hrd] at hsrc

/-- a sentinel returned by the handler is handed on by the include node, re-wrapped at the tag -/
theorem include_sentinel_of_handler (c : RCtx) (line : Nat) (args : Bytes) (s : RS) (e : Expr) (rel out : Bytes) (st : Status)
    (he : parseExprSource args = .ok e) (hv : evaluate c.P s.env e = .ok (.str rel)) (hst : st ≠ .done)
    (hf : c.inc line (joinPath (dirPath c.cfg.path) rel) s.env = .ret (st, out)) :
    renderNode c (.incl line args) s = .ret (st.wrap c.cfg.path ⟨line, true⟩, s) := by
  rw [include_resolves c line args s e rel he hv]
  simp only [wrapAt, hf, Prog.bind]
  cases st with
  | done => exact absurd rfl hst
  | brk eb => rfl
  | cont eb => rfl

/-- **C14 (a render-time error inside the included file).** `{% include e %}` at line `line`, `e` evaluates to a
    string, the file is found (disk, else cache) and compiles — at the tag's line, with the includer's path — to
    `root`, and rendering `root` with the includer's current variables fails with `e'`. Then, for every include
    depth: `e'` is a located error `se`; it is located at the FIRST FAILING CONSTRUCT OF THE INCLUDED FILE
    (`firstFailure` on `root`: lines counted from the include tag's line, path flag of the including template);
    the include node fails with `WrapError(se, tag)`, which is `se` itself whenever `se` has a line or names a
    path — the error is NOT re-located at the include tag. -/
theorem include_render_err_located (P : Prims) (O : OutPrims) (cfg : Cfg) (fs : FS) (fuel : Nat) (line : Nat) (args : Bytes)
    (s : RS) (e : Expr) (rel src : Bytes) (root : List Node) (out : Bytes) (e' : RawErr)
    (he : parseExprSource args = .ok e) (hv : evaluate P s.env e = .ok (.str rel))
    (hsrc : fileSource fs (joinPath (dirPath cfg.path) rel) = some src)
    (hc : compileSource cfg.delims src line = .ok root)
    (hr : (renderRoot (mkCtx P O cfg fs fuel) root s.env).runPure = (out, .err e')) :
    ∃ se, e' = .located se ∧
      firstFailure (mkCtx P O cfg fs fuel) root s.env = some ⟨se.line, se.pathSet⟩ ∧
      renderNode (mkCtx P O cfg fs (fuel + 1)) (.incl line args) s =
        .fail (.located (wrapError cfg.path (.located se) ⟨line, true⟩)) ∧
      ((se.line ≠ 0 ∨ (se.pathSet = true ∧ cfg.path ≠ [])) →
        renderNode (mkCtx P O cfg fs (fuel + 1)) (.incl line args) s = .fail (.located se)) := by
  obtain ⟨_, hfin, _⟩ := sp_renderRoot (mkCtx P O cfg fs fuel) (incQuiet_mkCtx P O cfg fs fuel) root s.env
  have hf := hfin e' (Prog.pureFail_of_runPure _ _ _ hr)
  have hl := (located_traceRoot (mkCtx P O cfg fs fuel) root s.env).2
  cases e' with
  | plain cause => rw [hf] at hl; exact absurd rfl hl
  | located se =>
    have hh : (mkCtx P O cfg fs (fuel + 1)).inc line (joinPath (dirPath cfg.path) rel) s.env = .fail (.located se) := by
      exact renderFileWith_render_err P O cfg fs (incFuel P O cfg fs fuel) line _ s.env src root out _ hsrc hc hr
    obtain ⟨h1, h2⟩ := include_located_err_passes (mkCtx P O cfg fs (fuel + 1)) line args s e rel se he hv hh
    exact ⟨se, rfl, by simp [firstFailure, hf, RawErr.site], h1, h2⟩

/-- **C14 (a `break`/`continue` that comes out of the included file).** When the render of the file ends with a
    `break` that no loop of the file has consumed, the include node hands it on to the including template (where
    the innermost enclosing loop consumes it; without one it is the error "break outside a loop"), located at the
    `break` tag of the included file; nothing of the file is inserted. -/
theorem include_sentinel_passes (P : Prims) (O : OutPrims) (cfg : Cfg) (fs : FS) (fuel : Nat) (line : Nat) (args : Bytes)
    (s : RS) (e : Expr) (rel src : Bytes) (root : List Node) (out : Bytes) (st : Status)
    (he : parseExprSource args = .ok e) (hv : evaluate P s.env e = .ok (.str rel))
    (hsrc : fileSource fs (joinPath (dirPath cfg.path) rel) = some src)
    (hc : compileSource cfg.delims src line = .ok root)
    (hr : (renderRoot (mkCtx P O cfg fs fuel) root s.env).runPure = (out, .ok st)) (hst : st ≠ .done) :
    renderNode (mkCtx P O cfg fs (fuel + 1)) (.incl line args) s = .ret (st.wrap cfg.path ⟨line, true⟩, s) ∧
    (traceRoot (mkCtx P O cfg fs fuel) root s.env).fin = some st.site := by
  obtain ⟨_, _, hsent⟩ := sp_renderRoot (mkCtx P O cfg fs fuel) (incQuiet_mkCtx P O cfg fs fuel) root s.env
  refine ⟨?_, hsent st (Prog.pureRet_of_runPure _ _ _ hr) hst⟩
  exact include_sentinel_of_handler (mkCtx P O cfg fs (fuel + 1)) line args s e rel [] st he hv hst
    (renderFileWith_render_sentinel P O cfg fs (incFuel P O cfg fs fuel) line _ s.env src root out st hst hsrc hc hr)

/-- **C14 (which line, from the bytes of the included file).** Under the hypotheses of
    `include_render_err_located`, for an included file without an `include` tag of its own: the error `se` points
    at a token `t` of the FILE that is a tag or an object; `se.line` is the include tag's line plus the number of
    newline bytes of the file before `t` (the token sources partition the file); and `se.pathSet = true` — the
    error names the path of the INCLUDING template (`cfg.path`), since `RenderFile` compiles with the tag's
    `SourceLoc`. -/
theorem include_render_err_at_file_token (P : Prims) (O : OutPrims) (cfg : Cfg) (fs : FS) (fuel : Nat) (line : Nat)
    (env : Env) (src : Bytes) (root : List Node) (out : Bytes) (se : SErr)
    (hc : compileSource cfg.delims src line = .ok root)
    (hni : NoIncludeTag (scan cfg.delims src line))
    (hr : (renderRoot (mkCtx P O cfg fs fuel) root env).runPure = (out, .err (.located se))) :
    ∃ pre t rest, scan cfg.delims src line = pre ++ t :: rest ∧ (t.ty = .tag ∨ t.ty = .obj) ∧
      se.line = line + countNL (srcs pre) ∧ src = srcs pre ++ (t.source ++ srcs rest) ∧ se.pathSet = true := by
  have hrun : run P O cfg fs fuel src line env = .err se := by
    unfold run
    rw [hc]
    simp only
    have hpf : (frender P O cfg fs fuel root env).pureFail = some (.located se) := by
      unfold frender
      rw [Prog.pureFail_bind, Prog.pureRet_none_of_pureFail _ _ (Prog.pureFail_of_runPure _ _ _ hr)]
      exact Prog.pureFail_of_runPure _ _ _ hr
    rw [Prog.runPure_of_pureFail _ _ hpf]
  obtain ⟨pre, t, rest, h1, h2, h3, h4, h5, h6⟩ := run_error_at_tag_or_object P O cfg fs fuel src line env se hni hrun
  exact ⟨pre, t, rest, h1, h2, by rw [h3, h4], h5, h6⟩

/-! ### A concrete instance

`{% include "f" %}` at line 4 of the template `d/t`, the file `f` is `⏎⏎{{ y }}` (strict variables, `y` unbound):
the file compiles — at line 4 — to a text at line 4 and an object at line 6; the render of the file fails at the
object; the include fails with that error, line 6 = 4 + the two newlines before the object, path of `d/t`. -/
def c14ErrFs : FS := ⟨fun _ => .content [10, 10, 123, 123, 32, 121, 32, 125, 125], fun _ => none⟩
def c14ErrCfg : Cfg := { strict := true, path := [100, 47, 116] }

theorem c14Err_inner (P : Prims) (O : OutPrims) :
    (renderRoot (mkCtx P O c14ErrCfg c14ErrFs 0) [.text 4 [10, 10], .obj 6 (.var [121])] []).runPure =
      ([], .err (.located ⟨6, true, .other "undefinedVariable", .byCause⟩)) := by
  simp [renderRoot, renderList, renderNode, wrapFailAt, M.mapFail, M.bind, M.pure, M.getEnv, M.ofRes, M.fail,
    writeM, Prog.bind, Prog.mapFail, Prog.runPure, bind, pure, mkCtx, evaluate, eval, Env.get, GoVal.unwrap, GoVal.isNil,
    GoVal.toLiquid, wrapError, c14ErrCfg]

example (P : Prims) (O : OutPrims) :
    renderNode (mkCtx P O c14ErrCfg c14ErrFs 1) (.incl 4 [34, 102, 34]) ⟨[], {}⟩ =
      .fail (.located ⟨6, true, .other "undefinedVariable", .byCause⟩) := by
  obtain ⟨se, hse, _, _, h⟩ := include_render_err_located P O c14ErrCfg c14ErrFs 0 4 [34, 102, 34] ⟨[], {}⟩ (.lit (.str [102])) [102]
    [10, 10, 123, 123, 32, 121, 32, 125, 125] [.text 4 [10, 10], .obj 6 (.var [121])] [] _ rfl rfl rfl rfl (c14Err_inner P O)
  cases hse
  exact h (Or.inl (by decide))

/-- `include_render_err_at_file_token` on this instance: the object token `{{ y }}` of the file, two newlines
    after the start of the file -/
example (P : Prims) (O : OutPrims) :
    ∃ pre t rest, scan c14ErrCfg.delims [10, 10, 123, 123, 32, 121, 32, 125, 125] 4 = pre ++ t :: rest ∧ (t.ty = .tag ∨ t.ty = .obj) ∧
      (6 : Nat) = 4 + countNL (srcs pre) ∧ [10, 10, 123, 123, 32, 121, 32, 125, 125] = srcs pre ++ (t.source ++ srcs rest) ∧ true = true :=
  include_render_err_at_file_token P O c14ErrCfg c14ErrFs 0 4 [] [10, 10, 123, 123, 32, 121, 32, 125, 125]
    [.text 4 [10, 10], .obj 6 (.var [121])] [] ⟨6, true, .other "undefinedVariable", .byCause⟩ rfl (by decide) (c14Err_inner P O)

/-- `include_sentinel_passes`: the file is `{% break %}`; included at line 4 of `d/t` it hands a `break` located
    at line 4 to the including template and inserts nothing -/
def c14BrkFs : FS := ⟨fun _ => .content [123, 37, 32, 98, 114, 101, 97, 107, 32, 37, 125], fun _ => none⟩

theorem c14Brk_inner (P : Prims) (O : OutPrims) :
    (renderRoot (mkCtx P O { path := [100, 47, 116] } c14BrkFs 0) [.brk 4] []).runPure =
      ([], .ok (.brk ⟨4, true, .brk, .byCause⟩)) := by
  simp [renderRoot, renderList, renderNode, M.bind, M.pure, Prog.bind, Prog.runPure, bind, pure, mkCtx, wrapError]

example (P : Prims) (O : OutPrims) :
    renderNode (mkCtx P O { path := [100, 47, 116] } c14BrkFs 1) (.incl 4 [34, 102, 34]) ⟨[], {}⟩ =
      .ret (.brk ⟨4, true, .brk, .byCause⟩, ⟨[], {}⟩) := by
  have h := (include_sentinel_passes P O { path := [100, 47, 116] } c14BrkFs 0 4 [34, 102, 34] ⟨[], {}⟩ (.lit (.str [102])) [102]
    [123, 37, 32, 98, 114, 101, 97, 107, 32, 37, 125] [.brk 4] [] _ rfl rfl rfl rfl (c14Brk_inner P O) (by simp)).1
  rw [h]
  simp [Status.wrap, wrapError]
