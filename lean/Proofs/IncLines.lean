import Proofs.SrcCompileLines
/-!
# The include nodes of a compiled tree stand at the lines of the tags named `include`

`Node.ilines` collects the lines and argument texts of the include nodes of a tree, `AST.itokLines` those of the plain
tags named `include` of a parse tree. The compiler makes an include node only from such a tag, at its line
(`ipost_compileList`), and the tags of a derived tree are tokens of the source (`Derives.itokLines`).
-/

mutual
def Node.ilines : Node → List (Nat × Bytes)
  | .incl line args => [(line, args)]
  | .capture _ _ body => ilinesList body
  | .ifB _ bs => ilinesBranches bs
  | .caseB _ _ cs => ilinesCases cs
  | .loop _ _ _ _ _ body clauses => ilinesList body ++ ilinesClauses clauses
  | _ => []
def ilinesList : List Node → List (Nat × Bytes)
  | [] => []
  | n :: ns => n.ilines ++ ilinesList ns
def ilinesBranches : List (CondT × List Node) → List (Nat × Bytes)
  | [] => []
  | (_, body) :: rest => ilinesList body ++ ilinesBranches rest
def ilinesCases : List (Option (Nat × List Expr) × List Node) → List (Nat × Bytes)
  | [] => []
  | (_, body) :: rest => ilinesList body ++ ilinesCases rest
def ilinesClauses : List (List Node) → List (Nat × Bytes)
  | [] => []
  | c :: cs => ilinesList c ++ ilinesClauses cs
end

mutual
def AST.itokLines : AST → List (Nat × Bytes)
  | .tag t => if t.name == nmInclude then [(t.line, t.args)] else []
  | .block _ body clauses => itokLinesList body ++ itokLinesClauses clauses
  | _ => []
def itokLinesList : List AST → List (Nat × Bytes)
  | [] => []
  | n :: ns => n.itokLines ++ itokLinesList ns
def itokLinesClauses : List (Token × List AST) → List (Nat × Bytes)
  | [] => []
  | (_, body) :: cs => itokLinesList body ++ itokLinesClauses cs
end

def ilinesCClauses : List (Token × List Node) → List (Nat × Bytes)
  | [] => []
  | (_, body) :: cs => ilinesList body ++ ilinesCClauses cs

/-- no condition on errors -/
abbrev AnyErr : SErr → Prop := fun _ => True

theorem cpost_true {α} (x : CRes α) : CPost AnyErr (fun _ => True) x := by
  cases x <;> exact True.intro

theorem ilinesList_append : ∀ a b : List Node, ilinesList (a ++ b) = ilinesList a ++ ilinesList b
  | [], _ => rfl
  | n :: ns, b => by simp [ilinesList, ilinesList_append ns b]

theorem ilinesClauses_map_snd : ∀ cs : List (Token × List Node), ilinesClauses (cs.map (·.2)) = ilinesCClauses cs
  | [] => rfl
  | (t, body) :: cs => by simp [ilinesClauses, ilinesCClauses, ilinesClauses_map_snd cs]

theorem ipost_ifClauseTests (I : List (Nat × Bytes)) :
    ∀ cs : List (Token × List Node), (∀ x, x ∈ ilinesCClauses cs → x ∈ I) →
      CPost AnyErr (fun r => ∀ x, x ∈ ilinesBranches r → x ∈ I) (compileIfClauseTests cs)
  | [], _ => by simp [compileIfClauseTests, CPost, ilinesBranches]
  | (t, body) :: cs, hI => by
    unfold compileIfClauseTests
    refine CPost.bind (cpost_true _) (fun test _ =>
      CPost.bind (ipost_ifClauseTests I cs (fun x hx => hI x (by simp [ilinesCClauses, hx]))) (fun rest hrest =>
        CPost.pure _ (fun x hx => ?_)))
    simp only [ilinesBranches, List.mem_append] at hx
    rcases hx with hx | hx
    · exact hI x (by simp [ilinesCClauses, hx])
    · exact hrest x hx

theorem ipost_caseClauses (I : List (Nat × Bytes)) :
    ∀ cs : List (Token × List Node), (∀ x, x ∈ ilinesCClauses cs → x ∈ I) →
      CPost AnyErr (fun r => ∀ x, x ∈ ilinesCases r → x ∈ I) (compileCaseClauses cs)
  | [], _ => by simp [compileCaseClauses, CPost, ilinesCases]
  | (t, body) :: cs, hI => by
    unfold compileCaseClauses
    refine CPost.bind (cpost_true _) (fun c _ =>
      CPost.bind (ipost_caseClauses I cs (fun x hx => hI x (by simp [ilinesCClauses, hx]))) (fun rest hrest =>
        CPost.pure _ (fun x hx => ?_)))
    simp only [ilinesCases, List.mem_append] at hx
    rcases hx with hx | hx
    · exact hI x (by simp [ilinesCClauses, hx])
    · exact hrest x hx

/-- the post-condition: include nodes only at the lines `I` -/
def ILines (I : List (Nat × Bytes)) (ns : List Node) : Prop := ∀ x, x ∈ ilinesList ns → x ∈ I

theorem ilines_none (I : List (Nat × Bytes)) (n : Node) (h : n.ilines = []) : ILines I [n] := by
  intro x hx
  simp [ilinesList, h] at hx

mutual
theorem ipost_compileNode (I : List (Nat × Bytes)) :
    ∀ a : AST, (∀ x, x ∈ a.itokLines → x ∈ I) → CPost AnyErr (ILines I) (compileNode a)
  | .text t, _ => ilines_none I _ rfl
  | .obj t, _ => by
    unfold compileNode
    split
    · exact ilines_none I _ rfl
    · exact True.intro
    · exact True.intro
    · exact True.intro
  | .trim l, _ => ilines_none I _ rfl
  | .raw sl, _ => ilines_none I _ rfl
  | .tag t, hI => by
    unfold compileNode
    split
    · refine CPost.bind (cpost_true _) (fun st _ => ?_)
      split
      · exact CPost.pure _ (ilines_none I _ rfl)
      · exact True.intro
    · split
      · next h =>
        intro x hx
        simp only [ilinesList, Node.ilines, List.append_nil, List.mem_singleton] at hx
        subst hx
        exact hI _ (by simp [AST.itokLines, h])
      · split
        · exact ilines_none I _ rfl
        · split
          · exact ilines_none I _ rfl
          · split
            · refine CPost.bind (cpost_true _) (fun st _ => ?_)
              split
              · exact CPost.pure _ (ilines_none I _ rfl)
              · exact True.intro
            · exact True.intro
  | .block t body clauses, hI => by
    unfold compileNode
    refine CPost.bind (ipost_compileList I body (fun x hx => hI x (by simp [AST.itokLines, hx]))) (fun b hb =>
      CPost.bind (ipost_compileClauses I clauses (fun x hx => hI x (by simp [AST.itokLines, hx]))) (fun cs hcs => ?_))
    split
    · refine CPost.bind (cpost_true _) (fun e _ =>
        CPost.bind (ipost_ifClauseTests I cs hcs) (fun rest hrest => CPost.pure _ (fun x hx => ?_)))
      simp only [ilinesList, Node.ilines, ilinesBranches, List.append_nil, List.mem_append] at hx
      rcases hx with hx | hx
      · exact hb x hx
      · exact hrest x hx
    · split
      · refine CPost.bind (cpost_true _) (fun e _ =>
          CPost.bind (ipost_caseClauses I cs hcs) (fun cases hcases => CPost.pure _ (fun x hx => ?_)))
        simp only [ilinesList, Node.ilines, List.append_nil] at hx
        exact hcases x hx
      · split
        · refine CPost.bind (cpost_true _) (fun st _ => ?_)
          split
          · refine CPost.pure _ (fun x hx => ?_)
            simp only [ilinesList, Node.ilines, List.append_nil, List.mem_append, ilinesClauses_map_snd] at hx
            rcases hx with hx | hx
            · exact hb x hx
            · exact hcs x hx
          · exact True.intro
        · split
          · refine CPost.pure _ (fun x hx => ?_)
            simp only [ilinesList, Node.ilines, List.append_nil] at hx
            exact hb x hx
          · exact True.intro
theorem ipost_compileList (I : List (Nat × Bytes)) :
    ∀ as : List AST, (∀ x, x ∈ itokLinesList as → x ∈ I) → CPost AnyErr (ILines I) (compileList as)
  | [], _ => by simp [compileList, CPost, ILines, ilinesList]
  | a :: as, hI => by
    unfold compileList
    refine CPost.bind (ipost_compileNode I a (fun x hx => hI x (by simp [itokLinesList, hx]))) (fun na hna =>
      CPost.bind (ipost_compileList I as (fun x hx => hI x (by simp [itokLinesList, hx]))) (fun nb hnb =>
        CPost.pure _ (fun x hx => ?_)))
    rw [ilinesList_append, List.mem_append] at hx
    exact hx.elim (hna x) (hnb x)
theorem ipost_compileClauses (I : List (Nat × Bytes)) :
    ∀ cs : List (Token × List AST), (∀ x, x ∈ itokLinesClauses cs → x ∈ I) →
      CPost AnyErr (fun r => ∀ x, x ∈ ilinesCClauses r → x ∈ I) (compileClauses cs)
  | [], _ => by simp [compileClauses, CPost, ilinesCClauses]
  | (t, body) :: cs, hI => by
    unfold compileClauses
    refine CPost.bind (ipost_compileList I body (fun x hx => hI x (by simp [itokLinesClauses, hx]))) (fun b hb =>
      CPost.bind (ipost_compileClauses I cs (fun x hx => hI x (by simp [itokLinesClauses, hx]))) (fun rest hrest =>
        CPost.pure _ (fun x hx => ?_)))
    simp only [ilinesCClauses, List.mem_append] at hx
    rcases hx with hx | hx
    · exact hb x hx
    · exact hrest x hx
end

/-! ## From the tree to the tokens -/

/-- `x` is the line and the argument text of a tag token named `include` -/
def IncTokLine (toks : List Token) (x : Nat × Bytes) : Prop := ∃ t ∈ toks, t.line = x.1 ∧ t.args = x.2 ∧ t.ty = .tag ∧ t.name = nmInclude

theorem IncTokLine.cons {toks : List Token} {x : Nat × Bytes} (t0 : Token) (h : IncTokLine toks x) : IncTokLine (t0 :: toks) x := by
  obtain ⟨t, ht, hl⟩ := h
  exact ⟨t, List.mem_cons_of_mem _ ht, hl⟩

theorem IncTokLine.mono {a b : List Token} {x : Nat × Bytes} (h : IncTokLine a x) (hs : ∀ t, t ∈ a → t ∈ b) : IncTokLine b x := by
  obtain ⟨t, ht, hl⟩ := h
  exact ⟨t, hs t ht, hl⟩

theorem itokLines_segs : ∀ (segs : List Seg),
    (∀ sg, sg ∈ segs → ∀ x, x ∈ itokLinesList sg.2.2 → IncTokLine sg.2.1 x) →
    ∀ x, x ∈ itokLinesClauses (segASTs segs) → IncTokLine (segToks segs) x
  | [], _, x, hx => by simp [segASTs, itokLinesClauses] at hx
  | (c, ts, ns) :: r, ih, x, hx => by
    simp only [segASTs, itokLinesClauses, List.mem_append] at hx
    simp only [segToks]
    rcases hx with hx | hx
    · exact ((ih (c, ts, ns) (List.mem_cons_self ..) x hx).mono (fun t ht => List.mem_append_left _ ht)).cons c
    · exact ((itokLines_segs r (fun sg h => ih sg (List.mem_cons_of_mem _ h)) x hx).mono
        (fun t ht => List.mem_append_right _ ht)).cons c

/-- every line of a plain tag named `include` of the derived tree is the line of such a tag token -/
theorem Derives.itokLines {g : Grammar} {chk : Bytes → Option Cause} {toks : List Token} {ast : List AST}
    (h : Derives g chk toks ast) : ∀ x, x ∈ itokLinesList ast → IncTokLine toks x := by
  induction h with
  | nil => intro x hx; simp [itokLinesList] at hx
  | text t rest ns ht _ ih =>
    intro x hx
    simp only [itokLinesList, AST.itokLines, List.nil_append] at hx
    exact (ih x hx).cons t
  | obj t rest ns ht hc _ ih =>
    intro x hx
    simp only [itokLinesList, AST.itokLines, List.nil_append] at hx
    exact (ih x hx).cons t
  | trimL t rest ns ht _ ih =>
    intro x hx
    simp only [itokLinesList, AST.itokLines, List.nil_append] at hx
    exact (ih x hx).cons t
  | trimR t rest ns ht _ ih =>
    intro x hx
    simp only [itokLinesList, AST.itokLines, List.nil_append] at hx
    exact (ih x hx).cons t
  | tag t rest ns ht _ ih =>
    intro x hx
    simp only [itokLinesList, AST.itokLines, List.mem_append] at hx
    rcases hx with hx | hx
    · split at hx
      · next hn =>
        simp only [List.mem_singleton] at hx
        simp only [Grammar.isPlain, Bool.and_eq_true, beq_iff_eq] at ht
        subst hx
        exact ⟨t, List.mem_cons_self .., rfl, rfl, ht.1, by simpa using hn⟩
      · simp at hx
    · exact (ih x hx).cons t
  | comment o c interior rest ns ho hi hc _ ih =>
    intro x hx
    exact ((ih x hx).mono (fun t ht => List.mem_append_right _ (List.mem_cons_of_mem _ ht))).cons o
  | raw o c interior rest ns ho hi hc _ ih =>
    intro x hx
    simp only [itokLinesList, AST.itokLines, List.nil_append] at hx
    exact ((ih x hx).mono (fun t ht => List.mem_append_right _ (List.mem_cons_of_mem _ ht))).cons o
  | block o e body bns segs rest ns ho _ hcl _ he _ ihb ihs ihr =>
    intro x hx
    simp only [itokLinesList, AST.itokLines, List.mem_append] at hx
    rcases hx with (hx | hx) | hx
    · exact ((ihb x hx).mono (fun t ht => List.mem_append_left _ ht)).cons o
    · exact ((itokLines_segs segs ihs x hx).mono
        (fun t ht => List.mem_append_right _ (List.mem_append_left _ ht))).cons o
    · exact ((ihr x hx).mono
        (fun t ht => List.mem_append_right _ (List.mem_append_right _ (List.mem_cons_of_mem _ ht)))).cons o
